/-
  Line-protocol helpers shared by every area driver: hex codecs, float bit transfer,
  integer parsing.  Core only.
-/
namespace TrackVerif.Proto

def hexDigit (n : Nat) : Char :=
  if n < 10 then Char.ofNat (48 + n) else Char.ofNat (87 + n)

def hexVal? (c : Char) : Option Nat :=
  if '0' ≤ c ∧ c ≤ '9' then some (c.toNat - 48)
  else if 'a' ≤ c ∧ c ≤ 'f' then some (c.toNat - 87)
  else if 'A' ≤ c ∧ c ≤ 'F' then some (c.toNat - 55)
  else none

def hexOfBytes (bs : List UInt8) : String :=
  String.ofList (bs.flatMap fun b => [hexDigit (b.toNat / 16), hexDigit (b.toNat % 16)])

def bytesOfHexChars : List Char → Option (List UInt8)
  | [] => some []
  | [_] => none
  | a :: b :: rest =>
    match hexVal? a, hexVal? b, bytesOfHexChars rest with
    | some x, some y, some r => some (UInt8.ofNat (x * 16 + y) :: r)
    | _, _, _ => none

/-- "-" encodes the empty byte string (so that tokens are never empty) -/
def bytesOfHex (s : String) : Option (List UInt8) :=
  if s == "-" then some [] else bytesOfHexChars s.toList

def hexOfBytesTok (bs : List UInt8) : String :=
  if bs.isEmpty then "-" else hexOfBytes bs

def natOfHex? (s : String) : Option Nat :=
  s.toList.foldl (fun acc c => match acc, hexVal? c with
    | some a, some v => some (a * 16 + v)
    | _, _ => none) (if s.isEmpty then none else some 0)

def hexOfNat (width : Nat) (n : Nat) : String :=
  String.ofList ((List.range width).reverse.map fun i => hexDigit ((n / 16 ^ i) % 16))

/-- floats cross the protocol as the 16 hex digits of their IEEE-754 bits -/
def floatOfHex? (s : String) : Option Float :=
  if s == "nan" then some (0.0 / 0.0)
  else if s.length = 16 then (natOfHex? s).map fun n => Float.ofBits (UInt64.ofNat n) else none

/-- NaN payloads are not compared: every NaN is written "nan" -/
def hexOfFloat (f : Float) : String := if f.isNaN then "nan" else hexOfNat 16 f.toBits.toNat

def stringOfHex? (s : String) : Option String :=
  (bytesOfHex s).bind fun bs => String.fromUTF8? (ByteArray.mk bs.toArray)

def hexOfString (s : String) : String := hexOfBytesTok s.toUTF8.toList

def int? (s : String) : Option Int := s.toInt?
def nat? (s : String) : Option Nat := s.toNat?

/-- split a line into non-empty space separated tokens -/
def tokens (line : String) : List String :=
  (line.splitOn " ").filter (· ≠ "")

/-- relative/absolute closeness used wherever libm or multi-rounding is involved -/
def closeRel (tol : Float) (a b : Float) : Bool :=
  if a.isNaN || b.isNaN then a.isNaN && b.isNaN
  else if a == b then true
  else Float.abs (a - b) ≤ tol * (Float.abs a + Float.abs b) || Float.abs (a - b) ≤ 1e-300

end TrackVerif.Proto
