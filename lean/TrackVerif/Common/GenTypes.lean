/-  Types of the tables emitted by the Go-AST translator (`/verif/go/extract`). -/
namespace TrackVerif.Gen

/-- a decimal literal `mant / 10^places` -/
structure DecLit where
  mant : Nat
  places : Nat
  deriving DecidableEq, Repr

/-- arithmetic body of a unit converter `func(v float64) float64` -/
inductive Expr
  | v
  | lit (d : DecLit)
  | const (name : String)
  | add (a b : Expr)
  | sub (a b : Expr)
  | mul (a b : Expr)
  | div (a b : Expr)
  deriving DecidableEq, Repr

/-- one `case "Header":` of `trackaddict.Decoder.columns` -/
structure ColRow where
  header : String
  target : String          -- field path that the parser assigns, e.g. "GPS.Altitude"
  kind : String            -- scalar parser: duration | float | floatp | bool | int | sscanf:…
  convs : List String      -- converter chain, in application order
  applies : Bool           -- the chain is actually forwarded to the scalar parser
  deriving DecidableEq, Repr

end TrackVerif.Gen

namespace TrackVerif.Gen

/-- one position of an anchored fixed-length regular expression: the rune ranges accepted
    there and the capture group (0 = none) the position belongs to -/
structure RePos where
  cls : List (Nat × Nat)
  group : Nat
  deriving DecidableEq, Repr

/-- a regexp literal of `matcher.go`, parsed by `regexp/syntax` in the translator -/
structure RePattern where
  source : String
  anchoredBegin : Bool
  anchoredEnd : Bool
  groups : Nat
  positions : List RePos
  deriving DecidableEq, Repr

end TrackVerif.Gen

namespace TrackVerif.Gen

/-- a Go type expression of `pkg/laptimer/types.go` -/
inductive LtType
  | basic (k : String)          -- int, int64, float64, string, bool, struct{}
  | named (n : String)
  | ptr (t : LtType)
  | slice (t : LtType)
  deriving DecidableEq, Repr, Inhabited

/-- one struct field with its `xml:"…"` tag -/
structure LtField where
  goName : String
  xmlName : String
  attr : Bool
  omitempty : Bool
  embedded : Bool
  typ : LtType
  deriving DecidableEq, Repr

end TrackVerif.Gen

namespace TrackVerif.Gen

/-- a configuration value as viper hands it to the command (keys lower-cased) -/
inductive CliVal
  | str (s : String)
  | bool (b : Bool)
  | num (text : String)             -- integers and floats, in their shortest decimal spelling
  | list (vs : List CliVal)
  | table (kvs : List (String × CliVal))
  deriving Repr, Inhabited

/-- one `fs.XxxVar(&c.Path, "name", default, …)` -/
structure CliFlag where
  name : String
  path : List String          -- destination field path inside the decoded struct
  kind : String               -- string | bool | float | int | strings | date
  dflt : String
  deriving DecidableEq, Repr

/-- one command: its config section, the struct the section is decoded onto, its flags and the
    option fields of that struct (path, Go type) -/
structure CliCmd where
  sect : String
  target : String
  flags : List CliFlag
  fields : List (List String × String)
  deriving DecidableEq, Repr

end TrackVerif.Gen
