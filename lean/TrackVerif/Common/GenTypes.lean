/-  Types of the tables emitted by the Go-AST translator (`/verif/go/extract`). -/
namespace TrackVerif.Gen

/-- a decimal literal `mant / 10^places` -/
structure DecLit where
  mant : Nat
  places : Nat
  deriving DecidableEq, Repr

/-- arithmetic body of a unit converter `func(v float64) float64` -/
inductive Expr
  | v
  | lit (d : DecLit)
  | const (name : String)
  | add (a b : Expr)
  | sub (a b : Expr)
  | mul (a b : Expr)
  | div (a b : Expr)
  deriving DecidableEq, Repr

/-- one `case "Header":` of `trackaddict.Decoder.columns` -/
structure ColRow where
  header : String
  target : String          -- field path that the parser assigns, e.g. "GPS.Altitude"
  kind : String            -- scalar parser: duration | float | floatp | bool | int | sscanf:…
  convs : List String      -- converter chain, in application order
  applies : Bool           -- the chain is actually forwarded to the scalar parser
  deriving DecidableEq, Repr

end TrackVerif.Gen

namespace TrackVerif.Gen

/-- one position of an anchored fixed-length regular expression: the rune ranges accepted
    there and the capture group (0 = none) the position belongs to -/
structure RePos where
  cls : List (Nat × Nat)
  group : Nat
  deriving DecidableEq, Repr

/-- a regexp literal of `matcher.go`, parsed by `regexp/syntax` in the translator -/
structure RePattern where
  source : String
  anchoredBegin : Bool
  anchoredEnd : Bool
  groups : Nat
  positions : List RePos
  deriving DecidableEq, Repr

end TrackVerif.Gen

namespace TrackVerif.Gen

/-- a Go type expression of `pkg/laptimer/types.go` -/
inductive LtType
  | basic (k : String)          -- int, int64, float64, string, bool, struct{}
  | named (n : String)
  | ptr (t : LtType)
  | slice (t : LtType)
  deriving DecidableEq, Repr, Inhabited

/-- one struct field with its `xml:"…"` tag -/
structure LtField where
  goName : String
  xmlName : String
  attr : Bool
  omitempty : Bool
  embedded : Bool
  typ : LtType
  deriving DecidableEq, Repr

end TrackVerif.Gen
