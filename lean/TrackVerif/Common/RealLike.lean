/-
  One definition, two instances: numeric routines are written once over `RealLike α`;
  `Float` (core, executable) drives the correspondence with Go's float64, `ℝ` (Mathlib, in
  Proofs) is what the theorems are about.  Core only.
-/
namespace TrackVerif

class RealLike (α : Type) where
  add : α → α → α
  sub : α → α → α
  mul : α → α → α
  div : α → α → α
  neg : α → α
  ofNat : Nat → α
  /-- m / 10^k for small decimal constants (0.5, 0.74, …) -/
  ofDec : Nat → Nat → α
  sin : α → α
  cos : α → α
  sqrt : α → α
  asin : α → α
  abs : α → α
  le : α → α → Bool
  lt : α → α → Bool
  pi : α
  /-- `math.Pi / 180` (one rounding in Go: a constant expression) -/
  deg2rad : α
  /-- IEEE remainder of x with respect to 360 (`math.Remainder(x, 360)`) -/
  rem360 : α → α

namespace RealLike
variable {α : Type} [RealLike α]
instance : Add α := ⟨RealLike.add⟩
instance : Sub α := ⟨RealLike.sub⟩
instance : Mul α := ⟨RealLike.mul⟩
instance : Div α := ⟨RealLike.div⟩
instance : Neg α := ⟨RealLike.neg⟩
end RealLike

end TrackVerif
