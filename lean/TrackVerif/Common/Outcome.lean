/-
  Outcome: crashes are values.  Every Go operation that can panic is modelled by a
  *partial* helper that returns `.panic …`; nothing in a model may totalise indexing
  (`l[i]!`, `getD`, `n / 0 = 0`), so "never panics" is a real theorem about the model.
-/
namespace TrackVerif

inductive ErrClass
  | io | parse | format | config | notFound | invalid | eof | other
  deriving DecidableEq, Repr, Inhabited

inductive PanicClass
  | index | slice | divZero | nilDeref | typeAssert | explicit
  deriving DecidableEq, Repr, Inhabited

inductive Outcome (α : Type)
  | ok (a : α)
  | err (e : ErrClass)
  | panic (p : PanicClass)
  | unmodelled
  deriving Repr, DecidableEq

namespace Outcome
variable {α β : Type}

@[inline] def bind (x : Outcome α) (f : α → Outcome β) : Outcome β :=
  match x with
  | .ok a => f a
  | .err e => .err e
  | .panic p => .panic p
  | .unmodelled => .unmodelled

@[inline] def map (f : α → β) (x : Outcome α) : Outcome β :=
  x.bind (fun a => .ok (f a))

instance : Monad Outcome where
  pure := .ok
  bind := bind

def isOk : Outcome α → Bool
  | .ok _ => true
  | _ => false

def isPanic : Outcome α → Bool
  | .panic _ => true
  | _ => false

def isErr : Outcome α → Bool
  | .err _ => true
  | _ => false

@[simp] theorem bind_ok (a : α) (f : α → Outcome β) : (Outcome.ok a).bind f = f a := rfl
@[simp] theorem bind_err (e : ErrClass) (f : α → Outcome β) : (Outcome.err e : Outcome α).bind f = .err e := rfl
@[simp] theorem bind_panic (p : PanicClass) (f : α → Outcome β) : (Outcome.panic p : Outcome α).bind f = .panic p := rfl
@[simp] theorem bind_unmodelled (f : α → Outcome β) : (Outcome.unmodelled : Outcome α).bind f = .unmodelled := rfl
@[simp] theorem pure_eq (a : α) : (pure a : Outcome α) = .ok a := rfl
@[simp] theorem bind_eq (x : Outcome α) (f : α → Outcome β) : (x >>= f) = x.bind f := rfl

/-- class string used on the line protocol -/
def tag : Outcome α → String
  | .ok _ => "ok"
  | .err _ => "err"
  | .panic _ => "panic"
  | .unmodelled => "unmodelled"

end Outcome

/-- Go `l[i]` -/
def idx? {α : Type} (l : List α) (i : Nat) : Outcome α :=
  match l[i]? with
  | some a => .ok a
  | none => .panic .index

/-- Go `l[lo:hi]` (on a slice whose capacity equals its length) -/
def slice? {α : Type} (l : List α) (lo hi : Nat) : Outcome (List α) :=
  if lo ≤ hi ∧ hi ≤ l.length then .ok ((l.drop lo).take (hi - lo)) else .panic .slice

/-- Go `l[lo:]` -/
def sliceFrom? {α : Type} (l : List α) (lo : Nat) : Outcome (List α) :=
  if lo ≤ l.length then .ok (l.drop lo) else .panic .slice

/-- Go integer division -/
def divNat? (a b : Nat) : Outcome Nat :=
  if b = 0 then .panic .divZero else .ok (a / b)

theorem idx?_ok_of_lt {α : Type} (l : List α) (i : Nat) (h : i < l.length) :
    idx? l i = .ok l[i] := by
  simp [idx?, List.getElem?_eq_getElem h]

end TrackVerif

namespace TrackVerif
namespace Outcome
variable {α β : Type}

/-- the outcome is not a Go panic -/
def NoPanic (x : Outcome α) : Prop := ∀ p, x ≠ .panic p

@[simp] theorem noPanic_ok (a : α) : NoPanic (.ok a) := by intro p h; cases h
@[simp] theorem noPanic_err (e : ErrClass) : NoPanic (.err e : Outcome α) := by intro p h; cases h
@[simp] theorem noPanic_unmodelled : NoPanic (.unmodelled : Outcome α) := by intro p h; cases h
@[simp] theorem not_noPanic_panic (p : PanicClass) : ¬ NoPanic (.panic p : Outcome α) := fun h => h p rfl

theorem bind_eq_ok {x : Outcome α} {f : α → Outcome β} {b : β} :
    x.bind f = .ok b ↔ ∃ a, x = .ok a ∧ f a = .ok b := by
  cases x <;> simp [bind]

theorem map_eq_ok {x : Outcome α} {f : α → β} {b : β} :
    x.map f = .ok b ↔ ∃ a, x = .ok a ∧ f a = b := by
  cases x <;> simp [map, bind]

theorem noPanic_bind {x : Outcome α} {f : α → Outcome β}
    (hx : NoPanic x) (hf : ∀ a, x = .ok a → NoPanic (f a)) : NoPanic (x.bind f) := by
  cases x with
  | ok a => simpa [bind] using hf a rfl
  | err e => simp [bind]
  | panic p => exact absurd hx (by simp)
  | unmodelled => simp [bind]

theorem noPanic_map {x : Outcome α} {f : α → β} (hx : NoPanic x) : NoPanic (x.map f) :=
  noPanic_bind hx (fun _ _ => by simp)

theorem noPanic_ite {c : Prop} [Decidable c] {a b : Outcome α}
    (ha : c → NoPanic a) (hb : ¬ c → NoPanic b) : NoPanic (if c then a else b) := by
  split
  · exact ha ‹_›
  · exact hb ‹_›

end Outcome
end TrackVerif

namespace TrackVerif.Outcome

instance : LawfulMonad Outcome := LawfulMonad.mk'
  (id_map := fun x => by cases x <;> rfl)
  (pure_bind := fun _ _ => rfl)
  (bind_assoc := fun x _ _ => by cases x <;> rfl)

end TrackVerif.Outcome
