/-
  Exact decimal <-> IEEE-754 double conversion with `Nat` arithmetic, so that the
  executable models never depend on `Float.ofScientific` (not guaranteed correctly
  rounded) or on libc printf.  These mirror what Go's `strconv.ParseFloat` and
  `fmt.Sprintf("%.Nf")` compute (correct rounding, ties to even) and are themselves
  validated against Go by the correspondence runs.  Core only.
-/
namespace TrackVerif.Dec

/-- number of bits of `n` (0 for 0) -/
def bitLen (n : Nat) : Nat := if n = 0 then 0 else n.log2 + 1

/-- round-half-even of `n / 2^sh` given that extra `sticky` bits were already dropped -/
def shiftRoundEven (n : Nat) (sh : Nat) (sticky : Bool) : Nat :=
  if sh = 0 then n else
  let q := n >>> sh
  let rem := n % (2 ^ sh)
  let half := 2 ^ (sh - 1)
  if rem > half then q + 1
  else if rem < half then q
  else if sticky then q + 1
  else if q % 2 = 1 then q + 1 else q

/-- nearest double (bits, without sign) to the positive rational `num / den` (`den ≠ 0`) -/
def ratToBits (num den : Nat) : Nat :=
  if num = 0 then 0 else
  let lb : Int := (num.log2 : Int) - (den.log2 : Int)
  let s : Int := 55 - lb
  let n' := if s ≥ 0 then num <<< s.toNat else num
  let d' := if s ≥ 0 then den else den <<< (-s).toNat
  let q := n' / d'
  let sticky := n' % d' ≠ 0
  -- value = q * 2^(-s) (plus sticky); q has 55..57 bits
  let e : Int := (bitLen q : Int) - 1 - s          -- floor(log2 value)
  let ulp : Int := if e - 52 < -1074 then -1074 else e - 52
  let sh : Int := s + ulp
  if sh < 0 then 0x7ff0000000000000 else            -- cannot happen (q has ≥ 55 bits)
  let mant := shiftRoundEven q sh.toNat sticky
  let (mant, ulp) := if mant ≥ 2 ^ 53 then (mant / 2, ulp + 1) else (mant, ulp)
  if mant < 2 ^ 52 then mant                          -- subnormal (or zero)
  else
    let biased : Int := ulp + 52 + 1023
    if biased ≥ 2047 then 0x7ff0000000000000
    else biased.toNat * 2 ^ 52 + (mant - 2 ^ 52)

/-- bits of the double nearest to `(-1)^neg * m * 10^e10` -/
def decimalToBits (neg : Bool) (m : Nat) (e10 : Int) : UInt64 :=
  let mag :=
    if e10 ≥ 0 then ratToBits (m * 10 ^ e10.toNat) 1 else ratToBits m (10 ^ (-e10).toNat)
  UInt64.ofNat (mag + (if neg then 2 ^ 63 else 0))

def decimalToFloat (neg : Bool) (m : Nat) (e10 : Int) : Float :=
  Float.ofBits (decimalToBits neg m e10)

/-- exact decomposition of a finite double: value = (-1)^neg * mant * 2^exp -/
structure Parts where
  neg : Bool
  mant : Nat
  exp : Int
  deriving Repr

inductive Class | finite (p : Parts) | inf (neg : Bool) | nan
  deriving Repr

def classify (bits : UInt64) : Class :=
  let b := bits.toNat
  let neg := b ≥ 2 ^ 63
  let be : Nat := (b / 2 ^ 52) % 2048
  let frac := b % 2 ^ 52
  if be = 2047 then (if frac = 0 then .inf neg else .nan)
  else if be = 0 then .finite ⟨neg, frac, -1074⟩
  else .finite ⟨neg, frac + 2 ^ 52, (be : Int) - 1075⟩

def padLeft (n : Nat) (c : Char) (s : List Char) : List Char :=
  List.replicate (n - s.length) c ++ s

def natDigits (n : Nat) : List Char := (toString n).toList

/-- `round_half_even (mant * 2^exp * 10^p)` as a natural number -/
def scaledRound (mant : Nat) (exp : Int) (p : Nat) : Nat :=
  if exp ≥ 0 then mant * 2 ^ exp.toNat * 10 ^ p
  else shiftRoundEven (mant * 10 ^ p) (-exp).toNat false

/-- Go `fmt.Sprintf("%.<p>f", x)` -/
def formatFixed (bits : UInt64) (p : Nat) : String :=
  match classify bits with
  | .nan => "NaN"
  | .inf neg => if neg then "-Inf" else "+Inf"
  | .finite ⟨neg, mant, exp⟩ =>
    let n := scaledRound mant exp p
    let ip := n / 10 ^ p
    let fp := n % 10 ^ p
    let s := natDigits ip ++ (if p = 0 then [] else '.' :: padLeft p '0' (natDigits fp))
    String.ofList (if neg then '-' :: s else s)

/-- the scaled integer that `%.<p>f` prints (sign separate); `none` for NaN/Inf -/
def fixedQ (bits : UInt64) (p : Nat) : Option (Bool × Nat) :=
  match classify bits with
  | .finite ⟨neg, mant, exp⟩ => some (neg, scaledRound mant exp p)
  | _ => none

/-- correctly rounded `nd`-significant-digit decimal of a positive finite value:
    returns digits `d` and exponent `e10` with value ≈ d * 10^e10, `d` having `nd` digits -/
def roundSig (mant : Nat) (exp : Int) (nd : Nat) : Nat × Int :=
  -- estimate decimal exponent: value in [10^(k-1), 10^k)
  let num := if exp ≥ 0 then mant * 2 ^ exp.toNat else mant
  let den := if exp ≥ 0 then 1 else 2 ^ (-exp).toNat
  -- k such that 10^(k-1) ≤ value < 10^k, by search from an estimate
  let est : Int := ((num.log2 : Int) - (den.log2 : Int)) * 30103 / 100000
  let lt10pow (k : Int) : Bool :=   -- value < 10^k
    if k ≥ 0 then num < den * 10 ^ k.toNat else num * 10 ^ (-k).toNat < den
  let k0 := est - 2
  let k := (List.range 8).foldl (fun (acc : Int) (i : Nat) => if lt10pow acc then acc else k0 + (i : Int) + 1) k0
  -- scale so that we keep nd digits: d = round(value * 10^(nd-k))
  let sc : Int := (nd : Int) - k
  let n' := if sc ≥ 0 then num * 10 ^ sc.toNat else num
  let d' := if sc ≥ 0 then den else den * 10 ^ (-sc).toNat
  let q := n' / d'
  let r := n' % d'
  let q := if 2 * r > d' then q + 1 else if 2 * r < d' then q else if q % 2 = 1 then q + 1 else q
  if q ≥ 10 ^ nd then (q / 10, -sc + 1) else (q, -sc)

/-- shortest decimal (digits, exp10) that parses back to `bits` (positive finite, non-zero) -/
def shortest (bits : UInt64) (mant : Nat) (exp : Int) : Nat × Int :=
  let mag := bits.toNat % 2 ^ 63
  let rec go (nd : Nat) (fuel : Nat) : Nat × Int :=
    match fuel with
    | 0 => roundSig mant exp 17
    | fuel + 1 =>
      let (d, e) := roundSig mant exp nd
      let back := if e ≥ 0 then ratToBits (d * 10 ^ e.toNat) 1 else ratToBits d (10 ^ (-e).toNat)
      if back = mag then (d, e) else go (nd + 1) fuel
  go 1 17

def stripTrailingZeros (d : Nat) (e : Int) (fuel : Nat) : Nat × Int :=
  match fuel with
  | 0 => (d, e)
  | fuel + 1 => if d ≠ 0 ∧ d % 10 = 0 then stripTrailingZeros (d / 10) (e + 1) fuel else (d, e)

/-- Go `strconv.FormatFloat(x, 'g', -1, 64)` (what encoding/xml uses for float64 fields) -/
def formatShortestG (bits : UInt64) : String :=
  match classify bits with
  | .nan => "NaN"
  | .inf neg => if neg then "-Inf" else "+Inf"
  | .finite ⟨neg, mant, exp⟩ =>
    let sign := if neg then "-" else ""
    if mant = 0 then sign ++ "0" else
    let (d, e) := shortest bits mant exp
    let (d, e) := stripTrailingZeros d e 20
    let ds := natDigits d
    let nd := ds.length
    -- decimal point position: value = 0.d1d2.. * 10^x with x = nd + e
    let x : Int := (nd : Int) + e
    -- %e is used if exp < -4 || exp >= eprec, where exp = x-1, eprec = max(nd, 6) when shortest... (eprec = 6 if nd < 6... Go: if eprec > digs.nd && digs.nd >= digs.dp {eprec = digs.nd}; if shortest {eprec = 6})
    let ex : Int := x - 1
    if ex < -4 ∨ ex ≥ 6 then
      -- %e form: d.ddde±xx
      let first := ds.head!
      let rest := ds.tail
      let m := String.ofList ([first] ++ (if rest.isEmpty then [] else '.' :: rest))
      let es := if ex < 0 then "-" else "+"
      let ea := ex.natAbs
      let ed := if ea < 10 then "0" ++ toString ea else toString ea
      sign ++ m ++ "e" ++ es ++ ed
    else
      -- %f form with shortest digits
      if x ≤ 0 then
        sign ++ "0." ++ String.ofList (List.replicate (-x).toNat '0' ++ ds)
      else if x.toNat ≥ nd then
        sign ++ String.ofList (ds ++ List.replicate (x.toNat - nd) '0')
      else
        sign ++ String.ofList (ds.take x.toNat ++ ['.'] ++ ds.drop x.toNat)

end TrackVerif.Dec
