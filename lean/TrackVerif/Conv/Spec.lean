import TrackVerif.Conv.Model
/-
  What C03 / C11 / C12 demand of the conversion, written declaratively (no accumulators):
  which laps, which rows become fixes, ids, offsets, running distance, date shift,
  linear interpolation.  Executable, so the driver can compare the real output with it.
-/
namespace TrackVerif.Conv.Spec
open TrackVerif TA Conv

variable {α : Type} [CNum α]

/-- a lap's fixes: its first row plus every later GPS-updated row, in order -/
def fixRows (recs : List (Record α)) : List (Record α) :=
  match recs with
  | [] => []
  | r :: rest => r :: rest.filter (·.gps.update)

/-- running sum of geodesic distances between successive fix positions, starting at 0 -/
def cumDist (env : Env α) : α → α → α → List (Record α) → Outcome (List α)
  | _, _, _, [] => .ok []
  | d, lat, lon, r :: rest =>
    match env.inverse lat lon r.gps.lat r.gps.lon with
    | some step =>
      match cumDist env (Num.add d step) r.gps.lat r.gps.lon rest with
      | .ok ds => .ok (Num.add d step :: ds)
      | .err e => .err e
      | .panic p => .panic p
      | .unmodelled => .unmodelled
    | none => .unmodelled

/-- distances of a lap's fixes -/
def fixDists (env : Env α) (rows : List (Record α)) : Outcome (List α) :=
  match rows with
  | [] => .ok []
  | r :: rest => (cumDist env (CNum.ofInt 0) r.gps.lat r.gps.lon rest).map (CNum.ofInt 0 :: ·)

/-- time of the first row of the first lap that has rows -/
def firstTime (laps : List (Lap α)) : Option Int :=
  (laps.find? (fun l => !l.records.isEmpty)).bind fun l => l.records.head?.bind (·.time)

/-- time of the first row that is converted: first row of the first timed lap that has rows -/
def firstConvertedTime (s : Session α) : Option Int := firstTime (innerLaps s.laps)

/-- `D − UTC midnight of the first converted row's day` (0 when no start date is requested) -/
def shiftFor (env : Env α) (o : Opts) (ft : Option Int) : Int :=
  match o.startDate, ft with
  | some d, some t => d - env.midnight t
  | _, _ => 0

/-- the one constant every date is moved by -/
def dateShift (env : Env α) (o : Opts) (s : Session α) : Int :=
  shiftFor env o (firstConvertedTime s)

/-- pair each fix row with its distance; ids count up from `firstId` -/
def zipFixes (o : Opts) (adj : Int) (firstNow : Int) : Int → List (Record α) → List α → List (Fix α)
  | _, [], _ => []
  | _, _ :: _, [] => []
  | id, r :: rs, d :: ds => lapTimerFix o adj id d r firstNow :: zipFixes o adj firstNow (id + 1) rs ds

/-- one timed lap -/
def specLap (env : Env α) (o : Opts) (adj : Int) (vehicle : String) (firstId : Int) (l : Lap α) :
    Outcome (LapOut α) :=
  match l.records with
  | [] => .ok (baseLap o l vehicle)
  | r :: rest =>
    (fixDists env (fixRows (r :: rest))).map fun ds =>
      { baseLap o l vehicle with
          date := r.time.map (· + adj)
          overall := round1dp ((ds.getLast?).getD (CNum.ofInt 0))
          fixes := zipFixes o adj r.now firstId (fixRows (r :: rest)) ds }

/-- all timed laps, fix ids running on across laps -/
def specLaps (env : Env α) (o : Opts) (adj : Int) (vehicle : String) : Int → List (Lap α) → Outcome (List (LapOut α))
  | _, [] => .ok []
  | firstId, l :: rest =>
    match specLap env o adj vehicle firstId l with
    | .ok lap =>
      match specLaps env o adj vehicle (firstId + (fixRows l.records).length) rest with
      | .ok laps => .ok (lap :: laps)
      | .err e => .err e
      | .panic p => .panic p
      | .unmodelled => .unmodelled
    | .err e => .err e
    | .panic p => .panic p
    | .unmodelled => .unmodelled

/-- C03: the whole conversion of an (already OBD-predicted) session -/
def convert (env : Env α) (o : Opts) (s : Session α) : Outcome (List (LapOut α)) :=
  let vehicle := if o.vehicle ≠ "" then o.vehicle else s.vehicle
  specLaps env o (dateShift env o s) vehicle 1 (innerLaps s.laps)

/-- C12: move every lap date and fix date by `k` -/
def shiftDates (k : Int) (laps : List (LapOut α)) : List (LapOut α) :=
  laps.map fun l => { l with date := l.date.map (· + k),
                             fixes := l.fixes.map fun f => { f with date := f.date.map (· + k) } }

/-- C12 spec used by the driver: the un-overridden conversion moved by the one constant -/
def shiftedBy (o : Opts) (midnight : Int → Int) (_lapsOf : Session α → List (Lap α))
    (without : List (LapOut α)) (s : Option (Session α)) : List (LapOut α) :=
  match o.startDate, s.bind firstConvertedTime with
  | some d, some t => shiftDates (d - midnight t) without
  | _, _ => without

/-- C03 structural clauses evaluated on an output: fix indices run 1,2,3,… across the whole
    database; in each lap the first fix is at distance 0 and offset 0 and the overall distance
    is the last fix's distance to 0.1 m; configured constants are on every lap -/
def checkStructure (o : Opts) (laps : List (LapOut α)) : Option String :=
  let ids := laps.flatMap fun l => l.fixes.map (·.id)
  if ids ≠ (List.range ids.length).map (fun (k : Nat) => (k : Int) + 1) then some "cv.fix_ids"
  else if laps.any (fun l => match l.fixes.head? with
      | some f => !(CNum.beq f.dist (CNum.ofInt 0 : α)) || f.offset ≠ 0
      | none => false) then some "cv.first_fix_zero"
  else if laps.any (fun l => match l.fixes.getLast? with
      | some f => !(CNum.beq l.overall (round1dp f.dist))
      | none => false) then some "cv.overall_distance"
  else if laps.any (fun l => l.track ≠ o.track ∨ l.note ≠ o.note ∨ l.tags ≠ o.tags) then some "cv.lap_constants"
  else none

/-- C11: linear interpolation between the two surrounding fresh readings -/
def lerp (x0 y0 x1 y1 x : α) : α :=
  Num.add y0 (Num.mul (Num.div (Num.sub y1 y0) (Num.sub x1 x0)) (Num.sub x x0))

end TrackVerif.Conv.Spec
