import TrackVerif.TA.Model
/-
  Executable model of `pkg/convert` (trackaddict.go, helpers.go) and of
  `trackaddict.Session.PredictOBD` (session.go, obd.go): TrackAddict session → LapTimer DB.

  The WGS-84 geodesic inverse and the calendar are parameters (`Env`); numbers are polymorphic
  (`CNum`: Float for the correspondence, Rat for theorems).
-/
namespace TrackVerif.Conv
open TrackVerif TA

class CNum (α : Type) extends TA.Num α where
  /-- `math.Round`: half away from zero -/
  round : α → α
  ofInt : Int → α
  /-- Go `int(x)` for an integral `x` -/
  toInt : α → Int
  lt : α → α → Bool
  beq : α → α → Bool

/-- the gonum predictors in use, and (harness only) one that does not pass through its data points:
    `shifted` predicts the first fitted value plus one, everywhere -/
inductive Predictor | linear | constant | shifted
  deriving DecidableEq, Repr

structure Opts where
  track : String
  vehicle : String
  tags : List String
  note : String
  diff : Int
  pos : Int
  /-- start-date override (ns since epoch, UTC midnight of the requested day), if any -/
  startDate : Option Int
  predictor : Option Predictor
  deriving Repr

structure OBDOut (α : Type) where
  rpm : Option Int
  map : Option α
  speed : Option α
  throttle : Option α
  coolant : Option α
  iat : Option α
  deriving Repr, DecidableEq

structure AccelOut (α : Type) where
  lateral : α
  lineal : α
  lon : α
  lat : α
  deriving Repr, DecidableEq

structure Fix (α : Type) where
  id : Int
  date : Option Int
  lon : α
  lat : α
  alt : α
  speed : α
  diff : Int
  pos : Int
  satellites : Int
  direction : α
  hdop : α
  accuracy : α
  dist : α
  offset : Int
  accel : Option (AccelOut α)
  obd : Option (OBDOut α)
  deriving Repr, DecidableEq

structure LapOut (α : Type) where
  id : Int
  date : Option Int
  lapTime : Int
  vehicle : String
  track : String
  note : String
  tags : List String
  overall : α
  fixes : List (Fix α)
  deriving Repr, DecidableEq

/-- external functions: WGS-84 inverse distance, UTC midnight of the day containing an instant -/
structure Env (α : Type) where
  inverse : α → α → α → α → Option α
  midnight : Int → Int

variable {α : Type} [CNum α]

def ten : α := CNum.ofInt 10
def hundred : α := CNum.ofInt 100

/-- helpers.go -/
def round1dp (v : α) : α := Num.div (CNum.round (Num.mul v ten)) ten
def round2dp (v : α) : α := Num.div (CNum.round (Num.mul v hundred)) hundred
def round0dp (v : α) : α := CNum.round v
def roundint (v : α) : Int := CNum.toInt (CNum.round v)

/-! ### PredictOBD -/

/-- the non-nil float channels of an OBD value in struct-field order
    (Speed, EngineSpeed, Throttle, CoolantTemp, IntakeTemp, ManifoldPressure) -/
def obdChannels (o : OBD α) : List (Option α) :=
  [o.speed, o.rpm, o.throttle, o.coolant, o.intake, o.manifold]

def obdValues (o : OBD α) : List α := (obdChannels o).filterMap id

/-- `OBD.set`: write `vals` to the non-nil channels, in field order -/
def obdSet (o : OBD α) (vals : List α) : Outcome (OBD α) :=
  let step (acc : List (Option α) × List α × Bool) (c : Option α) :=
    match c, acc with
    | none, (done, vs, ok) => (done ++ [none], vs, ok)
    | some _, (done, v :: vs, ok) => (done ++ [some v], vs, ok)
    | some c, (done, [], _) => (done ++ [some c], [], false)
  let (chs, _, ok) := (obdChannels o).foldl step ([], vals, true)
  if !ok then .panic .index else
  match chs with
  | [s, r, t, c, i, m] => .ok { o with speed := s, rpm := r, throttle := t, coolant := c, intake := i, manifold := m }
  | _ => .unmodelled

/-- `time.Duration.Seconds()` -/
def seconds (d : Int) : α :=
  Num.add (CNum.ofInt (Int.tdiv d 1000000000))
    (Num.div (CNum.ofInt (Int.tmod d 1000000000)) (CNum.ofInt 1000000000))

/-- `slices.BinarySearch`-based `findSegment`: index of the last `xs[i] ≤ x`, or none -/
def findSegment (xs : List α) (x : α) : Option Nat :=
  let n := (xs.takeWhile fun xi => CNum.lt xi x || CNum.beq xi x).length
  if n = 0 then none else some (n - 1)

/-- gonum `PiecewiseLinear` / `PiecewiseConstant` fitted on (xs, ys), evaluated at x -/
def predict (k : Predictor) (xs ys : List α) (x : α) : Outcome α :=
  if k = .shifted then (idx? ys 0).map fun y0 => Num.add y0 (CNum.ofInt 1) else
  match findSegment xs x with
  | none => idx? ys 0
  | some i => do
    let xi ← idx? xs i
    let yi ← idx? ys i
    if CNum.beq x xi then .ok yi
    else if i + 1 = xs.length then .ok yi
    else do
      let xj ← idx? xs (i + 1)
      let yj ← idx? ys (i + 1)
      match k with
      | .constant => .ok yj
      | .linear => .ok (Num.add yi (Num.mul (Num.div (Num.sub yj yi) (Num.sub xj xi)) (Num.sub x xi)))
      | .shifted => .ok (Num.add yi (CNum.ofInt 1))

/-- gonum `Fit` panics unless xs is strictly increasing -/
def strictlyIncreasing : List α → Bool
  | a :: b :: rest => CNum.lt a b && strictlyIncreasing (b :: rest)
  | _ => true

/-- transpose of the per-reading value lists: one series per channel -/
def series (rows : List (List α)) (nch : Nat) : List (List α) :=
  (List.range nch).map fun j => rows.filterMap fun r => r[j]?

structure Scan (α : Type) where
  start : Option Int
  xs : List α
  rows : List (List α)          -- values of each fresh reading
  deriving Repr

/-- first pass of `PredictOBD`: collect the fresh readings -/
def scanFresh (recs : List (Record α)) : Outcome (Scan α) :=
  recs.foldlM (fun (sc : Scan α) r =>
    match r.obd with
    | some o =>
      if o.update then
        match r.time, sc.start with
        | none, _ => Outcome.unmodelled
        | some t, none => .ok { sc with start := some t, xs := sc.xs ++ [CNum.ofInt 0], rows := sc.rows ++ [obdValues o] }
        | some t, some st => .ok { sc with xs := sc.xs ++ [seconds (t - st)], rows := sc.rows ++ [obdValues o] }
      else .ok sc
    | none => .ok sc) ⟨none, [], []⟩

/-- second pass: every GPS-updated row without a fresh reading (and with OBD data) gets the
    predicted channel values; `start` is the one known when the row was scanned, so rows before
    the first fresh reading are outside the modelled domain -/
def predictRecord (k : Predictor) (start : Int) (xs : List α) (chans : List (List α))
    (seenFresh : Bool) (r : Record α) : Outcome (Record α) :=
  match r.obd with
  | some o =>
    if o.update then .ok r
    else if r.gps.update then
      if !seenFresh then .unmodelled else
      match r.time with
      | none => .unmodelled
      | some t => do
        let vals ← chans.mapM fun ys => predict k xs ys (seconds (t - start))
        let o' ← obdSet o vals
        .ok { r with obd := some o' }
    else .ok r
  | none => .ok r

def isFresh (r : Record α) : Bool :=
  match r.obd with
  | some o => o.update
  | none => false

def isNeeded (r : Record α) : Bool :=
  !isFresh r && r.gps.update && r.obd.isSome

/-- one series per channel; every fresh reading must state the same channels -/
def channelSeries (rows : List (List α)) : Option (List (List α)) :=
  let nch := match rows with
    | r :: _ => r.length
    | [] => 0
  if rows.any (fun r => r.length ≠ nch) then none else some (series rows nch)

/-- second pass over one lap's records; `seen` = a fresh reading has been scanned before -/
def predictRecords (k : Predictor) (start : Int) (xs : List α) (chans : List (List α)) :
    List (Record α) → Bool → Outcome (List (Record α) × Bool)
  | [], seen => .ok ([], seen)
  | r :: rs, seen => do
    let r' ← predictRecord k start xs chans seen r
    let (rs', seen') ← predictRecords k start xs chans rs (seen || isFresh r)
    .ok (r' :: rs', seen')

/-- second pass over all laps, in order -/
def predictLaps (k : Predictor) (start : Int) (xs : List α) (chans : List (List α)) :
    List (Lap α) → Bool → Outcome (List (Lap α))
  | [], _ => .ok []
  | l :: ls, seen => do
    let (recs, seen') ← predictRecords k start xs chans l.records seen
    let ls' ← predictLaps k start xs chans ls seen'
    .ok ({ l with records := recs } :: ls')

/-- `Session.PredictOBD` over all records of all laps -/
def predictOBD (k : Predictor) (s : Session α) : Outcome (Session α) := do
  let all := s.laps.flatMap (·.records)
  let sc ← scanFresh all
  if !(all.any isNeeded) ∨ sc.xs.length < 2 then .ok s else
  match sc.start with
  | none => .unmodelled
  | some start =>
    if k ≠ .shifted ∧ !strictlyIncreasing sc.xs then .panic .explicit else     -- (gonum's Fit panics; the harness predictor accepts any series)
    match channelSeries sc.rows with
    | none => .unmodelled
    | some chans => (predictLaps k start sc.xs chans s.laps false).map fun laps => { s with laps := laps }

/-! ### Conversion -/

def convertOBD (o : OBD α) : OBDOut α :=
  { rpm := o.rpm.map roundint
    map := o.manifold.map round2dp
    speed := o.speed.map round1dp
    throttle := o.throttle.map round2dp
    coolant := o.coolant.map round1dp
    iat := o.intake.map round0dp }

def convertAccel (r : Record α) : Option (AccelOut α) :=
  r.accel.map fun a => ⟨round2dp a.x, round2dp a.y, r.gps.lon, r.gps.lat⟩

/-- `lapTimerFix` -/
def lapTimerFix (o : Opts) (adj : Int) (id : Int) (dist : α) (r : Record α) (firstNow : Int) : Fix α :=
  { id := id
    date := r.time.map (· + adj)
    lon := r.gps.lon, lat := r.gps.lat, alt := r.gps.alt
    speed := round1dp r.speed
    diff := o.diff, pos := o.pos
    satellites := 0
    direction := round1dp r.gps.heading
    hdop := CNum.ofInt 1
    accuracy := round1dp r.gps.acc
    dist := dist
    offset := r.now - firstNow
    accel := convertAccel r
    obd := r.obd.map convertOBD }

structure FixAcc (α : Type) where
  dist : α
  lastLat : α
  lastLon : α
  id : Int
  fixes : List (Fix α)

/-- the fix loop of `lapTimerLap`: first row plus every GPS-updated row -/
def fixLoop (env : Env α) (o : Opts) (adj : Int) (firstNow : Int) :
    List (Record α) → Nat → FixAcc α → Outcome (FixAcc α)
  | [], _, acc => .ok acc
  | r :: rest, j, acc =>
    if j ≠ 0 ∧ !r.gps.update then fixLoop env o adj firstNow rest (j + 1) acc
    else
      let moved : Outcome (FixAcc α) :=
        if j > 0 ∧ r.gps.update then
          match env.inverse acc.lastLat acc.lastLon r.gps.lat r.gps.lon with
          | some d => .ok { acc with dist := Num.add acc.dist d, lastLat := r.gps.lat, lastLon := r.gps.lon }
          | none => .unmodelled
        else .ok acc
      match moved with
      | .ok acc =>
        let f := lapTimerFix o adj acc.id acc.dist r firstNow
        fixLoop env o adj firstNow rest (j + 1) { acc with id := acc.id + 1, fixes := acc.fixes ++ [f] }
      | .err e => .err e
      | .panic p => .panic p
      | .unmodelled => .unmodelled

/-- converter state threaded across laps: the date adjustment, once computed -/
structure ConvState where
  adj : Option Int

def adjOf (st : ConvState) : Int := st.adj.getD 0

/-- the date adjustment is computed once, from the first row that is converted -/
def nextState (env : Env α) (o : Opts) (st : ConvState) (r : Record α) : Outcome ConvState :=
  match o.startDate, st.adj with
  | some d, none =>
    match r.time with
    | some t => .ok ⟨some (d - env.midnight t)⟩
    | none => .unmodelled
  | _, _ => .ok st

def baseLap (o : Opts) (l : Lap α) (vehicle : String) : LapOut α :=
  { id := l.number, date := none, lapTime := l.duration, vehicle := vehicle, track := o.track,
    note := o.note, tags := o.tags, overall := CNum.ofInt 0, fixes := [] }

/-- `lapTimerLap` -/
def lapTimerLap (env : Env α) (o : Opts) (st : ConvState) (l : Lap α) (vehicle : String) (id : Int) :
    Outcome (LapOut α × ConvState) :=
  match l.records with
  | [] => .ok (baseLap o l vehicle, st)
  | r :: rest => do
    let st' ← nextState env o st r
    let acc ← fixLoop env o (adjOf st') r.now (r :: rest) 0 ⟨CNum.ofInt 0, r.gps.lat, r.gps.lon, id, []⟩
    .ok ({ baseLap o l vehicle with date := r.time.map (· + adjOf st'), overall := round1dp acc.dist,
                                    fixes := acc.fixes }, st')

/-- the timed laps: everything but the out-lap and the in-lap -/
def innerLaps (laps : List (Lap α)) : List (Lap α) :=
  if laps.length < 3 then [] else (laps.drop 1).dropLast

/-- the lap loop of `LapTimer` -/
def convertLaps (env : Env α) (o : Opts) (vehicle : String) :
    List (Lap α) → ConvState → Int → List (LapOut α) → Outcome (List (LapOut α))
  | [], _, _, acc => .ok acc
  | l :: rest, st, fixID, acc =>
    match lapTimerLap env o st l vehicle fixID with
    | .ok (lap, st') => convertLaps env o vehicle rest st' (fixID + lap.fixes.length) (acc ++ [lap])
    | .err e => .err e
    | .panic p => .panic p
    | .unmodelled => .unmodelled

/-- the session after the optional OBD prediction step -/
def predicted (o : Opts) (s : Session α) : Outcome (Session α) :=
  match o.predictor with
  | some k => predictOBD k s
  | none => .ok s

/-- `TrackAddict.LapTimer` -/
def lapTimer (env : Env α) (o : Opts) (s : Session α) : Outcome (List (LapOut α)) :=
  let vehicle := if o.vehicle ≠ "" then o.vehicle else s.vehicle
  (predicted o s).bind fun s' => convertLaps env o vehicle (innerLaps s'.laps) ⟨none⟩ 1 []

end TrackVerif.Conv
