import TrackVerif.Conv.Lemmas
import TrackVerif.Conv.Object
import TrackVerif.Conv.NumRat
/-
  C12 — A start-date override shifts every timestamp by one constant and nothing else.
  Property theorems only.
-/
namespace TrackVerif.C12
open TrackVerif Outcome TA Conv

variable {α : Type} [CNum α]

def withStart (o : Opts) (d : Option Int) : Opts := { o with startDate := d }

def shiftFix (k : Int) (f : Fix α) : Fix α := { f with date := f.date.map (· + k) }
def shiftLap (k : Int) (l : LapOut α) : LapOut α :=
  { l with date := l.date.map (· + k), fixes := l.fixes.map (shiftFix k) }

theorem shiftDates_eq (k : Int) (laps : List (LapOut α)) :
    Spec.shiftDates k laps = laps.map (shiftLap k) := rfl

theorem zipFixes_shift (o : Opts) (d : Option Int) (k firstNow id : Int) (rows : List (Record α)) (ds : List α) :
    Spec.zipFixes (withStart o d) k firstNow id rows ds =
      (Spec.zipFixes (withStart o none) 0 firstNow id rows ds).map (shiftFix k) := by
  induction rows generalizing id ds with
  | nil => simp [Spec.zipFixes]
  | cons r rest ih =>
    cases ds with
    | nil => simp [Spec.zipFixes]
    | cons x xs =>
      simp only [Spec.zipFixes, List.map_cons, ih]
      congr 1
      cases hr : r.time <;> simp [lapTimerFix, shiftFix, withStart, hr]

theorem specLap_shift (env : Env α) (o : Opts) (d : Option Int) (k : Int) (v : String) (id : Int) (l : Lap α) :
    Spec.specLap env (withStart o d) k v id l =
      (Spec.specLap env (withStart o none) 0 v id l).map (shiftLap k) := by
  unfold Spec.specLap
  split
  · simp [Outcome.map, Outcome.bind, shiftLap, baseLap, withStart]
  · rename_i r rs hr
    cases hd : Spec.fixDists env (Spec.fixRows (r :: rs)) with
    | ok ds =>
      have hz := zipFixes_shift o d k r.now id (Spec.fixRows (r :: rs)) ds
      simp only [withStart] at hz
      simp only [Outcome.map, Outcome.bind, shiftLap, baseLap, withStart, hz]
      cases r.time <;> simp
    | err e => simp [Outcome.map, Outcome.bind]
    | panic p => simp [Outcome.map, Outcome.bind]
    | unmodelled => simp [Outcome.map, Outcome.bind]

theorem shiftLap_fix_count (k : Int) (l : LapOut α) : (shiftLap k l).fixes.length = l.fixes.length := by
  simp [shiftLap]

theorem specLaps_shift (env : Env α) (o : Opts) (d : Option Int) (k : Int) (v : String) (id : Int)
    (laps : List (Lap α)) :
    Spec.specLaps env (withStart o d) k v id laps =
      (Spec.specLaps env (withStart o none) 0 v id laps).map (Spec.shiftDates k) := by
  induction laps generalizing id with
  | nil => simp [Spec.specLaps, Outcome.map, Outcome.bind, Spec.shiftDates]
  | cons l rest ih =>
    unfold Spec.specLaps
    rw [specLap_shift env o d k v id l, ih]
    cases Spec.specLap env (withStart o none) 0 v id l with
    | ok lap =>
      simp only [Outcome.map, Outcome.bind]
      cases Spec.specLaps env (withStart o none) 0 v (id + ↑(Spec.fixRows l.records).length) rest <;>
        simp [shiftDates_eq]
    | err e => simp [Outcome.map, Outcome.bind]
    | panic p => simp [Outcome.map, Outcome.bind]
    | unmodelled => simp [Outcome.map, Outcome.bind]

/-- converting with start date D gives the database converted without it, except that every lap
    date and every fix date is moved by ONE constant: D minus the UTC midnight of the day of the
    first row that is converted -/
theorem shift_constant (env : Env α) (o : Opts) (s : Session α) (D t0 : Int)
    (ht : Spec.firstConvertedTime s = some t0) :
    Spec.convert env (withStart o (some D)) s =
      (Spec.convert env (withStart o none) s).map (Spec.shiftDates (D - env.midnight t0)) := by
  unfold Spec.convert
  have h1 : Spec.dateShift env (withStart o (some D)) s = D - env.midnight t0 := by
    simp [Spec.dateShift, Spec.shiftFor, withStart, ht]
  have h0 : Spec.dateShift env (withStart o none) s = 0 := by
    simp [Spec.dateShift, Spec.shiftFor, withStart]
  rw [h1, h0]
  exact specLaps_shift env o (some D) _ _ 1 _

/-- the same statement for the converter model itself (loops + date state), via C03's refinement -/
theorem shift_constant_model (env : Env α) (o : Opts) (s s' : Session α) (D t0 : Int)
    (hs : predicted o s = .ok s') (ht : Spec.firstConvertedTime s' = some t0) :
    lapTimer env (withStart o (some D)) s =
      (lapTimer env (withStart o none) s).map (Spec.shiftDates (D - env.midnight t0)) := by
  have hp1 : predicted (withStart o (some D)) s = .ok s' := by simpa [predicted, withStart] using hs
  have hp0 : predicted (withStart o none) s = .ok s' := by simpa [predicted, withStart] using hs
  have hft : (Spec.firstTime (innerLaps s'.laps)).isSome := by
    have : Spec.firstTime (innerLaps s'.laps) = some t0 := ht
    simp [this]
  rw [C03_convert hp1 (Or.inr (Or.inr (Or.inr hft))), C03_convert hp0 (Or.inl rfl)]
  exact shift_constant env o s' D t0 ht
where
  C03_convert {o : Opts} {s s' : Session α} {env : Env α} (hs : predicted o s = .ok s')
      (hc : AdjComputable o ⟨none⟩ (innerLaps s'.laps)) : lapTimer env o s = Spec.convert env o s' := by
    have hv : s'.vehicle = s.vehicle := by
      unfold predicted at hs
      split at hs
      · exact predictOBD_vehicle _ _ _ hs
      · cases hs; rfl
    unfold lapTimer Spec.convert
    simp only [hs, bind_ok]
    rw [convertLaps_spec env o _ (innerLaps s'.laps) ⟨none⟩ 1 [] hc, hv]
    have : effAdj env o ⟨none⟩ (innerLaps s'.laps) = Spec.dateShift env o s' := rfl
    rw [this]
    cases Spec.specLaps env o (Spec.dateShift env o s')
      (if o.vehicle ≠ "" then o.vehicle else s.vehicle) 1 (innerLaps s'.laps) <;>
      simp [Outcome.map, Outcome.bind]

/-- **a converter may be used for any number of sessions**: the date adjustment lives in the
    converter between calls, `LapTimer` resets it on entry, so every session of a sequence is
    converted exactly as a new converter would convert it — and the statements above apply to it -/
theorem converter_history_does_not_matter (env : Env α) (c : Converter) (ss : List (Session α)) :
    Converter.run env c ss = ss.map (lapTimer env c.opts) :=
  Converter.run_fresh env c ss

/-- the mechanism of the defect repaired in 4443d20: once an adjustment is in the converter, a
    start date never recomputes it — so without the reset on entry the next session would be moved
    by the previous session's amount -/
theorem kept_adjustment_is_never_recomputed (env : Env α) (o : Opts) (a : Int) (r : Record α) :
    nextState env o ⟨some a⟩ r = .ok ⟨some a⟩ := by
  unfold nextState
  cases o.startDate <;> rfl

/-- without the option all dates equal the logged ones (the shift is 0) -/
theorem no_option (env : Env α) (o : Opts) (s : Session α) (h : o.startDate = none) :
    Spec.dateShift env o s = 0 := by
  simp [Spec.dateShift, Spec.shiftFor, h]

/-- the first converted row falls on day D with its time of day unchanged -/
theorem first_row_on_D (D t0 mid : Int) : t0 + (D - mid) = D + (t0 - mid) := by omega

/-- the difference between any two timestamps is preserved -/
theorem differences_preserved (a b k : Int) : (a + k) - (b + k) = a - b := by omega

/-- non-vacuity / the old defect's witness: D equal to the logged day gives shift 0, and the
    shift stays 0 for every later lap (no recomputation) — `shift_constant` has a single k -/
example : Spec.shiftFor (α := Rat) ⟨fun _ _ _ _ => none, fun t => t - t % 86400⟩
    { track := "", vehicle := "", tags := [], note := "", diff := 0, pos := 0, startDate := some 86400,
      predictor := none } (some (86400 + 100)) = 0 := by decide

end TrackVerif.C12
