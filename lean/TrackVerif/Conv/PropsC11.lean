import TrackVerif.Conv.Lemmas
import TrackVerif.Conv.Idem
import TrackVerif.Conv.NumRat
import Mathlib.Algebra.Order.Field.Rat
import Mathlib.Tactic.Linarith
import Mathlib.Tactic.FieldSimp
import Mathlib.Tactic.Ring
/-
  C11 — OBD channels are interpolated onto GPS fixes; logs without OBD still convert.
  Property theorems only.
-/
namespace TrackVerif.C11
open TrackVerif Outcome TA Conv

variable {α : Type} [CNum α]

/-- with interpolation disabled every fix keeps its logged values: the session is untouched -/
theorem disabled (o : Opts) (s : Session α) (h : o.predictor = none) : predicted o s = .ok s := by
  simp [predicted, h]

/-- rows with a fresh OBD reading keep exactly their logged values -/
theorem fresh_kept (k : Predictor) (start : Int) (xs : List α) (chans : List (List α)) (seen : Bool)
    (r : Record α) (h : isFresh r = true) : predictRecord k start xs chans seen r = .ok r := by
  unfold predictRecord
  unfold isFresh at h
  split
  · rename_i o ho
    simp [ho] at h
    simp [h]
  · rfl

/-- rows without a GPS update are never touched either -/
theorem non_gps_kept (k : Predictor) (start : Int) (xs : List α) (chans : List (List α)) (seen : Bool)
    (r : Record α) (h : r.gps.update = false) : predictRecord k start xs chans seen r = .ok r := by
  unfold predictRecord
  split
  · split
    · rfl
    · simp [h]
  · rfl

/-- a GPS-updated row without a fresh reading, after the first fresh reading, carries for each
    channel the configured predictor's value at its timestamp (seconds since the first fresh
    reading), written to the channels that are present, in channel order -/
theorem interpolated (k : Predictor) (start t : Int) (xs : List α) (chans : List (List α))
    (r : Record α) (o : OBD α) (ho : r.obd = some o) (hu : o.update = false)
    (hg : r.gps.update = true) (ht : r.time = some t) :
    predictRecord k start xs chans true r =
      (chans.mapM fun ys => predict k xs ys (seconds (t - start))).bind fun vals =>
        (obdSet o vals).bind fun o' => .ok { r with obd := some o' } := by
  unfold predictRecord
  simp [ho, hu, hg, ht]

/-- `PredictOBD` fills the session it is given in place; doing it again (same predictor) changes
    nothing: the predicted values are a function of the fresh readings, which it never touches -/
theorem prediction_is_idempotent (k : Predictor) (s s' : Session α) (h : predictOBD k s = .ok s') :
    predictOBD k s' = .ok s' :=
  predictOBD_idem k s s' h

/-- hence a session that has been converted before converts to the same database again (the same
    options; the start date does not matter, it plays no part in the prediction) -/
theorem reconversion_gives_the_same_database (env : Env α) (o : Opts) (s s' : Session α)
    (h : predicted o s = .ok s') : lapTimer env o s' = lapTimer env o s := by
  unfold lapTimer
  have hv : s'.vehicle = s.vehicle := by
    unfold predicted at h
    cases hp : o.predictor with
    | none => simp [hp] at h; rw [h]
    | some k => simp only [hp] at h; exact predictOBD_vehicle k s s' h
  have hi : predicted o s' = .ok s' := by
    unfold predicted at h ⊢
    cases hp : o.predictor with
    | none => rfl
    | some k => simp only [hp] at h ⊢; exact predictOBD_idem k s s' h
  rw [hi, h, hv]

/-- scanning rows none of which is a fresh reading collects nothing -/
theorem scanFresh_none (recs : List (Record α)) (h : ∀ r ∈ recs, isFresh r = false) (sc : Scan α) :
    recs.foldlM (fun (sc : Scan α) r =>
      match r.obd with
      | some o =>
        if o.update then
          match r.time, sc.start with
          | none, _ => Outcome.unmodelled
          | some t, none => .ok { sc with start := some t, xs := sc.xs ++ [CNum.ofInt 0], rows := sc.rows ++ [obdValues o] }
          | some t, some st => .ok { sc with xs := sc.xs ++ [seconds (t - st)], rows := sc.rows ++ [obdValues o] }
        else .ok sc
      | none => .ok sc) sc = .ok sc := by
  induction recs generalizing sc with
  | nil => rfl
  | cons r rest ih =>
    have hr := h r (by simp)
    simp only [List.foldlM_cons, bind_eq]
    unfold isFresh at hr
    cases ho : r.obd with
    | none => simp only [bind_ok]; exact ih (fun r' hr' => h r' (by simp [hr'])) sc
    | some o =>
      simp [ho] at hr
      simp only [hr, Bool.false_eq_true, if_false, bind_ok]
      exact ih (fun r' hr' => h r' (by simp [hr'])) sc

/-- logs with no OBD columns, or whose OBD columns never report an update, pass through the
    prediction step unchanged (and therefore convert like any other session) -/
theorem no_obd_ok (k : Predictor) (s : Session α)
    (h : ∀ r ∈ s.laps.flatMap (·.records), isFresh r = false) : predictOBD k s = .ok s := by
  unfold predictOBD
  simp only [bind_eq]
  have : scanFresh (s.laps.flatMap (·.records)) = .ok ⟨none, [], []⟩ := scanFresh_none _ h _
  rw [this]
  simp

/-- no OBD columns at all is the special case `obd = none` on every row -/
theorem no_obd_columns (k : Predictor) (s : Session α)
    (h : ∀ r ∈ s.laps.flatMap (·.records), r.obd = none) : predictOBD k s = .ok s :=
  no_obd_ok k s (fun r hr => by simp [isFresh, h r hr])

/-! ### The default predictor is linear interpolation between the surrounding fresh readings
    (exact rationals) -/

/-- in a strictly increasing list the head is below every later element -/
theorem head_lt_all (a : Rat) (l : List Rat) (hs : strictlyIncreasing (a :: l) = true) :
    ∀ y ∈ l, a < y := by
  induction l generalizing a with
  | nil => simp
  | cons b rest ih =>
    simp only [strictlyIncreasing, Bool.and_eq_true] at hs
    have hab : a < b := by simpa [CNum.lt] using hs.1
    intro y hy
    rcases List.mem_cons.mp hy with h | h
    · rw [h]; exact hab
    · exact lt_trans hab (ih b hs.2 y h)

theorem takeWhile_le_length (xs : List Rat) (x : Rat) (i : Nat)
    (hs : strictlyIncreasing xs = true) (hi : i + 1 < xs.length)
    (hlo : xs[i]'(by omega) ≤ x) (hhi : x < xs[i + 1]'hi) :
    (xs.takeWhile fun xi => CNum.lt xi x || CNum.beq xi x).length = i + 1 := by
  induction xs generalizing i with
  | nil => simp at hi
  | cons a rest ih =>
    have hall := head_lt_all a rest hs
    cases i with
    | zero =>
      cases rest with
      | nil => simp at hi
      | cons b rest' =>
        simp only [List.getElem_cons_zero, List.getElem_cons_succ] at hlo hhi
        have h1 : (CNum.lt a x || CNum.beq a x) = true := by
          simp only [CNum.lt, CNum.beq, Bool.or_eq_true, decide_eq_true_eq]
          exact lt_or_eq_of_le hlo
        have h2 : (CNum.lt b x || CNum.beq b x) = false := by
          simp only [CNum.lt, CNum.beq, Bool.or_eq_false_iff, decide_eq_false_iff_not]
          exact ⟨not_lt.mpr (le_of_lt hhi), fun h => by rw [h] at hhi; exact lt_irrefl _ hhi⟩
        simp [h1, h2]
    | succ j =>
      have hs' : strictlyIncreasing rest = true := by
        cases rest with
        | nil => rfl
        | cons b rest' => simp only [strictlyIncreasing, Bool.and_eq_true] at hs; exact hs.2
      simp only [List.getElem_cons_succ] at hlo hhi
      have hj : j < rest.length := by simp at hi; omega
      have hax : a < x := lt_of_lt_of_le (hall _ (List.getElem_mem hj)) hlo
      have h1 : (CNum.lt a x || CNum.beq a x) = true := by simp [CNum.lt, hax]
      have := ih j hs' (by simp at hi; omega) hlo hhi
      simp [h1, this]

/-- for the default predictor the predicted value is the linear interpolation of the two
    surrounding fresh readings: y_i + (y_{i+1} − y_i)/(x_{i+1} − x_i)·(x − x_i) -/
theorem linear_between (xs ys : List Rat) (x : Rat) (i : Nat)
    (hs : strictlyIncreasing xs = true) (hlen : ys.length = xs.length) (hi : i + 1 < xs.length)
    (hlo : xs[i]'(by omega) < x) (hhi : x < xs[i + 1]'hi) :
    predict .linear xs ys x =
      .ok (Spec.lerp (xs[i]'(by omega)) (ys[i]'(by omega)) (xs[i + 1]'hi) (ys[i + 1]'(by omega)) x) := by
  have hseg : findSegment xs x = some i := by
    unfold findSegment
    simp [takeWhile_le_length xs x i hs hi (le_of_lt hlo) hhi]
  unfold predict
  simp only [hseg, bind_eq]
  have hne : (CNum.beq x (xs[i]'(by omega))) = false := by
    simp only [CNum.beq, decide_eq_false_iff_not]
    exact fun h => by rw [h] at hlo; exact lt_irrefl _ hlo
  rw [idx?_ok_of_lt xs i (by omega), idx?_ok_of_lt ys i (by omega)]
  simp only [bind_ok, hne, Bool.false_eq_true, if_false]
  have : ¬ (i + 1 = xs.length) := by omega
  simp only [this, if_false]
  rw [idx?_ok_of_lt xs (i + 1) hi, idx?_ok_of_lt ys (i + 1) (by omega)]
  simp [Spec.lerp]

/-- at a fresh reading's own timestamp the prediction is that reading's value -/
theorem linear_at_knot (xs ys : List Rat) (i : Nat)
    (hs : strictlyIncreasing xs = true) (hlen : ys.length = xs.length) (hi : i + 1 < xs.length) :
    predict .linear xs ys (xs[i]'(by omega)) = .ok (ys[i]'(by omega)) := by
  have hseg : findSegment xs (xs[i]'(by omega)) = some i := by
    unfold findSegment
    have hlt : xs[i]'(by omega) < xs[i + 1]'hi := by
      clear hlen
      induction xs generalizing i with
      | nil => simp at hi
      | cons a rest ih =>
        cases i with
        | zero =>
          cases rest with
          | nil => simp at hi
          | cons b r => exact head_lt_all a (b :: r) hs b (by simp)
        | succ j =>
          have hs' : strictlyIncreasing rest = true := by
            cases rest with
            | nil => rfl
            | cons b rest' => simp only [strictlyIncreasing, Bool.and_eq_true] at hs; exact hs.2
          simpa using ih j hs' (by simp at hi; omega)
    simp [takeWhile_le_length xs _ i hs hi (le_refl _) hlt]
  unfold predict
  simp only [hseg, bind_eq]
  rw [idx?_ok_of_lt xs i (by omega), idx?_ok_of_lt ys i (by omega)]
  simp [CNum.beq]

/-- the interpolant lies on the chord: a convex combination of the two surrounding readings -/
theorem lerp_is_chord (x0 y0 x1 y1 x : Rat) (h : x0 ≠ x1) :
    Spec.lerp x0 y0 x1 y1 x = y0 * ((x1 - x) / (x1 - x0)) + y1 * ((x - x0) / (x1 - x0)) := by
  have : x1 - x0 ≠ 0 := sub_ne_zero.mpr (Ne.symm h)
  simp only [Spec.lerp, Num.add, Num.mul, Num.div, Num.sub]
  field_simp
  ring

end TrackVerif.C11
