import TrackVerif.Conv.Model
/-
  `Session.PredictOBD` writes the predicted values into the session it is given.  Converting the
  same session a second time (same predictor) therefore starts from a session that already holds
  predictions — and must give the same result: prediction is idempotent.
-/
namespace TrackVerif.Conv
open TrackVerif TA Outcome

variable {α : Type} [CNum α]

omit [CNum α] in
/-- writing values into the non-nil channels keeps the update flag, and writing the same values
    again changes nothing -/
theorem obdSet_idem (o o' : OBD α) (vals : List α) (h : obdSet o vals = .ok o') :
    o'.update = o.update ∧ obdSet o' vals = .ok o' := by
  obtain ⟨u, s, r, t, c, i, m⟩ := o
  cases s <;> cases r <;> cases t <;> cases c <;> cases i <;> cases m <;>
    (rcases vals with _ | ⟨v1, _ | ⟨v2, _ | ⟨v3, _ | ⟨v4, _ | ⟨v5, _ | ⟨v6, rest⟩⟩⟩⟩⟩⟩ <;>
      simp [obdSet, obdChannels] at h <;> (try subst h) <;> simp [obdSet, obdChannels])

/-- two lists related element by element -/
inductive Rel2 {β γ : Type} (R : β → γ → Prop) : List β → List γ → Prop
  | nil : Rel2 R [] []
  | cons {a : β} {b : γ} {as : List β} {bs : List γ} : R a b → Rel2 R as bs → Rel2 R (a :: as) (b :: bs)

theorem Rel2.append {β γ : Type} {R : β → γ → Prop} {a a' : List β} {b b' : List γ}
    (h1 : Rel2 R a b) (h2 : Rel2 R a' b') : Rel2 R (a ++ a') (b ++ b') := by
  induction h1 with
  | nil => simpa using h2
  | cons h _ ih => exact .cons h ih

/-- what the second pass may change in a record: nothing about which rows are fresh or need
    values, and nothing at all in a row with a fresh reading -/
def Kept (r r' : Record α) : Prop :=
  isFresh r' = isFresh r ∧ isNeeded r' = isNeeded r ∧ (isFresh r = true → r' = r)

omit [CNum α] in
theorem Kept.refl (r : Record α) : Kept r r := ⟨rfl, rfl, fun _ => rfl⟩

/-- a record that has been given its predicted values is given the same values again -/
theorem predictRecord_idem (k : Predictor) (start : Int) (xs : List α) (chans : List (List α)) (seen : Bool)
    (r r' : Record α) (h : predictRecord k start xs chans seen r = .ok r') :
    predictRecord k start xs chans seen r' = .ok r' ∧ Kept r r' := by
  unfold predictRecord at h
  cases ho : r.obd with
  | none =>
    simp only [ho] at h; cases h
    exact ⟨by simp [predictRecord, ho], Kept.refl r⟩
  | some o =>
    simp only [ho] at h
    by_cases hu : o.update = true
    · simp only [hu, if_true] at h; cases h
      exact ⟨by simp [predictRecord, ho, hu], Kept.refl r⟩
    · simp only [hu, Bool.false_eq_true, if_false] at h
      by_cases hg : r.gps.update = true
      · simp only [hg, if_true] at h
        cases seen with
        | false => simp at h
        | true =>
          simp only [Bool.not_true, Bool.false_eq_true, if_false] at h
          cases ht : r.time with
          | none => simp [ht] at h
          | some t =>
            simp only [ht, bind_eq] at h
            obtain ⟨vals, hv, h⟩ := bind_eq_ok.mp h
            obtain ⟨o', hs, h⟩ := bind_eq_ok.mp h
            cases h
            obtain ⟨hup, hidem⟩ := obdSet_idem o o' vals hs
            have hu' : o'.update = false := by rw [hup]; simpa using hu
            refine ⟨?_, ?_, ?_, ?_⟩
            · unfold predictRecord
              simp only [hu', Bool.false_eq_true, if_false, hg, if_true, Bool.not_true, bind_eq, hv, bind_ok, hidem]
            · simp [isFresh, ho, hu', hu]
            · simp [isNeeded, isFresh, ho, hu', hu]
            · intro hf; simp [isFresh, ho, hu] at hf
      · simp only [hg, Bool.false_eq_true, if_false] at h; cases h
        exact ⟨by simp [predictRecord, ho, hu, hg], Kept.refl r⟩

theorem predictRecords_idem (k : Predictor) (start : Int) (xs : List α) (chans : List (List α)) :
    ∀ (rs rs' : List (Record α)) (seen seen' : Bool), predictRecords k start xs chans rs seen = .ok (rs', seen') →
      predictRecords k start xs chans rs' seen = .ok (rs', seen') ∧ Rel2 Kept rs rs'
  | [], rs', seen, seen', h => by
    simp [predictRecords] at h
    obtain ⟨rfl, rfl⟩ := h
    exact ⟨by simp [predictRecords], .nil⟩
  | r :: rs, out, seen, seen', h => by
    unfold predictRecords at h
    simp only [bind_eq] at h
    obtain ⟨r', h1, h⟩ := bind_eq_ok.mp h
    obtain ⟨⟨rs', s2⟩, h2, h⟩ := bind_eq_ok.mp h
    cases h
    obtain ⟨i1, k1⟩ := predictRecord_idem k start xs chans seen r r' h1
    obtain ⟨i2, k2⟩ := predictRecords_idem k start xs chans rs rs' (seen || isFresh r) s2 h2
    refine ⟨?_, .cons k1 k2⟩
    unfold predictRecords
    simp only [bind_eq, i1, bind_ok, k1.1, i2]

theorem predictLaps_idem (k : Predictor) (start : Int) (xs : List α) (chans : List (List α)) :
    ∀ (ls ls' : List (Lap α)) (seen : Bool), predictLaps k start xs chans ls seen = .ok ls' →
      predictLaps k start xs chans ls' seen = .ok ls' ∧
      Rel2 (fun l l' => Rel2 Kept l.records l'.records) ls ls'
  | [], ls', seen, h => by
    simp [predictLaps] at h; subst h
    exact ⟨by simp [predictLaps], .nil⟩
  | l :: ls, out, seen, h => by
    unfold predictLaps at h
    simp only [bind_eq] at h
    obtain ⟨⟨recs, s2⟩, h1, h⟩ := bind_eq_ok.mp h
    obtain ⟨ls', h2, h⟩ := bind_eq_ok.mp h
    cases h
    obtain ⟨i1, k1⟩ := predictRecords_idem k start xs chans l.records recs seen s2 h1
    obtain ⟨i2, k2⟩ := predictLaps_idem k start xs chans ls ls' s2 h2
    refine ⟨?_, .cons k1 k2⟩
    unfold predictLaps
    simp only [bind_eq, i1, bind_ok, i2]

omit [CNum α] in
theorem forall2_flatMap (ls ls' : List (Lap α))
    (h : Rel2 (fun l l' => Rel2 Kept l.records l'.records) ls ls') :
    Rel2 Kept (ls.flatMap (·.records)) (ls'.flatMap (·.records)) := by
  induction h with
  | nil => exact .nil
  | cons h1 _ ih => simp only [List.flatMap_cons]; exact Rel2.append h1 ih

/-- one step of the first pass -/
def scanStep (sc : Scan α) (r : Record α) : Outcome (Scan α) :=
  match r.obd with
  | some o =>
    if o.update then
      match r.time, sc.start with
      | none, _ => Outcome.unmodelled
      | some t, none => .ok { sc with start := some t, xs := sc.xs ++ [CNum.ofInt 0], rows := sc.rows ++ [obdValues o] }
      | some t, some st => .ok { sc with xs := sc.xs ++ [seconds (t - st)], rows := sc.rows ++ [obdValues o] }
    else .ok sc
  | none => .ok sc

theorem scanFresh_eq (recs : List (Record α)) : scanFresh recs = recs.foldlM scanStep ⟨none, [], []⟩ := rfl

theorem scanStep_kept (sc : Scan α) (r r' : Record α) (hk : Kept r r') : scanStep sc r' = scanStep sc r := by
  by_cases hf : isFresh r = true
  · rw [hk.2.2 hf]
  · have hf' : isFresh r' = false := by rw [hk.1]; simpa using hf
    have hf0 : isFresh r = false := by simpa using hf
    unfold isFresh at hf' hf0
    unfold scanStep
    cases h1 : r.obd <;> cases h2 : r'.obd <;> simp_all

/-- the first pass only looks at rows with a fresh reading -/
theorem scanFresh_kept (rs rs' : List (Record α)) (h : Rel2 Kept rs rs') :
    scanFresh rs' = scanFresh rs := by
  rw [scanFresh_eq, scanFresh_eq]
  generalize (⟨none, [], []⟩ : Scan α) = sc
  induction h generalizing sc with
  | nil => rfl
  | @cons r r' rs rs' hk _ ih =>
    simp only [List.foldlM_cons, scanStep_kept sc r r' hk]
    cases scanStep sc r with
    | ok sc' => simp only [bind_eq, bind_ok]; exact ih sc'
    | err e => rfl
    | panic p => rfl
    | unmodelled => rfl

omit [CNum α] in
theorem any_isNeeded_kept (rs rs' : List (Record α)) (h : Rel2 Kept rs rs') :
    rs'.any isNeeded = rs.any isNeeded := by
  induction h with
  | nil => rfl
  | cons hk _ ih => simp only [List.any_cons, hk.2.1, ih]

/-- **prediction is idempotent**: a session that already holds the predicted values (because it
    has been converted before, with the same predictor) is left exactly as it is -/
theorem predictOBD_idem (k : Predictor) (s s' : Session α) (h : predictOBD k s = .ok s') :
    predictOBD k s' = .ok s' := by
  unfold predictOBD at h
  simp only [bind_eq] at h
  obtain ⟨sc, hsc, h⟩ := bind_eq_ok.mp h
  split at h
  · cases h
    unfold predictOBD
    simp only [bind_eq, hsc, bind_ok]
    rename_i hc
    rw [if_pos hc]
  · rename_i hc
    split at h
    · cases h
    · rename_i start hst
      split at h
      · cases h
      · rename_i hinc
        split at h
        · cases h
        · rename_i chans hch
          obtain ⟨laps, hl, rfl⟩ := map_eq_ok.mp h
          obtain ⟨hid, hk⟩ := predictLaps_idem k start sc.xs chans s.laps laps false hl
          have hflat := forall2_flatMap s.laps laps hk
          unfold predictOBD
          simp only [bind_eq, scanFresh_kept _ _ hflat, hsc, bind_ok, any_isNeeded_kept _ _ hflat]
          rw [if_neg hc]
          simp only [hst]
          rw [if_neg hinc]
          simp only [hch, hid, Outcome.map, bind_ok]

end TrackVerif.Conv
