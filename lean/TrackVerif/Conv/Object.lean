import TrackVerif.Conv.Model
/-
  The converter as an object.  `convert.TrackAddict` keeps the date adjustment (`dateAdjust`,
  `adjusted`) in the converter between the laps of one call — and, being fields, between calls.
  `LapTimer` resets them on entry (repo 4443d20: before that a converter used for a second session
  shifted it by the first session's amount).  This file models the fields across calls and proves
  that what a converter has converted before does not matter.
-/
namespace TrackVerif.Conv
open TrackVerif TA Outcome

variable {α : Type} [CNum α]

/-- the lap loop, also returning the state the converter is left in -/
def convertLapsSt (env : Env α) (o : Opts) (vehicle : String) :
    List (Lap α) → ConvState → Int → List (LapOut α) → Outcome (List (LapOut α) × ConvState)
  | [], st, _, acc => .ok (acc, st)
  | l :: rest, st, fixID, acc =>
    match lapTimerLap env o st l vehicle fixID with
    | .ok (lap, st') => convertLapsSt env o vehicle rest st' (fixID + lap.fixes.length) (acc ++ [lap])
    | .err e => .err e
    | .panic p => .panic p
    | .unmodelled => .unmodelled

theorem convertLapsSt_fst (env : Env α) (o : Opts) (vehicle : String) :
    ∀ (laps : List (Lap α)) (st : ConvState) (fixID : Int) (acc : List (LapOut α)),
      (convertLapsSt env o vehicle laps st fixID acc).map (·.1) = convertLaps env o vehicle laps st fixID acc
  | [], st, fixID, acc => rfl
  | l :: rest, st, fixID, acc => by
    unfold convertLapsSt convertLaps
    cases lapTimerLap env o st l vehicle fixID with
    | ok p => exact convertLapsSt_fst env o vehicle rest p.2 _ _
    | err e => rfl
    | panic p => rfl
    | unmodelled => rfl

/-- a converter: its options and whatever date state an earlier call left behind -/
structure Converter where
  opts : Opts
  st : ConvState

/-- `(*TrackAddict).LapTimer`: the date state is reset on entry, used across the laps of this
    session and left in the converter -/
def Converter.lapTimer (c : Converter) (env : Env α) (s : Session α) : Outcome (List (LapOut α) × Converter) :=
  let vehicle := if c.opts.vehicle ≠ "" then c.opts.vehicle else s.vehicle
  (predicted c.opts s).bind fun s' =>
    (convertLapsSt env c.opts vehicle (innerLaps s'.laps) ⟨none⟩ 1 []).map fun (laps, st) => (laps, { c with st := st })

/-- the same without the reset: the converter as it was before the repair -/
def Converter.lapTimerStale (c : Converter) (env : Env α) (s : Session α) : Outcome (List (LapOut α) × Converter) :=
  let vehicle := if c.opts.vehicle ≠ "" then c.opts.vehicle else s.vehicle
  (predicted c.opts s).bind fun s' =>
    (convertLapsSt env c.opts vehicle (innerLaps s'.laps) c.st 1 []).map fun (laps, st) => (laps, { c with st := st })

/-- whatever the converter has converted before, a session is converted as by a new converter -/
theorem Converter.lapTimer_fresh (c : Converter) (env : Env α) (s : Session α) :
    (c.lapTimer env s).map (·.1) = Conv.lapTimer env c.opts s := by
  unfold Converter.lapTimer Conv.lapTimer
  cases predicted c.opts s with
  | ok s' =>
    simp only [bind_ok]
    rw [← convertLapsSt_fst]
    cases convertLapsSt env c.opts (if c.opts.vehicle ≠ "" then c.opts.vehicle else s.vehicle) (innerLaps s'.laps) ⟨none⟩ 1 [] <;> rfl
  | err e => rfl
  | panic p => rfl
  | unmodelled => rfl

/-- any sequence of sessions: each is converted as by a new converter -/
def Converter.run (env : Env α) : Converter → List (Session α) → List (Outcome (List (LapOut α)))
  | _, [] => []
  | c, s :: rest =>
    match c.lapTimer env s with
    | .ok (laps, c') => .ok laps :: Converter.run env c' rest
    | .err e => .err e :: Converter.run env c rest
    | .panic p => .panic p :: Converter.run env c rest
    | .unmodelled => .unmodelled :: Converter.run env c rest

theorem Converter.lapTimer_opts (c c' : Converter) (env : Env α) (s : Session α) (laps : List (LapOut α))
    (h : c.lapTimer env s = .ok (laps, c')) : c'.opts = c.opts := by
  unfold Converter.lapTimer at h
  obtain ⟨s', _, h⟩ := bind_eq_ok.mp h
  obtain ⟨⟨l, st⟩, _, h⟩ := map_eq_ok.mp h
  cases h; rfl

theorem Converter.run_fresh (env : Env α) : ∀ (c : Converter) (ss : List (Session α)),
    Converter.run env c ss = ss.map (Conv.lapTimer env c.opts)
  | _, [] => rfl
  | c, s :: rest => by
    have hf := Converter.lapTimer_fresh c env s
    unfold Converter.run
    cases h : c.lapTimer env s with
    | ok p =>
      obtain ⟨laps, c'⟩ := p
      rw [h] at hf
      simp only [List.map_cons]
      rw [Converter.run_fresh env c' rest, Converter.lapTimer_opts c c' env s laps h, ← hf]
      rfl
    | err e => rw [h] at hf; simp only [List.map_cons]; rw [Converter.run_fresh env c rest, ← hf]; rfl
    | panic p => rw [h] at hf; simp only [List.map_cons]; rw [Converter.run_fresh env c rest, ← hf]; rfl
    | unmodelled => rw [h] at hf; simp only [List.map_cons]; rw [Converter.run_fresh env c rest, ← hf]; rfl

end TrackVerif.Conv
