import TrackVerif.Common.Proto
import TrackVerif.TA.Driver
import TrackVerif.Conv.Model
import TrackVerif.Conv.Spec
/-
  Line-protocol side of the conversion area (C03, C11, C12).

    CV conv T=<hex> V=<hex> G=<hex,hex|-> N=<hex> DS=<int> PF=<int> SD=<sec|-> PR=pl|pc|nil
            O=<lat1,lon1,lat2,lon2,d;…|-> X=<hex log text>        => ok <dump> | err | panic
    CV shift <same fields, SD set>                                => <dump with SD> || <dump without SD>
-/
namespace TrackVerif.Conv.Driver
open TrackVerif Proto TA Conv

instance : CNum Float where
  round := Float.round
  ofInt := Float.ofInt
  toInt x := x.toInt64.toInt
  lt a b := a < b
  beq a b := a == b

def dayNs : Int := 86400000000000

def midnight (t : Int) : Int := t - t % dayNs

structure Parsed where
  opts : Opts
  oracle : List (String × Float)     -- key "lat1,lon1,lat2,lon2" (hex bits) ↦ distance
  text : String

def field (toks : List String) (k : String) : Option String :=
  (toks.find? (·.startsWith (k ++ "="))).map fun t => (t.drop (k.length + 1)).toString

def parseOracle (s : String) : Option (List (String × Float)) :=
  if s == "-" then some [] else
  (s.splitOn ";").mapM fun e =>
    match e.splitOn "," with
    | [a, b, c, d, v] => (floatOfHex? v).map fun f => (String.intercalate "," [a, b, c, d], f)
    | _ => none

def parseOpts (toks : List String) : Option Parsed := do
  let t ← (field toks "T").bind stringOfHex?
  let v ← (field toks "V").bind stringOfHex?
  let g ← field toks "G"
  let tags ← if g == "-" then some [] else (g.splitOn ",").mapM stringOfHex?
  let n ← (field toks "N").bind stringOfHex?
  let ds ← (field toks "DS").bind int?
  let pf ← (field toks "PF").bind int?
  let sd ← field toks "SD"
  let sd ← if sd == "-" then some none else (int? sd).map fun s => some (s * 1000000000)
  let pr ← field toks "PR"
  let pr ← if pr == "pl" || pr == "def" then some (some Predictor.linear) else if pr == "pc" then some (some Predictor.constant)
    else if pr == "px" then some (some Predictor.shifted)
    else if pr == "nil" then some none else none
  let o ← (field toks "O").bind parseOracle
  let x ← (field toks "X").bind stringOfHex?
  pure ⟨⟨t, v, tags, n, ds, pf, sd, pr⟩, o, x⟩

def envOf (oracle : List (String × Float)) : Env Float :=
  { inverse := fun a b c d =>
      oracle.lookup (String.intercalate "," [hexOfFloat a, hexOfFloat b, hexOfFloat c, hexOfFloat d])
    midnight := midnight }

def dumpTime : Option Int → String
  | none => "z"
  | some t => s!"{t / 1000000000}:{t % 1000000000}"

def dumpOptF : Option Float → String
  | none => "-"
  | some x => hexOfFloat x

def dumpFix (f : Fix Float) : String :=
  let accel := match f.accel with
    | none => "-"
    | some a => s!"{hexOfFloat a.lateral}:{hexOfFloat a.lineal}:{hexOfFloat a.lon}:{hexOfFloat a.lat}"
  let obd := match f.obd with
    | none => "-"
    | some o =>
      let rpm := match o.rpm with | none => "-" | some r => toString r
      s!"{rpm}:{dumpOptF o.map}:{dumpOptF o.speed}:{dumpOptF o.throttle}:{dumpOptF o.coolant}:{dumpOptF o.iat}"
  String.intercalate "," [toString f.id, dumpTime f.date, hexOfFloat f.lon, hexOfFloat f.lat, hexOfFloat f.alt,
    hexOfFloat f.speed, toString f.diff, toString f.pos, toString f.satellites, hexOfFloat f.direction,
    hexOfFloat f.hdop, hexOfFloat f.accuracy, hexOfFloat f.dist, toString f.offset, accel, obd]

def dumpLap (l : LapOut Float) : String :=
  let tags := if l.tags.isEmpty then "-" else String.intercalate "," (l.tags.map hexOfString)
  let fixes := l.fixes.map fun f => " (" ++ dumpFix f ++ ")"
  s!" [{l.id} {dumpTime l.date} {l.lapTime} {hexOfString l.vehicle} {hexOfString l.track} {hexOfString l.note} {tags} {hexOfFloat l.overall} {l.fixes.length}" ++ String.join fixes ++ "]"

def render (o : Outcome (List (LapOut Float))) : String :=
  match o with
  | .ok laps => s!"ok L={laps.length}" ++ String.join (laps.map dumpLap)
  | .err _ => "err"
  | .panic _ => "panic"
  | .unmodelled => "unmodelled"

def runModel (t : Tables) (p : Parsed) : Outcome (List (LapOut Float)) :=
  match (decodeLines t (TA.Driver.scanLines p.text) : Outcome (Session Float)) with
  | .ok s => lapTimer (envOf p.oracle) p.opts s
  | .err e => .err e
  | .panic q => .panic q
  | .unmodelled => .unmodelled

def b01 (b : Bool) : String := if b then "1" else "0"

/-- spec side: declarative conversion (Spec.convert) of the OBD-predicted session -/
def runSpec (t : Tables) (p : Parsed) : Outcome (List (LapOut Float)) :=
  match (decodeLines t (TA.Driver.scanLines p.text) : Outcome (Session Float)) with
  | .ok s =>
    let s' := match p.opts.predictor with
      | some k => predictOBD k s
      | none => .ok s
    match s' with
    | .ok s' => Spec.convert (envOf p.oracle) p.opts s'
    | .err e => .err e
    | .panic q => .panic q
    | .unmodelled => .unmodelled
  | .err e => .err e
  | .panic q => .panic q
  | .unmodelled => .unmodelled

def handleConv (toks : List String) (impl : List String) : String :=
  match parseOpts toks with
  | none => "BAD"
  | some p =>
    let m := runModel TA.Driver.specTables p
    let sp := runSpec TA.Driver.specTables p
    let implS := String.intercalate " " impl
    if impl.head? = some "panic" then
      match m with
      | .panic _ => "OK cls=panic nt=0"          -- gonum's documented Fit panic, outside every property
      | .unmodelled => "SKIP reason=grammar"
      | _ => s!"VIOL clause=cv.no_crash model={(render m).take 60}"
    else match m, sp with
    | .unmodelled, _ => "SKIP reason=grammar"
    | _, .unmodelled => "SKIP reason=grammar"
    | _, _ =>
      let rM := render m
      let rS := render sp
      let specMsg := match sp with
        | .ok laps => Spec.checkStructure p.opts laps
        | _ => none
      let nt : Bool := match m with | .ok laps => decide (laps.length ≥ 1) | _ => false
      if implS == rS then
        match specMsg with
        | some c => s!"VIOL clause={c}"
        | none => if rM == rS then s!"OK cls={m.tag} nt={b01 nt}" else "CORR clause=cv.model_vs_spec"
      else s!"VIOL clause=cv.convert spec={rS.take 3000}"

/-- C12 metamorphic op: dump with the start date vs dump without it -/
def handleShift (toks : List String) (impl : List String) : String :=
  match parseOpts toks with
  | none => "BAD"
  | some p =>
    let implWith := impl.takeWhile (· ≠ "||")
    let implWithout := (impl.dropWhile (· ≠ "||")).drop 1
    let mWith := runModel TA.Driver.specTables p
    let mWithout := runModel TA.Driver.specTables { p with opts := { p.opts with startDate := none } }
    match mWith, mWithout with
    | .ok lw, .ok lo =>
      -- spec: shifting every date of the un-overridden conversion by one constant
      let want := Spec.shiftedBy p.opts midnight (fun s => s.laps) lo
        (match (decodeLines TA.Driver.specTables (TA.Driver.scanLines p.text) : Outcome (Session Float)) with
          | .ok s => some s | _ => none)
      let rW := render (.ok lw)
      let rO := render (.ok lo)
      let iW := String.intercalate " " implWith
      let iO := String.intercalate " " implWithout
      if iW == render (.ok want) ∧ iO == rO then
        if rW == iW then s!"OK nt={b01 (lo.length ≥ 1)}" else "CORR clause=cv.shift_model"
      else s!"VIOL clause=cv.shift_constant want={(render (.ok want)).take 1500}"
    | .unmodelled, _ => "SKIP reason=grammar"
    | _, .unmodelled => "SKIP reason=grammar"
    | .panic _, _ =>
      -- gonum's documented Fit panic (non-increasing xs), outside every property
      if impl.head? = some "panic" then "OK cls=panic nt=0" else "CORR clause=cv.shift_panic"
    | _, _ =>
      if impl.head? = some "panic" then "VIOL clause=cv.no_crash" else
      if String.intercalate " " implWith == render mWith then "OK nt=0" else "CORR clause=cv.shift_err"

def handle (args : List String) (impl : List String) : String :=
  match args with
  | "conv" :: toks => handleConv toks impl
  | "shift" :: toks => handleShift toks impl
  | "dist" :: _ =>
    -- the geodesic library is a parameter of the model: whether the distance the conversion
    -- accumulates between two fixes is the true one is judged by the harness against an independent
    -- great-circle estimate (bounds from the ellipsoid's radii of curvature); the verdict is relayed,
    -- and a position on the 45th parallel to the last digit is labelled (recorded finding)
    let tag := if impl.contains "lat45=1" then " tag=geodesic-lat45" else ""
    match impl with
    | "ok" :: _ => "OK nt=1"
    | "diff" :: rest => s!"VIOL clause=cv.true_distance{tag} " ++ String.intercalate " " (rest.filter (· != "lat45=1"))
    | ["panic"] => "VIOL clause=cv.no_crash"
    | _ => "BAD"
  | "pred" :: _ =>
    -- gonum's spline predictors are not modelled: the harness compares `PredictOBD` with a predictor
    -- of the same type fitted per channel (oracle on the implementation side); the verdict is relayed
    match impl with
    | "ok" :: n :: _ => s!"OK nt={b01 (n != "n=0")}"
    | "skip" :: why :: _ => s!"SKIP reason={why}"
    | "diff" :: rest => "VIOL clause=cv.predictor_value " ++ String.intercalate " " rest
    | ["panic"] => "VIOL clause=cv.no_crash"
    | _ => "BAD"
  | _ => "BAD"

end TrackVerif.Conv.Driver
