import TrackVerif.Conv.Lemmas
import TrackVerif.Conv.NumRat
/-
  C03 — Conversion keeps timed laps, numbers fixes 1..N and accumulates true distance.
  Property theorems only; helper lemmas are in Conv/Lemmas.lean.
-/
namespace TrackVerif.C03
open TrackVerif Outcome TA Conv

variable {α : Type} [CNum α]

/-- refinement: the converter's loops (fix ids, running distance, last position and date state
    threaded through accumulators) compute exactly the declarative conversion `Spec.convert`
    of the (optionally OBD-predicted) session, for every session and option set for which the
    date adjustment is computable -/
theorem convert_is_spec (env : Env α) (o : Opts) (s s' : Session α)
    (hs : predicted o s = .ok s') (hc : AdjComputable o ⟨none⟩ (innerLaps s'.laps)) :
    lapTimer env o s = Spec.convert env o s' := by
  have hv : s'.vehicle = s.vehicle := by
    unfold predicted at hs
    split at hs
    · exact predictOBD_vehicle _ _ _ hs
    · cases hs; rfl
  unfold lapTimer Spec.convert
  simp only [hs, bind_ok]
  rw [convertLaps_spec env o _ (innerLaps s'.laps) ⟨none⟩ 1 [] hc, hv]
  have : effAdj env o ⟨none⟩ (innerLaps s'.laps) = Spec.dateShift env o s' := rfl
  rw [this]
  cases Spec.specLaps env o (Spec.dateShift env o s')
    (if o.vehicle ≠ "" then o.vehicle else s.vehicle) 1 (innerLaps s'.laps) <;>
    simp [Outcome.map, Outcome.bind]

/-- a failing prediction step fails the conversion the same way -/
theorem convert_propagates (env : Env α) (o : Opts) (s : Session α) (h : ¬ (predicted o s).isOk) :
    (lapTimer env o s).isOk = false := by
  unfold lapTimer
  cases hp : predicted o s <;> simp_all [Outcome.bind, Outcome.isOk]

/-! Consequences read off the declarative form -/

/-- exactly laps 2..L-1, in order (none when there are fewer than 3 laps) -/
theorem lap_selection (laps : List (Lap α)) :
    innerLaps laps = if laps.length < 3 then [] else (laps.drop 1).dropLast := rfl

theorem few_laps_empty (env : Env α) (o : Opts) (s : Session α) (h : s.laps.length < 3) :
    Spec.convert env o s = .ok [] := by
  simp [Spec.convert, innerLaps, h, Spec.specLaps]

/-- a lap's fixes are its first row plus every later GPS-updated row, in order -/
theorem fix_rows (recs : List (Record α)) :
    Spec.fixRows recs = match recs with
      | [] => []
      | r :: rest => r :: rest.filter (·.gps.update) := rfl

/-- every converted lap carries the source lap's number and duration and the configured
    track, tags, note and vehicle -/
theorem lap_constants (env : Env α) (o : Opts) (k : Int) (v : String) (id : Int) (l : Lap α)
    (lap : LapOut α) (h : Spec.specLap env o k v id l = .ok lap) :
    lap.id = l.number ∧ lap.lapTime = l.duration ∧ lap.track = o.track ∧ lap.tags = o.tags ∧
    lap.note = o.note ∧ lap.vehicle = v := by
  unfold Spec.specLap at h
  split at h
  · cases h; simp [baseLap]
  · obtain ⟨ds, _, h⟩ := map_eq_ok.mp h
    subst h; simp [baseLap]

/-- fix indices: the fixes of a lap are numbered firstId, firstId+1, … without gaps -/
theorem zipFixes_ids (o : Opts) (adj firstNow id : Int) (rows : List (Record α)) (ds : List α)
    (h : ds.length = rows.length) :
    (Spec.zipFixes o adj firstNow id rows ds).map (·.id) =
      (List.range rows.length).map (fun (j : Nat) => id + (j : Int)) := by
  induction rows generalizing id ds with
  | nil => simp [Spec.zipFixes]
  | cons r rest ih =>
    cases ds with
    | nil => simp at h
    | cons d ds =>
      simp only [Spec.zipFixes, List.map_cons, List.length_cons, List.range_succ_eq_map, List.map_map]
      rw [ih (id + 1) ds (by simpa using h)]
      simp [lapTimerFix, Function.comp_def, Int.add_assoc, Int.add_comm 1]

/-- …and they run on across laps: the whole database is numbered 1,2,3,… -/
theorem fix_ids (env : Env α) (o : Opts) (k : Int) (v : String) (laps : List (Lap α)) (id : Int)
    (out : List (LapOut α)) (h : Spec.specLaps env o k v id laps = .ok out) :
    out.flatMap (fun l => l.fixes.map (·.id)) =
      (List.range (out.flatMap (·.fixes)).length).map (fun (j : Nat) => id + (j : Int)) := by
  induction laps generalizing id out with
  | nil => simp [Spec.specLaps] at h; subst h; simp
  | cons l rest ih =>
    unfold Spec.specLaps at h
    split at h
    · rename_i lap hl
      split at h
      · rename_i laps' hr
        cases h
        have hcount := specLap_fix_count env o k v id l lap hl
        have hids : lap.fixes.map (·.id) =
            (List.range lap.fixes.length).map (fun (j : Nat) => id + (j : Int)) := by
          unfold Spec.specLap at hl
          split at hl
          · cases hl; simp [baseLap]
          · rename_i r rs hrec
            obtain ⟨ds, hds, hl⟩ := map_eq_ok.mp hl
            subst hl
            simp only
            have hlen := fixDists_length _ _ _ hds
            rw [zipFixes_ids _ _ _ _ _ _ hlen, zipFixes_length _ _ _ _ _ _ hlen]
        have := ih (id + (Spec.fixRows l.records).length) laps' hr
        simp only [List.flatMap_cons, List.length_append, this, hids]
        rw [← hcount]
        rw [List.range_add, List.map_append]
        simp [Int.add_assoc]
      all_goals cases h
    all_goals cases h

/-- within a lap the first fix is at distance 0 and offset 0 -/
theorem first_fix_zero (env : Env α) (o : Opts) (k : Int) (v : String) (id : Int) (l : Lap α)
    (lap : LapOut α) (f : Fix α) (h : Spec.specLap env o k v id l = .ok lap)
    (hf : lap.fixes.head? = some f) : f.dist = CNum.ofInt 0 ∧ f.offset = 0 := by
  unfold Spec.specLap at h
  split at h
  · cases h; simp [baseLap] at hf
  · rename_i r rs hrec
    obtain ⟨ds, hds, h⟩ := map_eq_ok.mp h
    subst h
    unfold Spec.fixDists Spec.fixRows at hds
    simp only at hds
    obtain ⟨ds', _, hds⟩ := map_eq_ok.mp hds
    subst hds
    simp [Spec.fixRows, Spec.zipFixes] at hf
    subst hf
    simp [lapTimerFix]

/-- every fix's offset is its row time minus the first row's -/
theorem fix_offsets (o : Opts) (adj firstNow id : Int) (rows : List (Record α)) (ds : List α)
    (h : ds.length = rows.length) :
    (Spec.zipFixes o adj firstNow id rows ds).map (·.offset) = rows.map (fun r => r.now - firstNow) := by
  induction rows generalizing id ds with
  | nil => simp [Spec.zipFixes]
  | cons r rest ih =>
    cases ds with
    | nil => simp at h
    | cons d ds => simp [Spec.zipFixes, lapTimerFix, ih (id + 1) ds (by simpa using h)]

/-- every fix's distance is the running sum of geodesic distances between successive fix
    positions (`Spec.cumDist` is that running sum by definition) and is stored unrounded -/
theorem fix_distances (o : Opts) (adj firstNow id : Int) (rows : List (Record α)) (ds : List α)
    (h : ds.length = rows.length) :
    (Spec.zipFixes o adj firstNow id rows ds).map (·.dist) = ds := by
  induction rows generalizing id ds with
  | nil => cases ds <;> simp_all [Spec.zipFixes]
  | cons r rest ih =>
    cases ds with
    | nil => simp at h
    | cons d ds => simp [Spec.zipFixes, lapTimerFix, ih (id + 1) ds (by simpa using h)]

/-- the lap's overall distance is its last fix's distance rounded to 0.1 m -/
theorem overall_distance (env : Env α) (o : Opts) (k : Int) (v : String) (id : Int) (l : Lap α)
    (lap : LapOut α) (f : Fix α) (h : Spec.specLap env o k v id l = .ok lap)
    (hf : lap.fixes.getLast? = some f) : lap.overall = round1dp f.dist := by
  unfold Spec.specLap at h
  split at h
  · cases h; simp [baseLap] at hf
  · rename_i r rs hrec
    obtain ⟨ds, hds, h⟩ := map_eq_ok.mp h
    subst h
    simp only at hf ⊢
    have hlen := fixDists_length _ _ _ hds
    have hd := fix_distances o k r.now id (Spec.fixRows (r :: rs)) ds hlen
    have : (Spec.zipFixes o k r.now id (Spec.fixRows (r :: rs)) ds).getLast?.map (·.dist) = ds.getLast? := by
      have h2 := congrArg List.getLast? hd
      rw [List.getLast?_map] at h2
      exact h2
    rw [hf] at this
    simp only [Option.map_some] at this
    simp [← this]

/-- position, altitude, speed, heading, accuracy, acceleration and OBD are carried at output precision -/
theorem carried (o : Opts) (adj : Int) (id : Int) (d : α) (r : Record α) (fn : Int) :
    let f := lapTimerFix o adj id d r fn
    f.lat = r.gps.lat ∧ f.lon = r.gps.lon ∧ f.alt = r.gps.alt ∧ f.speed = round1dp r.speed ∧
    f.direction = round1dp r.gps.heading ∧ f.accuracy = round1dp r.gps.acc ∧
    f.accel = r.accel.map (fun a => ⟨round2dp a.x, round2dp a.y, r.gps.lon, r.gps.lat⟩) ∧
    f.obd = r.obd.map convertOBD ∧ f.diff = o.diff ∧ f.pos = o.pos := by
  simp [lapTimerFix, convertAccel]

end TrackVerif.C03
