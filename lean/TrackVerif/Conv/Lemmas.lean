import TrackVerif.Conv.Model
import TrackVerif.Conv.Spec
/-  Helper lemmas for the conversion model (C03, C11, C12).  Core only. -/
namespace TrackVerif.Conv
open TrackVerif Outcome TA

variable {α : Type} [CNum α]

/-! ### The fix loop is the declarative spec -/

/-- projection of the loop state that the lap uses: fixes and final distance -/
def FixAcc.out (a : FixAcc α) : List (Fix α) × α := (a.fixes, a.dist)

/-- rows after the first: only GPS-updated rows become fixes; distance accumulates over them -/
theorem fixLoop_tail (env : Env α) (o : Opts) (adj firstNow : Int) (rest : List (Record α))
    (j : Nat) (hj : j ≠ 0) (acc : FixAcc α) :
    (fixLoop env o adj firstNow rest j acc).map FixAcc.out =
      (Spec.cumDist env acc.dist acc.lastLat acc.lastLon (rest.filter (·.gps.update))).map fun ds =>
        (acc.fixes ++ Spec.zipFixes o adj firstNow acc.id (rest.filter (·.gps.update)) ds,
         (ds.getLast?).getD acc.dist) := by
  induction rest generalizing j acc with
  | nil => simp [fixLoop, Spec.cumDist, Outcome.map, Outcome.bind, FixAcc.out, Spec.zipFixes]
  | cons r rest ih =>
    unfold fixLoop
    have hpos : 0 < j := Nat.pos_of_ne_zero hj
    by_cases hu : r.gps.update = true
    · simp only [hu, Bool.not_true, Bool.false_eq_true, and_false, if_false, hpos,
        and_self, if_true, List.filter_cons]
      cases hinv : env.inverse acc.lastLat acc.lastLon r.gps.lat r.gps.lon with
      | none => simp [Spec.cumDist, hinv, Outcome.map, Outcome.bind]
      | some d =>
        simp only [Spec.cumDist, hinv]
        have := ih (j + 1) (by omega)
          { dist := Num.add acc.dist d, lastLat := r.gps.lat, lastLon := r.gps.lon, id := acc.id + 1,
            fixes := acc.fixes ++ [lapTimerFix o adj acc.id (Num.add acc.dist d) r firstNow] }
        simp only at this
        rw [this]
        cases hc : Spec.cumDist env (Num.add acc.dist d) r.gps.lat r.gps.lon (rest.filter (·.gps.update)) with
        | ok ds =>
          simp only [Outcome.map, Outcome.bind, Spec.zipFixes, List.append_assoc, List.singleton_append]
          cases ds with
          | nil => simp
          | cons x xs =>
            cases hl : (x :: xs).getLast? with
            | none => simp at hl
            | some y => simp [hl]
        | err e => simp [Outcome.map, Outcome.bind]
        | panic p => simp [Outcome.map, Outcome.bind]
        | unmodelled => simp [Outcome.map, Outcome.bind]
    · have hu' : r.gps.update = false := by simpa using hu
      simp only [hu', Bool.not_false, hj, ne_eq, not_false_eq_true, and_self, if_true,
        List.filter_cons, Bool.false_eq_true, if_false]
      exact ih (j + 1) (by omega) acc

/-- whole lap: the first row always becomes a fix at the distance accumulated so far (0) -/
theorem fixLoop_lap (env : Env α) (o : Opts) (adj firstNow : Int) (r : Record α)
    (rest : List (Record α)) (id : Int) :
    (fixLoop env o adj firstNow (r :: rest) 0 ⟨CNum.ofInt 0, r.gps.lat, r.gps.lon, id, []⟩).map FixAcc.out =
      (Spec.fixDists env (Spec.fixRows (r :: rest))).map fun ds =>
        (Spec.zipFixes o adj firstNow id (Spec.fixRows (r :: rest)) ds,
         (ds.getLast?).getD (CNum.ofInt 0)) := by
  unfold fixLoop
  simp only [ne_eq, not_true_eq_false, false_and, if_false, gt_iff_lt, Nat.lt_irrefl]
  have := fixLoop_tail env o adj firstNow rest 1 (by omega)
    { dist := CNum.ofInt 0, lastLat := r.gps.lat, lastLon := r.gps.lon, id := id + 1,
      fixes := [lapTimerFix o adj id (CNum.ofInt 0) r firstNow] }
  simp only [List.nil_append] at this ⊢
  rw [this]
  simp only [Spec.fixDists, Spec.fixRows]
  cases hc : Spec.cumDist env (CNum.ofInt 0) r.gps.lat r.gps.lon (rest.filter (·.gps.update)) with
  | ok ds =>
    simp only [Outcome.map, Outcome.bind, Spec.zipFixes, List.singleton_append]
    cases ds with
    | nil => simp
    | cons x xs =>
      cases hl : (x :: xs).getLast? with
      | none => simp at hl
      | some y => simp [hl]
  | err e => simp [Outcome.map, Outcome.bind]
  | panic p => simp [Outcome.map, Outcome.bind]
  | unmodelled => simp [Outcome.map, Outcome.bind]

end TrackVerif.Conv

namespace TrackVerif.Conv
open TrackVerif Outcome TA
variable {α : Type} [CNum α]

/-! ### Laps -/

theorem cumDist_length (env : Env α) (d lat lon : α) (rows : List (Record α)) (ds : List α)
    (h : Spec.cumDist env d lat lon rows = .ok ds) : ds.length = rows.length := by
  induction rows generalizing d lat lon ds with
  | nil => simp [Spec.cumDist] at h; subst h; rfl
  | cons r rest ih =>
    unfold Spec.cumDist at h
    split at h
    · rename_i step _
      split at h
      · rename_i ds' hds
        cases h
        simp [ih _ _ _ _ hds]
      all_goals cases h
    · cases h

theorem fixDists_length (env : Env α) (rows : List (Record α)) (ds : List α)
    (h : Spec.fixDists env rows = .ok ds) : ds.length = rows.length := by
  unfold Spec.fixDists at h
  split at h
  · cases h; rfl
  · obtain ⟨ds', hds, h⟩ := map_eq_ok.mp h
    subst h
    simp [cumDist_length _ _ _ _ _ _ hds]

theorem zipFixes_length (o : Opts) (adj firstNow id : Int) (rows : List (Record α)) (ds : List α)
    (h : ds.length = rows.length) : (Spec.zipFixes o adj firstNow id rows ds).length = rows.length := by
  induction rows generalizing id ds with
  | nil => simp [Spec.zipFixes]
  | cons r rest ih =>
    cases ds with
    | nil => simp at h
    | cons d ds => simp [Spec.zipFixes, ih (id + 1) ds (by simpa using h)]

theorem specLap_fix_count (env : Env α) (o : Opts) (k : Int) (v : String) (id : Int) (l : Lap α)
    (lap : LapOut α) (h : Spec.specLap env o k v id l = .ok lap) :
    lap.fixes.length = (Spec.fixRows l.records).length := by
  unfold Spec.specLap at h
  split at h
  · rename_i hr
    cases h; simp [baseLap, hr, Spec.fixRows]
  · rename_i r rest hr
    obtain ⟨ds, hds, h⟩ := map_eq_ok.mp h
    subst h
    rw [hr]
    exact zipFixes_length _ _ _ _ _ _ (fixDists_length _ _ _ hds)

/-- given the converter state after `nextState`, a lap is the declarative lap -/
theorem lapTimerLap_spec (env : Env α) (o : Opts) (st : ConvState) (l : Lap α) (v : String) (id : Int) :
    lapTimerLap env o st l v id =
      match l.records with
      | [] => .ok (baseLap o l v, st)
      | r :: _ => (nextState env o st r).bind fun st' =>
          (Spec.specLap env o (adjOf st') v id l).map fun lap => (lap, st') := by
  unfold lapTimerLap
  cases hr : l.records with
  | nil => rfl
  | cons r rest =>
    simp only [bind_eq]
    cases hn : nextState env o st r with
    | ok st' =>
      simp only [bind_ok, Spec.specLap, hr]
      have hl := fixLoop_lap env o (adjOf st') r.now r rest id
      cases hf : fixLoop env o (adjOf st') r.now (r :: rest) 0 ⟨CNum.ofInt 0, r.gps.lat, r.gps.lon, id, []⟩ with
      | ok acc =>
        rw [hf] at hl
        cases hd : Spec.fixDists env (Spec.fixRows (r :: rest)) with
        | ok ds =>
          rw [hd] at hl
          simp only [Outcome.map, Outcome.bind, FixAcc.out, Outcome.ok.injEq, Prod.mk.injEq] at hl
          obtain ⟨h1, h2⟩ := hl
          simp [Outcome.map, Outcome.bind, h1, h2]
        | err e => rw [hd] at hl; simp [Outcome.map, Outcome.bind] at hl
        | panic p => rw [hd] at hl; simp [Outcome.map, Outcome.bind] at hl
        | unmodelled => rw [hd] at hl; simp [Outcome.map, Outcome.bind] at hl
      | err e =>
        rw [hf] at hl
        cases hd : Spec.fixDists env (Spec.fixRows (r :: rest)) <;> rw [hd] at hl <;>
          simp [Outcome.map, Outcome.bind] at hl ⊢ <;> exact hl
      | panic p =>
        rw [hf] at hl
        cases hd : Spec.fixDists env (Spec.fixRows (r :: rest)) <;> rw [hd] at hl <;>
          simp [Outcome.map, Outcome.bind] at hl ⊢ <;> exact hl
      | unmodelled =>
        rw [hf] at hl
        cases hd : Spec.fixDists env (Spec.fixRows (r :: rest)) <;> rw [hd] at hl <;>
          simp [Outcome.map, Outcome.bind] at hl ⊢
    | err e => simp [Outcome.bind]
    | panic p => simp [Outcome.bind]
    | unmodelled => simp [Outcome.bind]

end TrackVerif.Conv

namespace TrackVerif.Conv
open TrackVerif Outcome TA
variable {α : Type} [CNum α]

/-! ### Whole conversion -/

open Spec (firstTime)

/-- the adjustment the remaining laps are converted with, seen from a converter state -/
def effAdj (env : Env α) (o : Opts) (st : ConvState) (laps : List (Lap α)) : Int :=
  match st.adj with
  | some k => k
  | none => Spec.shiftFor env o (firstTime laps)

/-- the adjustment can be computed: not requested, already known, no row at all, or the first
    converted row carries a timestamp -/
def AdjComputable (o : Opts) (st : ConvState) (laps : List (Lap α)) : Prop :=
  o.startDate = none ∨ st.adj ≠ none ∨ (∀ l ∈ laps, l.records = []) ∨ (firstTime laps).isSome

omit [CNum α] in
theorem firstTime_cons_nil (l : Lap α) (rest : List (Lap α)) (h : l.records = []) :
    firstTime (l :: rest) = firstTime rest := by
  simp [firstTime, List.find?_cons, h]

omit [CNum α] in
theorem firstTime_cons_rec (l : Lap α) (rest : List (Lap α)) (r : Record α) (rs : List (Record α))
    (h : l.records = r :: rs) : firstTime (l :: rest) = r.time := by
  simp [firstTime, List.find?_cons, h]

theorem specLap_nil (env : Env α) (o : Opts) (k : Int) (v : String) (id : Int) (l : Lap α)
    (h : l.records = []) : Spec.specLap env o k v id l = .ok (baseLap o l v) := by
  simp [Spec.specLap, h]

theorem convertLaps_spec (env : Env α) (o : Opts) (v : String) (laps : List (Lap α)) (st : ConvState)
    (id : Int) (acc : List (LapOut α)) (hc : AdjComputable o st laps) :
    convertLaps env o v laps st id acc =
      (Spec.specLaps env o (effAdj env o st laps) v id laps).map (acc ++ ·) := by
  induction laps generalizing st id acc with
  | nil => simp [convertLaps, Spec.specLaps, Outcome.map, Outcome.bind]
  | cons l rest ih =>
    unfold convertLaps Spec.specLaps
    rw [lapTimerLap_spec]
    cases hr : l.records with
    | nil =>
      have hc' : AdjComputable o st rest := by
        rcases hc with h | h | h | h
        · exact Or.inl h
        · exact Or.inr (Or.inl h)
        · exact Or.inr (Or.inr (Or.inl fun l' hl' => h l' (by simp [hl'])))
        · exact Or.inr (Or.inr (Or.inr (by rwa [firstTime_cons_nil l rest hr] at h)))
      have he : effAdj env o st (l :: rest) = effAdj env o st rest := by
        simp [effAdj, firstTime_cons_nil l rest hr]
      simp only [specLap_nil env o _ v id l hr, he]
      rw [ih st _ _ hc']
      simp only [baseLap, List.length_nil, Int.natCast_zero, Int.add_zero, hr, Spec.fixRows]
      cases Spec.specLaps env o (effAdj env o st rest) v id rest <;>
        simp [Outcome.map, Outcome.bind]
    | cons r rs =>
      simp only
      -- the state after this lap and the adjustment it implies
      have hn : ∃ st', nextState env o st r = .ok st' ∧ adjOf st' = effAdj env o st (l :: rest) ∧
          effAdj env o st' rest = effAdj env o st (l :: rest) ∧ AdjComputable o st' rest := by
        unfold nextState
        cases hd : o.startDate with
        | none =>
          refine ⟨st, by cases st.adj <;> rfl, ?_, ?_, Or.inl hd⟩
          · cases ha : st.adj <;> simp [adjOf, effAdj, Spec.shiftFor, ha, hd]
          · cases ha : st.adj <;> simp [effAdj, Spec.shiftFor, ha, hd]
        | some d =>
          cases ha : st.adj with
          | some k =>
            exact ⟨st, by simp, by simp [adjOf, effAdj, ha], by simp [effAdj, ha],
              Or.inr (Or.inl (by simp [ha]))⟩
          | none =>
            have ht : (firstTime (l :: rest)).isSome := by
              rcases hc with h | h | h | h
              · simp [hd] at h
              · exact absurd ha h
              · have := h l (by simp); simp [hr] at this
              · exact h
            rw [firstTime_cons_rec l rest r rs hr] at ht
            cases htime : r.time with
            | none => simp [htime] at ht
            | some t =>
              refine ⟨⟨some (d - env.midnight t)⟩, by simp, ?_, ?_, Or.inr (Or.inl (by simp))⟩
              · simp [adjOf, effAdj, Spec.shiftFor, ha, hd, firstTime_cons_rec l rest r rs hr, htime]
              · simp [effAdj, Spec.shiftFor, ha, hd, firstTime_cons_rec l rest r rs hr, htime]
      obtain ⟨st', hst, h1, h2, h3⟩ := hn
      simp only [hst, bind_ok, h1]
      cases hs : Spec.specLap env o (effAdj env o st (l :: rest)) v id l with
      | ok lap =>
        simp only [Outcome.map, Outcome.bind]
        rw [ih st' _ _ h3, h2, specLap_fix_count env o _ v id l lap hs, hr]
        cases Spec.specLaps env o (effAdj env o st (l :: rest)) v (id + ↑(Spec.fixRows (r :: rs)).length) rest <;>
          simp [Outcome.map, Outcome.bind]
      | err e => simp [Outcome.map, Outcome.bind]
      | panic p => simp [Outcome.map, Outcome.bind]
      | unmodelled => simp [Outcome.map, Outcome.bind]

end TrackVerif.Conv

namespace TrackVerif.Conv
open TrackVerif Outcome TA
variable {α : Type} [CNum α]

/-- OBD prediction changes laps only: vehicle, metadata and end point are untouched -/
theorem predictOBD_vehicle (k : Predictor) (s s' : Session α) (h : predictOBD k s = .ok s') :
    s'.vehicle = s.vehicle := by
  unfold predictOBD at h
  simp only [bind_eq] at h
  obtain ⟨sc, _, h⟩ := bind_eq_ok.mp h
  split at h
  · cases h; rfl
  · split at h
    · cases h
    · split at h
      · cases h
      · split at h
        · cases h
        · obtain ⟨p, _, h⟩ := map_eq_ok.mp h
          subst h; rfl

end TrackVerif.Conv
