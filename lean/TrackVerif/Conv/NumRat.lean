import TrackVerif.Conv.Model
import TrackVerif.TA.NumRat
/-  Exact-rational instance of the converter's arithmetic (what the theorems are about). -/
namespace TrackVerif.Conv

/-- `math.Round` on rationals: nearest integer, halves away from zero -/
def ratRound (q : Rat) : Rat :=
  if q ≥ 0 then ((q + 1/2).floor : Int) else -(((-q) + 1/2).floor : Int)

instance instCNumRat : CNum Rat where
  round := ratRound
  ofInt := fun i => (i : Rat)
  toInt := fun q => q.floor
  lt := fun a b => decide (a < b)
  beq := fun a b => decide (a = b)

end TrackVerif.Conv
