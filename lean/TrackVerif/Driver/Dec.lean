import TrackVerif.Common.Proto
import TrackVerif.Common.Dec
/-  Self-check area `DEC`: the exact conversions against Go's strconv/fmt. -/
namespace TrackVerif.Driver.Dec
open TrackVerif Proto Dec

/-- ops:
  `parse <neg 0|1> <mant> <e10> => <bits hex>`
  `fixed <bits hex> <p> => <hex of string>`
  `short <bits hex> => <hex of string>` -/
def handle (args : List String) (impl : List String) : String :=
  match args, impl with
  | ["parse", neg, m, e], [bits] =>
    match nat? m, int? e with
    | some m, some e =>
      let mine := hexOfNat 16 (decimalToBits (neg == "1") m e).toNat
      if mine == bits then "OK" else s!"VIOL clause=dec.parse model={mine}"
    | _, _ => "BAD"
  | ["fixed", bits, p], [out] =>
    match natOfHex? bits, nat? p with
    | some b, some p =>
      let mine := hexOfString (formatFixed (UInt64.ofNat b) p)
      if mine == out then "OK" else s!"VIOL clause=dec.fixed model={mine}"
    | _, _ => "BAD"
  | ["short", bits], [out] =>
    match natOfHex? bits with
    | some b =>
      let mine := hexOfString (formatShortestG (UInt64.ofNat b))
      if mine == out then "OK" else s!"VIOL clause=dec.short model={mine}"
    | _ => "BAD"
  | _, _ => "BAD"

end TrackVerif.Driver.Dec
