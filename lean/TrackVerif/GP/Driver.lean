import TrackVerif.Common.Proto
import TrackVerif.GP.Model
import TrackVerif.GP.Spec
import TrackVerif.Generated.GP
/-
  Line-protocol side of the GoPro join area (C04, C05).

    GP match <Hero5|Hero10> <hex name>     => none | err | some <hex idx> <hex chapter>
    GP validate <chapter list>             => ok | nochapters | chapter:<hex>:<idx>
    GP args <arg list>                     => ok:<idx> | err
    GP proc L=… S=… O=… T=… A=… K=… W=… F=… X=…
         => cfgerr | order=… inv=… files=… err=… ops=… final=… args=…
-/
namespace TrackVerif.GP.Driver
open TrackVerif Proto Gen GP

def field (toks : List String) (k : String) : Option String :=
  (toks.find? (·.startsWith (k ++ "="))).map fun t => (t.drop (k.length + 1)).toString

/-- "~" = empty list; elements are hex strings ("-" = empty string) -/
def strList (s : String) : Option (List String) :=
  if s == "~" then some [] else (s.splitOn ",").mapM stringOfHex?

def showList (xs : List String) : String :=
  if xs.isEmpty then "~" else String.intercalate "," (xs.map hexOfString)

def genMatchers : List (List RePattern) := Gen.GP.matchers.map (·.2)

def matcherByName (ms : List (String × List RePattern)) (n : String) : Option (List RePattern) := ms.lookup n

def specMatcherByName (n : String) : Option (List RePattern) :=
  (Spec.expectedShapes.lookup n).map fun ps => ps.map fun (g, pos) => ⟨"", true, true, g, pos⟩

def renderMatch (o : Outcome (Option File)) : String :=
  match o with
  | .ok none => "none"
  | .ok (some f) => s!"some {hexOfString f.index} {hexOfString f.chapter}"
  | .err _ => "err"
  | .panic _ => "panic"
  | .unmodelled => "unmodelled"

def handleMatch (mname hex : String) (impl : List String) : String :=
  match stringOfHex? hex, matcherByName Gen.GP.matchers mname, specMatcherByName mname with
  | some name, some gm, some sm =>
    if name.toList.contains '/' ∨ name.isEmpty then "SKIP reason=path" else
    let implS := String.intercalate " " impl
    let rG := renderMatch (matchName gm name)
    let rS := renderMatch (matchName sm name)
    let nt := if rS != "none" then "1" else "0"
    if implS == rS then (if rG == rS then s!"OK nt={nt}" else "CORR clause=gp.gen_matcher")
    else s!"VIOL clause=gp.name_shape spec={rS}"
  | none, _, _ => if impl.head? = some "panic" then "VIOL clause=gp.no_crash" else "SKIP reason=utf8"
  | _, _, _ => "BAD"

def renderVal : Option ValErr → String
  | none => "ok"
  | some .noChapters => "nochapters"
  | some (.chapter c i) => s!"chapter:{hexOfString c}:{i}"

def handleValidate (chs : String) (impl : List String) : String :=
  match strList chs with
  | none => "BAD"
  | some cs =>
    let files := cs.map fun c => (⟨"", c, ""⟩ : File)
    let r := renderVal (validate files)
    if String.intercalate " " impl == r then s!"OK nt={if cs.length ≥ 2 then "1" else "0"}"
    else s!"VIOL clause=gp.validate spec={r}"

def handleArgs (args : String) (impl : List String) : String :=
  match strList args with
  | none => "BAD"
  | some as =>
    let rG := match findInput Gen.GP.iidxInit as with | some i => s!"ok:{i}" | none => "err"
    let rS := match findInput Spec.expectedIidxInit as with | some i => s!"ok:{i}" | none => "err"
    let implS := String.intercalate " " impl
    if implS == rS then (if rG == rS then "OK nt=1" else "CORR clause=gp.gen_iidx")
    else s!"VIOL clause=gp.input_slot spec={rS}"

/-! ### proc -/

def parseEntries (s : String) : Option (List DirEntry × List (String × Int)) :=
  if s == "~" then some ([], []) else
  (s.splitOn ",").foldlM (fun (acc : List DirEntry × List (String × Int)) e =>
    match e.splitOn ":" with
    | [n, k, m] =>
      match stringOfHex? n, int? m with
      | some name, some mt => some (acc.1 ++ [⟨name, k == "d"⟩], if k == "d" then acc.2 else acc.2 ++ [(name, mt)])
      | _, _ => none
    | _ => none) ([], [])

def parsePathTimes (s : String) : Option (List (String × Int)) :=
  if s == "~" then some [] else
  (s.splitOn ",").mapM fun e =>
    match e.splitOn ":" with
    | [p, m] => match stringOfHex? p, int? m with
      | some path, some mt => some (path, mt)
      | _, _ => none
    | _ => none

def parseTmpl (s : String) : Option (List TmplPart) :=
  if s == "~" then some [] else
  (s.splitOn ",").mapM fun e =>
    if e == "N" then some .name else if e == "E" then some .ext
    else if e.startsWith "L" then (stringOfHex? (e.drop 1).toString).map .lit else none

def showOp : Op → String
  | .stat p r => s!"st:{hexOfString p}:{r}"
  | .readdir p ok => s!"rd:{hexOfString p}:{if ok then 1 else 0}"
  | .createtemp none => "ct:!"
  | .createtemp (some n) => s!"ct:{hexOfString n}"
  | .write t d ok => s!"wr:{hexOfString t}:{hexOfString d}:{if ok then 1 else 0}"
  | .close t ok => s!"cl:{hexOfString t}:{if ok then 1 else 0}"
  | .handler ok => s!"ha:{if ok then 1 else 0}"
  | .chtimes p m ok => s!"ch:{hexOfString p}:{m}:{if ok then 1 else 0}"
  | .remove p => s!"rm:{hexOfString p}"

def showErr : ProcErr → String
  | .none => "none" | .noFiles => "nofiles" | .chapter => "chapter" | .noChapters => "nochapters"
  | .fs => "fs" | .handler => "handler" | .walk => "walk"

def insertPT (p : String × Int) : List (String × Int) → List (String × Int)
  | [] => [p]
  | q :: qs => if p.1 < q.1 then p :: q :: qs else q :: insertPT p qs

def showPathTimes (fs : List (String × Int)) : String :=
  let sorted := fs.foldr insertPT []
  if sorted.isEmpty then "~" else String.intercalate "," (sorted.map fun (p, m) => s!"{hexOfString p}:{m}")

def showInvs (invs : List Invocation) : String :=
  if invs.isEmpty then "~" else String.intercalate ";" (invs.map fun i => showList i.argv)

def renderProc (order : List String) (r : ProcResult) : String :=
  s!"order={showList order} inv={showInvs r.invs} files={showList r.files} err={showErr r.err} " ++
  s!"ops={if r.fs.log.isEmpty then "~" else String.intercalate ";" (r.fs.log.map showOp)} " ++
  s!"final={showPathTimes r.fs.files} args={showList r.args}"

def parseInvs (s : String) : Option (List (List String)) :=
  if s == "~" then some [] else (s.splitOn ";").mapM strList

def handleProc (toks : List String) (impl : List String) : String :=
  let parsed := do
    let (es, srcFiles) ← (field toks "L").bind parseEntries
    let src ← (field toks "S").bind stringOfHex?
    let outd ← (field toks "O").bind stringOfHex?
    let tmpl ← (field toks "T").bind parseTmpl
    let args ← (field toks "A").bind strList
    let skip ← (field toks "K").bind strList
    let w ← field toks "W"
    let f ← field toks "F"
    let fault ← if f == "-" then some none else (nat? f).map some
    let extra ← (field toks "X").bind parsePathTimes
    pure (es, srcFiles, src, outd, tmpl, args, skip, w == "1", fault, extra)
  match parsed with
  | none => "BAD"
  | some (es, srcFiles, src, outd, tmpl, args, skip, ow, fault, extra) =>
    let cfg : Cfg := ⟨src, outd, "ffmpeg", args, skip, tmpl, ow⟩
    let initial : List (String × Int) := (srcFiles.map fun (n, m) => (joinPath src n, m)) ++ extra
    if impl.head? = some "panic" then "VIOL clause=gp.no_crash" else
    match findInput Spec.expectedIidxInit args with
    | none =>
      if impl = ["cfgerr"] then "OK nt=0" else "VIOL clause=gp.input_slot spec=cfgerr"
    | some idx =>
      if impl = ["cfgerr"] then s!"VIOL clause=gp.input_slot spec=ok:{idx}" else
      match (field impl "order").bind strList with
      | none => "BAD"
      | some order =>
        let fs0 : Fs := ⟨initial, 0, 0, fault, []⟩
        let implS := String.intercalate " " impl
        let mS := process Spec.matchers cfg idx es order fs0
        let mG := process genMatchers cfg ((findInput Gen.GP.iidxInit args).getD idx) es order fs0
        match mS with
        | .ok r =>
          let rS := renderProc order r
          let rG := match mG with | .ok g => renderProc order g | _ => "?"
          -- clauses evaluated on what the implementation actually did
          let obs : Option Spec.Observed := do
            let invs ← (field impl "inv").bind parseInvs
            let files ← (field impl "files").bind strList
            let final ← (field impl "final").bind parsePathTimes
            let ops ← field impl "ops"
            let writes := (if ops == "~" then [] else ops.splitOn ";").filterMap fun o =>
              match o.splitOn ":" with
              | ["wr", t, d, "1"] => match stringOfHex? t, stringOfHex? d with
                | some t, some d => some (t, d)
                | _, _ => none
              | _ => none
            pure ⟨cfg, idx, initial, srcFiles.map (fun (n, _) => joinPath src n), invs, files, final, writes⟩
          let clause := obs.bind Spec.checkRun
          let nt := if r.invs.length ≥ 1 then "1" else "0"
          -- the observed order must cover every group unless the run stopped at an error
          let groups : List String := match fileSets Spec.matchers es with | .ok g => g.map (fun (p : String × List File) => p.1) | _ => []
          let orderOk := order.eraseDups.length = order.length ∧ order.all (groups.contains ·) ∧
            (r.err ≠ .none ∨ order.length = groups.length ∨ r.err = .walk)
          match clause with
          | some c => s!"VIOL clause={c} nt={nt}"
          | none =>
            if implS == rS ∧ orderOk then (if rG == rS then s!"OK nt={nt}" else "CORR clause=gp.gen_model")
            else if !orderOk then "VIOL clause=gp.grouping spec=order"
            else s!"VIOL clause=gp.process spec={rS.take 3000}"
        | .unmodelled => "SKIP reason=grammar"
        | _ => "BAD"

/-! ### osfs: the filesystem contract the processor model assumes, on the real adapter -/

def insertSorted (x : String) : List String → List String
  | [] => [x]
  | y :: ys => if x < y then x :: y :: ys else y :: insertSorted x ys

def osfsStep (files : List (String × Int)) (st : String) : Option (List (String × Int) × String) :=
  match st.splitOn ":" with
  | ["w", n] => (stringOfHex? n).map fun name =>
      -- (re)writing a file stamps it with the current time: modelled as "unknown" (0)
      ((files.filter (fun q => !decide (q.1 = name))) ++ [(name, 0)], "w")
  | ["l", n, m] => do
      -- a symbolic link to a file whose modification time is m: the file, as far as the processor can tell
      let name ← stringOfHex? n
      let mt ← int? m
      some ((files.filter (fun q => !decide (q.1 = name))) ++ [(name, mt)], "l")
  | ["h", n, _, m] => do
      let name ← stringOfHex? n
      let mt ← int? m
      if files.any (·.1 == name) then some (setMtime files name mt, "h:ok") else some (files, "h:err")
  | ["s", n] => (stringOfHex? n).map fun name =>
      match files.find? (·.1 == name) with
      | some (_, mt) => (files, if mt == 0 then "s:ok:*" else s!"s:ok:{mt}")
      | none => (files, "s:enoent")
  | ["r", n] => (stringOfHex? n).map fun name =>
      if files.any (·.1 == name) then (files.filter (fun q => !decide (q.1 = name)), "r:ok") else (files, "r:err")
  | ["t", _] => some (files, "t:true")
  | ["d"] => some (files, "d:" ++ String.intercalate "+" ((files.map (·.1)).foldr insertSorted [] |>.map hexOfString))
  | _ => none

def handleOsfs (seq : String) (impl : List String) : String :=
  let rec go (files : List (String × Int)) (sts : List String) (acc : List String) : Option (List String) :=
    match sts with
    | [] => some acc.reverse
    | st :: rest =>
      match osfsStep files st with
      | some (files', o) => go files' rest (o :: acc)
      | none => none
  match go [] (seq.splitOn ",") [], impl with
  | some want, [got] =>
    let gs := got.splitOn ","
    let same := want.length == gs.length ∧ (want.zip gs).all fun (w, g) =>
      w == g || (w == "s:ok:*" && g.startsWith "s:ok:")     -- a freshly written file has "now" as mtime
    if same then "OK nt=1" else s!"VIOL clause=gp.osfs spec={String.intercalate "," want}"
  | some _, _ => if impl.head? = some "panic" then "VIOL clause=gp.no_crash" else "BAD"
  | none, _ => "BAD"

def handle (args : List String) (impl : List String) : String :=
  match args with
  | ["osfs", seq] => handleOsfs seq impl
  | ["match", m, hex] => handleMatch m hex impl
  | ["validate", chs] => handleValidate chs impl
  | ["args", as] => handleArgs as impl
  | "proc" :: toks => handleProc toks impl
  | _ => "BAD"

end TrackVerif.GP.Driver
