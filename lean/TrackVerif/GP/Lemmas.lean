import TrackVerif.GP.Model
/-  Helper lemmas about the abstract filesystem and the join stages (C04, C05).  Core only. -/
namespace TrackVerif.GP
open TrackVerif Gen

@[simp] theorem step_files (fs : Fs) (o : Op) : (fs.step o).files = fs.files := rfl
@[simp] theorem step_nextTmp (fs : Fs) (o : Op) : (fs.step o).nextTmp = fs.nextTmp := rfl
@[simp] theorem step_fault (fs : Fs) (o : Op) : (fs.step o).fault = fs.fault := rfl
@[simp] theorem logOp_files (fs : Fs) (o : Op) : (fs.logOp o).files = fs.files := rfl

theorem writeInput_files (d : String) (fs : Fs) (t : String) (chs : List File) :
    (writeInput d fs t chs).2.files = fs.files := by
  induction chs generalizing fs with
  | nil => simp [writeInput]
  | cons f rest ih =>
    unfold writeInput
    split
    · simp
    · rw [ih]; simp

theorem lookup_filter_ne (files : List (String × Int)) (out p : String) (h : p ≠ out) :
    (files.filter (fun q => !decide (q.1 = out))).lookup p = files.lookup p := by
  induction files with
  | nil => rfl
  | cons q qs ih =>
    obtain ⟨a, b⟩ := q
    by_cases ha : a = out
    · subst ha
      have : (p == a) = false := by simpa using h
      simpa [List.lookup, this] using ih
    · by_cases hp : p = a
      · subst hp; simp [List.lookup, ha]
      · have : (p == a) = false := by simpa using hp
        simpa [List.lookup, ha, this] using ih

theorem lookup_filter_self (files : List (String × Int)) (out : String) :
    (files.filter (fun q => !decide (q.1 = out))).lookup out = none := by
  induction files with
  | nil => rfl
  | cons q qs ih =>
    obtain ⟨a, b⟩ := q
    by_cases ha : a = out
    · simpa [ha] using ih
    · have : (out == a) = false := by simpa using (Ne.symm ha)
      simpa [List.lookup, ha, this] using ih

theorem lookup_setMtime_ne (files : List (String × Int)) (out p : String) (m : Int) (h : p ≠ out) :
    (setMtime files out m).lookup p = files.lookup p := by
  have : (p == out) = false := by simpa using h
  simp [setMtime, List.lookup_append, lookup_filter_ne _ _ _ h, List.lookup, this]

theorem lookup_setMtime_self (files : List (String × Int)) (out : String) (m : Int) :
    (setMtime files out m).lookup out = some m := by
  simp [setMtime, List.lookup_append, lookup_filter_self, List.lookup]

theorem mem_setMtime (files : List (String × Int)) (out : String) (m : Int) (q : String × Int)
    (h : q ∈ setMtime files out m) : q ∈ files ∨ q.1 = out := by
  simp only [setMtime, List.mem_append, List.mem_filter, List.mem_singleton] at h
  rcases h with h | h
  · exact Or.inl h.1
  · right; rw [h]

/-- a set of files all of whose paths were already there, or are the output -/
def Within (fs0 : List (String × Int)) (out : String) (fs1 : List (String × Int)) : Prop :=
  ∀ q ∈ fs1, q ∈ fs0 ∨ q.1 = out

theorem within_refl (fs0 : List (String × Int)) (out : String) : Within fs0 out fs0 :=
  fun _ h => Or.inl h

theorem within_setMtime (fs0 fs1 : List (String × Int)) (out : String) (m : Int) (h : Within fs0 out fs1) :
    Within fs0 out (setMtime fs1 out m) := by
  intro q hq
  rcases mem_setMtime _ _ _ _ hq with h' | h'
  · exact h q h'
  · exact Or.inr h'

/-- the join stage touches at most the output path -/
theorem joinStage_files (c : Cfg) (idx : Nat) (fs : Fs) (first : File) (tmp : String) :
    Within fs.files (outputPath c first.name) (joinStage c idx fs first tmp).fs.files := by
  unfold joinStage
  simp only
  repeat' split
  all_goals first
    | exact within_refl _ _
    | exact within_setMtime _ _ _ _ (within_refl _ _)
    | exact within_setMtime _ _ _ _ (within_setMtime _ _ _ _ (within_refl _ _))

theorem joinStage_lookup (c : Cfg) (idx : Nat) (fs : Fs) (first : File) (tmp p : String)
    (h : p ≠ outputPath c first.name) :
    (joinStage c idx fs first tmp).fs.files.lookup p = fs.files.lookup p := by
  unfold joinStage
  simp only
  repeat' split
  all_goals simp [lookup_setMtime_ne _ _ _ _ h]

theorem joinStage_invs (c : Cfg) (idx : Nat) (fs : Fs) (first : File) (tmp : String) :
    (joinStage c idx fs first tmp).invs = [] ∨
    (joinStage c idx fs first tmp).invs =
      [⟨[c.binary] ++ c.args.set idx tmp ++ [outputPath c first.name]⟩] := by
  unfold joinStage
  simp only
  repeat' split
  all_goals simp

theorem joinStage_no_clobber (c : Cfg) (idx : Nat) (fs : Fs) (first : File) (tmp : String)
    (h : (joinStage c idx fs first tmp).invs ≠ []) :
    fs.files.any (·.1 = outputPath c first.name) = true → c.overwrite = true := by
  unfold joinStage at h
  simp only at h
  split at h
  · simp at h
  · split at h
    · simp at h
    · rename_i hpo
      intro hp
      cases hov : c.overwrite
      · simp [hp, hov] at hpo
      · rfl

theorem joinStage_out (c : Cfg) (idx : Nat) (fs : Fs) (first : File) (tmp p : String)
    (h : (joinStage c idx fs first tmp).out = some p) :
    p = outputPath c first.name ∧ (joinStage c idx fs first tmp).err = .none ∧
    (joinStage c idx fs first tmp).invs.length = 1 ∧
    ∃ mt, (setMtime fs.files (outputPath c first.name) handlerMtime).lookup (joinPath c.sourceDir first.name) = some mt ∧
      (joinStage c idx fs first tmp).fs.files.lookup (outputPath c first.name) = some mt := by
  generalize hr : joinStage c idx fs first tmp = r at h ⊢
  unfold joinStage at hr
  simp only at hr
  split at hr
  · subst hr; simp at h
  · split at hr
    · subst hr; simp at h
    · split at hr
      · subst hr; simp at h
      · split at hr
        · subst hr; simp at h
        · split at hr
          · subst hr; simp at h
          · rename_i mt hmt
            split at hr
            · subst hr; simp at h
            · subst hr
              simp only [Option.some.injEq] at h
              refine ⟨h.symm, rfl, rfl, mt, ?_, ?_⟩
              · simpa using hmt
              · simp [lookup_setMtime_self]

theorem joinStage_err_out (c : Cfg) (idx : Nat) (fs : Fs) (first : File) (tmp : String)
    (h : (joinStage c idx fs first tmp).err ≠ .none) : (joinStage c idx fs first tmp).out = none := by
  generalize hr : joinStage c idx fs first tmp = r at h ⊢
  unfold joinStage at hr
  simp only at hr
  repeat' split at hr
  all_goals (subst hr; first | rfl | (exact absurd rfl h))

end TrackVerif.GP
