import TrackVerif.GP.Lemmas
import TrackVerif.GP.Spec
import TrackVerif.GP.PropsC05
import TrackVerif.Generated.GP
/-
  C04 — GoPro chapters are grouped per video, joined in order, or not joined at all.
  Property theorems only.
-/
namespace TrackVerif.C04
open TrackVerif Gen GP

/-- tie: the three name patterns regenerated from matcher.go (parsed by regexp/syntax) are
    anchored at both ends and have exactly the expected per-position character classes:
    GOPRnnnn.mp4 / GPccnnnn.mp4 / G[HX]ccnnnn.mp4, case-insensitive, literal dot -/
theorem shapes_table :
    Spec.shapesOf Gen.GP.matchers = Spec.expectedShapes ∧ Spec.allAnchored Gen.GP.matchers = true := by
  decide

theorem extract_ok : Gen.GP.extractOk = true := by decide

/-- the position-wise matcher accepts exactly the names of the right length whose every
    character lies in the class of its position (so every other name is ignored) -/
theorem match_iff (ps : List RePos) (cs : List Char) :
    (matchPositions ps cs).isSome = true ↔
      cs.length = ps.length ∧ ∀ i (h1 : i < ps.length) (h2 : i < cs.length), inClass ps[i].cls cs[i] = true := by
  induction ps generalizing cs with
  | nil =>
    cases cs with
    | nil => simp [matchPositions]
    | cons c cs => simp [matchPositions]
  | cons p ps ih =>
    cases cs with
    | nil => simp [matchPositions]
    | cons c cs =>
      unfold matchPositions
      by_cases hc : inClass p.cls c = true
      · simp only [hc, if_true, Option.isSome_map, ih cs, List.length_cons, Nat.add_right_cancel_iff]
        constructor
        · rintro ⟨hl, hall⟩
          refine ⟨hl, fun i h1 h2 => ?_⟩
          cases i with
          | zero => simpa using hc
          | succ j => simpa using hall j (by simpa using h1) (by simpa using h2)
        · rintro ⟨hl, hall⟩
          refine ⟨hl, fun i h1 h2 => ?_⟩
          have := hall (i + 1) (by simp; omega) (by simp; omega)
          simpa [List.getElem_cons_succ] using this
      · simp only [hc, Bool.false_eq_true, if_false, Option.isSome_none, List.length_cons, false_iff, not_and]
        intro _ hall
        exact hc (by simpa using hall 0 (by simp) (by simp))

/-- the captured text of a group is the characters at that group's positions, in order -/
theorem captures (ps : List RePos) (cs : List Char) (caps : List (Nat × Char))
    (h : matchPositions ps cs = some caps) : caps = (ps.map (·.group)).zip cs := by
  induction ps generalizing cs caps with
  | nil =>
    cases cs with
    | nil => simp [matchPositions] at h; simp [h]
    | cons c cs => simp [matchPositions] at h
  | cons p ps ih =>
    cases cs with
    | nil => simp [matchPositions] at h
    | cons c cs =>
      unfold matchPositions at h
      split at h
      · cases hm : matchPositions ps cs with
        | none => simp [hm] at h
        | some caps' =>
          simp [hm] at h
          subst h
          simp [ih cs caps' hm]
      · cases h

/-- chapter validation: a group is valid exactly when its chapters are 00,01,02,… or 01,02,03,…
    (contiguous from 00 or 01, hence no gaps and no duplicates) -/
theorem validate_go_iff (cs : List File) (i inc : Nat) :
    validate.go inc cs i = none ↔ cs.map (·.chapter) = (List.range cs.length).map (fun j => pad2 (i + j + inc)) := by
  induction cs generalizing i with
  | nil => simp [validate.go]
  | cons c rest ih =>
    unfold validate.go
    by_cases hc : c.chapter = pad2 (i + inc)
    · simp only [hc, ne_eq, not_true_eq_false, if_false, ih (i + 1), List.map_cons, List.length_cons,
        List.range_succ_eq_map, List.map_map, List.cons.injEq, Nat.add_zero, true_and]
      constructor <;> intro h <;> simpa [Function.comp_def, Nat.add_assoc, Nat.add_comm 1] using h
    · simp only [ne_eq, hc, not_false_eq_true, if_true, List.map_cons, List.length_cons,
        List.range_succ_eq_map, List.map_cons, Nat.add_zero, List.cons.injEq, false_and, iff_false]
      simp

theorem validate_iff (cs : List File) :
    validate cs = none ↔ cs ≠ [] ∧ ∃ b, (b = 0 ∨ b = 1) ∧
      cs.map (·.chapter) = (List.range cs.length).map (fun j => pad2 (j + b)) := by
  have hp0 : pad2 0 = "00" := by decide
  have hp1 : pad2 1 = "01" := by decide
  have h01 : ¬ ("01" = "00") := by decide
  cases cs with
  | nil => simp [validate]
  | cons c0 rest =>
    have hhead : ∀ b, (c0 :: rest).map (·.chapter) = (List.range (c0 :: rest).length).map (fun j => pad2 (j + b)) →
        c0.chapter = pad2 b := by
      intro b h
      have := congrArg List.head? h
      simpa [List.range_succ_eq_map] using this
    simp only [validate, ne_eq, reduceCtorEq, not_false_eq_true, true_and]
    by_cases h0 : c0.chapter = "00"
    · simp only [h0, if_true]
      rw [validate_go_iff]
      constructor
      · intro h; exact ⟨0, Or.inl rfl, by simpa using h⟩
      · rintro ⟨b, hb | hb, h⟩
        · subst hb; simpa using h
        · subst hb
          have := hhead 1 h
          rw [h0, hp1] at this
          exact absurd this.symm h01
    · by_cases h1 : c0.chapter = "01"
      · simp only [h1, h01, if_false, if_true]
        rw [validate_go_iff]
        constructor
        · intro h; exact ⟨1, Or.inr rfl, by simpa using h⟩
        · rintro ⟨b, hb | hb, h⟩
          · subst hb
            have := hhead 0 h
            rw [h1, hp0] at this
            exact absurd this h01
          · subst hb; simpa using h
      · simp only [h0, h1, if_false, reduceCtorEq, false_iff, not_exists, not_and]
        rintro b (hb | hb) h
        · subst hb; exact h0 (by rw [hhead 0 h, hp0])
        · subst hb; exact h1 (by rw [hhead 1 h, hp1])

/-- the concat list handed to the encoder: one line per chapter, in the group's (ascending
    chapter) order, each naming the source file's path — written by `writeInput` as one Write
    per chapter followed by Close -/
theorem concat_list (d : String) (fs : Fs) (t : String) (chs : List File)
    (h : (writeInput d fs t chs).1 = false) :
    (writeInput d fs t chs).2.log =
      fs.log ++ chs.map (fun f => Op.write t (concatLine d f) true) ++ [Op.close t true] := by
  induction chs generalizing fs with
  | nil =>
    simp only [writeInput] at h ⊢
    simp [Fs.step, h]
  | cons f rest ih =>
    unfold writeInput at h ⊢
    split
    · rename_i hf; simp [hf] at h
    · rename_i hf
      simp only [hf, Bool.false_eq_true, if_false] at h
      rw [ih _ h]
      simp [Fs.step]

/-- for EVERY order in which Go's map iteration visits the groups and every fault position:
    the encoder is only ever started for a group that exists and is valid -/
theorem only_valid_joined (c : Cfg) (idx : Nat) (groups : Groups) (order : List String) (fs : Fs)
    (invs0 : List Invocation) (files0 args : List String)
    (hinv0 : ∀ inv ∈ invs0, ∃ k chs, groups.lookup k = some chs ∧ validate chs = none) :
    ∀ inv ∈ (processGroups c idx groups order fs invs0 files0 args).invs,
      ∃ k chs, groups.lookup k = some chs ∧ validate chs = none := by
  induction order generalizing fs invs0 files0 args with
  | nil => simpa [processGroups] using hinv0
  | cons k rest ih =>
    unfold processGroups
    cases hl : groups.lookup k with
    | none => simpa using hinv0
    | some chs =>
      simp only
      have hnew : ∀ inv ∈ invs0 ++ (processSet { c with args := args } idx fs chs).invs,
          ∃ k chs, groups.lookup k = some chs ∧ validate chs = none := by
        intro inv hi
        rcases List.mem_append.mp hi with hi | hi
        · exact hinv0 inv hi
        · obtain ⟨first, rest', hc, hv, _, _⟩ := C05.argv_shape _ idx fs chs inv hi
          exact ⟨k, chs, hl, hv⟩
      split
      · exact ih _ _ _ _ hnew
      · exact hnew

/-- an invalid group reports an error and the encoder is never run for it -/
theorem invalid_reports (c : Cfg) (idx : Nat) (fs : Fs) (chs : List File) (h : validate chs ≠ none) :
    (processSet c idx fs chs).invs = [] ∧ (processSet c idx fs chs).err ≠ .none ∧
    (processSet c idx fs chs).fs.files = fs.files := by
  unfold processSet
  split
  · simp
  · simp
  · rename_i hv; exact absurd hv h

/-- …so visiting it ends the run with that error, whatever was done before -/
theorem invalid_stops (c : Cfg) (idx : Nat) (groups : Groups) (k : String) (rest : List String) (fs : Fs)
    (invs0 : List Invocation) (files0 args : List String) (chs : List File)
    (hl : groups.lookup k = some chs) (h : validate chs ≠ none) :
    (processGroups c idx groups (k :: rest) fs invs0 files0 args).err ≠ .none ∧
    (processGroups c idx groups (k :: rest) fs invs0 files0 args).invs = invs0 := by
  obtain ⟨h1, h2, _⟩ := invalid_reports { c with args := args } idx fs chs h
  unfold processGroups
  simp only [hl]
  generalize processSet { c with args := args } idx fs chs = r at h1 h2
  cases he : r.err <;> simp_all

/-- an empty directory (no name matches) reports that no files were found -/
theorem empty_dir (ms : List (List RePattern)) (c : Cfg) (idx : Nat) (es : List DirEntry)
    (order : List String) (fs : Fs) (h : fileSets ms es = .ok []) (hw : (walk c fs).1 = false) :
    ∃ r, process ms c idx es order fs = .ok r ∧ r.err = .noFiles ∧ r.invs = [] := by
  unfold process
  simp [hw, h]

/-- everything inside sub-directories is ignored: a directory entry contributes nothing -/
theorem directories_ignored (ms : List (List RePattern)) (gs : Groups) (e : DirEntry) (h : e.isDir = true) :
    (if e.isDir then (Outcome.ok gs : Outcome Groups) else
      ms.foldlM (fun (gs : Groups) m =>
        match matchName m e.name with
        | .ok (some f) => Outcome.ok (addToGroup gs f)
        | .ok none => .ok gs
        | .err x => .err x
        | .panic p => .panic p
        | .unmodelled => .unmodelled) gs) = .ok gs := by
  simp [h]

/-- non-vacuity: the shapes accept the documented names and reject the near misses -/
example : (matchPositions Spec.goprShape "GOPR0001.mp4".toList).isSome = true := by decide
example : (matchPositions Spec.gpShape "GP010001xmp4".toList).isSome = false := by decide
example : (matchPositions Spec.ghxShape "gx010004.MP4".toList).isSome = true := by decide
example : validate [⟨"a", "01", "0001"⟩, ⟨"b", "02", "0001"⟩] = none := by decide
example : validate [⟨"a", "01", "0001"⟩, ⟨"b", "03", "0001"⟩] ≠ none := by decide

end TrackVerif.C04
