import TrackVerif.GP.Lemmas
import TrackVerif.GP.Spec
import TrackVerif.Generated.GP
/-
  C05 — Joining never clobbers, never leaks temp files, never touches sources.
  Property theorems only.  Every statement is for all directory contents, configs, filesystem
  states and for EVERY position of the injected fault (`fs.fault : Option Nat` is arbitrary),
  i.e. for every single failing operation at every point of the run.
-/
namespace TrackVerif.C05
open TrackVerif Gen GP

/-- tie: Validate's search starts with the remembered `-i` position at −2 -/
theorem iidx_table : Gen.GP.iidxInit = Spec.expectedIidxInit := by decide
theorem extract_ok : Gen.GP.extractOk = true := by decide

/-- shape of `processSet`: either it stops before creating the temp file (nothing changes), or it
    runs `writeInput` and possibly the join stage, always followed by the deferred `Remove` -/
theorem processSet_cases (c : Cfg) (idx : Nat) (fs : Fs) (chs : List File) :
    ((processSet c idx fs chs).invs = [] ∧ (processSet c idx fs chs).out = none ∧
      (processSet c idx fs chs).fs.files = fs.files) ∨
    (∃ first rest, chs = first :: rest ∧ validate chs = none ∧ c.skip.contains first.name = false ∧
      ∃ fs1, fs1.files = fs.files ++ [(tmpName fs.nextTmp, 0)] ∧
        ((processSet c idx fs chs = finish (tmpName fs.nextTmp) ⟨fs1, [], none, .fs⟩) ∨
         (processSet c idx fs chs = finish (tmpName fs.nextTmp) (joinStage c idx fs1 first (tmpName fs.nextTmp))))) := by
  unfold processSet
  split
  · exact Or.inl ⟨rfl, rfl, rfl⟩
  · exact Or.inl ⟨rfl, rfl, rfl⟩
  · rename_i hv
    split
    · exact Or.inl ⟨rfl, rfl, rfl⟩
    · rename_i first rest
      split
      · exact Or.inl ⟨rfl, rfl, rfl⟩
      · rename_i hskip
        split
        · exact Or.inl ⟨rfl, rfl, rfl⟩
        · refine Or.inr ⟨first, rest, rfl, hv, by simpa using hskip, ?_⟩
          simp only
          split
          · exact ⟨_, by rw [writeInput_files], Or.inl rfl⟩
          · exact ⟨_, by rw [writeInput_files], Or.inr rfl⟩

/-- the encoder is started at most once per video -/
theorem at_most_once (c : Cfg) (idx : Nat) (fs : Fs) (chs : List File) :
    (processSet c idx fs chs).invs.length ≤ 1 := by
  rcases processSet_cases c idx fs chs with ⟨h, _, _⟩ | ⟨first, rest, _, _, _, fs1, _, h | h⟩
  · simp [h]
  · simp [h, finish]
  · rw [h]
    rcases joinStage_invs c idx fs1 first (tmpName fs.nextTmp) with h' | h' <;> simp [finish, h']

/-- every encoder start has exactly the configured arguments, with the slot after `-i` holding
    the concat list (the temp file just created) and the output path last; and it happens only
    for a valid group whose first file is not on the skip list -/
theorem argv_shape (c : Cfg) (idx : Nat) (fs : Fs) (chs : List File) :
    ∀ inv ∈ (processSet c idx fs chs).invs, ∃ first rest, chs = first :: rest ∧
      validate chs = none ∧ c.skip.contains first.name = false ∧
      inv.argv = [c.binary] ++ c.args.set idx (tmpName fs.nextTmp) ++ [outputPath c first.name] := by
  intro inv hinv
  rcases processSet_cases c idx fs chs with ⟨h, _, _⟩ | ⟨first, rest, hc, hv, hs, fs1, _, h | h⟩
  · simp [h] at hinv
  · simp [h, finish] at hinv
  · rw [h] at hinv
    rcases joinStage_invs c idx fs1 first (tmpName fs.nextTmp) with h' | h'
    · simp [finish, h'] at hinv
    · simp only [finish, h', List.mem_singleton] at hinv
      exact ⟨first, rest, hc, hv, hs, by rw [hinv]⟩

/-- never for an output path that already exists unless overwriting is enabled -/
theorem no_clobber (c : Cfg) (idx : Nat) (fs : Fs) (chs : List File)
    (h : (processSet c idx fs chs).invs ≠ []) :
    ∃ first rest, chs = first :: rest ∧
      (outputPath c first.name ≠ tmpName fs.nextTmp →
        fs.files.any (·.1 = outputPath c first.name) = true → c.overwrite = true) := by
  rcases processSet_cases c idx fs chs with ⟨h', _, _⟩ | ⟨first, rest, hc, _, _, fs1, hf, h' | h'⟩
  · exact absurd h' h
  · simp [h', finish] at h
  · refine ⟨first, rest, hc, fun hne hex => ?_⟩
    rw [h'] at h
    have hj : (joinStage c idx fs1 first (tmpName fs.nextTmp)).invs ≠ [] := by simpa [finish] using h
    apply joinStage_no_clobber c idx fs1 first _ hj
    rw [hf]
    simp only [List.any_append, hex, Bool.true_or]

/-- when processing returns, the temporary concat list no longer exists: every path of the final
    state was there before or is the output path -/
theorem temp_gone (c : Cfg) (idx : Nat) (fs : Fs) (chs : List File) :
    ∀ q ∈ (processSet c idx fs chs).fs.files,
      q.1 ≠ tmpName fs.nextTmp ∧ (q ∈ fs.files ∨ ∃ first, chs.head? = some first ∧ q.1 = outputPath c first.name) ∨
      ((processSet c idx fs chs).fs.files = fs.files) := by
  intro q hq
  rcases processSet_cases c idx fs chs with ⟨_, _, h⟩ | ⟨first, rest, hc, _, _, fs1, hf, h | h⟩
  · exact Or.inr h
  · left
    rw [h] at hq
    simp only [finish, logOp_files, List.mem_filter, hf, List.mem_append, List.mem_singleton] at hq
    obtain ⟨hq1, hq2⟩ := hq
    have hne : q.1 ≠ tmpName fs.nextTmp := by simpa using hq2
    refine ⟨hne, Or.inl ?_⟩
    rcases hq1 with h1 | h1
    · exact h1
    · rw [h1] at hne; exact absurd rfl hne
  · left
    rw [h] at hq
    simp only [finish, logOp_files, List.mem_filter] at hq
    obtain ⟨hq1, hq2⟩ := hq
    have hne : q.1 ≠ tmpName fs.nextTmp := by simpa using hq2
    refine ⟨hne, ?_⟩
    rcases joinStage_files c idx fs1 first (tmpName fs.nextTmp) q hq1 with h1 | h1
    · rw [hf] at h1
      simp only [List.mem_append, List.mem_singleton] at h1
      rcases h1 with h1 | h1
      · exact Or.inl h1
      · rw [h1] at hne; exact absurd rfl hne
    · exact Or.inr ⟨first, by simp [hc], h1⟩

/-- no source file (indeed no file other than the output and the temp name) is modified or removed -/
theorem sources_intact (c : Cfg) (idx : Nat) (fs : Fs) (chs : List File) (p : String)
    (hout : ∀ first, chs.head? = some first → p ≠ outputPath c first.name)
    (htmp : p ≠ tmpName fs.nextTmp) :
    (processSet c idx fs chs).fs.files.lookup p = fs.files.lookup p := by
  have hbeq : (p == tmpName fs.nextTmp) = false := by simpa using htmp
  rcases processSet_cases c idx fs chs with ⟨_, _, h⟩ | ⟨first, rest, hc, _, _, fs1, hf, h | h⟩
  · rw [h]
  · rw [h]
    simp only [finish, logOp_files, hf]
    rw [lookup_filter_ne _ _ _ htmp]
    simp [List.lookup_append, List.lookup, hbeq]
  · rw [h]
    simp only [finish, logOp_files]
    rw [lookup_filter_ne _ _ _ htmp, joinStage_lookup c idx fs1 first _ p (hout first (by simp [hc])), hf]
    simp [List.lookup_append, List.lookup, hbeq]

/-- every listed path is the output of a successful join and carries the first chapter's
    modification time -/
theorem listed_is_output (c : Cfg) (idx : Nat) (fs : Fs) (chs : List File) (p : String)
    (h : (processSet c idx fs chs).out = some p) :
    (processSet c idx fs chs).err = .none ∧ (processSet c idx fs chs).invs.length = 1 ∧
    ∃ first rest, chs = first :: rest ∧ p = outputPath c first.name ∧
      (p ≠ tmpName fs.nextTmp → joinPath c.sourceDir first.name ≠ p →
        joinPath c.sourceDir first.name ≠ tmpName fs.nextTmp →
        (processSet c idx fs chs).fs.files.lookup p = fs.files.lookup (joinPath c.sourceDir first.name)) := by
  rcases processSet_cases c idx fs chs with ⟨_, h', _⟩ | ⟨first, rest, hc, _, _, fs1, hf, h' | h'⟩
  · rw [h'] at h; cases h
  · rw [h'] at h; simp [finish] at h
  · rw [h'] at h ⊢
    have hj : (joinStage c idx fs1 first (tmpName fs.nextTmp)).out = some p := by simpa [finish] using h
    obtain ⟨hp, herr, hlen, mt, hsrc, hfin⟩ := joinStage_out c idx fs1 first _ p hj
    refine ⟨by simpa [finish] using herr, by simpa [finish] using hlen, first, rest, hc, hp, ?_⟩
    intro hpt hsp hst
    simp only [finish, logOp_files]
    rw [lookup_filter_ne _ _ _ hpt, hp, hfin, ← hsrc]
    rw [lookup_setMtime_ne _ _ _ _ (by rw [← hp]; exact hsp), hf]
    have : (joinPath c.sourceDir first.name == tmpName fs.nextTmp) = false := by simpa using hst
    simp [List.lookup_append, List.lookup, this]

/-- an error never lists a path -/
theorem error_lists_nothing (c : Cfg) (idx : Nat) (fs : Fs) (chs : List File)
    (h : (processSet c idx fs chs).err ≠ .none) : (processSet c idx fs chs).out = none := by
  rcases processSet_cases c idx fs chs with ⟨_, h', _⟩ | ⟨first, rest, _, _, _, fs1, _, h' | h'⟩
  · exact h'
  · rw [h']; rfl
  · rw [h'] at h ⊢
    have : (joinStage c idx fs1 first (tmpName fs.nextTmp)).err ≠ .none := by simpa [finish] using h
    simpa [finish] using joinStage_err_out c idx fs1 first _ this

/-- `Validate` picks an empty argument only when it directly follows `-i` -/
theorem validate_slot_from (args : List String) (i : Nat) (iidx : Int) (k : Nat) (hlt : iidx < i)
    (h : findInputFrom args i iidx = some k) :
    ∃ j, k = i + j ∧ args[j]? = some "" ∧
      ((j = 0 ∧ (i : Int) = iidx + 1) ∨ (0 < j ∧ args[j - 1]? = some "-i")) := by
  induction args generalizing i iidx with
  | nil => simp [findInputFrom] at h
  | cons v rest ih =>
    unfold findInputFrom at h
    split at h
    · rename_i hv
      obtain ⟨j, hk, hj, hcase⟩ := ih (i + 1) i (by omega) h
      refine ⟨j + 1, by omega, by simpa using hj, Or.inr ⟨by omega, ?_⟩⟩
      rcases hcase with ⟨hj0, _⟩ | ⟨hjpos, hprev⟩
      · subst hj0; simp [hv]
      · obtain ⟨j', rfl⟩ : ∃ j', j = j' + 1 := ⟨j - 1, by omega⟩
        simpa using hprev
    · split at h
      · rename_i hv
        cases h
        exact ⟨0, rfl, by simp [hv.1], Or.inl ⟨rfl, hv.2⟩⟩
      · obtain ⟨j, hk, hj, hcase⟩ := ih (i + 1) iidx (by omega) h
        refine ⟨j + 1, by omega, by simpa using hj, Or.inr ⟨by omega, ?_⟩⟩
        rcases hcase with ⟨hj0, hidx⟩ | ⟨hjpos, hprev⟩
        · exfalso; omega
        · obtain ⟨j', rfl⟩ : ∃ j', j = j' + 1 := ⟨j - 1, by omega⟩
          simpa using hprev

/-- the slot `Validate` selects is an empty argument whose predecessor is `-i` -/
theorem validate_slot (args : List String) (k : Nat)
    (h : findInput Spec.expectedIidxInit args = some k) :
    0 < k ∧ args[k]? = some "" ∧ args[k - 1]? = some "-i" := by
  obtain ⟨j, hk, hj, hcase⟩ := validate_slot_from args 0 (-2) k (by omega) h
  rcases hcase with ⟨_, h0⟩ | ⟨hpos, hprev⟩
  · omega
  · have : k = j := by omega
    subst this
    exact ⟨hpos, hj, hprev⟩

/-- non-vacuity: the default argument list has its slot at position 6, and a list whose only
    empty argument does not follow `-i` is rejected -/
example : findInput Spec.expectedIidxInit ["-y", "-safe", "0", "-f", "concat", "-i", "", "-c:a", "copy"] = some 6 := by decide
example : findInput Spec.expectedIidxInit ["x", ""] = none := by decide
example : findInput Spec.expectedIidxInit ["-metadata", "", "-i", ""] = some 3 := by decide

end TrackVerif.C05
