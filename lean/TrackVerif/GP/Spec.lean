import TrackVerif.GP.Model
/-
  What C04 / C05 demand of the GoPro join, written by hand: the expected name shapes
  (position classes) and executable predicates over an observed run.
-/
namespace TrackVerif.GP.Spec
open TrackVerif Gen GP

def ci (c : Char) : List (Nat × Nat) := [(c.toUpper.toNat, c.toUpper.toNat), (c.toLower.toNat, c.toLower.toNat)]
def digit : List (Nat × Nat) := [(48, 57)]
def lit (c : Char) : List (Nat × Nat) := [(c.toNat, c.toNat)]

/-- GOPRnnnn.mp4 (case-insensitive), capture 1 = nnnn -/
def goprShape : List RePos :=
  [⟨ci 'G', 0⟩, ⟨ci 'O', 0⟩, ⟨ci 'P', 0⟩, ⟨ci 'R', 0⟩, ⟨digit, 1⟩, ⟨digit, 1⟩, ⟨digit, 1⟩, ⟨digit, 1⟩,
   ⟨lit '.', 0⟩, ⟨ci 'M', 0⟩, ⟨ci 'P', 0⟩, ⟨lit '4', 0⟩]

/-- GPccnnnn.mp4, capture 1 = cc, capture 2 = nnnn -/
def gpShape : List RePos :=
  [⟨ci 'G', 0⟩, ⟨ci 'P', 0⟩, ⟨digit, 1⟩, ⟨digit, 1⟩, ⟨digit, 2⟩, ⟨digit, 2⟩, ⟨digit, 2⟩, ⟨digit, 2⟩,
   ⟨lit '.', 0⟩, ⟨ci 'M', 0⟩, ⟨ci 'P', 0⟩, ⟨lit '4', 0⟩]

/-- GHccnnnn.mp4 / GXccnnnn.mp4 -/
def ghxShape : List RePos :=
  [⟨ci 'G', 0⟩, ⟨[(72, 72), (88, 88), (104, 104), (120, 120)], 0⟩, ⟨digit, 1⟩, ⟨digit, 1⟩,
   ⟨digit, 2⟩, ⟨digit, 2⟩, ⟨digit, 2⟩, ⟨digit, 2⟩, ⟨lit '.', 0⟩, ⟨ci 'M', 0⟩, ⟨ci 'P', 0⟩, ⟨lit '4', 0⟩]

/-- (matcher name, [(groups, positions)]) in `NewProcessor`'s matcher order -/
def expectedShapes : List (String × List (Nat × List RePos)) :=
  [("Hero5", [(1, goprShape), (2, gpShape)]), ("Hero10", [(2, ghxShape)])]

def shapesOf (ms : List (String × List RePattern)) : List (String × List (Nat × List RePos)) :=
  ms.map fun (n, ps) => (n, ps.map fun p => (p.groups, p.positions))

def allAnchored (ms : List (String × List RePattern)) : Bool :=
  ms.all fun (_, ps) => ps.all fun p => p.anchoredBegin && p.anchoredEnd

def expectedIidxInit : Int := -2

/-- the expected matcher list as patterns (what the spec-side run uses) -/
def matchers : List (List RePattern) :=
  expectedShapes.map fun (_, ps) => ps.map fun (g, pos) => ⟨"", true, true, g, pos⟩

/-! ### Predicates over one observed run (C05) -/

structure Observed where
  cfg : Cfg
  inputIdx : Nat
  initial : List (String × Int)
  sources : List String                   -- full paths of the source files
  invs : List (List String)               -- argv of every encoder start, in order
  files : List String                     -- listed result
  final : List (String × Int)
  writes : List (String × String)         -- (temp name, data) of every successful Write, in order

def lastArg (argv : List String) : String := argv.getLast?.getD ""

def isTmp (p : String) : Bool := p.startsWith "/tmp/"

/-- first failing clause, if any -/
def checkRun (o : Observed) : Option String :=
  let outs := o.invs.map lastArg
  -- the concat list each encoder start was given: temp name in the -i slot ↦ what was written to it
  let temps := o.invs.map fun a => ((a.drop 1).dropLast).getD o.inputIdx ""
  let lists := temps.map fun t => String.join ((o.writes.filter (·.1 = t)).map (·.2))
  if temps.eraseDups.length ≠ temps.length ∨ lists.eraseDups.length ≠ lists.length then some "gp.at_most_once"
  else if o.invs.any (fun a => (o.initial.any (·.1 = lastArg a)) && !o.cfg.overwrite) then some "gp.no_clobber"
  else if o.invs.any (fun a =>
      -- argv = binary :: args with the -i slot replaced by a temp name, output last
      let body := (a.drop 1).dropLast
      !(a.head? = some o.cfg.binary && body.length = o.cfg.args.length &&
        (List.range body.length).all (fun i =>
          if i = o.inputIdx then isTmp (body.getD i "") else body.getD i "" = o.cfg.args.getD i "x"))) then some "gp.argv_shape"
  else if o.final.any (fun (p, _) => isTmp p) then some "gp.temp_gone"
  else if o.sources.any (fun s => !(o.cfg.overwrite && outs.contains s) && o.final.lookup s ≠ o.initial.lookup s) then some "gp.sources_intact"
  else if o.files.any (fun f => !outs.contains f) then some "gp.listed_are_outputs"
  else none

end TrackVerif.GP.Spec
