import TrackVerif.Common.Outcome
import TrackVerif.Common.GenTypes
/-
  Executable model of `pkg/gopro`: matcher.go (name shapes, from the regenerated position
  classes), files.go (chapter sorting / validation), config.go (Validate's `-i ""` search,
  output naming, skip list) and processor.go (fileSets, Process, processSet) over an abstract
  filesystem with an injected fault.
-/
namespace TrackVerif.GP
open TrackVerif Gen

/-! ### Matchers (C04) -/

def inClass (cls : List (Nat × Nat)) (c : Char) : Bool :=
  cls.any fun (lo, hi) => lo ≤ c.toNat && c.toNat ≤ hi

/-- position-wise match of an anchored, fixed-length pattern; returns (group, char) pairs -/
def matchPositions : List RePos → List Char → Option (List (Nat × Char))
  | [], [] => some []
  | p :: ps, c :: cs =>
    if inClass p.cls c then (matchPositions ps cs).map fun caps => (p.group, c) :: caps else none
  | _, _ => none

def groupText (caps : List (Nat × Char)) (g : Nat) : String :=
  String.ofList ((caps.filter (·.1 = g)).map (·.2))

structure File where
  name : String
  chapter : String
  index : String
  deriving DecidableEq, Repr

/-- `Matcher.Match` on a base name: patterns tried in order; 1 group → chapter "00" -/
def matchName (pats : List RePattern) (name : String) : Outcome (Option File) :=
  match pats with
  | [] => .ok none
  | p :: rest =>
    if !(p.anchoredBegin && p.anchoredEnd) then .unmodelled else
    match matchPositions p.positions name.toList with
    | none => matchName rest name
    | some caps =>
      if p.groups = 1 then .ok (some ⟨name, "00", groupText caps 1⟩)
      else if p.groups = 2 then .ok (some ⟨name, groupText caps 1, groupText caps 2⟩)
      else .err .invalid

/-! ### Chapters (files.go) -/

/-- insertion of a chapter keeping increasing chapter order (`sort.Sort` by Chapter) -/
def insertChapter (f : File) : List File → List File
  | [] => [f]
  | g :: gs => if f.chapter < g.chapter then f :: g :: gs else g :: insertChapter f gs

def pad2 (n : Nat) : String := if n < 10 then "0" ++ toString n else toString n

inductive ValErr | noChapters | chapter (ch : String) (idx : Nat)
  deriving DecidableEq, Repr

/-- `FileSlice.Validate` -/
def validate (cs : List File) : Option ValErr :=
  match cs with
  | [] => some .noChapters
  | c0 :: _ =>
    let inc? : Option Nat := if c0.chapter = "00" then some 0 else if c0.chapter = "01" then some 1 else none
    match inc? with
    | none => some (.chapter c0.chapter 0)
    | some inc =>
      let rec go : List File → Nat → Option ValErr
        | [], _ => none
        | c :: rest, i => if c.chapter ≠ pad2 (i + inc) then some (.chapter c.chapter i) else go rest (i + 1)
      go cs 0

/-! ### Grouping (fileSets) -/

structure DirEntry where
  name : String
  isDir : Bool
  deriving DecidableEq, Repr

def insertSortedEntry (e : DirEntry) : List DirEntry → List DirEntry
  | [] => [e]
  | f :: fs => if e.name < f.name then e :: f :: fs else f :: insertSortedEntry e fs

/-- `ReadDir` order: sorted by file name -/
def sortEntries (es : List DirEntry) : List DirEntry := es.foldr insertSortedEntry []

abbrev Groups := List (String × List File)      -- video number ↦ chapters (association list)

def addToGroup (gs : Groups) (f : File) : Groups :=
  if gs.any (·.1 = f.index) then
    gs.map fun (k, cs) => if k = f.index then (k, insertChapter f cs) else (k, cs)
  else gs ++ [(f.index, [f])]

/-- the WalkDir callback over the root's entries: directories pruned, every matcher tried -/
def fileSets (matchers : List (List RePattern)) (es : List DirEntry) : Outcome Groups :=
  (sortEntries es).foldlM (fun (gs : Groups) e =>
    if e.isDir then .ok gs else
    matchers.foldlM (fun (gs : Groups) m =>
      match matchName m e.name with
      | .ok (some f) => Outcome.ok (addToGroup gs f)
      | .ok none => .ok gs
      | .err x => .err x
      | .panic p => .panic p
      | .unmodelled => .unmodelled) gs) []

/-! ### Config (config.go) -/

inductive TmplPart | lit (s : String) | name | ext
  deriving DecidableEq, Repr

structure Cfg where
  sourceDir : String
  outputDir : String
  binary : String
  args : List String
  skip : List String
  tmpl : List TmplPart
  overwrite : Bool
  deriving Repr

/-- `Validate`'s search for the empty argument right after `-i`; `init` is the initial value of
    the remembered `-i` position (regenerated from the source) -/
def findInputFrom : List String → Nat → Int → Option Nat
  | [], _, _ => none
  | v :: rest, i, iidx =>
    if v = "-i" then findInputFrom rest (i + 1) i
    else if v = "" ∧ (i : Int) = iidx + 1 then some i
    else findInputFrom rest (i + 1) iidx

def findInput (init : Int) (args : List String) : Option Nat := findInputFrom args 0 init

/-- `filepath.Ext`: from the last dot of the name (names contain no '/') -/
def ext (name : String) : String :=
  let cs := name.toList
  if cs.contains '.' then String.ofList ('.' :: (cs.reverse.takeWhile (· ≠ '.')).reverse) else ""

def stem (name : String) : String := String.ofList (name.toList.take (name.length - (ext name).length))

def render (t : List TmplPart) (name : String) : String :=
  String.join (t.map fun
    | .lit s => s
    | .name => stem name
    | .ext => ext name)

/-- `filepath.Join(dir, file)` for clean relative directories ("." or a/b without dots) -/
def joinPath (dir file : String) : String := if dir = "." then file else dir ++ "/" ++ file

def outputPath (c : Cfg) (first : String) : String :=
  let out := render c.tmpl first
  if c.outputDir = "." then out
  else if c.outputDir = "" then joinPath c.sourceDir out
  else joinPath c.outputDir out

/-! ### Abstract filesystem with one injected fault -/

/-- a filesystem / handler operation as the recording filesystem sees it -/
inductive Op
  | stat (p : String) (res : String)            -- ok | enoent | fail
  | readdir (p : String) (ok : Bool)
  | createtemp (name : Option String)           -- none = failed
  | write (tmp : String) (data : String) (ok : Bool)
  | close (tmp : String) (ok : Bool)
  | handler (ok : Bool)
  | chtimes (p : String) (mtime : Int) (ok : Bool)
  | remove (p : String)
  deriving DecidableEq, Repr

structure Fs where
  files : List (String × Int)      -- path ↦ mtime
  nextTmp : Nat
  count : Nat                      -- fault-eligible operations performed so far
  fault : Option Nat
  log : List Op                    -- operation log, oldest first
  deriving Repr

/-- does the next fault-eligible operation fail? -/
def Fs.failsNext (fs : Fs) : Bool := fs.fault == some fs.count

/-- count one fault-eligible operation and log it -/
def Fs.step (fs : Fs) (o : Op) : Fs := { fs with count := fs.count + 1, log := fs.log ++ [o] }

/-- log an operation that is not fault-eligible -/
def Fs.logOp (fs : Fs) (o : Op) : Fs := { fs with log := fs.log ++ [o] }

/-- (re)create `p` with modification time `m` -/
def setMtime (files : List (String × Int)) (p : String) (m : Int) : List (String × Int) :=
  files.filter (fun q => !decide (q.1 = p)) ++ [(p, m)]

def tmpName (n : Nat) : String := "/tmp/gopro-process" ++ toString n

/-- mtime given to a file the handler (re)writes; `Chtimes` then replaces it -/
def handlerMtime : Int := 999999

structure Invocation where
  argv : List String
  deriving DecidableEq, Repr

inductive ProcErr | none | noFiles | chapter | noChapters | fs | handler | walk
  deriving DecidableEq, Repr

structure SetResult where
  fs : Fs
  invs : List Invocation
  out : Option String          -- listed output path
  err : ProcErr

def concatLine (srcDir : String) (f : File) : String := "file '" ++ joinPath srcDir f.name ++ "'\n"

/-- write the concat list: one `Write` per chapter, then `Close`; returns (failed, fs) -/
def writeInput (srcDir : String) (fs : Fs) (tmp : String) : List File → Bool × Fs
  | [] => (fs.failsNext, fs.step (.close tmp !fs.failsNext))
  | f :: rest =>
    if fs.failsNext then (true, fs.step (.write tmp (concatLine srcDir f) false))
    else writeInput srcDir (fs.step (.write tmp (concatLine srcDir f) true)) tmp rest

/-- `defer baseFS.Remove(tmp)` -/
def finish (tmp : String) (r : SetResult) : SetResult :=
  { r with fs := { r.fs with files := r.fs.files.filter (fun q => !decide (q.1 = tmp)) }.logOp (.remove tmp) }

def statRes (present : Bool) : String := if present then "ok" else "enoent"

/-- the part of `processSet` after the concat list has been written -/
def joinStage (c : Cfg) (inputIdx : Nat) (fs : Fs) (first : File) (tmp : String) : SetResult :=
  let output := outputPath c first.name
  -- Stat(output)
  if fs.failsNext then ⟨fs.step (.stat output "fail"), [], none, .fs⟩ else
  let present := fs.files.any (·.1 = output)
  let fs := fs.step (.stat output (statRes present))
  if present ∧ !c.overwrite then ⟨fs, [], none, .none⟩ else
  -- handler
  let argv := [c.binary] ++ (c.args.set inputIdx tmp) ++ [output]
  if fs.failsNext then ⟨fs.step (.handler false), [⟨argv⟩], none, .handler⟩ else
  let fs := { fs.step (.handler true) with files := setMtime fs.files output handlerMtime }
  -- Stat(first source)
  let src := joinPath c.sourceDir first.name
  if fs.failsNext then ⟨fs.step (.stat src "fail"), [⟨argv⟩], none, .fs⟩ else
  match fs.files.lookup src with
  | none => ⟨fs.step (.stat src "enoent"), [⟨argv⟩], none, .fs⟩
  | some mt =>
    let fs := fs.step (.stat src "ok")
    -- Chtimes(output, now, mtime)
    if fs.failsNext then ⟨fs.step (.chtimes output mt false), [⟨argv⟩], none, .fs⟩ else
    ⟨{ fs.step (.chtimes output mt true) with files := setMtime fs.files output mt }, [⟨argv⟩], some output, .none⟩

/-- `processSet` -/
def processSet (c : Cfg) (inputIdx : Nat) (fs : Fs) (chapters : List File) : SetResult :=
  match validate chapters with
  | some .noChapters => ⟨fs, [], none, .noChapters⟩
  | some (.chapter _ _) => ⟨fs, [], none, .chapter⟩
  | none =>
    match chapters with
    | [] => ⟨fs, [], none, .noChapters⟩
    | first :: _ =>
      if c.skip.contains first.name then ⟨fs, [], none, .none⟩ else
      -- CreateTemp
      if fs.failsNext then ⟨fs.step (.createtemp none), [], none, .fs⟩ else
      let tmp := tmpName fs.nextTmp
      let fs := { fs.step (.createtemp (some tmp)) with nextTmp := fs.nextTmp + 1, files := fs.files ++ [(tmp, 0)] }
      -- everything below runs under `defer Remove(tmp)`
      let w := writeInput c.sourceDir fs tmp chapters
      if w.1 then finish tmp ⟨w.2, [], none, .fs⟩
      else finish tmp (joinStage c inputIdx w.2 first tmp)

structure ProcResult where
  fs : Fs
  invs : List Invocation
  files : List String
  err : ProcErr
  args : List String            -- the (shared, mutated) argument slice after the run

/-- `Process`: groups are visited in `order` (the order Go's map iteration happened to use) -/
def processGroups (c : Cfg) (inputIdx : Nat) (groups : Groups) :
    List String → Fs → List Invocation → List String → List String → ProcResult
  | [], fs, invs, files, args => ⟨fs, invs, files, .none, args⟩
  | k :: rest, fs, invs, files, args =>
    match groups.lookup k with
    | none => ⟨fs, invs, files, .walk, args⟩          -- not a group: the observed order is inconsistent
    | some chapters =>
      let r := processSet { c with args := args } inputIdx fs chapters
      let args' := match r.invs with
        | inv :: _ => (inv.argv.drop 1).dropLast       -- cfg.Args[inputIndex] now holds the temp name
        | [] => args
      match r.err with
      | .none =>
        let files := match r.out with
          | some f => files ++ [f]
          | none => files
        processGroups c inputIdx groups rest r.fs (invs ++ r.invs) files args'
      | e => ⟨r.fs, invs ++ r.invs, files, e, args'⟩

/-- the walk: `Stat(root)` then `ReadDir(root)`; returns (failed, fs) -/
def walk (c : Cfg) (fs : Fs) : Bool × Fs :=
  if fs.failsNext then (true, fs.step (.stat c.sourceDir "fail")) else
  let fs := fs.step (.stat c.sourceDir "ok")
  (fs.failsNext, fs.step (.readdir c.sourceDir !fs.failsNext))

/-- `Processor.Process` -/
def process (matchers : List (List RePattern)) (c : Cfg) (inputIdx : Nat) (es : List DirEntry)
    (order : List String) (fs : Fs) : Outcome ProcResult :=
  let w := walk c fs
  let fs := w.2
  if w.1 then .ok ⟨fs, [], [], .walk, c.args⟩ else
  match fileSets matchers es with
  | .ok groups =>
    if groups.isEmpty then .ok ⟨fs, [], [], .noFiles, c.args⟩
    else .ok (processGroups c inputIdx groups order fs [] [] c.args)
  | .err _ => .ok ⟨fs, [], [], .walk, c.args⟩
  | .panic p => .panic p
  | .unmodelled => .unmodelled

end TrackVerif.GP
