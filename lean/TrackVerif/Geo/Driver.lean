import TrackVerif.Common.Proto
import TrackVerif.Geo.Model
/-
  Line-protocol side of the geometry area (C17, C18, C19).  Floats are 16 hex digits.

    GE onl  <tol r lat0 lon0 lat1 lon1 lat2 lon2 dist>  => <b> <b swapped> <b 2·tol> <d01 d02 d12 bearing track>
    GE dist <fast r lat1 lon1 lat2 lon2 gc>             => <d> <d swapped> <d at 2r>
    GE dtl  <r p s e segdist>                           => <d>
    GE meet <8 floats>                                  => <x> <y>
    GE sd   <a b>                                       => <0|1>
    GE rt   <lat0 lon0 lat lon dist>                    => <x y azi rk lat' lon' x' y'>
    GE ix   <case> <8 endpoint floats> <latC lonC> <insideA insideB>
                                                        => <lat lon a1 a2 b1 b2> <ok|err> <dC mm> 
-/
namespace TrackVerif.Geo.Driver
open TrackVerif Proto Geo

instance : RealLike Float where
  add := (· + ·)
  sub := (· - ·)
  mul := (· * ·)
  div := (· / ·)
  neg := fun x => -x
  ofNat := Float.ofNat
  ofDec m k := Float.ofScientific m true k
  sin := Float.sin
  cos := Float.cos
  sqrt := Float.sqrt
  asin := Float.asin
  abs := Float.abs
  le a b := a ≤ b
  lt a b := a < b
  pi := Float.ofBits 0x400921FB54442D18
  deg2rad := Float.ofBits 0x3F91DF46A2529D39
  rem360 := fun d => d - Float.round (d / 360.0) * 360.0

def fl (s : String) : Option Float := floatOfHex? s
def fls (xs : List String) : Option (List Float) := xs.mapM fl

/-- |a − b| ≤ rel·max(|a|,|b|) + abs -/
def near (rel abs_ : Float) (a b : Float) : Bool :=
  if a.isNaN || b.isNaN then a.isNaN && b.isNaN
  else Float.abs (a - b) ≤ rel * (if Float.abs a > Float.abs b then Float.abs a else Float.abs b) + abs_

def b01 (b : Bool) : String := if b then "1" else "0"

def handleOnl (args impl : List String) : String :=
  match fls args, impl with
  | some [tol, r, lat0, lon0, lat1, lon1, lat2, lon2, dist], b :: bs :: b2 :: qs =>
    match fls qs with
    | some [d01, d02, d12, bearing, track] =>
      let q := onLineQ (lat0 * radians) (lon0 * radians) (lat1 * radians) (lon1 * radians) (lat2 * radians) (lon2 * radians)
      let m := onLine tol r lat0 lon0 lat1 lon1 lat2 lon2
      let band := 0.01 * tol + 0.0001
      -- property clauses (impl vs independent great-circle distance to the segment)
      if dist < tol - band ∧ b != "1" then s!"VIOL clause=ge.online_hit dist={dist} tol={tol}"
      else if dist > tol + band ∧ b != "0" then s!"VIOL clause=ge.online_miss dist={dist} tol={tol}"
      else if (dist < tol - band ∨ dist > tol + band) ∧ b != bs then "VIOL clause=ge.endpoint_order"
      else if b == "1" ∧ b2 != "1" then "VIOL clause=ge.tol_monotone"
      else
        -- correspondence: intermediate quantities and the decision (outside the guard band)
        let qok := near 1e-9 1e-18 q.d01 d01 && near 1e-9 1e-18 q.d02 d02 && near 1e-9 1e-18 q.d12 d12 &&
          near 1e-4 1e-9 q.track track
        let _ := bearing
        let dec := (dist < tol - band ∨ dist > tol + band) → (b01 m == b)
        if qok ∧ decide dec then s!"OK nt={b01 (dist < 3 * tol)}" else
          s!"CORR clause=ge.online_model m={b01 m} d01={q.d01} track={q.track} vs {track}"
    | _ => "BAD"
  | _, ["panic"] => "VIOL clause=ge.no_crash"
  | _, _ => "BAD"

def handleDist (args impl : List String) : String :=
  match args, impl with
  | [fast, r, a, b, c, d, gc, lim], [v, vs, v2] =>
    match fls [r, a, b, c, d, gc, lim, v, vs, v2] with
    | some [r, lat1, lon1, lat2, lon2, gc, lim, v, vs, v2] =>
      let m := distance (fast == "1") r lat1 lon1 lat2 lon2
      -- property: relative error bound `lim` vs the great-circle oracle, symmetry, linear in radius
      -- 1e-8 m absolute slack: float64 quantisation of the input coordinates (≈ 1 nm on Earth)
      if !(near lim 1e-8 v gc) then s!"VIOL clause=ge.distance v={v} gc={gc}"
      else if !(near 1e-12 1e-9 v vs) then "VIOL clause=ge.distance_symmetric"
      else if !(near 1e-12 1e-9 (2 * v) v2) then "VIOL clause=ge.distance_linear"
      else if gc > 0.001 ∧ v ≤ 0 then "VIOL clause=ge.distance_zero"
      else if near 1e-9 1e-9 m v then "OK nt=1" else s!"CORR clause=ge.distance_model m={m} v={v}"
    | _ => "BAD"
  | _, _ => "BAD"

def handleDtl (args impl : List String) : String :=
  match fls args, fls impl with
  | some [r, pl, po, sl, so, el, eo, seg], some [v] =>
    let m := distanceToLine r pl po sl so el eo
    if !(near 0.01 0.001 v seg) then s!"VIOL clause=ge.line_distance v={v} seg={seg}"
    else if near 1e-7 1e-7 m v then "OK nt=1" else s!"CORR clause=ge.line_model m={m} v={v}"
  | _, _ => "BAD"

def handleMeet (args impl : List String) : String :=
  match fls args, fls impl with
  | some [a, b, c, d, e, f, g, h], some [x, y] =>
    let (mx, my) := meet a b c d e f g h
    -- the algebra is IEEE +,−,×,÷ only: bit-exact
    if hexOfFloat mx == hexOfFloat x ∧ hexOfFloat my == hexOfFloat y then "OK nt=1"
    else s!"VIOL clause=ge.meet m={mx},{my} v={x},{y}"
  | _, _ => "BAD"

/-- exact remainder of a − b modulo 360 for moderate arguments -/
def sameDirectionModel (a b : Float) : Option Bool :=
  let r := Float.abs (RealLike.rem360 (a - b))
  if Float.abs (r - 90.0) < 1e-9 ∨ Float.abs (r - 180.0) < 1e-9 then none else some (sameDirection a b)

def handleSd (args impl : List String) : String :=
  match fls args, impl with
  | some [a, b], [v] =>
    match sameDirectionModel a b with
    | none => "SKIP reason=boundary"
    | some m => if b01 m == v then "OK nt=1" else s!"VIOL clause=ge.same_direction m={b01 m}"
  | _, _ => "BAD"

/-- sincosd / atan2d against the library functions in radians: exact-degree argument reduction
    may only improve on them, so 4 ulp of 1 is the agreement demanded -/
def handleScd (args impl : List String) : String :=
  match fls args, fls impl with
  | some [x], some [sn, cs] =>
    let r := x * (3.141592653589793 / 180.0)
    -- the plain radian evaluation loses relative accuracy for large |x|: allow for it
    let tol := 1e-15 * (4.0 + Float.abs x / 45.0)
    if Float.abs (sn - Float.sin r) ≤ tol ∧ Float.abs (cs - Float.cos r) ≤ tol then "OK nt=1"
    else s!"VIOL clause=ge.sincosd x={x} sin={sn} cos={cs} want={Float.sin r},{Float.cos r}"
  | _, _ => "BAD"

def handleAtd (args impl : List String) : String :=
  match fls args, fls impl with
  | some [y, x], some [a] =>
    let want := Float.atan2 y x * (180.0 / 3.141592653589793)
    if Float.abs (a - want) ≤ 1e-13 * (1.0 + Float.abs want) then "OK nt=1"
    else s!"VIOL clause=ge.atan2d y={y} x={x} got={a} want={want}"
  | _, _ => "BAD"

def angDiff (a b : Float) : Float :=
  let d := a - b
  Float.abs (d - 360.0 * Float.round (d / 360.0))

def handleRt (args impl : List String) : String :=
  match fls args, fls impl with
  | some (lat0 :: lon0 :: lat :: lon :: dist :: more), some [x, y, _azi, _rk, lat', lon', x', y'] =>
    -- a latitude of exactly ±45°, or a longitude difference of exactly 45° or 135°, hits the octant
    -- slip of the geodesic library's own sincosdx (recorded findings): such failures are labelled so
    -- that they are told apart from any other
    let dl := angDiff lon lon0
    let tag := if Float.abs lat0 == 45.0 ∨ Float.abs lat == 45.0 then " tag=geodesic-lat45"
      else if dl == 45.0 ∨ dl == 135.0 then " tag=geodesic-lon45" else ""
    -- the horizon: the geodesic scale M12 of the point relative to the centre (computed by the
    -- harness with the geodesic library) is positive inside and negative beyond
    let scale : Option Float := more.head?
    let beyond : Bool := match scale with | some m => m < -1e-9 | none => dist > 10100000.0
    let inside : Bool := match scale with | some m => m > 1e-9 | none => dist < 9000000.0
    if beyond then
      (if x.isNaN ∧ y.isNaN then "OK nt=1 cls=beyond" else "VIOL clause=ge.horizon_nan")
    else if inside then
      if x.isNaN ∨ y.isNaN then s!"VIOL clause=ge.forward_nan{tag}"
      else if lat'.isNaN ∨ lon'.isNaN then s!"VIOL clause=ge.reverse_nan{tag}"
      else if (match scale with | some m => decide (m < 1e-3) | none => decide (dist ≥ 9000000.0)) then
        -- within a few kilometres of the horizon the plane coordinates are astronomically large:
        -- only a looser bound is checked there
        (let e1 := Float.abs (lat' - lat)
         let e2 := if Float.abs lat > 89.9999 then 0.0 else angDiff lon' lon
         if e1 ≤ 1e-6 ∧ e2 ≤ 1e-6 then "OK nt=1 cls=inside_at_horizon" else s!"VIOL clause=ge.roundtrip_geo{tag} why=near-horizon")
      else if !(Float.abs (lat' - lat) ≤ 1e-9 ∧ (angDiff lon' lon ≤ 1e-9 ∨ Float.abs lat > 89.9999)) then
        s!"VIOL clause=ge.roundtrip_geo{tag} dlat={lat' - lat} dlon={angDiff lon' lon}"
      else if !(Float.abs (x - x') ≤ 1e-6 * Float.sqrt (x * x + y * y) + 1e-6 ∧
                Float.abs (y - y') ≤ 1e-6 * Float.sqrt (x * x + y * y) + 1e-6) then
        -- (1e-6 relative to the point's distance from the origin of the plane: a coordinate that is
        -- exactly zero — a point due east of the centre — has no relative error of its own)
        s!"VIOL clause=ge.roundtrip_plane{tag}"
      else "OK nt=1"
    else "SKIP reason=on_horizon"
  | _, _ => "BAD"

/-- the reverse order: plane coordinates → position → plane coordinates, to 1e-6 relative -/
def handleTr (args impl : List String) : String :=
  match fls args, fls impl with
  | some [lat0, _lon0, x, y], some [lat, lon, x', y'] =>
    -- a point on a diagonal of the plane is at an azimuth of exactly ±45° or ±135° from the centre:
    -- the same octant slip of the geodesic library as for a latitude of ±45° (recorded findings)
    let tag := if Float.abs lat0 == 45.0 then " tag=geodesic-lat45"
      else if Float.abs x == Float.abs y ∧ x != 0.0 then " tag=geodesic-azi45" else ""
    -- relative to the point's distance from the origin of the plane (a coordinate that is zero has
    -- no relative error of its own), plus a micrometre
    let tol := 1e-6 * Float.sqrt (x * x + y * y) + 1e-6
    if lat.isNaN ∨ lon.isNaN then s!"VIOL clause=ge.reverse_nan{tag}"
    else if x'.isNaN ∨ y'.isNaN then s!"VIOL clause=ge.roundtrip_plane{tag} x={x} y={y} got=NaN"
    else if !(Float.abs (x - x') ≤ tol ∧ Float.abs (y - y') ≤ tol) then s!"VIOL clause=ge.roundtrip_plane{tag} x={x} y={y} got={x'},{y'}"
    else "OK nt=1"
  | _, _ => "BAD"

def handleIx (args impl : List String) : String :=
  match args.drop 10, impl with
  | [insA, insB], [a1, a2, b1, b2, res, dmm] =>
    match fls [a1, a2, b1, b2, dmm] with
    | some [a1, a2, b1, b2, dmm] =>
      -- (an end point at a latitude of exactly ±45°: the geodesic library's octant slip, recorded
      -- finding — labelled from the input alone)
      let tag := match fls (args.take 8) with
        | some [p1, _, p2, _, p3, _, p4, _] =>
          if Float.abs p1 == 45.0 ∨ Float.abs p2 == 45.0 ∨ Float.abs p3 == 45.0 ∨ Float.abs p4 == 45.0 then " tag=geodesic-lat45" else ""
        | _ => ""
      -- the extended intersection lies on both geodesics: azimuths equal or opposite
      let onA := angDiff a1 a2 ≤ 1e-6 ∨ Float.abs (angDiff a1 a2 - 180.0) ≤ 1e-6
      let onB := angDiff b1 b2 ≤ 1e-6 ∨ Float.abs (angDiff b1 b2 - 180.0) ≤ 1e-6
      let inside := insA == "1" ∧ insB == "1"
      if !(onA ∧ onB) then s!"VIOL clause=ge.on_both{tag} a={angDiff a1 a2} b={angDiff b1 b2}"
      else if dmm > 1.0 then s!"VIOL clause=ge.crossing_mm{tag} d={dmm}"
      else if inside ∧ res != "ok" then s!"VIOL clause=ge.inside_ok{tag}"
      else if !inside ∧ res != "err" then s!"VIOL clause=ge.outside_err{tag}"
      else "OK nt=1"
    | _ => "BAD"
  | _, _ => "BAD"

def handle (args : List String) (impl : List String) : String :=
  match args with
  | "onl" :: rest => handleOnl rest impl
  | "dist" :: rest => handleDist rest impl
  | "dtl" :: rest => handleDtl rest impl
  | "meet" :: rest => handleMeet rest impl
  | "sd" :: rest => handleSd rest impl
  | "scd" :: rest => handleScd rest impl
  | "atd" :: rest => handleAtd rest impl
  | "rt" :: rest => handleRt rest impl
  | "tr" :: rest => handleTr rest impl
  | "ix" :: rest => handleIx rest impl
  | _ => "BAD"

end TrackVerif.Geo.Driver
