import TrackVerif.Geo.RealLemmas
/-
  C19 — Gnomonic projection inverts itself and finds where two geodesic segments cross.
  Property theorems only: the plane algebra and the decision logic.  The ellipsoidal accuracy
  claims (1e-9°, 1e-6, 1 mm) concern tidwall/geodesic's series in float64 and are sampled with the
  real library (correspondence), not proved.
-/
namespace TrackVerif.C19
open TrackVerif Geo Real

/-- Cramer's rule: the point computed from two homogeneous lines lies on both -/
theorem cramer (A1 B1 C1 A2 B2 C2 : ℝ) (hz : A1 * B2 - B1 * A2 ≠ 0) :
    A1 * ((B1 * C2 - C1 * B2) / (A1 * B2 - B1 * A2)) + B1 * ((C1 * A2 - A1 * C2) / (A1 * B2 - B1 * A2)) + C1 = 0 ∧
    A2 * ((B1 * C2 - C1 * B2) / (A1 * B2 - B1 * A2)) + B2 * ((C1 * A2 - A1 * C2) / (A1 * B2 - B1 * A2)) + C2 = 0 := by
  generalize hzz : A1 * B2 - B1 * A2 = z at hz
  constructor
  · field_simp
    rw [← hzz]; ring
  · field_simp
    rw [← hzz]; ring

/-- `meet` in closed form: lines la = a₁×a₂, lb = b₁×b₂, point = la×lb normalised -/
theorem meet_real (xa1 ya1 xa2 ya2 xb1 yb1 xb2 yb2 : ℝ) :
    meet xa1 ya1 xa2 ya2 xb1 yb1 xb2 yb2 =
      (((xa2 - xa1) * (xb1 * yb2 - yb1 * xb2) - (xa1 * ya2 - ya1 * xa2) * (xb2 - xb1)) /
          ((ya1 - ya2) * (xb2 - xb1) - (xa2 - xa1) * (yb1 - yb2)),
       ((xa1 * ya2 - ya1 * xa2) * (yb1 - yb2) - (ya1 - ya2) * (xb1 * yb2 - yb1 * xb2)) /
          ((ya1 - ya2) * (xb2 - xb1) - (xa2 - xa1) * (yb1 - yb2))) := by
  simp only [meet, normXY, cross, vec2, one, rl_mul, rl_sub, rl_div, rl_ofNat, Nat.cast_one, one_mul, mul_one]

/-- the homogeneous line through two plane points passes through both of them -/
theorem line_through_points (x1 y1 x2 y2 : ℝ) :
    (y1 - y2) * x1 + (x2 - x1) * y1 + (x1 * y2 - y1 * x2) = 0 ∧
    (y1 - y2) * x2 + (x2 - x1) * y2 + (x1 * y2 - y1 * x2) = 0 := by
  constructor <;> ring

/-- the point `IntersectExt` computes in the projection plane lies on line A₁A₂ and on line B₁B₂
    (whenever the two lines are not parallel) -/
theorem homogeneous_meet (xa1 ya1 xa2 ya2 xb1 yb1 xb2 yb2 : ℝ)
    (hz : (ya1 - ya2) * (xb2 - xb1) - (xa2 - xa1) * (yb1 - yb2) ≠ 0) :
    (ya1 - ya2) * (meet xa1 ya1 xa2 ya2 xb1 yb1 xb2 yb2).1 + (xa2 - xa1) * (meet xa1 ya1 xa2 ya2 xb1 yb1 xb2 yb2).2 +
      (xa1 * ya2 - ya1 * xa2) = 0 ∧
    (yb1 - yb2) * (meet xa1 ya1 xa2 ya2 xb1 yb1 xb2 yb2).1 + (xb2 - xb1) * (meet xa1 ya1 xa2 ya2 xb1 yb1 xb2 yb2).2 +
      (xb1 * yb2 - yb1 * xb2) = 0 := by
  rw [meet_real]
  exact cramer (ya1 - ya2) (xa2 - xa1) (xa1 * ya2 - ya1 * xa2) (yb1 - yb2) (xb2 - xb1) (xb1 * yb2 - yb1 * xb2) hz

theorem sameDirection_real (a b : ℝ) :
    sameDirection a b = decide (|(a - b) - (round ((a - b) / 360) : ℝ) * 360| < 90) := by
  show decide (|(a - b) - (round ((a - b) / 360) : ℝ) * 360| < ((90 : ℕ) : ℝ)) = _
  norm_num

/-- equal azimuths point the same way -/
theorem same_when_equal (a : ℝ) : sameDirection a a = true := by
  rw [sameDirection_real]; simp

/-- opposite azimuths do not -/
theorem not_same_when_opposite (a : ℝ) : sameDirection (a + 180) a = false := by
  rw [sameDirection_real]
  have h1 : a + 180 - a = 180 := by ring
  rw [h1]
  have hr : round ((180 : ℝ) / 360) = 1 ∨ round ((180 : ℝ) / 360) = 0 := by
    have : (180 : ℝ) / 360 = 1 / 2 := by norm_num
    rw [this]
    left
    rw [round_eq]
    norm_num
  rcases hr with h | h <;> simp [h] <;> norm_num

/-- azimuths that differ by less than a quarter turn (no wrap) point the same way -/
theorem same_when_close (a b : ℝ) (h : |a - b| < 90) : sameDirection a b = true := by
  rw [sameDirection_real]
  have hr : round ((a - b) / 360) = 0 := by
    rw [round_eq_zero_iff]
    have := abs_lt.mp h
    constructor <;> linarith
  simp [hr, h]

/-- azimuths are angles: whole turns added to either of them change nothing -/
theorem sameDirection_period (a b : ℝ) (k m : ℤ) :
    sameDirection (a + k * 360) (b + m * 360) = sameDirection a b := by
  rw [sameDirection_real, sameDirection_real]
  have h1 : (a + k * 360 - (b + m * 360)) / 360 = (a - b) / 360 + ((k - m : ℤ) : ℝ) := by
    push_cast; ring
  rw [h1, round_add_intCast]
  have h2 : a + k * 360 - (b + m * 360) - ((round ((a - b) / 360) + (k - m) : ℤ) : ℝ) * 360 =
      a - b - (round ((a - b) / 360) : ℝ) * 360 := by
    push_cast; ring
  rw [h2]

/-- exactly: two azimuths point the same way iff they differ from each other by less than a
    quarter turn after removing some whole number of turns -/
theorem sameDirection_iff (a b : ℝ) :
    sameDirection a b = true ↔ ∃ k : ℤ, |a - b - k * 360| < 90 := by
  rw [sameDirection_real, decide_eq_true_eq]
  constructor
  · intro h; exact ⟨round ((a - b) / 360), h⟩
  · rintro ⟨k, hk⟩
    have hr : round ((a - b) / 360) = k := by
      have h1 : (a - b) / 360 = (a - b - k * 360) / 360 + (k : ℝ) := by ring
      rw [h1, round_add_intCast]
      have h0 : round ((a - b - k * 360) / 360) = 0 := by
        rw [round_eq_zero_iff]
        have := abs_lt.mp hk
        constructor <;> linarith
      rw [h0, zero_add]
    rw [hr]; exact hk

/-- the order of the two azimuths does not matter -/
theorem sameDirection_symm (a b : ℝ) : sameDirection a b = sameDirection b a := by
  rw [Bool.eq_iff_iff, sameDirection_iff, sameDirection_iff]
  constructor <;> rintro ⟨k, hk⟩ <;> refine ⟨-k, ?_⟩ <;>
    · rw [← abs_neg]; push_cast; convert hk using 2; ring

/-- the bounded intersection returns the point exactly when, for both segments, the azimuth from
    its first end towards the point and from the point towards its second end agree — i.e. the
    point lies inside both segments — and reports an error when it lies outside either -/
theorem intersect_decision (a1 a2 b1 b2 : ℝ) :
    intersectDecide a1 a2 b1 b2 = true ↔ sameDirection a1 a2 = true ∧ sameDirection b1 b2 = true := by
  simp [intersectDecide]

theorem inside_both_is_reported (a b : ℝ) : intersectDecide a a b b = true := by
  rw [intersect_decision]; exact ⟨same_when_equal a, same_when_equal b⟩

theorem outside_either_is_error (a b : ℝ) :
    intersectDecide (a + 180) a b b = false ∧ intersectDecide a a (b + 180) b = false := by
  constructor <;> simp [intersectDecide, not_same_when_opposite, same_when_equal]

end TrackVerif.C19
