import TrackVerif.Common.RealLike
/-
  Executable model of `pkg/gopro/gpmf/geo`: haversine.go, equirect.go, processor.go
  (OnLine, DistanceToLine, Distance), vector.go and the decision part of gnomonic.go,
  written once over `RealLike α`.
-/
namespace TrackVerif.Geo
open TrackVerif RealLike

variable {α : Type} [RealLike α]

def two : α := ofNat 2
def one : α := ofNat 1
def zero : α := ofNat 0
def half : α := ofDec 5 1

/-- degrees → radians factor `math.Pi / 180` -/
def radians : α := deg2rad

/-- haversine.go -/
def hav (x : α) : α := let s := sin (x * half); s * s
def invHav (x : α) : α := two * asin (sqrt x)
def sinHav (h : α) : α := two * sqrt (abs h)
def havSin (x : α) : α := let x2 := x * x; x2 / (one + sqrt (one - x2)) * half
def distanceHav (lat1 lon1 lat2 lon2 : α) : α :=
  hav (lat1 - lat2) + hav (lon1 - lon2) * cos lat1 * cos lat2
def sinSum (x y : α) : α :=
  let a := sqrt (x * (one - x))
  let b := sqrt (y * (one - y))
  two * (a + b - two * (a * y + b * x))

def sinDeltaBearing (lat1 lon1 lat2 lon2 lat0 lon0 : α) : α :=
  let sinLat1 := sin lat1
  let cosLat2 := cos lat2
  let cosLat3 := cos lat0
  let lat01 := lat0 - lat1
  let lon01 := lon0 - lon1
  let lat21 := lat2 - lat1
  let lon21 := lon2 - lon1
  let a := sin lon01 * cosLat3
  let c := sin lon21 * cosLat2
  let b := sin lat01 + two * sinLat1 * cosLat3 * hav lon01
  let d := sin lat21 + two * sinLat1 * cosLat2 * hav lon21
  let denom := (a * a + b * b) * (c * c + d * d)
  if le denom zero then one else (a * d - b * c) / sqrt denom

def distanceHaversin (lat1 lon1 lat2 lon2 radius : α) : α :=
  invHav (distanceHav lat1 lon1 lat2 lon2) * radius

/-- equirect.go -/
def distanceEquirect (lat1 lon1 lat2 lon2 radius : α) : α :=
  let x := (lon2 - lon1) * cos ((lat2 + lat1) * half)
  let y := lat2 - lat1
  sqrt (x * x + y * y) * radius

/-- the quantities `onLineRadians` compares (they do not depend on the tolerance) -/
structure OnLineQ (α : Type) where
  d01 : α
  d02 : α
  track : α
  term : α
  d12 : α
  fin : Bool          -- the final sinSum test (only used when d12 ≥ 0.74)
  bigSegment : Bool   -- ¬ (d12 < 0.74)

def onLineQ (lat0 lon0 lat1 lon1 lat2 lon2 : α) : OnLineQ α :=
  let d01 := distanceHav lat0 lon0 lat1 lon1
  let d02 := distanceHav lat0 lon0 lat2 lon2
  let bearing := sinDeltaBearing lat1 lon1 lat2 lon2 lat0 lon0
  let track := havSin (sinHav d01 * bearing)
  let d12 := distanceHav lat1 lon1 lat2 lon2
  let term := d12 + track * (one - two * d12)
  let cosTrack := one - two * track
  { d01 := d01, d02 := d02, track := track, term := term, d12 := d12,
    fin := lt zero (sinSum ((d01 - track) / cosTrack) ((d02 - track) / cosTrack)),
    bigSegment := !(lt d12 (ofDec 74 2)) }

/-- the decision skeleton of `onLineRadians`, separated from the quantities -/
def onLineDecide (le' : α → α → Bool) (havTol : α) (q : OnLineQ α) : Bool :=
  if le' q.d01 havTol then true
  else if le' q.d02 havTol then true
  else if !(le' q.track havTol) then false
  else if !(le' q.d01 q.term) || !(le' q.d02 q.term) then false
  else if !q.bigSegment then true
  else q.fin

/-- `Processor.OnLine` (degrees) with tolerance and radius -/
def onLine (tol radius lat0 lon0 lat1 lon1 lat2 lon2 : α) : Bool :=
  let havTol := hav (tol / radius)
  onLineDecide le havTol
    (onLineQ (lat0 * radians) (lon0 * radians) (lat1 * radians) (lon1 * radians) (lat2 * radians) (lon2 * radians))

/-- `Processor.DistanceToLine` (degrees) -/
def distanceToLine (radius pLat pLon sLat sLon eLat eLon : α) : α :=
  let pointLat := pLat * radians
  let pointLon := pLon * radians
  let startLat := sLat * radians
  let startLon := sLon * radians
  let endLat := eLat * radians
  let endLon := eLon * radians
  if le startLat endLat && le endLat startLat && le startLon endLon && le endLon startLon then
    distanceHaversin pointLat pointLon endLat endLon radius
  else
    -- same geometry as onLineRadians: cross-track haversine inside the segment, closer end outside
    let q := onLineQ pointLat pointLon startLat startLon endLat endLon
    if lt q.term q.d01 || lt q.term q.d02 then
      invHav (if lt q.d02 q.d01 then q.d02 else q.d01) * radius
    else invHav q.track * radius

/-- `Processor.Distance` (degrees); `fast` selects the equirectangular method -/
def distance (fast : Bool) (radius lat1 lon1 lat2 lon2 : α) : α :=
  if fast then distanceEquirect (lat1 * radians) (lon1 * radians) (lat2 * radians) (lon2 * radians) radius
  else distanceHaversin (lat1 * radians) (lon1 * radians) (lat2 * radians) (lon2 * radians) radius

/-! ### gnomonic.go: plane geometry and decision -/

structure Vec (α : Type) where
  x : α
  y : α
  z : α

def vec2 (x y : α) : Vec α := ⟨x, y, one⟩
def cross (v w : Vec α) : Vec α :=
  ⟨v.y * w.z - v.z * w.y, v.z * w.x - v.x * w.z, v.x * w.y - v.y * w.x⟩
def normXY (v : Vec α) : α × α := (v.x / v.z, v.y / v.z)

/-- intersection of the plane lines a1–a2 and b1–b2 (Hartley & Zisserman 2.2.1) -/
def meet (xa1 ya1 xa2 ya2 xb1 yb1 xb2 yb2 : α) : α × α :=
  normXY (cross (cross (vec2 xa1 ya1) (vec2 xa2 ya2)) (cross (vec2 xb1 yb1) (vec2 xb2 yb2)))

/-- helpers.go `sameDirection`: two azimuths (degrees) differ by less than a quarter turn -/
def sameDirection (a b : α) : Bool := lt (abs (rem360 (a - b))) (ofNat 90)

/-- the decision of `Gnomonic.Intersect` on the four azimuths `IntersectExt` returns:
    the point is reported iff it lies inside both segments -/
def intersectDecide (azia1 azia2 azib1 azib2 : α) : Bool :=
  sameDirection azia1 azia2 && sameDirection azib1 azib2

end TrackVerif.Geo
