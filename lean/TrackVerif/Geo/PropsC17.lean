import TrackVerif.Geo.RealLemmas
import TrackVerif.Geo.PropsC18
import TrackVerif.Geo.Period
/-
  C17 — Start-line detection fires exactly for positions within tolerance of the line.
  Property theorems only.  `tol_monotone` holds for any comparison (hence also for float64);
  the geometric statements are over ℝ; the guard band is precisely the floating-point slack and is
  established by sampling against an independent oracle (correspondence), not by a theorem.
-/
namespace TrackVerif.C17
open TrackVerif Geo Real

/-- enlarging the tolerance never turns a hit into a miss: the compared quantities do not depend on
    the tolerance, so any comparison `le'` with `x ≤ t₁ → x ≤ t₂` gives monotonicity — in particular
    float64 `<=` on non-NaN values -/
theorem tol_monotone {α : Type} (le' : α → α → Bool) (t1 t2 : α) (q : OnLineQ α)
    (htrans : ∀ x, le' x t1 = true → le' x t2 = true)
    (h : onLineDecide le' t1 q = true) : onLineDecide le' t2 q = true := by
  unfold onLineDecide at h ⊢
  by_cases h1 : le' q.d01 t1 = true
  · simp [htrans _ h1]
  · simp only [h1, Bool.false_eq_true, if_false] at h
    by_cases h2 : le' q.d02 t1 = true
    · by_cases h1' : le' q.d01 t2 = true
      · simp [h1']
      · simp [h1', htrans _ h2]
    · simp only [h2, Bool.false_eq_true, if_false] at h
      by_cases h3 : le' q.track t1 = true
      · simp only [h3, Bool.not_true, Bool.false_eq_true, if_false] at h
        have h3' := htrans _ h3
        by_cases h1' : le' q.d01 t2 = true
        · simp [h1']
        · by_cases h2' : le' q.d02 t2 = true
          · simp [h1', h2']
          · simp only [h1', h2', h3', Bool.false_eq_true, if_false, Bool.not_true]
            exact h
      · simp [h3] at h

/-- the haversine tolerance grows with the tolerance (tolerances up to half the circumference) -/
theorem havTol_monotone (t1 t2 r : ℝ) (hr : 0 < r) (h0 : 0 ≤ t1) (h12 : t1 ≤ t2) (hπ : t2 ≤ π * r) :
    hav (t1 / r) ≤ hav (t2 / r) := by
  apply hav_mono (div_nonneg h0 hr.le) (div_le_div_of_nonneg_right h12 hr.le)
  rw [div_le_iff₀ hr]; exact hπ

/-- end caps: the first two tests compare the great-circle distance to an end point with the
    tolerance — position within `tol` of an end point ⇒ on the line -/
theorem end_cap_iff (p0 l0 p1 l1 tol r : ℝ) (hr : 0 < r) (h0 : 0 ≤ tol) (hπ : tol ≤ π * r) :
    distanceHav p0 l0 p1 l1 ≤ hav (tol / r) ↔ C18.gcAngle p0 l0 p1 l1 * r ≤ tol := by
  obtain ⟨hlo, hhi⟩ := dot_bounds p0 l0 p1 l1
  have hθ0 := Real.arccos_nonneg (Real.sin p0 * Real.sin p1 + Real.cos p0 * Real.cos p1 * Real.cos (l0 - l1))
  have hθπ := Real.arccos_le_pi (Real.sin p0 * Real.sin p1 + Real.cos p0 * Real.cos p1 * Real.cos (l0 - l1))
  have hd : distanceHav p0 l0 p1 l1 = hav (C18.gcAngle p0 l0 p1 l1) := by
    rw [distanceHav_chord, hav_eq_cos, C18.gcAngle, Real.cos_arccos hlo hhi]
  have ht0 : 0 ≤ tol / r := div_nonneg h0 hr.le
  have htπ : tol / r ≤ π := by rw [div_le_iff₀ hr]; exact hπ
  rw [hd]
  constructor
  · intro h
    by_contra hc
    rw [not_le] at hc
    have : tol / r < C18.gcAngle p0 l0 p1 l1 := by rw [div_lt_iff₀ hr]; exact hc
    have := hav_strictMono ht0 this hθπ
    linarith
  · intro h
    apply hav_mono hθ0 _ htπ
    rw [le_div_iff₀ hr]; exact h

theorem end_caps (tol : ℝ) (q : OnLineQ ℝ) (h : q.d01 ≤ tol ∨ q.d02 ≤ tol) :
    onLineDecide (fun a b => decide (a ≤ b)) tol q = true := by
  unfold onLineDecide
  rcases h with h | h
  · simp [h]
  · by_cases h1 : q.d01 ≤ tol <;> simp [h1, h]

/-- end to end, in degrees as the API takes them: a position whose great-circle distance to either
    end of the line is within the tolerance is on the line — whatever the rest of the geometry,
    in particular for a position that IS an end of the line and for a line that is a single point -/
theorem near_an_end_is_hit (tol r lat0 lon0 lat1 lon1 lat2 lon2 : ℝ) (hr : 0 < r) (h0 : 0 ≤ tol)
    (hπ : tol ≤ π * r)
    (h : C18.gcAngle (lat0 * radians) (lon0 * radians) (lat1 * radians) (lon1 * radians) * r ≤ tol ∨
         C18.gcAngle (lat0 * radians) (lon0 * radians) (lat2 * radians) (lon2 * radians) * r ≤ tol) :
    onLine tol r lat0 lon0 lat1 lon1 lat2 lon2 = true := by
  unfold onLine
  apply end_caps
  rcases h with h | h
  · exact Or.inl ((end_cap_iff _ _ _ _ tol r hr h0 hπ).mpr h)
  · exact Or.inr ((end_cap_iff _ _ _ _ tol r hr h0 hπ).mpr h)

/-- a reading taken at one of the markers is on the line, for every tolerance and radius -/
theorem position_at_an_end_is_hit (tol r lat1 lon1 lat2 lon2 : ℝ) :
    onLine tol r lat1 lon1 lat1 lon1 lat2 lon2 = true ∧ onLine tol r lat2 lon2 lat1 lon1 lat2 lon2 = true := by
  have hz : ∀ p l : ℝ, distanceHav p l p l = 0 := by
    intro p l; simp [distanceHav, hav_real]
  constructor
  · unfold onLine
    apply end_caps
    left
    show distanceHav _ _ _ _ ≤ hav (tol / r)
    rw [hz]; exact hav_nonneg _
  · unfold onLine
    apply end_caps
    right
    show distanceHav _ _ _ _ ≤ hav (tol / r)
    rw [hz]; exact hav_nonneg _

/-- positions whose cross-track term exceeds the tolerance and that are outside both end caps are
    never on the line -/
theorem far_cross_track (tol : ℝ) (q : OnLineQ ℝ) (h1 : tol < q.d01) (h2 : tol < q.d02) (h3 : tol < q.track) :
    onLineDecide (fun a b => decide (a ≤ b)) tol q = false := by
  unfold onLineDecide
  simp [not_le.mpr h1, not_le.mpr h2, not_le.mpr h3]

/-- `havSin x = hav (arcsin x)` for |x| ≤ 1 (the helper's documentation, exactly) -/
theorem havSin_eq (x : ℝ) (hx : |x| ≤ 1) : havSin x = hav (Real.arcsin x) := by
  have hx1 : -1 ≤ x := by linarith [neg_abs_le x]
  have hx2 : x ≤ 1 := by linarith [le_abs_self x]
  have hsq : x ^ 2 ≤ 1 := by nlinarith [abs_nonneg x, sq_abs x]
  rw [hav_eq_cos, Real.cos_arcsin]
  show x * x / (((1 : ℕ) : ℝ) + Real.sqrt (((1 : ℕ) : ℝ) - x * x)) * (((5 : ℕ) : ℝ) / 10 ^ 1) = _
  have hs : 0 ≤ Real.sqrt (1 - x ^ 2) := Real.sqrt_nonneg _
  have hss : Real.sqrt (1 - x ^ 2) ^ 2 = 1 - x ^ 2 := Real.sq_sqrt (by linarith)
  have hne : (1 : ℝ) + Real.sqrt (1 - x ^ 2) ≠ 0 := by linarith
  have e1 : (((1 : ℕ) : ℝ)) = 1 := by norm_num
  have e2 : x * x = x ^ 2 := by ring
  have e3 : (((5 : ℕ) : ℝ) / 10 ^ 1) = 1 / 2 := by norm_num
  rw [e1, e2, e3]
  generalize Real.sqrt (1 - x ^ 2) = s at hs hss hne
  have hfac : x ^ 2 = (1 - s) * (1 + s) := by nlinarith [hss]
  rw [hfac, mul_div_assoc, div_self hne]
  ring

/-- the end-cap tests and the along-track bound are symmetric in the order of the line's end
    points: swapping (1) and (2) swaps d01/d02 and leaves d12 unchanged -/
theorem endpoint_symmetry_partial (p0 l0 p1 l1 p2 l2 : ℝ) :
    (onLineQ p0 l0 p1 l1 p2 l2).d01 = (onLineQ p0 l0 p2 l2 p1 l1).d02 ∧
    (onLineQ p0 l0 p1 l1 p2 l2).d02 = (onLineQ p0 l0 p2 l2 p1 l1).d01 ∧
    (onLineQ p0 l0 p1 l1 p2 l2).d12 = (onLineQ p0 l0 p2 l2 p1 l1).d12 := by
  refine ⟨rfl, rfl, ?_⟩
  show distanceHav p1 l1 p2 l2 = distanceHav p2 l2 p1 l1
  exact distanceHav_symm _ _ _ _

/-- longitudes are periodic in 360 degrees and in nothing else the decision could see: adding
    whole turns to any of the three longitudes, independently, changes nothing — a line at the
    180th meridian, or one whose ends are written in different conventions (-180…180 and 0…360),
    is a line like any other -/
theorem longitude_period (tol r lat0 lon0 lat1 lon1 lat2 lon2 : ℝ) (k0 k1 k2 : ℤ) :
    onLine tol r lat0 (lon0 + k0 * 360) lat1 (lon1 + k1 * 360) lat2 (lon2 + k2 * 360) =
      onLine tol r lat0 lon0 lat1 lon1 lat2 lon2 := by
  unfold onLine
  simp only [rl_mul, deg_turns, onLineQ_turns]

/-- the origin of longitude is irrelevant: moving the line and the position together around the
    polar axis by any angle δ (not only whole or half turns) leaves the decision unchanged -/
theorem longitude_origin (tol r lat0 lon0 lat1 lon1 lat2 lon2 δ : ℝ) :
    onLine tol r lat0 (lon0 + δ) lat1 (lon1 + δ) lat2 (lon2 + δ) =
      onLine tol r lat0 lon0 lat1 lon1 lat2 lon2 := by
  unfold onLine
  simp only [rl_mul, deg_shift, onLineQ_shift]

end TrackVerif.C17
