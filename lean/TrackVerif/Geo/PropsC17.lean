import TrackVerif.Geo.RealLemmas
import TrackVerif.Geo.PropsC18
import TrackVerif.Geo.Period
/-
  C17 — Start-line detection fires exactly for positions within tolerance of the line.
  Property theorems only.  `tol_monotone` holds for any comparison (hence also for float64);
  the geometric statements are over ℝ; the guard band is precisely the floating-point slack and is
  established by sampling against an independent oracle (correspondence), not by a theorem.
-/
namespace TrackVerif.C17
open TrackVerif Geo Real

/-- enlarging the tolerance never turns a hit into a miss: the compared quantities do not depend on
    the tolerance, so any comparison `le'` with `x ≤ t₁ → x ≤ t₂` gives monotonicity — in particular
    float64 `<=` on non-NaN values -/
theorem tol_monotone {α : Type} (le' : α → α → Bool) (t1 t2 : α) (q : OnLineQ α)
    (htrans : ∀ x, le' x t1 = true → le' x t2 = true)
    (h : onLineDecide le' t1 q = true) : onLineDecide le' t2 q = true := by
  unfold onLineDecide at h ⊢
  by_cases h1 : le' q.d01 t1 = true
  · simp [htrans _ h1]
  · simp only [h1, Bool.false_eq_true, if_false] at h
    by_cases h2 : le' q.d02 t1 = true
    · by_cases h1' : le' q.d01 t2 = true
      · simp [h1']
      · simp [h1', htrans _ h2]
    · simp only [h2, Bool.false_eq_true, if_false] at h
      by_cases h3 : le' q.track t1 = true
      · simp only [h3, Bool.not_true, Bool.false_eq_true, if_false] at h
        have h3' := htrans _ h3
        by_cases h1' : le' q.d01 t2 = true
        · simp [h1']
        · by_cases h2' : le' q.d02 t2 = true
          · simp [h1', h2']
          · simp only [h1', h2', h3', Bool.false_eq_true, if_false, Bool.not_true]
            exact h
      · simp [h3] at h

/-- the haversine tolerance grows with the tolerance (tolerances up to half the circumference) -/
theorem havTol_monotone (t1 t2 r : ℝ) (hr : 0 < r) (h0 : 0 ≤ t1) (h12 : t1 ≤ t2) (hπ : t2 ≤ π * r) :
    hav (t1 / r) ≤ hav (t2 / r) := by
  apply hav_mono (div_nonneg h0 hr.le) (div_le_div_of_nonneg_right h12 hr.le)
  rw [div_le_iff₀ hr]; exact hπ

/-- end caps: the first two tests compare the great-circle distance to an end point with the
    tolerance — position within `tol` of an end point ⇒ on the line -/
theorem end_cap_iff (p0 l0 p1 l1 tol r : ℝ) (hr : 0 < r) (h0 : 0 ≤ tol) (hπ : tol ≤ π * r) :
    distanceHav p0 l0 p1 l1 ≤ hav (tol / r) ↔ C18.gcAngle p0 l0 p1 l1 * r ≤ tol := by
  obtain ⟨hlo, hhi⟩ := dot_bounds p0 l0 p1 l1
  have hθ0 := Real.arccos_nonneg (Real.sin p0 * Real.sin p1 + Real.cos p0 * Real.cos p1 * Real.cos (l0 - l1))
  have hθπ := Real.arccos_le_pi (Real.sin p0 * Real.sin p1 + Real.cos p0 * Real.cos p1 * Real.cos (l0 - l1))
  have hd : distanceHav p0 l0 p1 l1 = hav (C18.gcAngle p0 l0 p1 l1) := by
    rw [distanceHav_chord, hav_eq_cos, C18.gcAngle, Real.cos_arccos hlo hhi]
  have ht0 : 0 ≤ tol / r := div_nonneg h0 hr.le
  have htπ : tol / r ≤ π := by rw [div_le_iff₀ hr]; exact hπ
  rw [hd]
  constructor
  · intro h
    by_contra hc
    rw [not_le] at hc
    have : tol / r < C18.gcAngle p0 l0 p1 l1 := by rw [div_lt_iff₀ hr]; exact hc
    have := hav_strictMono ht0 this hθπ
    linarith
  · intro h
    apply hav_mono hθ0 _ htπ
    rw [le_div_iff₀ hr]; exact h

theorem end_caps (tol : ℝ) (q : OnLineQ ℝ) (h : q.d01 ≤ tol ∨ q.d02 ≤ tol) :
    onLineDecide (fun a b => decide (a ≤ b)) tol q = true := by
  unfold onLineDecide
  rcases h with h | h
  · simp [h]
  · by_cases h1 : q.d01 ≤ tol <;> simp [h1, h]

/-- end to end, in degrees as the API takes them: a position whose great-circle distance to either
    end of the line is within the tolerance is on the line — whatever the rest of the geometry,
    in particular for a position that IS an end of the line and for a line that is a single point -/
theorem near_an_end_is_hit (tol r lat0 lon0 lat1 lon1 lat2 lon2 : ℝ) (hr : 0 < r) (h0 : 0 ≤ tol)
    (hπ : tol ≤ π * r)
    (h : C18.gcAngle (lat0 * radians) (lon0 * radians) (lat1 * radians) (lon1 * radians) * r ≤ tol ∨
         C18.gcAngle (lat0 * radians) (lon0 * radians) (lat2 * radians) (lon2 * radians) * r ≤ tol) :
    onLine tol r lat0 lon0 lat1 lon1 lat2 lon2 = true := by
  unfold onLine
  apply end_caps
  rcases h with h | h
  · exact Or.inl ((end_cap_iff _ _ _ _ tol r hr h0 hπ).mpr h)
  · exact Or.inr ((end_cap_iff _ _ _ _ tol r hr h0 hπ).mpr h)

/-- a reading taken at one of the markers is on the line, for every tolerance and radius -/
theorem position_at_an_end_is_hit (tol r lat1 lon1 lat2 lon2 : ℝ) :
    onLine tol r lat1 lon1 lat1 lon1 lat2 lon2 = true ∧ onLine tol r lat2 lon2 lat1 lon1 lat2 lon2 = true := by
  have hz : ∀ p l : ℝ, distanceHav p l p l = 0 := by
    intro p l; simp [distanceHav, hav_real]
  constructor
  · unfold onLine
    apply end_caps
    left
    show distanceHav _ _ _ _ ≤ hav (tol / r)
    rw [hz]; exact hav_nonneg _
  · unfold onLine
    apply end_caps
    right
    show distanceHav _ _ _ _ ≤ hav (tol / r)
    rw [hz]; exact hav_nonneg _

/-- a position on the great circle of the line (zero bearing difference seen from the first end)
    has zero cross-track term -/
theorem on_the_great_circle_track_zero (p0 l0 p1 l1 p2 l2 : ℝ)
    (h : sinDeltaBearing p1 l1 p2 l2 p0 l0 = 0) : (onLineQ p0 l0 p1 l1 p2 l2).track = 0 := by
  show havSin (sinHav (distanceHav p0 l0 p1 l1) * sinDeltaBearing p1 l1 p2 l2 p0 l0) = 0
  rw [h]
  simp [havSin, half]

/-- **on the line itself**: a position on the line's great circle that is no farther from either end
    than the ends are from each other — i.e. between them — is on the line for EVERY tolerance,
    zero included (lines shorter than ~118°, which is every line the property speaks about) -/
theorem on_the_segment_is_hit (tol r lat0 lon0 lat1 lon1 lat2 lon2 : ℝ)
    (hgc : sinDeltaBearing (lat1 * radians) (lon1 * radians) (lat2 * radians) (lon2 * radians)
      (lat0 * radians) (lon0 * radians) = 0)
    (h1 : distanceHav (lat0 * radians) (lon0 * radians) (lat1 * radians) (lon1 * radians) ≤
      distanceHav (lat1 * radians) (lon1 * radians) (lat2 * radians) (lon2 * radians))
    (h2 : distanceHav (lat0 * radians) (lon0 * radians) (lat2 * radians) (lon2 * radians) ≤
      distanceHav (lat1 * radians) (lon1 * radians) (lat2 * radians) (lon2 * radians))
    (hshort : distanceHav (lat1 * radians) (lon1 * radians) (lat2 * radians) (lon2 * radians) < 74 / 100) :
    onLine tol r lat0 lon0 lat1 lon1 lat2 lon2 = true := by
  have htr := on_the_great_circle_track_zero _ _ _ _ _ _ hgc
  unfold onLine
  generalize hq : onLineQ (lat0 * radians) (lon0 * radians) (lat1 * radians) (lon1 * radians)
    (lat2 * radians) (lon2 * radians) = q at htr
  have hd01 : q.d01 = distanceHav (lat0 * radians) (lon0 * radians) (lat1 * radians) (lon1 * radians) := by
    rw [← hq]; rfl
  have hd02 : q.d02 = distanceHav (lat0 * radians) (lon0 * radians) (lat2 * radians) (lon2 * radians) := by
    rw [← hq]; rfl
  have hd12 : q.d12 = distanceHav (lat1 * radians) (lon1 * radians) (lat2 * radians) (lon2 * radians) := by
    rw [← hq]; rfl
  have hterm : q.term = q.d12 := by
    have : q.term = q.d12 + q.track * (one - two * q.d12) := by rw [← hq]; rfl
    rw [this, htr]; simp
  have hbig : q.bigSegment = false := by
    have : q.bigSegment = !(RealLike.lt q.d12 (RealLike.ofDec 74 2)) := by rw [← hq]; rfl
    rw [this, hd12]
    simp only [rl_lt, rl_ofDec]
    simp
    have e : ((74 : ℝ) / 10 ^ 2) = 74 / 100 := by norm_num
    rw [e]; exact hshort
  have hnn : 0 ≤ hav (tol / r) := hav_nonneg _
  unfold onLineDecide
  simp only [rl_le, htr, hterm, hbig, hd01, hd02, hd12, h1, h2, hnn, decide_true, Bool.not_true,
    Bool.or_self, Bool.false_eq_true, if_false, Bool.not_false, if_true]
  split <;> simp_all

/-- … and beyond an end it is not: a position on the line's great circle that is farther from the
    first end than the line is long (beyond the second end), and farther than the tolerance from
    both ends, is never on the line — whatever its cross-track term (zero) says -/
theorem beyond_the_end_is_miss (tol r lat0 lon0 lat1 lon1 lat2 lon2 : ℝ)
    (hgc : sinDeltaBearing (lat1 * radians) (lon1 * radians) (lat2 * radians) (lon2 * radians)
      (lat0 * radians) (lon0 * radians) = 0)
    (hbeyond : distanceHav (lat1 * radians) (lon1 * radians) (lat2 * radians) (lon2 * radians) <
      distanceHav (lat0 * radians) (lon0 * radians) (lat1 * radians) (lon1 * radians))
    (hf1 : hav (tol / r) < distanceHav (lat0 * radians) (lon0 * radians) (lat1 * radians) (lon1 * radians))
    (hf2 : hav (tol / r) < distanceHav (lat0 * radians) (lon0 * radians) (lat2 * radians) (lon2 * radians)) :
    onLine tol r lat0 lon0 lat1 lon1 lat2 lon2 = false := by
  have htr := on_the_great_circle_track_zero _ _ _ _ _ _ hgc
  unfold onLine
  generalize hq : onLineQ (lat0 * radians) (lon0 * radians) (lat1 * radians) (lon1 * radians)
    (lat2 * radians) (lon2 * radians) = q at htr
  have hd01 : q.d01 = distanceHav (lat0 * radians) (lon0 * radians) (lat1 * radians) (lon1 * radians) := by
    rw [← hq]; rfl
  have hd02 : q.d02 = distanceHav (lat0 * radians) (lon0 * radians) (lat2 * radians) (lon2 * radians) := by
    rw [← hq]; rfl
  have hd12 : q.d12 = distanceHav (lat1 * radians) (lon1 * radians) (lat2 * radians) (lon2 * radians) := by
    rw [← hq]; rfl
  have hterm : q.term = q.d12 := by
    have : q.term = q.d12 + q.track * (one - two * q.d12) := by rw [← hq]; rfl
    rw [this, htr]; simp
  have hnn : 0 ≤ hav (tol / r) := hav_nonneg _
  unfold onLineDecide
  simp only [rl_le, htr, hterm, hd01, hd02, hd12, not_le.mpr hf1, not_le.mpr hf2, not_le.mpr hbeyond, hnn,
    decide_false, decide_true, Bool.false_eq_true, if_false, Bool.not_true, Bool.not_false, Bool.true_or, if_true]

/-- non-vacuity of the premise: along the equator (radians), a position between two ends less than
    half a turn apart is on the line's great circle -/
theorem equator_on_great_circle (l0 l1 l2 : ℝ) (h01 : 0 < l0 - l1) (h01' : l0 - l1 < π)
    (h21 : 0 < l2 - l1) (h21' : l2 - l1 < π) : sinDeltaBearing 0 l1 0 l2 0 l0 = 0 := by
  have ha : 0 < Real.sin (l0 - l1) := Real.sin_pos_of_pos_of_lt_pi h01 h01'
  have hc : 0 < Real.sin (l2 - l1) := Real.sin_pos_of_pos_of_lt_pi h21 h21'
  unfold sinDeltaBearing
  simp only [rl_sin, rl_cos, rl_sub, rl_mul, Real.sin_zero, Real.cos_zero, sub_self, mul_one,
    mul_zero, zero_mul, add_zero, zero, one, two, rl_ofNat, Nat.cast_zero, rl_le, rl_div, rl_sqrt]
  have hden : ¬ (Real.sin (l0 - l1) * Real.sin (l0 - l1) * (Real.sin (l2 - l1) * Real.sin (l2 - l1)) ≤ 0) := by
    have : 0 < Real.sin (l0 - l1) * Real.sin (l0 - l1) * (Real.sin (l2 - l1) * Real.sin (l2 - l1)) := by positivity
    linarith
  simp [hden]

/-- positions whose cross-track term exceeds the tolerance and that are outside both end caps are
    never on the line -/
theorem far_cross_track (tol : ℝ) (q : OnLineQ ℝ) (h1 : tol < q.d01) (h2 : tol < q.d02) (h3 : tol < q.track) :
    onLineDecide (fun a b => decide (a ≤ b)) tol q = false := by
  unfold onLineDecide
  simp [not_le.mpr h1, not_le.mpr h2, not_le.mpr h3]

/-- where the small-angle product `sinHav d01 · bearing` exceeds 1 — a position more than a sixth of
    a turn from the line's first end and abeam of it — the cross track has no haversine; in the real
    model the square root of the negative number is 0 and the term comes out above one half … -/
theorem havSin_beyond_one (s : ℝ) (hs : 1 < |s|) : 1 / 2 < havSin s := by
  have hs2 : 1 < s * s := by
    have : 1 < |s| * |s| := by nlinarith [abs_nonneg s]
    rwa [abs_mul_abs_self] at this
  have hneg : 1 - s * s ≤ 0 := by linarith
  have hsq : Real.sqrt (1 - s * s) = 0 := Real.sqrt_eq_zero_of_nonpos hneg
  show (s * s) / ((1 : ℕ) + Real.sqrt (((1 : ℕ) : ℝ) - s * s)) * (((5 : ℕ) : ℝ) / 10 ^ 1) > 1 / 2
  simp only [Nat.cast_one, hsq, add_zero, div_one]
  norm_num
  linarith

/-- … so such a position, outside both end caps, is never on the line for any tolerance up to a
    quarter of the circumference. (The float64 code computes NaN there; since 3f5c8ca it answers
    "not on the line" as well — before, NaN slipped through every comparison and the answer was
    "on the line".) -/
theorem far_abeam_is_miss (tol r lat0 lon0 lat1 lon1 lat2 lon2 : ℝ)
    (hs : 1 < |sinHav (distanceHav (lat0 * radians) (lon0 * radians) (lat1 * radians) (lon1 * radians)) *
      sinDeltaBearing (lat1 * radians) (lon1 * radians) (lat2 * radians) (lon2 * radians) (lat0 * radians) (lon0 * radians)|)
    (htol : hav (tol / r) ≤ 1 / 2)
    (h1 : hav (tol / r) < distanceHav (lat0 * radians) (lon0 * radians) (lat1 * radians) (lon1 * radians))
    (h2 : hav (tol / r) < distanceHav (lat0 * radians) (lon0 * radians) (lat2 * radians) (lon2 * radians)) :
    onLine tol r lat0 lon0 lat1 lon1 lat2 lon2 = false := by
  unfold onLine
  apply far_cross_track
  · exact h1
  · exact h2
  · show hav (tol / r) < havSin _
    exact lt_of_le_of_lt htol (havSin_beyond_one _ hs)

/-- `havSin x = hav (arcsin x)` for |x| ≤ 1 (the helper's documentation, exactly) -/
theorem havSin_eq (x : ℝ) (hx : |x| ≤ 1) : havSin x = hav (Real.arcsin x) := by
  have hx1 : -1 ≤ x := by linarith [neg_abs_le x]
  have hx2 : x ≤ 1 := by linarith [le_abs_self x]
  have hsq : x ^ 2 ≤ 1 := by nlinarith [abs_nonneg x, sq_abs x]
  rw [hav_eq_cos, Real.cos_arcsin]
  show x * x / (((1 : ℕ) : ℝ) + Real.sqrt (((1 : ℕ) : ℝ) - x * x)) * (((5 : ℕ) : ℝ) / 10 ^ 1) = _
  have hs : 0 ≤ Real.sqrt (1 - x ^ 2) := Real.sqrt_nonneg _
  have hss : Real.sqrt (1 - x ^ 2) ^ 2 = 1 - x ^ 2 := Real.sq_sqrt (by linarith)
  have hne : (1 : ℝ) + Real.sqrt (1 - x ^ 2) ≠ 0 := by linarith
  have e1 : (((1 : ℕ) : ℝ)) = 1 := by norm_num
  have e2 : x * x = x ^ 2 := by ring
  have e3 : (((5 : ℕ) : ℝ) / 10 ^ 1) = 1 / 2 := by norm_num
  rw [e1, e2, e3]
  generalize Real.sqrt (1 - x ^ 2) = s at hs hss hne
  have hfac : x ^ 2 = (1 - s) * (1 + s) := by nlinarith [hss]
  rw [hfac, mul_div_assoc, div_self hne]
  ring

/-- the end-cap tests and the along-track bound are symmetric in the order of the line's end
    points: swapping (1) and (2) swaps d01/d02 and leaves d12 unchanged -/
theorem endpoint_symmetry_partial (p0 l0 p1 l1 p2 l2 : ℝ) :
    (onLineQ p0 l0 p1 l1 p2 l2).d01 = (onLineQ p0 l0 p2 l2 p1 l1).d02 ∧
    (onLineQ p0 l0 p1 l1 p2 l2).d02 = (onLineQ p0 l0 p2 l2 p1 l1).d01 ∧
    (onLineQ p0 l0 p1 l1 p2 l2).d12 = (onLineQ p0 l0 p2 l2 p1 l1).d12 := by
  refine ⟨rfl, rfl, ?_⟩
  show distanceHav p1 l1 p2 l2 = distanceHav p2 l2 p1 l1
  exact distanceHav_symm _ _ _ _

/-- longitudes are periodic in 360 degrees and in nothing else the decision could see: adding
    whole turns to any of the three longitudes, independently, changes nothing — a line at the
    180th meridian, or one whose ends are written in different conventions (-180…180 and 0…360),
    is a line like any other -/
theorem longitude_period (tol r lat0 lon0 lat1 lon1 lat2 lon2 : ℝ) (k0 k1 k2 : ℤ) :
    onLine tol r lat0 (lon0 + k0 * 360) lat1 (lon1 + k1 * 360) lat2 (lon2 + k2 * 360) =
      onLine tol r lat0 lon0 lat1 lon1 lat2 lon2 := by
  unfold onLine
  simp only [rl_mul, deg_turns, onLineQ_turns]

/-- the origin of longitude is irrelevant: moving the line and the position together around the
    polar axis by any angle δ (not only whole or half turns) leaves the decision unchanged -/
theorem longitude_origin (tol r lat0 lon0 lat1 lon1 lat2 lon2 δ : ℝ) :
    onLine tol r lat0 (lon0 + δ) lat1 (lon1 + δ) lat2 (lon2 + δ) =
      onLine tol r lat0 lon0 lat1 lon1 lat2 lon2 := by
  unfold onLine
  simp only [rl_mul, deg_shift, onLineQ_shift]

end TrackVerif.C17
