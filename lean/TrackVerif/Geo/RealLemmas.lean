import TrackVerif.Geo.Real
import Mathlib.Tactic.Ring
import Mathlib.Tactic.Linarith
import Mathlib.Tactic.FieldSimp
import Mathlib.Tactic.Positivity
/-  Helper lemmas over ℝ for C17 / C18 / C19. -/
namespace TrackVerif.Geo
open TrackVerif Real

/-- unfolding the class operations at ℝ -/
theorem hav_real (x : ℝ) : hav x = Real.sin (x / 2) ^ 2 := by
  show Real.sin (x * (((5 : ℕ) : ℝ) / 10 ^ 1)) * Real.sin (x * (((5 : ℕ) : ℝ) / 10 ^ 1)) = _
  have : x * (((5 : ℕ) : ℝ) / 10 ^ 1) = x / 2 := by norm_num; ring
  rw [this]; ring

theorem hav_eq_cos (x : ℝ) : hav x = (1 - Real.cos x) / 2 := by
  rw [hav_real, Real.sin_sq_eq_half_sub]
  have : 2 * (x / 2) = x := by ring
  rw [this]; ring

theorem hav_nonneg (x : ℝ) : 0 ≤ hav x := by rw [hav_real]; positivity

theorem hav_le_one (x : ℝ) : hav x ≤ 1 := by
  rw [hav_eq_cos]; linarith [Real.neg_one_le_cos x]

theorem hav_neg (x : ℝ) : hav (-x) = hav x := by
  rw [hav_eq_cos, hav_eq_cos, Real.cos_neg]

/-- hav is monotone on [0, π] -/
theorem hav_mono {x y : ℝ} (hx : 0 ≤ x) (hxy : x ≤ y) (hy : y ≤ π) : hav x ≤ hav y := by
  rw [hav_eq_cos, hav_eq_cos]
  have := Real.cos_le_cos_of_nonneg_of_le_pi hx hy hxy
  linarith

theorem hav_strictMono {x y : ℝ} (hx : 0 ≤ x) (hxy : x < y) (hy : y ≤ π) : hav x < hav y := by
  rw [hav_eq_cos, hav_eq_cos]
  have := Real.cos_lt_cos_of_nonneg_of_le_pi hx hy hxy
  linarith

theorem invHav_real (h : ℝ) : invHav h = 2 * Real.arcsin (Real.sqrt h) := by
  show ((2 : ℕ) : ℝ) * Real.arcsin (Real.sqrt h) = _
  norm_num

/-- invHav inverts hav on [0, π] -/
theorem invHav_hav {x : ℝ} (hx : 0 ≤ x) (hπ : x ≤ π) : invHav (hav x) = x := by
  rw [invHav_real, hav_real]
  have hs : 0 ≤ Real.sin (x / 2) := Real.sin_nonneg_of_nonneg_of_le_pi (by linarith) (by linarith)
  rw [Real.sqrt_sq hs, Real.arcsin_sin (by linarith [Real.pi_pos]) (by linarith)]
  ring

/-- the haversine formula: hav Δφ + hav Δλ · cos φ₁ · cos φ₂ = (1 − ⟨u₁,u₂⟩)/2 for the unit
    vectors of the two positions -/
theorem distanceHav_chord (p1 l1 p2 l2 : ℝ) :
    distanceHav p1 l1 p2 l2 =
      (1 - (Real.sin p1 * Real.sin p2 + Real.cos p1 * Real.cos p2 * Real.cos (l1 - l2))) / 2 := by
  have h1 : distanceHav p1 l1 p2 l2 = hav (p1 - p2) + hav (l1 - l2) * Real.cos p1 * Real.cos p2 := rfl
  rw [h1, hav_eq_cos, hav_eq_cos, Real.cos_sub p1 p2]
  ring

theorem distanceHav_symm (p1 l1 p2 l2 : ℝ) : distanceHav p1 l1 p2 l2 = distanceHav p2 l2 p1 l1 := by
  rw [distanceHav_chord, distanceHav_chord]
  have : Real.cos (l2 - l1) = Real.cos (l1 - l2) := by rw [← Real.cos_neg]; ring_nf
  rw [this]; ring

/-- ⟨u₁,u₂⟩ of two unit position vectors lies in [−1, 1] -/
theorem dot_bounds (p1 l1 p2 l2 : ℝ) :
    -1 ≤ Real.sin p1 * Real.sin p2 + Real.cos p1 * Real.cos p2 * Real.cos (l1 - l2) ∧
    Real.sin p1 * Real.sin p2 + Real.cos p1 * Real.cos p2 * Real.cos (l1 - l2) ≤ 1 := by
  have hc := Real.cos_sq_add_sin_sq p1
  have hd := Real.cos_sq_add_sin_sq p2
  have h1 := Real.neg_one_le_cos (l1 - l2)
  have h2 := Real.cos_le_one (l1 - l2)
  constructor
  · nlinarith [sq_nonneg (Real.sin p1 + Real.sin p2), sq_nonneg (Real.cos p1 - Real.cos p2),
      sq_nonneg (Real.cos p1 + Real.cos p2), mul_nonneg (sq_nonneg (Real.cos p1)) (sq_nonneg (Real.cos p2)),
      sq_abs (Real.cos p1 * Real.cos p2), abs_mul_abs_self (Real.cos p1 * Real.cos p2),
      mul_le_mul_of_nonneg_left h2 (abs_nonneg (Real.cos p1 * Real.cos p2)),
      neg_abs_le (Real.cos p1 * Real.cos p2), le_abs_self (Real.cos p1 * Real.cos p2)]
  · nlinarith [sq_nonneg (Real.sin p1 - Real.sin p2), sq_nonneg (Real.cos p1 - Real.cos p2),
      sq_nonneg (Real.cos p1 + Real.cos p2), neg_abs_le (Real.cos p1 * Real.cos p2),
      le_abs_self (Real.cos p1 * Real.cos p2)]

end TrackVerif.Geo
