import TrackVerif.Geo.RealLemmas
import TrackVerif.Geo.Period
/-
  C18 — Point-to-point and point-to-line distances match great-circle geometry.
  Property theorems only (over ℝ; float64 rounding is outside the theorems and is sampled).
-/
namespace TrackVerif.C18
open TrackVerif Geo Real

/-- the great-circle angle between two positions: arccos ⟨u₁,u₂⟩ -/
noncomputable def gcAngle (p1 l1 p2 l2 : ℝ) : ℝ :=
  Real.arccos (Real.sin p1 * Real.sin p2 + Real.cos p1 * Real.cos p2 * Real.cos (l1 - l2))

theorem distanceHaversin_real (p1 l1 p2 l2 r : ℝ) :
    distanceHaversin p1 l1 p2 l2 r = invHav (distanceHav p1 l1 p2 l2) * r := rfl

/-- the default method returns exactly radius × great-circle angle -/
theorem distance_is_great_circle (p1 l1 p2 l2 r : ℝ) :
    distanceHaversin p1 l1 p2 l2 r = gcAngle p1 l1 p2 l2 * r := by
  rw [distanceHaversin_real]
  congr 1
  obtain ⟨hlo, hhi⟩ := dot_bounds p1 l1 p2 l2
  have hθ0 := Real.arccos_nonneg (Real.sin p1 * Real.sin p2 + Real.cos p1 * Real.cos p2 * Real.cos (l1 - l2))
  have hθπ := Real.arccos_le_pi (Real.sin p1 * Real.sin p2 + Real.cos p1 * Real.cos p2 * Real.cos (l1 - l2))
  have : distanceHav p1 l1 p2 l2 = hav (gcAngle p1 l1 p2 l2) := by
    rw [distanceHav_chord, hav_eq_cos, gcAngle, Real.cos_arccos hlo hhi]
  rw [this]
  exact invHav_hav (x := gcAngle p1 l1 p2 l2) hθ0 hθπ

/-- symmetric in the two positions -/
theorem distance_symmetric (p1 l1 p2 l2 r : ℝ) :
    distanceHaversin p1 l1 p2 l2 r = distanceHaversin p2 l2 p1 l1 r := by
  rw [distanceHaversin_real, distanceHaversin_real, distanceHav_symm]

/-- scales linearly with the radius -/
theorem distance_linear_in_radius (p1 l1 p2 l2 r k : ℝ) :
    distanceHaversin p1 l1 p2 l2 (k * r) = k * distanceHaversin p1 l1 p2 l2 r := by
  rw [distanceHaversin_real, distanceHaversin_real]; ring

/-- zero exactly when the two positions are the same point of the sphere (r ≠ 0) -/
theorem distance_zero_iff (p1 l1 p2 l2 r : ℝ) (hr : r ≠ 0) :
    distanceHaversin p1 l1 p2 l2 r = 0 ↔
      Real.sin p1 * Real.sin p2 + Real.cos p1 * Real.cos p2 * Real.cos (l1 - l2) = 1 := by
  rw [distance_is_great_circle]
  obtain ⟨hlo, hhi⟩ := dot_bounds p1 l1 p2 l2
  constructor
  · intro h
    have h0 : gcAngle p1 l1 p2 l2 = 0 := by
      rcases mul_eq_zero.mp h with h | h
      · exact h
      · exact absurd h hr
    have := Real.arccos_eq_zero.mp h0
    linarith
  · intro h
    have : gcAngle p1 l1 p2 l2 = 0 := by rw [gcAngle, h, Real.arccos_one]
    rw [this]; ring

/-- identical coordinates give distance 0 -/
theorem distance_self (p l r : ℝ) : distanceHaversin p l p l r = 0 := by
  rw [distanceHaversin_real, distanceHav_chord]
  have : Real.sin p * Real.sin p + Real.cos p * Real.cos p * Real.cos (l - l) = 1 := by
    rw [sub_self, Real.cos_zero]; nlinarith [Real.sin_sq_add_cos_sq p]
  rw [this, invHav_real]
  norm_num

theorem distanceEquirect_real (p1 l1 p2 l2 r : ℝ) :
    distanceEquirect p1 l1 p2 l2 r =
      Real.sqrt (((l2 - l1) * Real.cos ((p2 + p1) / 2)) ^ 2 + (p2 - p1) ^ 2) * r := by
  show Real.sqrt (((l2 - l1) * Real.cos ((p2 + p1) * (((5 : ℕ) : ℝ) / 10 ^ 1))) *
      ((l2 - l1) * Real.cos ((p2 + p1) * (((5 : ℕ) : ℝ) / 10 ^ 1))) + (p2 - p1) * (p2 - p1)) * r = _
  have : (p2 + p1) * (((5 : ℕ) : ℝ) / 10 ^ 1) = (p2 + p1) / 2 := by norm_num; ring
  rw [this]; ring_nf

/-- the fast method is symmetric and linear in the radius -/
theorem equirect_symmetric (p1 l1 p2 l2 r : ℝ) :
    distanceEquirect p1 l1 p2 l2 r = distanceEquirect p2 l2 p1 l1 r := by
  rw [distanceEquirect_real, distanceEquirect_real]
  have h1 : (p1 + p2) / 2 = (p2 + p1) / 2 := by ring
  rw [h1]
  congr 2
  ring

theorem equirect_linear_in_radius (p1 l1 p2 l2 r k : ℝ) :
    distanceEquirect p1 l1 p2 l2 (k * r) = k * distanceEquirect p1 l1 p2 l2 r := by
  rw [distanceEquirect_real, distanceEquirect_real]; ring

/-- the fast method is exact along a meridian -/
theorem equirect_meridian (p1 p2 l r : ℝ) :
    distanceEquirect p1 l p2 l r = |p2 - p1| * r := by
  rw [distanceEquirect_real]
  simp [Real.sqrt_sq_eq_abs]

/-- the default (haversine) distance in degrees sees longitudes only up to whole turns of 360 … -/
theorem distance_longitude_period (r lat1 lon1 lat2 lon2 : ℝ) (k1 k2 : ℤ) :
    distance false r lat1 (lon1 + k1 * 360) lat2 (lon2 + k2 * 360) = distance false r lat1 lon1 lat2 lon2 := by
  unfold distance distanceHaversin
  simp only [Bool.false_eq_true, if_false, rl_mul, deg_turns, distanceHav_turns]

/-- … and both methods only through the difference of the two longitudes -/
theorem distance_longitude_origin (fast : Bool) (r lat1 lon1 lat2 lon2 δ : ℝ) :
    distance fast r lat1 (lon1 + δ) lat2 (lon2 + δ) = distance fast r lat1 lon1 lat2 lon2 := by
  unfold distance distanceHaversin distanceEquirect
  have h : (lon2 + δ) * (radians : ℝ) - (lon1 + δ) * radians = lon2 * radians - lon1 * radians := by ring
  cases fast
  · simp only [Bool.false_eq_true, if_false, rl_mul, rl_add, deg_shift, distanceHav_shift]
  · simp only [if_true, rl_mul, rl_add, rl_sub, h]

/-- the distance to a line does not depend on the origin of longitude either (the test for a line
    that is a single point compares the ends with each other, which a common shift preserves) -/
theorem distanceToLine_longitude_origin (r pLat pLon sLat sLon eLat eLon δ : ℝ) :
    distanceToLine r pLat (pLon + δ) sLat (sLon + δ) eLat (eLon + δ) =
      distanceToLine r pLat pLon sLat sLon eLat eLon := by
  unfold distanceToLine distanceHaversin
  have h1 : (sLon * (radians : ℝ) + δ * radians ≤ eLon * radians + δ * radians) ↔ (sLon * (radians : ℝ) ≤ eLon * radians) :=
    add_le_add_iff_right _
  have h2 : (eLon * (radians : ℝ) + δ * radians ≤ sLon * radians + δ * radians) ↔ (eLon * (radians : ℝ) ≤ sLon * radians) :=
    add_le_add_iff_right _
  simp only [rl_mul, rl_le, deg_shift, h1, h2, distanceHav_shift, onLineQ_shift]

/-- a line that is a single point (a marker post): the distance to it is the distance to the point -/
theorem line_that_is_a_point (r pLat pLon sLat sLon : ℝ) :
    distanceToLine r pLat pLon sLat sLon sLat sLon = distance false r pLat pLon sLat sLon := by
  unfold distanceToLine distance
  simp

/-- a position at the first end of the line is at distance zero from it (the degenerate bearing
    — the position coincides with the point the bearings are taken at — is resolved towards zero
    cross-track, not towards a division by zero) -/
theorem distanceToLine_at_start (r sLat sLon eLat eLon : ℝ) :
    distanceToLine r sLat sLon sLat sLon eLat eLon = 0 := by
  have hz : ∀ p l : ℝ, distanceHav p l p l = 0 := by
    intro p l; simp [distanceHav, hav_real]
  have hi : invHav (0 : ℝ) = 0 := by simp [invHav_real]
  unfold distanceToLine
  dsimp only
  split
  · rename_i h
    simp only [Bool.and_eq_true, rl_le, decide_eq_true_eq] at h
    obtain ⟨⟨⟨h1, h2⟩, h3⟩, h4⟩ := h
    have e1 : sLat * (radians : ℝ) = eLat * radians := le_antisymm h1 h2
    have e2 : sLon * (radians : ℝ) = eLon * radians := le_antisymm h3 h4
    simp only [distanceHaversin, rl_mul, e1, e2, hz, hi, zero_mul]
  · have hb : sinDeltaBearing (sLat * (radians : ℝ)) (sLon * radians) (eLat * radians) (eLon * radians)
        (sLat * radians) (sLon * radians) = 1 := by
      unfold sinDeltaBearing
      simp [hav_real, zero, one]
    have hq01 : (onLineQ (sLat * (radians : ℝ)) (sLon * radians) (sLat * radians) (sLon * radians)
        (eLat * radians) (eLon * radians)).d01 = 0 := hz _ _
    have htr : (onLineQ (sLat * (radians : ℝ)) (sLon * radians) (sLat * radians) (sLon * radians)
        (eLat * radians) (eLon * radians)).track = 0 := by
      show havSin (sinHav (distanceHav _ _ _ _) * sinDeltaBearing _ _ _ _ _ _) = 0
      rw [hz, hb]
      simp [havSin, sinHav, two, one, half]
    have hterm : (onLineQ (sLat * (radians : ℝ)) (sLon * radians) (sLat * radians) (sLon * radians)
        (eLat * radians) (eLon * radians)).term = (onLineQ (sLat * (radians : ℝ)) (sLon * radians) (sLat * radians) (sLon * radians)
        (eLat * radians) (eLon * radians)).d02 := by
      show distanceHav _ _ _ _ + (onLineQ (sLat * (radians : ℝ)) (sLon * radians) (sLat * radians) (sLon * radians)
        (eLat * radians) (eLon * radians)).track * _ = distanceHav _ _ _ _
      rw [htr]; simp
    have hd02 : 0 ≤ (onLineQ (sLat * (radians : ℝ)) (sLon * radians) (sLat * radians) (sLon * radians)
        (eLat * radians) (eLon * radians)).d02 := by
      show 0 ≤ distanceHav _ _ _ _
      rw [distanceHav_chord]
      have := dot_bounds (sLat * (radians : ℝ)) (sLon * radians) (eLat * radians) (eLon * radians)
      linarith [this.2]
    simp only [rl_lt, hterm, hq01, htr, lt_irrefl, decide_false, Bool.or_false,
      not_lt.mpr hd02, hi, zero_mul, rl_mul]
    simp

end TrackVerif.C18
