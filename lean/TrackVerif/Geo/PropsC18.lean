import TrackVerif.Geo.RealLemmas
/-
  C18 — Point-to-point and point-to-line distances match great-circle geometry.
  Property theorems only (over ℝ; float64 rounding is outside the theorems and is sampled).
-/
namespace TrackVerif.C18
open TrackVerif Geo Real

/-- the great-circle angle between two positions: arccos ⟨u₁,u₂⟩ -/
noncomputable def gcAngle (p1 l1 p2 l2 : ℝ) : ℝ :=
  Real.arccos (Real.sin p1 * Real.sin p2 + Real.cos p1 * Real.cos p2 * Real.cos (l1 - l2))

theorem distanceHaversin_real (p1 l1 p2 l2 r : ℝ) :
    distanceHaversin p1 l1 p2 l2 r = invHav (distanceHav p1 l1 p2 l2) * r := rfl

/-- the default method returns exactly radius × great-circle angle -/
theorem distance_is_great_circle (p1 l1 p2 l2 r : ℝ) :
    distanceHaversin p1 l1 p2 l2 r = gcAngle p1 l1 p2 l2 * r := by
  rw [distanceHaversin_real]
  congr 1
  obtain ⟨hlo, hhi⟩ := dot_bounds p1 l1 p2 l2
  have hθ0 := Real.arccos_nonneg (Real.sin p1 * Real.sin p2 + Real.cos p1 * Real.cos p2 * Real.cos (l1 - l2))
  have hθπ := Real.arccos_le_pi (Real.sin p1 * Real.sin p2 + Real.cos p1 * Real.cos p2 * Real.cos (l1 - l2))
  have : distanceHav p1 l1 p2 l2 = hav (gcAngle p1 l1 p2 l2) := by
    rw [distanceHav_chord, hav_eq_cos, gcAngle, Real.cos_arccos hlo hhi]
  rw [this]
  exact invHav_hav (x := gcAngle p1 l1 p2 l2) hθ0 hθπ

/-- symmetric in the two positions -/
theorem distance_symmetric (p1 l1 p2 l2 r : ℝ) :
    distanceHaversin p1 l1 p2 l2 r = distanceHaversin p2 l2 p1 l1 r := by
  rw [distanceHaversin_real, distanceHaversin_real, distanceHav_symm]

/-- scales linearly with the radius -/
theorem distance_linear_in_radius (p1 l1 p2 l2 r k : ℝ) :
    distanceHaversin p1 l1 p2 l2 (k * r) = k * distanceHaversin p1 l1 p2 l2 r := by
  rw [distanceHaversin_real, distanceHaversin_real]; ring

/-- zero exactly when the two positions are the same point of the sphere (r ≠ 0) -/
theorem distance_zero_iff (p1 l1 p2 l2 r : ℝ) (hr : r ≠ 0) :
    distanceHaversin p1 l1 p2 l2 r = 0 ↔
      Real.sin p1 * Real.sin p2 + Real.cos p1 * Real.cos p2 * Real.cos (l1 - l2) = 1 := by
  rw [distance_is_great_circle]
  obtain ⟨hlo, hhi⟩ := dot_bounds p1 l1 p2 l2
  constructor
  · intro h
    have h0 : gcAngle p1 l1 p2 l2 = 0 := by
      rcases mul_eq_zero.mp h with h | h
      · exact h
      · exact absurd h hr
    have := Real.arccos_eq_zero.mp h0
    linarith
  · intro h
    have : gcAngle p1 l1 p2 l2 = 0 := by rw [gcAngle, h, Real.arccos_one]
    rw [this]; ring

/-- identical coordinates give distance 0 -/
theorem distance_self (p l r : ℝ) : distanceHaversin p l p l r = 0 := by
  rw [distanceHaversin_real, distanceHav_chord]
  have : Real.sin p * Real.sin p + Real.cos p * Real.cos p * Real.cos (l - l) = 1 := by
    rw [sub_self, Real.cos_zero]; nlinarith [Real.sin_sq_add_cos_sq p]
  rw [this, invHav_real]
  norm_num

theorem distanceEquirect_real (p1 l1 p2 l2 r : ℝ) :
    distanceEquirect p1 l1 p2 l2 r =
      Real.sqrt (((l2 - l1) * Real.cos ((p2 + p1) / 2)) ^ 2 + (p2 - p1) ^ 2) * r := by
  show Real.sqrt (((l2 - l1) * Real.cos ((p2 + p1) * (((5 : ℕ) : ℝ) / 10 ^ 1))) *
      ((l2 - l1) * Real.cos ((p2 + p1) * (((5 : ℕ) : ℝ) / 10 ^ 1))) + (p2 - p1) * (p2 - p1)) * r = _
  have : (p2 + p1) * (((5 : ℕ) : ℝ) / 10 ^ 1) = (p2 + p1) / 2 := by norm_num; ring
  rw [this]; ring_nf

/-- the fast method is symmetric and linear in the radius -/
theorem equirect_symmetric (p1 l1 p2 l2 r : ℝ) :
    distanceEquirect p1 l1 p2 l2 r = distanceEquirect p2 l2 p1 l1 r := by
  rw [distanceEquirect_real, distanceEquirect_real]
  have h1 : (p1 + p2) / 2 = (p2 + p1) / 2 := by ring
  rw [h1]
  congr 2
  ring

theorem equirect_linear_in_radius (p1 l1 p2 l2 r k : ℝ) :
    distanceEquirect p1 l1 p2 l2 (k * r) = k * distanceEquirect p1 l1 p2 l2 r := by
  rw [distanceEquirect_real, distanceEquirect_real]; ring

/-- the fast method is exact along a meridian -/
theorem equirect_meridian (p1 p2 l r : ℝ) :
    distanceEquirect p1 l p2 l r = |p2 - p1| * r := by
  rw [distanceEquirect_real]
  simp [Real.sqrt_sq_eq_abs]

end TrackVerif.C18
