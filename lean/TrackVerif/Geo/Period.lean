import TrackVerif.Geo.RealLemmas
/-
  Longitudes enter the line geometry only through their differences, and only up to whole turns:
  helper lemmas over ℝ for the C17/C18 statements about the origin and the period of longitude.
-/
namespace TrackVerif.Geo
open TrackVerif Real

theorem hav_add_turns (x : ℝ) (k : ℤ) : hav (x + k * (2 * π)) = hav x := by
  rw [hav_eq_cos, hav_eq_cos, Real.cos_add_int_mul_two_pi]

theorem distanceHav_turns (p1 l1 p2 l2 : ℝ) (k1 k2 : ℤ) :
    distanceHav p1 (l1 + k1 * (2 * π)) p2 (l2 + k2 * (2 * π)) = distanceHav p1 l1 p2 l2 := by
  unfold distanceHav
  have : l1 + k1 * (2 * π) - (l2 + k2 * (2 * π)) = (l1 - l2) + ((k1 - k2 : ℤ) : ℝ) * (2 * π) := by
    push_cast; ring
  simp only [rl_sub, rl_add, rl_mul, this, hav_add_turns]

theorem distanceHav_shift (p1 l1 p2 l2 δ : ℝ) :
    distanceHav p1 (l1 + δ) p2 (l2 + δ) = distanceHav p1 l1 p2 l2 := by
  unfold distanceHav
  have : l1 + δ - (l2 + δ) = l1 - l2 := by ring
  simp only [rl_sub, this]

theorem sinDeltaBearing_turns (p1 l1 p2 l2 p0 l0 : ℝ) (k1 k2 k0 : ℤ) :
    sinDeltaBearing p1 (l1 + k1 * (2 * π)) p2 (l2 + k2 * (2 * π)) p0 (l0 + k0 * (2 * π)) =
      sinDeltaBearing p1 l1 p2 l2 p0 l0 := by
  unfold sinDeltaBearing
  have h01 : l0 + k0 * (2 * π) - (l1 + k1 * (2 * π)) = (l0 - l1) + ((k0 - k1 : ℤ) : ℝ) * (2 * π) := by
    push_cast; ring
  have h21 : l2 + k2 * (2 * π) - (l1 + k1 * (2 * π)) = (l2 - l1) + ((k2 - k1 : ℤ) : ℝ) * (2 * π) := by
    push_cast; ring
  simp only [rl_sub, rl_sin, h01, h21, hav_add_turns, Real.sin_add_int_mul_two_pi]

theorem sinDeltaBearing_shift (p1 l1 p2 l2 p0 l0 δ : ℝ) :
    sinDeltaBearing p1 (l1 + δ) p2 (l2 + δ) p0 (l0 + δ) = sinDeltaBearing p1 l1 p2 l2 p0 l0 := by
  unfold sinDeltaBearing
  have h01 : l0 + δ - (l1 + δ) = l0 - l1 := by ring
  have h21 : l2 + δ - (l1 + δ) = l2 - l1 := by ring
  simp only [rl_sub, h01, h21]

theorem onLineQ_turns (p0 l0 p1 l1 p2 l2 : ℝ) (k0 k1 k2 : ℤ) :
    onLineQ p0 (l0 + k0 * (2 * π)) p1 (l1 + k1 * (2 * π)) p2 (l2 + k2 * (2 * π)) =
      onLineQ p0 l0 p1 l1 p2 l2 := by
  unfold onLineQ
  simp only [distanceHav_turns, sinDeltaBearing_turns]

theorem onLineQ_shift (p0 l0 p1 l1 p2 l2 δ : ℝ) :
    onLineQ p0 (l0 + δ) p1 (l1 + δ) p2 (l2 + δ) = onLineQ p0 l0 p1 l1 p2 l2 := by
  unfold onLineQ
  simp only [distanceHav_shift, sinDeltaBearing_shift]

/-- degrees: adding whole turns of 360 adds whole turns of 2π after the conversion -/
theorem deg_turns (lon : ℝ) (k : ℤ) :
    (lon + k * 360) * (radians : ℝ) = lon * radians + k * (2 * π) := by
  show (lon + k * 360) * (π / 180) = lon * (π / 180) + k * (2 * π)
  ring

theorem deg_shift (lon δ : ℝ) : (lon + δ) * (radians : ℝ) = lon * radians + δ * radians := by ring

end TrackVerif.Geo
