import TrackVerif.Geo.Model
import Mathlib.Analysis.SpecialFunctions.Trigonometric.Inverse
import Mathlib.Analysis.Real.Sqrt
import Mathlib.Algebra.Order.Round
/-  The real-number instance of `RealLike`: what the geometry theorems are about. -/
namespace TrackVerif.Geo
open TrackVerif

noncomputable instance instRealLikeReal : RealLike ℝ where
  add := (· + ·)
  sub := (· - ·)
  mul := (· * ·)
  div := (· / ·)
  neg := fun x => -x
  ofNat := fun n => (n : ℝ)
  ofDec := fun m k => (m : ℝ) / 10 ^ k
  sin := Real.sin
  cos := Real.cos
  sqrt := Real.sqrt
  asin := Real.arcsin
  abs := fun x => |x|
  le := fun a b => decide (a ≤ b)
  lt := fun a b => decide (a < b)
  pi := Real.pi
  deg2rad := Real.pi / 180
  rem360 := fun d => d - (round (d / 360) : ℝ) * 360

end TrackVerif.Geo

namespace TrackVerif.Geo
open TrackVerif

/-! the class operations at ℝ are the real operations (normalisation lemmas) -/
@[simp] theorem rl_add (a b : ℝ) : @HAdd.hAdd ℝ ℝ ℝ (@instHAdd ℝ RealLike.instAdd) a b = a + b := rfl
@[simp] theorem rl_sub (a b : ℝ) : @HSub.hSub ℝ ℝ ℝ (@instHSub ℝ RealLike.instSub) a b = a - b := rfl
@[simp] theorem rl_mul (a b : ℝ) : @HMul.hMul ℝ ℝ ℝ (@instHMul ℝ RealLike.instMul) a b = a * b := rfl
@[simp] theorem rl_div (a b : ℝ) : @HDiv.hDiv ℝ ℝ ℝ (@instHDiv ℝ RealLike.instDiv) a b = a / b := rfl
@[simp] theorem rl_neg (a : ℝ) : @Neg.neg ℝ RealLike.instNeg a = -a := rfl
@[simp] theorem rl_ofNat (n : ℕ) : (RealLike.ofNat n : ℝ) = (n : ℝ) := rfl
@[simp] theorem rl_ofDec (m k : ℕ) : (RealLike.ofDec m k : ℝ) = (m : ℝ) / 10 ^ k := rfl
@[simp] theorem rl_sin (x : ℝ) : RealLike.sin x = Real.sin x := rfl
@[simp] theorem rl_cos (x : ℝ) : RealLike.cos x = Real.cos x := rfl
@[simp] theorem rl_sqrt (x : ℝ) : RealLike.sqrt x = Real.sqrt x := rfl
@[simp] theorem rl_asin (x : ℝ) : RealLike.asin x = Real.arcsin x := rfl
@[simp] theorem rl_abs (x : ℝ) : RealLike.abs x = |x| := rfl
@[simp] theorem rl_le (a b : ℝ) : RealLike.le a b = decide (a ≤ b) := rfl
@[simp] theorem rl_lt (a b : ℝ) : RealLike.lt a b = decide (a < b) := rfl

end TrackVerif.Geo
