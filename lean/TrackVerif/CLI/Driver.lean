import TrackVerif.Common.Proto
import TrackVerif.Common.Dec
import TrackVerif.CLI.Model
import TrackVerif.LT.Fmt
import TrackVerif.Generated.CLI
import TrackVerif.CLI.SpecTables
/-
  Line-protocol side of the CLI area (C20).

    CL cl cmd=… which=… F=… C=… H=… io=… in=…
       => exit=<n> used=<explicit|cwd|home|embedded|none> msg=<0|1> obs=<Path=kind:value;…|->
          [wrote=… pipe=same|differ|exit|liberr|na] [hits=<n> want=<n>]
-/
namespace TrackVerif.CLI.Driver
open TrackVerif Proto TrackVerif.Gen TrackVerif.CLI

def field (toks : List String) (k : String) : Option String :=
  (toks.find? (·.startsWith (k ++ "="))).map fun t => (t.drop (k.length + 1)).toString

def fltBitsOfText (s : String) : Option Nat :=
  match LT.Fmt.parseFloatFull s.toList with
  | .ok b _ => some b.toNat
  | _ => none

def intToFlt (i : Int) : Nat := (Dec.decimalToBits (i < 0) i.natAbs 0).toNat

def items (v : String) : Option (List String) :=
  if v == "~" then some [] else (v.splitOn "+").mapM stringOfHex?

/-- a typed value of the scenario text -/
def parseVal (kind v : String) : Option OVal :=
  match kind with
  | "s" => (stringOfHex? v).map OVal.str
  | "d" => (stringOfHex? v).map OVal.str           -- a date is stated as a string in a config file
  | "b" => (stringOfHex? v).bind fun t => if t == "true" then some (.bool true) else if t == "false" then some (.bool false) else none
  | "i" => (stringOfHex? v).bind fun t => t.toInt?.map OVal.int
  | "f" => (stringOfHex? v).bind fun t => (fltBitsOfText t).map OVal.flt
  | "l" => (items v).map OVal.strs
  | _ => none

def parseKVs (s : String) : Option (List (String × String × String)) :=
  if s == "~" then some [] else
  (s.splitOn ",").mapM fun e =>
    match e.splitOn ":" with
    | [k, kind, v] => some (k, kind, v)
    | _ => none

/-- insert a dotted path into a nested table -/
partial def insertPath (kvs : List (String × CVal)) (path : List String) (v : OVal) : List (String × CVal) :=
  match path with
  | [] => kvs
  | [k] => kvs.filter (·.1 ≠ k) ++ [(k, .leaf v)]
  | k :: rest =>
    let sub := match lookup kvs k with | some (.table t) => t | _ => []
    kvs.filter (·.1 ≠ k) ++ [(k, .table (insertPath sub rest v))]

def buildCfg (kvs : List (String × String × String)) : Option (List (String × CVal)) :=
  kvs.foldlM (fun acc (k, kind, v) => (parseVal kind v).map fun ov => insertPath acc (k.splitOn ".") ov) []

/-- the embedded default configuration as the model's data -/
partial def ofCliVal : CliVal → CVal
  | .str s => .leaf (.str s)
  | .bool b => .leaf (.bool b)
  | .num t =>
    (match t.toInt? with
     | some i => .leaf (.int i)
     | none => .leaf (.flt ((fltBitsOfText t).getD 0)))
  | .list vs => .leaf (.strs (vs.filterMap fun v => match v with | .str s => some s | _ => none))
  | .table kvs => .table (kvs.map fun (k, v) => (k, ofCliVal v))

def embedded : List (String × CVal) :=
  match ofCliVal Gen.CLI.defaults with
  | .table kvs => kvs
  | _ => []

def renderVal : OVal → String
  | .str s => "s:" ++ hexOfString s
  | .bool b => "b:" ++ (if b then "true" else "false")
  | .int i => "n:" ++ hexOfNat 16 (intToFlt i)
  | .flt b => "n:" ++ hexOfNat 16 b
  | .strs ss => "l:" ++ (if ss.isEmpty then "~" else String.intercalate "+" (ss.map hexOfString))
  | .date d => "d:" ++ hexOfString d

def insertSorted (x : String) : List String → List String
  | [] => [x]
  | y :: ys => if x < y then x :: y :: ys else y :: insertSorted x ys

def renderEff (eff : List (List String × OVal)) : String :=
  String.intercalate ";" ((eff.map fun (p, v) => String.intercalate "." p ++ "=" ++ renderVal v).foldr insertSorted [])

/-- flag values as given on the command line: dates become dates, lists accumulate -/
def givenOf (cmd : CliCmd) (fl : List (String × String × String)) : Option (List Given) :=
  fl.mapM fun (name, kind, v) =>
    match cmd.flags.find? (·.name = name) with
    | none => none
    | some f =>
      if f.kind == "date" then (stringOfHex? v).map fun d => ⟨name, .date d⟩
      else (parseVal kind v).map fun ov => ⟨name, ov⟩

def handleCl (toks impl : List String) : String :=
  if impl.head? = some "panic" then "VIOL clause=cl.no_crash" else
  if impl.head? = some "hang" then "VIOL clause=cl.no_hang" else
  let parsed := do
    let cname ← field toks "cmd"
    let which ← field toks "which"
    -- the verdicts are against the specification's table (`tables_match_spec`: equal to the
    -- regenerated one on the unchanged tree; if the source's table changes the search for a
    -- failing input still runs against what the commands are supposed to accept)
    let cmd ← SpecTables.commands.find? (fun (c : CliCmd) => c.sect = cname)
    let fl ← (field toks "F").bind parseKVs
    let c ← ((field toks "C").bind parseKVs).bind buildCfg
    let given ← givenOf cmd fl
    let exit ← (field impl "exit").bind nat?
    let used ← field impl "used"
    let msg ← field impl "msg"
    let obs ← field impl "obs"
    pure (cname, which, cmd, c, given, exit, used, msg, obs)
  match parsed with
  | none => "BAD"
  | some (cname, which, cmd, c, given, exit, used, msg, obs) =>
    -- any failure ends with a non-zero status AND a message
    if exit ≠ 0 ∧ msg ≠ "1" then "VIOL clause=cl.silent_failure" else
    if which == "missing" then
      (if exit = 0 then "VIOL clause=cl.exit_status why=config-file-missing" else "OK nt=1 cls=missing")
    else
    let wantUsed := if which == "both" then "cwd" else if which == "none" then "embedded" else which
    if used ≠ wantUsed then s!"VIOL clause=cl.config_search want={wantUsed} got={used}" else
    let cfg := if which == "none" then embedded else c
    let model := loadConfig intToFlt cmd given cfg
    let spec := specAll intToFlt cmd given cfg
    match model, spec with
    | .err _, .err _ =>
      if exit = 0 then "VIOL clause=cl.exit_status why=config-value-does-not-fit" else "OK nt=1 cls=cfgerr"
    | .ok eff, .ok sp =>
      if renderEff eff ≠ renderEff sp then "CORR clause=cl.model_vs_spec"
      else if obs == "-" then "VIOL clause=cl.precedence why=no-effective-config-reported"
      else if obs ≠ renderEff sp then s!"VIOL clause=cl.precedence spec={renderEff sp}"
      else
        -- behaviour for the effective options
        if cname == "convert" then
          let get (p : String) : Option OVal := (sp.find? (fun (e : List String × OVal) => e.1 = [p])).map (fun e => e.2)
          let okNames := get "Decoder" == some (OVal.str "trackaddict") ∧ get "Encoder" == some (OVal.str "laptimer")
          let pipe := (field impl "pipe").getD "na"
          let wrote := (field impl "wrote").getD "none"
          let io := (field toks "io").getD "ff"
          if !okNames then (if exit = 0 then "VIOL clause=cl.exit_status why=unknown-format-name" else "OK nt=1 cls=badname")
          else if pipe == "liberr" then (if exit = 0 then "VIOL clause=cl.exit_status why=undecodable-input" else "OK nt=1 cls=badinput")
          else if exit ≠ 0 then "VIOL clause=cl.spurious_failure"
          else if pipe ≠ "same" then s!"VIOL clause=cl.pipeline got={pipe}"
          else if ((io.drop 1).take 1).toString == "f" ∧ wrote ≠ "file" then s!"VIOL clause=cl.output_target wrote={wrote}"
          else if ((io.drop 1).take 1).toString == "o" ∧ wrote ≠ "stdout" then s!"VIOL clause=cl.output_target wrote={wrote}"
          else "OK nt=1 cls=convert"
        else if cname == "gopro.laptimes" then
          match (field impl "hits").bind nat?, (field impl "want").bind int? with
          | some h, some w =>
            -- readings inside the guard band around the tolerance boundary may go either way
            let whi : Int := ((field impl "wanthi").bind int?).getD w
            -- (a start line whose ends lie at an azimuth that is an odd multiple of 45° from the start
            -- point, or whose start point has a latitude of exactly 45°: the geodesic library's octant
            -- slip, recorded finding; the harness says so from the effective options alone)
            let tag := if impl.contains "octant=1" then " tag=geodesic-azi45" else ""
            if (h : Int) < w ∨ (h : Int) > whi then s!"VIOL clause=cl.laptimes{tag} hits={h} want={w}..{whi}"
            else if h = 0 ∧ exit = 0 then "VIOL clause=cl.exit_status why=no-laps"
            else s!"OK nt={if h > 0 then 1 else 0} cls=laptimes"
          | _, _ => "BAD"
        else if cname == "gopro.convert" then
          -- the command does what the library does for the effective options (encoder invocations,
          -- resulting tree and success/failure compared on the implementation side)
          let gc := (field impl "gc").getD "na"
          if gc == "same" ∨ gc == "na" then "OK nt=1 cls=goproconvert"
          else s!"VIOL clause=cl.gopro_pipeline got={gc}"
        else "OK nt=1 cls=precedence"
    | .unmodelled, _ => "SKIP reason=unmodelled"
    | _, _ => "CORR clause=cl.model_vs_spec"

def handle (args impl : List String) : String :=
  match args with
  | "cl" :: toks => handleCl toks impl
  | _ => "BAD"

end TrackVerif.CLI.Driver
