import TrackVerif.CLI.Lemmas
import TrackVerif.CLI.SpecTables
import TrackVerif.Generated.CLI
/-
  C20 — CLI: flag beats config file beats default.
  Property theorems only.  PARTIAL: proved for every command of the table, every set of given
  flags and every configuration (any nesting, any other keys) is that `loadConfig` computes
  exactly "flag if given, else the config file's value, else the default".  That the binary's
  effective options are the model's, that `convert` writes the library pipeline's bytes, the
  exit statuses and the lap-line report are decided on the built binary on every run.
-/
namespace TrackVerif.C20
open TrackVerif TrackVerif.Gen TrackVerif.CLI

/-- the tables regenerated from the source are the ones the theorems are about -/
theorem tables_match_spec : Gen.CLI.extractOk = true ∧ Gen.CLI.commands = SpecTables.commands := by
  refine ⟨by decide, ?_⟩; decide +kernel

def lastOf (p : List String) : String := p.getLast?.getD ""

/-- well-formedness of a command's flag table w.r.t. its option fields -/
def wfCmd (cmd : CliCmd) : Bool :=
  -- every flag's normalised name is the (lower-cased) last component of its destination
  cmd.flags.all (fun f => normalise f.name == lower (lastOf f.path)) &&
  -- a flag whose normalised name is the last component of a field is that field's flag
  cmd.fields.all (fun fd => cmd.flags.all fun g => normalise g.name != lower (lastOf fd.1) || g.path == fd.1) &&
  -- fields are one or two levels deep, and the table names of nested fields are not flag names
  cmd.fields.all (fun fd => match fd.1 with
    | [_] => true
    | [a, _] => cmd.flags.all fun g => normalise g.name != lower a
    | _ => false)

theorem tables_wellformed : ∀ cmd ∈ SpecTables.commands, wfCmd cmd = true := by decide +kernel

def givenKeys (cmd : CliCmd) (given : List Given) : List String :=
  (given.filter fun g => cmd.flags.any (·.name = g.flag)).map fun g => normalise g.flag

theorem remaining_eq (cmd : CliCmd) (given : List Given) (cfg : List (String × CVal)) :
    remaining cmd given cfg = delAll (givenKeys cmd given) (sectionOf cfg (cmd.sect.splitOn ".")) := by
  simp [remaining, delAll, givenKeys, List.foldl_map]

theorem mapM_congr_outcome {α β : Type} (l : List α) (f g : α → Outcome β) (h : ∀ x ∈ l, f x = g x) :
    l.mapM f = l.mapM g := by
  induction l with
  | nil => rfl
  | cons x xs ih =>
    simp only [List.mapM_cons]
    rw [h x (by simp), ih (fun y hy => h y (by simp [hy]))]

/-- a key is removed iff some given flag of the command normalises to it -/
theorem mem_givenKeys (cmd : CliCmd) (given : List Given) (k : String) :
    k ∈ givenKeys cmd given ↔ ∃ g ∈ given, (∃ f ∈ cmd.flags, f.name = g.flag) ∧ normalise g.flag = k := by
  simp [givenKeys, List.mem_map, List.mem_filter]
  constructor
  · rintro ⟨g, ⟨hg, f, hf, hn⟩, hk⟩; exact ⟨g, hg, ⟨f, hf, hn⟩, hk⟩
  · rintro ⟨g, hg, ⟨f, hf, hn⟩, hk⟩; exact ⟨g, ⟨hg, f, hf, hn⟩, hk⟩

theorem wf_parts (cmd : CliCmd) (h : wfCmd cmd = true) :
    (∀ f ∈ cmd.flags, normalise f.name = lower (lastOf f.path)) ∧
    (∀ fd ∈ cmd.fields, ∀ g ∈ cmd.flags, normalise g.name = lower (lastOf fd.1) → g.path = fd.1) ∧
    (∀ fd ∈ cmd.fields, (∃ a, fd.1 = [a]) ∨ (∃ a b, fd.1 = [a, b] ∧ ∀ g ∈ cmd.flags, normalise g.name ≠ lower a)) := by
  unfold wfCmd at h
  simp only [Bool.and_eq_true, List.all_eq_true, beq_iff_eq, Bool.or_eq_true, bne_iff_ne, ne_eq] at h
  obtain ⟨⟨h1, h2⟩, h3⟩ := h
  refine ⟨h1, ?_, ?_⟩
  · intro fd hfd g hg hn
    rcases h2 fd hfd g hg with h | h
    · exact absurd hn h
    · exact h
  · intro fd hfd
    have := h3 fd hfd
    match hp : fd.1 with
    | [a] => exact Or.inl ⟨a, rfl⟩
    | [a, b] =>
      right
      refine ⟨a, b, rfl, ?_⟩
      rw [hp] at this
      simpa using this
    | [] => rw [hp] at this; simp at this
    | _ :: _ :: _ :: _ => rw [hp] at this; simp at this

/-- the key of a field is removed exactly when a flag for that field was given -/
theorem key_removed_iff (cmd : CliCmd) (hw : wfCmd cmd = true) (given : List Given)
    (fd : List String × String) (hfd : fd ∈ cmd.fields) :
    lower (lastOf fd.1) ∈ givenKeys cmd given ↔ (flagFor cmd given fd.1).isSome = true := by
  obtain ⟨w1, w2, _⟩ := wf_parts cmd hw
  rw [mem_givenKeys]
  constructor
  · rintro ⟨g, hg, ⟨f, hf, hn⟩, hk⟩
    have hp : f.path = fd.1 := w2 fd hfd f hf (by rw [hn]; exact hk)
    unfold flagFor
    rw [List.find?_isSome]
    refine ⟨f, hf, ?_⟩
    simp only [decide_eq_true_eq, List.any_eq_true]
    exact ⟨hp, g, hg, by simp [hn]⟩
  · intro h
    unfold flagFor at h
    rw [List.find?_isSome] at h
    obtain ⟨f, hf, hpred⟩ := h
    simp only [decide_eq_true_eq, List.any_eq_true] at hpred
    obtain ⟨hp, g, hg, hgf⟩ := hpred
    have hgf' : g.flag = f.name := by simpa using hgf
    refine ⟨g, hg, ⟨f, hf, hgf'.symm⟩, ?_⟩
    rw [hgf', w1 f hf, hp]

/-- what the decoder finds for an option field after the given flags' keys were removed -/
theorem configValue_remaining (cmd : CliCmd) (hw : wfCmd cmd = true) (given : List Given)
    (cfg : List (String × CVal)) (fd : List String × String) (hfd : fd ∈ cmd.fields) :
    configValue (remaining cmd given cfg) fd.1 =
      if (flagFor cmd given fd.1).isSome then none
      else (statedValue cmd cfg fd.1).map (delAllVal (givenKeys cmd given)) := by
  obtain ⟨_, _, w3⟩ := wf_parts cmd hw
  have hk := key_removed_iff cmd hw given fd hfd
  rw [remaining_eq]
  unfold statedValue
  generalize sectionOf cfg (cmd.sect.splitOn ".") = sect at *
  rcases w3 fd hfd with ⟨a, ha⟩ | ⟨a, b, hab, hna⟩
  · -- a top-level option
    rw [ha] at hk ⊢
    simp only [configValue, lookup_delAll]
    have e : lastOf [a] = a := rfl
    rw [e] at hk
    by_cases hf : (flagFor cmd given [a]).isSome = true
    · simp [hf, hk.mpr hf]
    · have : ¬ lower a ∈ givenKeys cmd given := fun h => hf (hk.mp h)
      simp [hf, this]
  · -- an option inside a nested table (Start.Latitude …)
    rw [hab] at hk ⊢
    have e : lastOf [a, b] = b := rfl
    rw [e] at hk
    have hta : ¬ lower a ∈ givenKeys cmd given := by
      intro h
      obtain ⟨g, _, ⟨f, hf, hn⟩, hkk⟩ := (mem_givenKeys cmd given (lower a)).mp h
      exact hna f hf (by rw [hn]; exact hkk)
    simp only [configValue, lookup_delAll, hta, if_false]
    cases hl : lookup sect (lower a) with
    | none => simp
    | some v =>
      cases v with
      | leaf x => simp [delAllVal_leaf]
      | table kvs =>
        simp only [Option.map_some, delAllVal_table, lookup_delAll]
        by_cases hf : (flagFor cmd given [a, b]).isSome = true
        · simp [hf, hk.mpr hf]
        · have : ¬ lower b ∈ givenKeys cmd given := fun h => hf (hk.mp h)
          simp [hf, this]

/-- **flag beats config file beats default**: for every command of the table, any flags given
    (with any values, also empty ones), any configuration data, `loadConfig` yields for every
    option exactly: the flag's value if its flag was given, otherwise the value the config file
    states for it, otherwise the zero default — and fails iff a stated value does not fit -/
theorem loadConfig_is_spec (itf : Int → Nat) (cmd : CliCmd) (hw : wfCmd cmd = true)
    (given : List Given) (cfg : List (String × CVal)) :
    loadConfig itf cmd given cfg = specAll itf cmd given cfg := by
  unfold loadConfig specAll
  apply mapM_congr_outcome
  intro fd hfd
  rw [configValue_remaining cmd hw given cfg fd hfd]
  unfold specValue initial
  cases hf : flagFor cmd given fd.1 with
  | some f =>
    simp only [Option.isSome_some, if_true]
  | none =>
    simp only [Option.isSome_none, Bool.false_eq_true, if_false]
    cases hs : statedValue cmd cfg fd.1 with
    | none => simp
    | some v =>
      cases v with
      | leaf x => simp [delAllVal_leaf]
      | table t => simp [delAllVal_table]

/-- the statement for the shipped commands: convert, gopro convert, gopro laptimes, gopro render -/
theorem shipped_commands_resolve_by_precedence (itf : Int → Nat) :
    ∀ cmd ∈ SpecTables.commands, ∀ given cfg, loadConfig itf cmd given cfg = specAll itf cmd given cfg :=
  fun cmd hc given cfg => loadConfig_is_spec itf cmd (tables_wellformed cmd hc) given cfg

/-- non-vacuity and the old defect: with only top-level keys removed, `--latitude 9` against a
    config stating `Start = {Latitude = 15, Bearing = 3}` kept 15; the repaired removal takes the
    nested key out and leaves its sibling -/
example :
    (match lookup (delKvs "latitude" [("start", .table [("latitude", .leaf (.flt 15)), ("bearing", .leaf (.flt 3))])]) "start" with
      | some (.table [("bearing", .leaf (.flt 3))]) => true
      | _ => false) = true := by decide

end TrackVerif.C20
