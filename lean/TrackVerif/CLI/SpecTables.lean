import TrackVerif.Common.GenTypes
/-  The command / flag tables the C20 theorems are stated about: a committed copy of what the
    translator extracted from the reviewed cmd/tracktools/cmd sources. -/
namespace TrackVerif.CLI.SpecTables
open TrackVerif.Gen
def commands : List CliCmd := [
  ⟨"convert", "convertCmd", [
    ⟨"decoder", ["Decoder"], "string", ""⟩,
    ⟨"encoder", ["Encoder"], "string", ""⟩,
    ⟨"track", ["Track"], "string", ""⟩,
    ⟨"vehicle", ["Vehicle"], "string", ""⟩,
    ⟨"tags", ["Tags"], "strings", "nil"⟩,
    ⟨"note", ["Note"], "string", ""⟩,
    ⟨"compress", ["Compress"], "bool", "false"⟩,
    ⟨"start-date", ["StartDate"], "date", ""⟩],
    [(["Decoder"], "string"), (["Encoder"], "string"), (["Compress"], "bool"), (["Track"], "string"), (["Vehicle"], "string"), (["Tags"], "[]string"), (["Note"], "string"), (["StartDate"], "date")]⟩,
  ⟨"gopro.convert", "gopro.Config", [
    ⟨"source-dir", ["SourceDir"], "string", ""⟩,
    ⟨"output-dir", ["OutputDir"], "string", ""⟩],
    [(["LogLevel"], "string"), (["SourceDir"], "string"), (["Binary"], "string"), (["Args"], "[]string"), (["SkipNames"], "[]string"), (["OutputTemplate"], "string"), (["OutputDir"], "string"), (["Overwrite"], "bool")]⟩,
  ⟨"gopro.laptimes", "goproLapTimesCmd", [
    ⟨"latitude", ["Start", "Latitude"], "float", "0"⟩,
    ⟨"longitude", ["Start", "Longitude"], "float", "0"⟩,
    ⟨"bearing", ["Start", "Bearing"], "float", "0"⟩,
    ⟨"distance", ["Start", "Distance"], "float", "0"⟩,
    ⟨"tolerance", ["Tolerance"], "float", "0"⟩],
    [(["Start", "Latitude"], "float64"), (["Start", "Longitude"], "float64"), (["Start", "Bearing"], "float64"), (["Start", "Distance"], "float64"), (["Tolerance"], "float64")]⟩,
  ⟨"gopro.render", "goproRenderCmd", [
    ⟨"min-good", ["MinGood"], "int", "0"⟩,
    ⟨"min-dop", ["MinDoP"], "float", "0"⟩,
    ⟨"latitude", ["Start", "Latitude"], "float", "0"⟩,
    ⟨"longitude", ["Start", "Longitude"], "float", "0"⟩,
    ⟨"bearing", ["Start", "Bearing"], "float", "0"⟩,
    ⟨"distance", ["Start", "Distance"], "float", "0"⟩],
    [(["MinDoP"], "float64"), (["MinGood"], "int"), (["Width"], "int"), (["Height"], "int"), (["Start", "Latitude"], "float64"), (["Start", "Longitude"], "float64"), (["Start", "Bearing"], "float64"), (["Start", "Distance"], "float64")]⟩
]
end TrackVerif.CLI.SpecTables
