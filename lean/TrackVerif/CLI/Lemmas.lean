import TrackVerif.CLI.Model
/-  Lemmas about key removal in nested configuration tables. Core only. -/
namespace TrackVerif.CLI
open TrackVerif TrackVerif.Gen

theorem lookup_nil (a : String) : lookup [] a = none := by simp [lookup]

theorem lookup_cons (k : String) (v : CVal) (r : List (String × CVal)) (a : String) :
    lookup ((k, v) :: r) a = if k = a then some v else lookup r a := by
  unfold lookup
  by_cases h : k = a <;> simp [List.find?, h]

/-- removing key `k` from a table: `k` is gone, every other entry is kept with `k` removed inside -/
theorem lookup_delKvs (k : String) (kvs : List (String × CVal)) (a : String) :
    lookup (delKvs k kvs) a = if a = k then none else (lookup kvs a).map (delVal k) := by
  induction kvs with
  | nil => simp [delKvs, lookup_nil]
  | cons kv r ih =>
    obtain ⟨k', v⟩ := kv
    unfold delKvs
    by_cases h1 : k' = k
    · subst h1
      simp only [if_true, ih, lookup_cons]
      by_cases h2 : a = k'
      · simp [h2]
      · have : ¬ k' = a := fun e => h2 e.symm
        simp [h2, this]
    · simp only [h1, if_false, lookup_cons, ih]
      by_cases h2 : k' = a
      · subst h2; simp [h1]
      · simp [h2]

def delAll (ks : List String) (kvs : List (String × CVal)) : List (String × CVal) :=
  ks.foldl (fun d k => delKvs k d) kvs

def delAllVal (ks : List String) (v : CVal) : CVal := ks.foldl (fun d k => delVal k d) v

theorem delAllVal_leaf (ks : List String) (v : OVal) : delAllVal ks (.leaf v) = .leaf v := by
  induction ks with
  | nil => rfl
  | cons k ks ih => simpa [delAllVal, delVal] using ih

theorem delAllVal_table (ks : List String) (kvs : List (String × CVal)) :
    delAllVal ks (.table kvs) = .table (delAll ks kvs) := by
  induction ks generalizing kvs with
  | nil => rfl
  | cons k ks ih => simp [delAllVal, delAll, delVal] at ih ⊢; exact ih _

theorem lookup_delAll (ks : List String) (kvs : List (String × CVal)) (a : String) :
    lookup (delAll ks kvs) a = if a ∈ ks then none else (lookup kvs a).map (delAllVal ks) := by
  induction ks generalizing kvs with
  | nil =>
    have : delAllVal [] = id := by funext v; rfl
    simp [delAll, this]
  | cons k ks ih =>
    simp only [delAll, List.foldl_cons] at ih ⊢
    rw [ih, lookup_delKvs]
    by_cases h1 : a ∈ ks
    · simp [h1]
    · by_cases h2 : a = k
      · simp [h2]
      · have : (fun x => List.foldl (fun d k => delVal k d) (delVal k x) ks) = delAllVal (k :: ks) := by
          funext x; rfl
        simp [h1, h2, delAllVal, Option.map_map, Function.comp_def, this]

end TrackVerif.CLI
