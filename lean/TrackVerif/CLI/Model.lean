import TrackVerif.Common.GenTypes
import TrackVerif.Common.Outcome
/-
  cmd/tracktools/cmd/helpers.go `loadConfig` + the way cobra/pflag/viper/mapstructure are used by
  it: the command's struct starts from the flag values (a flag that was not given leaves its
  default), the command's config section is fetched, the keys named by the GIVEN flags are
  removed (at any nesting depth), and what is left is decoded onto the struct.
  Values cross as `OVal`s (strings, booleans, numbers by IEEE bits, string lists, dates).
  Core only.
-/
namespace TrackVerif.CLI
open TrackVerif TrackVerif.Gen

/-- a typed option value -/
inductive OVal
  | str (s : String)
  | bool (b : Bool)
  | int (i : Int)
  | flt (bits : Nat)
  | strs (ss : List String)
  | date (d : String)          -- "YYYY-MM-DD", "" = not set
  deriving Repr, DecidableEq, Inhabited

/-- configuration data after TOML parsing (numbers already typed) -/
inductive CVal
  | leaf (v : OVal)
  | table (kvs : List (String × CVal))
  deriving Repr, Inhabited

def lowerChar (c : Char) : Char := if 'A' ≤ c ∧ c ≤ 'Z' then Char.ofNat (c.toNat + 32) else c

/-- `strings.ToLower(strings.ReplaceAll(f.Name, "-", ""))` -/
def normalise (n : String) : String := String.ofList ((n.toList.filter (· ≠ '-')).map lowerChar)

def lower (n : String) : String := String.ofList (n.toList.map lowerChar)

mutual
/-- `deleteKey`: remove `k` here and in every nested table -/
def delVal (k : String) : CVal → CVal
  | .leaf v => .leaf v
  | .table kvs => .table (delKvs k kvs)
def delKvs (k : String) : List (String × CVal) → List (String × CVal)
  | [] => []
  | (k', v) :: r => if k' = k then delKvs k r else (k', delVal k v) :: delKvs k r
end

def lookup (kvs : List (String × CVal)) (k : String) : Option CVal :=
  (kvs.find? (·.1 = k)).map (·.2)

/-- `viper.GetStringMap("a.b")` -/
def sectionOf (cfg : List (String × CVal)) : List String → List (String × CVal)
  | [] => cfg
  | p :: ps =>
    match lookup cfg p with
    | some (.table kvs) => sectionOf kvs ps
    | _ => []

/-- zero value of a field type -/
def zeroOf (ty : String) : OVal :=
  if ty = "string" then .str ""
  else if ty = "bool" then .bool false
  else if ty = "int" then .int 0
  else if ty = "float64" then .flt 0
  else if ty = "[]string" then .strs []
  else if ty = "date" then .date ""
  else .str ""

/-- mapstructure (strict mode) + the TextUnmarshaler hook: what a config leaf becomes in a field
    of type `ty`; `none` = decode error -/
def convertTo (ty : String) (intToFlt : Int → Nat) (v : OVal) : Option OVal :=
  match ty, v with
  | "string", .str s => some (.str s)
  | "bool", .bool b => some (.bool b)
  | "int", .int i => some (.int i)
  | "float64", .flt b => some (.flt b)
  | "float64", .int i => some (.flt (intToFlt i))
  | "[]string", .strs ss => some (.strs ss)
  | "date", .str s => some (.date s)            -- validity of the text is the harness's concern
  | _, _ => none

structure Given where
  flag : String              -- flag name as written on the command line
  value : OVal               -- the value it parsed to (last occurrence / accumulated list)
  deriving Repr

/-- does a given flag of this command target the field? -/
def flagFor (cmd : CliCmd) (given : List Given) (path : List String) : Option CliFlag :=
  cmd.flags.find? (fun f => f.path = path ∧ given.any (·.flag = f.name))

/-- the struct before the config is applied: flag values where given, zero otherwise -/
def initial (cmd : CliCmd) (given : List Given) (field : List String × String) : OVal :=
  match flagFor cmd given field.1 with
  | some f => ((given.find? (·.flag = f.name)).map (·.value)).getD (zeroOf field.2)
  | none => zeroOf field.2

/-- the config section with the keys of the given flags of this command removed -/
def remaining (cmd : CliCmd) (given : List Given) (cfg : List (String × CVal)) : List (String × CVal) :=
  let sect := sectionOf cfg (cmd.sect.splitOn ".")
  (given.filter fun g => cmd.flags.any (·.name = g.flag)).foldl (fun d g => delKvs (normalise g.flag) d) sect

/-- the value the decoder finds for a field path (depth one or two), if any -/
def configValue (data : List (String × CVal)) : List String → Option CVal
  | [a] => lookup data (lower a)
  | [a, b] =>
    match lookup data (lower a) with
    | some (.table kvs) => lookup kvs (lower b)
    | _ => none
  | _ => none

/-- `loadConfig`: the effective value of every option field; `.err` when a config value does not
    fit its field -/
def loadConfig (intToFlt : Int → Nat) (cmd : CliCmd) (given : List Given) (cfg : List (String × CVal)) :
    Outcome (List (List String × OVal)) :=
  let data := remaining cmd given cfg
  cmd.fields.mapM fun field =>
    match configValue data field.1 with
    | some (.leaf v) =>
      match convertTo field.2 intToFlt v with
      | some v' => .ok (field.1, v')
      | none => .err .config
    | some (.table _) => .err .config
    | none => .ok (field.1, initial cmd given field)

/-! ### The specification: flag beats config file beats default -/

/-- where the config file states an option: section path, then the field path, all lower-case -/
def statedValue (cmd : CliCmd) (cfg : List (String × CVal)) (path : List String) : Option CVal :=
  configValue (sectionOf cfg (cmd.sect.splitOn ".")) path

def specValue (intToFlt : Int → Nat) (cmd : CliCmd) (given : List Given) (cfg : List (String × CVal))
    (field : List String × String) : Outcome (List String × OVal) :=
  match flagFor cmd given field.1 with
  | some f => .ok (field.1, ((given.find? (·.flag = f.name)).map (·.value)).getD (zeroOf field.2))
  | none =>
    match statedValue cmd cfg field.1 with
    | some (.leaf v) =>
      (match convertTo field.2 intToFlt v with
       | some v' => .ok (field.1, v')
       | none => .err .config)
    | some (.table _) => .err .config
    | none => .ok (field.1, zeroOf field.2)

/-- the whole specification: every option field, in order -/
def specAll (intToFlt : Int → Nat) (cmd : CliCmd) (given : List Given) (cfg : List (String × CVal)) :
    Outcome (List (List String × OVal)) :=
  cmd.fields.mapM (specValue intToFlt cmd given cfg)

end TrackVerif.CLI
