import TrackVerif.TA.Rows
import TrackVerif.TA.Spec
import TrackVerif.TA.NumRat
import TrackVerif.Generated.TA
/-
  C02 — TrackAddict decode keeps every row, in order, in the right lap.
  Property theorems only; helper lemmas are in TA/Lemmas.lean and TA/Rows.lean.
-/
namespace TrackVerif.C02
open TrackVerif Outcome Gen TA

variable {α : Type} [Num α]

/-- tie: the header → (field, scalar parser, converter chain) table regenerated from
    `Decoder.columns` is the expected one (35 known headers) -/
theorem columns_table : Gen.TA.columns = Spec.expectedColumns := by decide
theorem literals_table : Gen.TA.literals = Spec.expectedLiterals := by decide
theorem extract_ok : Gen.TA.extractOk = true := by decide

/-- every data row exactly once, in file order: the first non-comment line is the header row and
    the session's records are, in order, the images of all other non-comment lines -/
theorem rows_once_in_order (t : Tables) (lines : List String) (s : Session α)
    (h : decodeLines t lines = .ok s) :
    (recordLines lines = [] ∧ allRecords s = []) ∨
    ∃ hdrLine rest hdr ps, recordLines lines = hdrLine :: rest ∧ csvRecord hdrLine = .ok hdr ∧
      resolveColumns t hdr = .ok ps ∧ AllRel (RowRel t ps) rest (allRecords s) := by
  rcases rows_from_start t lines initState s rfl h with ⟨h1, h2⟩ | ⟨hl, rest, hdr, ps, rs, h1, h2, h3, h4, h5⟩
  · exact Or.inl ⟨h1, by simpa [allRecords, initState, initSession, Lap.zero] using h2⟩
  · refine Or.inr ⟨hl, rest, hdr, ps, h1, h2, h3, ?_⟩
    have : allRecords s = rs := by simpa [allRecords, initState, initSession, Lap.zero] using h4
    rw [this]; exact h5

/-- a log with k lap markers yields k+1 laps, and the i-th lap carries the number and duration
    of the i-th marker; the last (open) lap keeps number 0 and duration 0 -/
theorem laps_follow_markers (t : Tables) (lines : List String) (s : Session α)
    (h : decodeLines t lines = .ok s) :
    s.laps.length = (lines.filterMap markerOf).length + 1 ∧
    closedSig s = lines.filterMap markerOf ∧ OpenZero s := by
  obtain ⟨h1, h2, h3⟩ := TA.laps_follow_markers t lines initState s openZero_init h
  refine ⟨?_, ?_, h3⟩
  · simp [initState, initSession] at h2; omega
  · simpa [closedSig, initState, initSession] using h1

/-- a lap marker numbered lower than the number of laps already closed is rejected: the step
    that reads it fails, hence so does the whole decode -/
theorem lower_marker_rejected (t : Tables) (st : DecState α) (l : String) (n d : Int)
    (rest : List String) (hm : markerOf l = some (n, d)) (hne : st.session.laps ≠ [])
    (hshort : l.utf8ByteSize < maxLine)
    (hlow : (st.session.laps.length : Int) - 1 > n) :
    decodeFrom t (l :: rest) st = .err .format := by
  unfold decodeFrom
  have : ¬ (l.utf8ByteSize ≥ maxLine) := by omega
  simp [this, lower_marker_step t st l n d hm hne hlow, Outcome.bind]

/-- assignments performed for a row: column j stores `parse(value_j)` into its target field,
    in column order (later columns overwrite earlier ones that share a target) -/
def assignAll : List (String × Scalar α) → Record α → Option (Record α)
  | [], r => some r
  | (tgt, sc) :: rest, r => (setField tgt sc r).bind (assignAll rest)

/-- a decoded record is exactly the sequential assignment of every column's parsed value to
    that column's field — each decoded field equals the value printed in its column -/
theorem row_is_assignments (t : Tables) (data : List String) (ps : List ColRow) (i : Nat)
    (r r' : Record α) (h : processRowFrom t data ps i r = .ok r') :
    ∃ scs : List (Scalar α), scs.length = ps.length ∧
      (∀ j (hj : j < ps.length) (hs : j < scs.length), ∃ v, data[i + j]? = some v ∧
          parseScalar t ps[j] v = .ok scs[j]) ∧
      assignAll ((ps.map (·.target)).zip scs) r = some r' := by
  induction ps generalizing i r with
  | nil =>
    simp only [processRowFrom] at h
    cases h
    exact ⟨[], rfl, by simp, rfl⟩
  | cons p ps ih =>
    unfold processRowFrom at h
    simp only [bind_eq] at h
    obtain ⟨v, hv, h⟩ := bind_eq_ok.mp h
    obtain ⟨sc, hsc, h⟩ := bind_eq_ok.mp h
    cases hset : setField p.target sc r with
    | none => simp [hset] at h
    | some r1 =>
      simp only [hset] at h
      obtain ⟨scs, hlen, hall, hassign⟩ := ih (i + 1) r1 h
      refine ⟨sc :: scs, by simp [hlen], ?_, by simp [assignAll, hset, hassign]⟩
      intro j hj hs
      cases j with
      | zero =>
        refine ⟨v, ?_, by simpa using hsc⟩
        unfold idx? at hv
        split at hv
        · rename_i a ha; cases hv; simpa using ha
        · cases hv
      | succ j =>
        have hj' : j < ps.length := by simpa using hj
        have hs' : j < scs.length := by simpa using hs
        obtain ⟨w, hw, hp⟩ := hall j hj' hs'
        exact ⟨w, by simpa [Nat.add_assoc, Nat.add_comm 1 j] using hw, by simpa using hp⟩

/-- non-vacuity: a two-lap log decodes with the markers' numbers and durations -/
example : (decodeLines (α := Rat) (Spec.tables []) ["Lap", "1", "# Lap 0: 00:00:01.500", "2"]).isOk = true := by
  decide

end TrackVerif.C02
