import TrackVerif.TA.Model
/-  Helper lemmas for the TrackAddict decode model (C02, C15).  Core only. -/
namespace TrackVerif.TA
open TrackVerif Outcome Gen

variable {α : Type} [Num α]

/-! ### List helpers -/

theorem takeWhile_all {β : Type} (p : β → Bool) (l : List β) (h : ∀ a ∈ l, p a = true) :
    l.takeWhile p = l := by
  induction l with
  | nil => rfl
  | cons a l ih =>
    have ha : p a = true := h a (by simp)
    simp [ha, ih (fun b hb => h b (by simp [hb]))]

theorem dropWhile_all {β : Type} (p : β → Bool) (l : List β) (h : ∀ a ∈ l, p a = true) :
    l.dropWhile p = [] := by
  induction l with
  | nil => rfl
  | cons a l ih =>
    have ha : p a = true := h a (by simp)
    simp [ha, ih (fun b hb => h b (by simp [hb]))]

/-! ### No Go panic in the scalar parsers -/

/-- split conditionals / matches until every leaf is a literal outcome -/
macro "np_split" : tactic => `(tactic| repeat' first | (simp; done) | split | (simp only []) | (dsimp only) )

theorem parseBool_noPanic (s : String) : NoPanic (parseBool s) := by
  unfold parseBool; np_split

theorem parseInt_noPanic (s : String) : NoPanic (parseInt s) := by
  unfold parseInt; np_split

theorem parseFloat_noPanic (s : String) : NoPanic (parseFloat s : Outcome α) := by
  unfold parseFloat; np_split

theorem durationComponents_noPanic (fuel : Nat) (s : List Char) (d : Nat) :
    NoPanic (durationComponents fuel s d) := by
  induction fuel generalizing s d with
  | zero => simp [durationComponents]
  | succ n ih =>
    unfold durationComponents
    np_split
    all_goals exact ih _ _

theorem goParseDuration_noPanic (s : List Char) : NoPanic (goParseDuration s) := by
  unfold goParseDuration
  np_split
  all_goals (rename_i p hp; exact absurd hp (durationComponents_noPanic _ _ _ p))

theorem parseDuration_noPanic (s : String) : NoPanic (parseDuration s) :=
  goParseDuration_noPanic _

theorem scanInt_noPanic (cs : List Char) : NoPanic (scanInt cs) := by
  unfold scanInt; np_split

theorem scanLit_noPanic (c : Char) (cs : List Char) : NoPanic (scanLit c cs) := by
  unfold scanLit; np_split

theorem parseUnixMs_noPanic (s : String) : NoPanic (parseUnixMs s) := by
  unfold parseUnixMs
  simp only
  split
  · simp
  · refine noPanic_bind (scanInt_noPanic _) (fun a _ => ?_)
    refine noPanic_bind (scanLit_noPanic _ _) (fun b _ => ?_)
    refine noPanic_bind (scanInt_noPanic _) (fun c _ => ?_)
    np_split

theorem parseLapDuration_noPanic (s : List Char) : NoPanic (parseLapDuration s) := by
  unfold parseLapDuration
  split
  · simp
  · refine noPanic_bind (scanInt_noPanic _) (fun a _ => ?_)
    refine noPanic_bind (scanLit_noPanic _ _) (fun b _ => ?_)
    refine noPanic_bind (scanInt_noPanic _) (fun c _ => ?_)
    refine noPanic_bind (scanLit_noPanic _ _) (fun d _ => ?_)
    refine noPanic_bind (scanInt_noPanic _) (fun e _ => ?_)
    refine noPanic_bind (scanLit_noPanic _ _) (fun f _ => ?_)
    refine noPanic_bind (scanInt_noPanic _) (fun g _ => ?_)
    exact goParseDuration_noPanic _

theorem parseScalar_noPanic (t : Tables) (row : ColRow) (v : String) :
    NoPanic (parseScalar t row v : Outcome (Scalar α)) := by
  unfold parseScalar
  split
  · exact noPanic_map (parseDuration_noPanic _)
  · split
    · exact noPanic_map (parseInt_noPanic _)
    · split
      · exact noPanic_map (parseBool_noPanic _)
      · split
        · exact noPanic_map (parseUnixMs_noPanic _)
        · split
          · refine noPanic_bind (parseFloat_noPanic _) (fun x _ => ?_)
            np_split
          · simp

/-! ### Rows -/

theorem processRowFrom_noPanic (t : Tables) (data : List String) (ps : List ColRow) (i : Nat)
    (r : Record α) (h : i + ps.length ≤ data.length) :
    NoPanic (processRowFrom t data ps i r) := by
  induction ps generalizing i r with
  | nil => simp [processRowFrom]
  | cons p ps ih =>
    unfold processRowFrom
    have hi : i < data.length := by simp at h; omega
    refine noPanic_bind (by rw [idx?_ok_of_lt _ _ hi]; simp) (fun v _ => ?_)
    refine noPanic_bind (parseScalar_noPanic t p v) (fun sc _ => ?_)
    split
    · exact ih _ _ (by simp at h; omega)
    · simp

theorem processRow_noPanic (t : Tables) (ps : List ColRow) (data : List String)
    (h : ps.length ≤ data.length) : NoPanic (processRow t ps data : Outcome (Record α)) := by
  unfold processRow
  exact processRowFrom_noPanic t data ps 0 _ (by omega)

theorem foldlM_resolve (t : Tables) (hdrs : List String) (acc : List ColRow) :
    NoPanic (hdrs.foldlM (fun acc h =>
      match t.columns.find? (·.header = h) with
      | some row => Outcome.ok (acc ++ [row])
      | none => Outcome.err .parse) acc) ∧
    ∀ ps, hdrs.foldlM (fun acc h =>
      match t.columns.find? (·.header = h) with
      | some row => Outcome.ok (acc ++ [row])
      | none => Outcome.err .parse) acc = .ok ps → ps.length = acc.length + hdrs.length := by
  induction hdrs generalizing acc with
  | nil => simp [List.foldlM]
  | cons h hs ih =>
    simp only [List.foldlM_cons, bind_eq, List.length_cons]
    cases hf : t.columns.find? (·.header = h) with
    | none => simp [Outcome.bind]
    | some row =>
      simp only [bind_ok]
      have := ih (acc ++ [row])
      refine ⟨this.1, fun ps hps => ?_⟩
      have := this.2 ps hps
      simp at this; omega

theorem resolveColumns_noPanic (t : Tables) (hdrs : List String) :
    NoPanic (resolveColumns t hdrs) := (foldlM_resolve t hdrs []).1

theorem resolveColumns_length (t : Tables) (hdrs : List String) (ps : List ColRow)
    (h : resolveColumns t hdrs = .ok ps) : ps.length = hdrs.length := by
  have := (foldlM_resolve t hdrs []).2 ps h
  simpa using this

/-! ### CSV -/

theorem csvQuoted_noPanic (fuel : Nat) (line acc : List Char) : NoPanic (csvQuoted fuel line acc) := by
  induction fuel generalizing line acc with
  | zero => simp [csvQuoted]
  | succ n ih =>
    unfold csvQuoted
    split
    · simp
    · simp only
      split
      · exact ih _ _
      · simp
      · simp
      · simp

theorem csvFields_noPanic (fuel : Nat) (line : List Char) (acc : List String) :
    NoPanic (csvFields fuel line acc) := by
  induction fuel generalizing line acc with
  | zero => simp [csvFields]
  | succ n ih =>
    unfold csvFields
    split
    · rename_i r
      have hq := csvQuoted_noPanic (r.length + 1) r []
      split
      · exact ih _ _
      · simp
      · simp
      · rename_i p hp; exact absurd hp (hq p)
      · simp
    · simp only
      split
      · simp
      · split
        · simp
        · exact ih _ _

theorem csvRecord_noPanic (line : String) : NoPanic (csvRecord line) := by
  unfold csvRecord
  np_split
  all_goals exact csvFields_noPanic _ _ _

/-! ### Comments -/

theorem splitColon_cases (s : List Char) :
    (∃ a, splitColon s = [a]) ∨ (∃ a b, splitColon s = [a, b]) := by
  unfold splitColon
  simp only
  split
  · exact Or.inl ⟨_, rfl⟩
  · exact Or.inr ⟨_, _, rfl⟩

theorem parseCoordinate_noPanic (g : GPS α) (a b c : List Char) :
    NoPanic (parseCoordinate g a b c) := by
  unfold parseCoordinate
  refine noPanic_bind (parseFloat_noPanic _) (fun _ _ => ?_)
  refine noPanic_bind (parseFloat_noPanic _) (fun _ _ => ?_)
  refine noPanic_bind (parseFloat_noPanic _) (fun _ _ => ?_)
  simp

omit [Num α] in
theorem lapMarker_noPanic (s : Session α) (p0 p1 : List Char) (h : s.laps ≠ []) :
    NoPanic (lapMarker s p0 p1) := by
  unfold lapMarker
  split
  · rename_i hn
    simp [List.getLast?_eq_none_iff] at hn
    exact absurd hn h
  · refine noPanic_bind (parseInt_noPanic _) (fun n _ => ?_)
    split
    · simp
    · refine noPanic_bind (parseLapDuration_noPanic _) (fun d _ => ?_)
      simp

theorem parseMetadata_noPanic (s : Session α) (line : List Char) (h : s.laps ≠ []) :
    NoPanic (parseMetadata s line) := by
  unfold parseMetadata
  simp only
  rcases splitColon_cases (line.drop 2) with ⟨a, ha⟩ | ⟨a, b, ha⟩
  · rw [ha]; simp only; split <;> simp
  · rw [ha]; simp only
    split
    · split
      · simp
      · exact noPanic_map (parseCoordinate_noPanic _ _ _ _)
    · split
      · simp
      · split
        · exact lapMarker_noPanic s a b h
        · simp

/-! ### Invariant of the decode loop -/

/-- the session always has an open lap, and once the header row has been read the CSV field
    count equals the number of column parsers (what encoding/csv enforces for `data[i]`) -/
def Inv (st : DecState α) : Prop :=
  st.session.laps ≠ [] ∧ ∀ ps, st.parsers = some ps → st.fields = some ps.length

theorem inv_init : Inv (initState : DecState α) := by
  simp [Inv, initState, initSession]

omit [Num α] in
theorem setLastLap_ne_nil (laps : List (Lap α)) (l : Lap α) : setLastLap laps l ≠ [] := by
  simp [setLastLap]

omit [Num α] in
theorem lapMarker_laps_ne_nil (s s' : Session α) (p0 p1 : List Char)
    (h : lapMarker s p0 p1 = .ok s') : s'.laps ≠ [] := by
  unfold lapMarker at h
  split at h
  · cases h
  · simp only [bind_eq] at h
    obtain ⟨n, _, h⟩ := bind_eq_ok.mp h
    split at h
    · cases h
    · obtain ⟨d, _, h⟩ := bind_eq_ok.mp h
      cases h; simp

theorem parseMetadata_laps_ne_nil (s s' : Session α) (line : List Char) (hs : s.laps ≠ [])
    (h : parseMetadata s line = .ok s') : s'.laps ≠ [] := by
  unfold parseMetadata at h
  simp only at h
  rcases splitColon_cases (line.drop 2) with ⟨a, ha⟩ | ⟨a, b, ha⟩
  · rw [ha] at h; simp only at h; split at h
    · cases h
    · cases h; exact hs
  · rw [ha] at h; simp only at h
    split at h
    · split at h
      · cases h
      · obtain ⟨g, _, h⟩ := map_eq_ok.mp h
        subst h; exact hs
    · split at h
      · cases h; exact hs
      · split at h
        · exact lapMarker_laps_ne_nil s s' a b h
        · cases h; exact hs

omit [Num α] in
theorem appendRecord_ne_nil (s s' : Session α) (r : Record α) (h : appendRecord s r = .ok s') :
    s'.laps ≠ [] := by
  unfold appendRecord at h
  split at h
  · cases h
  · cases h; simp [setLastLap]

omit [Num α] in
theorem appendRecord_noPanic (s : Session α) (r : Record α) (h : s.laps ≠ []) :
    NoPanic (appendRecord s r) := by
  unfold appendRecord
  split
  · rename_i hn
    simp [List.getLast?_eq_none_iff] at hn
    exact absurd hn h
  · simp

theorem stepRecord_inv (t : Tables) (st st' : DecState α) (line : String) (hi : Inv st)
    (h : stepRecord t st line = .ok st') : Inv st' := by
  unfold stepRecord at h
  simp only [bind_eq] at h
  obtain ⟨rec, hrec, h⟩ := bind_eq_ok.mp h
  by_cases hc : (!countOk st.fields rec.length) = true
  · simp [hc] at h
  · simp only [hc] at h
    cases hp : st.parsers with
    | none =>
      simp only [hp] at h
      obtain ⟨ps, hps, h⟩ := bind_eq_ok.mp h
      cases h
      refine ⟨hi.1, fun ps' hps' => ?_⟩
      simp at hps'; subst hps'
      simp [resolveColumns_length t rec ps hps]
    | some ps =>
      simp only [hp] at h
      obtain ⟨r, hr, h⟩ := bind_eq_ok.mp h
      obtain ⟨s, hs, h⟩ := bind_eq_ok.mp h
      cases h
      refine ⟨appendRecord_ne_nil _ _ _ hs, fun ps' hps' => ?_⟩
      simp only at hps'
      have := hi.2 ps' (hp.trans hps')
      rw [this] at hc
      simp [countOk] at hc
      simp [hc]

theorem stepLine_inv (t : Tables) (st st' : DecState α) (line : String) (hi : Inv st)
    (h : stepLine t st line = .ok st') : Inv st' := by
  unfold stepLine at h
  split at h
  · obtain ⟨s, hs, h⟩ := map_eq_ok.mp h
    subst h
    exact ⟨parseMetadata_laps_ne_nil _ _ _ hi.1 hs, hi.2⟩
  · exact stepRecord_inv t st st' line hi h

theorem stepRecord_noPanic (t : Tables) (st : DecState α) (line : String) (hi : Inv st) :
    NoPanic (stepRecord t st line) := by
  unfold stepRecord
  simp only [bind_eq]
  refine noPanic_bind (csvRecord_noPanic _) (fun rec _ => ?_)
  by_cases hc : (!countOk st.fields rec.length) = true
  · simp [hc]
  · simp only [hc]
    cases hp : st.parsers with
    | none => exact noPanic_bind (resolveColumns_noPanic _ _) (fun _ _ => by simp)
    | some ps =>
      have hf := hi.2 ps hp
      rw [hf] at hc
      simp [countOk] at hc
      refine noPanic_bind (processRow_noPanic t ps rec (by omega)) (fun r _ => ?_)
      exact noPanic_bind (appendRecord_noPanic _ _ hi.1) (fun _ _ => by simp)

theorem stepLine_noPanic (t : Tables) (st : DecState α) (line : String) (hi : Inv st) :
    NoPanic (stepLine t st line) := by
  unfold stepLine
  split
  · exact noPanic_map (parseMetadata_noPanic _ _ hi.1)
  · exact stepRecord_noPanic t st line hi

theorem decodeFrom_noPanic (t : Tables) (ls : List String) (st : DecState α) (hi : Inv st) :
    NoPanic (decodeFrom t ls st) := by
  induction ls generalizing st with
  | nil => simp [decodeFrom]
  | cons l ls ih =>
    unfold decodeFrom
    split
    · simp
    · exact noPanic_bind (stepLine_noPanic t st l hi) (fun st' h => ih st' (stepLine_inv t st st' l hi h))

end TrackVerif.TA
