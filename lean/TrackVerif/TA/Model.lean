import TrackVerif.Common.Outcome
import TrackVerif.Common.GenTypes
/-
  Executable model of `pkg/trackaddict` decoding (decoder.go, helpers.go, record.go,
  lap.go, gps.go, obd.go, accel.go, units.go), parameterised by the column table that the
  translator regenerates from `Decoder.columns` on every run.

  Numbers are polymorphic in `Num α` (Float for the correspondence, Rat for theorems).
  Go crash points are `Outcome.panic`; inputs outside the modelled stdlib grammar are
  `Outcome.unmodelled` (never a default value).
-/
namespace TrackVerif.TA
open TrackVerif Gen

/-- the arithmetic the decoder performs on logged numbers -/
class Num (α : Type) where
  /-- `(-1)^neg * m * 10^e`, as `strconv.ParseFloat` yields it; `none` = out of range -/
  ofDec : Bool → Nat → Int → Option α
  add : α → α → α
  sub : α → α → α
  mul : α → α → α
  div : α → α → α
  zero : α

structure GPS (α : Type) where
  update : Bool
  delay : Int
  lat : α
  lon : α
  alt : α
  acc : α
  heading : α
  deriving Repr, DecidableEq

structure OBD (α : Type) where
  update : Bool
  speed : Option α
  rpm : Option α
  throttle : Option α
  coolant : Option α
  intake : Option α
  manifold : Option α
  deriving Repr, DecidableEq

structure Accel (α : Type) where
  x : α
  y : α
  z : α
  deriving Repr, DecidableEq

structure Record (α : Type) where
  now : Int
  time : Option Int          -- ns since the Unix epoch; `none` = Go zero time
  lap : Int
  predicted : Int
  offset : Int
  gps : GPS α
  speed : α
  accel : Option (Accel α)
  brake : Bool
  baro : α
  palt : α
  obd : Option (OBD α)
  deriving Repr, DecidableEq

structure Lap (α : Type) where
  duration : Int
  number : Int
  records : List (Record α)
  deriving Repr, DecidableEq

structure Session (α : Type) where
  laps : List (Lap α)               -- never empty: the last one is the open lap
  metadata : List (String × String) -- insertion order, later writes replace earlier
  vehicle : String
  endpoint : GPS α
  deriving Repr, DecidableEq

variable {α : Type} [Num α]

def GPS.zero : GPS α := ⟨false, 0, Num.zero, Num.zero, Num.zero, Num.zero, Num.zero⟩
def OBD.zero : OBD α := ⟨false, none, none, none, none, none, none⟩
def Accel.zero : Accel α := ⟨Num.zero, Num.zero, Num.zero⟩
def Record.zero : Record α :=
  ⟨0, none, 0, 0, 0, GPS.zero, Num.zero, none, false, Num.zero, Num.zero, none⟩
def Lap.zero : Lap α := ⟨0, 0, []⟩

/-! ### Go string helpers -/

/-- `unicode.IsSpace` -/
def isGoSpace (c : Char) : Bool :=
  c == ' ' || c == '\t' || c == '\n' || c.toNat == 0x0b || c.toNat == 0x0c || c == '\r' ||
  c.toNat == 0x85 || c.toNat == 0xA0 || c.toNat == 0x1680 ||
  (0x2000 ≤ c.toNat && c.toNat ≤ 0x200a) || c.toNat == 0x2028 || c.toNat == 0x2029 ||
  c.toNat == 0x202f || c.toNat == 0x205f || c.toNat == 0x3000

/-- `strings.TrimSpace` -/
def trimSpace (s : List Char) : List Char :=
  ((s.dropWhile isGoSpace).reverse.dropWhile isGoSpace).reverse

def isDigit (c : Char) : Bool := '0' ≤ c && c ≤ '9'

def digitVal (c : Char) : Nat := c.toNat - 48

/-- value of a run of decimal digits -/
def digitsVal (ds : List Char) : Nat := ds.foldl (fun a c => a * 10 + digitVal c) 0

/-- `strings.SplitN(s, ":", 2)` -/
def splitColon (s : List Char) : List (List Char) :=
  let pre := s.takeWhile (· ≠ ':')
  let rest := s.dropWhile (· ≠ ':')
  match rest with
  | [] => [pre]
  | _ :: post => [pre, post]

def maxInt64 : Int := 9223372036854775807
def minInt64 : Int := -9223372036854775808

/-! ### Scalar parsers -/

/-- `strconv.ParseBool` -/
def parseBool (s : String) : Outcome Bool :=
  if s ∈ ["1", "t", "T", "TRUE", "true", "True"] then .ok true
  else if s ∈ ["0", "f", "F", "FALSE", "false", "False"] then .ok false
  else .err .parse

/-- `[+-]?[0-9]+` as a signed value (no range check) -/
def signedDigits (cs : List Char) : Option Int :=
  let (neg, ds) := match cs with
    | '-' :: r => (true, r)
    | '+' :: r => (false, r)
    | r => (false, r)
  if ds.isEmpty || !ds.all isDigit then none
  else some (if neg then -(digitsVal ds : Int) else (digitsVal ds : Int))

/-- `strconv.Atoi` on a 64-bit platform -/
def parseInt (s : String) : Outcome Int :=
  match signedDigits s.toList with
  | none => .err .parse
  | some v => if minInt64 ≤ v ∧ v ≤ maxInt64 then .ok v else .err .parse

/-- decimal floating-point literal: `[+-]? (d+ [. d*] | . d+) ([eE][+-]?d+)?`
    returns sign, mantissa and decimal exponent -/
def parseDecimal (cs : List Char) : Option (Bool × Nat × Int) :=
  let (neg, r) := match cs with
    | '-' :: r => (true, r)
    | '+' :: r => (false, r)
    | r => (false, r)
  let ip := r.takeWhile isDigit
  let r := r.dropWhile isDigit
  let (fp, r, sawDot) := match r with
    | '.' :: r' => (r'.takeWhile isDigit, r'.dropWhile isDigit, true)
    | _ => ([], r, false)
  let _ := sawDot
  if ip.isEmpty && fp.isEmpty then none else
  let mant := digitsVal (ip ++ fp)
  let e0 : Int := -(fp.length : Int)
  match r with
  | [] => some (neg, mant, e0)
  | c :: r' =>
    if c == 'e' || c == 'E' then
      match signedDigits r' with
      | some ex => some (neg, mant, e0 + ex)
      | none => none
    else none

/-- characters that can start or occur in the non-decimal forms `strconv.ParseFloat`
    also accepts (hex floats, underscores, inf/infinity/nan in any case) -/
def exoticFloatChar (c : Char) : Bool :=
  c == 'x' || c == 'X' || c == '_' || c == 'p' || c == 'P' ||
  c == 'i' || c == 'I' || c == 'n' || c == 'N'

/-- `strconv.ParseFloat(s, 64)` -/
def parseFloat (s : String) : Outcome α :=
  let cs := s.toList
  match parseDecimal cs with
  | some (neg, m, e) =>
    -- absurdly long exponents are not worth modelling (ParseFloat reports a range error)
    if e.natAbs > 5000 then .unmodelled else
    match Num.ofDec neg m e with
    | some x => .ok x
    | none => .err .parse
  | none => if cs.any exoticFloatChar then .unmodelled else .err .parse

/-- `time.ParseDuration` unit table (ns per unit) -/
def unitNs (u : List Char) : Option Nat :=
  if u = ['n', 's'] then some 1
  else if u = ['u', 's'] ∨ u = ['µ', 's'] ∨ u = ['μ', 's'] then some 1000
  else if u = ['m', 's'] then some 1000000
  else if u = ['s'] then some 1000000000
  else if u = ['m'] then some 60000000000
  else if u = ['h'] then some 3600000000000
  else none

def two63 : Nat := 9223372036854775808

/-- the `for s != ""` loop of `time.ParseDuration`; `fuel` bounds the component count -/
def durationComponents (fuel : Nat) (s : List Char) (d : Nat) : Outcome Nat :=
  match fuel with
  | 0 => .unmodelled
  | fuel + 1 =>
    match s with
    | [] => .ok d
    | c :: _ =>
      if !(c == '.' || isDigit c) then .err .parse else
      let ds := s.takeWhile isDigit
      let r := s.dropWhile isDigit
      let v := digitsVal ds
      if v > two63 then .err .parse else      -- leadingInt overflow
      match r with
      | '.' :: _ => .unmodelled               -- fractional component (float arithmetic in Go)
      | _ =>
        if ds.isEmpty then .err .parse else
        let u := r.takeWhile (fun c => !(c == '.' || isDigit c))
        let r := r.dropWhile (fun c => !(c == '.' || isDigit c))
        if u.isEmpty then .err .parse else
        match unitNs u with
        | none => .err .parse
        | some unit =>
          if v > two63 / unit then .err .parse else
          let d := d + v * unit
          if d > two63 then .err .parse else
          durationComponents fuel r d

/-- `time.ParseDuration` (components without fractions) -/
def goParseDuration (s : List Char) : Outcome Int :=
  let (neg, r) := match s with
    | '-' :: r => (true, r)
    | '+' :: r => (false, r)
    | r => (false, r)
  if r = ['0'] then .ok 0
  else if r.isEmpty then .err .parse
  else
    match durationComponents (r.length + 1) r 0 with
    | .ok d =>
      if neg then .ok (-(d : Int))
      else if d > two63 - 1 then .err .parse else .ok (d : Int)
    | .err e => .err e
    | .panic p => .panic p
    | .unmodelled => .unmodelled

/-- `strings.Replace(value, ".", "s", 1)` -/
def replaceFirstDot (s : List Char) : List Char :=
  match s.dropWhile (· ≠ '.') with
  | [] => s
  | _ :: post => s.takeWhile (· ≠ '.') ++ 's' :: post

/-- helpers.go `parseDuration`: `<seconds>.<milliseconds>` via the replace trick -/
def parseDuration (s : String) : Outcome Int :=
  goParseDuration (replaceFirstDot s.toList ++ ['m', 's'])

/-- characters for which `fmt.Sscanf` has rules of its own (space skipping, `_`) -/
def scanExotic (c : Char) : Bool := isGoSpace c || c == '_'

/-- one `%d` of `fmt.Sscanf`: optional sign, digits, int64 range; returns value and rest -/
def scanInt (cs : List Char) : Outcome (Int × List Char) :=
  let (neg, r) := match cs with
    | '-' :: r => (true, r)
    | '+' :: r => (false, r)
    | r => (false, r)
  let ds := r.takeWhile isDigit
  let r := r.dropWhile isDigit
  if ds.isEmpty then .err .parse else
  let v : Int := if neg then -(digitsVal ds : Int) else (digitsVal ds : Int)
  if minInt64 ≤ v ∧ v ≤ maxInt64 then .ok (v, r) else .err .parse

def scanLit (c : Char) (cs : List Char) : Outcome (List Char) :=
  match cs with
  | d :: r => if d = c then .ok r else .err .parse
  | [] => .err .parse

/-- record.go `parseRecordTime`: `Sscanf(value, "%d.%d", &s, &ms)`; `time.Unix(s, ms*1e6)` -/
def parseUnixMs (s : String) : Outcome Int :=
  let cs := s.toList
  if cs.any scanExotic then .unmodelled else do
    let (sec, r) ← scanInt cs
    let r ← scanLit '.' r
    let (ms, _) ← scanInt r
    if ms.natAbs > 9000000000000 ∨ sec.natAbs > 4000000000000000000 then .unmodelled
    else .ok (sec * 1000000000 + ms * 1000000)

/-- lap.go `parseLapDuration`: `Sscanf("%d:%d:%d.%d")` then `ParseDuration("%dh%dm%ds%dms")` -/
def parseLapDuration (s : List Char) : Outcome Int :=
  if s.any scanExotic then .unmodelled else do
    let (h, r) ← scanInt s
    let r ← scanLit ':' r
    let (m, r) ← scanInt r
    let r ← scanLit ':' r
    let (sec, r) ← scanInt r
    let r ← scanLit '.' r
    let (ms, _) ← scanInt r
    goParseDuration ((toString h).toList ++ ['h'] ++ (toString m).toList ++ ['m'] ++
      (toString sec).toList ++ ['s'] ++ (toString ms).toList ++ ['m', 's'])

/-! ### Unit converters (bodies and constants come from the regenerated tables) -/

structure Tables where
  columns : List ColRow
  consts : List (String × DecLit)
  convBodies : List (String × Expr)

def evalExpr (t : Tables) (x : α) : Expr → Option α
  | .v => some x
  | .lit d => Num.ofDec false d.mant (-(d.places : Int))
  | .const n => (t.consts.lookup n).bind fun d => Num.ofDec false d.mant (-(d.places : Int))
  | .add a b => do let u ← evalExpr t x a; let w ← evalExpr t x b; pure (Num.add u w)
  | .sub a b => do let u ← evalExpr t x a; let w ← evalExpr t x b; pure (Num.sub u w)
  | .mul a b => do let u ← evalExpr t x a; let w ← evalExpr t x b; pure (Num.mul u w)
  | .div a b => do let u ← evalExpr t x a; let w ← evalExpr t x b; pure (Num.div u w)

/-- apply one named converter; `units.*` entries are the decoder's output-unit hooks, which
    are nil (dropped by `converters`) because no exported option sets them -/
def unitHooks : List String :=
  ["units.Altitude", "units.Accuracy", "units.Speed", "units.Pressure", "units.Temperature"]

def applyConv (t : Tables) (name : String) (x : α) : Option α :=
  if name ∈ unitHooks then some x
  else (t.convBodies.lookup name).bind (evalExpr t x)

def applyChain (t : Tables) (chain : List String) (x : α) : Option α :=
  chain.foldlM (fun acc n => applyConv t n acc) x

/-! ### Field assignment -/

inductive Scalar (α : Type)
  | dur (ns : Int)
  | time (ns : Int)
  | int (i : Int)
  | bool (b : Bool)
  | num (x : α)

def initOBD (r : Record α) : OBD α := r.obd.getD OBD.zero
def initAccel (r : Record α) : Accel α := r.accel.getD Accel.zero

/-- assignment performed by the parser registered for a column -/
def setField (target : String) (v : Scalar α) (r : Record α) : Option (Record α) :=
  match target, v with
  | "Now", .dur d => some { r with now := d }
  | "Time", .time t => some { r with time := some t }
  | "Lap", .int i => some { r with lap := i }
  | "Predicted", .dur d => some { r with predicted := d }
  | "Offset", .dur d => some { r with offset := d }
  | "GPS.Update", .bool b => some { r with gps := { r.gps with update := b } }
  | "GPS.Delay", .dur d => some { r with gps := { r.gps with delay := d } }
  | "GPS.Latitude", .num x => some { r with gps := { r.gps with lat := x } }
  | "GPS.Longitude", .num x => some { r with gps := { r.gps with lon := x } }
  | "GPS.Altitude", .num x => some { r with gps := { r.gps with alt := x } }
  | "GPS.Accuracy", .num x => some { r with gps := { r.gps with acc := x } }
  | "GPS.Heading", .num x => some { r with gps := { r.gps with heading := x } }
  | "Speed", .num x => some { r with speed := x }
  | "Accel.X", .num x => some { r with accel := some { initAccel r with x := x } }
  | "Accel.Y", .num x => some { r with accel := some { initAccel r with y := x } }
  | "Accel.Z", .num x => some { r with accel := some { initAccel r with z := x } }
  | "Brake", .bool b => some { r with brake := b }
  | "BarometricPressure", .num x => some { r with baro := x }
  | "PressureAltitute", .num x => some { r with palt := x }
  | "OBD.Update", .bool b => some { r with obd := some { initOBD r with update := b } }
  | "OBD.Speed", .num x => some { r with obd := some { initOBD r with speed := some x } }
  | "OBD.EngineSpeed", .num x => some { r with obd := some { initOBD r with rpm := some x } }
  | "OBD.Throttle", .num x => some { r with obd := some { initOBD r with throttle := some x } }
  | "OBD.CoolantTemp", .num x => some { r with obd := some { initOBD r with coolant := some x } }
  | "OBD.IntakeTemp", .num x => some { r with obd := some { initOBD r with intake := some x } }
  | "OBD.ManifoldPressure", .num x => some { r with obd := some { initOBD r with manifold := some x } }
  | _, _ => none

/-- the translator's fingerprint of `parseRecordTime` (format and the `time.Unix` call) -/
def unixMsKind : String := "sscanf:%d.%d:time.Unix(s,(ms*int64(time.Millisecond)))"

/-- scalar parser selected by the column's `kind` -/
def parseScalar (t : Tables) (row : ColRow) (value : String) : Outcome (Scalar α) :=
  if row.kind = "duration" then (parseDuration value).map .dur
  else if row.kind = "int" then (parseInt value).map .int
  else if row.kind = "bool" then (parseBool value).map .bool
  else if row.kind = unixMsKind then (parseUnixMs value).map .time
  else if row.kind = "float" ∨ row.kind = "floatp" then do
    let x ← (parseFloat value : Outcome α)
    let chain := if row.applies then row.convs else []
    match applyChain t chain x with
    | some y => .ok (.num y)
    | none => .unmodelled
  else .unmodelled

/-- `Decoder.columns`: header names → parsers, unknown name is an error -/
def resolveColumns (t : Tables) (hdrs : List String) : Outcome (List ColRow) :=
  hdrs.foldlM (fun acc h =>
    match t.columns.find? (·.header = h) with
    | some row => Outcome.ok (acc ++ [row])
    | none => Outcome.err .parse) []

/-- `Decoder.process`: one data row.  `data[i]` is Go indexing; encoding/csv's field-count
    check makes it unreachable but the model keeps the crash point. -/
def processRowFrom (t : Tables) (data : List String) : List ColRow → Nat → Record α → Outcome (Record α)
  | [], _, r => .ok r
  | p :: ps, i, r => do
    let v ← idx? data i
    let sc ← parseScalar t p v
    match setField p.target sc r with
    | some r' => processRowFrom t data ps (i + 1) r'
    | none => .unmodelled

def processRow (t : Tables) (parsers : List ColRow) (data : List String) : Outcome (Record α) :=
  processRowFrom t data parsers 0 Record.zero

/-! ### CSV (one physical line per record, as the decoder feeds `encoding/csv`) -/

/-- parse the remainder of a quoted field (after the opening quote) -/
def csvQuoted (fuel : Nat) (line : List Char) (acc : List Char) : Outcome (List Char × Option (List Char)) :=
  match fuel with
  | 0 => .unmodelled
  | fuel + 1 =>
    match line.dropWhile (· ≠ '"') with
    | [] => .err .parse                         -- no closing quote before the end of the line
    | _ :: after =>
      let acc := acc ++ line.takeWhile (· ≠ '"')
      match after with
      | '"' :: r => csvQuoted fuel r (acc ++ ['"'])      -- `""` → `"`
      | ',' :: r => .ok (acc, some r)                     -- end of field, more follow
      | [] => .ok (acc, none)                             -- end of record
      | _ => .err .parse                                  -- ErrQuote

/-- fields of one line -/
def csvFields (fuel : Nat) (line : List Char) (acc : List String) : Outcome (List String) :=
  match fuel with
  | 0 => .unmodelled
  | fuel + 1 =>
    match line with
    | '"' :: r =>
      match csvQuoted (r.length + 1) r [] with
      | .ok (f, some rest) => csvFields fuel rest (acc ++ [String.ofList f])
      | .ok (f, none) => .ok (acc ++ [String.ofList f])
      | .err e => .err e
      | .panic p => .panic p
      | .unmodelled => .unmodelled
    | _ =>
      let f := line.takeWhile (· ≠ ',')
      if f.contains '"' then .err .parse else           -- ErrBareQuote
      match line.dropWhile (· ≠ ',') with
      | [] => .ok (acc ++ [String.ofList f])
      | _ :: rest => csvFields fuel rest (acc ++ [String.ofList f])

/-- `csv.Reader.Read` on `line + "\n"`: a trailing CR is folded into the newline, an empty
    line is skipped and the reader then reports EOF -/
def csvRecord (line : String) : Outcome (List String) :=
  let cs := line.toList
  let cs := if cs.getLast? = some '\r' then cs.dropLast else cs
  if cs.isEmpty then .err .eof
  else if cs.contains '\r' ∨ cs.contains '\n' then .unmodelled
  else csvFields (cs.length + 1) cs []

/-! ### Header comments -/

def endpointClass (c : Char) : Bool := isDigit c || c == '.' || c == '-'

/-- try to match `([0-9\.\-]+), +([0-9\.\-]+) +@ +([0-9\.\-]+)` at the start of `s` -/
def endpointAt (s : List Char) : Option (List Char × List Char × List Char) :=
  let g1 := s.takeWhile endpointClass
  if g1.isEmpty then none else
  match s.dropWhile endpointClass with
  | ',' :: r =>
    let sp := r.takeWhile (· == ' ')
    if sp.isEmpty then none else
    let r := r.dropWhile (· == ' ')
    let g2 := r.takeWhile endpointClass
    if g2.isEmpty then none else
    let r := r.dropWhile endpointClass
    let sp := r.takeWhile (· == ' ')
    if sp.isEmpty then none else
    match r.dropWhile (· == ' ') with
    | '@' :: r =>
      let sp := r.takeWhile (· == ' ')
      if sp.isEmpty then none else
      let r := r.dropWhile (· == ' ')
      let g3 := r.takeWhile endpointClass
      if g3.isEmpty then none else some (g1, g2, g3)
    | _ => none
  | _ => none

/-- leftmost match (`FindStringSubmatch`) -/
def endpointFind : List Char → Option (List Char × List Char × List Char)
  | [] => none
  | c :: r =>
    match endpointAt (c :: r) with
    | some m => some m
    | none => endpointFind r

def setMeta (m : List (String × String)) (k v : String) : List (String × String) :=
  if m.any (·.1 = k) then m.map (fun p => if p.1 = k then (k, v) else p) else m ++ [(k, v)]

/-- replace the last (open) lap -/
def setLastLap (laps : List (Lap α)) (l : Lap α) : List (Lap α) := laps.dropLast ++ [l]

/-- literals of `parseMetadata` / `Decode` (kept as named constants so proofs treat them opaquely) -/
def kEndPoint : List Char := "End Point".toList
def kVehicle : List Char := "Vehicle".toList
def kLapPrefix : List Char := "Lap ".toList
def kHash : List Char := "# ".toList

/-- the three floats of an `# End Point:` comment -/
def parseCoordinate (g : GPS α) (a b c : List Char) : Outcome (GPS α) := do
  let lat ← (parseFloat (String.ofList a) : Outcome α)
  let lon ← (parseFloat (String.ofList b) : Outcome α)
  let hd ← (parseFloat (String.ofList c) : Outcome α)
  .ok { g with lat := lat, lon := lon, heading := hd }

/-- `# Lap N: hh:mm:ss.mmm` closes the open lap and opens the next one -/
def lapMarker (s : Session α) (p0 p1 : List Char) : Outcome (Session α) :=
  match s.laps.getLast? with
  | none => .panic .index
  | some lap => do
    let n ← parseInt (String.ofList (p0.drop 4))
    if (s.laps.length : Int) - 1 > n then .err .format else do
      let d ← parseLapDuration (trimSpace p1)
      .ok { s with laps := setLastLap s.laps { lap with number := n, duration := d } ++ [Lap.zero] }

/-- `Decoder.parseMetadata` for a line starting with "# " -/
def parseMetadata (s : Session α) (line : List Char) : Outcome (Session α) :=
  let body := line.drop 2
  match splitColon body with
  | [p0] =>
    if p0 = kEndPoint ∨ p0 = kVehicle ∨ kLapPrefix.isPrefixOf p0 then .err .format
    else .ok s
  | [p0, p1] =>
    if p0 = kEndPoint then
      match endpointFind p1 with
      | none => .err .format
      | some (a, b, c) => (parseCoordinate s.endpoint a b c).map fun g => { s with endpoint := g }
    else if p0 = kVehicle then
      .ok { s with vehicle := String.ofList (trimSpace p1) }
    else if kLapPrefix.isPrefixOf p0 then lapMarker s p0 p1
    else
      .ok { s with metadata := setMeta s.metadata (String.ofList p0) (String.ofList (trimSpace p1)) }
  | _ => .panic .index

/-! ### The decode loop -/

structure DecState (α : Type) where
  session : Session α
  parsers : Option (List ColRow)
  fields : Option Nat              -- csv.Reader.FieldsPerRecord once set by the first record

def initSession : Session α := ⟨[Lap.zero], [], "", GPS.zero⟩

/-- bufio.Scanner's default token limit -/
def maxLine : Nat := 65536

/-- `csv.Reader.FieldsPerRecord`: set by the first record, enforced afterwards -/
def countOk (fields : Option Nat) (n : Nat) : Bool :=
  match fields with
  | none => true
  | some k => n == k

/-- `lap.Records = append(lap.Records, r)` on the open lap -/
def appendRecord (s : Session α) (r : Record α) : Outcome (Session α) :=
  match s.laps.getLast? with
  | none => .panic .index
  | some lap => .ok { s with laps := setLastLap s.laps { lap with records := lap.records ++ [r] } }

/-- a header or data record (anything that is not a "# " comment) -/
def stepRecord (t : Tables) (st : DecState α) (line : String) : Outcome (DecState α) := do
  let rec ← csvRecord line
  if !countOk st.fields rec.length then .err .parse else
  match st.parsers with
  | none => do
    let ps ← resolveColumns t rec
    .ok { st with parsers := some ps, fields := some rec.length }
  | some ps => do
    let r ← (processRow t ps rec : Outcome (Record α))
    let s ← appendRecord st.session r
    .ok { st with session := s, fields := some rec.length }

def stepLine (t : Tables) (st : DecState α) (line : String) : Outcome (DecState α) :=
  if kHash.isPrefixOf line.toList then
    (parseMetadata st.session line.toList).map fun s => { st with session := s }
  else stepRecord t st line

/-- `Decoder.Decode` over the scanner's lines (each without its terminator; a trailing CR has
    already been removed by `bufio.ScanLines`).  A line of `maxLine` bytes or more makes the
    scanner fail with `ErrTooLong` after the lines before it were processed. -/
def decodeFrom (t : Tables) : List String → DecState α → Outcome (Session α)
  | [], st => .ok st.session
  | l :: ls, st =>
    if l.utf8ByteSize ≥ maxLine then .err .io
    else (stepLine t st l).bind (decodeFrom t ls)

def initState : DecState α := ⟨initSession, none, none⟩

def decodeLines (t : Tables) (lines : List String) : Outcome (Session α) :=
  decodeFrom t lines initState

end TrackVerif.TA
