import TrackVerif.TA.Lemmas
/-
  Fold-level facts about the decode loop: which records a decoded session holds and how laps
  are opened and closed — for ANY input that decodes (C02, C15).  Core only.
-/
namespace TrackVerif.TA
open TrackVerif Outcome Gen

variable {α : Type} [Num α]

def isComment (l : String) : Bool := kHash.isPrefixOf l.toList

/-- all records of a session in lap order -/
def allRecords (s : Session α) : List (Record α) := s.laps.flatMap (·.records)

/-- pointwise relation between two lists of equal length -/
inductive AllRel {β γ : Type} (R : β → γ → Prop) : List β → List γ → Prop
  | nil : AllRel R [] []
  | cons {b c bs cs} : R b c → AllRel R bs cs → AllRel R (b :: bs) (c :: cs)

theorem AllRel.length_eq {β γ : Type} {R : β → γ → Prop} {bs : List β} {cs : List γ}
    (h : AllRel R bs cs) : bs.length = cs.length := by
  induction h with
  | nil => rfl
  | cons _ _ ih => simp [ih]

/-- a CSV line `l` decodes to record `r` under column parsers `ps` -/
def RowRel (t : Tables) (ps : List ColRow) (l : String) (r : Record α) : Prop :=
  ∃ fields, csvRecord l = .ok fields ∧ processRow t ps fields = .ok r

omit [Num α] in
theorem getLast?_split (laps : List (Lap α)) (lap : Lap α) (h : laps.getLast? = some lap) :
    laps = laps.dropLast ++ [lap] := by
  obtain ⟨ys, rfl⟩ := List.getLast?_eq_some_iff.mp h
  simp

omit [Num α] in
theorem flatMap_setLastLap (laps : List (Lap α)) (lap l : Lap α) (_h : laps.getLast? = some lap) :
    (setLastLap laps l).flatMap (·.records) = laps.dropLast.flatMap (·.records) ++ l.records := by
  simp [setLastLap, List.flatMap_append]

omit [Num α] in
theorem flatMap_split (laps : List (Lap α)) (lap : Lap α) (h : laps.getLast? = some lap) :
    laps.flatMap (·.records) = laps.dropLast.flatMap (·.records) ++ lap.records := by
  conv => lhs; rw [getLast?_split laps lap h]
  simp [List.flatMap_append]

omit [Num α] in
theorem appendRecord_records (s s' : Session α) (r : Record α) (h : appendRecord s r = .ok s') :
    allRecords s' = allRecords s ++ [r] := by
  unfold appendRecord at h
  split at h
  · cases h
  · rename_i lap hl
    cases h
    simp only [allRecords]
    rw [flatMap_setLastLap _ lap _ hl, flatMap_split _ lap hl]
    simp

omit [Num α] in
theorem lapMarker_records (s s' : Session α) (p0 p1 : List Char) (h : lapMarker s p0 p1 = .ok s') :
    allRecords s' = allRecords s := by
  unfold lapMarker at h
  split at h
  · cases h
  · rename_i lap hl
    simp only [bind_eq] at h
    obtain ⟨n, _, h⟩ := bind_eq_ok.mp h
    split at h
    · cases h
    · obtain ⟨d, _, h⟩ := bind_eq_ok.mp h
      cases h
      simp only [allRecords, List.flatMap_append]
      rw [flatMap_setLastLap _ lap _ hl, flatMap_split _ lap hl]
      simp [Lap.zero]

theorem parseMetadata_records (s s' : Session α) (line : List Char)
    (h : parseMetadata s line = .ok s') : allRecords s' = allRecords s := by
  unfold parseMetadata at h
  simp only at h
  rcases splitColon_cases (line.drop 2) with ⟨a, ha⟩ | ⟨a, b, ha⟩
  · rw [ha] at h; simp only at h; split at h
    · cases h
    · cases h; rfl
  · rw [ha] at h; simp only at h
    split at h
    · split at h
      · cases h
      · obtain ⟨g, _, h⟩ := map_eq_ok.mp h
        subst h; rfl
    · split at h
      · cases h; rfl
      · split at h
        · exact lapMarker_records s s' a b h
        · cases h; rfl

/-- effect of one line on (parsers, records) -/
theorem stepLine_effect (t : Tables) (st st' : DecState α) (l : String)
    (h : stepLine t st l = .ok st') :
    (isComment l = true ∧ st'.parsers = st.parsers ∧ allRecords st'.session = allRecords st.session) ∨
    (isComment l = false ∧ st.parsers = none ∧ (∃ hdr ps, csvRecord l = .ok hdr ∧
        resolveColumns t hdr = .ok ps ∧ st'.parsers = some ps) ∧
        allRecords st'.session = allRecords st.session) ∨
    (isComment l = false ∧ ∃ ps r, st.parsers = some ps ∧ st'.parsers = some ps ∧ RowRel t ps l r ∧
        allRecords st'.session = allRecords st.session ++ [r]) := by
  unfold stepLine at h
  split at h
  · rename_i hc
    obtain ⟨s, hs, h⟩ := map_eq_ok.mp h
    subst h
    exact Or.inl ⟨by simpa [isComment] using hc, rfl, parseMetadata_records _ _ _ hs⟩
  · rename_i hc
    have hc' : isComment l = false := by
      simp only [isComment]
      cases hq : List.isPrefixOf kHash l.toList
      · rfl
      · exact absurd hq hc
    unfold stepRecord at h
    simp only [bind_eq] at h
    obtain ⟨rec, hrec, h⟩ := bind_eq_ok.mp h
    by_cases hk : (!countOk st.fields rec.length) = true
    · simp [hk] at h
    · simp only [hk] at h
      cases hp : st.parsers with
      | none =>
        simp only [hp] at h
        obtain ⟨ps, hps, h⟩ := bind_eq_ok.mp h
        cases h
        exact Or.inr (Or.inl ⟨hc', rfl, ⟨rec, ps, hrec, hps, rfl⟩, rfl⟩)
      | some ps =>
        simp only [hp] at h
        obtain ⟨r, hr, h⟩ := bind_eq_ok.mp h
        obtain ⟨s, hs, h⟩ := bind_eq_ok.mp h
        cases h
        exact Or.inr (Or.inr ⟨hc', ps, r, rfl, rfl, ⟨rec, hrec, hr⟩, appendRecord_records _ _ _ hs⟩)

/-- the non-comment lines of a log -/
def recordLines (ls : List String) : List String := ls.filter (fun l => !isComment l)

/-- once the header row has been read: every later non-comment line becomes exactly one record,
    appended in file order -/
theorem rows_after_header (t : Tables) (ls : List String) (st : DecState α) (s : Session α)
    (ps : List ColRow) (hp : st.parsers = some ps) (h : decodeFrom t ls st = .ok s) :
    ∃ rs, allRecords s = allRecords st.session ++ rs ∧
      AllRel (RowRel t ps) (recordLines ls) rs := by
  induction ls generalizing st with
  | nil =>
    simp only [decodeFrom] at h
    cases h
    exact ⟨[], by simp, by simpa [recordLines] using AllRel.nil⟩
  | cons l ls ih =>
    unfold decodeFrom at h
    split at h
    · cases h
    · obtain ⟨st', hst, h⟩ := bind_eq_ok.mp h
      rcases stepLine_effect t st st' l hst with ⟨hc, hps, hrec⟩ | ⟨_, hnone, _⟩ | ⟨hc, ps', r, hps, hps', hrel, hrec⟩
      · obtain ⟨rs, h1, h2⟩ := ih st' (hps.trans hp) h
        exact ⟨rs, by rw [h1, hrec], by simpa [recordLines, hc] using h2⟩
      · rw [hp] at hnone; cases hnone
      · rw [hp] at hps; cases hps
        obtain ⟨rs, h1, h2⟩ := ih st' hps' h
        refine ⟨r :: rs, by rw [h1, hrec]; simp, ?_⟩
        simp only [recordLines, List.filter_cons, hc, Bool.not_false, if_true]
        exact AllRel.cons hrel h2

/-- from the start of a file: the first non-comment line is the header row, and every other
    non-comment line becomes exactly one record, in file order, none dropped, none invented -/
theorem rows_from_start (t : Tables) (ls : List String) (st : DecState α) (s : Session α)
    (hp : st.parsers = none) (h : decodeFrom t ls st = .ok s) :
    (recordLines ls = [] ∧ allRecords s = allRecords st.session) ∨
    ∃ hdrLine rest hdr ps rs, recordLines ls = hdrLine :: rest ∧ csvRecord hdrLine = .ok hdr ∧
      resolveColumns t hdr = .ok ps ∧ allRecords s = allRecords st.session ++ rs ∧
      AllRel (RowRel t ps) rest rs := by
  induction ls generalizing st with
  | nil =>
    simp only [decodeFrom] at h
    cases h
    exact Or.inl ⟨by simp [recordLines], rfl⟩
  | cons l ls ih =>
    unfold decodeFrom at h
    split at h
    · cases h
    · obtain ⟨st', hst, h⟩ := bind_eq_ok.mp h
      rcases stepLine_effect t st st' l hst with ⟨hc, hps, hrec⟩ | ⟨hc, _, ⟨hdr, ps, hcsv, hres, hps'⟩, hrec⟩ | ⟨_, ps', r, hps, _⟩
      · rcases ih st' (hps.trans hp) h with ⟨h1, h2⟩ | ⟨hl, rest, hdr, ps, rs, h1, h2, h3, h4, h5⟩
        · exact Or.inl ⟨by simpa [recordLines, hc] using h1, by rw [h2, hrec]⟩
        · exact Or.inr ⟨hl, rest, hdr, ps, rs, by simpa [recordLines, hc] using h1, h2, h3,
            by rw [h4, hrec], h5⟩
      · obtain ⟨rs, h1, h2⟩ := rows_after_header t ls st' s ps hps' h
        refine Or.inr ⟨l, recordLines ls, hdr, ps, rs, ?_, hcsv, hres, by rw [h1, hrec], h2⟩
        simp [recordLines, hc]
      · rw [hp] at hps; cases hps

end TrackVerif.TA

namespace TrackVerif.TA
open TrackVerif Outcome Gen
variable {α : Type} [Num α]

/-! ### Lap markers -/

/-- number and duration stated by a well-formed `# Lap N: hh:mm:ss.mmm` comment -/
def markerOf (l : String) : Option (Int × Int) :=
  if isComment l then
    match splitColon (l.toList.drop 2) with
    | [p0, p1] =>
      if p0 = kEndPoint then none
      else if p0 = kVehicle then none
      else if kLapPrefix.isPrefixOf p0 then
        match parseInt (String.ofList (p0.drop 4)), parseLapDuration (trimSpace p1) with
        | .ok n, .ok d => some (n, d)
        | _, _ => none
      else none
    | _ => none
  else none

/-- (number, duration) of every closed lap, in order -/
def closedSig (s : Session α) : List (Int × Int) := s.laps.dropLast.map fun l => (l.number, l.duration)

/-- the open lap still has the zero number and duration -/
def OpenZero (s : Session α) : Prop := ∃ recs, s.laps.getLast? = some ⟨0, 0, recs⟩

theorem openZero_init : OpenZero (initSession : Session α) := ⟨[], by simp [initSession, Lap.zero]⟩

omit [Num α] in
theorem appendRecord_sig (s s' : Session α) (r : Record α) (hz : OpenZero s)
    (h : appendRecord s r = .ok s') : closedSig s' = closedSig s ∧ OpenZero s' ∧ s'.laps.length = s.laps.length := by
  obtain ⟨recs, hl⟩ := hz
  unfold appendRecord at h
  rw [hl] at h
  cases h
  refine ⟨by simp [closedSig, setLastLap], ⟨recs ++ [r], by simp [setLastLap]⟩, ?_⟩
  have : s.laps ≠ [] := by intro hn; simp [hn] at hl
  have hpos := List.length_pos_iff.mpr this
  simp [setLastLap, List.length_dropLast]; omega

omit [Num α] in
theorem lapMarker_sig (s s' : Session α) (p0 p1 : List Char) (hz : OpenZero s)
    (h : lapMarker s p0 p1 = .ok s') :
    ∃ n d, parseInt (String.ofList (p0.drop 4)) = .ok n ∧ parseLapDuration (trimSpace p1) = .ok d ∧
      ¬ ((s.laps.length : Int) - 1 > n) ∧
      closedSig s' = closedSig s ++ [(n, d)] ∧ OpenZero s' ∧ s'.laps.length = s.laps.length + 1 := by
  obtain ⟨recs, hl⟩ := hz
  unfold lapMarker at h
  rw [hl] at h
  simp only [bind_eq] at h
  obtain ⟨n, hn, h⟩ := bind_eq_ok.mp h
  split at h
  · cases h
  · rename_i hlow
    obtain ⟨d, hd, h⟩ := bind_eq_ok.mp h
    cases h
    have hne : s.laps ≠ [] := by intro hn; simp [hn] at hl
    refine ⟨n, d, hn, hd, hlow, ?_, ⟨[], by simp [Lap.zero]⟩, ?_⟩
    · simp [closedSig, setLastLap, List.dropLast_append_of_ne_nil]
    · have hpos := List.length_pos_iff.mpr hne
      simp [setLastLap, List.length_dropLast]; omega

/-- effect of one successfully processed line on the lap structure -/
theorem stepLine_sig (t : Tables) (st st' : DecState α) (l : String) (hz : OpenZero st.session)
    (h : stepLine t st l = .ok st') :
    OpenZero st'.session ∧
    ((markerOf l = none ∧ closedSig st'.session = closedSig st.session ∧
        st'.session.laps.length = st.session.laps.length) ∨
     (∃ n d, markerOf l = some (n, d) ∧ ¬ ((st.session.laps.length : Int) - 1 > n) ∧
        closedSig st'.session = closedSig st.session ++ [(n, d)] ∧
        st'.session.laps.length = st.session.laps.length + 1)) := by
  unfold stepLine at h
  split at h
  · rename_i hc
    have hc' : isComment l = true := by simpa [isComment] using hc
    obtain ⟨s, hs, h⟩ := map_eq_ok.mp h
    subst h
    unfold parseMetadata at hs
    simp only at hs
    rcases splitColon_cases (l.toList.drop 2) with ⟨a, ha⟩ | ⟨a, b, ha⟩
    · rw [ha] at hs; simp only at hs
      split at hs
      · cases hs
      · cases hs
        exact ⟨hz, Or.inl ⟨by simp [markerOf, hc', ha], rfl, rfl⟩⟩
    · rw [ha] at hs; simp only at hs
      split at hs
      · rename_i he
        split at hs
        · cases hs
        · obtain ⟨g, _, hs⟩ := map_eq_ok.mp hs
          subst hs
          exact ⟨hz, Or.inl ⟨by simp [markerOf, hc', ha, he], rfl, rfl⟩⟩
      · rename_i he
        split at hs
        · rename_i hv
          cases hs
          exact ⟨hz, Or.inl ⟨by simp [markerOf, hc', ha, hv], rfl, rfl⟩⟩
        · rename_i hv
          split at hs
          · rename_i hlap
            obtain ⟨n, d, hn, hd, hlow, hsig, hz', hlen⟩ := lapMarker_sig _ _ a b hz hs
            exact ⟨hz', Or.inr ⟨n, d, by simp [markerOf, hc', ha, he, hv, hlap, hn, hd], hlow, hsig, hlen⟩⟩
          · rename_i hlap
            cases hs
            exact ⟨hz, Or.inl ⟨by simp [markerOf, hc', ha, he, hv, hlap], rfl, rfl⟩⟩
  · rename_i hc
    have hm : markerOf l = none := by
      have : isComment l = false := by
        simp only [isComment]
        cases hq : List.isPrefixOf kHash l.toList
        · rfl
        · exact absurd hq hc
      simp [markerOf, this]
    unfold stepRecord at h
    simp only [bind_eq] at h
    obtain ⟨rec, hrec, h⟩ := bind_eq_ok.mp h
    by_cases hk : (!countOk st.fields rec.length) = true
    · simp [hk] at h
    · simp only [hk] at h
      cases hp : st.parsers with
      | none =>
        simp only [hp] at h
        obtain ⟨ps, hps, h⟩ := bind_eq_ok.mp h
        cases h
        exact ⟨hz, Or.inl ⟨hm, rfl, rfl⟩⟩
      | some ps =>
        simp only [hp] at h
        obtain ⟨r, hr, h⟩ := bind_eq_ok.mp h
        obtain ⟨s, hs, h⟩ := bind_eq_ok.mp h
        cases h
        obtain ⟨h1, h2, h3⟩ := appendRecord_sig _ _ _ hz hs
        exact ⟨h2, Or.inl ⟨hm, h1, h3⟩⟩

/-- closed laps carry, in order, the number and duration of the lap markers read -/
theorem laps_follow_markers (t : Tables) (ls : List String) (st : DecState α) (s : Session α)
    (hz : OpenZero st.session) (h : decodeFrom t ls st = .ok s) :
    closedSig s = closedSig st.session ++ ls.filterMap markerOf ∧
    s.laps.length = st.session.laps.length + (ls.filterMap markerOf).length ∧ OpenZero s := by
  induction ls generalizing st with
  | nil =>
    simp only [decodeFrom] at h
    cases h
    simp [hz]
  | cons l ls ih =>
    unfold decodeFrom at h
    split at h
    · cases h
    · obtain ⟨st', hst, h⟩ := bind_eq_ok.mp h
      obtain ⟨hz', hcase⟩ := stepLine_sig t st st' l hz hst
      obtain ⟨h1, h2, h3⟩ := ih st' hz' h
      rcases hcase with ⟨hm, hsig, hlen⟩ | ⟨n, d, hm, _, hsig, hlen⟩
      · exact ⟨by simp [h1, hsig, hm], by simp [h2, hlen, hm], h3⟩
      · exact ⟨by simp [h1, hsig, hm], by simp [h2, hlen, hm]; omega, h3⟩

/-- a lap marker numbered lower than the number of laps already closed is rejected -/
theorem lower_marker_step (t : Tables) (st : DecState α) (l : String) (n d : Int)
    (hm : markerOf l = some (n, d)) (hne : st.session.laps ≠ [])
    (hlow : (st.session.laps.length : Int) - 1 > n) :
    stepLine t st l = .err .format := by
  unfold markerOf at hm
  split at hm
  · rename_i hc
    rcases splitColon_cases (l.toList.drop 2) with ⟨a, ha⟩ | ⟨a, b, ha⟩
    · rw [ha] at hm; cases hm
    · rw [ha] at hm
      simp only at hm
      split at hm
      · cases hm
      · rename_i he
        split at hm
        · cases hm
        · rename_i hv
          split at hm
          · rename_i hlap
            split at hm
            · rename_i hn hd
              cases hm
              have hcp : List.isPrefixOf kHash l.toList = true := by simpa [isComment] using hc
              unfold stepLine
              simp only [hcp, if_true]
              unfold parseMetadata
              simp only [ha, he, hv, hlap, if_false, if_true]
              unfold lapMarker
              cases hl : st.session.laps.getLast? with
              | none => simp [List.getLast?_eq_none_iff] at hl; exact absurd hl hne
              | some lap => simp [hn, hlow, Outcome.map, Outcome.bind]
            · cases hm
          · cases hm
  · cases hm

end TrackVerif.TA
