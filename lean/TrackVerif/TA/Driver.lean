import TrackVerif.Common.Proto
import TrackVerif.Common.Dec
import TrackVerif.TA.Model
import TrackVerif.TA.Spec
import TrackVerif.Generated.TA
/-
  Line-protocol side of the TrackAddict area (C02, C10, C15).

    TA dec wf  <hex text>                 => <cls> [dump]     well-formed log: full equality demanded
    TA dec mut <hex text>                 => <cls> [dump]     arbitrary text: no panic, no dropped row
    TA pair <target> <hex imp> <hex met>  => <bits imp> <bits met>   C10 metamorphic pair
-/
namespace TrackVerif.TA.Driver
open TrackVerif Proto TA

instance : Num Float where
  ofDec neg m e :=
    let f := Dec.decimalToFloat neg m e
    if f.isInf then none else some f
  add := (· + ·)
  sub := (· - ·)
  mul := (· * ·)
  div := (· / ·)
  zero := 0.0

def genTables : Tables := ⟨Gen.TA.columns, Gen.TA.consts, Gen.TA.convBodies⟩
def specTables : Tables := Spec.tables Spec.expectedToMetric

/-- `bufio.ScanLines` -/
def scanLines (text : String) : List String :=
  let parts := text.splitOn "\n"
  let parts := if parts.getLast? = some "" then parts.dropLast else parts
  parts.map fun l => if l.endsWith "\r" then (l.dropEnd 1).toString else l

def b01 (b : Bool) : String := if b then "1" else "0"

def dumpTime : Option Int → String
  | none => "z"
  | some t => s!"{t / 1000000000}:{t % 1000000000}"

def dumpOpt : Option Float → String
  | none => "-"
  | some x => hexOfFloat x

def dumpRecord (r : Record Float) : String :=
  let accel := match r.accel with
    | none => "-"
    | some a => s!"{hexOfFloat a.x}:{hexOfFloat a.y}:{hexOfFloat a.z}"
  let obd := match r.obd with
    | none => "-"
    | some o => s!"{b01 o.update}:{dumpOpt o.speed}:{dumpOpt o.rpm}:{dumpOpt o.throttle}:{dumpOpt o.coolant}:{dumpOpt o.intake}:{dumpOpt o.manifold}"
  String.intercalate "," [
    toString r.now, dumpTime r.time, toString r.lap, toString r.predicted, toString r.offset,
    b01 r.gps.update, toString r.gps.delay, hexOfFloat r.gps.lat, hexOfFloat r.gps.lon,
    hexOfFloat r.gps.alt, hexOfFloat r.gps.acc, hexOfFloat r.gps.heading, hexOfFloat r.speed,
    accel, b01 r.brake, hexOfFloat r.baro, hexOfFloat r.palt, obd]

def insertSorted (p : String × String) : List (String × String) → List (String × String)
  | [] => [p]
  | q :: qs => if p.1 < q.1 then p :: q :: qs else q :: insertSorted p qs

def dumpSession (s : Session Float) : String :=
  let md := s.metadata.foldl (fun acc p => insertSorted p acc) []
  let mds := if md.isEmpty then "-" else
    String.intercalate ";" (md.map fun (k, v) => s!"{hexOfString k}:{hexOfString v}")
  let laps := s.laps.map fun l =>
    let recs := l.records.map fun r => " (" ++ dumpRecord r ++ ")"
    s!" [{l.number} {l.duration} {l.records.length}" ++ String.join recs ++ "]"
  s!"V={hexOfString s.vehicle} E={hexOfFloat s.endpoint.lat},{hexOfFloat s.endpoint.lon},{hexOfFloat s.endpoint.heading} M={mds} L={s.laps.length}" ++ String.join laps

def render (o : Outcome (Session Float)) : String :=
  match o with
  | .ok s => "ok " ++ dumpSession s
  | .err _ => "err"
  | .panic _ => "panic"
  | .unmodelled => "unmodelled"

/-- number of non-comment lines after the header row: each must become exactly one record -/
def dataRowCount (lines : List String) : Nat :=
  ((lines.filter fun l => !(l.startsWith "# ")).length) - 1

def recordCount (s : Session Float) : Nat := (s.laps.map (·.records.length)).sum

/-- record count stated by an implementation dump: sum of the third number of each `[…` group -/
def implRecordCount (impl : List String) : Nat :=
  let rec go : List String → Nat
    | [] => 0
    | t :: rest =>
      if t.startsWith "[" then
        match rest with
        | _ :: n :: rest' => ((n.takeWhile Char.isDigit).toString.toNat?.getD 0) + go rest'
        | _ => 0
      else go rest
  go impl

def handleDec (mode : String) (hex : String) (impl : List String) : String :=
  match stringOfHex? hex with
  | none =>
    -- invalid UTF-8: outside `String`; only the crash-freedom half is checkable
    if impl.head? = some "panic" then "VIOL clause=ta.no_panic"
    else if impl.head? = some "hang" then "VIOL clause=ta.no_hang" else "SKIP reason=utf8"
  | some text =>
    let lines := scanLines text
    let implS := String.intercalate " " impl
    let mG := (decodeLines genTables lines : Outcome (Session Float))
    let mS := (decodeLines specTables lines : Outcome (Session Float))
    if impl.head? = some "panic" then
      s!"VIOL clause=ta.no_panic model={(render mG).take 40}"
    else if impl.head? = some "hang" then "VIOL clause=ta.no_hang"
    else if impl.head? = some "hang-skipped" then "SKIP reason=hang-skipped"
    else match mS with
    | .unmodelled => "SKIP reason=grammar"
    | _ =>
      let rS := render mS
      let rG := render mG
      let tags := s!"cls={mS.tag} nt={b01 (lines.length ≥ 3)}"
      if implS == rS then
        if rG == rS then s!"OK {tags}" else s!"CORR clause=ta.gen_model {tags}"
      else if mode == "wf" then
        s!"VIOL clause=ta.decode {tags} spec={rS.take 2000}"
      else
        -- arbitrary text: the property demands only no crash and no silently dropped row
        if impl.head? = some "ok" ∧ implRecordCount impl ≠ dataRowCount lines then
          s!"VIOL clause=ta.no_row_loss {tags}"
        else if impl.head? = some "ok" ∧ mS.tag == "err" then
          -- the reference decoder rejects this text (wrong field count, unparsable value, bad marker …)
          s!"VIOL clause=ta.malformed_accepted {tags}"
        else s!"CORR clause=ta.decode_mut {tags} model={rS.take 300}"

/-- numeric field of a record by target path -/
def getNum (target : String) (r : Record Float) : Option Float :=
  match target with
  | "Speed" => some r.speed
  | "GPS.Altitude" => some r.gps.alt
  | "GPS.Accuracy" => some r.gps.acc
  | "PressureAltitute" => some r.palt
  | "BarometricPressure" => some r.baro
  | "OBD.ManifoldPressure" => r.obd.bind (·.manifold)
  | "OBD.CoolantTemp" => r.obd.bind (·.coolant)
  | "OBD.IntakeTemp" => r.obd.bind (·.intake)
  | "OBD.Speed" => r.obd.bind (·.speed)
  | _ => none

def firstNum (t : Tables) (target : String) (hex : String) : Option Float :=
  match stringOfHex? hex with
  | none => none
  | some text =>
    match (decodeLines t (scanLines text) : Outcome (Session Float)) with
    | .ok s => (s.laps.flatMap (·.records)).head?.bind (getNum target)
    | _ => none

def handlePair (target imp met : String) (impl : List String) : String :=
  match impl with
  | [bi, bm] =>
    match floatOfHex? bi, floatOfHex? bm with
    | some vi, some vm =>
      -- property (impl vs impl): the imperial log decodes to the metric log's value
      if !(closeRel 1e-12 vi vm) then s!"VIOL clause=ta.dual_unit imp={vi} met={vm}"
      else
        match firstNum genTables target imp, firstNum genTables target met with
        | some mi, some mm =>
          if hexOfFloat mi == bi ∧ hexOfFloat mm == bm then "OK nt=1" else
            s!"CORR clause=ta.pair_model model={hexOfFloat mi},{hexOfFloat mm}"
        | _, _ => "CORR clause=ta.pair_model model=none"
    | _, _ => "BAD"
  | ["panic"] => "VIOL clause=ta.no_panic"
  | ["hang"] => "VIOL clause=ta.no_hang"
  | ["hang-skipped"] => "SKIP reason=hang-skipped"
  | _ => "VIOL clause=ta.dual_unit impl=failed"

def handle (args : List String) (impl : List String) : String :=
  match args with
  | ["dec", mode, hex] => handleDec mode hex impl
  | ["pair", target, imp, met] => handlePair (target.replace "_" ".") imp met impl
  | _ => "BAD"

end TrackVerif.TA.Driver
