import TrackVerif.TA.Rows
import TrackVerif.TA.Spec
import TrackVerif.TA.NumRat
import TrackVerif.Generated.TA
/-
  C15 — Malformed TrackAddict text is an error, never a crash or silent loss.
  Property theorems only; helper lemmas are in TA/Lemmas.lean and TA/Rows.lean.
-/
namespace TrackVerif.C15
open TrackVerif Outcome Gen TA

variable {α : Type} [Num α]

/-- tie: column table, literals and extraction status regenerated from the source -/
theorem columns_table : Gen.TA.columns = Spec.expectedColumns := by decide
theorem literals_table : Gen.TA.literals = Spec.expectedLiterals := by decide
theorem extract_ok : Gen.TA.extractOk = true := by decide

/-- for every text (any list of scanner lines) and any column table the decoder model never
    reaches a Go panic: `parts[1]`, `s.Laps[len-1]` and `data[i]` are all guarded -/
theorem no_panic (t : Tables) (lines : List String) :
    ∀ p, (decodeLines t lines : Outcome (Session α)) ≠ .panic p :=
  decodeFrom_noPanic t lines initState inv_init

/-- never a silently dropped (or invented, or reordered) data row: whenever a text decodes, its
    first non-comment line was the header row and the session's records are, in file order,
    exactly the decoded images of every other non-comment line -/
theorem no_silent_row_loss (t : Tables) (lines : List String) (s : Session α)
    (h : decodeLines t lines = .ok s) :
    (recordLines lines = [] ∧ allRecords s = []) ∨
    ∃ hdrLine rest hdr ps, recordLines lines = hdrLine :: rest ∧ csvRecord hdrLine = .ok hdr ∧
      resolveColumns t hdr = .ok ps ∧ AllRel (RowRel t ps) rest (allRecords s) := by
  rcases rows_from_start t lines initState s rfl h with ⟨h1, h2⟩ | ⟨hl, rest, hdr, ps, rs, h1, h2, h3, h4, h5⟩
  · exact Or.inl ⟨h1, by simpa [allRecords, initState, initSession, Lap.zero] using h2⟩
  · refine Or.inr ⟨hl, rest, hdr, ps, h1, h2, h3, ?_⟩
    have : allRecords s = rs := by simpa [allRecords, initState, initSession, Lap.zero] using h4
    rw [this]; exact h5

/-- consequence: the number of records equals the number of data lines -/
theorem record_count (t : Tables) (lines : List String) (s : Session α)
    (h : decodeLines t lines = .ok s) :
    (allRecords s).length = (recordLines lines).length - 1 := by
  rcases no_silent_row_loss t lines s h with ⟨h1, h2⟩ | ⟨hl, rest, hdr, ps, h1, _, _, h5⟩
  · simp [h1, h2]
  · simp [h1, h5.length_eq]

/-- a comment that names End Point / Vehicle / Lap but has no colon is an error, other
    colon-less comments are ignored (never a crash) -/
theorem colonless_comment (s : Session α) (body : List Char) (h : ':' ∉ body) :
    parseMetadata s ('#' :: ' ' :: body) =
      if body = kEndPoint ∨ body = kVehicle ∨ kLapPrefix.isPrefixOf body then .err .format else .ok s := by
  have hp : ∀ c ∈ body, (decide (c ≠ ':')) = true := by
    intro c hc; simp; intro hcc; exact h (hcc ▸ hc)
  have hs : splitColon body = [body] := by
    unfold splitColon
    simp only [dropWhile_all _ body hp, takeWhile_all _ body hp]
  simp [parseMetadata, hs]

/-- non-vacuity: the witnesses that used to crash the real decoder -/
example : (decodeLines (α := Rat) (Spec.tables []) ["# Session End"]).isOk = true := by decide
example : (decodeLines (α := Rat) (Spec.tables []) ["# Lap 3"]).isErr = true := by decide

end TrackVerif.C15
