import TrackVerif.TA.Model
/-
  What the properties demand of TrackAddict decoding, written by hand:
  the expected column table (C02, C10, C15), unit constants and converter bodies (C10).
  The translator's regenerated tables are compared with these by `decide`.
-/
namespace TrackVerif.TA.Spec
open TrackVerif Gen

def unixMs : String := TrackVerif.TA.unixMsKind

def expectedColumns : List ColRow := [
  ⟨"Time", "Now", "duration", [], true⟩,
  ⟨"UTC Time", "Time", unixMs, [], true⟩,
  ⟨"Lap", "Lap", "int", [], true⟩,
  ⟨"Predicted Lap Time", "Predicted", "duration", [], true⟩,
  ⟨"Predicted vs Best Lap", "Offset", "duration", [], true⟩,
  ⟨"GPS_Update", "GPS.Update", "bool", [], true⟩,
  ⟨"GPS_Delay", "GPS.Delay", "duration", [], true⟩,
  ⟨"Latitude", "GPS.Latitude", "float", [], true⟩,
  ⟨"Longitude", "GPS.Longitude", "float", [], true⟩,
  ⟨"Altitude (m)", "GPS.Altitude", "float", ["units.Altitude"], true⟩,
  ⟨"Altitude (ft)", "GPS.Altitude", "float", ["feet2Meters", "units.Altitude"], true⟩,
  ⟨"Speed (MPH)", "Speed", "float", ["miles2Kilometers", "units.Speed"], true⟩,
  ⟨"Speed (Km/h)", "Speed", "float", ["units.Speed"], true⟩,
  ⟨"Heading", "GPS.Heading", "float", [], true⟩,
  ⟨"Accuracy (m)", "GPS.Accuracy", "float", ["units.Accuracy"], true⟩,
  ⟨"Accuracy (ft)", "GPS.Accuracy", "float", ["feet2Meters", "units.Accuracy"], true⟩,
  ⟨"Accel X", "Accel.X", "float", [], true⟩,
  ⟨"Accel Y", "Accel.Y", "float", [], true⟩,
  ⟨"Accel Z", "Accel.Z", "float", [], true⟩,
  ⟨"Brake (calculated)", "Brake", "bool", [], true⟩,
  ⟨"Barometric Pressure (PSI)", "BarometricPressure", "float", ["psi2Kpa", "units.Pressure"], true⟩,
  ⟨"Barometric Pressure (kPa)", "BarometricPressure", "float", ["units.Pressure"], true⟩,
  ⟨"Pressure Altitude (ft)", "PressureAltitute", "float", ["feet2Meters", "units.Altitude"], true⟩,
  ⟨"Pressure Altitude (m)", "PressureAltitute", "float", ["units.Altitude"], true⟩,
  ⟨"OBD_Update", "OBD.Update", "bool", [], true⟩,
  ⟨"Engine Speed (RPM) *OBD", "OBD.EngineSpeed", "floatp", [], true⟩,
  ⟨"Vehicle Speed (mph) *OBD", "OBD.Speed", "floatp", ["miles2Kilometers", "units.Speed"], true⟩,
  ⟨"Vehicle Speed (km/h) *OBD", "OBD.Speed", "floatp", ["units.Speed"], true⟩,
  ⟨"Throttle Position (%) *OBD", "OBD.Throttle", "floatp", [], true⟩,
  ⟨"Engine Coolant Temp (F) *OBD", "OBD.CoolantTemp", "floatp", ["fahrenheit2Celsius", "units.Temperature"], true⟩,
  ⟨"Engine Coolant Temp (C) *OBD", "OBD.CoolantTemp", "floatp", ["units.Temperature"], true⟩,
  ⟨"Intake Air Temp (F) *OBD", "OBD.IntakeTemp", "floatp", ["fahrenheit2Celsius", "units.Temperature"], true⟩,
  ⟨"Intake Air Temp (C) *OBD", "OBD.IntakeTemp", "floatp", ["units.Temperature"], true⟩,
  ⟨"Intake Manifold Pressure (PSI) *OBD", "OBD.ManifoldPressure", "floatp", ["psi2Kpa", "units.Pressure"], true⟩,
  ⟨"Intake Manifold Pressure (kPa) *OBD", "OBD.ManifoldPressure", "floatp", ["units.Pressure"], true⟩
]

/-- international foot; statute mile in km (5 decimals); psi in kPa (5 decimals) -/
def expectedConsts : List (String × DecLit) := [
  ("m2km", ⟨160934, 5⟩),
  ("ft2m", ⟨3048, 4⟩),
  ("psi2kpa", ⟨689476, 5⟩),
  ("km2m", ⟨621371, 6⟩),
  ("m2ft", ⟨3048, 4⟩),
  ("kpa2psi", ⟨145038, 6⟩)
]

/-- the to-metric converters used while decoding -/
def expectedToMetric : List (String × Expr) := [
  ("fahrenheit2Celsius", .div (.mul (.sub .v (.lit ⟨32, 0⟩)) (.lit ⟨5, 0⟩)) (.lit ⟨9, 0⟩)),
  ("feet2Meters", .mul .v (.const "ft2m")),
  ("miles2Kilometers", .mul .v (.const "m2km")),
  ("psi2Kpa", .mul .v (.const "psi2kpa"))
]

def toMetricNames : List String := expectedToMetric.map (·.1)

/-- literals that drive scalar parsing and comment handling -/
def expectedLiterals : List (String × String) := [
  ("parseDuration#0", "."),
  ("parseDuration#1", "s"),
  ("parseDuration#2", "ms"),
  ("parseRecordTime#0", "%d.%d"),
  ("parseLapDuration#0", "%d:%d:%d.%d"),
  ("parseLapDuration#1", "%dh%dm%ds%dms"),
  ("Decoder.parseMetadata#0", ":"),
  ("Decoder.parseMetadata#1", "End Point"),
  ("Decoder.parseMetadata#2", "Vehicle"),
  ("Decoder.parseMetadata#3", "Lap "),
  ("Decoder.parseMetadata#4", "End Point"),
  ("Decoder.parseMetadata#5", "Vehicle"),
  ("Decoder.parseMetadata#6", "Lap "),
  ("endpointRe", "([0-9\\.\\-]+), +([0-9\\.\\-]+) +@ +([0-9\\.\\-]+)")
]

/-- tables the spec-side decoder runs with -/
def tables (convBodies : List (String × Expr)) : TA.Tables :=
  ⟨expectedColumns, expectedConsts, convBodies⟩

/-- the nine dual-unit quantities: (imperial header, metric header, to-metric converter) -/
def dualUnit : List (String × String × String) := [
  ("Speed (MPH)", "Speed (Km/h)", "miles2Kilometers"),
  ("Altitude (ft)", "Altitude (m)", "feet2Meters"),
  ("Pressure Altitude (ft)", "Pressure Altitude (m)", "feet2Meters"),
  ("Accuracy (ft)", "Accuracy (m)", "feet2Meters"),
  ("Barometric Pressure (PSI)", "Barometric Pressure (kPa)", "psi2Kpa"),
  ("Intake Manifold Pressure (PSI) *OBD", "Intake Manifold Pressure (kPa) *OBD", "psi2Kpa"),
  ("Engine Coolant Temp (F) *OBD", "Engine Coolant Temp (C) *OBD", "fahrenheit2Celsius"),
  ("Intake Air Temp (F) *OBD", "Intake Air Temp (C) *OBD", "fahrenheit2Celsius"),
  ("Vehicle Speed (mph) *OBD", "Vehicle Speed (km/h) *OBD", "miles2Kilometers")
]

end TrackVerif.TA.Spec
