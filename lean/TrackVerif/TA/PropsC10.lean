import TrackVerif.TA.Model
import TrackVerif.TA.Spec
import TrackVerif.TA.NumRat
import TrackVerif.Generated.TA
import Mathlib.Tactic.NormNum
import Mathlib.Tactic.Ring
/-
  C10 — Imperial and metric TrackAddict columns decode to the same metric value.
  Property theorems only.
-/
namespace TrackVerif.C10
open TrackVerif Gen TA

/-- tie: the column table regenerated from `Decoder.columns` is the expected one -/
theorem columns_table : Gen.TA.columns = Spec.expectedColumns := by decide

/-- tie: the numeric constants of units.go -/
theorem consts_table : Gen.TA.consts = Spec.expectedConsts := by decide

/-- tie: the bodies of the four to-metric converters -/
theorem converters_table :
    ∀ n ∈ Spec.toMetricNames, Gen.TA.convBodies.lookup n = Spec.expectedToMetric.lookup n := by decide

theorem extract_ok : Gen.TA.extractOk = true := by decide

def rowOf (h : String) : Option ColRow := Spec.expectedColumns.find? (·.header = h)

/-- for each of the nine dual-unit quantities the imperial column is wired to the same field,
    with the same scalar parser, and with exactly one extra converter — the to-metric one —
    applied first -/
theorem dual_unit_table :
    ∀ q ∈ Spec.dualUnit,
      (rowOf q.1).isSome = true ∧ (rowOf q.2.1).isSome = true ∧
      (rowOf q.1).map (·.target) = (rowOf q.2.1).map (·.target) ∧
      (rowOf q.1).map (·.kind) = (rowOf q.2.1).map (·.kind) ∧
      (rowOf q.1).map (·.applies) = some true ∧ (rowOf q.2.1).map (·.applies) = some true ∧
      (rowOf q.1).map (·.convs) = (rowOf q.2.1).map (fun r => q.2.2 :: r.convs) := by decide

/-- exact to-metric maps the property speaks about -/
def toMetric (conv : String) (x : Rat) : Rat :=
  if conv = "feet2Meters" then x * (3048 / 10000)
  else if conv = "miles2Kilometers" then x * (160934 / 100000)
  else if conv = "psi2Kpa" then x * (689476 / 100000)
  else if conv = "fahrenheit2Celsius" then (x - 32) * 5 / 9
  else x

def specT : Tables := Spec.tables Spec.expectedToMetric

/-- the decoder's converters compute exactly 0.3048 ft→m, 1.60934 mi→km, 6.89476 psi→kPa and
    (F−32)·5/9 over exact rationals -/
theorem constants (x : Rat) :
    ∀ c ∈ Spec.toMetricNames, applyConv specT c x = some (toMetric c x) := by
  intro c hc
  simp only [Spec.toMetricNames, Spec.expectedToMetric, List.map_cons, List.map_nil,
    List.mem_cons, List.not_mem_nil, or_false] at hc
  rcases hc with rfl | rfl | rfl | rfl <;>
    simp [applyConv, unitHooks, specT, Spec.tables, Spec.expectedToMetric, Spec.expectedConsts,
      List.lookup, evalExpr, toMetric] <;>
    simp [Num.ofDec, Num.mul, Num.sub, Num.div, ratOfDec] <;>
    norm_num

/-- `units.*` hooks are identities (nil converters are dropped by `converters`) -/
theorem units_identity (x : Rat) : ∀ n ∈ unitHooks, applyConv specT n x = some x := by
  intro n h
  simp [applyConv, h]

/-- chain of a dual-unit column: one optional to-metric converter, then the identity hook -/
theorem chain_imperial (x : Rat) (c : String) (hc : c ∈ Spec.toMetricNames) (u : String)
    (hu : u ∈ unitHooks) : applyChain specT [c, u] x = some (toMetric c x) := by
  simp [applyChain, List.foldlM, constants x c hc, units_identity _ u hu]

theorem chain_metric (x : Rat) (u : String) (hu : u ∈ unitHooks) :
    applyChain specT [u] x = some x := by
  simp [applyChain, List.foldlM, units_identity _ u hu]

/-- metamorphic core: for every dual-unit quantity and every exact value `x`, the chain of the
    imperial column applied to `x` equals the chain of the metric column applied to the
    exactly converted value -/
theorem metamorphic (x : Rat) :
    ∀ q ∈ Spec.dualUnit, ∀ ri rm, rowOf q.1 = some ri → rowOf q.2.1 = some rm →
      applyChain specT ri.convs x = applyChain specT rm.convs (toMetric q.2.2 x) := by
  intro q hq
  simp only [Spec.dualUnit, List.mem_cons, List.not_mem_nil, or_false] at hq
  rcases hq with rfl | rfl | rfl | rfl | rfl | rfl | rfl | rfl | rfl <;>
    intro ri rm hi hm <;>
    simp [rowOf, Spec.expectedColumns, List.find?] at hi hm <;>
    subst hi <;> subst hm <;>
    rw [chain_imperial _ _ (by decide) _ (by decide), chain_metric _ _ (by decide)]

/-- non-vacuity: a concrete imperial/metric pair -/
example : applyChain specT ["feet2Meters", "units.Altitude"] (100 : Rat) = some (3048 / 100) := by
  rw [chain_imperial _ _ (by decide) _ (by decide)]; simp [toMetric]; norm_num

end TrackVerif.C10
