import TrackVerif.TA.Model
/-  Exact-rational instance of the decoder's arithmetic: what the theorems are about. -/
namespace TrackVerif.TA

def ratOfDec (neg : Bool) (m : Nat) (e : Int) : Rat :=
  let mag : Rat := if e ≥ 0 then (m : Rat) * (10 : Rat) ^ e.toNat else (m : Rat) / (10 : Rat) ^ (-e).toNat
  if neg then -mag else mag

instance instNumRat : Num Rat where
  ofDec neg m e := some (ratOfDec neg m e)
  add := (· + ·)
  sub := (· - ·)
  mul := (· * ·)
  div := (· / ·)
  zero := 0

end TrackVerif.TA
