import TrackVerif.GPMF.Mp4
import TrackVerif.GPMF.Mp4Spec
import TrackVerif.GPMF.Spec
import TrackVerif.Generated.GPMF
/-
  C08 — Every telemetry sample of the MP4 is returned once, in order, at its media time.
  Property theorems only (the sample-table walk, media-time conversion, offset spreading).
-/
namespace TrackVerif.C08
open TrackVerif Outcome GPMF

theorem tables_tie : Gen.GPMF.tables.layouts = Spec.expectedTables.layouts ∧ Gen.GPMF.extractOk = true := by decide

/-! ### Invariant of the walk -/

/-- samples 1 … sample−1 have been read exactly once, in order; their intervals tile [0, dec) -/
def Inv (st : WalkState) : Prop :=
  1 ≤ st.sample ∧
  st.reads.map (·.sample) = (List.range (st.sample - 1)).map (· + 1) ∧
  (st.reads.getLast?.map (·.endTicks)).getD 0 = st.dec ∧
  (st.reads.head?.map (·.startTicks)).getD 0 = 0 ∧
  (∀ r ∈ st.reads, r.startTicks ≤ r.endTicks) ∧
  List.Pairwise (fun a b => a.endTicks ≤ b.startTicks) st.reads

theorem inv_init : Inv ⟨1, 0, 0, 0, []⟩ := by
  simp [Inv]

/-- appending the next sample's read keeps the invariant -/
theorem inv_step (st : WalkState) (hi : Inv st) (offset size dur i u : Nat) :
    Inv { sample := st.sample + 1, dec := st.dec + dur, timeIdx := i, timeUsed := u,
          reads := st.reads ++ [⟨st.sample, offset, size, st.dec, st.dec + dur⟩] } := by
  obtain ⟨h1, h2, h3, h4, h5, h6⟩ := hi
  refine ⟨by simp, ?_, ?_, ?_, ?_, ?_⟩
  · simp only [List.map_append, h2, List.map_cons, List.map_nil, Nat.add_sub_cancel]
    have : st.sample = (st.sample - 1) + 1 := by omega
    conv => rhs; rw [this, List.range_succ]
    simp; omega
  · simp
  · cases hr : st.reads with
    | nil => simp [hr] at h3; simp [h3.symm]
    | cons a as => simpa [hr] using h4
  · intro r hr
    rcases List.mem_append.mp hr with hr | hr
    · exact h5 r hr
    · simp at hr; subst hr; simp
  · rw [List.pairwise_append]
    refine ⟨h6, by simp, ?_⟩
    intro a ha b hb
    simp at hb; subst hb
    simp only
    -- every earlier read ends no later than the running decode time
    have hall : ∀ (l : List SampleRead), List.Pairwise (fun a b => a.endTicks ≤ b.startTicks) l →
        (∀ r ∈ l, r.startTicks ≤ r.endTicks) → ∀ a ∈ l, a.endTicks ≤ (l.getLast?.map (·.endTicks)).getD 0 := by
      intro l
      induction l with
      | nil => simp
      | cons x xs ihx =>
        intro hp hle a ha
        rw [List.pairwise_cons] at hp
        cases xs with
        | nil => simp at ha; subst ha; simp
        | cons y ys =>
          have hrec := ihx hp.2 (fun r hr => hle r (by simp [hr]))
          simp only [List.getLast?_cons_cons]
          rcases List.mem_cons.mp ha with ha | ha
          · subst ha
            have h1 := hp.1 y (by simp)
            have h2 := hle y (by simp)
            have h3 := hrec y (by simp)
            omega
          · exact hrec a ha
    have := hall st.reads h6 h5 a ha
    omega

theorem walkChunk_inv (t : Mp4Tables) (samples n offset : Nat) (st st' : WalkState) (hi : Inv st)
    (hb : st.sample ≤ samples + 1)
    (h : walkChunk t samples n offset st = .ok st') : Inv st' ∧ st'.sample ≤ samples + 1 := by
  induction n generalizing offset st with
  | zero => simp [walkChunk] at h; subst h; exact ⟨hi, hb⟩
  | succ n ih =>
    unfold walkChunk at h
    split at h
    · cases h; exact ⟨hi, hb⟩
    · simp only at h
      split at h
      · cases h
      · obtain ⟨dur, _, h⟩ := bind_eq_ok.mp h
        obtain ⟨size, _, h⟩ := bind_eq_ok.mp h
        exact ih _ _ (inv_step st hi offset size dur _ _) (by simp; omega) h

theorem walkChunks_inv (t : Mp4Tables) (offsets : List Nat) (samples perChunk fuel chunkNr last : Nat)
    (st st' : WalkState) (hi : Inv st) (hb : st.sample ≤ samples + 1)
    (h : walkChunks t offsets samples perChunk fuel chunkNr last st = .ok st') :
    Inv st' ∧ st'.sample ≤ samples + 1 := by
  induction fuel generalizing chunkNr st with
  | zero => simp [walkChunks] at h; subst h; exact ⟨hi, hb⟩
  | succ n ih =>
    unfold walkChunks at h
    split at h
    · cases h; exact ⟨hi, hb⟩
    · obtain ⟨off, _, h⟩ := bind_eq_ok.mp h
      obtain ⟨st1, hw, h⟩ := bind_eq_ok.mp h
      obtain ⟨i1, b1⟩ := walkChunk_inv t samples perChunk off st st1 hi hb hw
      exact ih _ _ i1 b1 h

theorem walkEntries_inv (t : Mp4Tables) (offsets : List Nat) (samples : Nat) (es : List (Nat × Nat))
    (st st' : WalkState) (hi : Inv st) (hb : st.sample ≤ samples + 1)
    (h : walkEntries t offsets samples es st = .ok st') : Inv st' ∧ st'.sample ≤ samples + 1 := by
  induction es generalizing st with
  | nil => simp [walkEntries] at h; subst h; exact ⟨hi, hb⟩
  | cons e rest ih =>
    obtain ⟨first, perChunk⟩ := e
    unfold walkEntries at h
    split at h
    · cases h
    · obtain ⟨st1, hw, h⟩ := bind_eq_ok.mp h
      obtain ⟨i1, b1⟩ := walkChunks_inv t offsets samples perChunk _ _ _ st st1 hi hb hw
      exact ih _ i1 b1 h

/-- for ANY sample tables: whenever the decoder accepts them, it has read every sample 1…N exactly
    once, in presentation order; the first sample starts at media time 0 and each sample's interval
    begins where the previous one ended (so offsets never decrease through the file) -/
theorem every_sample_once (t : Mp4Tables) (rs : List SampleRead) (h : sampleReads t = .ok rs) :
    rs.map (·.sample) = (List.range t.nrSamples).map (· + 1) ∧
    (rs.head?.map (·.startTicks)).getD 0 = 0 ∧
    (∀ r ∈ rs, r.startTicks ≤ r.endTicks) ∧
    List.Pairwise (fun a b => a.endTicks ≤ b.startTicks) rs := by
  unfold sampleReads at h
  split at h
  · cases h
  · split at h
    · cases h
    · rename_i offsets _
      split at h
      · rename_i st hw
        split at h
        · cases h
        · rename_i hgt
          cases h
          obtain ⟨⟨h1, h2, _, h4, h5, h6⟩, hb⟩ := walkEntries_inv t offsets _ _ _ st inv_init (by simp) hw
          have : st.sample - 1 = t.nrSamples := by omega
          exact ⟨by rw [h2, this], h4, h5, h6⟩
      all_goals cases h

/-- a file without a GoPro metadata track, without chunk offsets or with a zero timescale is an error -/
theorem degenerate_is_error (t : Mp4Tables) (h : t.timescale = 0 ∨ t.offsets = none) :
    ∃ e, sampleReads t = .err e := by
  unfold sampleReads
  rcases h with h | h
  · exact ⟨.invalid, by simp [h]⟩
  · by_cases hts : t.timescale = 0
    · exact ⟨.invalid, by simp [hts]⟩
    · exact ⟨.invalid, by simp [hts, h]⟩

/-! ### Every valid layout is accepted and read as the tables say -/

/-- **for every valid sample-table layout** (stsc runs from chunk 1 with increasing first-chunk
    numbers that account for exactly the samples of stsz — minimal or redundant —, any run-length
    split of stts that covers them, stco or co64 as one list of offsets, any non-zero timescale):
    the decoder accepts the tables, and the extents and decode-time intervals it visits are exactly
    those of the declarative reading `specReads` (chunk c holds the next `cs[c]` samples back to
    back from its offset; sample s lasts from the sum of the durations before it to that plus its own) -/
theorem valid_layout_read_as_specified (t : Mp4Tables) (offs : List Nat) (h : ValidLayout t offs) :
    sampleReads t = .ok (specReads t offs) :=
  sampleReads_eq_spec t offs h

/-- the declarative reading in closed form: chunk c (zero-based) starts with the sample after the
    `(cs.take c).sum` samples of the chunks before it -/
theorem spec_closed_form (t : Mp4Tables) (offs : List Nat) :
    specReads t offs =
      (List.range (expandStsc t.stsc offs.length).length).flatMap fun c =>
        chunkReads t (expandStts t.sttsCount t.sttsDelta) (offs.getD c 0)
          (((expandStsc t.stsc offs.length).take c).sum) ((expandStsc t.stsc offs.length).getD c 0) := by
  have gen : ∀ (cs : List Nat) (c b : Nat),
      specFrom t (expandStts t.sttsCount t.sttsDelta) offs cs c b =
        (List.range cs.length).flatMap fun i =>
          chunkReads t (expandStts t.sttsCount t.sttsDelta) (offs.getD (c + i) 0) (b + (cs.take i).sum) (cs.getD i 0) := by
    intro cs
    induction cs with
    | nil => intro c b; simp [specFrom]
    | cons n cs ih =>
      intro c b
      rw [specFrom, ih, List.length_cons, List.range_succ_eq_map, List.flatMap_cons, List.flatMap_map]
      simp only [Nat.add_zero, List.take_zero, List.sum_nil, List.getD_cons_zero]
      congr 1
      have : ∀ i, (fun i => chunkReads t (expandStts t.sttsCount t.sttsDelta) (offs.getD (c + 1 + i) 0)
            (b + n + (cs.take i).sum) (cs.getD i 0)) i =
          ((fun i => chunkReads t (expandStts t.sttsCount t.sttsDelta) (offs.getD (c + i) 0)
            (b + ((n :: cs).take i).sum) ((n :: cs).getD i 0)) ∘ Nat.succ) i := by
        intro i
        simp only [Function.comp, Nat.succ_eq_add_one, List.take_succ_cons, List.sum_cons, List.getD_cons_succ]
        rw [show c + 1 + i = c + (i + 1) by omega, show b + n + (cs.take i).sum = b + (n + (cs.take i).sum) by omega]
      rw [funext this]
      rfl
  unfold specReads
  rw [gen]
  simp

/-- a valid layout exists (the premises of `valid_layout_read_as_specified` are satisfiable): five
    samples in chunks of 2, 2, 1 written with a redundant stsc run, two stts runs, 64-bit-sized offsets -/
example : ValidLayout
    { timescale := 1001, stsc := [(1, 2), (2, 2), (3, 1)], sttsCount := [3, 0, 2], sttsDelta := [1001, 7, 500],
      sizes := [8, 16, 8, 24, 8], uniform := 0, sampleNumber := 5,
      offsets := some [5000000000, 40, 900], hasTrack := true } [5000000000, 40, 900] :=
  { timescale := by decide, offsets := rfl, first := by decide, runs := by simp [stscOK],
    samples := by decide, sttsLen := by decide, sttsCover := by decide }

example : specReads
    { timescale := 1001, stsc := [(1, 2), (3, 1)], sttsCount := [3, 0, 2], sttsDelta := [1001, 7, 500],
      sizes := [8, 16, 8, 24, 8], uniform := 0, sampleNumber := 5,
      offsets := some [5000, 40, 900], hasTrack := true } [5000, 40, 900] =
    [⟨1, 5000, 8, 0, 1001⟩, ⟨2, 5008, 16, 1001, 2002⟩, ⟨3, 40, 8, 2002, 3003⟩, ⟨4, 48, 24, 3003, 3503⟩,
     ⟨5, 900, 8, 3503, 4003⟩] := by decide

/-- the telemetry of the file is the telemetry of its samples, each exactly once, in that order -/
theorem telemetry_is_concatenation {α : Type} [FNum α] (tb : Tables) (t : Mp4Tables) (file : Bytes)
    (rs : List SampleRead) (f : SampleRead → List (List UInt8 × List Int)) (ht : t.hasTrack = true)
    (hr : sampleReads t = .ok rs)
    (hs : ∀ r ∈ rs, decodeSample (α := α) tb t.timescale file r = .ok (f r)) :
    decodeMp4 (α := α) tb t file = .ok (rs.flatMap f) := by
  have gen : ∀ (rs : List SampleRead) (acc : List (List UInt8 × List Int)),
      (∀ r ∈ rs, decodeSample (α := α) tb t.timescale file r = .ok (f r)) →
      rs.foldlM (fun acc r => (decodeSample (α := α) tb t.timescale file r).map (acc ++ ·)) acc =
        Outcome.ok (acc ++ rs.flatMap f) := by
    intro rs
    induction rs with
    | nil => intro acc _; simp
    | cons r rs ih =>
      intro acc h
      rw [List.foldlM_cons, h r (by simp)]
      simp only [Outcome.map, bind_ok, bind_eq]
      have := ih (acc ++ f r) (fun r' hr' => h r' (by simp [hr']))
      simp only [Outcome.map] at this
      rw [this]
      simp
  unfold decodeMp4
  simp only [ht, hr]
  simpa using gen rs [] hs

/-- a file without a GoPro metadata track is reported as an error -/
theorem no_track_is_error {α : Type} [FNum α] (tb : Tables) (t : Mp4Tables) (file : Bytes)
    (ht : t.hasTrack = false) : decodeMp4 (α := α) tb t file = .err .notFound := by
  simp [decodeMp4, ht]

/-! ### Media time -/

/-- ticks → nanoseconds is the exact floor of ticks·10⁹/timescale for every timescale, whether or
    not it divides one second (no error that grows with elapsed time) -/
theorem mediaTime_exact (ticks ts : Nat) (h : ts ≠ 0) :
    mediaTime ticks ts = .ok (ticks * 1000000000 / ts) := by
  unfold mediaTime
  simp only [h, if_false]
  congr 1
  have hpos : 0 < ts := Nat.pos_of_ne_zero h
  conv => rhs; rw [← Nat.div_add_mod ticks ts]
  rw [Nat.add_mul, Nat.mul_assoc, Nat.mul_add_div hpos]

/-! ### Spreading readings over a sample's interval -/

theorem spread_length (s e : Int) (n : Nat) : (spread s e n).length = n := by
  unfold spread; split <;> simp_all

/-- reading i of n gets start + i·((end−start)/n) -/
theorem spread_value (s e : Int) (n i : Nat) (hi : i < n) :
    (spread s e n)[i]'(by rw [spread_length]; exact hi) = s + (i : Int) * ((e - s) / (n : Int)) := by
  unfold spread
  have : n ≠ 0 := by omega
  simp [this]

/-- offsets begin at the sample's start, never decrease, and stay inside its interval -/
theorem spread_bounds (s e : Int) (n i : Nat) (hi : i < n) (hse : s ≤ e) :
    s ≤ s + (i : Int) * ((e - s) / (n : Int)) ∧
    (s < e → s + (i : Int) * ((e - s) / (n : Int)) < e) := by
  have hn : (0 : Int) < n := by omega
  have hq : 0 ≤ (e - s) / (n : Int) := Int.ediv_nonneg (by omega) (by omega)
  have hi0 : (0 : Int) ≤ i := by omega
  refine ⟨by have := Int.mul_nonneg hi0 hq; omega, fun hlt => ?_⟩
  -- i*q ≤ (n-1)*q and n*q ≤ e-s
  have h1 : (i : Int) * ((e - s) / n) ≤ ((n : Int) - 1) * ((e - s) / n) :=
    Int.mul_le_mul_of_nonneg_right (by omega) hq
  have h2 : (n : Int) * ((e - s) / n) ≤ e - s := by
    have := Int.ediv_mul_le (e - s) (show (n : Int) ≠ 0 by omega)
    rwa [Int.mul_comm] at this
  by_cases hq0 : (e - s) / (n : Int) = 0
  · rw [hq0]; omega
  · have hqpos : 0 < (e - s) / (n : Int) := by omega
    have : ((n : Int) - 1) * ((e - s) / n) = (n : Int) * ((e - s) / n) - (e - s) / n := by
      rw [Int.sub_mul]; simp
    omega

theorem spread_monotone (s e : Int) (n i j : Nat) (hij : i ≤ j) (hse : s ≤ e) :
    s + (i : Int) * ((e - s) / (n : Int)) ≤ s + (j : Int) * ((e - s) / (n : Int)) := by
  by_cases hn : n = 0
  · simp [hn]
  · have hq : 0 ≤ (e - s) / (n : Int) := Int.ediv_nonneg (by omega) (by omega)
    have := Int.mul_le_mul_of_nonneg_right (show (i : Int) ≤ j by omega) hq
    omega

/-- integer division made explicit: the deviation from the exact i·(end−start)/n is below i ns -/
theorem spread_exactness (s e : Int) (n i : Nat) (hn : 0 < n) :
    (i : Int) * ((e - s) / (n : Int)) * n ≤ (i : Int) * (e - s) ∧
    (i : Int) * (e - s) < ((i : Int) * ((e - s) / (n : Int)) + i) * n ∨ i = 0 := by
  by_cases hi : i = 0
  · exact Or.inr hi
  · left
    have hnpos : (0 : Int) < n := by omega
    have hmod := Int.emod_lt_of_pos (e - s) hnpos
    have hmod0 := Int.emod_nonneg (e - s) (show (n : Int) ≠ 0 by omega)
    have hdiv := Int.mul_ediv_add_emod (e - s) n
    have hi0 : (0 : Int) < i := by omega
    constructor
    · have : (i : Int) * ((e - s) / n) * n = i * (n * ((e - s) / n)) := by
        rw [Int.mul_assoc, Int.mul_comm ((e - s) / (n : Int)) n]
      rw [this]
      apply Int.mul_le_mul_of_nonneg_left _ (by omega)
      omega
    · have : ((i : Int) * ((e - s) / n) + i) * n = i * (n * ((e - s) / n) + n) := by
        rw [Int.add_mul, Int.mul_assoc, Int.mul_comm ((e - s) / (n : Int)) n, Int.mul_add]
      rw [this]
      apply Int.mul_lt_mul_of_pos_left _ hi0
      omega


/-! ### Through the file -/

/-- media time is monotone in the tick count -/
theorem mediaTime_mono (a b ts : Nat) (hab : a ≤ b) : a * 1000000000 / ts ≤ b * 1000000000 / ts :=
  Nat.div_le_div_right (Nat.mul_le_mul_right _ hab)

/-- every offset of a payload lies between the media times at which the payload begins and ends -/
theorem offset_within_payload (s e : Int) (n i : Nat) (hi : i < n) (hse : s ≤ e) :
    s ≤ s + (i : Int) * ((e - s) / (n : Int)) ∧ s + (i : Int) * ((e - s) / (n : Int)) ≤ e := by
  obtain ⟨h1, h2⟩ := spread_bounds s e n i hi hse
  refine ⟨h1, ?_⟩
  by_cases hlt : s < e
  · exact Int.le_of_lt (h2 hlt)
  · have : e - s = 0 := by omega
    rw [this]; simp; omega

/-- **offsets never decrease through the file**: for two samples in presentation order (the earlier
    one ends, in ticks, no later than the later one begins — `every_sample_once`), every offset
    given to a reading of the earlier payload is at most every offset given to a reading of the
    later payload, whatever the numbers of readings and for every timescale -/
theorem offsets_never_decrease_through_the_file (ts : Nat) (r1 r2 : SampleRead)
    (h12 : r1.endTicks ≤ r2.startTicks) (h1 : r1.startTicks ≤ r1.endTicks) (h2 : r2.startTicks ≤ r2.endTicks)
    (n1 n2 i j : Nat) (hi : i < n1) (hj : j < n2) :
    ∀ (s1 e1 s2 e2 : Int), s1 = ((r1.startTicks * 1000000000 / ts : Nat) : Int) →
      e1 = ((r1.endTicks * 1000000000 / ts : Nat) : Int) → s2 = ((r2.startTicks * 1000000000 / ts : Nat) : Int) →
      e2 = ((r2.endTicks * 1000000000 / ts : Nat) : Int) →
    s1 + (i : Int) * ((e1 - s1) / (n1 : Int)) ≤ s2 + (j : Int) * ((e2 - s2) / (n2 : Int)) := by
  intro s1 e1 s2 e2 hs1 he1 hs2 he2
  have hs1e1 : s1 ≤ e1 := by rw [hs1, he1]; exact Int.ofNat_le.mpr (mediaTime_mono _ _ ts h1)
  have hs2e2 : s2 ≤ e2 := by rw [hs2, he2]; exact Int.ofNat_le.mpr (mediaTime_mono _ _ ts h2)
  have he1s2 : e1 ≤ s2 := by rw [he1, hs2]; exact Int.ofNat_le.mpr (mediaTime_mono _ _ ts h12)
  have a := (offset_within_payload s1 e1 n1 i hi hs1e1).2
  have b := (offset_within_payload s2 e2 n2 j hj hs2e2).1
  exact Int.le_trans a (Int.le_trans he1s2 b)

end TrackVerif.C08
