import TrackVerif.GPMF.Lemmas
import TrackVerif.GPMF.Mp4
import TrackVerif.GPMF.Spec
import TrackVerif.GPMF.NumRat
import TrackVerif.Generated.GPMF
/-
  C09 — Malformed telemetry is an error, never a crash or a hang.
  Property theorems only.
-/
namespace TrackVerif.C09
open TrackVerif Outcome GPMF

/-- tie: the tables regenerated from element.go / keys.go / the sensor files / face.go are the
    expected ones (widths, key → parser, layouts, face offsets) -/
theorem tables_tie : Gen.GPMF.tables.types = Spec.expectedTables.types ∧
    Gen.GPMF.tables.keyParsers = Spec.expectedTables.keyParsers ∧
    Gen.GPMF.tables.layouts = Spec.expectedTables.layouts ∧
    Gen.GPMF.tables.faceDefs = Spec.expectedTables.faceDefs ∧
    Gen.GPMF.tables.faceFields = Spec.expectedTables.faceFields ∧
    Gen.GPMF.extractOk = true := by decide

/-- the tables give every sensor a positive sample width and keep every face field inside its
    record (what the crash-freedom argument needs of them) -/
theorem tables_ok : tablesOK Spec.expectedTables = true ∧ tablesOK Gen.GPMF.tables = true := by decide

variable {α : Type} [FNum α]

/-- for ARBITRARY bytes the reader model never reaches a Go panic: zero-sized and zero-count
    elements, empty scale vectors, undersized or payload-less face records, truncated streams … -/
theorem reader_no_panic (s : Bytes) :
    ∀ p, (readAll Spec.expectedTables s : Outcome (List (Elem α))) ≠ .panic p := by
  intro p h
  unfold readAll at h
  have := readLevel_noPanic (α := α) Spec.expectedTables tables_ok.1 (s.length + 1) ⟨[]⟩ true s
    ⟨[], none, []⟩ levelOK_init
  exact noPanic_map this p h

/-- …for any tables that satisfy the two table conditions -/
theorem reader_no_panic_tables (t : Tables) (hok : tablesOK t = true) (s : Bytes) :
    ∀ p, (readAll t s : Outcome (List (Elem α))) ≠ .panic p := by
  intro p h
  unfold readAll at h
  exact noPanic_map (readLevel_noPanic (α := α) t hok (s.length + 1) ⟨[]⟩ true s ⟨[], none, []⟩ levelOK_init) p h

/-! ### Decoder: arbitrary sample tables -/

theorem sampleSize_noPanic (t : Mp4Tables) (i : Nat) (h : 1 ≤ i) : NoPanic (t.sampleSize i) := by
  unfold Mp4Tables.sampleSize
  split
  · simp
  · rename_i hle
    rw [idx?_ok_of_lt _ _ (by omega)]
    simp

theorem walkChunk_noPanic (t : Mp4Tables) (samples n offset : Nat) (st : WalkState) (h1 : 1 ≤ st.sample) :
    NoPanic (walkChunk t samples n offset st) ∧
    ∀ st', walkChunk t samples n offset st = .ok st' → 1 ≤ st'.sample := by
  induction n generalizing offset st with
  | zero => simp [walkChunk]; exact h1
  | succ n ih =>
    unfold walkChunk
    split
    · exact ⟨by simp, fun st' h => by cases h; exact h1⟩
    · simp only
      split
      · exact ⟨by simp, fun st' h => by cases h⟩
      · rename_i hidx
        have hlt : (skipStts t.sttsCount (t.sttsCount.length + 1) st.timeIdx st.timeUsed).1 < t.sttsDelta.length := by omega
        rw [idx?_ok_of_lt _ _ hlt]
        simp only [bind_ok]
        constructor
        · exact noPanic_bind (sampleSize_noPanic t st.sample h1) (fun size _ => (ih _ _ (by simp)).1)
        · intro st' h
          obtain ⟨size, _, h⟩ := bind_eq_ok.mp h
          exact (ih _ _ (by simp)).2 st' h

theorem walkChunks_noPanic (t : Mp4Tables) (offsets : List Nat) (samples perChunk fuel chunkNr last : Nat)
    (st : WalkState) (h1 : 1 ≤ st.sample) (hc : 1 ≤ chunkNr) (hl : last ≤ offsets.length) :
    NoPanic (walkChunks t offsets samples perChunk fuel chunkNr last st) ∧
    ∀ st', walkChunks t offsets samples perChunk fuel chunkNr last st = .ok st' → 1 ≤ st'.sample := by
  induction fuel generalizing chunkNr st with
  | zero => simp [walkChunks]; exact h1
  | succ n ih =>
    unfold walkChunks
    split
    · exact ⟨by simp, fun st' h => by cases h; exact h1⟩
    · rename_i hle
      have hlt : chunkNr - 1 < offsets.length := by omega
      rw [idx?_ok_of_lt _ _ hlt]
      simp only [bind_ok]
      have hw := walkChunk_noPanic t samples perChunk (offsets[chunkNr - 1]) st h1
      constructor
      · exact noPanic_bind hw.1 (fun st1 hst1 => (ih (chunkNr + 1) st1 (hw.2 st1 hst1) (by omega)).1)
      · intro st' h
        obtain ⟨st1, hst1, h⟩ := bind_eq_ok.mp h
        exact (ih (chunkNr + 1) st1 (hw.2 st1 hst1) (by omega)).2 st' h

theorem lastChunk_le (rest : List (Nat × Nat)) (chunks : Nat) : lastChunk rest chunks ≤ chunks := by
  unfold lastChunk
  split
  · split
    · omega
    · exact Nat.le_refl _
  · exact Nat.le_refl _

theorem walkEntries_noPanic (t : Mp4Tables) (offsets : List Nat) (samples : Nat) (es : List (Nat × Nat))
    (st : WalkState) (h1 : 1 ≤ st.sample) : NoPanic (walkEntries t offsets samples es st) := by
  induction es generalizing st with
  | nil => simp [walkEntries]
  | cons e rest ih =>
    obtain ⟨first, perChunk⟩ := e
    unfold walkEntries
    split
    · simp
    · rename_i hf
      have hw := walkChunks_noPanic t offsets samples perChunk (offsets.length + 1) first
        (lastChunk rest offsets.length) st h1 (by omega) (lastChunk_le _ _)
      exact noPanic_bind hw.1 (fun st1 hst1 => ih st1 (hw.2 st1 hst1))

/-- for ARBITRARY sample tables (any counts, sizes, offsets, timescale incl. 0, tables that
    disagree with each other) the walk never indexes a table out of range or divides by zero -/
theorem tables_no_panic (t : Mp4Tables) : ∀ p, sampleReads t ≠ .panic p := by
  intro p h
  unfold sampleReads at h
  split at h
  · cases h
  · split at h
    · cases h
    · rename_i offsets _
      have := walkEntries_noPanic t offsets t.nrSamples t.stsc ⟨1, 0, 0, 0, []⟩ (by simp)
      split at h
      · split at h <;> cases h
      · cases h
      · rename_i q hq; exact this q hq
      · cases h

theorem mediaTime_noPanic (ticks ts : Nat) (h : ts ≠ 0) : NoPanic (mediaTime ticks ts) := by
  unfold mediaTime; simp [h]

/-- the whole decoder model: tables, media times, per-sample reads and offset spreading -/
theorem decoder_no_panic (t : Mp4Tables) (file : Bytes) :
    ∀ p, (decodeMp4 (α := α) Spec.expectedTables t file) ≠ .panic p := by
  intro p h
  unfold decodeMp4 at h
  split at h
  · cases h
  · split at h
    · rename_i reads hr
      have hts : t.timescale ≠ 0 := by
        intro h0
        unfold sampleReads at hr
        simp [h0] at hr
      have hsample : ∀ r, NoPanic (decodeSample (α := α) Spec.expectedTables t.timescale file r) := by
        intro r
        unfold decodeSample
        have h1 := mediaTime_noPanic r.startTicks t.timescale hts
        have h2 := mediaTime_noPanic r.endTicks t.timescale hts
        split
        · split
          · simp
          · split
            · simp
            · simp
            · rename_i q hq; exact absurd hq (reader_no_panic _ q)
            · simp
        · rename_i q hq; exact absurd hq (h1 q)
        · exact absurd ‹mediaTime r.endTicks t.timescale = Outcome.panic _› (h2 _)
        · simp
      have hfold : ∀ (rs : List SampleRead) (acc : List (List UInt8 × List Int)),
          NoPanic (rs.foldlM (fun acc r => (decodeSample (α := α) Spec.expectedTables t.timescale file r).map (acc ++ ·)) acc) := by
        intro rs
        induction rs with
        | nil => intro acc; simp [List.foldlM]
        | cons r rs ih =>
          intro acc
          simp only [List.foldlM_cons, bind_eq]
          exact noPanic_bind (noPanic_map (hsample r)) (fun a _ => ih a)
      exact hfold reads [] p h
    · cases h
    · rename_i q hq; exact tables_no_panic t q hq
    · cases h

/-- spreading never divides by zero: an element without readings gets no offsets -/
theorem empty_payload_ok (s e : Int) : spread s e 0 = [] := by simp [spread]

/-- degenerate inputs are errors or empty, each as a named instance -/
example : (readAll Spec.expectedTables ([] : Bytes) : Outcome (List (Elem Rat))).isOk = true := by decide

end TrackVerif.C09
