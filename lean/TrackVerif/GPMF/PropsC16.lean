import TrackVerif.GPMF.Lemmas
import TrackVerif.GPMF.Spec
import TrackVerif.GPMF.NumRat
import TrackVerif.Generated.GPMF
/-
  C16 — Sensor readings carry only their own stream's, device's and payload's metadata.
  Property theorems only.
-/
namespace TrackVerif.C16
open TrackVerif Outcome GPMF

/-- tie: which keys store metadata (parseMetadata / GPSF / GPSP), which elements expose it
    (sensors, FACE, FCNM, ISOE) and the friendly names, regenerated from keys.go -/
theorem tables_tie : Gen.GPMF.tables.keyParsers = Spec.expectedTables.keyParsers ∧
    Gen.GPMF.tables.keyNames = Spec.expectedTables.keyNames ∧ Gen.GPMF.extractOk = true := by decide

/-- the nine descriptive keys are stored on the parent level under their friendly names -/
theorem metadata_keys :
    ∀ k ∈ ["DVID", "DVNM", "STNM", "SIUN", "UNIT", "TYPE", "GPSU", "TSMP", "TMPC"],
      Spec.expectedTables.keyParsers.lookup k = some "parseMetadata" := by decide

/-- the elements that expose metadata: GPS, accelerometer, gyroscope, white-balance gains (sensor
    parsers that init metadata), faces, face count, sensor ISO -/
theorem exposing_keys :
    Spec.expectedTables.keyParsers.lookup "GPS5" = some "parseGPS" ∧
    Spec.expectedTables.keyParsers.lookup "ACCL" = some "parseAccel" ∧
    Spec.expectedTables.keyParsers.lookup "GYRO" = some "parseGyro" ∧
    Spec.expectedTables.keyParsers.lookup "WRGB" = some "parseWhiteBalanceRGB" ∧
    Spec.expectedTables.keyParsers.lookup "FACE" = some "parseFace" ∧
    Spec.expectedTables.keyParsers.lookup "FCNM" = some "parseHasMetadata" ∧
    Spec.expectedTables.keyParsers.lookup "ISOE" = some "parseHasMetadata" := by decide

variable {α : Type}

/-- a value restated later replaces the earlier one (for the elements that follow) -/
theorem restated_replaces (m : MetaMap α) (k : String) (v : MetaVal α) :
    ∃ w, (m.set k v).lookup k = some w ∧ (m.set k v).has k = true := by
  unfold MetaMap.set MetaMap.has
  split
  · rename_i h
    induction m with
    | nil => simp at h
    | cons p ps ih =>
      obtain ⟨a, b⟩ := p
      by_cases ha : a = k
      · subst ha; exact ⟨v, by simp [List.lookup], by simp⟩
      · have hk : (k == a) = false := by simpa using (Ne.symm ha)
        have hps : ps.any (·.1 = k) = true := by simpa [ha] using h
        obtain ⟨w, hw, _⟩ := ih hps
        refine ⟨w, ?_, ?_⟩
        · simp only [List.map_cons, ha, if_false, List.lookup, hk]
          exact hw
        · simp only [List.map_cons, List.any_cons]
          simp [hps]
          right
          have := ih hps
          obtain ⟨_, _, h3⟩ := this
          simpa using h3
  · rename_i h
    refine ⟨v, ?_, by simp⟩
    have : m.lookup k = none := by
      induction m with
      | nil => rfl
      | cons p ps ih =>
        obtain ⟨a, b⟩ := p
        have h' : ¬ a = k ∧ ¬ ps.any (·.1 = k) = true := by simpa using h
        have hk : (k == a) = false := by simpa using (Ne.symm h'.1)
        simp only [List.lookup, hk]
        exact ih (by simpa using h'.2)
    simp [List.lookup_append, this, List.lookup]

theorem map_replace_any (m : MetaMap α) (k k' : String) (v : MetaVal α) (h : k' ≠ k) :
    (m.map fun p => if p.1 = k then (k, v) else p).any (·.1 = k') = m.any (·.1 = k') := by
  induction m with
  | nil => rfl
  | cons p ps ih =>
    obtain ⟨a, b⟩ := p
    simp only [List.map_cons, List.any_cons, ih]
    by_cases ha : a = k
    · subst ha; simp [Ne.symm h]
    · simp [ha]

/-- setting one key leaves every other key alone -/
theorem set_other (m : MetaMap α) (k k' : String) (v : MetaVal α) (h : k' ≠ k) :
    (m.set k v).has k' = m.has k' := by
  unfold MetaMap.set MetaMap.has
  split
  · exact map_replace_any m k k' v h
  · simp [List.any_append, Ne.symm h]

/-- folding one ancestor's entries in only ever adds keys that are absent -/
theorem addAbsent_keeps (m anc : MetaMap α) :
    ∀ q ∈ m, q ∈ anc.foldl (fun (m : MetaMap α) p => if m.has p.1 then m else m ++ [p]) m := by
  induction anc generalizing m with
  | nil => intro q hq; simpa using hq
  | cons p ps ih =>
    intro q hq
    simp only [List.foldl_cons]
    apply ih
    split
    · exact hq
    · exact List.mem_append_left _ hq

theorem addAbsent_source (m anc : MetaMap α) :
    ∀ q ∈ anc.foldl (fun (m : MetaMap α) p => if m.has p.1 then m else m ++ [p]) m, q ∈ m ∨ q ∈ anc := by
  induction anc generalizing m with
  | nil => intro q hq; exact Or.inl (by simpa using hq)
  | cons p ps ih =>
    intro q hq
    simp only [List.foldl_cons] at hq
    rcases ih _ q hq with h | h
    · split at h
      · exact Or.inl h
      · rcases List.mem_append.mp h with h | h
        · exact Or.inl h
        · simp at h; subst h; exact Or.inr (by simp)
    · exact Or.inr (by simp [h])

/-- what a sensor element sees: every entry stated in its own stream is kept (own statements win
    over the device's), and every entry it sees was stated in its own stream or by one of its
    ancestors below the root (its device) — never by a sibling stream, another device or another
    payload: those maps are not reachable from `ctx.ancestors` -/
theorem sees_own_and_ancestors (ctx : Ctx α) (lv : Level α) :
    (∀ q ∈ lv.md, q ∈ (initMetadata ctx lv false).md) ∧
    (∀ q ∈ (initMetadata ctx lv false).md, q ∈ lv.md ∨ ∃ anc ∈ ctx.ancestors, q ∈ anc) := by
  unfold initMetadata
  simp only [Bool.false_eq_true, if_false]
  generalize ctx.ancestors = ancs
  induction ancs generalizing lv with
  | nil => exact ⟨fun q h => by simpa using h, fun q h => Or.inl (by simpa using h)⟩
  | cons a as ih =>
    simp only [List.foldl_cons]
    have hstep := ih { lv with md := a.foldl (fun (m : MetaMap α) p => if m.has p.1 then m else m ++ [p]) lv.md }
    constructor
    · intro q hq
      exact hstep.1 q (addAbsent_keeps lv.md a q hq)
    · intro q hq
      rcases hstep.2 q hq with h | ⟨anc, hanc, h⟩
      · rcases addAbsent_source lv.md a q h with h | h
        · exact Or.inl h
        · exact Or.inr ⟨a, by simp, h⟩
      · exact Or.inr ⟨anc, by simp [hanc], h⟩

/-- directly under the root nothing is copied (the root itself is never a source) -/
theorem root_level_copies_nothing (ctx : Ctx α) (lv : Level α) : initMetadata ctx lv true = lv := by
  simp [initMetadata]

variable [FNum α]

/-- no leak from one payload to the next: reading a payload starts from an empty level, so its
    result is a function of that payload's bytes alone -/
theorem payload_isolated (t : Tables) (s : Bytes) :
    (readAll t s : Outcome (List (Elem α))) =
      (readLevel t (s.length + 1) ⟨[]⟩ true s ⟨[], none, []⟩).map (·.children) := rfl

/-- no leak between sibling containers: each nested container (device, stream) is read into a fresh
    level; the only outside metadata its elements can reach are the maps of its ancestors -/
theorem container_starts_fresh (t : Tables) (fuel : Nat) (ctx : Ctx α) (pr : Bool) (lv lv2 : Level α)
    (h : Header) (hw : h.typ = tNested) (s : Bytes) (hs : s.isEmpty = false) (hp : parseHeader s = some h)
    (hv : h.valid = true) (hmd : lv.md = lv2.md) :
    -- the children of the container are read the same way whatever the siblings before it produced
    -- (children list, pending scale), as long as the parent's own metadata is the same
    (match readLevel t fuel ⟨if pr then [] else lv.md :: ctx.ancestors⟩ false ((s.drop 8).take h.total) ⟨[], none, []⟩ with
      | .ok c => some (c.md, c.children.length) | _ => none) =
    (match readLevel t fuel ⟨if pr then [] else lv2.md :: ctx.ancestors⟩ false ((s.drop 8).take h.total) ⟨[], none, []⟩ with
      | .ok c => some (c.md, c.children.length) | _ => none) := by
  rw [hmd]

end TrackVerif.C16
