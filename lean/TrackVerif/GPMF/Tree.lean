import TrackVerif.GPMF.Lemmas
/-
  The writer's side of GPMF: headers, whole key-length-value trees and their encoding; the
  reader's step lemmas (leaf, container) and the whole-tree theorem: whatever forest of
  well-formed elements was encoded, the reader — when it accepts the stream — returns a tree with
  the same headers (key, type, size, repeat), the same nesting and the same order.
-/
namespace TrackVerif.GPMF
open TrackVerif Outcome

/-! ### Encoding side (the writer of well-formed streams) -/

def encodeHeader (h : Header) : Bytes :=
  h.key ++ [h.typ, h.size, UInt8.ofNat (h.count / 256), UInt8.ofNat (h.count % 256)]

def HeaderWF (h : Header) : Prop := h.key.length = 4 ∧ h.count < 65536

theorem parseHeader_encode (h : Header) (hw : HeaderWF h) (rest : Bytes) :
    parseHeader (encodeHeader h ++ rest) = some h := by
  obtain ⟨hk, hc⟩ := hw
  obtain ⟨key, typ, size, count⟩ := h
  change count < 65536 at hc
  match key, hk with
  | [k0, k1, k2, k3], _ =>
    simp only [encodeHeader, parseHeader, List.cons_append, List.nil_append]
    have h1 : (UInt8.ofNat (count / 256)).toNat = count / 256 := by
      simp; omega
    have h2 : (UInt8.ofNat (count % 256)).toNat = count % 256 := by
      simp
    simp [h1, h2]
    omega

theorem encodeHeader_length (h : Header) (hw : HeaderWF h) : (encodeHeader h).length = 8 := by
  simp [encodeHeader, hw.1]

variable {α : Type} [FNum α]

/-- a leaf element followed by its alignment padding: the reader takes exactly size×repeat bytes
    as the payload, skips the padding, formats, and continues with what follows -/
theorem readLevel_leaf_step (t : Tables) (fuel : Nat) (ctx : Ctx α) (pr : Bool) (lv : Level α)
    (h : Header) (hw : HeaderWF h) (hv : h.valid = true) (hn : h.typ ≠ tNested)
    (raw pad rest : Bytes) (hraw : raw.length = h.dataSize) (hpad : pad.length = h.padding) :
    readLevel t (fuel + 1) ctx pr (encodeHeader h ++ raw ++ pad ++ rest) lv =
      match formatElem t ctx pr lv h raw with
      | .ok f => readLevel t fuel ctx pr rest
          { f.level with children := f.level.children ++ [Elem.mk h h.total f.data [] f.aliases []] }
      | .err e => .err e
      | .panic p => .panic p
      | .unmodelled => .unmodelled := by
  have hlen := encodeHeader_length h hw
  have hne : (encodeHeader h ++ raw ++ pad ++ rest).isEmpty = false := by
    cases he : encodeHeader h with
    | nil => simp [he] at hlen
    | cons a as => simp
  have hdrop : (encodeHeader h ++ raw ++ pad ++ rest).drop 8 = raw ++ pad ++ rest := by
    rw [List.append_assoc, List.append_assoc, List.drop_append_of_le_length (by omega)]
    simp [hlen, List.append_assoc]
  conv => lhs; unfold readLevel
  simp only [hne, Bool.false_eq_true, if_false]
  rw [List.append_assoc, List.append_assoc, parseHeader_encode h hw]
  simp only [hv, Bool.not_true, Bool.false_eq_true, if_false, hn]
  rw [← List.append_assoc, ← List.append_assoc, hdrop]
  have h1 : ¬ ((raw ++ pad ++ rest).length < h.dataSize) := by simp; omega
  have h2 : (raw ++ pad ++ rest).take h.dataSize = raw := by
    rw [List.append_assoc, List.take_append_of_le_length (by omega), List.take_of_length_le (by omega)]
  have h3 : (raw ++ pad ++ rest).drop h.dataSize = pad ++ rest := by
    rw [List.append_assoc, List.drop_append_of_le_length (by omega), List.drop_of_length_le (by omega)]
    simp
  have h4 : ¬ ((pad ++ rest).length < h.padding) := by simp; omega
  have h5 : (pad ++ rest).drop h.padding = rest := by
    rw [List.drop_append_of_le_length (by omega), List.drop_of_length_le (by omega)]; simp
  simp only [h1, if_false, h2, h3, h4, h5]
  cases formatElem t ctx pr lv h raw <;> rfl

/-- a nested container: its children are read from exactly the `total` bytes it declares; the
    bytes that follow are parsed at the parent's level — as siblings, never as children -/
theorem readLevel_container_step (t : Tables) (fuel : Nat) (ctx : Ctx α) (pr : Bool) (lv : Level α)
    (h : Header) (hw : HeaderWF h) (hv : h.valid = true) (hn : h.typ = tNested)
    (inner rest : Bytes) (hinner : inner.length = h.total) (hpad : h.padding = 0) :
    readLevel t (fuel + 1) ctx pr (encodeHeader h ++ inner ++ rest) lv =
      match readLevel t fuel ⟨if pr then [] else lv.md :: ctx.ancestors⟩ false inner ⟨[], none, []⟩ with
      | .ok clv =>
        (match applyParsers t ctx pr lv h [] .nil with
          | .ok f => readLevel t fuel ctx pr rest
              { f.level with children := f.level.children ++ [Elem.mk h h.total f.data clv.md f.aliases clv.children] }
          | .err e => .err e
          | .panic p => .panic p
          | .unmodelled => .unmodelled)
      | .err e => .err e
      | .panic p => .panic p
      | .unmodelled => .unmodelled := by
  have hlen := encodeHeader_length h hw
  have hne : (encodeHeader h ++ inner ++ rest).isEmpty = false := by
    cases he : encodeHeader h with
    | nil => simp [he] at hlen
    | cons a as => simp
  have hdrop : (encodeHeader h ++ inner ++ rest).drop 8 = inner ++ rest := by
    rw [List.append_assoc, List.drop_append_of_le_length (by omega)]
    simp [hlen]
  conv => lhs; unfold readLevel
  simp only [hne, Bool.false_eq_true, if_false]
  rw [List.append_assoc, parseHeader_encode h hw]
  simp only [hv, Bool.not_true, Bool.false_eq_true, if_false, hn, if_true]
  rw [← List.append_assoc, hdrop]
  have h2 : (inner ++ rest).take h.total = inner := by
    rw [List.take_append_of_le_length (by omega), List.take_of_length_le (by omega)]
  have h1 : ¬ ((inner ++ rest).length < h.total) := by simp; omega
  have h3 : (inner ++ rest).drop h.total = rest := by
    rw [List.drop_append_of_le_length (by omega), List.drop_of_length_le (by omega)]; simp
  simp only [h2, h1, if_false, h3, hpad, Nat.not_lt_zero, List.drop_zero]
  cases readLevel t fuel ⟨if pr then [] else lv.md :: ctx.ancestors⟩ false inner ⟨[], none, []⟩ with
  | ok clv => cases applyParsers t ctx pr lv h [] Raw.nil <;> rfl
  | err e => rfl
  | panic p => rfl
  | unmodelled => rfl


/-! ### Whole trees -/

/-- a key-length-value tree as the camera writes it -/
inductive KLV
  | leaf (h : Header) (payload pad : Bytes)
  | node (h : Header) (kids : List KLV)

mutual
/-- the bytes of one element: header, payload, alignment padding / header, children -/
def KLV.encode : KLV → Bytes
  | .leaf h payload pad => encodeHeader h ++ payload ++ pad
  | .node h kids => encodeHeader h ++ KLV.encodeL kids
def KLV.encodeL : List KLV → Bytes
  | [] => []
  | k :: ks => k.encode ++ KLV.encodeL ks
end

mutual
/-- well-formed: 4-byte 7-bit keys, 16-bit repeat counts, a leaf carries exactly size×repeat
    payload bytes and the padding to the next 32-bit boundary (any bytes), a container is typed
    NUL and declares exactly the bytes of its children -/
def KLV.WF : KLV → Prop
  | .leaf h payload pad => HeaderWF h ∧ h.valid = true ∧ h.typ ≠ tNested ∧ payload.length = h.dataSize ∧
      pad.length = h.padding
  | .node h kids => HeaderWF h ∧ h.valid = true ∧ h.typ = tNested ∧ (KLV.encodeL kids).length = h.dataSize ∧
      KLV.WFL kids
def KLV.WFL : List KLV → Prop
  | [] => True
  | k :: ks => k.WF ∧ KLV.WFL ks
end

/-- keys, types, sizes, repeats, nesting and order — nothing else -/
inductive Skel
  | mk (h : Header) (kids : List Skel)
  deriving Repr

mutual
def KLV.skel : KLV → Skel
  | .leaf h _ _ => .mk h []
  | .node h kids => .mk h (KLV.skelL kids)
def KLV.skelL : List KLV → List Skel
  | [] => []
  | k :: ks => k.skel :: KLV.skelL ks
end

mutual
def Elem.skel {α : Type} : Elem α → Skel
  | .mk h _ _ _ _ nested => .mk h (Elem.skelL nested)
def Elem.skelL {α : Type} : List (Elem α) → List Skel
  | [] => []
  | e :: es => e.skel :: Elem.skelL es
end

theorem Elem.skelL_append {α : Type} (a b : List (Elem α)) :
    Elem.skelL (a ++ b) = Elem.skelL a ++ Elem.skelL b := by
  induction a with
  | nil => simp [Elem.skelL]
  | cons e es ih => simp [Elem.skelL, ih]

theorem Header.dataSize_le_total (h : Header) : h.dataSize ≤ h.total := by
  unfold Header.total; omega

mutual
theorem KLV.encode_length_mod4 : ∀ k : KLV, k.WF → k.encode.length % 4 = 0
  | .leaf h payload pad, hw => by
    obtain ⟨hh, _, _, hp, hpad⟩ := hw
    have := encodeHeader_length h hh
    have hle := Header.dataSize_le_total h
    simp only [KLV.encode, List.length_append, this, hp, hpad, Header.padding]
    have : h.total % 4 = 0 := by unfold Header.total; omega
    omega
  | .node h kids, hw => by
    obtain ⟨hh, _, _, _, hk⟩ := hw
    have := encodeHeader_length h hh
    have := KLV.encodeL_length_mod4 kids hk
    simp only [KLV.encode, List.length_append]
    omega
theorem KLV.encodeL_length_mod4 : ∀ ks : List KLV, KLV.WFL ks → (KLV.encodeL ks).length % 4 = 0
  | [], _ => by simp [KLV.encodeL]
  | k :: ks, hw => by
    have := KLV.encode_length_mod4 k hw.1
    have := KLV.encodeL_length_mod4 ks hw.2
    simp only [KLV.encodeL, List.length_append]
    omega
end

/-! ### The stages never touch the list of elements read so far -/

variable {α : Type} [FNum α]

theorem scaleStage_children (lv lv' : Level α) (d0 d1 : Data α)
    (h : scaleStage lv d0 = .ok (d1, lv')) : lv'.children = lv.children := by
  unfold scaleStage at h
  split at h
  · simp only [bind_eq] at h
    obtain ⟨vs, _, h⟩ := bind_eq_ok.mp h
    obtain ⟨sc', _, h⟩ := bind_eq_ok.mp h
    simp at h
    obtain ⟨_, rfl⟩ := h
    rfl
  · simp at h
    obtain ⟨_, rfl⟩ := h
    rfl

theorem parseStage_children (t : Tables) (ctx : Ctx α) (pr : Bool) (h : Header) (raw : Bytes) (d1 : Data α)
    (lv : Level α) (f : Formatted α) (hf : parseStage t ctx pr h raw d1 lv = .ok f) :
    f.level.children = lv.children := by
  unfold parseStage at hf
  simp only at hf
  split at hf
  · cases hf; rfl
  · split at hf
    · cases hf; rfl
    · split at hf
      · cases hf; rfl
      · split at hf
        · cases hf; exact initMetadata_children ..
        · split at hf
          · simp only [bind_eq] at hf
            obtain ⟨vs, _, hf⟩ := bind_eq_ok.mp hf
            split at hf
            · cases hf
            · cases hf; rfl
          · split at hf
            · split at hf
              · cases hf; rfl
              · cases hf
            · split at hf
              · split at hf
                · cases hf; rfl
                · cases hf
              · split at hf
                · unfold parseFaceStage at hf
                  simp only at hf
                  split at hf
                  · cases hf; exact initMetadata_children ..
                  · split at hf
                    · cases hf
                    · split at hf
                      · cases hf
                      · split at hf
                        · cases hf
                        · split at hf
                          · cases hf
                          · simp only [bind_eq] at hf
                            obtain ⟨recs, _, hf⟩ := bind_eq_ok.mp hf
                            cases hf; exact initMetadata_children ..
                    · cases hf
                · unfold sensorStage at hf
                  split at hf
                  · cases hf
                  · simp only [bind_eq] at hf
                    obtain ⟨vs, _, hf⟩ := bind_eq_ok.mp hf
                    obtain ⟨ss, _, hf⟩ := bind_eq_ok.mp hf
                    cases hf
                    simp only
                    split
                    · exact initMetadata_children ..
                    · rfl

theorem applyParsers_children (t : Tables) (ctx : Ctx α) (pr : Bool) (lv : Level α) (h : Header) (raw : Bytes)
    (basic : Raw) (f : Formatted α) (hf : applyParsers t ctx pr lv h raw basic = .ok f) :
    f.level.children = lv.children := by
  unfold applyParsers at hf
  obtain ⟨⟨d1, lv1⟩, h1, h2⟩ := bind_eq_ok.mp hf
  rw [parseStage_children t ctx pr h raw d1 lv1 f h2, scaleStage_children lv lv1 _ d1 h1]

theorem formatElem_children (t : Tables) (ctx : Ctx α) (pr : Bool) (lv : Level α) (h : Header) (raw : Bytes)
    (f : Formatted α) (hf : formatElem t ctx pr lv h raw = .ok f) : f.level.children = lv.children := by
  unfold formatElem at hf
  obtain ⟨b, _, hf⟩ := bind_eq_ok.mp hf
  exact applyParsers_children t ctx pr lv h raw b f hf

/-! ### The reader returns the tree that was written -/

mutual
theorem readLevel_tree (t : Tables) : ∀ (k : KLV), k.WF → ∀ (rest : Bytes) (fuel : Nat) (ctx : Ctx α) (pr : Bool)
    (lv lv' : Level α), readLevel t (fuel + 1) ctx pr (k.encode ++ rest) lv = .ok lv' →
    ∃ lv1 : Level α, readLevel t fuel ctx pr rest lv1 = .ok lv' ∧
      Elem.skelL lv1.children = Elem.skelL lv.children ++ [k.skel]
  | .leaf h payload pad, hw, rest, fuel, ctx, pr, lv, lv', hr => by
    obtain ⟨hh, hv, hn, hp, hpad⟩ := hw
    simp only [KLV.encode] at hr
    rw [readLevel_leaf_step t fuel ctx pr lv h hh hv hn payload pad rest hp hpad] at hr
    split at hr
    · rename_i f hf
      refine ⟨_, hr, ?_⟩
      simp only [Elem.skelL_append, formatElem_children t ctx pr lv h payload f hf]
      simp [Elem.skelL, Elem.skel, KLV.skel]
    all_goals cases hr
  | .node h kids, hw, rest, fuel, ctx, pr, lv, lv', hr => by
    obtain ⟨hh, hv, hn, hlen, hk⟩ := hw
    have hmod := KLV.encodeL_length_mod4 kids hk
    have htot : h.total = h.dataSize := by unfold Header.total; omega
    have hpad : h.padding = 0 := by unfold Header.padding; omega
    simp only [KLV.encode] at hr
    rw [readLevel_container_step t fuel ctx pr lv h hh hv hn (KLV.encodeL kids) rest (by omega) hpad] at hr
    split at hr
    · rename_i clv hc
      split at hr
      · rename_i f hf
        refine ⟨_, hr, ?_⟩
        have hkids := readLevel_forest t kids hk fuel _ false ⟨[], none, []⟩ clv hc
        simp only [Elem.skelL_append, applyParsers_children t ctx pr lv h [] .nil f hf]
        simp [Elem.skelL, Elem.skel, KLV.skel, hkids]
      all_goals cases hr
    all_goals cases hr
theorem readLevel_forest (t : Tables) : ∀ (ks : List KLV), KLV.WFL ks → ∀ (fuel : Nat) (ctx : Ctx α) (pr : Bool)
    (lv lv' : Level α), readLevel t fuel ctx pr (KLV.encodeL ks) lv = .ok lv' →
    Elem.skelL lv'.children = Elem.skelL lv.children ++ KLV.skelL ks
  | [], _, fuel, ctx, pr, lv, lv', hr => by
    cases fuel with
    | zero => simp [readLevel] at hr
    | succ fuel =>
      simp only [KLV.encodeL] at hr
      unfold readLevel at hr
      simp at hr
      subst hr
      simp [KLV.skelL]
  | k :: ks, hw, fuel, ctx, pr, lv, lv', hr => by
    cases fuel with
    | zero => simp [readLevel] at hr
    | succ fuel =>
      simp only [KLV.encodeL] at hr
      obtain ⟨lv1, h1, hs⟩ := readLevel_tree t k hw.1 (KLV.encodeL ks) fuel ctx pr lv lv' hr
      have := readLevel_forest t ks hw.2 fuel ctx pr lv1 lv' h1
      rw [this, hs]
      simp [KLV.skelL]
end

/-- **the whole stream**: whenever the reader accepts the encoding of a well-formed forest, the tree
    it returns has the same keys, types, sizes, repeats, nesting and order -/
theorem readAll_tree (t : Tables) (ks : List KLV) (hw : KLV.WFL ks) (es : List (Elem α))
    (h : readAll t (KLV.encodeL ks) = .ok es) : Elem.skelL es = KLV.skelL ks := by
  unfold readAll at h
  obtain ⟨lv, hl, rfl⟩ := map_eq_ok.mp h
  simpa [Elem.skelL] using readLevel_forest t ks hw _ _ _ _ lv hl

/-! ### Acceptance: trees of elements without a key parser -/

/-- the key is unknown to `keyParsers`, or listed there without a parser -/
def noParser (t : Tables) (h : Header) : Prop :=
  t.keyParsers.lookup (keyString h.key) = none ∨ t.keyParsers.lookup (keyString h.key) = some ""

mutual
/-- no element's key has a parser, every leaf's value formats (type known, dates valid) -/
def KLV.Plain (t : Tables) : KLV → Prop
  | .leaf h payload _ => noParser t h ∧ (formatBasic t h payload).isOk = true
  | .node h kids => noParser t h ∧ KLV.PlainL t kids
def KLV.PlainL (t : Tables) : List KLV → Prop
  | [] => True
  | k :: ks => k.Plain t ∧ KLV.PlainL t ks
end

theorem applyParsers_plain (t : Tables) (ctx : Ctx α) (pr : Bool) (lv : Level α) (h : Header) (raw : Bytes)
    (basic : Raw) (hs : lv.scale = none) (hk : noParser t h) :
    applyParsers t ctx pr lv h raw basic = .ok ⟨.raw basic, lv, false⟩ := by
  unfold applyParsers scaleStage
  simp only [hs, pure_eq, bind_ok]
  unfold parseStage
  rcases hk with hk | hk <;> simp only [hk] <;> simp

theorem KLV.encode_length_ge (k : KLV) (hw : k.WF) : 8 ≤ k.encode.length := by
  cases k with
  | leaf h payload pad => have := encodeHeader_length h hw.1; simp only [KLV.encode, List.length_append]; omega
  | node h kids => have := encodeHeader_length h hw.1; simp only [KLV.encode, List.length_append]; omega

mutual
theorem readLevel_plain_tree (t : Tables) : ∀ (k : KLV), k.WF → k.Plain t → ∀ (rest : Bytes) (fuel : Nat) (ctx : Ctx α)
    (pr : Bool) (lv : Level α), lv.scale = none → k.encode.length ≤ fuel →
    ∃ lv1 : Level α, lv1.scale = none ∧
      readLevel t (fuel + 1) ctx pr (k.encode ++ rest) lv = readLevel t fuel ctx pr rest lv1
  | .leaf h payload pad, hw, hp, rest, fuel, ctx, pr, lv, hs, _ => by
    obtain ⟨hh, hv, hn, hlen, hpad⟩ := hw
    obtain ⟨hk, hok⟩ := hp
    obtain ⟨r, hr⟩ : ∃ r, formatBasic t h payload = .ok r := by
      cases hr : formatBasic t h payload with
      | ok r => exact ⟨r, rfl⟩
      | _ => simp [hr, Outcome.isOk] at hok
    simp only [KLV.encode]
    rw [readLevel_leaf_step t fuel ctx pr lv h hh hv hn payload pad rest hlen hpad]
    have : formatElem t ctx pr lv h payload = .ok ⟨.raw r, lv, false⟩ := by
      unfold formatElem; rw [hr]; exact applyParsers_plain t ctx pr lv h payload r hs hk
    rw [this]
    refine ⟨_, ?_, rfl⟩
    exact hs
  | .node h kids, hw, hp, rest, fuel, ctx, pr, lv, hs, hf => by
    obtain ⟨hh, hv, hn, hlen, hk⟩ := hw
    obtain ⟨hkey, hpk⟩ := hp
    have hmod := KLV.encodeL_length_mod4 kids hk
    have htot : h.total = h.dataSize := by unfold Header.total; omega
    have hpad : h.padding = 0 := by unfold Header.padding; omega
    have h8 := encodeHeader_length h hh
    simp only [KLV.encode, List.length_append] at hf ⊢
    rw [readLevel_container_step t fuel ctx pr lv h hh hv hn (KLV.encodeL kids) rest (by omega) hpad]
    obtain ⟨clv, _, hc⟩ := readLevel_plain_forest t kids hk hpk fuel ⟨if pr then [] else lv.md :: ctx.ancestors⟩ false
      ⟨[], none, []⟩ rfl (by omega)
    rw [hc, applyParsers_plain t ctx pr lv h [] .nil hs hkey]
    refine ⟨_, ?_, rfl⟩
    exact hs
theorem readLevel_plain_forest (t : Tables) : ∀ (ks : List KLV), KLV.WFL ks → KLV.PlainL t ks → ∀ (fuel : Nat)
    (ctx : Ctx α) (pr : Bool) (lv : Level α), lv.scale = none → (KLV.encodeL ks).length < fuel →
    ∃ lv' : Level α, lv'.scale = none ∧ readLevel t fuel ctx pr (KLV.encodeL ks) lv = .ok lv'
  | [], _, _, fuel, ctx, pr, lv, hs, hf => by
    cases fuel with
    | zero => omega
    | succ fuel => exact ⟨lv, hs, by simp [KLV.encodeL, readLevel]⟩
  | k :: ks, hw, hp, fuel, ctx, pr, lv, hs, hf => by
    cases fuel with
    | zero => omega
    | succ fuel =>
      have h8 := KLV.encode_length_ge k hw.1
      simp only [KLV.encodeL, List.length_append] at hf ⊢
      obtain ⟨lv1, hs1, h1⟩ := readLevel_plain_tree t k hw.1 hp.1 (KLV.encodeL ks) fuel ctx pr lv hs (by omega)
      rw [h1]
      exact readLevel_plain_forest t ks hw.2 hp.2 fuel ctx pr lv1 hs1 (by omega)
end

/-- a well-formed forest of elements whose keys have no parser is accepted (and, by
    `readAll_tree`, returned with the same shape) -/
theorem readAll_plain (t : Tables) (ks : List KLV) (hw : KLV.WFL ks) (hp : KLV.PlainL t ks) :
    ∃ es : List (Elem α), readAll t (KLV.encodeL ks) = .ok es ∧ Elem.skelL es = KLV.skelL ks := by
  obtain ⟨lv, _, hl⟩ := readLevel_plain_forest (α := α) t ks hw hp ((KLV.encodeL ks).length + 1) ⟨[]⟩ true
    ⟨[], none, []⟩ rfl (by omega)
  have hr : readAll (α := α) t (KLV.encodeL ks) = .ok lv.children := by
    unfold readAll; rw [hl]; rfl
  exact ⟨lv.children, hr, readAll_tree t ks hw _ hr⟩

end TrackVerif.GPMF
