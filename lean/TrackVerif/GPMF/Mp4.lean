import TrackVerif.GPMF.Model
/-
  Executable model of `gpmf.Decoder` (decoder.go, offset.go, walker.go): the sample-table walk
  over stsc / stts / stsz / stco|co64, media-time conversion, per-sample GPMF read and the
  spreading of sensor reading offsets over the sample's interval.
-/
namespace TrackVerif.GPMF
open TrackVerif

structure Mp4Tables where
  timescale : Nat
  stsc : List (Nat × Nat)        -- (FirstChunk, SamplesPerChunk)
  sttsCount : List Nat
  sttsDelta : List Nat
  sizes : List Nat               -- stsz.SampleSize
  uniform : Nat                  -- stsz.SampleUniformSize
  sampleNumber : Nat             -- stsz.SampleNumber
  offsets : Option (List Nat)    -- stco / co64 (none: neither box present)
  hasTrack : Bool                -- a trak with hdlr "meta" whose name contains "GoPro MET"
  deriving Repr, DecidableEq

/-- `StszBox.GetNrSamples` -/
def Mp4Tables.nrSamples (t : Mp4Tables) : Nat := if t.sizes.isEmpty then t.sampleNumber else t.sizes.length

/-- `StszBox.GetSampleSize` (one-based) -/
def Mp4Tables.sampleSize (t : Mp4Tables) (i : Nat) : Outcome Nat :=
  if i > t.sizes.length then .ok t.uniform else idx? t.sizes (i - 1)

/-- `mediaTime`: ticks / timescale seconds in nanoseconds, truncated -/
def mediaTime (ticks ts : Nat) : Outcome Nat :=
  if ts = 0 then .panic .divZero else .ok (ticks / ts * 1000000000 + ticks % ts * 1000000000 / ts)

structure SampleRead where
  sample : Nat
  offset : Nat
  size : Nat
  startTicks : Nat
  endTicks : Nat
  deriving Repr, DecidableEq

structure WalkState where
  sample : Nat        -- next sample, one-based
  dec : Nat
  timeIdx : Nat
  timeUsed : Nat
  reads : List SampleRead
  deriving Repr, DecidableEq

/-- advance past exhausted stts entries -/
def skipStts (counts : List Nat) : Nat → Nat → Nat → Nat × Nat
  | 0, idx, used => (idx, used)
  | fuel + 1, idx, used =>
    match counts[idx]? with
    | some c => if used ≥ c then skipStts counts fuel (idx + 1) 0 else (idx, used)
    | none => (idx, used)

/-- the samples of one chunk -/
def walkChunk (t : Mp4Tables) (samples : Nat) : Nat → Nat → WalkState → Outcome WalkState
  | 0, _, st => .ok st
  | n + 1, offset, st =>
    if st.sample > samples then .ok st else
    let cur := skipStts t.sttsCount (t.sttsCount.length + 1) st.timeIdx st.timeUsed
    if cur.1 ≥ t.sttsCount.length ∨ cur.1 ≥ t.sttsDelta.length then .err .invalid else
    (idx? t.sttsDelta cur.1).bind fun dur =>
    (t.sampleSize st.sample).bind fun size =>
      walkChunk t samples n (offset + size)
        { sample := st.sample + 1, dec := st.dec + dur, timeIdx := cur.1, timeUsed := cur.2 + 1,
          reads := st.reads ++ [⟨st.sample, offset, size, st.dec, st.dec + dur⟩] }

/-- the chunks `chunkNr .. last` of one stsc entry -/
def walkChunks (t : Mp4Tables) (offsets : List Nat) (samples perChunk : Nat) :
    Nat → Nat → Nat → WalkState → Outcome WalkState
  | 0, _, _, st => .ok st
  | fuel + 1, chunkNr, last, st =>
    if chunkNr > last ∨ st.sample > samples then .ok st else
    (idx? offsets (chunkNr - 1)).bind fun off =>
    (walkChunk t samples perChunk off st).bind fun st' =>
      walkChunks t offsets samples perChunk fuel (chunkNr + 1) last st'

/-- last chunk described by an stsc entry: up to the chunk before the next entry, or the last chunk -/
def lastChunk (rest : List (Nat × Nat)) (chunks : Nat) : Nat :=
  match rest with
  | (next, _) :: _ => if next ≤ chunks then (max next 1) - 1 else chunks
  | [] => chunks

/-- the stsc entries -/
def walkEntries (t : Mp4Tables) (offsets : List Nat) (samples : Nat) :
    List (Nat × Nat) → WalkState → Outcome WalkState
  | [], st => .ok st
  | (first, perChunk) :: rest, st =>
    if first = 0 then .err .invalid else
    (walkChunks t offsets samples perChunk (offsets.length + 1) first (lastChunk rest offsets.length) st).bind
      (walkEntries t offsets samples rest)

/-- `decodeTrak`: every sample's file extent and decode-time interval, in order -/
def sampleReads (t : Mp4Tables) : Outcome (List SampleRead) :=
  if t.timescale = 0 then .err .invalid else
  match t.offsets with
  | none => .err .invalid
  | some offsets =>
    match walkEntries t offsets t.nrSamples t.stsc ⟨1, 0, 0, 0, []⟩ with
    | .ok st => if st.sample ≤ t.nrSamples then .err .invalid else .ok st.reads
    | .err e => .err e
    | .panic p => .panic p
    | .unmodelled => .unmodelled

/-! ### Offsets of sensor readings -/

/-- `offsets`: reading i of n gets start + i * ((end − start) / n) -/
def spread (start end_ : Int) (n : Nat) : List Int :=
  if n = 0 then [] else (List.range n).map fun (i : Nat) => start + (i : Int) * ((end_ - start) / (n : Int))

variable {α : Type}

/-- number of readings if the element's data implements `offseter` -/
def readingCount : Data α → Option Nat
  | .gps ss => some ss.length
  | .xyz _ ss => some ss.length
  | .rgb ss => some ss.length
  | _ => none

/-- `Walk` with the offset walker: sensor elements in document (pre-)order with their offsets -/
partial def sensorOffsets (start end_ : Int) : Elem α → List (List UInt8 × List Int)
  | .mk h _ data _ _ nested =>
    (match readingCount data with
      | some n => [(h.key, spread start end_ n)]
      | none => []) ++ nested.flatMap (sensorOffsets start end_)

/-- one sample: seek, read through a limit reader, parse, spread offsets -/
def decodeSample [FNum α] (tb : Tables) (ts : Nat) (file : Bytes) (r : SampleRead) :
    Outcome (List (List UInt8 × List Int)) :=
  match mediaTime r.startTicks ts, mediaTime r.endTicks ts with
  | .ok s, .ok e =>
    if r.offset ≥ 2 ^ 62 ∨ r.size ≥ 2 ^ 62 then .unmodelled else
    match (readAll tb ((file.drop r.offset).take r.size) : Outcome (List (Elem α))) with
    | .ok es => .ok (es.flatMap (sensorOffsets (s : Int) (e : Int)))
    | .err x => .err x
    | .panic p => .panic p
    | .unmodelled => .unmodelled
  | .panic p, _ => .panic p
  | _, .panic p => .panic p
  | _, _ => .err .invalid

/-- `Decoder.Decode` given the parsed sample tables and the file bytes -/
def decodeMp4 [FNum α] (tb : Tables) (t : Mp4Tables) (file : Bytes) : Outcome (List (List UInt8 × List Int)) :=
  if !t.hasTrack then .err .notFound else
  match sampleReads t with
  | .ok reads =>
    reads.foldlM (fun acc r => (decodeSample (α := α) tb t.timescale file r).map (acc ++ ·)) []
  | .err e => .err e
  | .panic p => .panic p
  | .unmodelled => .unmodelled

end TrackVerif.GPMF
