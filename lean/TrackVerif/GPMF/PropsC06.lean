import TrackVerif.GPMF.Lemmas
import TrackVerif.GPMF.Tree
import TrackVerif.GPMF.Spec
import TrackVerif.GPMF.NumRat
import TrackVerif.Generated.GPMF
import TrackVerif.GPMF.WalkLemmas
/-
  C06 — GPMF reader reproduces the encoded key-length-value tree exactly.
  Property theorems only.
-/
namespace TrackVerif.C06
open TrackVerif Outcome GPMF

/-- tie: formatter dispatch and value widths regenerated from element.go / types.go -/
theorem width_table : Gen.GPMF.tables.types = Spec.expectedTables.types ∧ Gen.GPMF.extractOk = true := by decide

/-- every numeric type is decoded with its GPMF width: b B 1, s S 2, l L f q 4, d j J Q 8, U 16 -/
theorem widths_match_spec :
    ∀ r ∈ Spec.expectedTables.types, r.formatter ≠ "formatStrings" → Spec.widthOf r.typ = some r.width := by
  decide

/-! ### Encoding side (the writer of well-formed streams: `GPMF/Tree.lean`) -/

variable {α : Type} [FNum α]

/-- a leaf element followed by its alignment padding: the reader takes exactly size×repeat bytes
    as the payload, skips the padding, formats, and continues with what follows -/
theorem read_leaf_step (t : Tables) (fuel : Nat) (ctx : Ctx α) (pr : Bool) (lv : Level α)
    (h : Header) (hw : HeaderWF h) (hv : h.valid = true) (hn : h.typ ≠ tNested)
    (raw pad rest : Bytes) (hraw : raw.length = h.dataSize) (hpad : pad.length = h.padding) :
    readLevel t (fuel + 1) ctx pr (encodeHeader h ++ raw ++ pad ++ rest) lv =
      match formatElem t ctx pr lv h raw with
      | .ok f => readLevel t fuel ctx pr rest
          { f.level with children := f.level.children ++ [Elem.mk h h.total f.data [] f.aliases []] }
      | .err e => .err e
      | .panic p => .panic p
      | .unmodelled => .unmodelled :=
  readLevel_leaf_step t fuel ctx pr lv h hw hv hn raw pad rest hraw hpad

/-- a nested container: its children are read from exactly the `total` bytes it declares; the
    bytes that follow are parsed at the parent's level — as siblings, never as children -/
theorem siblings_not_children (t : Tables) (fuel : Nat) (ctx : Ctx α) (pr : Bool) (lv : Level α)
    (h : Header) (hw : HeaderWF h) (hv : h.valid = true) (hn : h.typ = tNested)
    (inner rest : Bytes) (hinner : inner.length = h.total) (hpad : h.padding = 0) :
    readLevel t (fuel + 1) ctx pr (encodeHeader h ++ inner ++ rest) lv =
      match readLevel t fuel ⟨if pr then [] else lv.md :: ctx.ancestors⟩ false inner ⟨[], none, []⟩ with
      | .ok clv =>
        (match applyParsers t ctx pr lv h [] .nil with
          | .ok f => readLevel t fuel ctx pr rest
              { f.level with children := f.level.children ++ [Elem.mk h h.total f.data clv.md f.aliases clv.children] }
          | .err e => .err e
          | .panic p => .panic p
          | .unmodelled => .unmodelled)
      | .err e => .err e
      | .panic p => .panic p
      | .unmodelled => .unmodelled :=
  readLevel_container_step t fuel ctx pr lv h hw hv hn inner rest hinner hpad

/-- **the whole tree**: for every forest of well-formed elements (any nesting depth, any types,
    sizes, repeat counts, any padding bytes), whenever the reader accepts its encoding the tree it
    returns has the same keys, types, sizes, repeats, nesting and order -/
theorem reader_returns_the_written_tree (t : Tables) (ks : List KLV) (hw : KLV.WFL ks) (es : List (Elem α))
    (h : readAll t (KLV.encodeL ks) = .ok es) : Elem.skelL es = KLV.skelL ks :=
  readAll_tree t ks hw es h

/-- … and a well-formed forest of elements without key parsers, whose values format (known type,
    valid dates), IS accepted: the premise above is met by trees of every depth and width -/
theorem plain_tree_accepted (t : Tables) (ks : List KLV) (hw : KLV.WFL ks) (hp : KLV.PlainL t ks) :
    ∃ es : List (Elem α), readAll t (KLV.encodeL ks) = .ok es ∧ Elem.skelL es = KLV.skelL ks :=
  readAll_plain t ks hw hp

/-- non-vacuity: a two-level forest (a container with a 32-bit value and a padded string, then an
    element with repeat 0) is well formed and plain for the GPMF tables -/
def exForest : List KLV :=
  [ .node ⟨[68, 69, 86, 67], 0, 1, 24⟩                                -- DEVC, 24 bytes of children
      [ .leaf ⟨[65, 66, 67, 68], 76, 4, 1⟩ [0, 0, 1, 2] [],          -- ABCD  L 4×1
        .leaf ⟨[84, 88, 84, 49], 99, 1, 3⟩ [104, 105, 0] [9] ],       -- TXT1  c 1×3 + 1 padding byte
    .leaf ⟨[69, 77, 80, 84], 115, 2, 0⟩ [] [] ]                       -- EMPT  s 2×0

example : KLV.WFL exForest := by
  simp [exForest, KLV.WFL, KLV.WF, HeaderWF, Header.valid, Header.dataSize, Header.padding, Header.total,
    KLV.encodeL, KLV.encode, encodeHeader, tNested, tCompressed]
example : KLV.PlainL Spec.expectedTables exForest := by
  simp only [exForest, KLV.PlainL, KLV.Plain, noParser]
  decide

/-- a stream that ends before all bytes declared by a container have been supplied is an error
    (even when what was supplied parses cleanly) -/
theorem truncated_container_is_error (t : Tables) (fuel : Nat) (ctx : Ctx α) (pr : Bool) (lv : Level α)
    (h : Header) (hw : HeaderWF h) (hv : h.valid = true) (hn : h.typ = tNested)
    (short : Bytes) (hshort : short.length < h.total) :
    ¬ (readLevel t (fuel + 1) ctx pr (encodeHeader h ++ short) lv).isOk := by
  have hlen := encodeHeader_length h hw
  have hne : (encodeHeader h ++ short).isEmpty = false := by
    cases he : encodeHeader h with
    | nil => simp [he] at hlen
    | cons a as => simp
  have hdrop : (encodeHeader h ++ short).drop 8 = short := by
    rw [List.drop_append_of_le_length (by omega)]; simp [hlen]
  unfold readLevel
  simp only [hne, Bool.false_eq_true, if_false]
  have := parseHeader_encode h hw short
  rw [this]
  simp only [hv, Bool.not_true, Bool.false_eq_true, if_false, hn, if_true, hdrop]
  split <;> simp [Outcome.isOk, hshort]

/-- a leaf whose payload is cut short is an error -/
theorem truncated_leaf_is_error (t : Tables) (fuel : Nat) (ctx : Ctx α) (pr : Bool) (lv : Level α)
    (h : Header) (hw : HeaderWF h) (hv : h.valid = true) (hn : h.typ ≠ tNested)
    (short : Bytes) (hshort : short.length < h.dataSize) :
    readLevel t (fuel + 1) ctx pr (encodeHeader h ++ short) lv = .err .eof := by
  have hlen := encodeHeader_length h hw
  have hne : (encodeHeader h ++ short).isEmpty = false := by
    cases he : encodeHeader h with
    | nil => simp [he] at hlen
    | cons a as => simp
  have hdrop : (encodeHeader h ++ short).drop 8 = short := by
    rw [List.drop_append_of_le_length (by omega)]; simp [hlen]
  unfold readLevel
  simp only [hne, Bool.false_eq_true, if_false]
  rw [parseHeader_encode h hw short]
  simp only [hv, Bool.not_true, Bool.false_eq_true, if_false, hn, hdrop, hshort, if_true]

/-- a header cut short (1–7 bytes) is an error; an empty remainder ends the level cleanly -/
theorem partial_header_is_error (t : Tables) (fuel : Nat) (ctx : Ctx α) (pr : Bool) (lv : Level α)
    (s : Bytes) (h0 : s ≠ []) (h8 : s.length < 8) : readLevel t (fuel + 1) ctx pr s lv = .err .eof := by
  unfold readLevel
  have : s.isEmpty = false := by cases s <;> simp_all
  simp only [this, Bool.false_eq_true, if_false]
  have : parseHeader s = none := by
    unfold parseHeader
    match s, h8 with
    | [], _ => rfl
    | [_], _ => rfl
    | [_, _], _ => rfl
    | [_, _, _], _ => rfl
    | [_, _, _, _], _ => rfl
    | [_, _, _, _, _], _ => rfl
    | [_, _, _, _, _, _], _ => rfl
    | [_, _, _, _, _, _, _], _ => rfl
  rw [this]

/-! ### Values -/

def wideInts : List String :=
  ["formatInt16s", "formatUint16s", "formatInt32s", "formatUint32s", "formatInt64s", "formatUint64s",
   "formatInt16_16s", "formatInt32_32s"]

theorem wide_width_pos : ∀ r ∈ Spec.expectedTables.types, r.formatter ∈ wideInts → 0 < r.width := by decide

theorem wide_not_special : ∀ s ∈ wideInts,
    s ≠ "formatInt8s" ∧ s ≠ "formatUint8s" ∧ s ≠ "formatStrings" ∧ s ≠ "formatDates" ∧
    s ≠ "formatFloat32s" ∧ s ≠ "formatFloat64s" := by decide

/-- every numeric element exposes exactly size×repeat/width values, the i-th being the big-endian
    value of bytes [i·w, (i+1)·w) (two's complement for the signed types) -/
theorem value_count_and_bits (h : Header) (raw : Bytes) (row : TypeRow)
    (hrow : typeRow Spec.expectedTables h.typ = some row) (hnn : h.typ ≠ tNested) (hnc : h.typ ≠ tComplex)
    (hf : row.formatter ∈ wideInts) (hlen : raw.length = h.dataSize) :
    ∃ vs, formatBasic Spec.expectedTables h raw = .ok (.ints row.typ (h.dataSize / row.width = 1) vs) ∧
      vs.length = h.dataSize / row.width ∧
      vs = (chunks row.width (h.dataSize / row.width) raw).map fun c =>
        if row.formatter ∈ ["formatInt16s", "formatInt32s", "formatInt64s", "formatInt16_16s", "formatInt32_32s"]
        then toSigned row.width (beNat c) else (beNat c : Int) := by
  have hmem : row ∈ Spec.expectedTables.types := List.mem_of_find?_eq_some hrow
  have hw : 0 < row.width := wide_width_pos row hmem hf
  have hall : ∀ c ∈ chunks row.width (h.dataSize / row.width) raw, c.length = row.width :=
    chunks_length _ _ _ (by rw [hlen]; exact Nat.div_mul_le_self _ _)
  have hany : (chunks row.width (h.dataSize / row.width) raw).any (fun c => decide (c.length < row.width)) = false := by
    rw [List.any_eq_false]; intro c hc; simp [hall c hc]
  obtain ⟨e1, e2, e3, e4, e5, e6⟩ := wide_not_special row.formatter hf
  refine ⟨_, ?_, ?_, rfl⟩
  · unfold formatBasic
    have h1 : ¬ (h.typ = tNested ∨ h.typ = tComplex) := by simp [hnn, hnc]
    have hw0 : row.width ≠ 0 := by omega
    simp [h1, hrow, e1, e2, e3, e4, e5, e6, hw0, hany, List.map_map, Function.comp_def]
  · simp [chunks_count]

/-! ### The tree walker (walker.go) -/
section Walker
open GPMF.Walk

/-- a visiting function that never skips and never fails sees every element of the forest exactly
    once (the list of calls IS the document-order list, whose length is the number of elements) -/
theorem walk_visits_every_element_in_document_order {β : Type} (ts : List (Rose β)) :
    walkL (fun _ => Act.cont) ts = (preL ts, false) ∧ (preL ts).length = sizeL ts := by
  refine ⟨?_, preL_length ts⟩
  rw [walkL_never_stop _ (by intro b; simp) ts, prunedL_cont]

/-- pruning is exact: without failures the calls made are, in document order, precisely the
    elements none of whose proper ancestors was answered with ErrSkip — a skipped element itself
    is visited, its whole sub-tree is not, and nothing else is lost -/
theorem walk_prunes_exactly_the_skipped_subtrees {β : Type} (fn : β → Act) (h : ∀ b, fn b ≠ .stop)
    (ts : List (Rose β)) :
    walkL fn ts = (((preAL [] ts).filter (keep fn)).map (·.1), false) := by
  rw [walkL_never_stop fn h ts, prunedL_filter fn [] (by simp) ts]

/-- a failing visit ends the walk there: the calls made are a prefix of the calls of the walk in
    which that failure had been a skip, the failing element is the last one called, and a walk
    that was not aborted made all of them -/
theorem walk_abort_is_a_prefix {β : Type} (fn : β → Act) (ts : List (Rose β)) :
    (walkL fn ts).1 <+: ((preAL [] ts).filter (keep (unstop fn))).map (·.1) ∧
    ((walkL fn ts).2 = true → ∃ x, (walkL fn ts).1.getLast? = some x ∧ fn x = .stop) ∧
    ((walkL fn ts).2 = false → (walkL fn ts).1 = ((preAL [] ts).filter (keep (unstop fn))).map (·.1)) := by
  have hp := prunedL_filter (unstop fn) [] (by simp) ts
  refine ⟨?_, walkL_abort fn ts, ?_⟩
  · rw [← hp]; exact walkL_prefix fn ts
  · intro h; rw [← hp]; exact walkL_complete fn ts h

/-- non-vacuity: a three-level forest with one skipped and one failing element -/
example : walkL (fun n => if n = 2 then Act.skip else if n = 6 then Act.stop else Act.cont)
    [.node 1 [.node 2 [.node 3 []], .node 4 []], .node 5 [.node 6 [.node 7 []]], .node 8 []]
    = ([1, 2, 4, 5, 6], true) := by decide

end Walker

end TrackVerif.C06
