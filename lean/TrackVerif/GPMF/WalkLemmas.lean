/-  Lemmas about the walker model (mutual structural inductions over rose trees). -/
import TrackVerif.GPMF.Walk
namespace TrackVerif.GPMF.Walk

mutual
theorem walk_never_stop {β : Type} (fn : β → Act) (h : ∀ b, fn b ≠ .stop) :
    ∀ t : Rose β, walk fn t = (pruned fn t, false)
  | .node l kids => by
    have ih := walkL_never_stop fn h kids
    unfold walk pruned
    cases hf : fn l with
    | stop => exact absurd hf (h l)
    | skip => simp
    | cont => simp [ih]
theorem walkL_never_stop {β : Type} (fn : β → Act) (h : ∀ b, fn b ≠ .stop) :
    ∀ ts : List (Rose β), walkL fn ts = (prunedL fn ts, false)
  | [] => by simp [walkL, prunedL]
  | t :: ts => by
    have i1 := walk_never_stop fn h t
    have i2 := walkL_never_stop fn h ts
    simp [walkL, prunedL, i1, i2]
end

mutual
theorem pruned_cont {β : Type} : ∀ t : Rose β, pruned (fun _ => Act.cont) t = pre t
  | .node l kids => by simp [pruned, pre, prunedL_cont kids]
theorem prunedL_cont {β : Type} : ∀ ts : List (Rose β), prunedL (fun _ => Act.cont) ts = preL ts
  | [] => by simp [prunedL, preL]
  | t :: ts => by simp [prunedL, preL, pruned_cont t, prunedL_cont ts]
end

mutual
theorem pre_length {β : Type} : ∀ t : Rose β, (pre t).length = size t
  | .node l kids => by simp [pre, size, preL_length kids]; omega
theorem preL_length {β : Type} : ∀ ts : List (Rose β), (preL ts).length = sizeL ts
  | [] => by simp [preL, sizeL]
  | t :: ts => by simp [preL, sizeL, pre_length t, preL_length ts]
end

mutual
theorem filter_blocked {β : Type} (fn : β → Act) (anc : List β) (hb : anc.all (fun a => decide (fn a = .cont)) = false) :
    ∀ t : Rose β, (preA anc t).filter (keep fn) = []
  | .node l kids => by
    have : (l :: anc).all (fun a => decide (fn a = .cont)) = false := by simp [List.all_cons, hb]
    have hk := filterL_blocked fn (l :: anc) this kids
    simp [preA, keep, hb]
    simpa [keep] using hk
theorem filterL_blocked {β : Type} (fn : β → Act) (anc : List β) (hb : anc.all (fun a => decide (fn a = .cont)) = false) :
    ∀ ts : List (Rose β), (preAL anc ts).filter (keep fn) = []
  | [] => by simp [preAL]
  | t :: ts => by simp [preAL, filter_blocked fn anc hb t, filterL_blocked fn anc hb ts]
end

mutual
theorem pruned_filter {β : Type} (fn : β → Act) (anc : List β) (ha : anc.all (fun a => decide (fn a = .cont)) = true) :
    ∀ t : Rose β, pruned fn t = ((preA anc t).filter (keep fn)).map (·.1)
  | .node l kids => by
    by_cases hl : fn l = .cont
    · have : (l :: anc).all (fun a => decide (fn a = .cont)) = true := by simp [List.all_cons, hl]; simpa using ha
      simp [pruned, preA, hl, keep, ha, prunedL_filter fn (l :: anc) this kids]
    · have : (l :: anc).all (fun a => decide (fn a = .cont)) = false := by simp [List.all_cons, hl]
      have hb := filterL_blocked fn (l :: anc) this kids
      simp [pruned, preA, hl, keep, ha]
      simpa [keep] using hb
theorem prunedL_filter {β : Type} (fn : β → Act) (anc : List β) (ha : anc.all (fun a => decide (fn a = .cont)) = true) :
    ∀ ts : List (Rose β), prunedL fn ts = ((preAL anc ts).filter (keep fn)).map (·.1)
  | [] => by simp [prunedL, preAL]
  | t :: ts => by simp [prunedL, preAL, pruned_filter fn anc ha t, prunedL_filter fn anc ha ts]
end

end TrackVerif.GPMF.Walk
namespace TrackVerif.GPMF.Walk

mutual
theorem walk_complete {β : Type} (fn : β → Act) :
    ∀ t : Rose β, (walk fn t).2 = false → (walk fn t).1 = pruned (unstop fn) t
  | .node l kids => by
    have ih := walkL_complete fn kids
    unfold walk pruned unstop
    cases hf : fn l <;> simp
    intro h; exact ih h
theorem walkL_complete {β : Type} (fn : β → Act) :
    ∀ ts : List (Rose β), (walkL fn ts).2 = false → (walkL fn ts).1 = prunedL (unstop fn) ts
  | [] => by simp [walkL, prunedL]
  | t :: ts => by
    have i1 := walk_complete fn t
    have i2 := walkL_complete fn ts
    unfold walkL prunedL
    cases h : (walk fn t).2 <;> simp only [h, if_true, if_false, Bool.false_eq_true]
    · intro h2; rw [i1 h, i2 h2]
    · simp
end

mutual
theorem walk_prefix {β : Type} (fn : β → Act) :
    ∀ t : Rose β, (walk fn t).1 <+: pruned (unstop fn) t
  | .node l kids => by
    have ih := walkL_prefix fn kids
    unfold walk pruned unstop
    cases hf : fn l <;> simp
    exact ih
theorem walkL_prefix {β : Type} (fn : β → Act) :
    ∀ ts : List (Rose β), (walkL fn ts).1 <+: prunedL (unstop fn) ts
  | [] => by simp [walkL, prunedL]
  | t :: ts => by
    have i1 := walk_prefix fn t
    have i2 := walkL_prefix fn ts
    have i3 := walk_complete fn t
    unfold walkL prunedL
    cases h : (walk fn t).2 <;> simp only [h, if_true, if_false, Bool.false_eq_true]
    · rw [i3 h]; exact (List.prefix_append_right_inj _).mpr i2
    · exact List.IsPrefix.trans i1 (List.prefix_append _ _)
end

mutual
theorem walk_abort {β : Type} (fn : β → Act) :
    ∀ t : Rose β, (walk fn t).2 = true → ∃ x, (walk fn t).1.getLast? = some x ∧ fn x = .stop
  | .node l kids => by
    have ih := walkL_abort fn kids
    unfold walk
    cases hf : fn l <;> simp
    · intro h
      obtain ⟨x, hx, hs⟩ := ih h
      refine ⟨x, ?_, hs⟩
      cases hk : (walkL fn kids).1 with
      | nil => simp [hk] at hx
      | cons a as => simp [hk] at hx ⊢; simpa [List.getLast?_cons_cons] using hx
    · exact hf
theorem walkL_abort {β : Type} (fn : β → Act) :
    ∀ ts : List (Rose β), (walkL fn ts).2 = true → ∃ x, (walkL fn ts).1.getLast? = some x ∧ fn x = .stop
  | [] => by simp [walkL]
  | t :: ts => by
    have i1 := walk_abort fn t
    have i2 := walkL_abort fn ts
    unfold walkL
    cases h : (walk fn t).2 <;> simp only [h, if_true, if_false, Bool.false_eq_true]
    · intro h2
      obtain ⟨x, hx, hs⟩ := i2 h2
      refine ⟨x, ?_, hs⟩
      cases hk : (walkL fn ts).1 with
      | nil => simp [hk] at hx
      | cons a as => rw [hk] at hx; simp [List.getLast?_append, hx]
    · intro _; exact i1 h
end
end TrackVerif.GPMF.Walk
