import TrackVerif.Common.Proto
import TrackVerif.GPMF.Mp4
import TrackVerif.GPMF.Driver
/-
  Line-protocol side of the MP4 decoder (C08, C09 decoder half).

    M4 dec wf|mut ts=<n> track=0|1 stsc=f:s,… stts=c:d,… sz=<list|~> uni=<n> sn=<n> co=<list|none> [gap=P:G] file=<hex>
        => ok <keyhex>:<off,off,…> … | err | panic | hang | synth-mismatch
-/
namespace TrackVerif.GPMF.Mp4Driver
open TrackVerif Proto GPMF

def field (toks : List String) (k : String) : Option String :=
  (toks.find? (·.startsWith (k ++ "="))).map fun t => (t.drop (k.length + 1)).toString

def natList (s : String) : Option (List Nat) :=
  if s == "~" then some [] else (s.splitOn ",").mapM nat?

def pairList (s : String) : Option (List (Nat × Nat)) :=
  if s == "~" then some [] else
  (s.splitOn ",").mapM fun e =>
    match e.splitOn ":" with
    | [a, b] => match nat? a, nat? b with
      | some x, some y => some (x, y)
      | _, _ => none
    | _ => none

def parse (toks : List String) : Option (Mp4Tables × Bytes) := do
  let ts ← (field toks "ts").bind nat?
  let track ← field toks "track"
  let stsc ← (field toks "stsc").bind pairList
  let stts ← (field toks "stts").bind pairList
  let sz ← (field toks "sz").bind natList
  let uni ← (field toks "uni").bind nat?
  let sn ← (field toks "sn").bind nat?
  let co ← field toks "co"
  let offsets ← if co == "none" then some none else (natList co).map some
  -- `gap=P:G`: the decoder read the file with a hole of G zero bytes (video nobody points into) at
  -- position P; `file` holds the bytes around it, so positions behind the hole move down by G
  let offsets ← match field toks "gap" with
    | none => some offsets
    | some g => match g.splitOn ":" with
      | [p, n] => match nat? p, nat? n with
        | some p, some n => some (offsets.map fun os => os.map fun o => if o ≥ p + n then o - n else o)
        | _, _ => none
      | _ => none
  let file ← (field toks "file").bind bytesOfHex
  pure (⟨ts, stsc, stts.map (·.1), stts.map (·.2), sz, uni, sn, offsets, track == "1"⟩, file)

/-- the decoder's result: sensor elements in order with their reading offsets -/
def decode (tb : Tables) (t : Mp4Tables) (file : Bytes) : Outcome (List (Bytes × List Int)) :=
  decodeMp4 (α := Float) tb t file

def render (o : Outcome (List (Bytes × List Int))) : String :=
  match o with
  | .ok xs => "ok" ++ String.join (xs.map fun (k, offs) =>
      " " ++ hexOfBytesTok k ++ ":" ++ (if offs.isEmpty then "~" else String.intercalate "," (offs.map toString)))
  | .err _ => "err"
  | .panic _ => "panic"
  | .unmodelled => "unmodelled"

def handleDec (mode : String) (toks : List String) (impl : List String) : String :=
  match parse toks with
  | none => "BAD"
  | some (t, file) =>
    let implS := String.intercalate " " impl
    if impl.head? = some "panic" then "VIOL clause=m4.no_panic"
    else if impl.head? = some "hang" then "VIOL clause=m4.no_hang"
    else if impl.head? = some "hang-skipped" then "SKIP reason=hang-skipped"
    else if impl.head? = some "synth-mismatch" then "BAD"
    else
      let rS := render (decode Spec.expectedTables t file)
      let rG := render (decode Gen.GPMF.tables t file)
      if rS = "unmodelled" then "SKIP reason=grammar" else
      let nt := if t.nrSamples ≥ 2 then "1" else "0"
      let cls := (rS.splitOn " ").headD ""
      if implS == rS then (if rG == rS then s!"OK cls={cls} nt={nt}" else "CORR clause=m4.gen_tables")
      else if mode == "wf" then s!"VIOL clause=m4.decode spec={rS.take 2000}"
      else s!"CORR clause=m4.decode_mut model={rS.take 400}"

def handle (args : List String) (impl : List String) : String :=
  match args with
  | "dec" :: mode :: toks => handleDec mode toks impl
  | _ => "BAD"

end TrackVerif.GPMF.Mp4Driver
