import TrackVerif.GPMF.Lemmas
import TrackVerif.GPMF.Spec
import TrackVerif.GPMF.NumRat
import TrackVerif.Generated.GPMF
/-
  C07 — Scale factors and sensor layouts yield the right physical samples.
  Property theorems only.
-/
namespace TrackVerif.C07
open TrackVerif Outcome GPMF

/-- tie: key → parser table, sensor layouts and face tables regenerated from keys.go, the sensor
    files and face.go -/
theorem tables_tie : Gen.GPMF.tables.keyParsers = Spec.expectedTables.keyParsers ∧
    Gen.GPMF.tables.layouts = Spec.expectedTables.layouts ∧
    Gen.GPMF.tables.faceDefs = Spec.expectedTables.faceDefs ∧
    Gen.GPMF.tables.faceFields = Spec.expectedTables.faceFields ∧ Gen.GPMF.extractOk = true := by decide

/-- sample layouts: GPS5 = lat, lon, alt, 2-D speed, 3-D speed (5 values); ACCL / GYRO / MAGN are
    stored Z, X, Y so struct field X takes value 1, Y value 2, Z value 0 (3 values); WRGB = R, G, B -/
theorem layouts :
    Spec.expectedTables.layouts.lookup "parseGPS" = some (5, [0, 1, 2, 3, 4]) ∧
    Spec.expectedTables.layouts.lookup "parseAccel" = some (3, [1, 2, 0]) ∧
    Spec.expectedTables.layouts.lookup "parseGyro" = some (3, [1, 2, 0]) ∧
    Spec.expectedTables.layouts.lookup "parseMagnetometer" = some (3, [1, 2, 0]) ∧
    Spec.expectedTables.layouts.lookup "parseWhiteBalanceRGB" = some (3, [0, 1, 2]) := by decide

/-- face records are decoded at the offsets implied by the stream's type definition: Hero 6
    (Lffff), Hero 8 (Lffffff: confidence before smile), Hero 10 (BBSSSSSBB) field by field; Hero 7
    reads id,x,y,w,h and the LAST float (smile) of its 23-field definition; every field lies inside
    the record -/
theorem face_offsets :
    (Spec.expectedTables.faceFields.lookup 6).map (·.map fun f => (f.1, f.2.1)) = some (Spec.defOffsets "Lffff") ∧
    (Spec.expectedTables.faceFields.lookup 10).map (·.map fun f => (f.1, f.2.1)) = some (Spec.defOffsets "BBSSSSSBB") ∧
    (Spec.expectedTables.faceFields.lookup 8).map (·.map fun f => (f.1, f.2.1)) =
      some ((Spec.defOffsets "Lffffff").take 5 ++ [(24, 4), (20, 4)]) ∧
    (Spec.expectedTables.faceFields.lookup 7).map (·.map fun f => (f.1, f.2.1)) =
      some ((Spec.defOffsets "Lffffffffffffffffffffff").take 5 ++ (Spec.defOffsets "Lffffffffffffffffffffff").drop 22) ∧
    tablesOK Spec.expectedTables = true := by decide

variable {α : Type} [FNum α]

/-- value i of a scaled element is raw[i] / scale[i mod n] -/
theorem scale_cyclic (vals sc : List α) (h : sc ≠ []) :
    ∃ out, applyScale vals sc = .ok out ∧ out.length = vals.length ∧
      ∀ i (hi : i < vals.length) (ho : i < out.length),
        out[i] = FNum.div vals[i] (sc.getD (i % sc.length) vals[i]) := by
  unfold applyScale
  have : sc.isEmpty = false := by cases sc <;> simp_all
  simp only [this, Bool.false_eq_true, if_false]
  refine ⟨_, rfl, by simp, fun i hi ho => ?_⟩
  simp

/-- a scale element applies to the NEXT element of the same stream and to nothing else: the
    pending scale is consumed (cleared) by the very next element formatted at that level -/
theorem scale_next_only (lv lv' : Level α) (d0 d1 : Data α) (sc : List α) (hs : lv.scale = some sc)
    (h : scaleStage lv d0 = .ok (d1, lv')) :
    lv'.scale = none ∧ ∃ vs out, floatSlice d0 = .ok vs ∧ applyScale vs sc = .ok out ∧ d1 = .floats out := by
  unfold scaleStage at h
  rw [hs] at h
  simp only [bind_eq] at h
  obtain ⟨vs, hvs, h⟩ := bind_eq_ok.mp h
  obtain ⟨out, hout, h⟩ := bind_eq_ok.mp h
  simp at h
  obtain ⟨rfl, rfl⟩ := h
  exact ⟨rfl, vs, out, hvs, hout, rfl⟩

/-- without a pending scale an element's data is left unscaled -/
theorem unscaled_when_no_scale (lv : Level α) (d0 : Data α) (hs : lv.scale = none) :
    scaleStage lv d0 = .ok (d0, lv) := by
  unfold scaleStage; rw [hs]; rfl

/-- a SCAL element stores its values as the pending scale of its parent level; an empty one is rejected -/
theorem scal_sets_pending (t : Tables) (ctx : Ctx α) (pr : Bool) (h : Header) (raw : Bytes) (d1 : Data α)
    (lv : Level α) (f : Formatted α)
    (hk : t.keyParsers.lookup (keyString h.key) = some "parseScale")
    (hf : parseStage t ctx pr h raw d1 lv = .ok f) :
    ∃ vs, floatSlice d1 = .ok vs ∧ vs ≠ [] ∧ f.level.scale = some vs ∧ f.data = .scale vs := by
  unfold parseStage at hf
  simp only [hk] at hf
  have e1 : ¬ ("parseScale" = "") := by decide
  have e2 : ¬ ("parseScale" = "parseMetadata") := by decide
  have e3 : ¬ ("parseScale" = "parseHasMetadata") := by decide
  simp only [e1, e2, e3, if_false, if_true, bind_eq] at hf
  obtain ⟨vs, hvs, hf⟩ := bind_eq_ok.mp hf
  split at hf
  · cases hf
  · rename_i hne
    cases hf
    exact ⟨vs, hvs, by intro he; simp [he] at hne, rfl, rfl⟩

/-- regrouping: the sample count is the value count / sample width, field k of sample j is
    value j·w + pos k; a value count that is not a multiple of the width is an error -/
theorem regroup_ok (vals : List α) (w : Nat) (order : List Nat) (hw : 0 < w) (hm : vals.length % w = 0) :
    ∃ samples, regroup vals w order = .ok samples ∧ samples.length = vals.length / w := by
  unfold regroup
  have : w ≠ 0 := by omega
  simp [this, hm]

theorem bad_count (vals : List α) (w : Nat) (order : List Nat) (hw : 0 < w) (hm : vals.length % w ≠ 0) :
    regroup vals w order = .err .format := by
  unfold regroup
  have : w ≠ 0 := by omega
  simp [this, hm]

/-- sample j is built from the w values starting at j·w: struct field k takes the value at
    position `order[k]` of that window -/
theorem regroup_sample (vals : List α) (w : Nat) (order : List Nat) (hw : 0 < w) (hm : vals.length % w = 0)
    (j : Nat) (hj : j < vals.length / w) :
    ∃ samples, regroup vals w order = .ok samples ∧
      samples[j]? = some (order.filterMap fun q => ((vals.drop (j * w)).take w)[q]?) := by
  unfold regroup
  have hw0 : w ≠ 0 := by omega
  simp only [hw0, if_false, hm, ne_eq, not_true_eq_false]
  exact ⟨_, rfl, by simp [hj]⟩

/-- …and position q of that window is value j·w + q of the element -/
theorem window_value (vals : List α) (w j q : Nat) (hq : q < w) :
    ((vals.drop (j * w)).take w)[q]? = vals[j * w + q]? := by
  rw [List.getElem?_take_of_lt hq, List.getElem?_drop]

end TrackVerif.C07
