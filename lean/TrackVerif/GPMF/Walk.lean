/-
  walker.go — `Walk(elems, fn)`: pre-order traversal that calls `fn` on every element, does not
  descend below an element for which `fn` returns `ErrSkip`, and stops at the first other error.
  The traversal only looks at `Nested`, so it is modelled over rose trees of labels.  Core only.
-/
namespace TrackVerif.GPMF.Walk

inductive Rose (β : Type)
  | node (label : β) (kids : List (Rose β))
  deriving Repr

instance {β : Type} [Inhabited β] : Inhabited (Rose β) := ⟨.node default []⟩

/-- what the visiting function answers: nil, ErrSkip, any other error -/
inductive Act | cont | skip | stop
  deriving DecidableEq, Repr

mutual
/-- (calls made to `fn`, in order; whether the walk was aborted by an error) -/
def walk {β : Type} (fn : β → Act) : Rose β → List β × Bool
  | .node l kids =>
    match fn l with
    | .stop => ([l], true)
    | .skip => ([l], false)
    | .cont => let r := walkL fn kids; (l :: r.1, r.2)
def walkL {β : Type} (fn : β → Act) : List (Rose β) → List β × Bool
  | [] => ([], false)
  | t :: ts =>
    let r := walk fn t
    if r.2 then (r.1, true)
    else let r2 := walkL fn ts; (r.1 ++ r2.1, r2.2)
end

mutual
/-- document order: every element once, parents before children, siblings left to right -/
def pre {β : Type} : Rose β → List β
  | .node l kids => l :: preL kids
def preL {β : Type} : List (Rose β) → List β
  | [] => []
  | t :: ts => pre t ++ preL ts
end

mutual
/-- document order with the sub-trees below skipped elements removed -/
def pruned {β : Type} (fn : β → Act) : Rose β → List β
  | .node l kids => if fn l = .cont then l :: prunedL fn kids else [l]
def prunedL {β : Type} (fn : β → Act) : List (Rose β) → List β
  | [] => []
  | t :: ts => pruned fn t ++ prunedL fn ts
end

mutual
def size {β : Type} : Rose β → Nat
  | .node _ kids => 1 + sizeL kids
def sizeL {β : Type} : List (Rose β) → Nat
  | [] => 0
  | t :: ts => size t + sizeL ts
end

-- label paired with its proper ancestors (nearest first), in document order
mutual
def preA {β : Type} (anc : List β) : Rose β → List (β × List β)
  | .node l kids => (l, anc) :: preAL (l :: anc) kids
def preAL {β : Type} (anc : List β) : List (Rose β) → List (β × List β)
  | [] => []
  | t :: ts => preA anc t ++ preAL anc ts
end

/-- an element is to be visited iff `fn` answered "continue" for every proper ancestor -/
def keep {β : Type} (fn : β → Act) (p : β × List β) : Bool := p.2.all (fun a => decide (fn a = .cont))

/-- treat an aborting answer as a skip: the walk that would have happened up to the abort -/
def unstop {β : Type} (fn : β → Act) (b : β) : Act := if fn b = .stop then .skip else fn b

end TrackVerif.GPMF.Walk
