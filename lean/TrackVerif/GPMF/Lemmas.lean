import TrackVerif.GPMF.Model
/-  Helper lemmas for the GPMF reader model (C06, C07, C09, C16).  Core only. -/
namespace TrackVerif.GPMF
open TrackVerif Outcome

/-- split conditionals / matches until every leaf is a literal outcome -/
macro "np_split" : tactic => `(tactic| repeat' first | (simp; done) | split | (simp only []) | (dsimp only) )

/-- table well-formedness the crash-freedom argument needs: positive sample widths and face
    fields that lie inside their record -/
def tablesOK (t : Tables) : Bool :=
  t.layouts.all (fun (_, w, _) => 0 < w) &&
  t.faceDefs.all (fun (_, size, layout) =>
    match t.faceFields.lookup layout with
    | some fields => fields.all fun (off, w, _) => off + w ≤ size
    | none => true)

/-! ### chunks -/

theorem chunks_length (w count : Nat) (raw : Bytes) (h : count * w ≤ raw.length) :
    ∀ c ∈ chunks w count raw, c.length = w := by
  intro c hc
  simp only [chunks, List.mem_map, List.mem_range] at hc
  obtain ⟨i, hi, rfl⟩ := hc
  simp only [List.length_take, List.length_drop]
  have : i * w + w ≤ count * w := by
    have := Nat.mul_le_mul_right w (show i + 1 ≤ count by omega)
    rw [Nat.add_mul] at this; omega
  omega

theorem chunks_count (w count : Nat) (raw : Bytes) : (chunks w count raw).length = count := by
  simp [chunks]

/-! ### formatBasic never panics on a payload of the declared length -/

theorem formatBasic_noPanic (t : Tables) (h : Header) (raw : Bytes) (hlen : raw.length = h.dataSize) :
    NoPanic (formatBasic t h raw) := by
  unfold formatBasic
  split
  · simp
  · split
    · simp
    · rename_i row _
      simp only
      split
      · simp
      · split
        · split <;> simp
        · split
          · np_split
          · split
            · simp
            · have hall : ∀ c ∈ chunks row.width (h.dataSize / row.width) raw, c.length = row.width := by
                apply chunks_length
                rw [hlen]
                exact Nat.div_mul_le_self _ _
              have hany : (chunks row.width (h.dataSize / row.width) raw).any (fun c => decide (c.length < row.width)) = false := by
                rw [List.any_eq_false]
                intro c hc
                simp [hall c hc]
              simp only [hany, Bool.false_eq_true, if_false]
              np_split

variable {α : Type} [FNum α]

theorem floatSlice_noPanic (d : Data α) : NoPanic (floatSlice d) := by
  unfold floatSlice; np_split

theorem applyScale_noPanic (vals sc : List α) (h : sc ≠ []) : NoPanic (applyScale vals sc) := by
  unfold applyScale
  have : sc.isEmpty = false := by cases sc <;> simp_all
  simp [this]

theorem regroup_noPanic (vals : List α) (w : Nat) (order : List Nat) (h : 0 < w) :
    NoPanic (regroup vals w order) := by
  unfold regroup
  have : w ≠ 0 := by omega
  simp only [this, if_false]
  split <;> simp

theorem faceOf_noPanic (t : Tables) (layout : Nat) (rec : Bytes) (size : Nat)
    (hf : ∀ fields, t.faceFields.lookup layout = some fields → ∀ f ∈ fields, f.1 + f.2.1 ≤ size)
    (hr : size ≤ rec.length) : NoPanic (faceOf t layout rec) := by
  unfold faceOf
  split
  · simp
  · rename_i fields hl
    have hany : fields.any (fun (off, w, _) => decide (rec.length < off + w)) = false := by
      rw [List.any_eq_false]
      intro f hfm
      obtain ⟨off, w, b⟩ := f
      have := hf fields hl (off, w, b) hfm
      simp at this ⊢
      omega
    simp [hany]

theorem mapM_noPanic {β γ : Type} (f : β → Outcome γ) (l : List β) (h : ∀ b ∈ l, NoPanic (f b)) :
    NoPanic (l.mapM f) := by
  induction l with
  | nil => simp [List.mapM_nil]
  | cons b bs ih =>
    rw [List.mapM_cons]
    simp only [bind_eq]
    refine noPanic_bind (h b (by simp)) (fun _ _ => ?_)
    refine noPanic_bind (ih (fun c hc => h c (by simp [hc]))) (fun _ _ => by simp)

/-- the pending scale of a level is never an empty vector -/
def LevelOK (lv : Level α) : Prop := ∀ sc, lv.scale = some sc → sc ≠ []

omit [FNum α] in
theorem levelOK_init : LevelOK (⟨[], none, []⟩ : Level α) := by
  intro sc h; cases h

omit [FNum α] in
theorem initMetadata_scale (ctx : Ctx α) (lv : Level α) (p : Bool) :
    (initMetadata ctx lv p).scale = lv.scale := by
  unfold initMetadata; split <;> rfl

omit [FNum α] in
theorem initMetadata_children (ctx : Ctx α) (lv : Level α) (p : Bool) :
    (initMetadata ctx lv p).children = lv.children := by
  unfold initMetadata; split <;> rfl

end TrackVerif.GPMF

namespace TrackVerif.GPMF
open TrackVerif Outcome
variable {α : Type} [FNum α]

/-! ### Stages never panic and keep the level invariant -/

theorem scaleStage_noPanic (lv : Level α) (d0 : Data α) (hl : LevelOK lv) : NoPanic (scaleStage lv d0) := by
  unfold scaleStage
  split
  · rename_i sc hsc
    simp only [bind_eq]
    refine noPanic_bind (floatSlice_noPanic _) (fun vs _ => ?_)
    refine noPanic_bind (applyScale_noPanic vs sc (hl sc hsc)) (fun _ _ => by simp)
  · simp

theorem scaleStage_level (lv lv' : Level α) (d0 d1 : Data α) (hl : LevelOK lv)
    (h : scaleStage lv d0 = .ok (d1, lv')) : LevelOK lv' ∧ lv'.md = lv.md ∧ lv'.children = lv.children := by
  unfold scaleStage at h
  split at h
  · simp only [bind_eq] at h
    obtain ⟨vs, _, h⟩ := bind_eq_ok.mp h
    obtain ⟨sc', _, h⟩ := bind_eq_ok.mp h
    simp at h
    obtain ⟨_, rfl⟩ := h
    exact ⟨fun sc hs => by simp at hs, rfl, rfl⟩
  · simp at h
    obtain ⟨_, rfl⟩ := h
    exact ⟨hl, rfl, rfl⟩

theorem lookup_mem {β : Type} (l : List (String × β)) (k : String) (v : β) (h : l.lookup k = some v) :
    (k, v) ∈ l := by
  induction l with
  | nil => simp at h
  | cons q qs ih =>
    obtain ⟨k', v'⟩ := q
    by_cases hk : k = k'
    · subst hk; simp [List.lookup] at h; simp [h]
    · have : (k == k') = false := by simpa using hk
      simp [List.lookup, this] at h
      exact List.mem_cons_of_mem _ (ih h)

theorem faceOK_of_tablesOK (t : Tables) (hok : tablesOK t = true) (key : String) (size layout : Nat)
    (hd : t.faceDefs.lookup key = some (size, layout)) :
    ∀ fields, t.faceFields.lookup layout = some fields → ∀ f ∈ fields, f.1 + f.2.1 ≤ size := by
  intro fields hf f hfm
  simp only [tablesOK, Bool.and_eq_true, List.all_eq_true] at hok
  have hmem : (key, size, layout) ∈ t.faceDefs := lookup_mem _ _ _ hd
  have := hok.2 _ hmem
  simp only [hf] at this
  have := (List.all_eq_true.mp this) f hfm
  obtain ⟨off, w, b⟩ := f
  simpa using this

omit [FNum α] in
theorem parseFaceStage_noPanic (t : Tables) (hok : tablesOK t = true) (ctx : Ctx α) (p : Bool) (lv : Level α)
    (h : Header) (raw : Bytes) (d1 : Data α) :
    NoPanic (parseFaceStage t ctx p lv h raw d1) := by
  unfold parseFaceStage
  simp only
  split
  · simp
  · split
    · simp
    · split
      · simp
      · rename_i size layout hd
        split
        · simp
        · split
          · simp
          · rename_i hsize hlen
            simp only [bind_eq]
            refine noPanic_bind (mapM_noPanic _ _ (fun i hi => ?_)) (fun _ _ => by simp)
            apply faceOf_noPanic t layout _ size (faceOK_of_tablesOK t hok _ size layout hd)
            simp only [List.mem_range] at hi
            simp only [List.length_drop]
            have := Nat.mul_le_mul_right size (show i + 1 ≤ h.count by omega)
            rw [Nat.add_mul] at this
            omega
    · simp

theorem sensorStage_noPanic (t : Tables) (hok : tablesOK t = true) (ctx : Ctx α) (pr : Bool) (lv : Level α)
    (p : String) (d1 : Data α) : NoPanic (sensorStage t ctx pr lv p d1) := by
  unfold sensorStage
  split
  · simp
  · rename_i w order hl
    have hw : 0 < w := by
      simp only [tablesOK, Bool.and_eq_true, List.all_eq_true] at hok
      have hmem : (p, w, order) ∈ t.layouts := lookup_mem _ _ _ hl
      simpa using hok.1 _ hmem
    simp only [bind_eq]
    refine noPanic_bind (floatSlice_noPanic _) (fun vs _ => ?_)
    refine noPanic_bind (regroup_noPanic vs w order hw) (fun _ _ => by simp)

theorem parseStage_noPanic (t : Tables) (hok : tablesOK t = true) (ctx : Ctx α) (pr : Bool) (h : Header)
    (raw : Bytes) (d1 : Data α) (lv : Level α) :
    NoPanic (parseStage t ctx pr h raw d1 lv) := by
  unfold parseStage
  simp only
  split
  · simp
  · split
    · simp
    · split
      · simp
      · split
        · simp
        · split
          · simp only [bind_eq]
            refine noPanic_bind (floatSlice_noPanic _) (fun vs _ => ?_)
            split <;> simp
          · split
            · split <;> simp
            · split
              · split <;> simp
              · split
                · exact parseFaceStage_noPanic t hok ctx pr lv h raw d1
                · exact sensorStage_noPanic t hok ctx pr lv _ d1

/-- every stage returns a level whose pending scale (if any) is non-empty -/
theorem parseStage_level (t : Tables) (ctx : Ctx α) (pr : Bool) (h : Header) (raw : Bytes) (d1 : Data α)
    (lv : Level α) (f : Formatted α) (hl : LevelOK lv) (hf : parseStage t ctx pr h raw d1 lv = .ok f) :
    LevelOK f.level := by
  unfold parseStage at hf
  simp only at hf
  split at hf
  · cases hf; exact hl
  · split at hf
    · cases hf; exact hl
    · split at hf
      · cases hf; exact fun sc hs => hl sc hs
      · split at hf
        · cases hf; intro sc hs; rw [initMetadata_scale] at hs; exact hl sc hs
        · split at hf
          · simp only [bind_eq] at hf
            obtain ⟨vs, _, hf⟩ := bind_eq_ok.mp hf
            split at hf
            · cases hf
            · rename_i hne
              cases hf
              intro sc hs
              simp at hs; subst hs
              intro he; simp [he] at hne
          · split at hf
            · split at hf
              · cases hf; exact fun sc hs => hl sc hs
              · cases hf
            · split at hf
              · split at hf
                · cases hf; exact fun sc hs => hl sc hs
                · cases hf
              · split at hf
                · unfold parseFaceStage at hf
                  simp only at hf
                  split at hf
                  · cases hf; intro sc hs; rw [initMetadata_scale] at hs; exact hl sc hs
                  · split at hf
                    · cases hf
                    · split at hf
                      · cases hf
                      · split at hf
                        · cases hf
                        · split at hf
                          · cases hf
                          · simp only [bind_eq] at hf
                            obtain ⟨recs, _, hf⟩ := bind_eq_ok.mp hf
                            cases hf; intro sc hs; rw [initMetadata_scale] at hs; exact hl sc hs
                    · cases hf
                · unfold sensorStage at hf
                  split at hf
                  · cases hf
                  · simp only [bind_eq] at hf
                    obtain ⟨vs, _, hf⟩ := bind_eq_ok.mp hf
                    obtain ⟨ss, _, hf⟩ := bind_eq_ok.mp hf
                    cases hf
                    intro sc hs
                    simp only at hs
                    split at hs
                    · rw [initMetadata_scale] at hs; exact hl sc hs
                    · exact hl sc hs

theorem applyParsers_noPanic (t : Tables) (hok : tablesOK t = true) (ctx : Ctx α) (pr : Bool) (lv : Level α)
    (h : Header) (raw : Bytes) (basic : Raw) (hl : LevelOK lv) :
    NoPanic (applyParsers t ctx pr lv h raw basic) := by
  unfold applyParsers
  refine noPanic_bind (scaleStage_noPanic lv _ hl) (fun p _ => ?_)
  exact parseStage_noPanic t hok ctx pr h raw p.1 p.2

theorem applyParsers_level (t : Tables) (ctx : Ctx α) (pr : Bool) (lv : Level α) (h : Header) (raw : Bytes)
    (basic : Raw) (f : Formatted α) (hl : LevelOK lv) (hf : applyParsers t ctx pr lv h raw basic = .ok f) :
    LevelOK f.level := by
  unfold applyParsers at hf
  obtain ⟨⟨d1, lv1⟩, h1, h2⟩ := bind_eq_ok.mp hf
  exact parseStage_level t ctx pr h raw d1 lv1 f (scaleStage_level lv lv1 _ d1 hl h1).1 h2

end TrackVerif.GPMF

namespace TrackVerif.GPMF
open TrackVerif Outcome
variable {α : Type} [FNum α]

theorem formatElem_noPanic (t : Tables) (hok : tablesOK t = true) (ctx : Ctx α) (pr : Bool) (lv : Level α)
    (h : Header) (raw : Bytes) (hl : LevelOK lv) (hlen : raw.length = h.dataSize) :
    NoPanic (formatElem t ctx pr lv h raw) := by
  unfold formatElem
  exact noPanic_bind (formatBasic_noPanic t h raw hlen)
    (fun b _ => applyParsers_noPanic t hok ctx pr lv h raw b hl)

theorem formatElem_level (t : Tables) (ctx : Ctx α) (pr : Bool) (lv : Level α) (h : Header) (raw : Bytes)
    (f : Formatted α) (hl : LevelOK lv) (hf : formatElem t ctx pr lv h raw = .ok f) : LevelOK f.level := by
  unfold formatElem at hf
  obtain ⟨b, _, hf⟩ := bind_eq_ok.mp hf
  exact applyParsers_level t ctx pr lv h raw b f hl hf

/-- the reader loop never panics and keeps the level invariant, for every byte string -/
theorem readLevel_noPanic (t : Tables) (hok : tablesOK t = true) (fuel : Nat) (ctx : Ctx α) (pr : Bool)
    (s : Bytes) (lv : Level α) (hl : LevelOK lv) : NoPanic (readLevel t fuel ctx pr s lv) := by
  induction fuel generalizing ctx pr s lv with
  | zero => simp [readLevel]
  | succ n ih =>
    unfold readLevel
    split
    · simp
    · split
      · simp
      · rename_i h hh
        split
        · simp
        · simp only
          split
          · -- nested container
            have hinner := ih (⟨if pr then [] else lv.md :: ctx.ancestors⟩) false ((s.drop 8).take h.total)
              ⟨[], none, []⟩ levelOK_init
            split
            · split
              · simp
              · split
                · simp
                · split
                  · rename_i f hf
                    exact ih ctx pr _ _ (by
                      intro sc hs
                      have := applyParsers_level t ctx pr lv h [] .nil f hl hf
                      exact this sc (by simpa using hs))
                  · simp
                  · rename_i p hp
                    exact absurd hp (applyParsers_noPanic t hok ctx pr lv h [] .nil hl p)
                  · simp
            · simp
            · rename_i p hp; exact absurd hp (hinner p)
            · simp
          · -- leaf element
            split
            · simp
            · split
              · simp
              · rename_i hb hp
                have hlen : ((s.drop 8).take h.dataSize).length = h.dataSize := by
                  simp only [List.length_take, List.length_drop] at hb ⊢
                  omega
                split
                · rename_i f hf
                  exact ih ctx pr _ _ (by
                    intro sc hs
                    have := formatElem_level t ctx pr lv h _ f hl hf
                    exact this sc (by simpa using hs))
                · simp
                · rename_i p hp2
                  exact absurd hp2 (formatElem_noPanic t hok ctx pr lv h _ hl hlen p)
                · simp

end TrackVerif.GPMF
