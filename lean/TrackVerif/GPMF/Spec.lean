import TrackVerif.GPMF.Model
/-
  What C06 / C07 / C16 demand of the GPMF tables, written by hand (reviewed against the GPMF
  specification): value widths per type byte, key → parser, friendly names, sensor sample
  layouts (GPS5 lat,lon,alt,2D,3D; ACCL/GYRO/MAGN stored Z,X,Y; WRGB R,G,B), face record layouts.
-/
namespace TrackVerif.GPMF.Spec
open TrackVerif.GPMF

def expectedTables : Tables := {
  types := [
    ⟨'b', "formatInt8s", 1⟩,
    ⟨'B', "formatUint8s", 1⟩,
    ⟨'c', "formatStrings", 0⟩,
    ⟨'F', "formatStrings", 0⟩,
    ⟨'G', "formatStrings", 0⟩,
    ⟨'s', "formatInt16s", 2⟩,
    ⟨'S', "formatUint16s", 2⟩,
    ⟨'f', "formatFloat32s", 4⟩,
    ⟨'l', "formatInt32s", 4⟩,
    ⟨'L', "formatUint32s", 4⟩,
    ⟨'q', "formatInt16_16s", 4⟩,
    ⟨'d', "formatFloat64s", 8⟩,
    ⟨'j', "formatInt64s", 8⟩,
    ⟨'J', "formatUint64s", 8⟩,
    ⟨'Q', "formatInt32_32s", 8⟩,
    ⟨'U', "formatDates", 16⟩
  ]
  keyParsers := [
    ("ACCL", "parseAccel"),
    ("ALLD", ""),
    ("CORI", ""),
    ("DEVC", ""),
    ("DISP", ""),
    ("DVID", "parseMetadata"),
    ("DVNM", "parseMetadata"),
    ("EMPT", ""),
    ("FACE", "parseFace"),
    ("FCNM", "parseHasMetadata"),
    ("FREE", ""),
    ("GPS5", "parseGPS"),
    ("GPSF", "parseGPSFix"),
    ("GPSP", "parseGPSDoP"),
    ("GPSU", "parseMetadata"),
    ("GRAV", ""),
    ("GYRO", "parseGyro"),
    ("HUES", ""),
    ("IORI", ""),
    ("ISOE", "parseHasMetadata"),
    ("ISOG", ""),
    ("LSKP", ""),
    ("MAGN", "parseMagnetometer"),
    ("MSKP", ""),
    ("MTRX", ""),
    ("MWET", ""),
    ("ORIN", ""),
    ("ORIO", ""),
    ("PFRM", ""),
    ("QUAN", ""),
    ("RMRK", ""),
    ("SCAL", "parseScale"),
    ("SCEN", ""),
    ("SHUT", ""),
    ("SIUN", "parseMetadata"),
    ("SROT", ""),
    ("STMP", ""),
    ("STNM", "parseMetadata"),
    ("STPS", ""),
    ("STRM", ""),
    ("TICK", ""),
    ("TIMO", ""),
    ("TMPC", "parseMetadata"),
    ("TOCK", ""),
    ("TSMP", "parseMetadata"),
    ("TYPE", "parseMetadata"),
    ("UNIF", ""),
    ("UNIT", "parseMetadata"),
    ("VERS", ""),
    ("WBAL", ""),
    ("WNFM", ""),
    ("WRGB", "parseWhiteBalanceRGB"),
    ("YAVG", "")
  ]
  keyNames := [
    ("ACCL", "acceleration"),
    ("DVID", "device_id"),
    ("DVNM", "device_name"),
    ("FACE", "face_detection"),
    ("FCNM", "faces"),
    ("GPS5", "gps"),
    ("GPSF", "gps_fix"),
    ("GPSP", "gps_dilution_of_precision"),
    ("GPSU", "gps_time"),
    ("GYRO", "gyroscope"),
    ("MAGN", "magnetometer"),
    ("SCAL", "scale"),
    ("SIUN", "standard_units"),
    ("STNM", "stream_name"),
    ("TMPC", "device_temperature"),
    ("TSMP", "samples"),
    ("TYPE", "type_def"),
    ("UNIT", "display_units"),
    ("WRGB", "white_balance_rgb")
  ]
  layouts := [
    ("parseGPS", 5, [0, 1, 2, 3, 4]),
    ("parseAccel", 3, [1, 2, 0]),
    ("parseGyro", 3, [1, 2, 0]),
    ("parseMagnetometer", 3, [1, 2, 0]),
    ("parseWhiteBalanceRGB", 3, [0, 1, 2])
  ]
  faceDefs := [
    ("BBSSSSSBB", 14, 10),
    ("Lffff", 20, 6),
    ("Lffffff", 28, 8),
    ("Lffffffffffffffffffffff", 92, 7)
  ]
  faceFields := [
    (6, [(0, 4, false), (4, 4, true), (8, 4, true), (12, 4, true), (16, 4, true)]),
    (7, [(0, 4, false), (4, 4, true), (8, 4, true), (12, 4, true), (16, 4, true), (88, 4, true)]),
    (8, [(0, 4, false), (4, 4, true), (8, 4, true), (12, 4, true), (16, 4, true), (24, 4, true), (20, 4, true)]),
    (10, [(0, 1, false), (1, 1, false), (2, 2, false), (4, 2, false), (6, 2, false), (8, 2, false), (10, 2, false), (12, 1, false), (13, 1, false)])
  ]
}

/-- value width in bytes per type (what "size x repeat / width values" refers to) -/
def widthOf (c : Char) : Option Nat :=
  if c ∈ ['b', 'B'] then some 1 else if c ∈ ['s', 'S'] then some 2
  else if c ∈ ['l', 'L', 'f', 'q'] then some 4 else if c ∈ ['d', 'j', 'J', 'Q'] then some 8
  else if c = 'U' then some 16 else none

/-- cumulative offsets implied by a type definition string (L,f = 4, S = 2, B = 1) -/
def defOffsets (def_ : String) : List (Nat × Nat) :=
  (def_.toList.foldl (fun (acc : List (Nat × Nat) × Nat) c =>
    let w := if c = 'L' ∨ c = 'f' then 4 else if c = 'S' then 2 else 1
    (acc.1 ++ [(acc.2, w)], acc.2 + w)) ([], 0)).1

end TrackVerif.GPMF.Spec
