import TrackVerif.Common.Outcome
import TrackVerif.Common.GenTypes
/-
  Executable model of `pkg/gopro/gpmf`: reader.go (KLV loop with limit-reader semantics),
  header.go, element.go (sizing, padding, formatters), scale.go, floats.go, keys.go
  (key → parser), metadata.go, gps5/accl/gyro/magn/wrgb.go, gpsp.go, gpsf.go, face.go.

  Bytes are `List UInt8`; raw values are exact integers / IEEE bit patterns; scaled values are
  polymorphic in `FNum` (Float for the correspondence, Rat for theorems).
-/
namespace TrackVerif.GPMF
open TrackVerif Gen

abbrev Bytes := List UInt8

/-- arithmetic on scaled sample values -/
class FNum (α : Type) where
  ofInt : Int → α
  ofF32Bits : Nat → α          -- float64(math.Float32frombits(b))
  ofF64Bits : Nat → α
  div : α → α → α
  hundred : α

/-! ### Big-endian decoding -/

def beNat : Bytes → Nat
  | [] => 0
  | b :: bs => b.toNat * 256 ^ bs.length + beNat bs

/-- two's complement interpretation of `w` bytes -/
def toSigned (w : Nat) (n : Nat) : Int :=
  if n ≥ 2 ^ (8 * w - 1) then (n : Int) - (2 ^ (8 * w) : Nat) else n

/-- split a payload into `count` chunks of `w` bytes (Go reads `raw[j:]` with j += w) -/
def chunks (w : Nat) (count : Nat) (raw : Bytes) : List Bytes :=
  (List.range count).map fun i => (raw.drop (i * w)).take w

/-- the same list computed in one pass (what the compiled driver runs: `chunks` itself re-walks the
    payload for every entry, which is quadratic on megabyte payloads) -/
def chunksFast (w : Nat) : Nat → Bytes → List Bytes
  | 0, _ => []
  | n + 1, raw => raw.take w :: chunksFast w n (raw.drop w)

theorem chunks_eq_fast (w count : Nat) (raw : Bytes) : chunks w count raw = chunksFast w count raw := by
  induction count generalizing raw with
  | zero => simp [chunks, chunksFast]
  | succ n ih =>
    have := ih (raw.drop w)
    unfold chunks at this ⊢
    rw [List.range_succ_eq_map, List.map_cons, List.map_map, chunksFast, ← this]
    simp only [Nat.zero_mul, List.drop_zero, List.cons.injEq, true_and]
    apply List.map_congr_left
    intro i _
    simp only [Function.comp, List.drop_drop]
    congr 2
    rw [Nat.succ_mul]; omega

@[csimp] theorem chunks_csimp : @chunks = @chunksFast := by
  funext w count raw; exact chunks_eq_fast w count raw

/-! ### Headers -/

structure Header where
  key : Bytes          -- 4 bytes
  typ : UInt8
  size : UInt8
  count : Nat          -- uint16
  deriving DecidableEq, Repr

def Header.fourcc (h : Header) : Bytes := h.key

def tNested : UInt8 := 0
def tCompressed : UInt8 := 35   -- '#'
def tComplex : UInt8 := 63      -- '?'

/-- `Header.validate`: 7-bit key, not compressed -/
def Header.valid (h : Header) : Bool := h.key.all (· ≤ 127) && h.typ != tCompressed

def parseHeader (b : Bytes) : Option Header :=
  match b with
  | k0 :: k1 :: k2 :: k3 :: t :: s :: c0 :: c1 :: _ => some ⟨[k0, k1, k2, k3], t, s, c0.toNat * 256 + c1.toNat⟩
  | _ => none

def Header.dataSize (h : Header) : Nat := h.size.toNat * h.count
/-- `math.Ceil(size/4)*4` -/
def Header.total (h : Header) : Nat := (h.dataSize + 3) / 4 * 4
def Header.padding (h : Header) : Nat := h.total - h.dataSize

/-! ### Values -/

inductive Raw
  | nil                                              -- nested / complex: no formatted data
  | ints (tag : Char) (scalar : Bool) (vs : List Int)  -- b B s S l L j J q Q
  | f32 (scalar : Bool) (bits : List Nat)
  | f64 (scalar : Bool) (bits : List Nat)
  | str (s : Bytes)
  | strs (ss : List Bytes)
  | dates (scalar : Bool) (ds : List Bytes)
  deriving DecidableEq, Repr

structure Face where
  def_ : Nat                  -- 6, 7, 8, 10
  fields : List Nat           -- raw field values in struct order (ints or float32 bits)
  deriving DecidableEq, Repr

inductive Data (α : Type)
  | raw (r : Raw)
  | floats (vs : List α)                 -- scaled values ([]float64)
  | scale (vs : List α)                  -- a SCAL element's own data (Scale)
  | gps (samples : List (List α))        -- lat lon alt speed speed3d
  | xyz (kind : String) (samples : List (List α))   -- X Y Z as stored in the struct
  | rgb (samples : List (List α))
  | faces (fs : List Face)
  | dop (v : α)
  | fix (code : Nat)
  deriving Repr

inductive MetaVal (α : Type)
  | data (d : Data α)
  | text (s : String)
  deriving Repr

abbrev MetaMap (α : Type) := List (String × MetaVal α)

def MetaMap.set {α : Type} (m : MetaMap α) (k : String) (v : MetaVal α) : MetaMap α :=
  if m.any (·.1 = k) then m.map fun p => if p.1 = k then (k, v) else p else m ++ [(k, v)]

def MetaMap.has {α : Type} (m : MetaMap α) (k : String) : Bool := m.any (·.1 = k)

/-- an element of the returned tree; `aliasesParent` = its Metadata map IS the parent's map -/
inductive Elem (α : Type)
  | mk (h : Header) (total : Nat) (data : Data α) (md : MetaMap α) (aliasesParent : Bool)
       (nested : List (Elem α))
  deriving Repr

/-! ### Basic formatters (element.go) -/

/-- widths and scalar rule per type byte; regenerated from the source and checked against these -/
structure TypeRow where
  typ : Char
  formatter : String
  width : Nat                 -- `size :=` literal (1 for the byte formatters, 0 = not width based)
  deriving DecidableEq, Repr

structure Tables where
  types : List TypeRow
  keyParsers : List (String × String)      -- FourCC ↦ parser function ("" = nil entry)
  keyNames : List (String × String)
  layouts : List (String × Nat × List Nat) -- parser ↦ (sample width, vals index per struct field)
  faceDefs : List (String × Nat × Nat)     -- type def ↦ (record size, which layout 6/7/8/10)
  faceFields : List (Nat × List (Nat × Nat × Bool)) -- layout ↦ [(offset, width, isFloat)] in struct order
  deriving Repr

def strOfBytes (b : Bytes) : String := String.ofList (b.map fun x => Char.ofNat x.toNat)

/-- NUL trim at the right end -/
def trimNul (b : Bytes) : Bytes := (b.reverse.dropWhile (· == 0)).reverse

/-- `standardUnitsFix`: Latin-1 ° ² ³ µ bytes become UTF-8 -/
def unitsFix (b : Bytes) : Bytes :=
  b.flatMap fun x => if x = 0xB0 ∨ x = 0xB2 ∨ x = 0xB3 ∨ x = 0xB5 then [0xC2, x] else [x]

def toStringBytes (key : Bytes) (b : Bytes) : Bytes :=
  let t := trimNul b
  if key = [83, 73, 85, 78] then unitsFix t else t   -- "SIUN"

def isDigitB (b : UInt8) : Bool := 48 ≤ b && b ≤ 57
def dig2 (a b : UInt8) : Nat := (a.toNat - 48) * 10 + (b.toNat - 48)

def daysIn (y m : Nat) : Nat :=
  if m = 2 then (if (y % 4 = 0 ∧ y % 100 ≠ 0) ∨ y % 400 = 0 then 29 else 28)
  else if m = 4 ∨ m = 6 ∨ m = 9 ∨ m = 11 then 30 else 31

/-- the two-digit year field as Go reads it: `time.Parse` hands the two characters to its `atoi`,
    which accepts a sign — "-5" is the year -5 of the century, i.e. 1995 (seen on a mutated stream) -/
def twoDigitYear (y0 y1 : UInt8) : Option Int :=
  if isDigitB y0 && isDigitB y1 then some (dig2 y0 y1)
  else if y0 == 43 && isDigitB y1 then some (y1.toNat - 48 : Nat)
  else if y0 == 45 && isDigitB y1 then some (-((y1.toNat - 48 : Nat) : Int))
  else none

/-- the calendar year a two-digit year stands for (69..99 are 19yy, everything below is 20yy) -/
def fullYear (yy : Int) : Int := if yy ≥ 69 then 1900 + yy else 2000 + yy

/-- `time.Parse("060102150405.000", s)` succeeds (when parsing, Go takes a comma for the decimal
    point of the fractional seconds as well) -/
def validDate (d : Bytes) : Bool :=
  match d with
  | [y0, y1, m0, m1, d0, d1, h0, h1, i0, i1, s0, s1, dot, f0, f1, f2] =>
    [m0, m1, d0, d1, h0, h1, i0, i1, s0, s1, f0, f1, f2].all isDigitB && (dot == 46 || dot == 44) &&
    (match twoDigitYear y0 y1 with
     | none => false
     | some yy =>
       let y := (fullYear yy).toNat
       let m := dig2 m0 m1
       let day := dig2 d0 d1
       1 ≤ m && m ≤ 12 && 1 ≤ day && day ≤ daysIn y m && dig2 h0 h1 < 24 && dig2 i0 i1 < 60 && dig2 s0 s1 < 60)
  | _ => false

def typeRow (t : Tables) (ty : UInt8) : Option TypeRow :=
  t.types.find? (fun r => r.typ.toNat = ty.toNat)

/-- `formatBasic` -/
def formatBasic (t : Tables) (h : Header) (raw : Bytes) : Outcome Raw :=
  if h.typ = tNested ∨ h.typ = tComplex then .ok .nil else
  match typeRow t h.typ with
  | none => .err .format
  | some row =>
    let size := h.dataSize
    if row.formatter = "formatInt8s" ∨ row.formatter = "formatUint8s" then
      let signed := row.formatter = "formatInt8s"
      let vs := raw.map fun b => if signed then toSigned 1 b.toNat else (b.toNat : Int)
      .ok (.ints row.typ (size = 1) vs)
    else if row.formatter = "formatStrings" then
      if h.size = 1 ∨ h.count = 1 then .ok (.str (toStringBytes h.key raw))
      else .ok (.strs ((chunks h.size.toNat h.count raw).map (toStringBytes h.key)))
    else if row.formatter = "formatDates" then
      let count := size / 16
      if count = 1 then (if validDate raw then .ok (.dates true [raw]) else .err .parse)
      else
        let ds := chunks 16 count raw
        if ds.all validDate then .ok (.dates false ds) else .err .parse
    else if row.width = 0 then .err .format
    else
      let w := row.width
      let count := size / w
      let cs := chunks w count raw
      -- `byteOrder.UintN(e.raw[j:])` panics when fewer than w bytes remain; count = size / w rules it out
      if cs.any (fun c => c.length < w) then .panic .index else
      let ns := cs.map beNat
      if row.formatter = "formatFloat32s" then .ok (.f32 (count = 1) ns)
      else if row.formatter = "formatFloat64s" then .ok (.f64 (count = 1) ns)
      else
        let signed := row.formatter ∈ ["formatInt16s", "formatInt32s", "formatInt64s", "formatInt16_16s", "formatInt32_32s"]
        .ok (.ints row.typ (count = 1) (ns.map fun n => if signed then toSigned w n else (n : Int)))

variable {α : Type} [FNum α]

/-- `floatSlice` -/
def floatSlice (d : Data α) : Outcome (List α) :=
  match d with
  | .raw (.ints _ _ vs) => .ok (vs.map FNum.ofInt)
  | .raw (.f32 _ bs) => .ok (bs.map FNum.ofF32Bits)
  | .raw (.f64 _ bs) => .ok (bs.map FNum.ofF64Bits)
  | .floats vs => .ok vs
  | .scale vs => .ok vs
  | _ => .err .format

/-- `scale`: value i is divided by scale[i mod n]; `i % n` is a Go crash point for n = 0 -/
def applyScale (vals : List α) (sc : List α) : Outcome (List α) :=
  if sc.isEmpty then (if vals.isEmpty then .ok [] else .panic .divZero)
  else .ok (vals.zipIdx.map fun (v, i) => FNum.div v (sc.getD (i % sc.length) v))

/-- `floatType`: regroup into samples of `w` values; struct field k takes vals[pos k] -/
def regroup (vals : List α) (w : Nat) (order : List Nat) : Outcome (List (List α)) :=
  if w = 0 then .panic .divZero
  else if vals.length % w ≠ 0 then .err .format
  else .ok ((List.range (vals.length / w)).map fun j =>
    let s := (vals.drop (j * w)).take w
    order.filterMap fun k => s[k]?)

/-- consecutive windows of `w` values, in one pass -/
def windowsFast {β : Type} (w : Nat) : Nat → List β → List (List β)
  | 0, _ => []
  | n + 1, l => l.take w :: windowsFast w n (l.drop w)

theorem windows_eq_fast {β : Type} (w count : Nat) (l : List β) :
    ((List.range count).map fun j => (l.drop (j * w)).take w) = windowsFast w count l := by
  induction count generalizing l with
  | zero => simp [windowsFast]
  | succ n ih =>
    have := ih (l.drop w)
    rw [List.range_succ_eq_map, List.map_cons, List.map_map, windowsFast, ← this]
    simp only [Nat.zero_mul, List.drop_zero, List.cons.injEq, true_and]
    apply List.map_congr_left
    intro i _
    simp only [Function.comp, List.drop_drop]
    congr 2
    rw [Nat.succ_mul]; omega

/-- `regroup` computed in one pass (what the compiled driver runs; `regroup` itself re-walks the
    values for every sample, which is quadratic on sensor payloads beyond 64 KiB) -/
def regroupFast (vals : List α) (w : Nat) (order : List Nat) : Outcome (List (List α)) :=
  if w = 0 then .panic .divZero
  else if vals.length % w ≠ 0 then .err .format
  else .ok ((windowsFast w (vals.length / w) vals).map fun s => order.filterMap fun k => s[k]?)

omit [FNum α] in
theorem regroup_eq_fast (vals : List α) (w : Nat) (order : List Nat) :
    regroup vals w order = regroupFast vals w order := by
  unfold regroup regroupFast
  split
  · rfl
  · split
    · rfl
    · rw [← windows_eq_fast, List.map_map]
      rfl

@[csimp] theorem regroup_csimp : @regroup = @regroupFast := by
  funext α vals w order; exact regroup_eq_fast vals w order

/-! ### Key parsers -/

def keyString (k : Bytes) : String := strOfBytes k

def friendlyName (t : Tables) (key : String) : String :=
  match t.keyNames.lookup key with
  | some n => if n = "" then key else n
  | none => key

structure Ctx (α : Type) where
  /-- metadata of the ancestors below the root, nearest first (read-only while a level is read) -/
  ancestors : List (MetaMap α)

/-- state of the parent while its children are read -/
structure Level (α : Type) where
  md : MetaMap α
  scale : Option (List α)
  children : List (Elem α)

/-- `initMetadata`: alias the parent's map and copy absent keys from every ancestor below the root -/
def initMetadata (ctx : Ctx α) (lv : Level α) (parentIsRoot : Bool) : Level α :=
  if parentIsRoot then lv else
  -- v = parent is the aliased map itself (no-op); then the parent's ancestors while v.parent ≠ nil
  let m := ctx.ancestors.foldl (fun (m : MetaMap α) anc =>
    anc.foldl (fun (m : MetaMap α) p => if m.has p.1 then m else m ++ [p]) m) lv.md
  { lv with md := m }

def faceOf (t : Tables) (layout : Nat) (rec : Bytes) : Outcome Face :=
  match t.faceFields.lookup layout with
  | none => .unmodelled
  | some fields =>
    -- `byteOrder.UintN(raw[off:])` / `raw[off]`: crash when the record is too short
    if fields.any (fun (off, w, _) => rec.length < off + w) then .panic .index
    else .ok ⟨layout, fields.map fun (off, w, _) => beNat ((rec.drop off).take w)⟩

/-- result of formatting one non-nested element: its data, the new parent level, aliasing flag -/
structure Formatted (α : Type) where
  data : Data α
  level : Level α
  aliases : Bool

def metaText (m : MetaMap α) (k : String) : Option (MetaVal α) := m.lookup k

/-- a pending scale of the parent applies to this element and is cleared -/
def scaleStage (lv : Level α) (d0 : Data α) : Outcome (Data α × Level α) :=
  match lv.scale with
  | some sc => do
    let vs ← floatSlice d0
    let scaled ← applyScale vs sc
    pure (Data.floats scaled, { lv with scale := none })
  | none => pure (d0, lv)

/-- the three GPS lock codes -/
def fixDescription (v : Int) : String :=
  if v = 0 then "No lock" else if v = 2 then "2D lock" else if v = 3 then "3D lock"
  else "unknown lock: " ++ toString v

/-- `parseFace` -/
def parseFaceStage (t : Tables) (ctx : Ctx α) (parentIsRoot : Bool) (lv : Level α) (h : Header) (raw : Bytes)
    (d1 : Data α) : Outcome (Formatted α) :=
  let lv := initMetadata ctx lv parentIsRoot
  if h.count = 0 then .ok ⟨d1, lv, true⟩ else
  match lv.md.lookup (friendlyName t "TYPE") with
  | none => .err .format
  | some (.data (.raw (.str s))) =>
    match t.faceDefs.lookup (strOfBytes s) with
    | none => .err .format
    | some (size, layout) =>
      if h.size.toNat ≠ size then .err .format
      else if raw.length < h.count * size then .err .format     -- a container has no payload of its own
      else do
        let recs ← (List.range h.count).mapM fun i => faceOf t layout (raw.drop (i * size))
        .ok ⟨.faces recs, lv, true⟩
  | some _ => .err .format

/-- the sensor parsers built on `floatType` -/
def sensorStage (t : Tables) (ctx : Ctx α) (parentIsRoot : Bool) (lv : Level α) (p : String) (d1 : Data α) :
    Outcome (Formatted α) :=
  match t.layouts.lookup p with
  | none => .unmodelled
  | some (w, order) => do
    -- parseGPS / parseAccel / parseGyro / parseWhiteBalanceRGB init metadata, parseMagnetometer does not
    let inits := p ≠ "parseMagnetometer"
    let lv := if inits then initMetadata ctx lv parentIsRoot else lv
    let vs ← floatSlice d1
    let samples ← regroup vs w order
    let d : Data α :=
      if p = "parseGPS" then .gps samples
      else if p = "parseWhiteBalanceRGB" then .rgb samples
      else .xyz p samples
    .ok ⟨d, lv, inits⟩

/-- the key's parser (keys.go `keyParsers`) applied to the (possibly scaled) data -/
def parseStage (t : Tables) (ctx : Ctx α) (parentIsRoot : Bool) (h : Header) (raw : Bytes)
    (d1 : Data α) (lv : Level α) : Outcome (Formatted α) :=
  let key := keyString h.key
  let name := friendlyName t key
  match t.keyParsers.lookup key with
  | none => .ok ⟨d1, lv, false⟩
  | some p =>
    if p = "" then .ok ⟨d1, lv, false⟩
    else if p = "parseMetadata" then .ok ⟨d1, { lv with md := lv.md.set name (.data d1) }, false⟩
    else if p = "parseHasMetadata" then .ok ⟨d1, initMetadata ctx lv parentIsRoot, true⟩
    else if p = "parseScale" then do
      let vs ← floatSlice d1
      if vs.isEmpty then .err .format else
      .ok ⟨.scale vs, { lv with scale := some vs }, false⟩
    else if p = "parseGPSDoP" then
      match d1 with
      | .raw (.ints 'S' true [v]) =>
        let d : Data α := .dop (FNum.div (FNum.ofInt v) FNum.hundred)
        .ok ⟨d, { lv with md := lv.md.set name (.data d) }, false⟩
      | _ => .err .format
    else if p = "parseGPSFix" then
      match d1 with
      | .raw (.ints 'L' true [v]) =>
        let d : Data α := .fix v.toNat
        .ok ⟨d, { lv with md := (lv.md.set name (.data d)).set "gps_fix_description" (.text (fixDescription v)) }, false⟩
      | _ => .err .format
    else if p = "parseFace" then parseFaceStage t ctx parentIsRoot lv h raw d1
    else sensorStage t ctx parentIsRoot lv p d1

/-- `Element.format` after `formatBasic`: pending scale, then the key's parser.  Nested elements
    go through this too (with no data): a container keyed like a sensor still runs that parser. -/
def applyParsers (t : Tables) (ctx : Ctx α) (parentIsRoot : Bool) (lv : Level α) (h : Header) (raw : Bytes)
    (basic : Raw) : Outcome (Formatted α) :=
  (scaleStage lv (.raw basic)).bind fun (d1, lv) => parseStage t ctx parentIsRoot h raw d1 lv

/-- `Element.format` of a non-nested element, given the raw payload -/
def formatElem (t : Tables) (ctx : Ctx α) (parentIsRoot : Bool) (lv : Level α) (h : Header) (raw : Bytes) :
    Outcome (Formatted α) :=
  (formatBasic t h raw).bind (applyParsers t ctx parentIsRoot lv h raw)

/-! ### The reader loop -/

/-- read all elements of `s` (the bytes visible through the current limit reader) into `lv`;
    `fuel` ≥ length of `s` suffices: every iteration consumes at least 8 bytes -/
def readLevel (t : Tables) (fuel : Nat) (ctx : Ctx α) (parentIsRoot : Bool) (s : Bytes) (lv : Level α) :
    Outcome (Level α) :=
  match fuel with
  | 0 => .unmodelled
  | fuel + 1 =>
    if s.isEmpty then .ok lv else
    match parseHeader s with
    | none => .err .eof                                  -- partial header: io.ErrUnexpectedEOF
    | some h =>
      if !h.valid then .err .format else
      let body := s.drop 8
      if h.typ = tNested then
        -- children are read through a LimitedReader of Total bytes
        let inner := body.take h.total
        -- ancestors (below the root) of the container's children: this level's parent map, then its own
        let childCtx : Ctx α := ⟨if parentIsRoot then [] else lv.md :: ctx.ancestors⟩
        match readLevel t fuel childCtx false inner ⟨[], none, []⟩ with
        | .ok clv =>
          if body.length < h.total then .err .eof else       -- stream ended inside the container
          let rest := body.drop h.total
          if rest.length < h.padding then .err .eof else
          let rest := rest.drop h.padding
          -- Add → format: formatBasic of a container is nil, then pending scale / key parser as usual
          match applyParsers t ctx parentIsRoot lv h [] .nil with
          | .ok f =>
            let e := Elem.mk h h.total f.data clv.md f.aliases clv.children
            readLevel t fuel ctx parentIsRoot rest { f.level with children := f.level.children ++ [e] }
          | .err e => .err e
          | .panic p => .panic p
          | .unmodelled => .unmodelled
        | .err e => .err e
        | .panic p => .panic p
        | .unmodelled => .unmodelled
      else
        if body.length < h.dataSize then .err .eof else
        let raw := body.take h.dataSize
        let rest := body.drop h.dataSize
        if rest.length < h.padding then .err .eof else
        let rest := rest.drop h.padding
        match formatElem t ctx parentIsRoot lv h raw with
        | .ok f =>
          let e := Elem.mk h h.total f.data [] f.aliases []
          readLevel t fuel ctx parentIsRoot rest { f.level with children := f.level.children ++ [e] }
        | .err e => .err e
        | .panic p => .panic p
        | .unmodelled => .unmodelled

/-- `Reader.Read`: the elements of a whole stream (children of an implicit root) -/
def readAll (t : Tables) (s : Bytes) : Outcome (List (Elem α)) :=
  (readLevel t (s.length + 1) ⟨[]⟩ true s ⟨[], none, []⟩).map (·.children)

end TrackVerif.GPMF
