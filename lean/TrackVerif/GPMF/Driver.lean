import TrackVerif.Common.Proto
import TrackVerif.Common.Dec
import TrackVerif.GPMF.Model
import TrackVerif.GPMF.Spec
import TrackVerif.Generated.GPMF
import TrackVerif.GPMF.Walk
/-
  Line-protocol side of the GPMF area (C06, C07, C09 reader half, C16).

    GM read wf|mut <hex bytes>   => ok <dump> | err | panic
-/
namespace TrackVerif.GPMF.Driver
open TrackVerif Proto GPMF

instance : FNum Float where
  ofInt i := Float.ofBits (Dec.decimalToBits (i < 0) i.natAbs 0)
  ofF32Bits b := (Float32.ofBits (UInt32.ofNat b)).toFloat
  ofF64Bits b := Float.ofBits (UInt64.ofNat b)
  div a b := a / b
  hundred := 100.0

def hexB (b : Bytes) : String := hexOfBytesTok b

def sv (scalar : Bool) : String := if scalar then "s" else "v"

def joinOr (sep : String) (xs : List String) : String :=
  if xs.isEmpty then "~" else String.intercalate sep xs

def dumpRaw : Raw → String
  | .nil => "n"
  | .ints tag sc vs => s!"i{tag}{sv sc}:{joinOr "," (vs.map toString)}"
  | .f32 sc bs => s!"f4{sv sc}:{joinOr "," (bs.map (hexOfNat 8))}"
  | .f64 sc bs => s!"f8{sv sc}:{joinOr "," (bs.map fun b => if sc then hexOfNat 16 b else hexOfFloat (Float.ofBits (UInt64.ofNat b)))}"
  | .str s => s!"s:{hexB s}"
  | .strs ss => s!"S:{joinOr "," (ss.map hexB)}"
  | .dates sc ds =>
    -- with the century the two-digit year stands for (69..99 are 19yy, 00..68 are 20yy)
    let withYear (d : Bytes) : Bytes :=
      match d with
      | y0 :: y1 :: rest =>
        match twoDigitYear y0 y1 with
        -- (the instant is shown in the layout's own spelling: a comma accepted for the decimal point
        -- of the fraction is a point again)
        | some yy => (toString (fullYear yy)).toUTF8.toList ++ rest.map (fun b => if b == 44 then 46 else b)
        | none => d
      | _ => d
    s!"d{sv sc}:{joinOr "," (ds.map fun d => hexB (withYear d))}"

def dumpSamples (ss : List (List Float)) : String :=
  joinOr "," (ss.map fun s => String.intercalate "." (s.map hexOfFloat))

def kindTag (k : String) : String :=
  if k = "parseAccel" then "A" else if k = "parseGyro" then "Y" else if k = "parseMagnetometer" then "M" else "?"

def dumpData : Data Float → String
  | .raw r => dumpRaw r
  | .floats vs => s!"f8v:{joinOr "," (vs.map hexOfFloat)}"
  | .scale vs => s!"F:{joinOr "," (vs.map hexOfFloat)}"
  | .gps ss => s!"G:{dumpSamples ss}"
  | .xyz k ss => s!"X{kindTag k}:{dumpSamples ss}"
  | .rgb ss => s!"W:{dumpSamples ss}"
  | .faces fs => s!"C:{joinOr "," (fs.map fun f => toString f.def_ ++ "/" ++ String.intercalate "." (f.fields.map toString))}"
  | .dop v => s!"D:{hexOfFloat v}"
  | .fix c => s!"P:{c}"

def insertKV (p : String × String) : List (String × String) → List (String × String)
  | [] => [p]
  | q :: qs => if p.1 < q.1 then p :: q :: qs else q :: insertKV p qs

def dumpMeta (m : MetaMap Float) : String :=
  let kvs := m.map fun (k, v) => (k, match v with
    | .data d => dumpData d
    | .text s => "t:" ++ hexOfString s)
  let sorted := kvs.foldr insertKV []
  "{" ++ String.intercalate ";" (sorted.map fun (k, v) => hexOfString k ++ "=" ++ v) ++ "}"

partial def dumpElem (parentMeta : MetaMap Float) : Elem Float → String
  | .mk h _ data md aliases nested =>
    let m := if aliases then parentMeta else md
    let kids := String.join (nested.map fun c => " " ++ dumpElem md c)
    s!"({hexB h.key} {h.typ.toNat} {h.size.toNat} {h.count} {dumpData data} {dumpMeta m}{kids})"

/-- the root's final metadata map: keys written by top-level metadata elements -/
def rootMeta (t : Tables) (s : Bytes) : MetaMap Float :=
  match (readLevel t (s.length + 1) ⟨[]⟩ true s ⟨[], none, []⟩ : Outcome (Level Float)) with
  | .ok lv => lv.md
  | _ => []

def render (t : Tables) (s : Bytes) : String :=
  match (readAll t s : Outcome (List (Elem Float))) with
  | .ok es => "ok" ++ String.join (es.map fun e => " " ++ dumpElem (rootMeta t s) e)
  | .err _ => "err"
  | .panic _ => "panic"
  | .unmodelled => "unmodelled"

def handleRead (mode hex : String) (impl : List String) : String :=
  match bytesOfHex hex with
  | none => "BAD"
  | some bs =>
    let implS := String.intercalate " " impl
    let rS := render Spec.expectedTables bs
    let rG := render Gen.GPMF.tables bs
    if impl.head? = some "panic" then s!"VIOL clause=gm.no_panic model={rS.take 40}"
    else if impl.head? = some "hang" then "VIOL clause=gm.no_hang"
    else if impl.head? = some "hang-skipped" then "SKIP reason=hang-skipped"
    else if rS = "unmodelled" then "SKIP reason=grammar"
    else
      let cls := (rS.splitOn " ").headD ""
      let nt := if bs.length ≥ 16 then "1" else "0"
      if implS == rS then (if rG == rS then s!"OK cls={cls} nt={nt}" else "CORR clause=gm.gen_tables")
      else if mode == "wf" then s!"VIOL clause=gm.read spec={rS.take 3000}"
      else if mode == "trunc" ∧ rS == "err" ∧ impl.head? = some "ok" then
        -- a well-formed stream cut short (not between two top-level elements) was accepted
        "VIOL clause=gm.truncated_accepted"
      else s!"CORR clause=gm.read_mut model={rS.take 400}"

/-! ### walk -/

mutual
partial def roseOf (n : Nat) : Elem Float → Walk.Rose Nat × Nat
  | .mk _ _ _ _ _ nested =>
    let r := roseOfL (n + 1) nested
    (.node n r.1, r.2)
partial def roseOfL (n : Nat) : List (Elem Float) → List (Walk.Rose Nat) × Nat
  | [] => ([], n)
  | e :: es =>
    let r := roseOf n e
    let rs := roseOfL r.2 es
    (r.1 :: rs.1, rs.2)
end

def handleWalk (hex skip stop : String) (impl : List String) : String :=
  match bytesOfHex hex with
  | none => "BAD"
  | some bs =>
    if impl.head? = some "panic" then "VIOL clause=gm.walk_no_panic" else
    if impl.head? = some "hang-skipped" then "SKIP reason=hang-skipped" else
    match (readAll Spec.expectedTables bs : Outcome (List (Elem Float))) with
    | .ok es =>
      let (forest, n) := roseOfL 0 es
      let skips : List Nat := if skip == "~" then [] else (skip.splitOn ",").filterMap String.toNat?
      let stopAt : Option Nat := if stop == "-" then none else stop.toNat?
      let fn : Nat → Walk.Act := fun i =>
        if some i == stopAt then .stop else if skips.contains i then .skip else .cont
      let r := Walk.walkL fn forest
      let v := if r.1.isEmpty then "~" else String.intercalate "," (r.1.map toString)
      let want := s!"{if r.2 then "stopped" else "ok"} n={n} v={v}"
      let nt := if n ≥ 3 then "1" else "0"
      if String.intercalate " " impl == want then s!"OK cls=walk nt={nt}"
      else s!"VIOL clause=gm.walk spec={want.take 600}"
    | _ => if impl == ["readerr"] then "OK cls=err nt=0" else "SKIP reason=read"

def handle (args : List String) (impl : List String) : String :=
  match args with
  | ["walk", hex, skip, stop] => handleWalk hex skip stop impl
  | ["read", mode, hex] => handleRead mode hex impl
  | _ => "BAD"

end TrackVerif.GPMF.Driver
