import TrackVerif.GPMF.Model
/-  Exact-rational instance of the GPMF scaling arithmetic (what the theorems are about).
    Float payload bits are kept symbolic: `ofF32Bits` / `ofF64Bits` map to a tagged rational. -/
namespace TrackVerif.GPMF

instance instFNumRat : FNum Rat where
  ofInt i := (i : Rat)
  ofF32Bits b := (b : Rat)
  ofF64Bits b := (b : Rat)
  div a b := a / b
  hundred := 100

end TrackVerif.GPMF
