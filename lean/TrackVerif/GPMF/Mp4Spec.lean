import TrackVerif.GPMF.Mp4
/-
  Declarative reading of an ISO-BMFF sample table (what "valid sample-table layout" means in C08)
  and the proof that the decoder's walk (`sampleReads`) computes exactly that, for every valid layout.

    * `expandStsc`  run-length expansion of stsc: samples per chunk, for chunks 1 … C
    * `expandStts`  run-length expansion of stts: duration of every sample
    * `specReads`   chunk c holds the next `cs[c]` samples, back to back from the chunk's offset;
                    sample s lasts from the sum of the durations before it to that plus its own
-/
namespace TrackVerif.GPMF
open TrackVerif Outcome

/-- samples per chunk for chunks 1 … C: an entry (first, n) says "n samples in every chunk from
    `first` up to the chunk before the next entry's first (or up to the last chunk)" -/
def expandStsc : List (Nat × Nat) → Nat → List Nat
  | [], _ => []
  | [(f, p)], C => List.replicate (C + 1 - f) p
  | (f, p) :: (f', p') :: rest, C => List.replicate (f' - f) p ++ expandStsc ((f', p') :: rest) C

/-- the duration of every sample: `count` times `delta`, entry after entry -/
def expandStts : List Nat → List Nat → List Nat
  | c :: cs, d :: ds => List.replicate c d ++ expandStts cs ds
  | _, _ => []

/-- `StszBox`: size of sample i (one-based) as a plain number -/
def Mp4Tables.sizeOf (t : Mp4Tables) (i : Nat) : Nat :=
  if i > t.sizes.length then t.uniform else t.sizes.getD (i - 1) 0

/-- the samples of one chunk: `n` samples, the first being sample `b + 1`, back to back from `off` -/
def chunkReads (t : Mp4Tables) (ds : List Nat) (off b n : Nat) : List SampleRead :=
  (List.range n).map fun j =>
    { sample := b + j + 1,
      offset := off + ((List.range j).map fun m => t.sizeOf (b + m + 1)).sum,
      size := t.sizeOf (b + j + 1),
      startTicks := (ds.take (b + j)).sum,
      endTicks := (ds.take (b + j + 1)).sum }

/-- chunk after chunk: chunk number `c + 1` starts with sample `b + 1` -/
def specFrom (t : Mp4Tables) (ds offs : List Nat) : List Nat → Nat → Nat → List SampleRead
  | [], _, _ => []
  | n :: cs, c, b => chunkReads t ds (offs.getD c 0) b n ++ specFrom t ds offs cs (c + 1) (b + n)

/-- what the sample tables say: every sample's file extent and decode-time interval, in order -/
def specReads (t : Mp4Tables) (offs : List Nat) : List SampleRead :=
  specFrom t (expandStts t.sttsCount t.sttsDelta) offs (expandStsc t.stsc offs.length) 0 0

/-- first-chunk numbers start somewhere ≥ 1, increase strictly and stay within the chunk table -/
def stscOK : List (Nat × Nat) → Nat → Prop
  | [], _ => True
  | [(f, _)], C => 1 ≤ f ∧ f ≤ C + 1
  | (f, _) :: (f', p') :: rest, C => 1 ≤ f ∧ f < f' ∧ stscOK ((f', p') :: rest) C

/-- a valid layout: a timescale, a chunk-offset table, stsc runs starting at chunk 1 that account
    for exactly the samples of stsz, stts runs (as many deltas as counts) that cover them -/
structure ValidLayout (t : Mp4Tables) (offs : List Nat) : Prop where
  timescale : t.timescale ≠ 0
  offsets : t.offsets = some offs
  first : (t.stsc.head?.map (·.1)) = some 1
  runs : stscOK t.stsc offs.length
  samples : (expandStsc t.stsc offs.length).sum = t.nrSamples
  sttsLen : t.sttsCount.length = t.sttsDelta.length
  sttsCover : t.nrSamples ≤ t.sttsCount.sum

/-! ### stts cursor -/

theorem expandStts_length : ∀ (cs ds : List Nat), cs.length = ds.length →
    (expandStts cs ds).length = cs.sum
  | [], [], _ => by simp [expandStts]
  | c :: cs, d :: ds, h => by
    simp only [List.length_cons, Nat.add_right_cancel_iff] at h
    simp [expandStts, expandStts_length cs ds h]
  | [], _ :: _, h => by simp at h
  | _ :: _, [], h => by simp at h

/-- the sample at position (sum of the counts before entry i) + u, u < count i, lasts delta i -/
theorem expandStts_get : ∀ (cs ds : List Nat) (i u : Nat), cs.length = ds.length →
    (hi : i < cs.length) → u < cs[i] →
    (expandStts cs ds)[(cs.take i).sum + u]? = ds[i]?
  | [], _, i, _, _, hi, _ => by simp at hi
  | _ :: _, [], _, _, h, _, _ => by simp at h
  | c :: cs, d :: ds, 0, u, _, _, hu => by
    simp only [List.getElem_cons_zero] at hu
    simp [expandStts, List.getElem?_append_left, hu]
  | c :: cs, d :: ds, i + 1, u, h, hi, hu => by
    simp only [List.length_cons, Nat.add_right_cancel_iff] at h
    simp only [List.length_cons, Nat.add_lt_add_iff_right] at hi
    simp only [List.getElem_cons_succ] at hu
    have := expandStts_get cs ds i u h hi hu
    simp only [expandStts, List.take_succ_cons, List.sum_cons, List.getElem?_cons_succ]
    rw [List.getElem?_append_right (by simp; omega)]
    simp only [List.length_replicate]
    rw [show c + (cs.take i).sum + u - c = (cs.take i).sum + u by omega]
    exact this

/-- cursor (idx, used) stands at sample position `b` -/
def Cur (counts : List Nat) (idx used b : Nat) : Prop :=
  idx ≤ counts.length ∧ (counts.take idx).sum + used = b ∧
  (∀ h : idx < counts.length, used ≤ counts[idx]) ∧ (idx = counts.length → used = 0)

theorem take_sum_le (l : List Nat) (i : Nat) : (l.take i).sum ≤ l.sum := by
  induction l generalizing i with
  | nil => simp
  | cons a l ih =>
    cases i with
    | zero => simp
    | succ i => simp only [List.take_succ_cons, List.sum_cons]; have := ih i; omega

theorem take_succ_sum (l : List Nat) (i : Nat) (h : i < l.length) :
    (l.take (i + 1)).sum = (l.take i).sum + l[i] := by
  induction l generalizing i with
  | nil => simp at h
  | cons a l ih =>
    cases i with
    | zero => simp
    | succ i =>
      simp only [List.length_cons, Nat.add_lt_add_iff_right] at h
      simp only [List.take_succ_cons, List.sum_cons, List.getElem_cons_succ, ih i h]
      omega

/-- skipping exhausted entries lands on the entry that holds position b, with room left -/
theorem skipStts_spec (counts : List Nat) (b : Nat) (hb : b < counts.sum) :
    ∀ (fuel idx used : Nat), Cur counts idx used b → counts.length - idx + 1 ≤ fuel →
    ∃ i u, skipStts counts fuel idx used = (i, u) ∧ ∃ hi : i < counts.length,
      u < counts[i] ∧ (counts.take i).sum + u = b
  | 0, _, _, _, hf => by omega
  | fuel + 1, idx, used, ⟨h1, h2, h3, h4⟩, hf => by
    have hlt : idx < counts.length := by
      rcases Nat.lt_or_ge idx counts.length with h | h
      · exact h
      · have he : idx = counts.length := by omega
        have := h4 he
        subst he
        simp at h2
        omega
    unfold skipStts
    rw [List.getElem?_eq_getElem hlt]
    simp only
    by_cases hge : used ≥ counts[idx]
    · rw [if_pos hge]
      have hu : used = counts[idx] := by have := h3 hlt; omega
      refine skipStts_spec counts b hb fuel (idx + 1) 0 ⟨by omega, ?_, by intro _; omega, by intro _; rfl⟩ (by omega)
      rw [take_succ_sum counts idx hlt]; omega
    · rw [if_neg hge]
      exact ⟨idx, used, rfl, hlt, by omega, h2⟩

/-! ### one chunk -/

theorem sampleSize_ok (t : Mp4Tables) (i : Nat) (h : 1 ≤ i) : t.sampleSize i = .ok (t.sizeOf i) := by
  unfold Mp4Tables.sampleSize Mp4Tables.sizeOf
  by_cases hi : i > t.sizes.length
  · simp [hi]
  · simp only [hi, if_false]
    have : i - 1 < t.sizes.length := by omega
    rw [idx?_ok_of_lt _ _ this]
    simp [List.getD, List.getElem?_eq_getElem this]

theorem chunkReads_succ (t : Mp4Tables) (ds : List Nat) (off b n : Nat) :
    chunkReads t ds off b (n + 1) =
      ⟨b + 1, off, t.sizeOf (b + 1), (ds.take b).sum, (ds.take (b + 1)).sum⟩ ::
        chunkReads t ds (off + t.sizeOf (b + 1)) (b + 1) n := by
  unfold chunkReads
  rw [List.range_succ_eq_map]
  simp only [List.map_cons, List.map_map, List.range_zero, List.map_nil, List.sum_nil, Nat.add_zero]
  congr 1
  apply List.map_congr_left
  intro j _
  simp only [Function.comp]
  rw [List.range_succ_eq_map]
  simp only [List.map_cons, List.map_map, List.sum_cons, Nat.add_zero]
  have e1 : b + 1 + j + 1 = b + (j + 1) + 1 := by omega
  have e2 : b + 1 + j = b + (j + 1) := by omega
  have e3 : (List.map ((fun m => t.sizeOf (b + m + 1)) ∘ Nat.succ) (List.range j)) =
      (List.map (fun m => t.sizeOf (b + 1 + m + 1)) (List.range j)) := by
    apply List.map_congr_left; intro m _; simp only [Function.comp]
    rw [show b + m.succ + 1 = b + 1 + m + 1 by omega]
  rw [e1, e2, e3]
  simp only [Nat.add_assoc]

/-- the state the walk is in before sample b + 1 -/
def At (t : Mp4Tables) (ds : List Nat) (st : WalkState) (b : Nat) : Prop :=
  st.sample = b + 1 ∧ st.dec = (ds.take b).sum ∧ Cur t.sttsCount st.timeIdx st.timeUsed b

theorem walkChunk_spec (t : Mp4Tables) (N : Nat) (hlen : t.sttsCount.length = t.sttsDelta.length)
    (hcov : N ≤ t.sttsCount.sum) :
    ∀ (n off b : Nat) (st : WalkState), At t (expandStts t.sttsCount t.sttsDelta) st b → b + n ≤ N →
    ∃ st', walkChunk t N n off st = .ok st' ∧ At t (expandStts t.sttsCount t.sttsDelta) st' (b + n) ∧
      st'.reads = st.reads ++ chunkReads t (expandStts t.sttsCount t.sttsDelta) off b n
  | 0, off, b, st, hat, _ => ⟨st, by simp [walkChunk], by simpa using hat, by simp [chunkReads]⟩
  | n + 1, off, b, st, ⟨hs, hd, hc⟩, hbn => by
    have hbN : b < t.sttsCount.sum := by omega
    obtain ⟨i, u, hsk, hi, hu, hpos⟩ :=
      skipStts_spec t.sttsCount b hbN (t.sttsCount.length + 1) st.timeIdx st.timeUsed hc (by omega)
    have hget := expandStts_get t.sttsCount t.sttsDelta i u hlen hi hu
    rw [hpos] at hget
    have hid : i < t.sttsDelta.length := by omega
    rw [List.getElem?_eq_getElem hid] at hget
    have hbl : b < (expandStts t.sttsCount t.sttsDelta).length := by
      rw [expandStts_length _ _ hlen]; exact hbN
    rw [List.getElem?_eq_getElem hbl] at hget
    have hdur : (expandStts t.sttsCount t.sttsDelta)[b] = t.sttsDelta[i] := by
      simpa using hget
    -- the state after this sample
    let st1 : WalkState :=
      { sample := st.sample + 1, dec := st.dec + t.sttsDelta[i], timeIdx := i, timeUsed := u + 1,
        reads := st.reads ++ [⟨st.sample, off, t.sizeOf st.sample, st.dec, st.dec + t.sttsDelta[i]⟩] }
    have hat1 : At t (expandStts t.sttsCount t.sttsDelta) st1 (b + 1) := by
      refine ⟨by simp [st1, hs], ?_, ?_⟩
      · simp only [st1]
        rw [take_succ_sum _ _ hbl, hd, hdur]
      · show Cur t.sttsCount i (u + 1) (b + 1)
        exact ⟨by omega, by omega, fun _ => by omega, fun h => by omega⟩
    obtain ⟨st', hw, hat', hr⟩ := walkChunk_spec t N hlen hcov n (off + t.sizeOf st.sample) (b + 1) st1 hat1 (by omega)
    refine ⟨st', ?_, by rw [show b + (n + 1) = b + 1 + n by omega]; exact hat', ?_⟩
    · unfold walkChunk
      rw [if_neg (by omega)]
      simp only [hsk]
      rw [if_neg (by omega)]
      rw [idx?_ok_of_lt _ _ hid, sampleSize_ok t st.sample (by omega)]
      simp only [bind_ok]
      exact hw
    · rw [hr, chunkReads_succ]
      simp only [st1, List.append_assoc, List.singleton_append]
      rw [hs, hd, take_succ_sum _ _ hbl, hdur]

/-! ### chunk after chunk, entry after entry -/

theorem specFrom_append (t : Mp4Tables) (ds offs : List Nat) (a b : List Nat) (c base : Nat) :
    specFrom t ds offs (a ++ b) c base =
      specFrom t ds offs a c base ++ specFrom t ds offs b (c + a.length) (base + a.sum) := by
  induction a generalizing c base with
  | nil => simp [specFrom]
  | cons n a ih =>
    simp only [List.cons_append, specFrom, ih, List.append_assoc, List.length_cons, List.sum_cons]
    rw [show c + 1 + a.length = c + (a.length + 1) by omega, show base + n + a.sum = base + (n + a.sum) by omega]

theorem specFrom_zeros (t : Mp4Tables) (ds offs : List Nat) (k c b : Nat) :
    specFrom t ds offs (List.replicate k 0) c b = [] := by
  induction k generalizing c with
  | zero => simp [specFrom]
  | succ k ih => simp [List.replicate_succ, specFrom, chunkReads, ih]

theorem sum_replicate (k p : Nat) : (List.replicate k p).sum = k * p := by
  induction k with
  | zero => simp
  | succ k ih => simp only [List.replicate_succ, List.sum_cons, ih, Nat.succ_mul]; omega

/-- chunks chunkNr … last, all holding p samples -/
theorem walkChunks_spec (t : Mp4Tables) (N : Nat) (hlen : t.sttsCount.length = t.sttsDelta.length)
    (hcov : N ≤ t.sttsCount.sum) (offs : List Nat) (p : Nat) :
    ∀ (k fuel chunkNr last b : Nat) (st : WalkState),
      At t (expandStts t.sttsCount t.sttsDelta) st b → 1 ≤ chunkNr → last + 1 = chunkNr + k →
      chunkNr + k ≤ offs.length + 1 → k + 1 ≤ fuel → b + k * p ≤ N →
    ∃ st', walkChunks t offs N p fuel chunkNr last st = .ok st' ∧
      At t (expandStts t.sttsCount t.sttsDelta) st' (b + k * p) ∧
      st'.reads = st.reads ++
        specFrom t (expandStts t.sttsCount t.sttsDelta) offs (List.replicate k p) (chunkNr - 1) b
  | _, 0, _, _, _, _, _, _, _, _, hf, _ => by omega
  | 0, fuel + 1, chunkNr, last, b, st, hat, _, hl, _, _, _ => by
    refine ⟨st, ?_, by simpa using hat, by simp [specFrom]⟩
    unfold walkChunks
    rw [if_pos (Or.inl (by omega))]
  | k + 1, fuel + 1, chunkNr, last, b, st, hat, h1, hl, hc, hf, hb => by
    have hmul : (k + 1) * p = p + k * p := by rw [Nat.succ_mul]; omega
    by_cases hbN : b < N
    · have hoff : chunkNr - 1 < offs.length := by omega
      obtain ⟨st1, hw1, hat1, hr1⟩ := walkChunk_spec t N hlen hcov p offs[chunkNr - 1] b st hat (by omega)
      obtain ⟨st', hw, hat', hr⟩ := walkChunks_spec t N hlen hcov offs p k fuel (chunkNr + 1) last (b + p) st1
        hat1 (by omega) (by omega) (by omega) (by omega) (by omega)
      refine ⟨st', ?_, by rw [hmul, ← Nat.add_assoc]; exact hat', ?_⟩
      · unfold walkChunks
        rw [if_neg (by rw [hat.1]; omega)]
        rw [idx?_ok_of_lt _ _ hoff]
        simp only [bind_ok, hw1]
        exact hw
      · rw [hr, hr1, List.replicate_succ]
        simp only [specFrom, List.append_assoc]
        rw [show chunkNr + 1 - 1 = chunkNr - 1 + 1 by omega]
        simp [List.getD, List.getElem?_eq_getElem hoff]
    · have hp : p = 0 := by
        rcases Nat.eq_zero_or_pos p with h | h
        · exact h
        · omega
      subst hp
      refine ⟨st, ?_, by simpa using hat, by rw [specFrom_zeros]; simp⟩
      unfold walkChunks
      rw [if_pos (Or.inr (by rw [hat.1]; omega))]

theorem stscOK_head_le : ∀ (rest : List (Nat × Nat)) (f p C : Nat), stscOK ((f, p) :: rest) C → 1 ≤ f ∧ f ≤ C + 1
  | [], f, p, C, h => h
  | (f', p') :: rest, f, p, C, ⟨h1, h2, h3⟩ => by
    have := stscOK_head_le rest f' p' C h3
    omega

/-- the chunk number the entries start at -/
def firstOf : List (Nat × Nat) → Nat
  | [] => 1
  | (f, _) :: _ => f

theorem walkEntries_spec (t : Mp4Tables) (N : Nat) (hlen : t.sttsCount.length = t.sttsDelta.length)
    (hcov : N ≤ t.sttsCount.sum) (offs : List Nat) :
    ∀ (es : List (Nat × Nat)) (b : Nat) (st : WalkState),
      At t (expandStts t.sttsCount t.sttsDelta) st b → stscOK es offs.length →
      b + (expandStsc es offs.length).sum ≤ N →
    ∃ st', walkEntries t offs N es st = .ok st' ∧
      At t (expandStts t.sttsCount t.sttsDelta) st' (b + (expandStsc es offs.length).sum) ∧
      st'.reads = st.reads ++ specFrom t (expandStts t.sttsCount t.sttsDelta) offs
        (expandStsc es offs.length) (firstOf es - 1) b
  | [], b, st, hat, _, _ => ⟨st, by simp [walkEntries], by simpa [expandStsc] using hat, by simp [expandStsc, specFrom]⟩
  | [(f, p)], b, st, hat, hok, hb => by
    obtain ⟨h1, h2⟩ := stscOK_head_le [] f p offs.length hok
    simp only [expandStsc, sum_replicate] at hb ⊢
    obtain ⟨st', hw, hat', hr⟩ := walkChunks_spec t N hlen hcov offs p (offs.length + 1 - f) (offs.length + 1) f
      offs.length b st hat h1 (by omega) (by omega) (by omega) hb
    refine ⟨st', ?_, hat', by simpa [firstOf] using hr⟩
    unfold walkEntries
    rw [if_neg (by omega)]
    simp only [lastChunk, hw, bind_ok, walkEntries]
  | (f, p) :: (f', p') :: rest, b, st, hat, hok, hb => by
    obtain ⟨h1, h2, h3⟩ := hok
    obtain ⟨h4, h5⟩ := stscOK_head_le rest f' p' offs.length h3
    simp only [expandStsc, List.sum_append, sum_replicate] at hb ⊢
    have hlast : lastChunk ((f', p') :: rest) offs.length = f' - 1 := by
      simp only [lastChunk]
      split <;> omega
    obtain ⟨st1, hw1, hat1, hr1⟩ := walkChunks_spec t N hlen hcov offs p (f' - f) (offs.length + 1) f
      (f' - 1) b st hat h1 (by omega) (by omega) (by omega) (by omega)
    obtain ⟨st', hw, hat', hr⟩ := walkEntries_spec t N hlen hcov offs ((f', p') :: rest) (b + (f' - f) * p) st1
      hat1 h3 (by omega)
    refine ⟨st', ?_, by rw [← Nat.add_assoc]; exact hat', ?_⟩
    · unfold walkEntries
      rw [if_neg (by omega), hlast]
      simp only [hw1, bind_ok]
      exact hw
    · rw [hr, hr1, specFrom_append]
      simp only [List.append_assoc, firstOf, List.length_replicate, sum_replicate]
      rw [show f - 1 + (f' - f) = f' - 1 by omega]

/-- **the walk computes the declarative reading**: for every valid layout the decoder accepts the
    tables and visits exactly the extents and intervals the tables describe, in order -/
theorem sampleReads_eq_spec (t : Mp4Tables) (offs : List Nat) (h : ValidLayout t offs) :
    sampleReads t = .ok (specReads t offs) := by
  have hat0 : At t (expandStts t.sttsCount t.sttsDelta) ⟨1, 0, 0, 0, []⟩ 0 :=
    ⟨rfl, by simp, by simp [Cur]⟩
  obtain ⟨st', hw, hat', hr⟩ := walkEntries_spec t t.nrSamples h.sttsLen h.sttsCover offs t.stsc 0 ⟨1, 0, 0, 0, []⟩
    hat0 h.runs (by rw [h.samples]; omega)
  have hf : firstOf t.stsc - 1 = 0 := by
    have := h.first
    cases hs : t.stsc with
    | nil => simp [firstOf]
    | cons e es => rw [hs] at this; simp at this; simp [firstOf, this]
  unfold sampleReads
  rw [if_neg h.timescale, h.offsets]
  simp only [hw]
  rw [if_neg (by rw [hat'.1, h.samples]; omega)]
  rw [hr, hf]
  simp [specReads]

end TrackVerif.GPMF
