import TrackVerif.LT.SplitLemmas
import TrackVerif.LT.TimeLemmas
import TrackVerif.LT.Spec
/-  Lemmas about the per-type text codecs, shared by the C01 and C13 property files. Core only
    (kernel-evaluated table lookups). -/
namespace TrackVerif.LT.Spec
open TrackVerif TrackVerif.LT TrackVerif.LT.Fmt

theorem lit_dur_string : Spec.schema.lit "Duration.String" 0 = some "%02d:%02d.%02d" := by decide +kernel
theorem lit_dur_parse : Spec.schema.lit "Duration.Parse" 0 = some "%d:%d.%d" := by decide +kernel
theorem fmt_dur_string : parseFormat "%02d:%02d.%02d".toList = some [.d 2, .lit ':', .d 2, .lit '.', .d 2] := by decide
theorem fmt_dur_parse : parseFormat "%d:%d.%d".toList = some [.d 0, .lit ':', .d 0, .lit '.', .d 0] := by decide

/-- what `Duration.String` prints for a non-negative duration of `n` nanoseconds -/
theorem durationString_nonneg (n : Nat) :
    durationString Spec.schema (n : Int) =
      .ok (Dec.padLeft 2 '0' (natChars (n / 60000000000)) ++ ':' ::
           (Dec.padLeft 2 '0' (natChars (n % 60000000000 / 1000000000)) ++ '.' ::
            Dec.padLeft 2 '0' (natChars (n % 1000000000 / 10000000)))) := by
  have e1 : Int.tdiv (n : Int) 60000000000 = ((n / 60000000000 : Nat) : Int) := by
    rw [Int.tdiv_eq_ediv_of_nonneg (by omega)]; omega
  have e2 : Int.tdiv ((n : Int) - ((n / 60000000000 : Nat) : Int) * 60000000000) 1000000000
      = ((n % 60000000000 / 1000000000 : Nat) : Int) := by
    rw [Int.tdiv_eq_ediv_of_nonneg (by omega)]; omega
  have e3 : Int.tdiv (Int.tdiv ((n : Int) - ((n / 60000000000 : Nat) : Int) * 60000000000
      - ((n % 60000000000 / 1000000000 : Nat) : Int) * 1000000000) 1000000) 10
      = ((n % 1000000000 / 10000000 : Nat) : Int) := by
    have inner := Int.tdiv_eq_ediv_of_nonneg (a := (n : Int) - ((n / 60000000000 : Nat) : Int) * 60000000000
      - ((n % 60000000000 / 1000000000 : Nat) : Int) * 1000000000) (b := 1000000) (by omega)
    rw [inner, Int.tdiv_eq_ediv_of_nonneg (by omega)]; omega
  unfold durationString
  simp only [e1, e2, e3, lit_dur_string, Option.bind_some, sprintf, fmt_dur_string, sprintfItems,
    Option.map_some, fmtInt_nonneg, List.append_nil]


theorem digit_not_punct (x : Char) (h : isDigit x = true) : x ≠ ':' ∧ x ≠ '.' ∧ x ≠ ',' ∧ x ≠ '-' := by
  refine ⟨?_, ?_, ?_, ?_⟩ <;> (intro e; subst e; exact absurd h (by decide))

theorem padLeft_length (w : Nat) (ds : List Char) : w ≤ (Dec.padLeft w '0' ds).length := by
  simp [Dec.padLeft]; omega

theorem allDigits_of (ds : List Char) (hne : ds ≠ []) (h : ∀ x ∈ ds, isDigit x = true) : allDigits ds = true := by
  simp only [allDigits, Bool.and_eq_true, Bool.not_eq_true', List.all_eq_true]
  exact ⟨by cases ds <;> simp_all, h⟩

/-- every non-negative duration is written as MM:SS.cc — at least two minute digits, seconds 00..59,
    two centisecond digits -/
theorem duration_syntax (m s cs : Nat) (hs : s < 60) (hcs : cs < 100) :
    isDuration (Dec.padLeft 2 '0' (natChars m) ++ ':' :: (Dec.padLeft 2 '0' (natChars s) ++ '.' :: Dec.padLeft 2 '0' (natChars cs))) = true := by
  have dm := padLeft_digits 2 _ (natChars_digits m)
  have ds := padLeft_digits 2 _ (natChars_digits s)
  have dc := padLeft_digits 2 _ (natChars_digits cs)
  obtain ⟨a, b, es, _, _, hv, _, _⟩ := Time.pad2_shape s (by omega)
  obtain ⟨a', b', ec, _, _, _, _, _⟩ := Time.pad2_shape cs hcs
  have es' : Dec.padLeft 2 '0' (natChars s) = [a, b] := es
  have ec' : Dec.padLeft 2 '0' (natChars cs) = [a', b'] := ec
  unfold isDuration
  rw [splitOnChar_append ':' _ _ (fun x hx => (digit_not_punct x (dm x hx)).1)]
  have hrest : ∀ x ∈ Dec.padLeft 2 '0' (natChars s) ++ '.' :: Dec.padLeft 2 '0' (natChars cs), x ≠ ':' := by
    intro x hx
    simp only [List.mem_append, List.mem_cons] at hx
    rcases hx with h | h | h
    · exact (digit_not_punct x (ds x h)).1
    · subst h; decide
    · exact (digit_not_punct x (dc x h)).1
  rw [splitOnChar_none ':' _ hrest]
  simp only
  rw [splitOnChar_append '.' _ _ (fun x hx => (digit_not_punct x (ds x hx)).2.1),
    splitOnChar_none '.' _ (fun x hx => (digit_not_punct x (dc x hx)).2.1)]
  simp only
  have l1 := padLeft_length 2 (natChars m)
  have a1 := allDigits_of _ (padLeft_ne_nil 2 _ (natChars_ne_nil m)) dm
  have a2 := allDigits_of _ (padLeft_ne_nil 2 _ (natChars_ne_nil s)) ds
  have a3 := allDigits_of _ (padLeft_ne_nil 2 _ (natChars_ne_nil cs)) dc
  have hv' : digitsToNat (Dec.padLeft 2 '0' (natChars s)) = s := by rw [digitsToNat_padLeft, digitsToNat_natChars]
  have l2 : (Dec.padLeft 2 '0' (natChars s)).length = 2 := by rw [es']; rfl
  have l3 : (Dec.padLeft 2 '0' (natChars cs)).length = 2 := by rw [ec']; rfl
  simp [a1, a2, a3, l1, l2, l3, hv', hs]


end TrackVerif.LT.Spec

namespace TrackVerif.LT.Spec
open TrackVerif TrackVerif.LT TrackVerif.LT.Fmt TrackVerif.LT.Time

/-- the upper-cased month abbreviations are three letters A–Z and are LapTimer's month names -/
def monthShapeOk (m : Nat) : Bool :=
  match (toUpperAscii ((monthNames[m - 1]?).getD "???").toList) with
  | [a, b, c] => upperMonths.contains (String.ofList [a, b, c]) &&
      [a, b, c].all (fun x => decide ('A' ≤ x ∧ x ≤ 'Z'))
  | _ => false

theorem monthShape_all : (List.range 12).all (fun k => monthShapeOk (k + 1)) = true := by decide +kernel

theorem month_shape (m : Nat) (h1 : 1 ≤ m) (h2 : m ≤ 12) :
    ∃ a b c, toUpperAscii ((monthNames[m - 1]?).getD "???").toList = [a, b, c] ∧
      upperMonths.contains (String.ofList [a, b, c]) = true ∧
      ('A' ≤ a ∧ a ≤ 'Z') ∧ ('A' ≤ b ∧ b ≤ 'Z') ∧ ('A' ≤ c ∧ c ≤ 'Z') := by
  have := (List.all_eq_true.mp monthShape_all) (m - 1) (List.mem_range.mpr (by omega))
  rw [show m - 1 + 1 = m by omega] at this
  unfold monthShapeOk at this
  split at this
  · rename_i a b c heq
    simp only [Bool.and_eq_true, List.all_cons, List.all_nil, Bool.and_true, decide_eq_true_eq] at this
    exact ⟨a, b, c, heq, this.1, this.2.1, this.2.2.1, this.2.2.2⟩
  · cases this

theorem upper_alpha_not_punct (x : Char) (h : 'A' ≤ x ∧ x ≤ 'Z') : x ≠ ':' ∧ x ≠ '.' ∧ x ≠ ',' ∧ x ≠ '-' := by
  refine ⟨?_, ?_, ?_, ?_⟩ <;> (intro e; subst e; revert h; decide)

theorem isTwo_pad2 (n lo hi : Nat) (h : n < 100) (hlo : lo ≤ n) (hhi : n ≤ hi) :
    ∃ a b, toUpperAscii (pad2 n) = [a, b] ∧ isDigit a = true ∧ isDigit b = true ∧ isTwo [a, b] lo hi = true := by
  obtain ⟨a, b, e, ha, hb, hv, ua, ub⟩ := pad2_shape n h
  refine ⟨a, b, by simp [e, toUpperAscii, ua, ub], ha, hb, ?_⟩
  simp [isTwo, allDigits, ha, hb, hv, hlo, hhi]

/-- LapDate syntax: `DD-MON-YY,HH:MM:SS`, upper-case month, every field two digits in range -/
theorem lapdate_syntax (c : Civil) (hv : ValidCivil c) :
    isLapDate (toUpperAscii (formatToks c lapToks)) = true := by
  obtain ⟨y1, y2, m1, m2, d1, d2, hh, hm, hs⟩ := hv
  have hd : c.day ≤ 31 := by
    have : daysIn c.year c.month ≤ 31 := by unfold daysIn; split <;> (try split) <;> omega
    omega
  obtain ⟨da, db, ed, hda, hdb, td⟩ := isTwo_pad2 c.day 1 31 (by omega) d1 hd
  obtain ⟨ya, yb, ey, hya, hyb, ty⟩ := isTwo_pad2 (c.year % 100).toNat 0 99 (by omega) (by omega) (by omega)
  obtain ⟨ha, hb, eh, hha, hhb, th⟩ := isTwo_pad2 c.hour 0 23 (by omega) (by omega) (by omega)
  obtain ⟨ma, mb, em, hma, hmb, tm⟩ := isTwo_pad2 c.min 0 59 (by omega) (by omega) (by omega)
  obtain ⟨sa, sb, es, hsa, hsb, ts⟩ := isTwo_pad2 c.sec 0 59 (by omega) (by omega) (by omega)
  obtain ⟨a, b, cc, emon, hmon, la, lb, lc⟩ := month_shape c.month m1 m2
  simp only [lapToks, formatToks]
  simp only [toUpper_append, toUpper_cons, up_dash, up_comma, up_colon, List.append_nil, ed, ey, eh, em, es, emon]
  have n1 := digit_not_punct da hda; have n2 := digit_not_punct db hdb
  have n3 := digit_not_punct ya hya; have n4 := digit_not_punct yb hyb
  have n5 := digit_not_punct ha hha; have n6 := digit_not_punct hb hhb
  have n7 := digit_not_punct ma hma; have n8 := digit_not_punct mb hmb
  have n9 := digit_not_punct sa hsa; have n10 := digit_not_punct sb hsb
  have k1 := upper_alpha_not_punct a la; have k2 := upper_alpha_not_punct b lb; have k3 := upper_alpha_not_punct cc lc
  have hmon' := hmon
  simp at hmon'
  simp [isLapDate, splitOnChar, n1, n2, n3, n4, n5, n6, n7, n8, n9, n10, k1, k2, k3, td, ty, th, tm, ts, hmon']

theorem intercalate_cons_cons (sep a b : List Char) (r : List (List Char)) :
    List.intercalate sep (a :: b :: r) = a ++ sep ++ List.intercalate sep (b :: r) := by
  simp [List.intercalate, List.intersperse]

/-- Tags: joining comma-free tags with ',' and splitting at ',' gives the tags back -/
theorem tags_split_join (ts : List (List Char)) (hne : ts ≠ []) (h : ∀ t ∈ ts, ∀ x ∈ t, x ≠ ',') :
    splitOnChar ',' (List.intercalate [','] ts) = ts := by
  induction ts with
  | nil => exact absurd rfl hne
  | cons t rest ih =>
    cases rest with
    | nil =>
      simp only [List.intercalate, List.intersperse, List.flatten_cons, List.flatten_nil, List.append_nil]
      exact splitOnChar_none ',' t (h t (by simp))
    | cons t2 r =>
      rw [intercalate_cons_cons]
      simp only [List.append_assoc, List.cons_append, List.nil_append]
      rw [splitOnChar_append ',' t _ (h t (by simp)), ih (by simp) (fun u hu => h u (by simp [hu]))]


theorem mapM_str (ts : List (List Char)) (f : V → Outcome (List Char)) (hf : ∀ x, f (V.str x) = .ok x) :
    (ts.map V.str).mapM f = .ok ts := by
  induction ts with
  | nil => rfl
  | cons t r ih => simp [List.mapM_cons, ih, hf, bind, Outcome.bind, pure]

theorem natChars_zero : natChars 0 = ['0'] := by decide
theorem natChars_one : natChars 1 = ['1'] := by decide

theorem lit_tags_m : Spec.schema.lit "Tags.MarshalXML" 0 = some "," := by decide +kernel
theorem lit_tags_u : Spec.schema.lit "Tags.UnmarshalXML" 0 = some "," := by decide +kernel
theorem lit_pos_m : Spec.schema.lit "Positioning.MarshalXML" 0 = some "%d,%d,%d" := by decide +kernel
theorem lit_pos_u : Spec.schema.lit "Positioning.UnmarshalXML" 0 = some "%d,%d,%t" := by decide +kernel
theorem fmt_pos_m : parseFormat "%d,%d,%d".toList = some [.d 0, .lit ',', .d 0, .lit ',', .d 0] := by decide
theorem fmt_pos_u : parseFormat "%d,%d,%t".toList = some [.d 0, .lit ',', .d 0, .lit ',', .t] := by decide
theorem lit_thr_m : Spec.schema.lit "Threshold.MarshalXML" 0 = some "%d%%" := by decide +kernel
theorem lit_thr_u : Spec.schema.lit "Threshold.UnmarshalXML" 0 = some "%" := by decide +kernel
theorem fmt_thr_m : parseFormat "%d%%".toList = some [.d 0, .lit '%'] := by decide

end TrackVerif.LT.Spec
