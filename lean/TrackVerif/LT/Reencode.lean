import TrackVerif.LT.Structure
/-
  Re-encoding: when every leaf of a value is stable under its codec (`stableOf`), the value the
  decoder returns is marshalled to exactly the same trees as the original.  Core only.
-/
namespace TrackVerif.LT
open TrackVerif TrackVerif.Gen TrackVerif.LT.Xml

theorem stableOf_succ (s : Schema) (f : Nat) (om : Bool) (ty : LtType) (cur v : V) :
    stableOf s (f + 1) om ty cur v =
      (isZero s 8 ty cur &&
      (if om && isEmptyValue (kindOf s 8 ty) v then true
       else match kindOf s 8 ty, v with
       | .ptr _, .nil => true
       | .ptr t', .ptr v' => stableOf s f false t' (ptrTarget s t' cur) v'
       | .ptr _, _ => true
       | k, v => stableRest s (rtOf s f) (stableOf s f) om ty k cur v)) := by
  conv => lhs; unfold stableOf
  congr 1

/-! ### fresh destinations -/

theorem isZero_empty (s : Schema) (g : Nat) (ty : LtType) (cur v : V) (hz : isZero s (g + 1) ty cur = true)
    (he : isEmptyValue (kindOf s 8 ty) v = true) : isEmptyValue (kindOf s 8 ty) cur = true := by
  unfold isZero at hz
  cases hk : kindOf s 8 ty <;> rw [hk] at hz he <;> cases v <;> simp [isEmptyValue] at he <;>
    cases cur <;> simp [isEmptyValue] at hz ⊢ <;> first | exact hz | (left; exact hz) | skip

theorem isZero_ptr (s : Schema) (g : Nat) (ty t' : LtType) (cur : V) (hz : isZero s (g + 1) ty cur = true)
    (hk : kindOf s 8 ty = .ptr t') : cur = .nil := by
  unfold isZero at hz
  rw [hk] at hz
  cases cur <;> simp at hz
  rfl

theorem isZero_slice (s : Schema) (g : Nat) (ty t' : LtType) (cur : V) (hz : isZero s (g + 1) ty cur = true)
    (hk : kindOf s 8 ty = .slice t') : cur = .list [] := by
  unfold isZero at hz
  rw [hk] at hz
  cases cur <;> simp at hz
  rw [hz]

theorem appendTo_list (xs qs : List V) : appendTo (.list xs) qs = .list (xs ++ qs) := by
  induction qs generalizing xs with
  | nil => simp [appendTo]
  | cons q qs ih =>
    have := ih (xs ++ [q])
    simp only [appendTo, List.foldl_cons, itemsOf] at this ⊢
    rw [this]; simp

/-! ### lists -/

theorem mapM_of_AllRel {β γ : Type} (g : β → Outcome γ) {l : List β} {rs : List γ}
    (h : AllRel (fun b r => g b = .ok r) l rs) : l.mapM g = .ok rs := by
  induction h with
  | nil => simp [List.mapM_nil, pure]
  | cons hr _ ih => simp only [List.mapM_cons, bind, Outcome.bind, pure, hr, ih]

theorem AllRel.combine {β γ δ : Type} {R1 : β → γ → Prop} {R2 : β → δ → Prop} {R3 : δ → γ → Prop} {S : β → Prop}
    {l : List β} {rs : List γ} {qs : List δ} (h1 : AllRel R1 l rs) (h2 : AllRel R2 l qs) (hS : ∀ b ∈ l, S b)
    (hc : ∀ b r q, R1 b r → R2 b q → S b → R3 q r) : AllRel R3 qs rs := by
  induction h1 generalizing qs with
  | nil => cases h2; exact AllRel.nil
  | cons hr _ ih =>
    cases h2 with
    | cons hq hqs =>
      exact AllRel.cons (hc _ _ _ hr hq (hS _ (List.mem_cons_self)))
        (ih hqs (fun b hb => hS b (List.mem_cons_of_mem _ hb)))

/-- the selected fields of a struct, marshalled from the decoded field values -/
theorem zip_filter_transfer {γ : Type} (pred : LtField → Bool) (R1 R3 : LtField × V → γ → Prop)
    (R2 : LtField × V × V → V → Prop) (S : LtField × V × V → Prop)
    (hc : ∀ fl x c q r, pred fl = true → R1 (fl, x) r → R2 (fl, c, x) q → S (fl, c, x) → R3 (fl, q) r) :
    ∀ (dfs : List LtField) (fs cs qs : List V) (rs : List γ),
      AllRel R1 ((dfs.zip fs).filter (fun p => pred p.1)) rs →
      AllRel R2 (dfs.zip (cs.zip fs)) qs →
      dfs.length = fs.length → dfs.length = cs.length →
      (∀ p ∈ dfs.zip (cs.zip fs), S p) →
      AllRel R3 ((dfs.zip qs).filter (fun p => pred p.1)) rs
  | [], fs, cs, qs, rs, h1, h2, _, _, _ => by
    simp only [List.zip_nil_left, List.filter_nil] at h1 h2 ⊢
    cases h1; exact AllRel.nil
  | fl :: dfs, fs, cs, qs, rs, h1, h2, hl1, hl2, hS => by
    cases fs with
    | nil => simp at hl1
    | cons x fs =>
      cases cs with
      | nil => simp at hl2
      | cons c cs =>
        simp only [List.zip_cons_cons] at h2 hS
        cases h2 with
        | cons hq hqs =>
          rename_i q qs'
          have ih := zip_filter_transfer pred R1 R3 R2 S hc dfs fs cs qs'
          have hl1' : dfs.length = fs.length := by simpa using hl1
          have hl2' : dfs.length = cs.length := by simpa using hl2
          have hS' : ∀ p ∈ dfs.zip (cs.zip fs), S p := fun p hp => hS p (List.mem_cons_of_mem _ hp)
          simp only [List.zip_cons_cons, List.filter_cons] at h1 ⊢
          cases hp : pred fl with
          | true =>
            simp only [hp, if_true] at h1 ⊢
            cases h1 with
            | cons hr hrs =>
              exact AllRel.cons (hc fl x c q _ hp hr hq (hS _ (List.mem_cons_self)))
                (ih _ hrs hqs hl1' hl2' hS')
          | false =>
            simp only [hp, Bool.false_eq_true, if_false] at h1 ⊢
            exact ih _ h1 hqs hl1' hl2' hS'

/-! ### the marshaller below a non-pointer type -/

theorem marshalTrees_nonptr (s : Schema) (f : Nat) (name : String) (om : Bool) (ty : LtType) (v : V)
    (hnp : ∀ t', kindOf s 8 ty ≠ .ptr t') (hom : (om && isEmptyValue (kindOf s 8 ty) v) = false) :
    marshalTrees s (f + 1) name om ty v = marshalRest s (marshalTrees s f) name om ty (kindOf s 8 ty) v := by
  rw [marshalTrees_succ, hom]
  simp only [Bool.false_eq_true, if_false]
  cases hk : kindOf s 8 ty with
  | ptr t' => exact absurd hk (hnp t')
  | _ => cases v <;> rfl

theorem leafStable_inv (s : Schema) (om : Bool) (ty : LtType) (cur v q : V) (h : leafStable s om ty cur v = true)
    (hq : leafRT s ty cur v = some q) :
    leafText s ty q = leafText s ty v ∧ (om && isEmptyValue (kindOf s 8 ty) q) = false := by
  unfold leafStable at h
  simp only [hq, Bool.and_eq_true, decide_eq_true_eq, Bool.not_eq_true'] at h
  exact h

/-- **re-encoding theorem**: if the marshaller prints `ts` for `v`, the leaf-wise round trip of
    `v` into `cur` is `q`, and `v` is stable (fresh destinations, every leaf prints the same text
    after its round trip and is not newly dropped by `omitempty`), then the marshaller prints the
    same `ts` for `q` -/
theorem reencode_marshal (s : Schema) (hs : SchemaFacts s) :
    ∀ (f : Nat) (name : String) (om : Bool) (ty : LtType) (cur v : V) (ts : List Tree) (q : V),
      marshalTrees s f name om ty v = .ok ts → rtOf s f om ty cur v = some q →
      stableOf s f om ty cur v = true → marshalTrees s f name om ty q = .ok ts
  | 0, name, om, ty, cur, v, ts, q, hm, _, _ => by simp [marshalTrees] at hm
  | f + 1, name, om, ty, cur, v, ts, q, hm, hr, hst => by
    have ih := reencode_marshal s hs f
    have hM := marshalTrees_inv s f name om ty v ts hm
    have hR := rtOf_inv s f om ty cur v q hr
    rw [stableOf_succ, Bool.and_eq_true] at hst
    obtain ⟨hz, hst⟩ := hst
    cases hM with
    | omitted m1 m2 mts =>
      cases hR with
      | omitted _ _ hq =>
        subst mts; subst hq
        rw [marshalTrees_succ, m1, isZero_empty s 7 ty q v hz m2]
        rfl
      | _ => simp_all
    | ptrNil t' mom mk mv mts =>
      cases hR with
      | ptrNil _ _ _ _ hq =>
        subst mts; subst hq
        have := isZero_ptr s 7 ty t' q hz mk
        subst this
        rw [marshalTrees_succ, mk]
        cases om <;> simp [isEmptyValue]
      | omitted r1 r2 _ => simp [r1, r2] at mom
      | ptr _ _ _ _ _ rv _ _ _ => rw [mv] at rv; cases rv
      | custom _ _ hnp _ _ => exact absurd mk (hnp t')
      | slice _ _ _ _ _ rk _ _ _ _ _ => rw [mk] at rk; cases rk
      | struct _ _ _ _ _ _ _ rk _ _ _ _ _ _ _ => rw [mk] at rk; cases rk
      | simple _ _ rs _ => simp [mk, isSimple] at rs
    | ptr t' v' mom mk mv mm =>
      cases hR with
      | ptr t'' v'' q' _ rk rv ro rr hq =>
        rw [mk] at rk; injection rk with rk; subst rk
        rw [mv] at rv; injection rv with rv; subst rv
        subst hq
        rw [mom] at hst
        simp only [Bool.false_eq_true, if_false, mk, mv] at hst
        rw [marshalTrees_succ, mk]
        simp only [isEmptyValue, Bool.and_false, Bool.false_eq_true, if_false]
        exact ih name false t' _ v' ts q' mm rr hst
      | omitted r1 r2 _ => simp [r1, r2] at mom
      | ptrNil _ _ _ rv _ => rw [mv] at rv; cases rv
      | custom _ _ hnp _ _ => exact absurd mk (hnp t')
      | slice _ _ _ _ _ rk _ _ _ _ _ => rw [mk] at rk; cases rk
      | struct _ _ _ _ _ _ _ rk _ _ _ _ _ _ _ => rw [mk] at rk; cases rk
      | simple _ _ rs _ => simp [mk, isSimple] at rs
    | custom n txt mom mnp mc mt mts =>
      cases hR with
      | custom n' _ _ rc rl =>
        subst mts
        have hst' : leafStable s om ty cur v = true := by
          rw [mom] at hst
          simp only [Bool.false_eq_true, if_false] at hst
          cases hk : kindOf s 8 ty with
          | ptr t' => exact absurd hk (mnp t')
          | _ => rw [hk] at hst; cases v <;> simpa [stableRest, mc] using hst
        obtain ⟨h1, h2⟩ := leafStable_inv s om ty cur v q hst' rl
        rw [marshalTrees_nonptr s f name om ty q mnp h2]
        unfold marshalRest
        simp only [mc]
        unfold leafText at h1
        simp only [mc, mt] at h1
        rw [h1]; rfl
      | omitted r1 r2 _ => simp [r1, r2] at mom
      | ptrNil t' _ rk _ _ => exact absurd rk (mnp t')
      | ptr t' _ _ _ rk _ _ _ _ => exact absurd rk (mnp t')
      | slice _ _ _ _ rc _ _ _ _ _ _ => rw [mc] at rc; cases rc
      | struct _ _ _ _ _ _ rc _ _ _ _ _ _ _ _ => rw [mc] at rc; cases rc
      | simple _ rc _ _ => rw [mc] at rc; cases rc
    | simple txt mom mc ms mt mts =>
      have mnp : ∀ t', kindOf s 8 ty ≠ .ptr t' := by
        intro t' e; simp [e, isSimple] at ms
      cases hR with
      | simple _ _ _ rl =>
        subst mts
        have hst' : leafStable s om ty cur v = true := by
          rw [mom] at hst
          simp only [Bool.false_eq_true, if_false] at hst
          cases hk : kindOf s 8 ty with
          | ptr t' => exact absurd hk (mnp t')
          | slice t' => simp [hk, isSimple] at ms
          | structT n => simp [hk, isSimple] at ms
          | _ => rw [hk] at hst; cases v <;> simpa [stableRest, mc] using hst
        obtain ⟨h1, h2⟩ := leafStable_inv s om ty cur v q hst' rl
        rw [marshalTrees_nonptr s f name om ty q mnp h2]
        unfold leafText at h1
        simp only [mc, mt] at h1
        unfold marshalRest
        simp only [mc]
        cases hk : kindOf s 8 ty with
        | ptr t' => exact absurd hk (mnp t')
        | slice t' => simp [hk, isSimple] at ms
        | structT n => simp [hk, isSimple] at ms
        | time => simp [hk, isSimple] at ms
        | unit => simp [hk, isSimple] at ms
        | unknown => simp [hk, isSimple] at ms
        | _ => rw [hk] at h1; cases q <;> simp only [isSimple, if_true, h1] <;> rfl
      | omitted r1 r2 _ => simp [r1, r2] at mom
      | ptrNil t' _ rk _ _ => exact absurd rk (mnp t')
      | ptr t' _ _ _ rk _ _ _ _ => exact absurd rk (mnp t')
      | custom _ _ _ rc _ => rw [mc] at rc; cases rc
      | slice _ _ _ _ _ rk _ _ _ _ _ => simp [rk, isSimple] at ms
      | struct _ _ _ _ _ _ _ rk _ _ _ _ _ _ _ => simp [rk, isSimple] at ms
    | slice t' vs tss mom mc mk mv mall mts =>
      have mnp : ∀ t'', kindOf s 8 ty ≠ .ptr t'' := by intro t'' e; rw [mk] at e; cases e
      cases hR with
      | slice t'' vs' qs _ _ rk rv rany ro rall hq =>
        rw [mk] at rk; injection rk with rk; subst rk
        rw [mv] at rv; injection rv with rv; subst rv
        subst mts
        have hcur := isZero_slice s 7 ty t' cur hz mk
        subst hcur
        rw [appendTo_list] at hq
        simp only [List.nil_append] at hq
        subst hq
        rw [mom] at hst
        simp only [Bool.false_eq_true, if_false, mk, mv, stableRest, mc, List.all_eq_true,
          Bool.and_eq_true] at hst
        have hlen : vs.length = qs.length := rall.length_eq
        have hom' : (om && isEmptyValue (kindOf s 8 ty) (V.list qs)) = false := by
          rw [mk, mv] at mom
          rw [mk]
          cases om with
          | false => rfl
          | true =>
            simp only [isEmptyValue, Bool.true_and, List.isEmpty_eq_false_iff] at mom ⊢
            intro e; subst e
            cases vs with
            | nil => exact mom rfl
            | cons _ _ => simp at hlen
        rw [marshalTrees_nonptr s f name om ty _ mnp hom', mk]
        unfold marshalRest
        simp only [mc]
        have hall : AllRel (fun qi r => marshalTrees s f name om t' qi = .ok r) qs tss := by
          refine AllRel.combine (S := fun e => e ∈ vs) mall rall (fun b hb => hb) ?_
          intro e r qi h1 h2 hmem
          have hany : (om && isEmptyValue (kindOf s 8 t') e) = false := by
            have := List.any_eq_false.mp rany e hmem
            simpa using this
          obtain ⟨hs1, hs2⟩ := hst e hmem
          simp only [h2, Bool.not_eq_true'] at hs2
          cases f with
          | zero => simp [marshalTrees] at h1
          | succ f' =>
            rw [marshal_om_irrelevant s f' name om t' e ro hany] at h1
            have := ih name false t' _ e r qi h1 h2 hs1
            rw [marshal_om_irrelevant s f' name om t' qi ro hs2]
            exact this
        rw [mapM_of_AllRel _ hall]
        rfl
      | omitted r1 r2 _ => simp [r1, r2] at mom
      | ptrNil _ _ rk _ _ => rw [mk] at rk; cases rk
      | ptr _ _ _ _ rk _ _ _ _ => rw [mk] at rk; cases rk
      | custom _ _ _ rc _ => rw [mc] at rc; cases rc
      | struct _ _ _ _ _ _ _ rk _ _ _ _ _ _ _ => rw [mk] at rk; cases rk
      | simple _ _ rs _ => simp [mk, isSimple] at rs
    | struct n fs fields attrs kidss mom mc mk mv mf mlen mattrs mkids mts =>
      have mnp : ∀ t'', kindOf s 8 ty ≠ .ptr t'' := by intro t'' e; rw [mk] at e; cases e
      cases hR with
      | struct n' fs' cs qs fields' _ _ rk rv rcur rf rlen1 rlen2 rall hq =>
        rw [mk] at rk; injection rk with rk; subst rk
        rw [mv] at rv; injection rv with rv; subst rv
        rw [mf] at rf; injection rf with rf; subst rf
        subst rcur; subst hq; subst mts
        rw [mom] at hst
        simp only [Bool.false_eq_true, if_false, mk, mv, stableRest, mc, mf, List.all_eq_true] at hst
        have haf := hs.attr_fields n fields mf
        have hqlen : (dataFields fields).length = qs.length := by
          rw [← rall.length_eq, List.length_zip, List.length_zip]; omega
        have hom' : (om && isEmptyValue (kindOf s 8 ty) (V.struct qs)) = false := by
          rw [mk]; simp [isEmptyValue]
        rw [marshalTrees_nonptr s f name om ty _ mnp hom', mk]
        unfold marshalRest
        simp only [mc, mf, hqlen, ne_eq, not_true_eq_false, if_false]
        have hA : AllRel (fun (p : LtField × V) r => attrOf s p = .ok r)
            (((dataFields fields).zip qs).filter (fun p => (fun (fl : LtField) => fl.attr) p.1)) attrs := by
          refine zip_filter_transfer (fun fl => fl.attr) (fun p r => attrOf s p = .ok r) (fun p r => attrOf s p = .ok r)
            (fun p r => rtField s (rtOf s f) p = some r)
            (fun p => p ∈ (dataFields fields).zip (cs.zip fs) ∧ fieldStable s (stableOf s f) p = true) ?_
            (dataFields fields) fs cs qs attrs mattrs rall mlen rlen2 (fun p hp => ⟨hp, hst p hp⟩)
          intro fl x c qi r hattr h1 h2 ⟨hmem, hS⟩
          obtain ⟨htyp, hom⟩ := haf fl (List.of_mem_zip hmem).1 hattr
          simp only [rtField, hattr, if_true, hom, Bool.false_eq_true, if_false] at h2
          simp only [fieldStable, hattr, if_true] at hS
          obtain ⟨e1, _⟩ := leafStable_inv s false fl.typ c x qi hS h2
          rw [htyp] at e1
          have hk : kindOf s 8 (.basic "int") = .int := rfl
          simp only [leafText, customM, headName, hk] at e1
          simp only [attrOf, hom, Bool.false_and, Bool.false_eq_true, if_false, htyp, hk] at h1 ⊢
          rw [e1]; exact h1
        have hK : AllRel (fun (p : LtField × V) r => marshalTrees s f p.1.xmlName p.1.omitempty p.1.typ p.2 = .ok r)
            (((dataFields fields).zip qs).filter (fun p => (fun (fl : LtField) => !fl.attr) p.1)) kidss := by
          refine zip_filter_transfer (fun fl => !fl.attr)
            (fun p r => marshalTrees s f p.1.xmlName p.1.omitempty p.1.typ p.2 = .ok r)
            (fun p r => marshalTrees s f p.1.xmlName p.1.omitempty p.1.typ p.2 = .ok r)
            (fun p r => rtField s (rtOf s f) p = some r)
            (fun p => fieldStable s (stableOf s f) p = true) ?_
            (dataFields fields) fs cs qs kidss mkids rall mlen rlen2 (fun p hp => hst p hp)
          intro fl x c qi r hattr h1 h2 hS
          have hattr' : fl.attr = false := by simpa using hattr
          simp only [rtField, hattr', Bool.false_eq_true, if_false] at h2
          simp only [fieldStable, hattr', Bool.false_eq_true, if_false] at hS
          exact ih fl.xmlName fl.omitempty fl.typ c x r qi h1 h2 hS
        have e1 := mapM_of_AllRel (attrOf s) hA
        have e2 := mapM_of_AllRel (fun (p : LtField × V) => marshalTrees s f p.1.xmlName p.1.omitempty p.1.typ p.2) hK
        simp only at e1 e2
        simp only [e1, e2, Outcome.bind, Outcome.map]
      | omitted r1 r2 _ => simp [r1, r2] at mom
      | ptrNil _ _ rk _ _ => rw [mk] at rk; cases rk
      | ptr _ _ _ _ rk _ _ _ _ => rw [mk] at rk; cases rk
      | custom _ _ _ rc _ => rw [mc] at rc; cases rc
      | slice _ _ _ _ _ rk _ _ _ _ _ => rw [mk] at rk; cases rk
      | simple _ _ rs _ => simp [mk, isSimple] at rs

end TrackVerif.LT
