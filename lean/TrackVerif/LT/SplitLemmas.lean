import TrackVerif.LT.Schema
/-  Lemmas about `splitOnChar`. Core only. -/
namespace TrackVerif.LT

theorem splitOnChar_ne_nil (c : Char) (s : List Char) : splitOnChar c s ≠ [] := by
  induction s with
  | nil => simp [splitOnChar]
  | cons x xs ih =>
    unfold splitOnChar
    split
    · simp
    · split <;> simp

/-- a piece without the separator is returned whole -/
theorem splitOnChar_none (c : Char) (a : List Char) (h : ∀ x ∈ a, x ≠ c) : splitOnChar c a = [a] := by
  induction a with
  | nil => simp [splitOnChar]
  | cons x xs ih =>
    have hx : x ≠ c := h x (by simp)
    have := ih (fun y hy => h y (by simp [hy]))
    simp [splitOnChar, hx, this]

/-- splitting at the first separator -/
theorem splitOnChar_append (c : Char) (a b : List Char) (h : ∀ x ∈ a, x ≠ c) :
    splitOnChar c (a ++ c :: b) = a :: splitOnChar c b := by
  induction a with
  | nil => simp [splitOnChar]
  | cons x xs ih =>
    have hx : x ≠ c := h x (by simp)
    have := ih (fun y hy => h y (by simp [hy]))
    simp [splitOnChar, hx, this]

end TrackVerif.LT
