/-
  C14 — the encoder's two-goroutine protocol as a labelled transition system.

  Producer = `Encode` (header write, xml encoder writing chunks into an io.Pipe, close, wait for
  the filter's result, optional gzip close).  Consumer = `filter` (reads the pipe through a bufio
  reader, writes every complete line to the output, closes the read side when it stops).
  `io.Pipe` contract: a Write completes only when all its bytes have been read or the read side is
  closed; a Read returns what is available; closing wakes the peer.

  Schedules are arbitrary sequences of enabled (actor, read-size) pairs.  Core only.
-/
namespace TrackVerif.LT.Protocol

inductive PState
  | hdr                 -- about to write the XML header to the output
  | send (offered : Bool) -- writing the chunks of `cs` into the pipe
  | failW               -- a pipe write failed: close the write side, then wait for the filter
  | closeW              -- all chunks written: close the write side
  | wait                -- `<-errs`
  | gz                  -- closing the gzip writer (one more output write)
  | done (ok : Bool)
  | failM               -- the xml encoder itself failed (a value that cannot be marshalled): close the
                        -- write side, wait for the filter, return the error
  deriving DecidableEq, Repr

inductive CState
  | idle | run | exited (ok : Bool)
  deriving DecidableEq, Repr

structure St where
  p : PState
  c : CState
  cs : List Nat          -- chunks not yet handed to the pipe
  avail : Nat            -- bytes of the current chunk sitting in the pipe
  wClosed : Bool
  rClosed : Bool
  pend : Nat             -- bytes read by the filter, not yet written out
  ls : List Nat          -- lengths of the lines not yet written
  wcount : Nat           -- output writes performed so far
  k : Option Nat         -- index of the first failing output write
  gzip : Bool
  failed : Bool          -- an output write has failed
  delivered : Nat        -- document bytes written to the output
  merr : Bool            -- the document cannot be marshalled to the end: after the chunks `cs` the xml
                         -- encoder returns an error of its own
  deriving DecidableEq, Repr

inductive Actor | producer | consumer
  deriving DecidableEq, Repr

def writeFails (s : St) : Bool := s.k == some s.wcount

/-- one step of `a`; `t` is the size of a pipe read (any 1 ≤ t ≤ avail) -/
def step (s : St) (a : Actor) (t : Nat) : Option St :=
  match a, s.p, s.c with
  | .producer, .hdr, _ =>
    if writeFails s then some { s with p := .done false, failed := true, wcount := s.wcount + 1 }
    else some { s with p := .send false, c := .run, wcount := s.wcount + 1 }
  | .producer, .send false, _ =>
    if s.rClosed then some { s with p := .failW }
    else match s.cs with
      | [] => if s.merr then some { s with p := .failM } else some { s with p := .closeW }
      | c :: rest => some { s with p := .send true, avail := c, cs := rest }
  | .producer, .send true, _ =>
    if s.rClosed then some { s with p := .failW, avail := 0 }
    else if s.avail = 0 then some { s with p := .send false }
    else none                                   -- blocked in the pipe write
  | .producer, .failW, _ => some { s with p := .wait, wClosed := true }
  | .producer, .closeW, _ => some { s with p := .wait, wClosed := true }
  | .producer, .failM, _ => some { s with p := .wait, wClosed := true }
  | .producer, .wait, .exited ok =>
    if !ok then some { s with p := .done false }
    else if s.failed then some { s with p := .done false }      -- the xml encoder's own error
    else if s.merr then some { s with p := .done false }        -- the marshalling error
    else if s.gzip then some { s with p := .gz }
    else some { s with p := .done true }
  | .producer, .wait, _ => none                 -- blocked on the channel
  | .producer, .gz, _ =>
    if writeFails s then some { s with p := .done false, failed := true, wcount := s.wcount + 1 }
    else some { s with p := .done true, wcount := s.wcount + 1 }
  | .producer, .done _, _ => none
  | .consumer, _, .run =>
    match s.ls with
    | l :: rest =>
      if l ≤ s.pend then
        -- a complete line: write it
        if writeFails s then
          some { s with c := .exited false, rClosed := true, failed := true, wcount := s.wcount + 1 }
        else some { s with pend := s.pend - l, ls := rest, wcount := s.wcount + 1, delivered := s.delivered + l }
      else if 0 < s.avail then
        if 1 ≤ t ∧ t ≤ s.avail then some { s with avail := s.avail - t, pend := s.pend + t } else none
      else if s.wClosed then
        -- EOF inside the last line: write what is left and stop
        if writeFails s then
          some { s with c := .exited false, rClosed := true, failed := true, wcount := s.wcount + 1 }
        else some { s with c := .exited true, rClosed := true, pend := 0, ls := [], wcount := s.wcount + 1,
                           delivered := s.delivered + s.pend }
      else none                                 -- blocked in the pipe read
    | [] =>
      if 0 < s.avail then
        if 1 ≤ t ∧ t ≤ s.avail then some { s with avail := s.avail - t, pend := s.pend + t } else none
      else if s.wClosed then
        if writeFails s then
          some { s with c := .exited false, rClosed := true, failed := true, wcount := s.wcount + 1 }
        else some { s with c := .exited true, rClosed := true, pend := 0, wcount := s.wcount + 1,
                           delivered := s.delivered + s.pend }
      else none
  | .consumer, _, _ => none

/-- initial state: chunks `cs` carry the document whose lines have lengths `ls` -/
def init (cs ls : List Nat) (k : Option Nat) (gzip : Bool) (merr : Bool := false) : St :=
  { p := .hdr, c := .idle, cs := cs, avail := 0, wClosed := false, rClosed := false, pend := 0, ls := ls,
    wcount := 0, k := k, gzip := gzip, failed := false, delivered := 0, merr := merr }

inductive Reachable (s0 : St) : St → Prop
  | refl : Reachable s0 s0
  | step {s s' a t} : Reachable s0 s → step s a t = some s' → Reachable s0 s'

def Terminal (s : St) : Prop := ∀ a t, step s a t = none

/-! ### Termination: every step decreases a measure -/

def pRank : PState → Nat
  | .hdr => 7 | .send false => 5 | .send true => 6 | .failW => 4 | .closeW => 4 | .failM => 4 | .wait => 3 | .gz => 2 | .done _ => 0

def cRank : CState → Nat
  | .idle => 2 | .run => 1 | .exited _ => 0

/-- bytes weigh 3 while unsent, 2 in the pipe, 1 in the filter's buffer -/
def μ (s : St) : Nat :=
  3 * s.cs.sum + 2 * s.avail + s.pend +
  8 * s.cs.length + pRank s.p + cRank s.c + s.ls.length

/-- every step of every actor, with any read size, strictly decreases μ: no schedule is infinite -/
theorem step_decreases (s s' : St) (a : Actor) (t : Nat) (h : step s a t = some s') : μ s' < μ s := by
  unfold step at h
  cases a <;> rcases hp : s.p with _ | (_ | _) | _ | _ | _ | _ | _ | _ <;> rcases hc : s.c with _ | _ | _ <;>
    simp only [hp, hc] at h <;>
    (repeat' (split at h)) <;>
    first
    | (injection h with h; subst h; simp [μ, pRank, cRank, *] <;> omega)
    | (cases h; done)

/-- one fair schedule: the filter moves whenever it can (reading everything available),
    otherwise the producer -/
def runFair : Nat → St → St
  | 0, s => s
  | fuel + 1, s =>
    match step s .consumer s.avail with
    | some s' => runFair fuel s'
    | none =>
      match step s .producer 0 with
      | some s' => runFair fuel s'
      | none => s

theorem runFair_reachable (s0 : St) : ∀ (fuel : Nat) (s : St), Reachable s0 s → Reachable s0 (runFair fuel s)
  | 0, s, h => h
  | fuel + 1, s, h => by
    unfold runFair
    split
    · rename_i s' hs; exact runFair_reachable s0 fuel s' (Reachable.step h hs)
    · split
      · rename_i s' hs; exact runFair_reachable s0 fuel s' (Reachable.step h hs)
      · exact h

end TrackVerif.LT.Protocol
