import TrackVerif.LT.TextLemmas
import TrackVerif.LT.Spec
import TrackVerif.LT.CodecLemmas
import TrackVerif.LT.XmlLemmas
import TrackVerif.LT.TreeLemmas
import TrackVerif.LT.SpecFacts
import TrackVerif.LT.FixedLemmas
import TrackVerif.Generated.LT
/-
  C13 — Encoded LapTimer files are well-formed XML in LapTimer's field syntax.
  Property theorems only.  PARTIAL: proved here are the schema tie, the header, and the whole
  character-level text pipeline for every text; the tree-level statement (every document of the
  model tokenizes strictly to the expected element structure) and the numeric field grammars
  are decided on every run by the strict tokenizer and the grammar predicates of `Spec`.
-/
namespace TrackVerif.C13
open TrackVerif TrackVerif.LT TrackVerif.LT.Text

/-- the schema regenerated from the source on this run is the one the theorems are about:
    struct fields and tags, named types, every format / scan literal, the replacer pairs -/
theorem schema_matches_spec :
    Gen.LT.extractOk = true ∧ Gen.LT.structs = SpecSchema.structs ∧ Gen.LT.named = SpecSchema.named ∧
    Gen.LT.methodLits = SpecSchema.methodLits ∧ Gen.LT.marshalers = SpecSchema.marshalers ∧
    Gen.LT.unmarshalers = SpecSchema.unmarshalers ∧ Gen.LT.replacer = SpecSchema.replacer ∧
    Gen.LT.cp1252 = SpecSchema.cp1252 := by
  refine ⟨by decide, ?_, ?_, ?_, by decide, by decide, by decide, ?_⟩ <;> decide +kernel

theorem replacer_pairs : pairsOf Spec.schema.replacer = specPairsL := by decide

/-- every document starts with the UTF-8 XML declaration -/
theorem header_first (db : V) (doc : List Char) (h : encodeDoc Spec.schema db = .ok doc) :
    Xml.xmlHeader <+: doc := by
  unfold encodeDoc at h
  split at h
  · cases h
  · rename_i root hr
    generalize marshalValue Spec.schema 64 root false (.named "DB") db = r at h
    cases r <;> simp [Outcome.map] at h
    subst h
    exact List.prefix_append _ _

/-- for EVERY text (any characters at all), what reaches the file after Go's escaping and the
    encoder's replacer is the character-wise LapTimer spelling … -/
theorem text_written_charwise (s : List Char) :
    replaceAll (pairsOf Spec.schema.replacer) (goEscape s) = s.flatMap ltEscapeChar := by
  rw [replacer_pairs]
  have := replace_escape s []
  simpa [replaceAll, replaceFrom] using this

/-- … which a strict XML character-data decoder (five predefined entities, character references,
    XML character range, no raw '<' or '&') accepts and turns back into the original text with
    exactly the characters XML cannot carry substituted — never emitted raw -/
theorem text_survives_a_strict_parser (s : List Char) :
    unescape (replaceAll (pairsOf Spec.schema.replacer) (goEscape s)) = some (substitute s) := by
  rw [text_written_charwise]; exact unescape_ltEscape s

/-- line feeds and tabs are written literally, quotes as the predefined entities -/
theorem lf_tab_literal_quotes_predefined :
    ltEscapeChar '\n' = ['\n'] ∧ ltEscapeChar '\t' = ['\t'] ∧
    ltEscapeChar '"' = ['&', 'q', 'u', 'o', 't', ';'] ∧ ltEscapeChar '\'' = ['&', 'a', 'p', 'o', 's', ';'] := by decide

/-- the same holds in attribute position for the only attribute type in use (integers): digits
    and a sign need no escaping -/
theorem int_text_plain (i : Int) : ∀ c ∈ (toString i).toList, c = '-' ∨ c.isDigit := by
  intro c hc
  cases i with
  | ofNat n =>
    right
    have : (toString (Int.ofNat n)).toList = (Nat.repr n).toList := by simp [toString, Int.repr]
    rw [this, Nat.toList_repr] at hc
    exact Nat.isDigit_of_mem_toDigits (by decide) (by decide) hc
  | negSucc n =>
    have : (toString (Int.negSucc n)).toList = '-' :: (Nat.repr (n + 1)).toList := by
      simp [toString, Int.repr]
    rw [this] at hc
    rcases List.mem_cons.mp hc with h | h
    · left; exact h
    · right; rw [Nat.toList_repr] at h; exact Nat.isDigit_of_mem_toDigits (by decide) (by decide) h

/-- **the whole document**: whatever the marshalled token stream is (any database), the bytes the
    encoder writes — indenting printer with Go escaping, cut into lines, each line run through the
    replacer — are the UTF-8 header followed by the same indented printing with every text and
    attribute value in LapTimer's character spelling; markup and indentation are untouched -/
theorem document_is_laptimer_rendering (db : V) (root : String) (toks : List Xml.XTok)
    (hroot : rootName Spec.schema "DB" = some root)
    (hm : marshalValue Spec.schema 64 root false (.named "DB") db = .ok toks)
    (hok : toks.all Xml.tokOk = true) :
    encodeDoc Spec.schema db = .ok (Xml.xmlHeader ++ Xml.renderLTFrom {} toks) := by
  unfold encodeDoc
  simp only [hroot, hm, Outcome.map, replacer_pairs, Outcome.bind]
  rw [filterDoc_eq_replaceAll]
  have := Xml.replace_render {} toks hok []
  simp only [List.append_nil, replaceFrom] at this
  simp only [replaceAll, Xml.renderToks, this]

/-- **every document is well-formed XML that says what it should**: whenever the marshalled
    stream is an element tree with schema names (checked on every generated database), the bytes
    the encoder writes are the UTF-8 header followed by a body that a strict tokenizer accepts —
    no syntax error, tags properly nested — and that, layout whitespace aside, reads back as
    exactly that tree with every text as a parser must return it (non-XML characters
    substituted, nothing else changed) -/
theorem document_is_wellformed (db : V) (root : String) (t : Xml.Tree) (f : Nat)
    (hroot : rootName Spec.schema "DB" = some root)
    (hm : marshalValue Spec.schema 64 root false (.named "DB") db = .ok (Xml.toksOf t))
    (hok : Xml.treeOk t = true) :
    ∃ body, encodeDoc Spec.schema db = .ok (Xml.xmlHeader ++ body) ∧
      let toks := Xml.nest [] false (Xml.lexBody (f + 1 + (Xml.lexedOf 0 t).length) body)
      toks.any Xml.isBad = false ∧
      Xml.significant toks = Xml.significant (Xml.toksOf (Xml.substTree t)) := by
  refine ⟨Xml.renderLTFrom {} (Xml.toksOf t), ?_, ?_⟩
  · exact document_is_laptimer_rendering db root _ hroot hm (Xml.tokOk_of_treeOk t hok)
  · exact Xml.printed_tree_reads_back t hok f

/-- **every document, no premise**: whatever database the encoder accepts, what it writes is the
    UTF-8 header followed by the indented printing of ONE element tree whose root is
    `LapTimerDB`, whose element and attribute names are all plain schema names, whose attribute
    values are plain integers; a strict tokenizer accepts the body — no syntax error, tags
    properly nested — and, layout whitespace aside, reads it back as exactly that tree with
    every text as a parser must return it.  (The marshaller's walk — struct order, omitempty,
    pointers, slices — is covered: the tree is what `marshalTrees` produced.) -/
theorem every_document_is_wellformed (db : V) (chars : List Char) (f : Nat)
    (h : encodeDoc Spec.schema db = .ok chars) :
    ∃ t, marshalTrees Spec.schema 64 "LapTimerDB" false (.named "DB") db = .ok [t] ∧
      Xml.treeOk t = true ∧ nameOfTree t = "LapTimerDB" ∧
      chars = Xml.xmlHeader ++ Xml.renderTree 0 t ∧
      (let toks := Xml.nest [] false (Xml.lexBody (f + 1 + (Xml.lexedOf 0 t).length) (Xml.renderTree 0 t))
       toks.any Xml.isBad = false ∧
       Xml.significant toks = Xml.significant (Xml.toksOf (Xml.substTree t))) := by
  obtain ⟨t, hm, hok, hname, hc⟩ := encode_renders db chars h
  refine ⟨t, hm, hok, hname, hc, ?_⟩
  have := Xml.printed_tree_reads_back t hok f
  have hr := Xml.render_root t []
  simp only [List.append_nil, Xml.renderLTFrom] at hr
  rw [hr] at this
  exact this

/-! ### Field syntax, for every value -/

/-- every non-negative duration (lap time, intermediate, relative offset) is written MM:SS.cc:
    at least two minute digits (100+ minutes print three), seconds 00–59, two centisecond digits -/
theorem duration_field_syntax (n : Nat) :
    ∃ t, durationString Spec.schema (n : Int) = .ok t ∧ Spec.isDuration t = true := by
  refine ⟨_, Spec.durationString_nonneg n, ?_⟩
  exact Spec.duration_syntax _ _ _ (by omega) (by omega)

/-- every lap date between 1969 and 2068 is written DD-MON-YY,HH:MM:SS with an upper-case month,
    in UTC, whatever location the value carries (the model formats the instant) -/
theorem lapdate_field_syntax (sec : Int) (ns : Nat) (h1 : -31536000 ≤ sec) (h2 : sec ≤ 3124223999) :
    ∃ t, dateString Spec.schema "LapDate.String" sec ns = .ok t ∧ Spec.isLapDate t = true := by
  obtain ⟨hv, _, _⟩ := Time.civilOf_valid sec ns h1 h2
  have hy : ¬ (Time.civilOf sec ns).year < 0 := by have := hv.year_lo; omega
  have hasc : ((Time.formatToks (Time.civilOf sec ns) Time.lapToks).all fun c => decide (c.toNat < 128)) = true :=
    Time.format_lap_ascii _ hv
  have lit : Spec.schema.lit "LapDate.String" 0 = some "02-Jan-06,15:04:05" := by decide +kernel
  refine ⟨Time.toUpperAscii (Time.formatToks (Time.civilOf sec ns) Time.lapToks), ?_, Spec.lapdate_syntax _ hv⟩
  simp only [dateString, lit, Option.bind_some, Time.format, Time.lap_layout, hy, if_false, hasc, if_true]

/-- every finite fixed-decimal field (`Float` = six decimals, `Float0dp`, `Float1dp`, `Float2dp`)
    is written `[-]digits[.p digits]` with exactly its number of decimals, whatever the value:
    the `%.pf` model (whose output is compared with Go's on every generated value) never
    produces an exponent, a missing digit or a bare point -/
theorem fixed_decimal_field_syntax (b : UInt64) (f : Dec.Parts) (hf : Dec.classify b = .finite f) :
    (∃ t, customText Spec.schema "Float" (.flt b) = .ok t ∧ Spec.isFixed 6 t = true) ∧
    (∃ t, customText Spec.schema "Float0dp" (.flt b) = .ok t ∧ Spec.isFixed 0 t = true) ∧
    (∃ t, customText Spec.schema "Float1dp" (.flt b) = .ok t ∧ Spec.isFixed 1 t = true) ∧
    (∃ t, customText Spec.schema "Float2dp" (.flt b) = .ok t ∧ Spec.isFixed 2 t = true) := by
  have l6 : Spec.schema.lit "Float.MarshalXML" 0 = some "%f" := by decide +kernel
  have l0 : Spec.schema.lit "Float0dp.MarshalXML" 0 = some "%.0f" := by decide +kernel
  have l1 : Spec.schema.lit "Float1dp.MarshalXML" 0 = some "%.01f" := by decide +kernel
  have l2 : Spec.schema.lit "Float2dp.MarshalXML" 0 = some "%.02f" := by decide +kernel
  have f6 : Fmt.parseFormat "%f".toList = some [Fmt.Item.f 6] := by decide
  have f0 : Fmt.parseFormat "%.0f".toList = some [Fmt.Item.f 0] := by decide
  have f1 : Fmt.parseFormat "%.01f".toList = some [Fmt.Item.f 1] := by decide
  have f2 : Fmt.parseFormat "%.02f".toList = some [Fmt.Item.f 2] := by decide
  refine ⟨⟨_, ?_, Spec.formatFixed_syntax b 6 f hf⟩, ⟨_, ?_, Spec.formatFixed_syntax b 0 f hf⟩,
    ⟨_, ?_, Spec.formatFixed_syntax b 1 f hf⟩, ⟨_, ?_, Spec.formatFixed_syntax b 2 f hf⟩⟩
  · simp only [customText, l6, ofOpt, Option.bind_some, Fmt.sprintf, f6, Fmt.sprintfItems, Option.map_some, List.append_nil]
  · simp only [customText, l0, ofOpt, Option.bind_some, Fmt.sprintf, f0, Fmt.sprintfItems, Option.map_some, List.append_nil]
  · simp only [customText, l1, ofOpt, Option.bind_some, Fmt.sprintf, f1, Fmt.sprintfItems, Option.map_some, List.append_nil]
  · simp only [customText, l2, ofOpt, Option.bind_some, Fmt.sprintf, f2, Fmt.sprintfItems, Option.map_some, List.append_nil]

/-- every finite coordinate is written `lat,lon` (acceleration blocks) or `lat,lon,alt` (fixes)
    with eight decimals for the angles and one for the altitude -/
theorem coordinate_field_syntax (la lo al : UInt64) (fa fo fl : Dec.Parts) (ha : Dec.classify la = .finite fa)
    (ho : Dec.classify lo = .finite fo) (hl : Dec.classify al = .finite fl) :
    (∃ t, customText Spec.schema "Coordinate" (.struct [.flt la, .flt lo]) = .ok t ∧ Spec.isCoord2 t = true) ∧
    (∃ t, customText Spec.schema "AltitudeCoordinate" (.struct [.struct [.flt la, .flt lo], .flt al]) = .ok t ∧
      Spec.isCoord3 t = true) := by
  have l2 : Spec.schema.lit "Coordinate.MarshalXML" 0 = some "%.08f,%.08f" := by decide +kernel
  have l3 : Spec.schema.lit "AltitudeCoordinate.MarshalXML" 0 = some "%.08f,%.08f,%.1f" := by decide +kernel
  have f2 : Fmt.parseFormat "%.08f,%.08f".toList = some [Fmt.Item.f 8, .lit ',', .f 8] := by decide
  have f3 : Fmt.parseFormat "%.08f,%.08f,%.1f".toList = some [Fmt.Item.f 8, .lit ',', .f 8, .lit ',', .f 1] := by decide
  refine ⟨⟨_, ?_, Spec.coord2_syntax la lo fa fo ha ho⟩, ⟨_, ?_, Spec.coord3_syntax la lo al fa fo fl ha ho hl⟩⟩
  · simp only [customText, l2, ofOpt, Option.bind_some, Fmt.sprintf, f2, Fmt.sprintfItems, Option.map_some,
      List.append_nil, List.cons_append, List.nil_append]
  · simp only [customText, l3, ofOpt, Option.bind_some, Fmt.sprintf, f3, Fmt.sprintfItems, Option.map_some,
      List.append_nil, List.cons_append, List.nil_append]

/-- every positioning triple is written `int,int,0|1` -/
theorem positioning_field_syntax (d p : Int) (i : Bool) :
    ∃ t, customText Spec.schema "Positioning" (.struct [.int d, .int p, .bool i]) = .ok t ∧
      Spec.isPositioning t = true := by
  have l : Spec.schema.lit "Positioning.MarshalXML" 0 = some "%d,%d,%d" := by decide +kernel
  have f : Fmt.parseFormat "%d,%d,%d".toList = some [Fmt.Item.d 0, .lit ',', .d 0, .lit ',', .d 0] := by decide
  refine ⟨_, ?_, Spec.positioning_syntax d p i⟩
  simp only [customText, l, ofOpt, Option.bind_some, Fmt.sprintf, f, Fmt.sprintfItems, Option.map_some,
    List.append_nil, List.cons_append, List.nil_append]

/-- every relative offset (finite distance, non-negative duration) is written `d.d,MM:SS.cc` -/
theorem relative_to_start_field_syntax (b : UInt64) (f : Dec.Parts) (hf : Dec.classify b = .finite f) (n : Nat) :
    ∃ t, customText Spec.schema "RelativeToStart" (.struct [.flt b, .int (n : Int)]) = .ok t ∧
      Spec.isRelToStart t = true := by
  have l : Spec.schema.lit "RelativeToStart.MarshalXML" 0 = some "%.1f,%s" := by decide +kernel
  have fm : Fmt.parseFormat "%.1f,%s".toList = some [Fmt.Item.f 1, .lit ',', .s] := by decide
  refine ⟨_, ?_, Spec.relToStart_syntax b f hf (n / 60000000000) (n % 60000000000 / 1000000000)
    (n % 1000000000 / 10000000) (by omega) (by omega)⟩
  simp only [customText, Spec.durationString_nonneg, bind, Outcome.bind, l, ofOpt, Option.bind_some, Fmt.sprintf, fm,
    Fmt.sprintfItems, Option.map_some, List.append_nil, List.cons_append, List.nil_append]

/-- every fix date between 1969 and 2068 is written DD-MON-YY,HH:MM:SS.cc (upper-case month, UTC,
    centiseconds) -/
theorem fixdate_field_syntax (sec : Int) (ns : Nat) (h1 : -31536000 ≤ sec) (h2 : sec ≤ 3124223999)
    (hns : ns < 1000000000) :
    ∃ t, dateString Spec.schema "FixDate.String" sec ns = .ok t ∧ Spec.isFixDate t = true := by
  obtain ⟨hv, _, hn⟩ := Time.civilOf_valid sec ns h1 h2
  have hy : ¬ (Time.civilOf sec ns).year < 0 := by have := hv.year_lo; omega
  have hns' : (Time.civilOf sec ns).ns < 1000000000 := by rw [hn]; exact hns
  have hasc : ((Time.formatToks (Time.civilOf sec ns) Time.fixToks).all fun c => decide (c.toNat < 128)) = true :=
    Time.format_fix_ascii _ hv hns'
  have lit : Spec.schema.lit "FixDate.String" 0 = some "02-Jan-06,15:04:05.00" := by decide +kernel
  refine ⟨Time.toUpperAscii (Time.formatToks (Time.civilOf sec ns) Time.fixToks), ?_, Spec.fixdate_syntax _ hv hns'⟩
  simp only [dateString, lit, Option.bind_some, Time.format, Time.fix_layout, hy, if_false, hasc, if_true]

theorem mapM_map_ok {α β γ : Type} (g : β → Outcome γ) (mk : α → β) (h : α → γ) (l : List α)
    (hp : ∀ a ∈ l, g (mk a) = .ok (h a)) : (l.map mk).mapM g = .ok (l.map h) := by
  induction l with
  | nil => rfl
  | cons a r ih =>
    simp only [List.map_cons, List.mapM_cons, bind, Outcome.bind, pure, hp a (List.mem_cons_self),
      ih (fun x hx => hp x (List.mem_cons_of_mem _ hx))]

/-- the value of an intermediates element: (time, distance) items -/
def interItems (its : List (Nat × UInt64)) : List V :=
  its.map fun it => V.struct [.int (it.1 : Int), .flt it.2]

def interLineOf (it : Nat × UInt64) : List Char :=
  Spec.interLine (it.1 / 60000000000) (it.1 % 60000000000 / 1000000000) (it.1 % 1000000000 / 10000000) it.2

/-- every non-empty list of intermediates (non-negative times, finite distances) is written one
    `MM:SS.cc,d.d` per indented line followed by the closing indentation -/
theorem intermediates_field_syntax (its : List (Nat × UInt64)) (hne : its ≠ [])
    (hfin : ∀ it ∈ its, ∃ f, Dec.classify it.2 = .finite f) :
    ∃ t, customText Spec.schema "Intermediates" (.list (interItems its)) = .ok t ∧ Spec.isIntermediates t = true := by
  have l1 : Spec.schema.lit "Intermediates.MarshalXML" 1 = some "\n\t\t\t%s,%.1f" := by decide +kernel
  have l2 : Spec.schema.lit "Intermediates.MarshalXML" 2 = some "\n\t\t" := by decide +kernel
  have fm : Fmt.parseFormat "\n\t\t\t%s,%.1f".toList =
      some [Fmt.Item.lit '\n', .lit '\t', .lit '\t', .lit '\t', .s, .lit ',', .f 1] := by decide
  have hempty : (interItems its).isEmpty = false := by
    cases its with
    | nil => exact absurd rfl hne
    | cons _ _ => rfl
  refine ⟨Spec.interText (its.map interLineOf), ?_, ?_⟩
  · simp only [customText, l1, l2, ofOpt, bind, Outcome.bind, hempty, Bool.false_eq_true, if_false]
    unfold interItems
    rw [mapM_map_ok _ _ (fun it => '\n' :: Spec.tab3 (interLineOf it))]
    · simp only [Spec.interText, List.map_map, Function.comp_def]
      have : "\n\t\t".toList = ['\n', '\t', '\t'] := by decide
      rw [this]
    · intro it _
      simp only [Spec.durationString_nonneg, Fmt.sprintf, fm, Option.bind_some, Fmt.sprintfItems, Option.map_some,
        List.append_nil]
      simp [interLineOf, Spec.interLine, Spec.tab3]
  · apply Spec.intermediates_syntax
    · cases its with
      | nil => exact absurd rfl hne
      | cons _ _ => simp
    · intro l hl
      obtain ⟨it, hit, e⟩ := List.mem_map.mp hl
      obtain ⟨f, hf⟩ := hfin it hit
      rw [← e]
      exact Spec.interLine_good _ _ _ _ f hf (by omega) (by omega)

/-- non-vacuity / regression witness: the text that exposed `&quote;` -/
example : unescape (replaceAll (pairsOf Spec.schema.replacer) (goEscape ['a', '"', 'b'])) = some ['a', '"', 'b'] := by
  decide

end TrackVerif.C13
