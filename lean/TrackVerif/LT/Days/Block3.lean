import TrackVerif.LT.Days.Def
namespace TrackVerif.LT.Time
set_option maxRecDepth 100000 in
theorem block3_ok : blockOk 18400 9200 = true := by decide +kernel
end TrackVerif.LT.Time
