import TrackVerif.LT.Time
/-  Kernel-evaluated check of the civil-calendar algorithms over a block of day numbers
    (1969-01-01 is day -365, 2068-12-31 is day 36159): year range, month/day validity and
    days_from_civil ∘ civil_from_days = id.  Split over four modules so that they build in parallel. -/
namespace TrackVerif.LT.Time

/-- day number `i - 365` passes: civil fields valid, within 1969..2068, and it maps back -/
def dayOk (i : Nat) : Bool :=
  let z : Int := (i : Int) - 365
  let c := civilFromDays z
  decide (1969 ≤ c.1) && decide (c.1 ≤ 2068) && decide (1 ≤ c.2.1) && decide (c.2.1 ≤ 12) && decide (1 ≤ c.2.2) &&
    decide (c.2.2 ≤ daysIn c.1 c.2.1) && decide (daysFromCivil c.1 c.2.1 c.2.2 = z)

def blockOk (lo n : Nat) : Bool := (List.range n).all fun k => dayOk (lo + k)

end TrackVerif.LT.Time
