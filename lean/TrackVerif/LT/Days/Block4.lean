import TrackVerif.LT.Days.Def
namespace TrackVerif.LT.Time
set_option maxRecDepth 100000 in
theorem block4_ok : blockOk 27600 8925 = true := by decide +kernel
end TrackVerif.LT.Time
