import TrackVerif.LT.RTInv
/-  One-step computation rules of `unmarshalNode`, by the kind of the destination type.  Core only. -/
namespace TrackVerif.LT
open TrackVerif TrackVerif.Gen TrackVerif.LT.Xml

theorem unmarshalNode_succ (s : Schema) (f : Nat) (ty : LtType) (cur : V) (attrs : List (String × List Char))
    (kids : List Node) :
    unmarshalNode s (f + 1) ty cur attrs kids =
      match kindOf s 8 ty with
      | .ptr t' =>
        (unmarshalNode s f t' (match cur with | .ptr v => v | _ => zeroOf s 8 t') attrs kids).map V.ptr
      | k =>
        match customU s ty with
        | some n => customParse s n cur (Xml.textOf kids)
        | none =>
          match k with
          | .slice t' =>
            (unmarshalNode s f t' (zeroOf s 8 t') attrs kids).map fun v =>
              V.list ((match cur with | .list xs => xs | _ => []) ++ [v])
          | .structT n =>
            (match s.fieldsOf n, cur with
             | some fields, .struct fs0 =>
               (attrs.foldlM (attrStep s (dataFields fields)) fs0).bind fun fs1 =>
                 (kids.foldlM (kidStep (unmarshalNode s f) (dataFields fields)) fs1).map V.struct
             | _, _ => .unmodelled)
          | .int | .float | .bool | .string => copyValue k (Xml.textOf kids)
          | _ => .unmodelled := by
  conv => lhs; unfold unmarshalNode
  simp only [customU]
  cases kindOf s 8 ty <;> (try rfl) <;> (cases headName ty <;> (try rfl) <;> (split <;> rfl))

theorem unmarshal_ptr (s : Schema) (f : Nat) (ty t' : LtType) (cur : V) (attrs : List (String × List Char))
    (kids : List Node) (hk : kindOf s 8 ty = .ptr t') :
    unmarshalNode s (f + 1) ty cur attrs kids =
      (unmarshalNode s f t' (ptrTarget s t' cur) attrs kids).map V.ptr := by
  rw [unmarshalNode_succ, hk]
  cases cur <;> rfl

/-- a leaf destination: custom parser, or a plain scalar -/
theorem unmarshal_leaf (s : Schema) (f : Nat) (ty : LtType) (cur : V) (attrs : List (String × List Char))
    (kids : List Node) (hnp : ∀ t', kindOf s 8 ty ≠ .ptr t')
    (hl : (customU s ty).isSome = true ∨ isSimple (kindOf s 8 ty) = true) :
    unmarshalNode s (f + 1) ty cur attrs kids = leafParse s ty cur (Xml.textOf kids) := by
  rw [unmarshalNode_succ]
  unfold leafParse
  cases hk : kindOf s 8 ty with
  | ptr t' => exact absurd hk (hnp t')
  | _ =>
    all_goals (
      cases hc : customU s ty with
      | some n => rfl
      | none =>
        simp only [hc, Option.isSome_none, Bool.false_eq_true, false_or, hk] at hl
        first | rfl | (simp [isSimple] at hl))

theorem unmarshal_slice (s : Schema) (f : Nat) (ty t' : LtType) (cur : V) (attrs : List (String × List Char))
    (kids : List Node) (hk : kindOf s 8 ty = .slice t') (hc : customU s ty = none) :
    unmarshalNode s (f + 1) ty cur attrs kids =
      (unmarshalNode s f t' (zeroOf s 8 t') attrs kids).map fun v => V.list (itemsOf cur ++ [v]) := by
  rw [unmarshalNode_succ, hk]
  simp only [hc]
  cases cur <;> rfl

theorem unmarshal_struct (s : Schema) (f : Nat) (ty : LtType) (n : String) (fields : List LtField) (fs0 : List V)
    (attrs : List (String × List Char)) (kids : List Node)
    (hk : kindOf s 8 ty = .structT n) (hc : customU s ty = none) (hf : s.fieldsOf n = some fields) :
    unmarshalNode s (f + 1) ty (.struct fs0) attrs kids =
      (attrs.foldlM (attrStep s (dataFields fields)) fs0).bind fun fs1 =>
        (kids.foldlM (kidStep (unmarshalNode s f) (dataFields fields)) fs1).map V.struct := by
  rw [unmarshalNode_succ, hk]
  simp only [hc, hf]

end TrackVerif.LT
