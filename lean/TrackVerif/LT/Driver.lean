import TrackVerif.Common.Proto
import TrackVerif.LT.Protocol
import TrackVerif.LT.ProtocolCount
import TrackVerif.LT.Schema
import TrackVerif.LT.Spec
import TrackVerif.LT.Tree
import TrackVerif.LT.RT
import TrackVerif.Generated.LT
/-
  Line-protocol side of the LapTimer area.

    LT run laps=<n> pad=<n> k=<k|-> gz=0|1 procs=<n> yield=0|1
        => hang | ret=<ok|err> W=<fault-free writes> lines=<complete lines> total=<bytes>
           delivered=<bytes> same=<0|1 prefix/complete> leaked=<n>
-/
namespace TrackVerif.LT.Driver
open TrackVerif Proto LT.Protocol TrackVerif.Gen TrackVerif.LT

def field (toks : List String) (k : String) : Option String :=
  (toks.find? (·.startsWith (k ++ "="))).map fun t => (t.drop (k.length + 1)).toString

/-- run the abstract protocol to completion under a fixed fair schedule -/
def runModel (fuel : Nat) (s : St) : St :=
  match fuel with
  | 0 => s
  | fuel + 1 =>
    match step s .consumer s.avail with
    | some s' => runModel fuel s'
    | none =>
      match step s .producer 0 with
      | some s' => runModel fuel s'
      | none => s

def handleRun (toks impl : List String) : String :=
  if impl = ["hang"] then "VIOL clause=lt.returns" else
  if impl = ["hang-skipped"] then "SKIP reason=after-three-hangs" else
  if impl.head? = some "panic" then "VIOL clause=lt.no_crash" else
  match (field toks "k"), (field toks "gz"), (field impl "ret"), (field impl "W").bind nat?,
        (field impl "lines").bind nat?, (field impl "total").bind nat?, (field impl "delivered").bind nat?,
        (field impl "same"), (field impl "leaked").bind nat? with
  | some k, some gz, some ret, some w, some lines, some total, some delivered, some same, some leaked =>
    let kk : Option Nat := if k == "-" then none else k.toNat?
    -- the document cannot be marshalled to the end (older case lines have no such field)
    let mf : Bool := (field toks "mf") == some "1"
    let late : Nat := ((field impl "late").bind nat?).getD 0
    let outFails : Bool := match kk with | some j => decide (j < w) | none => false
    let shouldFail : Bool := outFails || mf
    if leaked > 0 then s!"VIOL clause=lt.no_leak leaked={leaked}"
    else if late > 0 then s!"VIOL clause=lt.quiescent late={late}"
    else if shouldFail && ret != "err" then
      (if outFails then "VIOL clause=lt.fault_reported" else "VIOL clause=lt.marshal_error_reported")
    else if !shouldFail && ret != "ok" then "VIOL clause=lt.spurious_error"
    else if !outFails && (delivered != total || same != "1") then "VIOL clause=lt.complete"
    else if !shouldFail && (field impl "complete") == some "0" then "VIOL clause=lt.complete why=gzip-stream-unfinished"
    else if (field impl "content") == some "0" then "VIOL clause=lt.complete why=not-the-document"
    else if same != "1" then "VIOL clause=lt.prefix"
    else
      -- correspondence with the abstract protocol (plain output: one output write per filter write)
      if gz == "1" then "OK nt=1" else
      let ls := List.replicate lines 1         -- line lengths are irrelevant to the outcome
      let s0 := init [lines + 1] ls kk false mf
      let fin := runModel (20 * (lines + 8)) s0
      let mRet := match fin.p with | .done true => "ok" | .done false => "err" | _ => "stuck"
      if totalWrites ls false != w then s!"CORR clause=lt.write_count model={totalWrites ls false} impl={w}"
      else if mRet != ret then s!"CORR clause=lt.protocol_model model={mRet}"
      else if fin.c == .run then "CORR clause=lt.protocol_model model=filter-running"
      else "OK nt=1"
  | _, _, _, _, _, _, _, _, _ => "BAD"

/-! ### Values over the protocol -/

def genSchema : Schema :=
  { structs := Gen.LT.structs, named := Gen.LT.named, methodLits := Gen.LT.methodLits,
    marshalers := Gen.LT.marshalers, unmarshalers := Gen.LT.unmarshalers, replacer := Gen.LT.replacer }

/-- Go string bytes → runes the way `range` / EscapeText see them: an invalid byte is U+FFFD -/
def goRunes : Nat → List UInt8 → List Char
  | 0, _ => []
  | _, [] => []
  | fuel + 1, b :: bs =>
    let n := b.toNat
    let cont (x : UInt8) : Option Nat := if x.toNat / 64 = 2 then some (x.toNat % 64) else none
    let bad := Text.replacementChar :: goRunes fuel bs
    if n < 0x80 then Char.ofNat n :: goRunes fuel bs
    else if 0xC2 ≤ n ∧ n < 0xE0 then
      match bs with
      | b1 :: r => (match cont b1 with | some c1 => Char.ofNat ((n % 32) * 64 + c1) :: goRunes fuel r | none => bad)
      | _ => bad
    else if 0xE0 ≤ n ∧ n < 0xF0 then
      match bs with
      | b1 :: b2 :: r =>
        (match cont b1, cont b2 with
         | some c1, some c2 =>
           let v := (n % 16) * 4096 + c1 * 64 + c2
           if v < 0x800 ∨ (0xD800 ≤ v ∧ v ≤ 0xDFFF) then bad else Char.ofNat v :: goRunes fuel r
         | _, _ => bad)
      | _ => bad
    else if 0xF0 ≤ n ∧ n < 0xF5 then
      match bs with
      | b1 :: b2 :: b3 :: r =>
        (match cont b1, cont b2, cont b3 with
         | some c1, some c2, some c3 =>
           let v := (n % 8) * 262144 + c1 * 4096 + c2 * 64 + c3
           if v < 0x10000 ∨ v > 0x10FFFF then bad else Char.ofNat v :: goRunes fuel r
         | _, _, _ => bad)
      | _ => bad
    else bad

/-- parse the reflection dump -/
partial def parseV : List String → Option (V × List String)
  | [] => none
  | t :: rest =>
    if t == "(" then parseSeq rest ")" [] |>.map fun (vs, r) => (V.struct vs, r)
    else if t == "[" then parseSeq rest "]" [] |>.map fun (vs, r) => (V.list vs, r)
    else if t == "N" then some (.nil, rest)
    else if t == "P" then (parseV rest).map fun (v, r) => (V.ptr v, r)
    else if t.startsWith "s" then
      let h := (t.drop 1).toString
      (bytesOfHex h).map fun bs => (V.str (goRunes (bs.length + 1) bs), rest)
    else if t.startsWith "i" then ((t.drop 1).toString.toInt?).map fun i => (V.int i, rest)
    else if t.startsWith "f" then (natOfHex? (t.drop 1).toString).map fun n => (V.flt (UInt64.ofNat n), rest)
    else if t == "b0" then some (.bool false, rest)
    else if t == "b1" then some (.bool true, rest)
    else if t.startsWith "t" then
      match (((t.drop 1).toString.splitOn "z").headD "").splitOn "." with
      | [a, b] => (a.toInt?).bind fun sec => (b.toNat?).map fun ns => (V.time sec ns, rest)
      | _ => none
    else none
where
  parseSeq (toks : List String) (close : String) (acc : List V) : Option (List V × List String) :=
    match toks with
    | [] => none
    | t :: r => if t == close then some (acc.reverse, r) else
      match parseV toks with
      | some (v, r') => parseSeq r' close (v :: acc)
      | none => none

/-- canonical dump for comparison with the implementation's decoded value; strings are compared
    as rune sequences (hex of their UTF-8) -/
partial def dumpV : V → String
  | .int i => s!"i{i}"
  | .flt b => "f" ++ hexOfNat 16 b.toNat
  | .str s => "s" ++ hexOfString (String.ofList s)
  | .bool b => if b then "b1" else "b0"
  | .time sec ns => s!"t{sec}.{ns}z0"
  | .nil => "N"
  | .ptr v => "P/" ++ dumpV v
  | .list vs => String.intercalate "/" (["["] ++ vs.map dumpV ++ ["]"])
  | .struct fs => String.intercalate "/" (["("] ++ fs.map dumpV ++ [")"])

def charsToHex (cs : List Char) : String := hexOfString (String.ofList cs)

/-- an omitempty fixed-decimal field whose value is not zero but prints as zero: the recorded
    re-encoding finding -/
partial def roundsToZero (s : Schema) (ty : LtType) (om : Bool) (v : V) : Bool :=
  match kindOf s 8 ty, v with
  | .ptr t', .ptr v' => roundsToZero s t' false v'
  | .slice t', .list vs => vs.any (roundsToZero s t' om)
  | .structT n, .struct fs =>
    (match headName ty with
     | some h => if s.marshalers.contains h then false else
        ((dataFields ((s.fieldsOf n).getD [])).zip fs).any fun (f, fv) => roundsToZero s f.typ f.omitempty fv
     | none => false)
  | .float, .flt b =>
    om && b != 0 && b != 0x8000000000000000 && (match (headName ty).bind Spec.fixedPrec with
      | some p => (match Dec.fixedQ b p with | some (_, n) => n == 0 | none => false)
      | none => false)
  | _, _ => false

/-- -0.0 and 0.0 are the same number: the round-trip claim is about values -/
def negZeroAsZero (d : String) : String := d.replace "f8000000000000000" "f0000000000000000"

/-- C13 on the encoder's bytes: header, strict well-formedness with the expected content,
    literal line feeds / tabs, field grammars, gzip -/
def c13Verdict (db : V) (encB : List UInt8) (gz : String) : Option String :=
  let dbT : LtType := .named "DB"
  match utf8Decode (encB.length + 1) encB with
  | none => some "VIOL clause=lt.wellformed why=invalid-utf8"
  | some chars =>
    match Text.stripPrefix? Xml.xmlHeader chars with
    | none => some "VIOL clause=lt.header"
    | some body =>
      -- the strict tokenizer shares nothing with the printer
      let toks := Xml.nest [] false (Xml.lexBody (body.length + 2) body)
      if toks.any (fun t => match t with | .bad _ => true | _ => false) then some "VIOL clause=lt.wellformed why=not-xml" else
      -- what the document must say, from the declarative schema: structure and texts
      match marshalValue Spec.schema 64 "LapTimerDB" false dbT db with
      | .ok want =>
        -- premise of `document_is_laptimer_rendering`: names without '&'
        -- premise of `document_is_wellformed`: the stream is an element tree with schema names
        if !(match Xml.treeOfToks want with | some t => Xml.treeOk t | none => false) then
          some "SKIP reason=stream-is-not-a-schema-tree" else
        let wantSig := Xml.significant (want.map fun t => match t with
          | .text s => Xml.XTok.text (Text.substitute s)
          | .start n as => .start n (as.map fun (k, v) => (k, Text.substitute v))
          | t => t)
        let gotSig := Xml.significant toks
        if gotSig != wantSig then
          let firstDiff := ((gotSig.zip wantSig).find? fun (a, b) => a != b)
          some s!"VIOL clause=lt.wellformed why=content-differs lens={gotSig.length},{wantSig.length} first={(repr firstDiff).pretty.take 300}"
        else if Fmt.sscanfContains body "&#xA;".toList ∨ Fmt.sscanfContains body "&#x9;".toList then
          some "VIOL clause=lt.literal_ws"
        else match Spec.checkGrammar [] gotSig with
        | some (n, t) => some s!"VIOL clause=lt.field_syntax elem={n} text={charsToHex t}"
        | none => if gz != "ok" then some s!"VIOL clause=lt.gzip got={gz}" else none
      | _ => some "SKIP reason=marshal-unmodelled"

/-- the recorded re-encoding finding explains a differing second encoding only if that second
    encoding is exactly what the model of the code (defect included) predicts from the first one;
    anything else is a different violation, even in a database that also has such a field -/
def reencodeVerdict (db : V) (encB : List UInt8) (enc2S : String) : String :=
  let dbT : LtType := .named "DB"
  let predicted : Option (List UInt8) :=
    match decodeDoc genSchema Gen.LT.cp1252 encB with
    | .ok d => (match encodeDoc genSchema d with
        | .ok chars => some (chars.flatMap utf8Enc)
        | _ => none)
    | _ => none
  if roundsToZero Spec.schema dbT false db && predicted.isSome && predicted == bytesOfHex enc2S then
    "VIOL clause=lt.reencode tag=omitempty-rounds-to-zero"
  else "VIOL clause=lt.reencode"

/-- C01 on the implementation's own encode → decode → encode -/
def c01Verdict (inDomain : Bool) (db : V) (encB : List UInt8) (decS enc2S gz cp : String) : Option String :=
  let dbT : LtType := .named "DB"
  if !inDomain then
    -- values beyond the format's precision: "the same up to the stated precision" is not compared
    -- (the generator also leaves the representable domain here), but a database that decodes must
    -- still re-encode to the same bytes
    (match Spec.quant Spec.schema 64 dbT db with
     | none => none
     | some _ =>
       if decS != "err" && enc2S != "same" && enc2S != "err" && enc2S != "-" then
         some (reencodeVerdict db encB enc2S)
       else none)
  else
  match Spec.quant Spec.schema 64 dbT db with
  | none => none                      -- the generator left the domain: nothing is claimed
  | some q =>
    if decS == "err" then some "VIOL clause=lt.decode_own"
    else if negZeroAsZero decS != negZeroAsZero (dumpV q) then some "VIOL clause=lt.roundtrip"
    else if enc2S != "same" then some (reencodeVerdict db encB enc2S)
    else if cp == "differs" ∨ cp == "err" then some "VIOL clause=lt.cp1252"
    else if gz != "ok" then some s!"VIOL clause=lt.gzip_rt got={gz}"
    else none

def handleRt (toks impl : List String) : String :=
  match toks with
  | pflag :: dflag :: vtoks =>
    match parseV vtoks with
    | some (db, []) =>
      if impl.head? = some "panic" then "VIOL clause=lt.no_crash" else
      if impl == ["encerr"] then "VIOL clause=lt.encode_fails" else
      match (field impl "enc").bind bytesOfHex, field impl "dec", field impl "enc2", field impl "gz", field impl "cp" with
      | some encB, some decS, some enc2S, some gz, some cp =>
        let inDomain := dflag == "D=1"
        let v13 := c13Verdict db encB gz
        let v01 := c01Verdict inDomain db encB decS enc2S gz cp
        -- the property the run serves reports its own clauses first
        -- every document an encoder writes: also the second one
        let again := (field impl "again").getD "same"
        let v13 := v13.orElse fun _ => if again != "same" then some s!"VIOL clause=lt.second_document got={again}" else none
        -- (a C13 run does not stop at C01's clauses — C01's own run reports those — so that the model
        -- correspondence below is evaluated for every case it serves)
        let first := if pflag == "P=C01" then v01.orElse (fun _ => v13) else v13
        match first with
        | some v => v
        | none =>
          -- correspondence of the executable model with the implementation
          let mEnc := encodeDoc genSchema db
          let mDec := decodeDoc genSchema Gen.LT.cp1252 encB
          let specEnc := encodeDoc Spec.schema db
          match mEnc, utf8Decode (encB.length + 1) encB with
          | .ok m, some chars =>
            if m != chars then "CORR clause=lt.encode_model"
            else if m.flatMap utf8Enc != encB then "CORR clause=lt.utf8_model"
            else if (match specEnc with | .ok e => e != m | _ => true) then "CORR clause=lt.gen_schema"
            else match mDec with
              | .ok d =>
                if dumpV d != decS then s!"CORR clause=lt.decode_model model={(dumpV d).take 300}"
                else
                  -- the leaf-wise round trip of the structure theorem must give the same value
                  match rtOf Spec.schema 64 false (.named "DB") (zeroOf Spec.schema 8 (.named "DB")) db with
                  | some q =>
                    if dumpV q != decS then s!"CORR clause=lt.rt_model rt={(dumpV q).take 300}" else
                    -- premise of `reencode_stable`: when it holds the second encoding must be the same
                    let st := stableOf Spec.schema 64 false (.named "DB") (zeroOf Spec.schema 8 (.named "DB")) db
                    if st && enc2S != "same" then "CORR clause=lt.stable_model"
                    else s!"OK nt=1 dom={dflag} rt=1 st={if st then 1 else 0} same={if enc2S == "same" then 1 else 0}"
                  | none => s!"OK nt=1 dom={dflag} rt=0"
              | .err _ => if decS == "err" then s!"OK nt=1 dom={dflag}" else "CORR clause=lt.decode_model model=err"
              | .unmodelled => "SKIP reason=decode-unmodelled"
              | .panic _ => "BAD"
          | .unmodelled, _ => "SKIP reason=encode-unmodelled"
          | _, _ => "CORR clause=lt.encode_model model=err"
      | _, _, _, _, _ => "BAD"
    | _ => "BAD"
  | _ => "BAD"

def handleDec (hex : String) (impl : List String) : String :=
  match bytesOfHex hex with
  | none => "BAD"
  | some bs =>
    if impl.head? = some "panic" then "VIOL clause=lt.no_crash" else
    let m := decodeDoc genSchema Gen.LT.cp1252 bs
    match m, impl with
    | .unmodelled, _ => "SKIP reason=unmodelled"
    | .ok d, ["ok", dump] => if dumpV d == dump then "OK cls=ok nt=1" else s!"CORR clause=lt.decode_mut model={(dumpV d).take 200}"
    | .err _, ["err"] => "OK cls=err nt=1"
    | .ok _, _ => "CORR clause=lt.decode_mut model=ok"
    | .err _, _ => "CORR clause=lt.decode_mut model=err"
    | .panic _, _ => "BAD"

def handle (args impl : List String) : String :=
  match args with
  | "rt" :: toks => handleRt toks impl
  | ["dec", hex] => handleDec hex impl
  | "run" :: toks => handleRun toks impl
  | _ => "BAD"

end TrackVerif.LT.Driver
