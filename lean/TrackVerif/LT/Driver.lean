import TrackVerif.Common.Proto
import TrackVerif.LT.Protocol
import TrackVerif.LT.ProtocolCount
/-
  Line-protocol side of the LapTimer area.

    LT run laps=<n> pad=<n> k=<k|-> gz=0|1 procs=<n> yield=0|1
        => hang | ret=<ok|err> W=<fault-free writes> lines=<complete lines> total=<bytes>
           delivered=<bytes> same=<0|1 prefix/complete> leaked=<n>
-/
namespace TrackVerif.LT.Driver
open TrackVerif Proto LT.Protocol

def field (toks : List String) (k : String) : Option String :=
  (toks.find? (·.startsWith (k ++ "="))).map fun t => (t.drop (k.length + 1)).toString

/-- run the abstract protocol to completion under a fixed fair schedule -/
def runModel (fuel : Nat) (s : St) : St :=
  match fuel with
  | 0 => s
  | fuel + 1 =>
    match step s .consumer s.avail with
    | some s' => runModel fuel s'
    | none =>
      match step s .producer 0 with
      | some s' => runModel fuel s'
      | none => s

def handleRun (toks impl : List String) : String :=
  if impl = ["hang"] then "VIOL clause=lt.returns" else
  if impl.head? = some "panic" then "VIOL clause=lt.no_crash" else
  match (field toks "k"), (field toks "gz"), (field impl "ret"), (field impl "W").bind nat?,
        (field impl "lines").bind nat?, (field impl "total").bind nat?, (field impl "delivered").bind nat?,
        (field impl "same"), (field impl "leaked").bind nat? with
  | some k, some gz, some ret, some w, some lines, some total, some delivered, some same, some leaked =>
    let kk : Option Nat := if k == "-" then none else k.toNat?
    let shouldFail : Bool := match kk with | some j => decide (j < w) | none => false
    if leaked > 0 then s!"VIOL clause=lt.no_leak leaked={leaked}"
    else if shouldFail && ret != "err" then "VIOL clause=lt.fault_reported"
    else if !shouldFail && ret != "ok" then "VIOL clause=lt.spurious_error"
    else if !shouldFail && (delivered != total || same != "1") then "VIOL clause=lt.complete"
    else if same != "1" then "VIOL clause=lt.prefix"
    else
      -- correspondence with the abstract protocol (plain output: one output write per filter write)
      if gz == "1" then "OK nt=1" else
      let ls := List.replicate lines 1         -- line lengths are irrelevant to the outcome
      let s0 := init [lines + 1] ls kk false
      let fin := runModel (20 * (lines + 8)) s0
      let mRet := match fin.p with | .done true => "ok" | .done false => "err" | _ => "stuck"
      if totalWrites ls false != w then s!"CORR clause=lt.write_count model={totalWrites ls false} impl={w}"
      else if mRet != ret then s!"CORR clause=lt.protocol_model model={mRet}"
      else "OK nt=1"
  | _, _, _, _, _, _, _, _, _ => "BAD"

def handle (args impl : List String) : String :=
  match args with
  | "run" :: toks => handleRun toks impl
  | _ => "BAD"

end TrackVerif.LT.Driver
