import TrackVerif.LT.UnmarshalLemmas
/-  List and marshaller lemmas for the structure theorem.  Core only. -/
namespace TrackVerif.LT
open TrackVerif TrackVerif.Gen TrackVerif.LT.Xml

/-! ### AllRel -/

theorem AllRel.get {β γ : Type} {R : β → γ → Prop} {l : List β} {rs : List γ} (h : AllRel R l rs) :
    ∀ (i : Nat) (b : β), l[i]? = some b → ∃ r, rs[i]? = some r ∧ R b r := by
  induction h with
  | nil => intro i b hb; simp at hb
  | cons hr _ ih =>
    intro i b hb
    cases i with
    | zero => simp at hb; subst hb; exact ⟨_, by simp, hr⟩
    | succ i => simp at hb; obtain ⟨r, h1, h2⟩ := ih i b hb; exact ⟨r, by simpa using h1, h2⟩

theorem AllRel.forall_right {β γ : Type} {R : β → γ → Prop} {P : γ → Prop} {l : List β} {rs : List γ}
    (h : AllRel R l rs) (hp : ∀ b r, b ∈ l → R b r → P r) : ∀ r ∈ rs, P r := by
  induction h with
  | nil => intro r hr; cases hr
  | cons hr _ ih =>
    intro r hmem
    cases hmem with
    | head => exact hp _ _ (List.mem_cons_self) hr
    | tail _ hm => exact ih (fun b r hb => hp b r (List.mem_cons_of_mem _ hb)) r hm

theorem ext_getD {α : Type} (l1 l2 : List α) (d : α) (hlen : l1.length = l2.length)
    (h : ∀ i, i < l1.length → l1.getD i d = l2.getD i d) : l1 = l2 := by
  apply List.ext_getElem hlen
  intro i h1 h2
  have := h i h1
  simpa [List.getD, List.getElem?_eq_getElem h1, List.getElem?_eq_getElem h2] using this

/-! ### folding one element -/

theorem foldField_nil (g : LtType → V → List (String × List Char) → List Node → Outcome V) (ty : LtType) (cur : V) :
    foldField g ty cur [] = .ok cur := by
  simp [foldField, List.foldlM, pure]

theorem foldField_cons (g : LtType → V → List (String × List Char) → List Node → Outcome V) (ty : LtType) (cur : V)
    (x : List (String × List Char) × List Node) (xs : List (List (String × List Char) × List Node)) :
    foldField g ty cur (x :: xs) = (g ty cur x.1 x.2).bind fun c => foldField g ty c xs := by
  simp only [foldField]; rw [foldlM_cons_ok]

theorem foldField_single (g : LtType → V → List (String × List Char) → List Node → Outcome V) (ty : LtType) (cur : V)
    (x : List (String × List Char) × List Node) :
    foldField g ty cur [x] = g ty cur x.1 x.2 := by
  rw [foldField_cons]
  cases g ty cur x.1 x.2 <;> simp [Outcome.bind, foldField_nil]

/-! ### names of the marshalled trees -/

theorem marshalTrees_names (s : Schema) : ∀ (f : Nat) (name : String) (om : Bool) (ty : LtType) (v : V) (ts : List Tree),
    marshalTrees s f name om ty v = .ok ts → ∀ t ∈ ts, nameOfTree t = name
  | 0, name, om, ty, v, ts, h => by simp [marshalTrees] at h
  | f + 1, name, om, ty, v, ts, h => by
    have ih := marshalTrees_names s f
    cases marshalTrees_inv s f name om ty v ts h with
    | omitted _ _ e => subst e; intro t ht; cases ht
    | ptrNil _ _ _ _ e => subst e; intro t ht; cases ht
    | ptr t' v' _ _ _ hm => exact ih name false t' v' ts hm
    | custom n txt _ _ _ _ e => subst e; intro t ht; simp at ht; subst ht; rfl
    | simple txt _ _ _ _ e => subst e; intro t ht; simp at ht; subst ht; rfl
    | struct n fs fields attrs kidss _ _ _ _ _ _ _ _ e => subst e; intro t ht; simp at ht; subst ht; rfl
    | slice t' vs tss _ _ _ _ hall e =>
      subst e
      intro t ht
      obtain ⟨r, hr, htr⟩ := List.mem_flatten.mp ht
      exact AllRel.forall_right (P := fun r => ∀ t ∈ r, nameOfTree t = name) hall
        (fun b r _ hb => ih name om t' b r hb) r hr t htr

/-! ### one element -/

theorem marshal_single (s : Schema) (f : Nat) (name : String) (om : Bool) (ty : LtType) (v : V) (ts : List Tree)
    (ho : oneElement s ty = true) (hom : (om && isEmptyValue (kindOf s 8 ty) v) = false)
    (h : marshalTrees s (f + 1) name om ty v = .ok ts) : ∃ t, ts = [t] := by
  cases marshalTrees_inv s f name om ty v ts h with
  | omitted h1 h2 _ => simp [h1, h2] at hom
  | ptrNil t' _ hk _ _ => simp [oneElement, hk] at ho
  | ptr t' v' _ hk _ _ => simp [oneElement, hk] at ho
  | custom n txt _ _ _ _ e => exact ⟨_, e⟩
  | simple txt _ _ _ _ e => exact ⟨_, e⟩
  | struct n fs fields attrs kidss _ _ _ _ _ _ _ _ e => exact ⟨_, e⟩
  | slice t' vs tss _ hc hk _ _ _ => simp [oneElement, hk, hc, isSimple] at ho

/-- `omitempty` plays no part below a single-element type once the value itself is not dropped -/
theorem marshal_om_irrelevant (s : Schema) (f : Nat) (name : String) (om : Bool) (ty : LtType) (v : V)
    (ho : oneElement s ty = true) (hom : (om && isEmptyValue (kindOf s 8 ty) v) = false) :
    marshalTrees s (f + 1) name om ty v = marshalTrees s (f + 1) name false ty v := by
  rw [marshalTrees_succ, marshalTrees_succ, hom]
  simp only [Bool.false_and, Bool.false_eq_true, if_false]
  cases hk : kindOf s 8 ty with
  | ptr t' => simp [oneElement, hk] at ho
  | slice t' =>
    cases hc : customM s ty with
    | none => simp [oneElement, hk, hc, isSimple] at ho
    | some n => cases v <;> simp [marshalRest, hc]
  | _ => cases v <;> simp [marshalRest]

/-! ### which children of a struct element carry a field's name -/

theorem filter_flatten_names : ∀ (kidss : List (List Tree)) (names : List String), names.length = kidss.length →
    (∀ (j : Nat) (nm : String) (r : List Tree), names[j]? = some nm → kidss[j]? = some r → ∀ t ∈ r, nameOfTree t = nm) →
    (∀ (i j : Nat) (a : String), names[i]? = some a → names[j]? = some a → i = j) →
    ∀ (i : Nat) (nm : String), names[i]? = some nm → kidss.flatten.filter (fun t => nameOfTree t == nm) = kidss.getD i []
  | [], names, hlen, _, _, i, nm, hi => by
    cases names with
    | nil => simp at hi
    | cons _ _ => simp at hlen
  | r :: rs, names, hlen, hn, hinj, i, nm, hi => by
    cases names with
    | nil => simp at hlen
    | cons nm0 ns =>
      simp only [List.flatten_cons, List.filter_append]
      have hlen' : ns.length = rs.length := by simpa using hlen
      have hn' : ∀ (j : Nat) (nm : String) (r : List Tree), ns[j]? = some nm → rs[j]? = some r → ∀ t ∈ r, nameOfTree t = nm := by
        intro j nm r h1 h2
        exact hn (j + 1) nm r (by simpa using h1) (by simpa using h2)
      have hinj' : ∀ (i j : Nat) (a : String), ns[i]? = some a → ns[j]? = some a → i = j := by
        intro i j a h1 h2
        have := hinj (i + 1) (j + 1) a (by simpa using h1) (by simpa using h2)
        omega
      cases i with
      | zero =>
        simp at hi; subst hi
        have h1 : r.filter (fun t => nameOfTree t == nm0) = r :=
          filter_name_all nm0 r (hn 0 nm0 r (by simp) (by simp))
        have h2 : rs.flatten.filter (fun t => nameOfTree t == nm0) = [] := by
          apply filter_name_none
          intro t ht e
          obtain ⟨l, hl, htl⟩ := List.mem_flatten.mp ht
          obtain ⟨j, hj⟩ := List.mem_iff_getElem?.mp hl
          have hjlt : j < ns.length := by
            rw [hlen']
            exact (List.getElem?_eq_some_iff.mp hj).1
          have hnj : ns[j]? = some ns[j] := List.getElem?_eq_getElem hjlt
          have := hn' j ns[j] l hnj hj t htl
          have := hinj (j + 1) 0 nm0 (by simp [hnj, ← this, e]) (by simp)
          omega
        rw [h1, h2]; simp
      | succ i =>
        have hi' : ns[i]? = some nm := by simpa using hi
        have h1 : r.filter (fun t => nameOfTree t == nm) = [] := by
          apply filter_name_none
          intro t ht e
          have := hn 0 nm0 r (by simp) (by simp) t ht
          have := hinj 0 (i + 1) nm0 (by simp) (by simp [hi', ← this, e])
          omega
        rw [h1, filter_flatten_names rs ns hlen' hn' hinj' i nm hi']
        simp

/-- the content of a printed struct element, routed by field name -/
theorem fieldKids_content (nm name : String) (as : List (String × List Char)) (d : Nat) (K : List Tree) :
    fieldKids nm (contentOf d (.node name as K)) = entries (d + 1) (K.filter fun t => nameOfTree t == nm) := by
  cases K with
  | nil => simp [contentOf, fieldKids, entries]
  | cons k ks =>
    simp only [contentOf]
    rw [fieldKids_nodesOfKids, fieldKids_text]; simp

end TrackVerif.LT
