import TrackVerif.LT.Protocol
/-  Invariants of the encoder protocol and their preservation by every step.  Core only. -/
namespace TrackVerif.LT.Protocol

def isSend : PState → Bool
  | .send _ => true
  | _ => false

/-- control-state facts that hold in every reachable state -/
structure InvA (s : St) : Prop where
  exited_closed : ∀ b, s.c = .exited b → s.rClosed = true
  run_open : s.c = .run → s.rClosed = false
  idle_only : s.c = .idle → s.p = .hdr ∨ s.p = .done false
  hdr_idle : s.p = .hdr → s.c = .idle ∧ s.failed = false ∧ s.wClosed = false ∧ s.rClosed = false
  wait_closed : s.p = .wait → s.wClosed = true
  gz_state : s.p = .gz → s.c = .exited true ∧ s.failed = false ∧ s.gzip = true ∧ s.merr = false
  done_true : s.p = .done true → s.c = .exited true ∧ s.failed = false ∧ s.merr = false
  done_quiet : ∀ b, s.p = .done b → s.c ≠ .run
  failed_state : s.failed = true → s.p = .done false ∨
      (s.c = .exited false ∧ (isSend s.p = true ∨ s.p = .failW ∨ s.p = .closeW ∨ s.p = .failM ∨ s.p = .wait))
  exit_false_failed : s.c = .exited false → s.failed = true
  wclosed_p : s.wClosed = true → s.p = .wait ∨ s.p = .gz ∨ (∃ b, s.p = .done b)
  failW_closed : s.p = .failW → s.rClosed = true

theorem invA_init (cs ls : List Nat) (k : Option Nat) (gz : Bool) (m : Bool := false) : InvA (init cs ls k gz m) := by
  constructor <;> simp [init, isSend]

set_option maxHeartbeats 1600000 in
theorem invA_step (s s' : St) (a : Actor) (t : Nat) (hi : InvA s) (h : step s a t = some s') : InvA s' := by
  obtain ⟨i1, i2, i3, i4, i5, i6, i7, i8, i9, i10, i11, i12⟩ := hi
  unfold step at h
  cases a <;> rcases hp : s.p with _ | (_ | _) | _ | _ | _ | _ | (_ | _) | _ <;> rcases hc : s.c with _ | _ | (_ | _) <;>
    simp only [hp, hc] at h <;>
    (repeat' (split at h)) <;>
    first
    | (cases h; done)
    | (injection h with h; subst h
       simp only [hp, hc] at i1 i2 i3 i4 i5 i6 i7 i8 i9 i10 i11 i12
       constructor <;> simp_all [isSend])

/-- byte accounting; `T` = size of the document -/
structure InvB (T : Nat) (s : St) : Prop where
  bytes : s.failed = false → s.delivered + s.pend + s.avail + s.cs.sum = T
  quiet_pipe : s.p = .hdr ∨ s.p = .send false ∨ s.p = .closeW ∨ s.p = .failM → s.avail = 0
  closeW_empty : s.p = .closeW ∨ s.p = .failM → s.cs = []
  wclosed : s.wClosed = true → (s.cs = [] ∧ s.avail = 0) ∨ s.rClosed = true
  exit_true : s.c = .exited true → s.pend = 0 ∧ s.avail = 0 ∧ s.cs = []
  lines : s.failed = false → s.ls.sum ≤ s.pend + s.avail + s.cs.sum

theorem invB_init (cs ls : List Nat) (k : Option Nat) (gz : Bool) (h : ls.sum ≤ cs.sum) (m : Bool := false) :
    InvB cs.sum (init cs ls k gz m) := by
  constructor <;> simp [init, h]

set_option maxHeartbeats 3200000 in
theorem invB_step (T : Nat) (s s' : St) (a : Actor) (t : Nat) (ha : InvA s) (hi : InvB T s)
    (h : step s a t = some s') : InvB T s' := by
  obtain ⟨a1, a2, a3, a4, a5, a6, a7, a8, a9, a10, a11, a12⟩ := ha
  obtain ⟨b1, b2, b3, b4, b5, b6⟩ := hi
  unfold step at h
  cases a <;> rcases hp : s.p with _ | (_ | _) | _ | _ | _ | _ | (_ | _) | _ <;> rcases hc : s.c with _ | _ | (_ | _) <;>
    simp only [hp, hc] at h <;>
    (repeat' (split at h)) <;>
    first
    | (cases h; done)
    | (injection h with h; subst h
       simp only [hp, hc] at a1 a2 a3 a4 a5 a6 a7 a8 a9 a10 a11 a12 b1 b2 b3 b4 b5 b6
       rcases hf : s.failed with _ | _ <;> simp only [hf] at a4 a6 a7 a9 a10 b1 b6 <;>
       constructor <;> simp_all <;> (try omega))

end TrackVerif.LT.Protocol
