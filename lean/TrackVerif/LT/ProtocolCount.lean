import TrackVerif.LT.ProtocolInv
/-  Write counting: while nothing has failed, the output writes performed plus those still to come
    equal the writes of the fault-free run, and the failing index has not been reached. -/
namespace TrackVerif.LT.Protocol

def pDone : PState → Bool
  | .done _ => true
  | _ => false

/-- output writes still to come in a fault-free continuation -/
def remWrites (s : St) : Nat :=
  (if s.p = .hdr then 1 else 0) +
  (match s.c with | .exited _ => 0 | _ => s.ls.length + 1) +
  (if s.gzip && !s.merr && !pDone s.p then 1 else 0)     -- no gzip close after a marshalling error

structure InvC (W : Nat) (s : St) : Prop where
  count : s.failed = false → s.wcount + remWrites s = W
  below : s.failed = false → ∀ j, s.k = some j → s.wcount ≤ j

/-- writes of the fault-free run: header, one per line, the final (EOF) write, gzip close -/
def totalWrites (ls : List Nat) (gz : Bool) : Nat := 1 + (ls.length + 1) + (if gz then 1 else 0)

theorem invC_init (cs ls : List Nat) (k : Option Nat) (gz : Bool) (m : Bool := false) :
    InvC (totalWrites ls (gz && !m)) (init cs ls k gz m) := by
  constructor <;> cases gz <;> cases m <;> simp [init, remWrites, totalWrites, pDone]

set_option maxHeartbeats 3200000 in
theorem invC_step (W T : Nat) (s s' : St) (a : Actor) (t : Nat) (ha : InvA s) (hb : InvB T s) (hi : InvC W s)
    (h : step s a t = some s') : InvC W s' := by
  obtain ⟨a1, a2, a3, a4, a5, a6, a7, a8, a9, a10, a11, a12⟩ := ha
  obtain ⟨c1, c2⟩ := hi
  obtain ⟨b1, b2, b3, b4, b5, b6⟩ := hb
  unfold step at h
  cases a <;> rcases hp : s.p with _ | (_ | _) | _ | _ | _ | _ | (_ | _) | _ <;> rcases hc : s.c with _ | _ | (_ | _) <;>
    simp only [hp, hc] at h <;>
    (repeat' (split at h)) <;>
    first
    | (cases h; done)
    | (injection h with h; subst h
       simp only [hp, hc] at a1 a2 a3 a4 a5 a6 a7 a8 a9 a10 a11 a12 b4 b6
       rcases hf : s.failed with _ | _ <;> simp only [hf] at a4 a6 a7 a9 a10 c1 c2 b6 <;>
       rcases hg : s.gzip with _ | _ <;> rcases hm : s.merr with _ | _ <;>
       constructor <;> simp_all [remWrites, writeFails, pDone] <;>
       (try omega) <;>
       (try (intro j hj; have h1 := c2 j hj
             by_cases h2 : j = s.wcount
             · subst h2; simp_all
             · omega)))

/-- a write fails only at the configured index, and that index is one the fault-free run reaches -/
def InvD (W : Nat) (s : St) : Prop := s.failed = true → ∃ j, s.k = some j ∧ j < W

theorem invD_init (W : Nat) (cs ls : List Nat) (k : Option Nat) (gz : Bool) (m : Bool := false) :
    InvD W (init cs ls k gz m) := by
  simp [InvD, init]

set_option maxHeartbeats 1600000 in
theorem invD_step (W : Nat) (s s' : St) (a : Actor) (t : Nat) (ha : InvA s) (hi : InvC W s) (hd : InvD W s)
    (h : step s a t = some s') : InvD W s' := by
  obtain ⟨c1, c2⟩ := hi
  have g := ha.gz_state
  unfold InvD at hd ⊢
  unfold step at h
  cases a <;> rcases hp : s.p with _ | (_ | _) | _ | _ | _ | _ | (_ | _) | _ <;> rcases hc : s.c with _ | _ | (_ | _) <;>
    simp only [hp, hc] at h <;>
    (repeat' (split at h)) <;>
    first
    | (cases h; done)
    | (injection h with h; subst h
       simp only [hp] at g
       rcases hf : s.failed with _ | _ <;> simp only [hf] at hd c1 c2 <;>
       simp_all [remWrites, writeFails, pDone] <;>
       (try omega))

end TrackVerif.LT.Protocol
