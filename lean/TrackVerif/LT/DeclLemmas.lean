import TrackVerif.LT.WholeDoc
/-  The XML declaration the encoder writes, as the decoder reads it.  Core only. -/
namespace TrackVerif.LT
open TrackVerif TrackVerif.Gen TrackVerif.LT.Xml TrackVerif.LT.Text

/-- ` version="1.0" encoding="UTF-8"` -/
def declMid : List Char :=
  [' ', 'v', 'e', 'r', 's', 'i', 'o', 'n', '=', '"', '1', '.', '0', '"', ' ',
   'e', 'n', 'c', 'o', 'd', 'i', 'n', 'g', '=', '"', 'U', 'T', 'F', '-', '8', '"']

/-- `<?xml version="1.0" encoding="UTF-8"?>` -/
def declChars : List Char := ['<', '?', 'x', 'm', 'l'] ++ (declMid ++ ['?', '>'])

def declBytes : List UInt8 := declChars.map fun c => c.toNat.toUInt8

theorem xmlHeader_eq : xmlHeader = declChars ++ ['\n'] := by decide

theorem declContent :
    procInst "version" declMid = "1.0".toList ∧ lowerAscii (procInst "encoding" declMid) = "utf-8".toList ∧
    declMid.any (fun c => c.toNat ≥ 128) = false := by
  decide +kernel

theorem stripPrefix_append : ∀ (p r : List Char), stripPrefix? p (p ++ r) = some r
  | [], r => by simp [stripPrefix?]
  | c :: p, r => by simp [stripPrefix?, stripPrefix_append p r]

theorem findDeclEnd_spec : ∀ (pre : List Char) (k : Nat) (r acc : List Char), (∀ c ∈ pre, c ≠ '?') →
    findDeclEnd (k + pre.length + 1) (pre ++ '?' :: '>' :: r) acc = some ((pre.reverse ++ acc).reverse, acc.length + pre.length)
  | [], k, r, acc, _ => by simp [findDeclEnd]
  | c :: pre, k, r, acc, h => by
    have hc : c ≠ '?' := h c (List.mem_cons_self)
    have ih := findDeclEnd_spec pre k r (c :: acc) (fun x hx => h x (List.mem_cons_of_mem _ hx))
    have e : k + (c :: pre).length + 1 = (k + pre.length + 1) + 1 := by simp only [List.length_cons]; omega
    rw [e]
    simp only [List.cons_append, findDeclEnd, hc, false_and, if_false]
    rw [ih]
    simp only [List.reverse_cons, List.append_assoc, List.length_cons, List.reverse_append, List.reverse_reverse,
      List.singleton_append, List.cons_append, List.nil_append, List.reverse_nil]
    congr 2
    omega

/-- the declaration the encoder writes selects UTF-8 and the body starts right after it -/
theorem splitDecl_decl (body : List UInt8) : splitDecl (declBytes ++ body) = .ok (body, false) := by
  have hb : bytesToAscii (declBytes ++ body) = ['<', '?', 'x', 'm', 'l'] ++ (declMid ++ '?' :: '>' :: bytesToAscii body) := by
    simp only [bytesToAscii, List.map_append]
    have : List.map (fun b : UInt8 => Char.ofNat b.toNat) declBytes = declChars := by decide +kernel
    rw [this]
    simp [declChars]
  have hq : ∀ c ∈ declMid, c ≠ '?' := by decide
  have hfind := findDeclEnd_spec declMid (2 + (bytesToAscii body).length) (bytesToAscii body) [] hq
  have hlen : (declMid ++ '?' :: '>' :: bytesToAscii body).length + 1 = 2 + (bytesToAscii body).length + declMid.length + 1 := by
    simp only [List.length_append, List.length_cons]; omega
  obtain ⟨h1, h2, h3⟩ := declContent
  have hdrop : List.drop (5 + (([] : List Char).length + declMid.length) + 2) (declBytes ++ body) = body := by
    have : 5 + (([] : List Char).length + declMid.length) + 2 = declBytes.length := by decide
    rw [this, List.drop_left]
  unfold splitDecl
  simp only [hb]
  have e0 : "<?xml".toList = ['<', '?', 'x', 'm', 'l'] := by decide
  rw [e0, stripPrefix_append]
  have hcons : declMid ++ '?' :: '>' :: bytesToAscii body =
      ' ' :: (declMid.tail ++ '?' :: '>' :: bytesToAscii body) := rfl
  have hs : isSpace ' ' = true := by decide
  rw [hcons]
  simp only [hs, if_true, Outcome.bind]
  rw [← hcons, hlen, hfind]
  simp only [List.append_nil, List.reverse_reverse, h3, Bool.false_eq_true, if_false, h1, h2, hdrop]
  simp

end TrackVerif.LT
