import TrackVerif.LT.WholeDoc
/-  The XML declaration the encoder writes, as the decoder reads it.  Core only. -/
namespace TrackVerif.LT
open TrackVerif TrackVerif.Gen TrackVerif.LT.Xml TrackVerif.LT.Text

/-- ` version="1.0" encoding="UTF-8"` -/
def declMid : List Char :=
  [' ', 'v', 'e', 'r', 's', 'i', 'o', 'n', '=', '"', '1', '.', '0', '"', ' ',
   'e', 'n', 'c', 'o', 'd', 'i', 'n', 'g', '=', '"', 'U', 'T', 'F', '-', '8', '"']

/-- `<?xml version="1.0" encoding="UTF-8"?>` -/
def declChars : List Char := ['<', '?', 'x', 'm', 'l'] ++ (declMid ++ ['?', '>'])

def declBytes : List UInt8 := declChars.map fun c => c.toNat.toUInt8

theorem xmlHeader_eq : xmlHeader = declChars ++ ['\n'] := by decide

theorem declContent :
    procInst "version" declMid = "1.0".toList ∧ lowerAscii (procInst "encoding" declMid) = "utf-8".toList ∧
    declMid.any (fun c => c.toNat ≥ 128) = false := by
  decide +kernel

theorem stripPrefix_append : ∀ (p r : List Char), stripPrefix? p (p ++ r) = some r
  | [], r => by simp [stripPrefix?]
  | c :: p, r => by simp [stripPrefix?, stripPrefix_append p r]

theorem findDeclEnd_spec : ∀ (pre : List Char) (k : Nat) (r acc : List Char), (∀ c ∈ pre, c ≠ '?') →
    findDeclEnd (k + pre.length + 1) (pre ++ '?' :: '>' :: r) acc = some ((pre.reverse ++ acc).reverse, acc.length + pre.length)
  | [], k, r, acc, _ => by simp [findDeclEnd]
  | c :: pre, k, r, acc, h => by
    have hc : c ≠ '?' := h c (List.mem_cons_self)
    have ih := findDeclEnd_spec pre k r (c :: acc) (fun x hx => h x (List.mem_cons_of_mem _ hx))
    have e : k + (c :: pre).length + 1 = (k + pre.length + 1) + 1 := by simp only [List.length_cons]; omega
    rw [e]
    simp only [List.cons_append, findDeclEnd, hc, false_and, if_false]
    rw [ih]
    simp only [List.reverse_cons, List.append_assoc, List.length_cons, List.reverse_append, List.reverse_reverse,
      List.singleton_append, List.cons_append, List.nil_append, List.reverse_nil]
    congr 2
    omega

/-- ` version="1.0" encoding="windows-1252"` -/
def declMid1252 : List Char :=
  [' ', 'v', 'e', 'r', 's', 'i', 'o', 'n', '=', '"', '1', '.', '0', '"', ' ',
   'e', 'n', 'c', 'o', 'd', 'i', 'n', 'g', '=', '"', 'w', 'i', 'n', 'd', 'o', 'w', 's', '-', '1', '2', '5', '2', '"']

/-- `<?xml version="1.0" encoding="windows-1252"?>` -/
def declChars1252 : List Char := ['<', '?', 'x', 'm', 'l'] ++ (declMid1252 ++ ['?', '>'])

def declBytes1252 : List UInt8 := declChars1252.map fun c => c.toNat.toUInt8

theorem declContent1252 :
    procInst "version" declMid1252 = "1.0".toList ∧
    lowerAscii (procInst "encoding" declMid1252) = "windows-1252".toList ∧
    declMid1252.any (fun c => c.toNat ≥ 128) = false := by
  decide +kernel

/-- a declaration `<?xml` ++ mid ++ `?>` whose content starts with a space and has no `?` -/
theorem splitDecl_mid (mid : List Char) (bytes : List UInt8) (body : List UInt8) (tail : List Char)
    (hb : bytesToAscii bytes = ['<', '?', 'x', 'm', 'l'] ++ (mid ++ '?' :: '>' :: tail))
    (hsp : ∃ r, mid = ' ' :: r) (hq : ∀ c ∈ mid, c ≠ '?')
    (hdrop : List.drop (5 + mid.length + 2) bytes = body) :
    splitDecl bytes =
      if mid.any (fun c => c.toNat ≥ 128) then .unmodelled else
      if !(procInst "version" mid).isEmpty ∧ procInst "version" mid ≠ "1.0".toList then .err .parse
      else if (lowerAscii (procInst "encoding" mid)).isEmpty ∨ lowerAscii (procInst "encoding" mid) = "utf-8".toList then
        .ok (body, false)
      else if lowerAscii (procInst "encoding" mid) = "windows-1252".toList ∨
          lowerAscii (procInst "encoding" mid) = "cp1252".toList then .ok (body, true)
      else .unmodelled := by
  have hfind := findDeclEnd_spec mid (2 + tail.length) tail [] hq
  have hlen : (mid ++ '?' :: '>' :: tail).length + 1 = 2 + tail.length + mid.length + 1 := by
    simp only [List.length_append, List.length_cons]; omega
  obtain ⟨r, hr⟩ := hsp
  unfold splitDecl
  simp only [hb]
  have e0 : "<?xml".toList = ['<', '?', 'x', 'm', 'l'] := by decide
  rw [e0, stripPrefix_append]
  have hcons : mid ++ '?' :: '>' :: tail = ' ' :: (r ++ '?' :: '>' :: tail) := by rw [hr]; rfl
  have hs : isSpace ' ' = true := by decide
  rw [hcons]
  simp only [hs, if_true, Outcome.bind]
  rw [← hcons, hlen, hfind]
  simp only [List.append_nil, List.reverse_reverse, List.length_nil, Nat.zero_add, hdrop]

/-- the declaration the encoder writes selects UTF-8 and the body starts right after it -/
theorem splitDecl_decl (body : List UInt8) : splitDecl (declBytes ++ body) = .ok (body, false) := by
  have hb : bytesToAscii (declBytes ++ body) = ['<', '?', 'x', 'm', 'l'] ++ (declMid ++ '?' :: '>' :: bytesToAscii body) := by
    simp only [bytesToAscii, List.map_append]
    have : List.map (fun b : UInt8 => Char.ofNat b.toNat) declBytes = declChars := by decide +kernel
    rw [this]
    simp [declChars]
  have hdrop : List.drop (5 + declMid.length + 2) (declBytes ++ body) = body := by
    have : 5 + declMid.length + 2 = declBytes.length := by decide
    rw [this, List.drop_left]
  obtain ⟨h1, h2, h3⟩ := declContent
  rw [splitDecl_mid declMid _ body _ hb ⟨_, rfl⟩ (by decide) hdrop]
  simp only [h3, Bool.false_eq_true, if_false, h1, h2]
  simp

/-- LapTimer's own declaration selects windows-1252 -/
theorem splitDecl_decl1252 (body : List UInt8) : splitDecl (declBytes1252 ++ body) = .ok (body, true) := by
  have hb : bytesToAscii (declBytes1252 ++ body) =
      ['<', '?', 'x', 'm', 'l'] ++ (declMid1252 ++ '?' :: '>' :: bytesToAscii body) := by
    simp only [bytesToAscii, List.map_append]
    have : List.map (fun b : UInt8 => Char.ofNat b.toNat) declBytes1252 = declChars1252 := by decide +kernel
    rw [this]
    simp [declChars1252]
  have hdrop : List.drop (5 + declMid1252.length + 2) (declBytes1252 ++ body) = body := by
    have : 5 + declMid1252.length + 2 = declBytes1252.length := by decide
    rw [this, List.drop_left]
  obtain ⟨h1, h2, h3⟩ := declContent1252
  rw [splitDecl_mid declMid1252 _ body _ hb ⟨_, rfl⟩ (by decide) hdrop]
  simp only [h3, Bool.false_eq_true, if_false, h1, h2]
  have e1 : ("1.0".toList.isEmpty = false) := by decide
  have e2 : ("windows-1252".toList.isEmpty = false) := by decide
  have e3 : ("windows-1252".toList = "utf-8".toList) = False := by decide
  simp [e1, e2, e3]

end TrackVerif.LT
