import TrackVerif.LT.Fmt
/-
  The fragment of Go's `time` package behind `LapDate` / `FixDate`:
  UTC civil fields of an instant, `Format` / `Parse` for layouts made of
  `02` `Jan` `06` `15` `04` `05` `.00` and literal text (the two layout constants of types.go).
  Instants are (unix seconds, nanoseconds).  Core only.
-/
namespace TrackVerif.LT.Time
open TrackVerif.LT.Fmt

structure Civil where
  year : Int
  month : Nat      -- 1..12
  day : Nat        -- 1..31
  hour : Nat
  min : Nat
  sec : Nat
  ns : Nat
  deriving Repr, DecidableEq

def isLeap (y : Int) : Bool := (y % 4 = 0 && y % 100 ≠ 0) || y % 400 = 0

def daysIn (y : Int) (m : Nat) : Nat :=
  if m = 2 then (if isLeap y then 29 else 28)
  else if m = 4 ∨ m = 6 ∨ m = 9 ∨ m = 11 then 30 else 31

/-- days since 1970-01-01 of a proleptic Gregorian date (days_from_civil) -/
def daysFromCivil (y : Int) (m d : Nat) : Int :=
  let y' : Int := if m ≤ 2 then y - 1 else y
  let era : Int := y' / 400                      -- Int division rounds toward -∞ for positive divisor (ediv)
  let yoe : Int := y' - era * 400
  let mp : Int := ((m : Int) + 9) % 12
  let doy : Int := (153 * mp + 2) / 5 + (d : Int) - 1
  let doe : Int := yoe * 365 + yoe / 4 - yoe / 100 + doy
  era * 146097 + doe - 719468

/-- civil date of a day number (civil_from_days) -/
def civilFromDays (z0 : Int) : Int × Nat × Nat :=
  let z := z0 + 719468
  let era : Int := z / 146097
  let doe : Int := z - era * 146097
  let yoe : Int := (doe - doe / 1460 + doe / 36524 - doe / 146096) / 365
  let y : Int := yoe + era * 400
  let doy : Int := doe - (365 * yoe + yoe / 4 - yoe / 100)
  let mp : Int := (5 * doy + 2) / 153
  let d : Int := doy - (153 * mp + 2) / 5 + 1
  let m : Int := if mp < 10 then mp + 3 else mp - 9
  (if m ≤ 2 then y + 1 else y, m.toNat, d.toNat)

def civilOf (sec : Int) (ns : Nat) : Civil :=
  let days := sec / 86400
  let rem := (sec % 86400).toNat
  let (y, m, d) := civilFromDays days
  ⟨y, m, d, rem / 3600, rem % 3600 / 60, rem % 60, ns⟩

def unixOf (c : Civil) : Int :=
  daysFromCivil c.year c.month c.day * 86400 + (c.hour * 3600 + c.min * 60 + c.sec : Nat)

def monthNames : List String := ["Jan", "Feb", "Mar", "Apr", "May", "Jun", "Jul", "Aug", "Sep", "Oct", "Nov", "Dec"]

inductive Tok
  | day2 | mon | year2 | hour | min2 | sec2 | frac (n : Nat) | lit (c : Char)
  deriving Repr, DecidableEq

/-- layout tokens; `none` if the layout uses a reference element outside the modelled set -/
def layoutToks : List Char → Option (List Tok)
  | [] => some []
  | '0' :: '2' :: r => (layoutToks r).map (Tok.day2 :: ·)
  | 'J' :: 'a' :: 'n' :: r =>
    -- "January" would be the long month
    if r.take 4 = ['u', 'a', 'r', 'y'] then none else (layoutToks r).map (Tok.mon :: ·)
  | '0' :: '6' :: r => (layoutToks r).map (Tok.year2 :: ·)
  | '1' :: '5' :: r => (layoutToks r).map (Tok.hour :: ·)
  | '0' :: '4' :: r => (layoutToks r).map (Tok.min2 :: ·)
  | '0' :: '5' :: r => (layoutToks r).map (Tok.sec2 :: ·)
  | '.' :: '0' :: '0' :: r =>
    -- ".00" is a fraction only when not followed by another digit
    (match r with
     | c :: _ => if isDigit c then none else (layoutToks r).map (Tok.frac 2 :: ·)
     | [] => some [Tok.frac 2])
  | c :: r =>
    -- any other digit, upper-case letter start of a reference element ("Mon", "MST", "PM", "2006", "1", "3", "_2" …) is not modelled
    if isDigit c ∨ c = 'M' ∨ c = 'P' ∨ c = 'Z' ∨ c = '_' ∨ c = 'J' then none
    else (layoutToks r).map (Tok.lit c :: ·)

def pad2 (n : Nat) : List Char := Dec.padLeft 2 '0' (natChars n)

def formatToks (c : Civil) : List Tok → List Char
  | [] => []
  | .day2 :: r => pad2 c.day ++ formatToks c r
  | .mon :: r => ((monthNames[c.month - 1]?).getD "???").toList ++ formatToks c r
  | .year2 :: r => pad2 (c.year % 100).toNat ++ formatToks c r
  | .hour :: r => pad2 c.hour ++ formatToks c r
  | .min2 :: r => pad2 c.min ++ formatToks c r
  | .sec2 :: r => pad2 c.sec ++ formatToks c r
  | .frac n :: r => '.' :: Dec.padLeft n '0' (natChars (c.ns / 10 ^ (9 - n))) ++ formatToks c r
  | .lit ch :: r => ch :: formatToks c r

/-- `t.UTC().Format(layout)`; `none` = layout outside the modelled set or year < 0 -/
def format (layout : String) (sec : Int) (ns : Nat) : Option (List Char) :=
  match layoutToks layout.toList with
  | some ts =>
    let c := civilOf sec ns
    if c.year < 0 then none else some (formatToks c ts)
  | none => none

def upper (c : Char) : Char := if 'a' ≤ c ∧ c ≤ 'z' then Char.ofNat (c.toNat - 32) else c
def lower (c : Char) : Char := if 'A' ≤ c ∧ c ≤ 'Z' then Char.ofNat (c.toNat + 32) else c

/-- `strings.ToUpper` on ASCII; non-ASCII letters make the result unmodelled at the call site -/
def toUpperAscii (s : List Char) : List Char := s.map upper

structure Acc where
  year : Int := 0
  month : Nat := 1
  day : Nat := 1
  hour : Nat := 0
  min : Nat := 0
  sec : Nat := 0
  ns : Nat := 0

def take2 : List Char → Option (Nat × List Char)
  | a :: b :: r => if isDigit a ∧ isDigit b then some (digitsToNat [a, b], r) else none
  | _ => none

/-- `getnum(value, false)`: one or two digits -/
def take12 : List Char → Option (Nat × List Char)
  | a :: b :: r =>
    if isDigit a then (if isDigit b then some (digitsToNat [a, b], r) else some (digitsToNat [a], b :: r)) else none
  | [a] => if isDigit a then some (digitsToNat [a], []) else none
  | [] => none

def lookupMonth (v : List Char) : Option (Nat × List Char) :=
  let pre := (v.take 3).map lower
  match (monthNames.map fun m => m.toList.map lower).findIdx? (· == pre) with
  | some i => if v.length ≥ 3 then some (i + 1, v.drop 3) else none
  | none => none

/-- time.Parse over the tokens; `none` = parse error.  After the seconds element Go also accepts
    an unannounced fractional second (".ddd" / ",ddd") when the layout has none. -/
def parseToks : List Tok → List Char → Acc → Option Acc
  | [], [], a => some a
  | [], _ :: _, _ => none                         -- extra text
  | .day2 :: r, v, a => (take2 v).bind fun (n, v') => parseToks r v' { a with day := n }
  | .mon :: r, v, a => (lookupMonth v).bind fun (n, v') => parseToks r v' { a with month := n }
  | .year2 :: r, v, a => (take2 v).bind fun (n, v') =>
      parseToks r v' { a with year := if n ≥ 69 then 1900 + n else 2000 + n }
  | .hour :: r, v, a => (take12 v).bind fun (n, v') => if n ≥ 24 then none else parseToks r v' { a with hour := n }
  | .min2 :: r, v, a => (take2 v).bind fun (n, v') => if n ≥ 60 then none else parseToks r v' { a with min := n }
  | .sec2 :: r, v, a => (take2 v).bind fun (n, v') =>
      if n ≥ 60 then none else
      -- fractional second not in the layout
      match r, v' with
      | .frac _ :: _, _ => parseToks r v' { a with sec := n }
      | _, c :: d :: rest =>
        if (c = '.' ∨ c = ',') ∧ isDigit d then
          let (ds, v'') := takeDigits (d :: rest)
          let ns := digitsToNat (ds.take 9) * 10 ^ (9 - (ds.take 9).length)
          parseToks r v'' { a with sec := n, ns := ns }
        else parseToks r v' { a with sec := n }
      | _, _ => parseToks r v' { a with sec := n }
  | .frac k :: r, v, a =>
      match v with
      | '.' :: rest =>
        let ds := rest.take k
        if ds.length = k ∧ ds.all isDigit then
          -- Go rejects ".00" followed by further digits? No: stdFracSecond0 takes exactly k digits
          parseToks r (rest.drop k) { a with ns := digitsToNat ds * 10 ^ (9 - k) }
        else none
      | _ => none
  | .lit c :: r, v, a =>
      match v with
      | x :: v' => if x = c then parseToks r v' a else none
      | [] => none

/-- `time.Parse(layout, v)` → (unix seconds, ns); `none` = error; layout outside the set is
    reported by `layoutToks` at the call site -/
def parse (ts : List Tok) (v : List Char) : Option (Int × Nat) :=
  match parseToks ts v {} with
  | some a =>
    if a.day < 1 ∨ a.day > daysIn a.year a.month then none
    else some (unixOf ⟨a.year, a.month, a.day, a.hour, a.min, a.sec, 0⟩, a.ns)
  | none => none

end TrackVerif.LT.Time
