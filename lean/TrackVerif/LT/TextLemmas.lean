import TrackVerif.LT.Text
/-  Lemmas about the character-level text pipeline. Core only. -/
namespace TrackVerif.LT.Text

def specPairsL : List (List Char × List Char) :=
  [(['&','#','3','4',';'], ['&','q','u','o','t',';']), (['&','#','3','9',';'], ['&','a','p','o','s',';']),
   (['&','#','x','A',';'], ['\n']), (['&','#','x','9',';'], ['\t'])]

theorem specPairs_eq : pairsOf specPairs = specPairsL := by decide

theorem firstMatch_not_amp (c : Char) (cs : List Char) (h : c ≠ '&') : firstMatch specPairsL (c :: cs) = none := by
  simp [firstMatch, specPairsL, stripPrefix?, Ne.symm h]

/-- one source character: escaping it and running the replacer over the result gives LapTimer's
    spelling of that character, and the replacer is back in its start state afterwards -/
theorem replace_step (c : Char) (rest : List Char) :
    replaceFrom specPairsL 0 (goEscapeChar c ++ rest) = ltEscapeChar c ++ replaceFrom specPairsL 0 rest := by
  unfold goEscapeChar ltEscapeChar
  split
  · simp [replaceFrom, firstMatch, specPairsL, stripPrefix?]
  split
  · simp [replaceFrom, firstMatch, specPairsL, stripPrefix?]
  split
  · simp [replaceFrom, firstMatch, specPairsL, stripPrefix?]
  split
  · simp [replaceFrom, firstMatch, specPairsL, stripPrefix?]
  split
  · simp [replaceFrom, firstMatch, specPairsL, stripPrefix?]
  split
  · simp [replaceFrom, firstMatch, specPairsL, stripPrefix?]
  split
  · simp [replaceFrom, firstMatch, specPairsL, stripPrefix?]
  split
  · simp [replaceFrom, firstMatch, specPairsL, stripPrefix?]
  split
  · simp [replaceFrom, firstMatch, specPairsL, stripPrefix?, replacementChar]
  · rename_i h1 h2 h3 h4 h5 h6 h7 h8 h9
    simp [replaceFrom, firstMatch_not_amp c rest h3]

theorem replace_escape (s rest : List Char) :
    replaceFrom specPairsL 0 (goEscape s ++ rest) = s.flatMap ltEscapeChar ++ replaceFrom specPairsL 0 rest := by
  induction s with
  | nil => simp [goEscape]
  | cons c cs ih =>
    simp only [goEscape, List.flatMap_cons, List.append_assoc] at ih ⊢
    rw [replace_step, ih]

/-! ### decoding LapTimer's spelling -/

theorem inCharRange_replacement : inCharRange replacementChar = true := by decide

theorem icr_quot : inCharRange '"' = true := by decide
theorem icr_apos : inCharRange '\'' = true := by decide
theorem icr_amp : inCharRange '&' = true := by decide
theorem icr_lt : inCharRange '<' = true := by decide
theorem icr_gt : inCharRange '>' = true := by decide
theorem icr_tab : inCharRange '\t' = true := by decide
theorem icr_lf : inCharRange '\n' = true := by decide
theorem icr_cr : inCharRange '\r' = true := by decide
theorem icr_cr' : inCharRange (Char.ofNat 13) = true := by decide
theorem cr_ofNat : Char.ofNat 13 = '\r' := by decide

/-- one character of LapTimer's spelling decodes to the (substituted) source character -/
theorem unescape_step (c : Char) (rest : List Char) :
    unescapeFrom 0 (ltEscapeChar c ++ rest) =
      (unescapeFrom 0 rest).map ((if inCharRange c then c else replacementChar) :: ·) := by
  unfold ltEscapeChar
  split
  · rename_i h; subst h; simp [unescapeFrom, readEntity, icr_quot]
  split
  · rename_i h; subst h; simp [unescapeFrom, readEntity, icr_apos]
  split
  · rename_i h; subst h; simp [unescapeFrom, readEntity, icr_amp]
  split
  · rename_i h; subst h; simp [unescapeFrom, readEntity, icr_lt]
  split
  · rename_i h; subst h; simp [unescapeFrom, readEntity, icr_gt]
  split
  · rename_i h; subst h; simp [unescapeFrom, icr_tab]
  split
  · rename_i h; subst h; simp [unescapeFrom, icr_lf]
  split
  · rename_i h; subst h
    simp [unescapeFrom, readEntity, readNum, hexVal?, scalar?, icr_cr', cr_ofNat]
  split
  · rename_i h1 h2 h3 h4 h5 h6 h7 h8 h9
    have : inCharRange c = false := by simpa using h9
    have hr : inCharRange (Char.ofNat 65533) = true := by decide
    have e1 : (Char.ofNat 65533 = '<') = False := by decide
    have e2 : (Char.ofNat 65533 = '&') = False := by decide
    have e3 : (Char.ofNat 65533 = '\r') = False := by decide
    simp [unescapeFrom, this, replacementChar, hr, e1, e2, e3]
  · rename_i h1 h2 h3 h4 h5 h6 h7 h8 h9
    have hc : inCharRange c = true := by simpa using h9
    simp [unescapeFrom, h4, h3, h8, hc]

theorem unescape_ltEscape (s : List Char) :
    unescapeFrom 0 (s.flatMap ltEscapeChar) = some (substitute s) := by
  induction s with
  | nil => simp [unescapeFrom, substitute]
  | cons c cs ih =>
    simp only [List.flatMap_cons]
    rw [unescape_step, ih]
    simp [substitute]

end TrackVerif.LT.Text
