import TrackVerif.LT.Text
/-  Lemmas about the character-level text pipeline. Core only. -/
namespace TrackVerif.LT.Text

def specPairsL : List (List Char × List Char) :=
  [(['&','#','3','4',';'], ['&','q','u','o','t',';']), (['&','#','3','9',';'], ['&','a','p','o','s',';']),
   (['&','#','x','A',';'], ['\n']), (['&','#','x','9',';'], ['\t'])]

theorem specPairs_eq : pairsOf specPairs = specPairsL := by decide

theorem firstMatch_not_amp (c : Char) (cs : List Char) (h : c ≠ '&') : firstMatch specPairsL (c :: cs) = none := by
  simp [firstMatch, specPairsL, stripPrefix?, Ne.symm h]

/-- one source character: escaping it and running the replacer over the result gives LapTimer's
    spelling of that character, and the replacer is back in its start state afterwards -/
theorem replace_step (c : Char) (rest : List Char) :
    replaceFrom specPairsL 0 (goEscapeChar c ++ rest) = ltEscapeChar c ++ replaceFrom specPairsL 0 rest := by
  unfold goEscapeChar ltEscapeChar
  split
  · simp [replaceFrom, firstMatch, specPairsL, stripPrefix?]
  split
  · simp [replaceFrom, firstMatch, specPairsL, stripPrefix?]
  split
  · simp [replaceFrom, firstMatch, specPairsL, stripPrefix?]
  split
  · simp [replaceFrom, firstMatch, specPairsL, stripPrefix?]
  split
  · simp [replaceFrom, firstMatch, specPairsL, stripPrefix?]
  split
  · simp [replaceFrom, firstMatch, specPairsL, stripPrefix?]
  split
  · simp [replaceFrom, firstMatch, specPairsL, stripPrefix?]
  split
  · simp [replaceFrom, firstMatch, specPairsL, stripPrefix?]
  split
  · simp [replaceFrom, firstMatch, specPairsL, stripPrefix?, replacementChar]
  · rename_i h1 h2 h3 h4 h5 h6 h7 h8 h9
    simp [replaceFrom, firstMatch_not_amp c rest h3]

theorem replace_escape (s rest : List Char) :
    replaceFrom specPairsL 0 (goEscape s ++ rest) = s.flatMap ltEscapeChar ++ replaceFrom specPairsL 0 rest := by
  induction s with
  | nil => simp [goEscape]
  | cons c cs ih =>
    simp only [goEscape, List.flatMap_cons, List.append_assoc] at ih ⊢
    rw [replace_step, ih]

/-! ### decoding LapTimer's spelling -/

theorem inCharRange_replacement : inCharRange replacementChar = true := by decide

theorem icr_quot : inCharRange '"' = true := by decide
theorem icr_apos : inCharRange '\'' = true := by decide
theorem icr_amp : inCharRange '&' = true := by decide
theorem icr_lt : inCharRange '<' = true := by decide
theorem icr_gt : inCharRange '>' = true := by decide
theorem icr_tab : inCharRange '\t' = true := by decide
theorem icr_lf : inCharRange '\n' = true := by decide
theorem icr_cr : inCharRange '\r' = true := by decide
theorem icr_cr' : inCharRange (Char.ofNat 13) = true := by decide
theorem cr_ofNat : Char.ofNat 13 = '\r' := by decide

/-- one character of LapTimer's spelling decodes to the (substituted) source character -/
theorem unescape_step (c : Char) (rest : List Char) :
    unescapeFrom 0 (ltEscapeChar c ++ rest) =
      (unescapeFrom 0 rest).map ((if inCharRange c then c else replacementChar) :: ·) := by
  unfold ltEscapeChar
  split
  · rename_i h; subst h; simp [unescapeFrom, readEntity, icr_quot]
  split
  · rename_i h; subst h; simp [unescapeFrom, readEntity, icr_apos]
  split
  · rename_i h; subst h; simp [unescapeFrom, readEntity, icr_amp]
  split
  · rename_i h; subst h; simp [unescapeFrom, readEntity, icr_lt]
  split
  · rename_i h; subst h; simp [unescapeFrom, readEntity, icr_gt]
  split
  · rename_i h; subst h; simp [unescapeFrom, icr_tab]
  split
  · rename_i h; subst h; simp [unescapeFrom, icr_lf]
  split
  · rename_i h; subst h
    simp [unescapeFrom, readEntity, readNum, hexVal?, scalar?, icr_cr', cr_ofNat]
  split
  · rename_i h1 h2 h3 h4 h5 h6 h7 h8 h9
    have : inCharRange c = false := by simpa using h9
    have hr : inCharRange (Char.ofNat 65533) = true := by decide
    have e1 : (Char.ofNat 65533 = '<') = False := by decide
    have e2 : (Char.ofNat 65533 = '&') = False := by decide
    have e3 : (Char.ofNat 65533 = '\r') = False := by decide
    simp [unescapeFrom, this, replacementChar, hr, e1, e2, e3]
  · rename_i h1 h2 h3 h4 h5 h6 h7 h8 h9
    have hc : inCharRange c = true := by simpa using h9
    simp [unescapeFrom, h4, h3, h8, hc]

theorem unescape_ltEscape (s : List Char) :
    unescapeFrom 0 (s.flatMap ltEscapeChar) = some (substitute s) := by
  induction s with
  | nil => simp [unescapeFrom, substitute]
  | cons c cs ih =>
    simp only [List.flatMap_cons]
    rw [unescape_step, ih]
    simp [substitute]

/-! ### the replacer and lines -/

/-- text without '&' passes through the replacer untouched -/
theorem replace_no_amp (a rest : List Char) (h : ∀ x ∈ a, x ≠ '&') :
    replaceFrom specPairsL 0 (a ++ rest) = a ++ replaceFrom specPairsL 0 rest := by
  induction a with
  | nil => rfl
  | cons x xs ih =>
    have hx : x ≠ '&' := h x (by simp)
    have := ih (fun y hy => h y (by simp [hy]))
    simp only [List.cons_append, replaceFrom, firstMatch_not_amp x _ hx, this]

/-- a match covers five characters, none of them a line feed -/
theorem firstMatch_some (s new : List Char) (n : Nat) (h : firstMatch specPairsL s = some (new, n)) :
    n = 5 ∧ ∃ a b c d e r, s = a :: b :: c :: d :: e :: r ∧ a ≠ '\n' ∧ b ≠ '\n' ∧ c ≠ '\n' ∧ d ≠ '\n' ∧ e ≠ '\n' := by
  rcases s with _ | ⟨a, _ | ⟨b, _ | ⟨c, _ | ⟨d, _ | ⟨e, r⟩⟩⟩⟩⟩
  all_goals try (simp [firstMatch, stripPrefix?, specPairsL] at h; done)
  simp [firstMatch, stripPrefix?, specPairsL] at h
  (repeat' split at h) <;> simp_all
  all_goals (
    rename_i hq
    obtain ⟨rfl, rfl, rfl, rfl, rfl, _⟩ := hq
    exact ⟨_, _, _, _, _, ⟨rfl, rfl, rfl, rfl, rfl⟩, by decide, by decide, by decide, by decide, by decide⟩)


theorem stripPrefix_isSome_nl (p : List Char) (hp : ∀ x ∈ p, x ≠ '\n') (l r1 r2 : List Char) :
    (stripPrefix? p (l ++ '\n' :: r1)).isSome = (stripPrefix? p (l ++ '\n' :: r2)).isSome := by
  induction p generalizing l with
  | nil => simp [stripPrefix?]
  | cons q ps ih =>
    have hq : q ≠ '\n' := hp q (by simp)
    cases l with
    | nil => simp [stripPrefix?, hq]
    | cons c l' =>
      simp only [List.cons_append, stripPrefix?]
      split
      · exact ih (fun x hx => hp x (by simp [hx])) l'
      · rfl

theorem firstMatch_nl (ps : List (List Char × List Char)) (hps : ∀ p ∈ ps, ∀ x ∈ p.1, x ≠ '\n')
    (l r1 r2 : List Char) :
    firstMatch ps (l ++ '\n' :: r1) = firstMatch ps (l ++ '\n' :: r2) := by
  induction ps with
  | nil => rfl
  | cons p ps ih =>
    obtain ⟨old, new⟩ := p
    have ih' := ih (fun q hq => hps q (by simp [hq]))
    have hs := stripPrefix_isSome_nl old (hps (old, new) (by simp)) l r1 r2
    unfold firstMatch
    split
    · exact ih'
    · cases h1 : stripPrefix? old (l ++ '\n' :: r1) <;> cases h2 : stripPrefix? old (l ++ '\n' :: r2) <;>
        simp [h1, h2] at hs ⊢
      exact ih'

theorem specPairs_no_nl : ∀ p ∈ specPairsL, ∀ x ∈ p.1, x ≠ '\n' := by decide

/-- the replacer's state at a line end does not depend on what follows: a line can be replaced on
    its own -/
theorem replace_line (l rest : List Char) (hl : ∀ x ∈ l, x ≠ '\n') (k : Nat) (hk : k ≤ l.length) :
    replaceFrom specPairsL k (l ++ '\n' :: rest) =
      replaceFrom specPairsL k (l ++ ['\n']) ++ replaceFrom specPairsL 0 rest := by
  induction l generalizing k with
  | nil =>
    have : k = 0 := by simpa using hk
    subst this
    have h0 : firstMatch specPairsL ('\n' :: rest) = none := firstMatch_not_amp _ _ (by decide)
    have h1 : firstMatch specPairsL ['\n'] = none := firstMatch_not_amp _ _ (by decide)
    simp [replaceFrom, h0, h1]
  | cons c l' ih =>
    have hl' : ∀ x ∈ l', x ≠ '\n' := fun x hx => hl x (by simp [hx])
    cases k with
    | succ k' =>
      simp only [List.cons_append, replaceFrom]
      exact ih hl' k' (by simpa using hk)
    | zero =>
      simp only [List.cons_append, replaceFrom]
      have hB := firstMatch_nl specPairsL specPairs_no_nl (c :: l') rest []
      simp only [List.cons_append] at hB
      rw [← hB]
      cases hm : firstMatch specPairsL (c :: (l' ++ '\n' :: rest)) with
      | none => simp only [List.cons_append]; rw [ih hl' 0 (by omega)]
      | some nn =>
        obtain ⟨new, n⟩ := nn
        obtain ⟨hn, a, b, c', d, e, r, hs, ha, hb, hc, hd, he⟩ := firstMatch_some _ _ _ hm
        subst hn
        have hlen : 4 ≤ l'.length := by
          rcases l' with _ | ⟨x1, _ | ⟨x2, _ | ⟨x3, _ | ⟨x4, l''⟩⟩⟩⟩
          · simp at hs; exact absurd hs.2.1.symm hb
          · simp at hs; exact absurd hs.2.2.1.symm hc
          · simp at hs; exact absurd hs.2.2.2.1.symm hd
          · simp at hs; exact absurd hs.2.2.2.2.1.symm he
          · simp
        simp only [List.append_assoc]
        rw [ih hl' 4 hlen]


theorem splitLines_line (l rest : List Char) (hl : ∀ x ∈ l, x ≠ '\n') :
    splitLines (l ++ '\n' :: rest) = (l ++ ['\n']) :: splitLines rest := by
  induction l with
  | nil => simp [splitLines]
  | cons c l' ih =>
    have hc : c ≠ '\n' := hl c (by simp)
    have := ih (fun x hx => hl x (by simp [hx]))
    simp [splitLines, hc, this]

theorem splitLines_last (l : List Char) (hl : ∀ x ∈ l, x ≠ '\n') (hne : l ≠ []) : splitLines l = [l] := by
  induction l with
  | nil => exact absurd rfl hne
  | cons c l' ih =>
    have hc : c ≠ '\n' := hl c (by simp)
    cases l' with
    | nil => simp [splitLines, hc]
    | cons d l'' =>
      have := ih (fun x hx => hl x (by simp [hx])) (by simp)
      simp [splitLines, hc] at this ⊢
      simp [this]

def untilNl : List Char → List Char × List Char
  | [] => ([], [])
  | c :: cs => if c = '\n' then ([], c :: cs) else ((c :: (untilNl cs).1), (untilNl cs).2)

theorem untilNl_spec (doc : List Char) :
    doc = (untilNl doc).1 ++ (untilNl doc).2 ∧ (∀ x ∈ (untilNl doc).1, x ≠ '\n') ∧
      ((untilNl doc).2 = [] ∨ ∃ rest, (untilNl doc).2 = '\n' :: rest) := by
  induction doc with
  | nil => simp [untilNl]
  | cons c cs ih =>
    unfold untilNl
    by_cases hc : c = '\n'
    · subst hc; simp
    · obtain ⟨h1, h2, h3⟩ := ih
      simp only [hc, if_false, List.cons_append]
      refine ⟨by rw [← h1], ?_, h3⟩
      intro x hx
      rcases List.mem_cons.mp hx with h | h
      · subst h; exact hc
      · exact h2 x h

/-- the encoder's filter works line by line; because no old string of the replacer contains a
    line feed this is the same as running the replacer over the whole document -/
theorem filterDoc_eq_replaceAll (doc : List Char) :
    filterDoc specPairsL doc = replaceAll specPairsL doc := by
  unfold filterDoc replaceAll
  generalize hn : doc.length = n
  induction n using Nat.strongRecOn generalizing doc with
  | _ n ih =>
    obtain ⟨hsplit, hl, hr⟩ := untilNl_spec doc
    generalize (untilNl doc).1 = l at hsplit hl
    generalize (untilNl doc).2 = r at hsplit hr
    rcases hr with hr | ⟨rest, hr⟩
    · rw [hr, List.append_nil] at hsplit
      rw [hsplit]
      by_cases hne : l = []
      · rw [hne]; simp [splitLines, replaceFrom]
      · rw [splitLines_last l hl hne]; simp
    · rw [hr] at hsplit
      have hlen : rest.length < n := by
        have : doc.length = l.length + (rest.length + 1) := by rw [hsplit]; simp
        omega
      rw [hsplit, splitLines_line l rest hl, List.flatMap_cons, replace_line l rest hl 0 (by omega)]
      congr 1
      exact ih rest.length hlen rest rfl

end TrackVerif.LT.Text
