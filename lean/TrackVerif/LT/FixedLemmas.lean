import TrackVerif.LT.CodecLemmas
/-  `%.pf` of every finite double has LapTimer's fixed-decimal syntax.  Core only. -/
namespace TrackVerif.LT.Spec
open TrackVerif TrackVerif.LT TrackVerif.LT.Fmt

theorem natDigits_eq (n : Nat) : Dec.natDigits n = natChars n := rfl

theorem natChars_length_le (n p : Nat) (hp : 0 < p) (h : n < 10 ^ p) : (natChars n).length ≤ p := by
  rw [natChars_eq]
  exact (Nat.length_toDigits_le_iff (by decide) hp).mpr h

theorem padLeft_length_eq (p : Nat) (ds : List Char) (h : ds.length ≤ p) : (Dec.padLeft p '0' ds).length = p := by
  simp [Dec.padLeft]; omega

def stripMinus (s : List Char) : List Char := match s with | '-' :: r => r | _ => s

def fixedBody (p : Nat) (body : List Char) : Bool :=
  match splitOnChar '.' body with
  | [ip] => p == 0 && allDigits ip
  | [ip, fp] => p > 0 && allDigits ip && fp.length == p && fp.all isDigit
  | _ => false

theorem isFixed_eq (p : Nat) (s : List Char) : isFixed p s = fixedBody p (stripMinus s) := by
  unfold isFixed fixedBody stripMinus
  rfl

theorem stripMinus_digit (c : Char) (cs : List Char) (h : c ≠ '-') : stripMinus (c :: cs) = c :: cs := by
  unfold stripMinus
  split
  · rename_i r heq; injection heq with h1 _; exact absurd h1 h
  · rfl

/-- digits, then (for p > 0) a point and exactly p digits, optionally signed -/
theorem fixed_shape (neg : Bool) (n p : Nat) :
    isFixed p ((if neg then ['-'] else []) ++
      (natChars (n / 10 ^ p) ++ (if p = 0 then [] else '.' :: Dec.padLeft p '0' (natChars (n % 10 ^ p))))) = true := by
  have di := natChars_digits (n / 10 ^ p)
  have hne := natChars_ne_nil (n / 10 ^ p)
  have ai := allDigits_of _ hne di
  -- the body after an optional sign
  have hbody : stripMinus ((if neg then ['-'] else []) ++
      (natChars (n / 10 ^ p) ++ (if p = 0 then [] else '.' :: Dec.padLeft p '0' (natChars (n % 10 ^ p))))) =
      natChars (n / 10 ^ p) ++ (if p = 0 then [] else '.' :: Dec.padLeft p '0' (natChars (n % 10 ^ p))) := by
    cases neg with
    | true => rfl
    | false =>
      simp only [Bool.false_eq_true, if_false, List.nil_append]
      cases hd : natChars (n / 10 ^ p) with
      | nil => exact absurd hd hne
      | cons c cs =>
        have hc : c ≠ '-' := (digit_not_punct c (di c (by rw [hd]; simp))).2.2.2
        simp only [List.cons_append]
        exact stripMinus_digit c _ hc
  rw [isFixed_eq, hbody]
  unfold fixedBody
  by_cases hp : p = 0
  · subst hp
    simp only [if_true, List.append_nil]
    rw [splitOnChar_none '.' _ (fun x hx => (digit_not_punct x (di x hx)).2.1)]
    simp only [ai, beq_self_eq_true, Bool.and_self]
  · simp only [hp, if_false]
    have hpos : 0 < p := Nat.pos_of_ne_zero hp
    have dfp := padLeft_digits p _ (natChars_digits (n % 10 ^ p))
    have hlen := padLeft_length_eq p _ (natChars_length_le (n % 10 ^ p) p hpos (Nat.mod_lt _ (Nat.pow_pos (by decide))))
    rw [splitOnChar_append '.' _ _ (fun x hx => (digit_not_punct x (di x hx)).2.1),
      splitOnChar_none '.' _ (fun x hx => (digit_not_punct x (dfp x hx)).2.1)]
    have hall : (Dec.padLeft p '0' (natChars (n % 10 ^ p))).all isDigit = true := List.all_eq_true.mpr dfp
    simp [ai, hlen, hpos, hall]

/-- **`%.pf` of every finite double** is `[-]digits[.p digits]` -/
theorem formatFixed_syntax (b : UInt64) (p : Nat) (f : Dec.Parts) (hf : Dec.classify b = .finite f) :
    isFixed p (Dec.formatFixed b p).toList = true := by
  unfold Dec.formatFixed
  obtain ⟨neg, mant, exp⟩ := f
  simp only [hf, String.toList_ofList]
  have := fixed_shape neg (Dec.scaledRound mant exp p) p
  cases neg <;> simpa [natDigits_eq] using this

/-- a printed fixed decimal contains no comma -/
theorem formatFixed_no_comma (b : UInt64) (p : Nat) (f : Dec.Parts) (hf : Dec.classify b = .finite f) :
    ∀ x ∈ (Dec.formatFixed b p).toList, x ≠ ',' := by
  unfold Dec.formatFixed
  obtain ⟨neg, mant, exp⟩ := f
  simp only [hf, String.toList_ofList]
  intro x hx
  have hd : ∀ n, ∀ y ∈ Dec.natDigits n, y ≠ ',' := fun n y hy =>
    (digit_not_punct y (natChars_digits n y hy)).2.2.1
  have hpad : ∀ n, ∀ y ∈ Dec.padLeft p '0' (Dec.natDigits n), y ≠ ',' := fun n y hy =>
    (digit_not_punct y (padLeft_digits p _ (natChars_digits n) y hy)).2.2.1
  have hs : ∀ y ∈ Dec.natDigits (Dec.scaledRound mant exp p / 10 ^ p) ++
      (if p = 0 then [] else '.' :: Dec.padLeft p '0' (Dec.natDigits (Dec.scaledRound mant exp p % 10 ^ p))), y ≠ ',' := by
    intro y hy
    rcases List.mem_append.mp hy with h | h
    · exact hd _ y h
    · by_cases hp : p = 0
      · simp [hp] at h
      · simp only [hp, if_false, List.mem_cons] at h
        rcases h with h | h
        · subst h; decide
        · exact hpad _ y h
  cases neg with
  | false => exact hs x (by simpa using hx)
  | true =>
    simp only [if_true, List.mem_cons] at hx
    rcases hx with h | h
    · subst h; decide
    · exact hs x h

/-- two (three) fixed decimals separated by commas -/
theorem coord2_syntax (a b : UInt64) (fa fb : Dec.Parts) (ha : Dec.classify a = .finite fa)
    (hb : Dec.classify b = .finite fb) :
    isCoord2 ((Dec.formatFixed a 8).toList ++ ',' :: (Dec.formatFixed b 8).toList) = true := by
  unfold isCoord2
  rw [splitOnChar_append ',' _ _ (formatFixed_no_comma a 8 fa ha),
    splitOnChar_none ',' _ (formatFixed_no_comma b 8 fb hb)]
  simp [formatFixed_syntax a 8 fa ha, formatFixed_syntax b 8 fb hb]

theorem coord3_syntax (a b c : UInt64) (fa fb fc : Dec.Parts) (ha : Dec.classify a = .finite fa)
    (hb : Dec.classify b = .finite fb) (hc : Dec.classify c = .finite fc) :
    isCoord3 ((Dec.formatFixed a 8).toList ++ ',' :: ((Dec.formatFixed b 8).toList ++ ',' :: (Dec.formatFixed c 1).toList)) = true := by
  unfold isCoord3
  have hrest : splitOnChar ',' ((Dec.formatFixed b 8).toList ++ ',' :: (Dec.formatFixed c 1).toList) =
      [(Dec.formatFixed b 8).toList, (Dec.formatFixed c 1).toList] := by
    rw [splitOnChar_append ',' _ _ (formatFixed_no_comma b 8 fb hb),
      splitOnChar_none ',' _ (formatFixed_no_comma c 1 fc hc)]
  rw [splitOnChar_append ',' _ _ (formatFixed_no_comma a 8 fa ha), hrest]
  simp [formatFixed_syntax a 8 fa ha, formatFixed_syntax b 8 fb hb, formatFixed_syntax c 1 fc hc]

end TrackVerif.LT.Spec

namespace TrackVerif.LT.Spec
open TrackVerif TrackVerif.LT TrackVerif.LT.Fmt

theorem padLeft_zero (ds : List Char) : Dec.padLeft 0 '0' ds = ds := by simp [Dec.padLeft]

theorem fmtInt_zero_cases (i : Int) :
    fmtInt 0 i = (if i < 0 then '-' :: natChars i.natAbs else natChars i.natAbs) := by
  unfold fmtInt
  simp only [padLeft_zero, Nat.zero_sub]

/-- `%d` of any integer is an optional sign and digits -/
theorem fmtInt_isInt (i : Int) : isInt (fmtInt 0 i) = true := by
  rw [fmtInt_zero_cases]
  have hd := natChars_digits i.natAbs
  have hne := natChars_ne_nil i.natAbs
  have ha := allDigits_of _ hne hd
  by_cases h : i < 0
  · simp only [h, if_true, isInt, ha]
  · simp only [h, if_false]
    cases hc : natChars i.natAbs with
    | nil => exact absurd hc hne
    | cons c cs =>
      have hcm : c ≠ '-' := (digit_not_punct c (hd c (by rw [hc]; simp))).2.2.2
      rw [hc] at ha
      unfold isInt
      split
      · rename_i r heq; injection heq with h1 _; exact absurd h1 hcm
      · exact ha

theorem fmtInt_no_comma (i : Int) : ∀ x ∈ fmtInt 0 i, x ≠ ',' := by
  rw [fmtInt_zero_cases]
  intro x hx
  have hd := natChars_digits i.natAbs
  by_cases h : i < 0
  · simp only [h, if_true, List.mem_cons] at hx
    rcases hx with e | e
    · subst e; decide
    · exact (digit_not_punct x (hd x e)).2.2.1
  · simp only [h, if_false] at hx
    exact (digit_not_punct x (hd x hx)).2.2.1

theorem positioning_syntax (d p : Int) (i : Bool) :
    isPositioning (fmtInt 0 d ++ ',' :: (fmtInt 0 p ++ ',' :: fmtInt 0 (if i then 1 else 0))) = true := by
  unfold isPositioning
  have hlast : ∀ x ∈ fmtInt 0 (if i then 1 else 0), x ≠ ',' := fmtInt_no_comma _
  have hrest : splitOnChar ',' (fmtInt 0 p ++ ',' :: fmtInt 0 (if i then 1 else 0)) =
      [fmtInt 0 p, fmtInt 0 (if i then 1 else 0)] := by
    rw [splitOnChar_append ',' _ _ (fmtInt_no_comma p), splitOnChar_none ',' _ hlast]
  rw [splitOnChar_append ',' _ _ (fmtInt_no_comma d), hrest]
  have h01 : (fmtInt 0 (if i then 1 else 0) == ['0'] || fmtInt 0 (if i then 1 else 0) == ['1']) = true := by
    cases i <;> decide
  simp only [fmtInt_isInt, h01, Bool.and_self]

end TrackVerif.LT.Spec

namespace TrackVerif.LT.Spec
open TrackVerif TrackVerif.LT TrackVerif.LT.Fmt

/-- `distance,MM:SS.cc` -/
theorem relToStart_syntax (b : UInt64) (f : Dec.Parts) (hf : Dec.classify b = .finite f) (m s cs : Nat)
    (hs : s < 60) (hcs : cs < 100) :
    isRelToStart ((Dec.formatFixed b 1).toList ++ ',' ::
      (Dec.padLeft 2 '0' (natChars m) ++ ':' :: (Dec.padLeft 2 '0' (natChars s) ++ '.' :: Dec.padLeft 2 '0' (natChars cs)))) = true := by
  unfold isRelToStart
  have dm := padLeft_digits 2 _ (natChars_digits m)
  have ds := padLeft_digits 2 _ (natChars_digits s)
  have dc := padLeft_digits 2 _ (natChars_digits cs)
  have hdur : ∀ x ∈ Dec.padLeft 2 '0' (natChars m) ++ ':' :: (Dec.padLeft 2 '0' (natChars s) ++ '.' :: Dec.padLeft 2 '0' (natChars cs)),
      x ≠ ',' := by
    intro x hx
    simp only [List.mem_append, List.mem_cons] at hx
    rcases hx with h | h | h | h | h
    · exact (digit_not_punct x (dm x h)).2.2.1
    · subst h; decide
    · exact (digit_not_punct x (ds x h)).2.2.1
    · subst h; decide
    · exact (digit_not_punct x (dc x h)).2.2.1
  rw [splitOnChar_append ',' _ _ (formatFixed_no_comma b 1 f hf), splitOnChar_none ',' _ hdur]
  simp only [formatFixed_syntax b 1 f hf, duration_syntax m s cs hs hcs, Bool.and_self]

end TrackVerif.LT.Spec

namespace TrackVerif.LT.Spec
open TrackVerif TrackVerif.LT TrackVerif.LT.Fmt TrackVerif.LT.Time

/-- FixDate syntax: `DD-MON-YY,HH:MM:SS.cc` -/
theorem fixdate_syntax (c : Civil) (hv : ValidCivil c) (hns : c.ns < 1000000000) :
    isFixDate (toUpperAscii (formatToks c fixToks)) = true := by
  have hlap := lapdate_syntax c hv
  obtain ⟨y1, y2, m1, m2, d1, d2, hh, hm, hs⟩ := hv
  have hd : c.day ≤ 31 := by
    have : daysIn c.year c.month ≤ 31 := by unfold daysIn; split <;> (try split) <;> omega
    omega
  obtain ⟨da, db, ed, hda, hdb, td⟩ := isTwo_pad2 c.day 1 31 (by omega) d1 hd
  obtain ⟨ya, yb, ey, hya, hyb, ty⟩ := isTwo_pad2 (c.year % 100).toNat 0 99 (by omega) (by omega) (by omega)
  obtain ⟨ha, hb, eh, hha, hhb, th⟩ := isTwo_pad2 c.hour 0 23 (by omega) (by omega) (by omega)
  obtain ⟨ma, mb, em, hma, hmb, tm⟩ := isTwo_pad2 c.min 0 59 (by omega) (by omega) (by omega)
  obtain ⟨sa, sb, es, hsa, hsb, ts⟩ := isTwo_pad2 c.sec 0 59 (by omega) (by omega) (by omega)
  obtain ⟨fa, fb, ef, hfa, hfb, tf⟩ := isTwo_pad2 (c.ns / 10000000) 0 99 (by omega) (by omega) (by omega)
  obtain ⟨a, b, cc, emon, hmon, la, lb, lc⟩ := month_shape c.month m1 m2
  have e9 : (10 : Nat) ^ (9 - 2) = 10000000 := by decide
  have hsplit : formatToks c fixToks = formatToks c lapToks ++ ('.' :: pad2 (c.ns / 10000000)) := by
    simp [fixToks, lapToks, formatToks, e9, pad2]
  have hlapText : toUpperAscii (formatToks c lapToks) =
      [da, db, '-', a, b, cc, '-', ya, yb, ',', ha, hb, ':', ma, mb, ':', sa, sb] := by
    simp only [lapToks, formatToks]
    simp only [toUpper_append, toUpper_cons, up_dash, up_comma, up_colon, List.append_nil, ed, ey, eh, em, es, emon]
    rfl
  rw [hsplit, toUpper_append, toUpper_cons, up_dot, ef]
  rw [hlapText] at hlap ⊢
  have n1 := digit_not_punct da hda; have n2 := digit_not_punct db hdb
  have n3 := digit_not_punct ya hya; have n4 := digit_not_punct yb hyb
  have n5 := digit_not_punct ha hha; have n6 := digit_not_punct hb hhb
  have n7 := digit_not_punct ma hma; have n8 := digit_not_punct mb hmb
  have n9 := digit_not_punct sa hsa; have n10 := digit_not_punct sb hsb
  have n11 := digit_not_punct fa hfa; have n12 := digit_not_punct fb hfb
  have k1 := upper_alpha_not_punct a la; have k2 := upper_alpha_not_punct b lb; have k3 := upper_alpha_not_punct cc lc
  have hnd : ∀ x ∈ [da, db, '-', a, b, cc, '-', ya, yb, ',', ha, hb, ':', ma, mb, ':', sa, sb], x ≠ '.' := by
    intro x hx
    simp only [List.mem_cons, List.not_mem_nil, or_false] at hx
    rcases hx with h|h|h|h|h|h|h|h|h|h|h|h|h|h|h|h|h|h <;> subst h <;>
      first | exact n1.2.1 | exact n2.2.1 | exact n3.2.1 | exact n4.2.1 | exact n5.2.1 | exact n6.2.1
            | exact n7.2.1 | exact n8.2.1 | exact n9.2.1 | exact n10.2.1 | exact k1.2.1 | exact k2.2.1 | exact k3.2.1
            | decide
  have hnd2 : ∀ x ∈ [fa, fb], x ≠ '.' := by
    intro x hx
    simp only [List.mem_cons, List.not_mem_nil, or_false] at hx
    rcases hx with h | h <;> subst h
    · exact n11.2.1
    · exact n12.2.1
  unfold isFixDate
  rw [splitOnChar_append '.' _ _ hnd, splitOnChar_none '.' _ hnd2]
  simp only [hlap, tf, Bool.and_self]

end TrackVerif.LT.Spec
