import TrackVerif.LT.CodecLemmas
/-  `%.pf` of every finite double has LapTimer's fixed-decimal syntax.  Core only. -/
namespace TrackVerif.LT.Spec
open TrackVerif TrackVerif.LT TrackVerif.LT.Fmt

theorem natDigits_eq (n : Nat) : Dec.natDigits n = natChars n := rfl

theorem natChars_length_le (n p : Nat) (hp : 0 < p) (h : n < 10 ^ p) : (natChars n).length ≤ p := by
  rw [natChars_eq]
  exact (Nat.length_toDigits_le_iff (by decide) hp).mpr h

theorem padLeft_length_eq (p : Nat) (ds : List Char) (h : ds.length ≤ p) : (Dec.padLeft p '0' ds).length = p := by
  simp [Dec.padLeft]; omega

def stripMinus (s : List Char) : List Char := match s with | '-' :: r => r | _ => s

def fixedBody (p : Nat) (body : List Char) : Bool :=
  match splitOnChar '.' body with
  | [ip] => p == 0 && allDigits ip
  | [ip, fp] => p > 0 && allDigits ip && fp.length == p && fp.all isDigit
  | _ => false

theorem isFixed_eq (p : Nat) (s : List Char) : isFixed p s = fixedBody p (stripMinus s) := by
  unfold isFixed fixedBody stripMinus
  rfl

theorem stripMinus_digit (c : Char) (cs : List Char) (h : c ≠ '-') : stripMinus (c :: cs) = c :: cs := by
  unfold stripMinus
  split
  · rename_i r heq; injection heq with h1 _; exact absurd h1 h
  · rfl

/-- digits, then (for p > 0) a point and exactly p digits, optionally signed -/
theorem fixed_shape (neg : Bool) (n p : Nat) :
    isFixed p ((if neg then ['-'] else []) ++
      (natChars (n / 10 ^ p) ++ (if p = 0 then [] else '.' :: Dec.padLeft p '0' (natChars (n % 10 ^ p))))) = true := by
  have di := natChars_digits (n / 10 ^ p)
  have hne := natChars_ne_nil (n / 10 ^ p)
  have ai := allDigits_of _ hne di
  -- the body after an optional sign
  have hbody : stripMinus ((if neg then ['-'] else []) ++
      (natChars (n / 10 ^ p) ++ (if p = 0 then [] else '.' :: Dec.padLeft p '0' (natChars (n % 10 ^ p))))) =
      natChars (n / 10 ^ p) ++ (if p = 0 then [] else '.' :: Dec.padLeft p '0' (natChars (n % 10 ^ p))) := by
    cases neg with
    | true => rfl
    | false =>
      simp only [Bool.false_eq_true, if_false, List.nil_append]
      cases hd : natChars (n / 10 ^ p) with
      | nil => exact absurd hd hne
      | cons c cs =>
        have hc : c ≠ '-' := (digit_not_punct c (di c (by rw [hd]; simp))).2.2.2
        simp only [List.cons_append]
        exact stripMinus_digit c _ hc
  rw [isFixed_eq, hbody]
  unfold fixedBody
  by_cases hp : p = 0
  · subst hp
    simp only [if_true, List.append_nil]
    rw [splitOnChar_none '.' _ (fun x hx => (digit_not_punct x (di x hx)).2.1)]
    simp only [ai, beq_self_eq_true, Bool.and_self]
  · simp only [hp, if_false]
    have hpos : 0 < p := Nat.pos_of_ne_zero hp
    have dfp := padLeft_digits p _ (natChars_digits (n % 10 ^ p))
    have hlen := padLeft_length_eq p _ (natChars_length_le (n % 10 ^ p) p hpos (Nat.mod_lt _ (Nat.pow_pos (by decide))))
    rw [splitOnChar_append '.' _ _ (fun x hx => (digit_not_punct x (di x hx)).2.1),
      splitOnChar_none '.' _ (fun x hx => (digit_not_punct x (dfp x hx)).2.1)]
    have hall : (Dec.padLeft p '0' (natChars (n % 10 ^ p))).all isDigit = true := List.all_eq_true.mpr dfp
    simp [ai, hlen, hpos, hall]

/-- **`%.pf` of every finite double** is `[-]digits[.p digits]` -/
theorem formatFixed_syntax (b : UInt64) (p : Nat) (f : Dec.Parts) (hf : Dec.classify b = .finite f) :
    isFixed p (Dec.formatFixed b p).toList = true := by
  unfold Dec.formatFixed
  obtain ⟨neg, mant, exp⟩ := f
  simp only [hf, String.toList_ofList]
  have := fixed_shape neg (Dec.scaledRound mant exp p) p
  cases neg <;> simpa [natDigits_eq] using this

/-- a printed fixed decimal contains no comma -/
theorem formatFixed_no_comma (b : UInt64) (p : Nat) (f : Dec.Parts) (hf : Dec.classify b = .finite f) :
    ∀ x ∈ (Dec.formatFixed b p).toList, x ≠ ',' := by
  unfold Dec.formatFixed
  obtain ⟨neg, mant, exp⟩ := f
  simp only [hf, String.toList_ofList]
  intro x hx
  have hd : ∀ n, ∀ y ∈ Dec.natDigits n, y ≠ ',' := fun n y hy =>
    (digit_not_punct y (natChars_digits n y hy)).2.2.1
  have hpad : ∀ n, ∀ y ∈ Dec.padLeft p '0' (Dec.natDigits n), y ≠ ',' := fun n y hy =>
    (digit_not_punct y (padLeft_digits p _ (natChars_digits n) y hy)).2.2.1
  have hs : ∀ y ∈ Dec.natDigits (Dec.scaledRound mant exp p / 10 ^ p) ++
      (if p = 0 then [] else '.' :: Dec.padLeft p '0' (Dec.natDigits (Dec.scaledRound mant exp p % 10 ^ p))), y ≠ ',' := by
    intro y hy
    rcases List.mem_append.mp hy with h | h
    · exact hd _ y h
    · by_cases hp : p = 0
      · simp [hp] at h
      · simp only [hp, if_false, List.mem_cons] at h
        rcases h with h | h
        · subst h; decide
        · exact hpad _ y h
  cases neg with
  | false => exact hs x (by simpa using hx)
  | true =>
    simp only [if_true, List.mem_cons] at hx
    rcases hx with h | h
    · subst h; decide
    · exact hs x h

/-- two (three) fixed decimals separated by commas -/
theorem coord2_syntax (a b : UInt64) (fa fb : Dec.Parts) (ha : Dec.classify a = .finite fa)
    (hb : Dec.classify b = .finite fb) :
    isCoord2 ((Dec.formatFixed a 8).toList ++ ',' :: (Dec.formatFixed b 8).toList) = true := by
  unfold isCoord2
  rw [splitOnChar_append ',' _ _ (formatFixed_no_comma a 8 fa ha),
    splitOnChar_none ',' _ (formatFixed_no_comma b 8 fb hb)]
  simp [formatFixed_syntax a 8 fa ha, formatFixed_syntax b 8 fb hb]

theorem coord3_syntax (a b c : UInt64) (fa fb fc : Dec.Parts) (ha : Dec.classify a = .finite fa)
    (hb : Dec.classify b = .finite fb) (hc : Dec.classify c = .finite fc) :
    isCoord3 ((Dec.formatFixed a 8).toList ++ ',' :: ((Dec.formatFixed b 8).toList ++ ',' :: (Dec.formatFixed c 1).toList)) = true := by
  unfold isCoord3
  have hrest : splitOnChar ',' ((Dec.formatFixed b 8).toList ++ ',' :: (Dec.formatFixed c 1).toList) =
      [(Dec.formatFixed b 8).toList, (Dec.formatFixed c 1).toList] := by
    rw [splitOnChar_append ',' _ _ (formatFixed_no_comma b 8 fb hb),
      splitOnChar_none ',' _ (formatFixed_no_comma c 1 fc hc)]
  rw [splitOnChar_append ',' _ _ (formatFixed_no_comma a 8 fa ha), hrest]
  simp [formatFixed_syntax a 8 fa ha, formatFixed_syntax b 8 fb hb, formatFixed_syntax c 1 fc hc]

end TrackVerif.LT.Spec

namespace TrackVerif.LT.Spec
open TrackVerif TrackVerif.LT TrackVerif.LT.Fmt

theorem padLeft_zero (ds : List Char) : Dec.padLeft 0 '0' ds = ds := by simp [Dec.padLeft]

theorem fmtInt_zero_cases (i : Int) :
    fmtInt 0 i = (if i < 0 then '-' :: natChars i.natAbs else natChars i.natAbs) := by
  unfold fmtInt
  simp only [padLeft_zero, Nat.zero_sub]

/-- `%d` of any integer is an optional sign and digits -/
theorem fmtInt_isInt (i : Int) : isInt (fmtInt 0 i) = true := by
  rw [fmtInt_zero_cases]
  have hd := natChars_digits i.natAbs
  have hne := natChars_ne_nil i.natAbs
  have ha := allDigits_of _ hne hd
  by_cases h : i < 0
  · simp only [h, if_true, isInt, ha]
  · simp only [h, if_false]
    cases hc : natChars i.natAbs with
    | nil => exact absurd hc hne
    | cons c cs =>
      have hcm : c ≠ '-' := (digit_not_punct c (hd c (by rw [hc]; simp))).2.2.2
      rw [hc] at ha
      unfold isInt
      split
      · rename_i r heq; injection heq with h1 _; exact absurd h1 hcm
      · exact ha

theorem fmtInt_no_comma (i : Int) : ∀ x ∈ fmtInt 0 i, x ≠ ',' := by
  rw [fmtInt_zero_cases]
  intro x hx
  have hd := natChars_digits i.natAbs
  by_cases h : i < 0
  · simp only [h, if_true, List.mem_cons] at hx
    rcases hx with e | e
    · subst e; decide
    · exact (digit_not_punct x (hd x e)).2.2.1
  · simp only [h, if_false] at hx
    exact (digit_not_punct x (hd x hx)).2.2.1

theorem positioning_syntax (d p : Int) (i : Bool) :
    isPositioning (fmtInt 0 d ++ ',' :: (fmtInt 0 p ++ ',' :: fmtInt 0 (if i then 1 else 0))) = true := by
  unfold isPositioning
  have hlast : ∀ x ∈ fmtInt 0 (if i then 1 else 0), x ≠ ',' := fmtInt_no_comma _
  have hrest : splitOnChar ',' (fmtInt 0 p ++ ',' :: fmtInt 0 (if i then 1 else 0)) =
      [fmtInt 0 p, fmtInt 0 (if i then 1 else 0)] := by
    rw [splitOnChar_append ',' _ _ (fmtInt_no_comma p), splitOnChar_none ',' _ hlast]
  rw [splitOnChar_append ',' _ _ (fmtInt_no_comma d), hrest]
  have h01 : (fmtInt 0 (if i then 1 else 0) == ['0'] || fmtInt 0 (if i then 1 else 0) == ['1']) = true := by
    cases i <;> decide
  simp only [fmtInt_isInt, h01, Bool.and_self]

end TrackVerif.LT.Spec

namespace TrackVerif.LT.Spec
open TrackVerif TrackVerif.LT TrackVerif.LT.Fmt

/-- `distance,MM:SS.cc` -/
theorem relToStart_syntax (b : UInt64) (f : Dec.Parts) (hf : Dec.classify b = .finite f) (m s cs : Nat)
    (hs : s < 60) (hcs : cs < 100) :
    isRelToStart ((Dec.formatFixed b 1).toList ++ ',' ::
      (Dec.padLeft 2 '0' (natChars m) ++ ':' :: (Dec.padLeft 2 '0' (natChars s) ++ '.' :: Dec.padLeft 2 '0' (natChars cs)))) = true := by
  unfold isRelToStart
  have dm := padLeft_digits 2 _ (natChars_digits m)
  have ds := padLeft_digits 2 _ (natChars_digits s)
  have dc := padLeft_digits 2 _ (natChars_digits cs)
  have hdur : ∀ x ∈ Dec.padLeft 2 '0' (natChars m) ++ ':' :: (Dec.padLeft 2 '0' (natChars s) ++ '.' :: Dec.padLeft 2 '0' (natChars cs)),
      x ≠ ',' := by
    intro x hx
    simp only [List.mem_append, List.mem_cons] at hx
    rcases hx with h | h | h | h | h
    · exact (digit_not_punct x (dm x h)).2.2.1
    · subst h; decide
    · exact (digit_not_punct x (ds x h)).2.2.1
    · subst h; decide
    · exact (digit_not_punct x (dc x h)).2.2.1
  rw [splitOnChar_append ',' _ _ (formatFixed_no_comma b 1 f hf), splitOnChar_none ',' _ hdur]
  simp only [formatFixed_syntax b 1 f hf, duration_syntax m s cs hs hcs, Bool.and_self]

end TrackVerif.LT.Spec

namespace TrackVerif.LT.Spec
open TrackVerif TrackVerif.LT TrackVerif.LT.Fmt TrackVerif.LT.Time

/-- FixDate syntax: `DD-MON-YY,HH:MM:SS.cc` -/
theorem fixdate_syntax (c : Civil) (hv : ValidCivil c) (hns : c.ns < 1000000000) :
    isFixDate (toUpperAscii (formatToks c fixToks)) = true := by
  have hlap := lapdate_syntax c hv
  obtain ⟨y1, y2, m1, m2, d1, d2, hh, hm, hs⟩ := hv
  have hd : c.day ≤ 31 := by
    have : daysIn c.year c.month ≤ 31 := by unfold daysIn; split <;> (try split) <;> omega
    omega
  obtain ⟨da, db, ed, hda, hdb, td⟩ := isTwo_pad2 c.day 1 31 (by omega) d1 hd
  obtain ⟨ya, yb, ey, hya, hyb, ty⟩ := isTwo_pad2 (c.year % 100).toNat 0 99 (by omega) (by omega) (by omega)
  obtain ⟨ha, hb, eh, hha, hhb, th⟩ := isTwo_pad2 c.hour 0 23 (by omega) (by omega) (by omega)
  obtain ⟨ma, mb, em, hma, hmb, tm⟩ := isTwo_pad2 c.min 0 59 (by omega) (by omega) (by omega)
  obtain ⟨sa, sb, es, hsa, hsb, ts⟩ := isTwo_pad2 c.sec 0 59 (by omega) (by omega) (by omega)
  obtain ⟨fa, fb, ef, hfa, hfb, tf⟩ := isTwo_pad2 (c.ns / 10000000) 0 99 (by omega) (by omega) (by omega)
  obtain ⟨a, b, cc, emon, hmon, la, lb, lc⟩ := month_shape c.month m1 m2
  have e9 : (10 : Nat) ^ (9 - 2) = 10000000 := by decide
  have hsplit : formatToks c fixToks = formatToks c lapToks ++ ('.' :: pad2 (c.ns / 10000000)) := by
    simp [fixToks, lapToks, formatToks, e9, pad2]
  have hlapText : toUpperAscii (formatToks c lapToks) =
      [da, db, '-', a, b, cc, '-', ya, yb, ',', ha, hb, ':', ma, mb, ':', sa, sb] := by
    simp only [lapToks, formatToks]
    simp only [toUpper_append, toUpper_cons, up_dash, up_comma, up_colon, List.append_nil, ed, ey, eh, em, es, emon]
    rfl
  rw [hsplit, toUpper_append, toUpper_cons, up_dot, ef]
  rw [hlapText] at hlap ⊢
  have n1 := digit_not_punct da hda; have n2 := digit_not_punct db hdb
  have n3 := digit_not_punct ya hya; have n4 := digit_not_punct yb hyb
  have n5 := digit_not_punct ha hha; have n6 := digit_not_punct hb hhb
  have n7 := digit_not_punct ma hma; have n8 := digit_not_punct mb hmb
  have n9 := digit_not_punct sa hsa; have n10 := digit_not_punct sb hsb
  have n11 := digit_not_punct fa hfa; have n12 := digit_not_punct fb hfb
  have k1 := upper_alpha_not_punct a la; have k2 := upper_alpha_not_punct b lb; have k3 := upper_alpha_not_punct cc lc
  have hnd : ∀ x ∈ [da, db, '-', a, b, cc, '-', ya, yb, ',', ha, hb, ':', ma, mb, ':', sa, sb], x ≠ '.' := by
    intro x hx
    simp only [List.mem_cons, List.not_mem_nil, or_false] at hx
    rcases hx with h|h|h|h|h|h|h|h|h|h|h|h|h|h|h|h|h|h <;> subst h <;>
      first | exact n1.2.1 | exact n2.2.1 | exact n3.2.1 | exact n4.2.1 | exact n5.2.1 | exact n6.2.1
            | exact n7.2.1 | exact n8.2.1 | exact n9.2.1 | exact n10.2.1 | exact k1.2.1 | exact k2.2.1 | exact k3.2.1
            | decide
  have hnd2 : ∀ x ∈ [fa, fb], x ≠ '.' := by
    intro x hx
    simp only [List.mem_cons, List.not_mem_nil, or_false] at hx
    rcases hx with h | h <;> subst h
    · exact n11.2.1
    · exact n12.2.1
  unfold isFixDate
  rw [splitOnChar_append '.' _ _ hnd, splitOnChar_none '.' _ hnd2]
  simp only [hlap, tf, Bool.and_self]

end TrackVerif.LT.Spec

namespace TrackVerif.LT.Spec
open TrackVerif TrackVerif.LT TrackVerif.LT.Fmt

/-! ### Intermediates: one `MM:SS.cc,d.d` per indented line -/

def isSp (c : Char) : Bool := isBlank c || c = '\n'

theorem trimSpace_eq (s : List Char) : trimSpace s = ((s.dropWhile isSp).reverse.dropWhile isSp).reverse := rfl

/-- a line that starts and ends with a non-blank character, behind some tabs -/
theorem trimSpace_tabs (n : Nat) (l : List Char) (a b : Char) (mid : List Char) (hl : l = a :: mid ++ [b])
    (ha : isSp a = false) (hb : isSp b = false) :
    trimSpace (List.replicate n '\t' ++ l) = l := by
  rw [trimSpace_eq]
  have htab : isSp '\t' = true := by decide
  have h1 : (List.replicate n '\t' ++ l).dropWhile isSp = l := by
    induction n with
    | zero => simp [hl, List.dropWhile, ha]
    | succ n ih => simp only [List.replicate_succ, List.cons_append, List.dropWhile, htab]; exact ih
  rw [h1, hl]
  have h2 : (a :: mid ++ [b]).reverse = b :: (a :: mid).reverse := by simp
  rw [h2]
  simp only [List.dropWhile, hb]
  simp

theorem trimSpace_only_tabs (n : Nat) : trimSpace (List.replicate n '\t') = [] := by
  rw [trimSpace_eq]
  have htab : isSp '\t' = true := by decide
  have : (List.replicate n '\t').dropWhile isSp = [] := by
    induction n with
    | zero => rfl
    | succ n ih => simp only [List.replicate_succ, List.dropWhile, htab]; exact ih
  rw [this]; rfl

/-- the text of one intermediate: duration, comma, one-decimal distance -/
def interLine (m s cs : Nat) (b : UInt64) : List Char :=
  (Dec.padLeft 2 '0' (natChars m) ++ ':' :: (Dec.padLeft 2 '0' (natChars s) ++ '.' :: Dec.padLeft 2 '0' (natChars cs))) ++
    ',' :: (Dec.formatFixed b 1).toList

theorem interLine_line (m s cs : Nat) (b : UInt64) (f : Dec.Parts) (hf : Dec.classify b = .finite f)
    (hs : s < 60) (hcs : cs < 100) :
    (match splitOnChar ',' (interLine m s cs b) with
     | [t, d] => isDuration t && isFixed 1 d
     | _ => false) = true := by
  unfold interLine
  have dm := padLeft_digits 2 _ (natChars_digits m)
  have ds := padLeft_digits 2 _ (natChars_digits s)
  have dc := padLeft_digits 2 _ (natChars_digits cs)
  have hdur : ∀ x ∈ Dec.padLeft 2 '0' (natChars m) ++ ':' :: (Dec.padLeft 2 '0' (natChars s) ++ '.' :: Dec.padLeft 2 '0' (natChars cs)),
      x ≠ ',' := by
    intro x hx
    simp only [List.mem_append, List.mem_cons] at hx
    rcases hx with h | h | h | h | h
    · exact (digit_not_punct x (dm x h)).2.2.1
    · subst h; decide
    · exact (digit_not_punct x (ds x h)).2.2.1
    · subst h; decide
    · exact (digit_not_punct x (dc x h)).2.2.1
  rw [splitOnChar_append ',' _ _ hdur, splitOnChar_none ',' _ (formatFixed_no_comma b 1 f hf)]
  simp only [duration_syntax m s cs hs hcs, formatFixed_syntax b 1 f hf, Bool.and_self]

end TrackVerif.LT.Spec

namespace TrackVerif.LT.Spec
open TrackVerif TrackVerif.LT TrackVerif.LT.Fmt

def tab3 (l : List Char) : List Char := '\t' :: '\t' :: '\t' :: l

/-- the element text: every item on its own indented line, then the closing indentation -/
def interText (lines : List (List Char)) : List Char :=
  (lines.map fun l => '\n' :: tab3 l).flatten ++ ['\n', '\t', '\t']

structure GoodLine (l : List Char) : Prop where
  ends : ∃ a mid b, l = a :: mid ++ [b] ∧ isSp a = false ∧ isSp b = false
  noNl : ∀ x ∈ l, x ≠ '\n'
  ok : (match splitOnChar ',' l with | [t, d] => isDuration t && isFixed 1 d | _ => false) = true

theorem split_interText : ∀ (lines : List (List Char)) (pre : List Char), (∀ x ∈ pre, x ≠ '\n') →
    (∀ l ∈ lines, ∀ x ∈ l, x ≠ '\n') →
    splitOnChar '\n' (pre ++ interText lines) = pre :: (lines.map tab3 ++ [['\t', '\t']])
  | [], pre, hp, _ => by
    simp only [interText, List.map_nil, List.flatten_nil, List.nil_append]
    rw [splitOnChar_append '\n' pre _ hp, splitOnChar_none '\n' ['\t', '\t'] (by decide)]
  | l :: ls, pre, hp, hl => by
    have hl1 : ∀ x ∈ tab3 l, x ≠ '\n' := by
      intro x hx
      simp only [tab3, List.mem_cons] at hx
      rcases hx with h | h | h | h
      · subst h; decide
      · subst h; decide
      · subst h; decide
      · exact hl l (List.mem_cons_self) x h
    have ih := split_interText ls (tab3 l) hl1 (fun l' hl' => hl l' (List.mem_cons_of_mem _ hl'))
    have e : pre ++ interText (l :: ls) = pre ++ '\n' :: (tab3 l ++ interText ls) := by
      simp [interText, List.append_assoc]
    rw [e, splitOnChar_append '\n' pre _ hp, ih]
    simp

theorem trimSpace_tab3 (l : List Char) (h : GoodLine l) : trimSpace (tab3 l) = l := by
  obtain ⟨a, mid, b, e, ha, hb⟩ := h.ends
  have := trimSpace_tabs 3 l a b mid e ha hb
  simpa [tab3, List.replicate] using this

/-- **intermediates**: any non-empty list of good lines, laid out as the encoder does, has
    LapTimer's intermediates syntax -/
theorem intermediates_syntax (lines : List (List Char)) (hne : lines ≠ []) (hg : ∀ l ∈ lines, GoodLine l) :
    isIntermediates (interText lines) = true := by
  unfold isIntermediates
  have hs := split_interText lines [] (by intro x hx; cases hx) (fun l hl => (hg l hl).noNl)
  simp only [List.nil_append] at hs
  rw [hs]
  have e0 : trimSpace ([] : List Char) = [] := rfl
  have e2 : trimSpace ['\t', '\t'] = [] := trimSpace_only_tabs 2
  have hmap : (lines.map tab3).map trimSpace = lines := by
    rw [List.map_map]
    calc lines.map (trimSpace ∘ tab3) = lines.map id := by
          apply List.map_congr_left
          intro l hl
          exact trimSpace_tab3 l (hg l hl)
      _ = lines := by simp
  have hfilter : lines.filter (fun l => !l.isEmpty) = lines := by
    apply List.filter_eq_self.mpr
    intro l hl
    obtain ⟨a, mid, b, e, _, _⟩ := (hg l hl).ends
    rw [e]; rfl
  simp only [List.map_cons, List.map_append, List.map_nil, e0, e2, hmap, List.filter_cons, List.filter_append,
    List.isEmpty_nil, Bool.not_true, Bool.false_eq_true, if_false, hfilter, List.filter_nil, List.append_nil]
  have hne' : lines.isEmpty = false := by cases lines <;> simp_all
  simp only [hne', Bool.not_false, Bool.true_and, List.all_eq_true]
  intro l hl
  exact (hg l hl).ok

end TrackVerif.LT.Spec

namespace TrackVerif.LT.Spec
open TrackVerif TrackVerif.LT TrackVerif.LT.Fmt

theorem formatFixed_chars (b : UInt64) (p : Nat) (f : Dec.Parts) (hf : Dec.classify b = .finite f) :
    ∀ x ∈ (Dec.formatFixed b p).toList, x = '-' ∨ x = '.' ∨ isDigit x = true := by
  unfold Dec.formatFixed
  obtain ⟨neg, mant, exp⟩ := f
  simp only [hf, String.toList_ofList]
  intro x hx
  have hs : ∀ y ∈ Dec.natDigits (Dec.scaledRound mant exp p / 10 ^ p) ++
      (if p = 0 then [] else '.' :: Dec.padLeft p '0' (Dec.natDigits (Dec.scaledRound mant exp p % 10 ^ p))),
      y = '-' ∨ y = '.' ∨ isDigit y = true := by
    intro y hy
    rcases List.mem_append.mp hy with h | h
    · exact Or.inr (Or.inr (natChars_digits _ y h))
    · by_cases hp : p = 0
      · simp [hp] at h
      · simp only [hp, if_false, List.mem_cons] at h
        rcases h with h | h
        · exact Or.inr (Or.inl h)
        · exact Or.inr (Or.inr (padLeft_digits p _ (natChars_digits _) y h))
  cases neg with
  | false => exact hs x (by simpa using hx)
  | true =>
    simp only [if_true, List.mem_cons] at hx
    rcases hx with h | h
    · exact Or.inl h
    · exact hs x h

theorem digit_not_sp (x : Char) (h : isDigit x = true) : isSp x = false := by
  have := digit_not_blank x h
  simp [isSp, this.1, this.2.1]

theorem interLine_chars (m s cs : Nat) (b : UInt64) (f : Dec.Parts) (hf : Dec.classify b = .finite f) :
    ∀ x ∈ interLine m s cs b, isSp x = false := by
  intro x hx
  have hp : isSp ':' = false ∧ isSp '.' = false ∧ isSp ',' = false ∧ isSp '-' = false := by decide
  unfold interLine at hx
  simp only [List.mem_append, List.mem_cons] at hx
  rcases hx with (h | h | h | h | h) | h | h
  · exact digit_not_sp x (padLeft_digits 2 _ (natChars_digits m) x h)
  · subst h; exact hp.1
  · exact digit_not_sp x (padLeft_digits 2 _ (natChars_digits s) x h)
  · subst h; exact hp.2.1
  · exact digit_not_sp x (padLeft_digits 2 _ (natChars_digits cs) x h)
  · subst h; exact hp.2.2.1
  · rcases formatFixed_chars b 1 f hf x h with e | e | e
    · subst e; exact hp.2.2.2
    · subst e; exact hp.2.1
    · exact digit_not_sp x e

theorem ends_of_length {l : List Char} (h : 2 ≤ l.length) : ∃ a mid b, l = a :: mid ++ [b] ∧ a ∈ l ∧ b ∈ l := by
  cases l with
  | nil => simp at h
  | cons a t =>
    have ht : t ≠ [] := by intro e; subst e; simp at h
    refine ⟨a, t.dropLast, t.getLast ht, ?_, by simp, ?_⟩
    · rw [List.cons_append, List.dropLast_concat_getLast ht]
    · exact List.mem_cons_of_mem _ (List.getLast_mem ht)

theorem interLine_good (m s cs : Nat) (b : UInt64) (f : Dec.Parts) (hf : Dec.classify b = .finite f)
    (hs : s < 60) (hcs : cs < 100) : GoodLine (interLine m s cs b) := by
  have hch := interLine_chars m s cs b f hf
  have hlen : 2 ≤ (interLine m s cs b).length := by
    unfold interLine
    simp only [List.length_append, List.length_cons]
    omega
  obtain ⟨a, mid, e, he, ha, hb⟩ := ends_of_length hlen
  refine ⟨⟨a, mid, e, he, hch a ha, hch e hb⟩, ?_, interLine_line m s cs b f hf hs hcs⟩
  intro x hx hn
  have := hch x hx
  subst hn
  exact absurd this (by decide)

end TrackVerif.LT.Spec
