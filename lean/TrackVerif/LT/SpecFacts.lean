import TrackVerif.LT.DeclLemmas
import TrackVerif.LT.XmlLemmas
import TrackVerif.LT.Spec
/-  The facts the structure theorem needs, checked on the specification schema; the encoder's
    document as the printed root tree.  Core only. -/
namespace TrackVerif.LT
open TrackVerif TrackVerif.Gen TrackVerif.LT.Xml TrackVerif.LT.Text

/-- the decidable form of `SchemaFacts` and `NamesOk` -/
def schemaFactsB (s : Schema) : Bool :=
  s.unmarshalers.all (fun n => s.marshalers.contains n) &&
  s.marshalers.all (fun n => s.unmarshalers.contains n || isSimple (kindOf s 8 (.named n))) &&
  s.structs.all (fun p =>
    (dataFields p.2).all (fun f => !f.attr || (f.typ == .basic "int" && !f.omitempty)) &&
    distinctNamesB (dataFields p.2) && distinctAttrNamesB (dataFields p.2) &&
    (dataFields p.2).all (fun f => xmlNameOk f.xmlName && !f.xmlName.startsWith "xmlns"))

theorem fieldsOf_mem (s : Schema) (n : String) (fields : List LtField) (h : s.fieldsOf n = some fields) :
    ∃ p ∈ s.structs, p.2 = fields := by
  unfold Schema.fieldsOf at h
  simp only [Option.map_eq_some_iff] at h
  obtain ⟨p, hp, e⟩ := h
  exact ⟨p, List.mem_of_find?_eq_some hp, e⟩

theorem schemaFacts_of_B (s : Schema) (h : schemaFactsB s = true) : SchemaFacts s ∧ NamesOk s := by
  simp only [schemaFactsB, Bool.and_eq_true, List.all_eq_true, Bool.or_eq_true, Bool.not_eq_true',
    beq_iff_eq] at h
  obtain ⟨⟨h1, h2⟩, h3⟩ := h
  refine ⟨⟨?_, ?_, ?_, ?_, ?_⟩, ?_⟩
  · intro n hn
    exact h1 n (List.contains_iff_mem.mp hn)
  · intro n hm hu
    rcases h2 n (List.contains_iff_mem.mp hm) with h | h
    · rw [hu] at h; cases h
    · exact h
  · intro n fields hf f hfm hattr
    obtain ⟨p, hp, e⟩ := fieldsOf_mem s n fields hf
    subst e
    rcases (h3 p hp).1.1.1 f hfm with h | h
    · rw [hattr] at h; cases h
    · exact h
  · intro n fields hf
    obtain ⟨p, hp, e⟩ := fieldsOf_mem s n fields hf
    subst e
    exact distinctNames_of_B _ (h3 p hp).1.1.2
  · intro n fields hf
    obtain ⟨p, hp, e⟩ := fieldsOf_mem s n fields hf
    subst e
    exact distinctAttrNames_of_B _ (h3 p hp).1.2
  · intro n fields hf f hfm
    obtain ⟨p, hp, e⟩ := fieldsOf_mem s n fields hf
    subst e
    exact (h3 p hp).2 f hfm

theorem spec_factsB : schemaFactsB Spec.schema = true := by decide +kernel

theorem spec_facts : SchemaFacts Spec.schema := (schemaFacts_of_B _ spec_factsB).1
theorem spec_names : NamesOk Spec.schema := (schemaFacts_of_B _ spec_factsB).2

theorem spec_root : rootName Spec.schema "DB" = some "LapTimerDB" := by decide +kernel
theorem spec_root_one : oneElement Spec.schema (.named "DB") = true := by decide +kernel
theorem spec_root_name : xmlNameOk "LapTimerDB" = true := by decide +kernel
theorem spec_replacer : pairsOf Spec.schema.replacer = specPairsL := by decide

/-- the document the encoder writes is the declaration, a line feed and the printed root tree -/
theorem encode_renders (db : V) (chars : List Char) (h : encodeDoc Spec.schema db = .ok chars) :
    ∃ t, marshalTrees Spec.schema 64 "LapTimerDB" false (.named "DB") db = .ok [t] ∧ treeOk t = true ∧
      nameOfTree t = "LapTimerDB" ∧ chars = xmlHeader ++ renderTree 0 t := by
  unfold encodeDoc at h
  simp only [spec_root, marshalValue] at h
  obtain ⟨toks, ht, hc⟩ := map_ok_inv _ _ _ h
  obtain ⟨ts, hts, htoks⟩ := map_ok_inv _ _ _ ht
  obtain ⟨t, e⟩ := marshal_single Spec.schema 63 "LapTimerDB" false (.named "DB") db ts spec_root_one (by simp) hts
  subst e
  have hokL := marshalTrees_treeOk Spec.schema spec_facts spec_names 64 _ _ _ _ _ hts spec_root_name
  have hok : treeOk t = true := by simpa [treeOkL] using hokL
  refine ⟨t, hts, hok, marshalTrees_names Spec.schema 64 _ _ _ _ _ hts t (by simp), ?_⟩
  subst hc htoks
  rw [spec_replacer, filterDoc_eq_replaceAll]
  have htok : (toksOfL [t]).all tokOk = true := by
    simpa [toksOfL] using tokOk_of_treeOk t hok
  have := replace_render {} (toksOfL [t]) htok []
  simp only [List.append_nil, replaceFrom] at this
  simp only [replaceAll, renderToks, this]
  have hr := render_root t []
  simp only [toksOfL, renderLTFrom] at hr ⊢
  rw [hr]; simp

/-! ### a small database for non-vacuity examples -/

mutual
/-- every instant in a value replaced by 2023-11-14 22:13:20 UTC (the zero time.Time is outside
    the date formats) -/
def withTimes : V → V
  | .time _ _ => .time 1700000000 0
  | .ptr v => .ptr (withTimes v)
  | .list vs => .list (withTimesL vs)
  | .struct fs => .struct (withTimesL fs)
  | v => v
def withTimesL : List V → List V
  | [] => []
  | v :: r => withTimes v :: withTimesL r
end

/-- a database named `a&b` with one (zero-valued, dated) lap and one empty vehicles element -/
def exampleDB : V :=
  .struct [.str ['a', '&', 'b'], .list [withTimes (zeroOf Spec.schema 8 (.named "Lap"))],
    .list [withTimes (zeroOf Spec.schema 8 (.named "Vehicles"))]]

/-- the recorded finding: the example lap with `AmbientTemp = 0.04` (an `omitempty` one-decimal
    field; prints as `0.0`) -/
def findingDB : V :=
  match withTimes (zeroOf Spec.schema 8 (.named "Lap")) with
  | .struct fs => .struct [.str ['a'], .list [.struct (setNth fs 9 (.flt 0x3FA47AE147AE147B))], .list []]
  | v => v

end TrackVerif.LT
