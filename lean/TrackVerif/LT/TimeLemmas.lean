import TrackVerif.LT.Days.Block1
import TrackVerif.LT.Days.Block2
import TrackVerif.LT.Days.Block3
import TrackVerif.LT.Days.Block4
import TrackVerif.LT.FmtLemmas
/-  Lemmas about the calendar model and the two date layouts. Core only. -/
namespace TrackVerif.LT.Time
open TrackVerif.LT.Fmt

theorem blockOk_elim (lo n : Nat) (h : blockOk lo n = true) (k : Nat) (hk : k < n) : dayOk (lo + k) = true := by
  unfold blockOk at h
  rw [List.all_eq_true] at h
  exact h k (List.mem_range.mpr hk)

/-- every day number of 1969-01-01 … 2068-12-31 has valid civil fields and maps back -/
theorem dayOk_range (i : Nat) (h : i < 36525) : dayOk i = true := by
  by_cases h1 : i < 9200
  · simpa using blockOk_elim 0 9200 block1_ok i h1
  by_cases h2 : i < 18400
  · have := blockOk_elim 9200 9200 block2_ok (i - 9200) (by omega)
    rwa [show 9200 + (i - 9200) = i by omega] at this
  by_cases h3 : i < 27600
  · have := blockOk_elim 18400 9200 block3_ok (i - 18400) (by omega)
    rwa [show 18400 + (i - 18400) = i by omega] at this
  · have := blockOk_elim 27600 8925 block4_ok (i - 27600) (by omega)
    rwa [show 27600 + (i - 27600) = i by omega] at this

structure ValidCivil (c : Civil) : Prop where
  year_lo : 1969 ≤ c.year
  year_hi : c.year ≤ 2068
  month_lo : 1 ≤ c.month
  month_hi : c.month ≤ 12
  day_lo : 1 ≤ c.day
  day_hi : c.day ≤ daysIn c.year c.month
  hour : c.hour < 24
  min : c.min < 60
  sec : c.sec < 60

/-- an instant between 1969-01-01T00:00:00Z and 2068-12-31T23:59:59Z has valid civil fields, and
    the civil fields determine the instant -/
theorem civilOf_valid (sec : Int) (ns : Nat) (h1 : -31536000 ≤ sec) (h2 : sec ≤ 3124223999) :
    ValidCivil (civilOf sec ns) ∧ unixOf (civilOf sec ns) = sec ∧ (civilOf sec ns).ns = ns := by
  have hd1 : -365 ≤ sec / 86400 := by omega
  have hd2 : sec / 86400 ≤ 36159 := by omega
  have hk := dayOk_range (sec / 86400 + 365).toNat (by omega)
  unfold dayOk at hk
  have hz : ((sec / 86400 + 365).toNat : Int) - 365 = sec / 86400 := by omega
  rw [hz] at hk
  simp only [Bool.and_eq_true, decide_eq_true_eq] at hk
  obtain ⟨⟨⟨⟨⟨⟨a1, a2⟩, a3⟩, a4⟩, a5⟩, a6⟩, a7⟩ := hk
  have hr : (sec % 86400).toNat < 86400 := by omega
  refine ⟨⟨a1, a2, a3, a4, a5, a6, ?_, ?_, ?_⟩, ?_, rfl⟩
  · simp only [civilOf]; omega
  · simp only [civilOf]; omega
  · simp only [civilOf]; omega
  · simp only [unixOf, civilOf]
    rw [a7]
    omega

end TrackVerif.LT.Time

namespace TrackVerif.LT.Time
open TrackVerif.LT.Fmt

/-! ### two-digit fields -/

def pad2Ok (n : Nat) : Bool :=
  match pad2 n with
  | [a, b] => isDigit a && isDigit b && digitsToNat [a, b] == n && upper a == a && upper b == b
  | _ => false

theorem pad2Ok_all : (List.range 100).all pad2Ok = true := by decide +kernel

theorem pad2_shape (n : Nat) (h : n < 100) :
    ∃ a b, pad2 n = [a, b] ∧ isDigit a = true ∧ isDigit b = true ∧ digitsToNat [a, b] = n ∧ upper a = a ∧ upper b = b := by
  have := (List.all_eq_true.mp pad2Ok_all) n (List.mem_range.mpr h)
  unfold pad2Ok at this
  split at this
  · rename_i a b heq
    simp only [Bool.and_eq_true, beq_iff_eq] at this
    exact ⟨a, b, heq, this.1.1.1.1, this.1.1.1.2, this.1.1.2, this.1.2, this.2⟩
  · cases this

theorem take2_pad2 (n : Nat) (h : n < 100) (rest : List Char) :
    take2 (toUpperAscii (pad2 n) ++ rest) = some (n, rest) := by
  obtain ⟨a, b, e, ha, hb, hv, ua, ub⟩ := pad2_shape n h
  simp [e, toUpperAscii, ua, ub, take2, ha, hb, hv]

theorem take12_pad2 (n : Nat) (h : n < 100) (rest : List Char) :
    take12 (toUpperAscii (pad2 n) ++ rest) = some (n, rest) := by
  obtain ⟨a, b, e, ha, hb, hv, ua, ub⟩ := pad2_shape n h
  simp [e, toUpperAscii, ua, ub, take12, ha, hb, hv]

theorem toUpper_append (a b : List Char) : toUpperAscii (a ++ b) = toUpperAscii a ++ toUpperAscii b := by
  simp [toUpperAscii]

theorem toUpper_cons (c : Char) (r : List Char) : toUpperAscii (c :: r) = upper c :: toUpperAscii r := by
  simp [toUpperAscii]

/-! ### month names -/

def monthOk (m : Nat) : Bool :=
  match (monthNames[m - 1]?).map fun s => toUpperAscii s.toList with
  | some [a, b, c] =>
    (match (monthNames.map fun mn => mn.toList.map lower).findIdx? (· == [lower a, lower b, lower c]) with
     | some i => i + 1 == m
     | none => false)
  | _ => false

theorem monthOk_all : (List.range 12).all (fun k => monthOk (k + 1)) = true := by decide +kernel

theorem lookupMonth_upper (m : Nat) (h1 : 1 ≤ m) (h2 : m ≤ 12) (rest : List Char) :
    lookupMonth (toUpperAscii ((monthNames[m - 1]?).getD "???").toList ++ rest) = some (m, rest) := by
  have := (List.all_eq_true.mp monthOk_all) (m - 1) (List.mem_range.mpr (by omega))
  rw [show m - 1 + 1 = m by omega] at this
  unfold monthOk at this
  split at this
  · rename_i a b c heq
    split at this
    · rename_i i hi
      have him : i + 1 = m := by simpa using this
      cases hm : monthNames[m - 1]? with
      | none => simp [hm] at heq
      | some s =>
        simp only [hm, Option.map_some, Option.some.injEq] at heq
        simp only [Option.getD_some, heq, lookupMonth, List.cons_append, List.nil_append, List.take_succ_cons,
          List.take_zero, List.map_cons, List.map_nil, hi]
        simp [him]
    · cases this
  · cases this

end TrackVerif.LT.Time

namespace TrackVerif.LT.Time
open TrackVerif.LT.Fmt

def lapToks : List Tok :=
  [.day2, .lit '-', .mon, .lit '-', .year2, .lit ',', .hour, .lit ':', .min2, .lit ':', .sec2]

def fixToks : List Tok := lapToks ++ [.frac 2]

theorem lap_layout : layoutToks "02-Jan-06,15:04:05".toList = some lapToks := by decide
theorem fix_layout : layoutToks "02-Jan-06,15:04:05.00".toList = some fixToks := by decide

theorem up_dash : upper '-' = '-' := by decide
theorem up_comma : upper ',' = ',' := by decide
theorem up_colon : upper ':' = ':' := by decide
theorem up_dot : upper '.' = '.' := by decide

theorem year_pivot (y : Int) (h1 : 1969 ≤ y) (h2 : y ≤ 2068) :
    (if (y % 100).toNat ≥ 69 then (1900 : Int) + ((y % 100).toNat : Nat) else 2000 + ((y % 100).toNat : Nat)) = y := by
  split <;> omega

/-- LapDate: the upper-cased text of valid civil fields parses back to exactly those fields -/
theorem parse_format_lap (c : Civil) (hv : ValidCivil c) :
    parse lapToks (toUpperAscii (formatToks c lapToks)) = some (unixOf c, 0) := by
  obtain ⟨y1, y2, m1, m2, d1, d2, hh, hm, hs⟩ := hv
  have hd : c.day < 100 := by
    have : daysIn c.year c.month ≤ 31 := by unfold daysIn; split <;> (try split) <;> omega
    omega
  have hy : (c.year % 100).toNat < 100 := by omega
  simp only [lapToks, formatToks]
  simp only [toUpper_append, toUpper_cons, up_dash, up_comma, up_colon, List.append_nil]
  unfold parse
  simp only [parseToks, take2_pad2 c.day hd, Option.bind_some, lookupMonth_upper c.month m1 m2,
    take2_pad2 _ hy, take12_pad2 c.hour (by omega), take2_pad2 c.min (by omega)]
  have hs2 := take2_pad2 c.sec (by omega) []
  simp only [List.append_nil] at hs2
  simp only [hs2, Option.bind_some]
  have hh' : ¬ c.hour ≥ 24 := by omega
  have hm' : ¬ c.min ≥ 60 := by omega
  have hs' : ¬ c.sec ≥ 60 := by omega
  simp only [hh', hm', hs', if_false, parseToks]
  have hp := year_pivot c.year y1 y2
  simp only [hp]
  have hday : ¬ (c.day < 1 ∨ c.day > daysIn c.year c.month) := by omega
  simp [unixOf]
  omega

/-- FixDate: the same with two fractional digits (centiseconds, truncated) -/
theorem parse_format_fix (c : Civil) (hv : ValidCivil c) (hns : c.ns < 1000000000) :
    parse fixToks (toUpperAscii (formatToks c fixToks)) = some (unixOf c, c.ns / 10000000 * 10000000) := by
  obtain ⟨y1, y2, m1, m2, d1, d2, hh, hm, hs⟩ := hv
  have hd : c.day < 100 := by
    have : daysIn c.year c.month ≤ 31 := by unfold daysIn; split <;> (try split) <;> omega
    omega
  have hy : (c.year % 100).toNat < 100 := by omega
  have hcs : c.ns / 10000000 < 100 := by omega
  simp only [fixToks, lapToks, formatToks, List.cons_append, List.nil_append]
  simp only [toUpper_append, toUpper_cons, up_dash, up_comma, up_colon, up_dot, List.append_nil]
  unfold parse
  simp only [parseToks, take2_pad2 c.day hd, Option.bind_some, lookupMonth_upper c.month m1 m2,
    take2_pad2 _ hy, take12_pad2 c.hour (by omega), take2_pad2 c.min (by omega), take2_pad2 c.sec (by omega)]
  have hh' : ¬ c.hour ≥ 24 := by omega
  have hm' : ¬ c.min ≥ 60 := by omega
  have hs' : ¬ c.sec ≥ 60 := by omega
  simp only [hh', hm', hs', if_false, parseToks]
  have hp := year_pivot c.year y1 y2
  simp only [hp]
  -- the two fraction digits
  have e9 : (10 : Nat) ^ (9 - 2) = 10000000 := by decide
  simp only [e9]
  obtain ⟨a, b, e, ha, hb, hvv, ua, ub⟩ := pad2_shape (c.ns / 10000000) hcs
  have e' : Dec.padLeft 2 '0' (natChars (c.ns / 10000000)) = [a, b] := e
  simp only [e', toUpperAscii, List.map_cons, List.map_nil, ua, ub, List.take_succ_cons, List.take_zero,
    List.length_cons, List.length_nil, List.all_cons, List.all_nil, ha, hb, Bool.and_self, Bool.and_true,
    and_self, if_true, List.drop_succ_cons, List.drop_zero, parseToks, hvv]
  simp [unixOf]
  omega

end TrackVerif.LT.Time

namespace TrackVerif.LT.Time
open TrackVerif.LT.Fmt

def ascii (c : Char) : Bool := decide (c.toNat < 128)

theorem digit_ascii (c : Char) (h : isDigit c = true) : ascii c = true := by
  simp only [isDigit, Char.isDigit, Bool.and_eq_true, decide_eq_true_eq] at h
  simp only [ascii, decide_eq_true_eq]
  have : c.val ≤ 57 := h.2
  have h2 : c.val.toNat ≤ 57 := UInt32.le_iff_toNat_le.mp this
  exact Nat.lt_of_le_of_lt h2 (by decide)

theorem pad2_ascii (n : Nat) (h : n < 100) : (pad2 n).all ascii = true := by
  obtain ⟨a, b, e, ha, hb, _, _, _⟩ := pad2_shape n h
  simp [e, digit_ascii a ha, digit_ascii b hb]

theorem months_ascii : ∀ k < 12, (((monthNames[k]?).getD "???").toList).all ascii = true := by decide +kernel

theorem format_lap_ascii (c : Civil) (hv : ValidCivil c) : (formatToks c lapToks).all ascii = true := by
  obtain ⟨y1, y2, m1, m2, d1, d2, hh, hm, hs⟩ := hv
  have hd : c.day < 100 := by
    have : daysIn c.year c.month ≤ 31 := by unfold daysIn; split <;> (try split) <;> omega
    omega
  simp only [lapToks, formatToks, List.all_append, List.all_cons, List.all_nil, Bool.and_true, Bool.and_eq_true]
  have a1 : ascii '-' = true := by decide
  have a2 : ascii ',' = true := by decide
  have a3 : ascii ':' = true := by decide
  refine ⟨pad2_ascii _ hd, a1, months_ascii (c.month - 1) (by omega), a1, pad2_ascii _ (by omega), a2,
    pad2_ascii _ (by omega), a3, pad2_ascii _ (by omega), a3, pad2_ascii _ (by omega)⟩

theorem format_fix_ascii (c : Civil) (hv : ValidCivil c) (hns : c.ns < 1000000000) :
    (formatToks c fixToks).all ascii = true := by
  have h1 := format_lap_ascii c hv
  have e9 : (10 : Nat) ^ (9 - 2) = 10000000 := by decide
  have : formatToks c fixToks = formatToks c lapToks ++ ('.' :: pad2 (c.ns / 10000000)) := by
    simp [fixToks, lapToks, formatToks, e9, pad2]
  rw [this, List.all_append, h1]
  have a4 : ascii '.' = true := by decide
  simp [a4, pad2_ascii _ (by omega : c.ns / 10000000 < 100)]

end TrackVerif.LT.Time
