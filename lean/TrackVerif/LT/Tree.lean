import TrackVerif.LT.Xml
/-
  Element trees: the shape of every token stream the marshaller produces (an element is either a
  leaf with character data or a node with child elements), their printing and what a strict
  tokenizer must return for the printed text.  Specification level, core only.
-/
namespace TrackVerif.LT.Xml
open TrackVerif.LT.Text

/-- whitespace-only character data between elements is layout, unless it is the whole content of
    an element (`<note>\t</note>`) -/
def significant : List XTok → List XTok
  | .start n as :: .text t :: .stop m :: r => .start n as :: (if t.isEmpty then [] else [.text t]) ++ .stop m :: significant r
  | .text t :: r => if t.all isSpace then significant r else .text t :: significant r
  | x :: r => x :: significant r
  | [] => []

inductive Tree
  | leaf (name : String) (attrs : List (String × List Char)) (text : List Char)
  | node (name : String) (attrs : List (String × List Char)) (kids : List Tree)
  deriving Repr

mutual
def toksOf : Tree → List XTok
  | .leaf n as t => [.start n as, .text t, .stop n]
  | .node n as kids => .start n as :: (toksOfL kids ++ [.stop n])
def toksOfL : List Tree → List XTok
  | [] => []
  | t :: ts => toksOf t ++ toksOfL ts
end

def startTag (n : String) (as : List (String × List Char)) : List Char :=
  '<' :: (n.toList ++ (as.flatMap renderAttrLT ++ ['>']))

def stopTag (n : String) : List Char := '<' :: '/' :: (n.toList ++ ['>'])

def nlTabs (d : Nat) : List Char := '\n' :: tabs d

mutual
/-- the element as the indenting printer writes it at depth `d` (without the indentation that
    precedes its start tag) -/
def renderTree (d : Nat) : Tree → List Char
  | .leaf n as t => startTag n as ++ (t.flatMap ltEscapeChar ++ stopTag n)
  | .node n as [] => startTag n as ++ stopTag n
  | .node n as (k :: ks) => startTag n as ++ (renderKids (d + 1) (k :: ks) ++ (nlTabs d ++ stopTag n))
def renderKids (d : Nat) : List Tree → List Char
  | [] => []
  | k :: ks => nlTabs d ++ (renderTree d k ++ renderKids d ks)
end

mutual
/-- what a strict tokenizer returns for `renderTree d t`: texts with non-XML characters
    substituted, indentation as whitespace character data -/
def lexedOf (d : Nat) : Tree → List XTok
  | .leaf n as t => .start n as :: ((if t = [] then [] else [.text (substitute t)]) ++ [.stop n])
  | .node n as [] => [.start n as, .stop n]
  | .node n as (k :: ks) => .start n as :: (lexedKids (d + 1) (k :: ks) ++ [.text (nlTabs d), .stop n])
def lexedKids (d : Nat) : List Tree → List XTok
  | [] => []
  | k :: ks => .text (nlTabs d) :: (lexedOf d k ++ lexedKids d ks)
end

mutual
/-- the same tree with every text as a parser must hand it back -/
def substTree : Tree → Tree
  | .leaf n as t => .leaf n as (substitute t)
  | .node n as kids => .node n as (substTreeL kids)
def substTreeL : List Tree → List Tree
  | [] => []
  | t :: ts => substTree t :: substTreeL ts
end

mutual
/-- names are schema names, attribute values need no escaping, no namespace declarations -/
def treeOk : Tree → Bool
  | .leaf n as _ => xmlNameOk n && as.all attrOk && !(as.map (·.1)).any (fun a => a.startsWith "xmlns")
  | .node n as kids => xmlNameOk n && as.all attrOk && !(as.map (·.1)).any (fun a => a.startsWith "xmlns") && treeOkL kids
def treeOkL : List Tree → Bool
  | [] => true
  | t :: ts => treeOk t && treeOkL ts
end

mutual
/-- rebuild the element tree from a marshalled token stream (run-time side of the theorems'
    premise "the stream is `toksOf` of a tree") -/
def parseTree : Nat → List XTok → Option (Tree × List XTok)
  | 0, _ => none
  | fuel + 1, .start n as :: .text t :: .stop m :: r => if n == m then some (.leaf n as t, r) else none
  | fuel + 1, .start n as :: r =>
    match parseKids fuel r with
    | some (kids, .stop m :: r') => if n == m then some (.node n as kids, r') else none
    | _ => none
  | _, _ => none
def parseKids : Nat → List XTok → Option (List Tree × List XTok)
  | 0, _ => none
  | fuel + 1, toks =>
    match toks with
    | .start _ _ :: _ =>
      match parseTree fuel toks with
      | some (t, r) => (parseKids fuel r).map fun (ts, r') => (t :: ts, r')
      | none => none
    | _ => some ([], toks)
end

/-- the tree behind a token stream, if the stream is exactly one well-formed element -/
def treeOfToks (toks : List XTok) : Option Tree :=
  match parseTree (toks.length + 1) toks with
  | some (t, []) => if toksOf t == toks then some t else none
  | _ => none

/-! ### Generic content trees (decoder side): what the tokenizer's stream means before any schema -/

inductive Node
  | text (s : List Char)
  | elem (name : String) (attrs : List (String × List Char)) (kids : List Node)
  deriving Repr, Inhabited

inductive Parsed (α : Type)
  | ok (v : α) (rest : List XTok)
  | bad (unmodelled : Bool)          -- the tokenizer failed, or the stream ended inside an element
  deriving Repr

mutual
/-- the content of the current element, up to and including its end tag -/
def parseNodes : Nat → List XTok → Parsed (List Node)
  | 0, _ => .bad true
  | _, [] => .bad false
  | fuel + 1, .bad u :: _ => .bad u
  | fuel + 1, .stop _ :: r => .ok [] r
  | fuel + 1, .text t :: r =>
    match parseNodes fuel r with
    | .ok ns r' => .ok (.text t :: ns) r'
    | .bad u => .bad u
  | fuel + 1, .start n as :: r =>
    match parseNodes fuel r with
    | .ok kids r' =>
      match parseNodes fuel r' with
      | .ok ns r'' => .ok (.elem n as kids :: ns) r''
      | .bad u => .bad u
    | .bad u => .bad u
end

/-- concatenated character data directly inside an element (child elements are skipped) -/
def textOf : List Node → List Char
  | [] => []
  | .text t :: r => t ++ textOf r
  | .elem _ _ _ :: r => textOf r

mutual
/-- the content trees the decoder builds from `lexedOf d t` (element itself) -/
def nodeOf (d : Nat) : Tree → Node
  | .leaf n as t => .elem n as (if t = [] then [] else [.text (substitute t)])
  | .node n as [] => .elem n as []
  | .node n as (k :: ks) => .elem n as (nodesOfKids (d + 1) (k :: ks) ++ [.text (nlTabs d)])
def nodesOfKids (d : Nat) : List Tree → List Node
  | [] => []
  | k :: ks => .text (nlTabs d) :: nodeOf d k :: nodesOfKids d ks
end

end TrackVerif.LT.Xml
