import TrackVerif.LT.Schema
import TrackVerif.LT.SpecSchema
/-
  Declarative side of C01 / C13, independent of the encoder/decoder model:
    * `quant` — what a database value looks like at the format's stated precision
      (centiseconds, whole seconds for lap dates, fixed decimals, XML-representable text);
    * field grammars of LapTimer's import syntax as decidable predicates on strings.
  Core only.
-/
namespace TrackVerif.LT.Spec
open TrackVerif TrackVerif.Gen TrackVerif.LT TrackVerif.LT.Fmt

def schema : Schema :=
  { structs := SpecSchema.structs, named := SpecSchema.named, methodLits := SpecSchema.methodLits,
    marshalers := SpecSchema.marshalers, unmarshalers := SpecSchema.unmarshalers,
    replacer := SpecSchema.replacer }

/-! ### Stated precision -/

/-- a float at `p` decimals: the double nearest to the decimal that `%.pf` prints -/
def quantFloat (p : Nat) (b : UInt64) : Option UInt64 :=
  (Dec.fixedQ b p).map fun (neg, n) => Dec.decimalToBits neg n (-(p : Int))

def fixedPrec : String → Option Nat
  | "Float" => some 6
  | "Float0dp" => some 0
  | "Float1dp" => some 1
  | "Float2dp" => some 2
  | _ => none

mutual
/-- a value at the format's precision; `none` = outside the format's domain (negative duration,
    non-finite float, year outside 1969..2068 …) -/
def quant (s : Schema) : Nat → LtType → V → Option V
  | 0, _, _ => none
  | fuel + 1, ty, v =>
    match headName ty, v with
    | some "Duration", .int d => if d < 0 then none else some (.int (d - d % 10000000))
    | some "SyncPoint", .int d =>
      -- printed as seconds with two decimals (rounded), read back as whole centiseconds
      (match secondsBits d with
       | .ok b => (Dec.fixedQ b 2).map fun (_, n) => V.int ((n : Int) * 10000000)
       | _ => none)
    | some "LapDate", .time sec _ =>
      if -31536000 ≤ sec ∧ sec ≤ 3124223999 then some (.time sec 0) else none
    | some "FixDate", .time sec ns =>
      if -31536000 ≤ sec ∧ sec ≤ 3124223999 then some (.time sec (ns - ns % 10000000)) else none
    | some "Coordinate", .struct [.flt la, .flt lo] =>
      (quantFloat 8 la).bind fun a => (quantFloat 8 lo).map fun b => V.struct [.flt a, .flt b]
    | some "AltitudeCoordinate", .struct [.struct [.flt la, .flt lo], .flt al] =>
      (quantFloat 8 la).bind fun a => (quantFloat 8 lo).bind fun b => (quantFloat 1 al).map fun c =>
        V.struct [.struct [.flt a, .flt b], .flt c]
    | some "RelativeToStart", .struct [.flt d, .int off] =>
      if off < 0 then none else (quantFloat 1 d).map fun q => V.struct [.flt q, .int (off - off % 10000000)]
    | some "Intermediates", .list items =>
      (items.mapM fun (it : V) => match it with
        | V.struct [.int t, .flt d] => if t < 0 then none else (quantFloat 1 d).map fun q => V.struct [.int (t - t % 10000000), .flt q]
        | _ => none).map V.list
    | some "Gear", .struct [.int n, .flt r] => (quantFloat 6 r).map fun q => V.struct [.int n, .flt q]
    | some n, .flt b =>
      (match fixedPrec n with
       | some p => (quantFloat p b).map V.flt
       | none => quantPlain s fuel ty v)
    | _, _ => quantPlain s fuel ty v

def quantPlain (s : Schema) : Nat → LtType → V → Option V
  | 0, _, _ => none
  | fuel + 1, ty, v =>
    match kindOf s 8 ty, v with
    | .ptr _, .nil => some .nil
    | .ptr t', .ptr v' => (quant s fuel t' v').map V.ptr
    | .slice t', .list vs => (vs.mapM (quant s fuel t')).map V.list
    | .structT n, .struct fs =>
      (match s.fieldsOf n with
       | some fields =>
         let dfs := dataFields fields
         if dfs.length ≠ fs.length then none
         else ((dfs.zip fs).mapM fun (p : LtField × V) => quant s fuel p.1.typ p.2).map V.struct
       | none => none)
    | .string, .str t => some (.str (Text.substitute t))
    | .int, .int i => some (.int i)
    | .bool, .bool b => some (.bool b)
    | .float, .flt b =>
      -- shortest round-trip representation: exact for every finite value
      (match Dec.classify b with | .finite _ => some (.flt b) | _ => none)
    | _, _ => none
end

/-! ### LapTimer's field syntax (C13) -/

def allDigits (s : List Char) : Bool := !s.isEmpty && s.all isDigit

/-- `[-]digits.dd…d` with exactly `p` decimals (no point when p = 0) -/
def isFixed (p : Nat) (s : List Char) : Bool :=
  let body := match s with | '-' :: r => r | _ => s
  match splitOnChar '.' body with
  | [ip] => p == 0 && allDigits ip
  | [ip, fp] => p > 0 && allDigits ip && fp.length == p && fp.all isDigit
  | _ => false

/-- `MM:SS.cc` — at least two minute digits, seconds 00..59, two centisecond digits -/
def isDuration (s : List Char) : Bool :=
  match splitOnChar ':' s with
  | [m, rest] =>
    (match splitOnChar '.' rest with
     | [ss, cc] => m.length ≥ 2 && allDigits m && ss.length == 2 && allDigits ss && digitsToNat ss < 60
                   && cc.length == 2 && allDigits cc
     | _ => false)
  | _ => false

def upperMonths : List String := ["JAN", "FEB", "MAR", "APR", "MAY", "JUN", "JUL", "AUG", "SEP", "OCT", "NOV", "DEC"]

def isTwo (s : List Char) (lo hi : Nat) : Bool :=
  s.length == 2 && allDigits s && lo ≤ digitsToNat s && digitsToNat s ≤ hi

/-- `DD-MON-YY,HH:MM:SS` (upper-case month) -/
def isLapDate (s : List Char) : Bool :=
  match splitOnChar ',' s with
  | [d, t] =>
    (match splitOnChar '-' d, splitOnChar ':' t with
     | [dd, mon, yy], [hh, mm, ss] =>
       isTwo dd 1 31 && upperMonths.contains (String.ofList mon) && isTwo yy 0 99 &&
       isTwo hh 0 23 && isTwo mm 0 59 && isTwo ss 0 59
     | _, _ => false)
  | _ => false

/-- `DD-MON-YY,HH:MM:SS.cc` -/
def isFixDate (s : List Char) : Bool :=
  match splitOnChar '.' s with
  | [a, cc] => isLapDate a && isTwo cc 0 99
  | _ => false

def isInt (s : List Char) : Bool :=
  match s with | '-' :: r => allDigits r | _ => allDigits s

def isCoord2 (s : List Char) : Bool :=
  match splitOnChar ',' s with | [a, b] => isFixed 8 a && isFixed 8 b | _ => false

def isCoord3 (s : List Char) : Bool :=
  match splitOnChar ',' s with | [a, b, c] => isFixed 8 a && isFixed 8 b && isFixed 1 c | _ => false

def isPositioning (s : List Char) : Bool :=
  match splitOnChar ',' s with | [a, b, c] => isInt a && isInt b && (c == ['0'] || c == ['1']) | _ => false

def isRelToStart (s : List Char) : Bool :=
  match splitOnChar ',' s with | [a, b] => isFixed 1 a && isDuration b | _ => false

/-- one `MM:SS.cc,dist` per line, each line indented, closing indentation -/
def isIntermediates (s : List Char) : Bool :=
  let lines := (splitOnChar '\n' s).map trimSpace |>.filter (!·.isEmpty)
  !lines.isEmpty && lines.all fun l =>
    match splitOnChar ',' l with | [t, d] => isDuration t && isFixed 1 d | _ => false

/-- the grammar a structured element must satisfy, by (parent element, element) -/
def grammarOf (parent name : String) : Option (List Char → Bool) :=
  match parent, name with
  | "lap", "date" => some isLapDate
  | "fix", "date" => some isFixDate
  | _, "lapTime" => some isDuration
  | "fix", "coordinate" => some isCoord3
  | "acceleration", "coordinate" => some isCoord2
  | _, "positioning" => some isPositioning
  | _, "relativeToStart" => some isRelToStart
  | _, "intermediates" => some isIntermediates
  | _, "syncPoint" => some (isFixed 2)
  | "lap", "overallDistance" => some (isFixed 1)
  | "lap", "ambientTemp" => some (isFixed 1)
  | "lap", "ambientPressure" => some (isFixed 0)
  | "lap", "relativeHumidity" => some (isFixed 2)
  | "fix", "speed" => some (isFixed 1)
  | "fix", "direction" => some (isFixed 1)
  | "fix", "hdop" => some (isFixed 2)
  | "fix", "accuracy" => some (isFixed 1)
  | "acceleration", "lateral" => some (isFixed 2)
  | "acceleration", "lineal" => some (isFixed 2)
  | "obd", "maf" => some (isFixed 2)
  | "obd", "speed" => some (isFixed 1)
  | "obd", "throttle" => some (isFixed 2)
  | "obd", "fuelLevel" => some (isFixed 2)
  | "obd", "coolant" => some (isFixed 1)
  | "obd", "oil" => some (isFixed 1)
  | "obd", "map" => some (isFixed 2)
  | "obd", "iat" => some (isFixed 0)
  | "tire", "temperatures" => some (isFixed 1)
  | "vehicledef", "powerloss" => some (isFixed 6)
  | "vehicledef", "cW" => some (isFixed 6)
  | "vehicledef", "unladenWeight" => some (isFixed 6)
  | "vehicledef", "payload" => some (isFixed 6)
  | "vehicledef", "grossVehicleMass" => some (isFixed 6)
  | "vehicledef", "driveRatio" => some (isFixed 6)
  | "vehicledef", "tankVolume" => some (isFixed 6)
  | "vehicledef", "turningCircle" => some (isFixed 1)
  | _, _ => none

/-- every structured element of a token stream meets its grammar; returns the first offender -/
def checkGrammar : List String → List Xml.XTok → Option (String × List Char)
  | _, [] => none
  | st, .start n _ :: .text t :: .stop _ :: r =>
    (match grammarOf (st.headD "") n with
     | some g => if g t then checkGrammar st r else some (n, t)
     | none => checkGrammar st r)
  | st, .start n _ :: .stop _ :: r =>
    (match grammarOf (st.headD "") n with
     | some g => if g [] then checkGrammar st r else some (n, [])
     | none => checkGrammar st r)
  | st, .start n _ :: r => checkGrammar (n :: st) r
  | st, .stop _ :: r => checkGrammar (st.drop 1) r
  | st, _ :: r => checkGrammar st r

end TrackVerif.LT.Spec
