import TrackVerif.LT.Schema
/-
  Leaf-wise round trip.  `rtOf` walks a value along its schema type exactly as the marshaller
  does and, at every leaf (a custom text codec, a plain int / float / bool / string, an
  attribute), pushes the value through "print, substitute non-XML characters, parse".  No XML is
  involved.  The structure theorem (PropsC01) says: whenever `rtOf` succeeds, decoding the
  encoded document yields exactly its result — so the whole-document round trip is reduced to
  the leaf codecs, which are proved (durations, dates, tags, …) or, for the float-based ones,
  evaluated on every generated database.  Core only.
-/
namespace TrackVerif.LT
open TrackVerif TrackVerif.Gen

/-- print one leaf the way the encoder does -/
def leafText (s : Schema) (ty : LtType) (v : V) : Outcome (List Char) :=
  match customM s ty with
  | some n => customText s n v
  | none => simpleText (kindOf s 8 ty) v

/-- parse one leaf the way the decoder does, into a field that holds `cur` -/
def leafParse (s : Schema) (ty : LtType) (cur : V) (t : List Char) : Outcome V :=
  match customU s ty with
  | some n => customParse s n cur t
  | none => if isSimple (kindOf s 8 ty) then copyValue (kindOf s 8 ty) t else .unmodelled

/-- one leaf pushed through "print, substitute non-XML characters, parse into a field holding `cur`" -/
def leafRT (s : Schema) (ty : LtType) (cur v : V) : Option V :=
  match leafText s ty v with
  | .ok t => (match leafParse s ty cur (Text.substitute t) with | .ok q => some q | _ => none)
  | _ => none

def optionOfAll {α : Type} : List (Option α) → Option (List α)
  | [] => some []
  | none :: _ => none
  | some a :: r => (optionOfAll r).map (a :: ·)

/-- printed as exactly one element: a custom or simple leaf, or a struct -/
def oneElement (s : Schema) (ty : LtType) : Bool :=
  match kindOf s 8 ty with
  | .ptr _ => false
  | .structT _ => true
  | k => (customM s ty).isSome || isSimple k

/-- the items of a slice field that holds `cur` -/
def itemsOf : V → List V
  | .list xs => xs
  | _ => []

/-- what a pointer field that holds `cur` points to when the decoder fills it -/
def ptrTarget (s : Schema) (t' : LtType) : V → V
  | .ptr c => c
  | _ => zeroOf s 8 t'

/-- a slice field that holds `cur` after the decoder has appended the items `qs`, one by one -/
def appendTo (cur : V) (qs : List V) : V :=
  qs.foldl (fun c q => V.list (itemsOf c ++ [q])) cur

/-- one field of a struct: the field, what the destination holds, the value encoded -/
def rtField (s : Schema) (recur : Bool → LtType → V → V → Option V) (p : LtField × V × V) : Option V :=
  if p.1.attr then (if p.1.omitempty then none else leafRT s p.1.typ p.2.1 p.2.2)
  else recur p.1.omitempty p.1.typ p.2.1 p.2.2

/-- the non-pointer part of `rtOf` -/
def rtRest (s : Schema) (recur : Bool → LtType → V → V → Option V) (om : Bool) (ty : LtType) (k : Kind)
    (cur v : V) : Option V :=
  match customM s ty with
  | some _ => leafRT s ty cur v
  | none =>
    match k, v with
    | .slice t', .list vs =>
      -- one element per item; an item that `omitempty` would drop cannot be carried
      if vs.any (fun e => om && isEmptyValue (kindOf s 8 t') e) || !oneElement s t' then none
      else (optionOfAll (vs.map (recur false t' (zeroOf s 8 t')))).map (appendTo cur)
    | .structT n, .struct fs =>
      (match s.fieldsOf n, cur with
       | some fields, .struct cs =>
         let dfs := dataFields fields
         if dfs.length ≠ fs.length ∨ dfs.length ≠ cs.length then none else
         (optionOfAll ((dfs.zip (cs.zip fs)).map (rtField s recur))).map V.struct
       | _, _ => none)
    | _, _ => if isSimple k then leafRT s ty cur v else none

/-- the value a decoder, decoding into a destination that holds `cur`, returns for the encoding
    of `v`, computed leaf by leaf along the same walk as `marshalTrees`; `none` when some leaf
    does not survive its codec or the value has a shape the format cannot carry -/
def rtOf (s : Schema) : Nat → Bool → LtType → V → V → Option V
  | 0, _, _, _, _ => none
  | fuel + 1, om, ty, cur, v =>
    if om && isEmptyValue (kindOf s 8 ty) v then some cur     -- omitted: the field keeps what it holds
    else match kindOf s 8 ty, v with
    | .ptr _, .nil => some cur
    | .ptr t', .ptr v' =>
      if oneElement s t' then
        (rtOf s fuel false t' (ptrTarget s t' cur) v').map V.ptr
      else none
    | .ptr _, _ => none
    | k, v => rtRest s (rtOf s fuel) om ty k cur v

end TrackVerif.LT

namespace TrackVerif.LT
open TrackVerif TrackVerif.Gen

/-! ### when the decoded value prints the same document again -/

/-- `cur` is what a fresh destination of type `ty` holds (down to the leaves) -/
def isZero (s : Schema) : Nat → LtType → V → Bool
  | 0, _, _ => false
  | fuel + 1, ty, v =>
    match kindOf s 8 ty, v with
    | .int, .int i => i == 0
    | .float, .flt b => b == 0
    | .string, .str t => t.isEmpty
    | .bool, .bool b => !b
    | .time, .time _ _ => true
    | .ptr _, .nil => true
    | .slice _, .list xs => xs.isEmpty
    | .structT n, .struct cs =>
      (match s.fieldsOf n with
       | some fields =>
         (dataFields fields).length == cs.length &&
           ((dataFields fields).zip cs).all fun p => isZero s fuel p.1.typ p.2
       | none => false)
    | _, _ => false

/-- one leaf: the decoded value prints the same text, and `omitempty` treats it the same way -/
def leafStable (s : Schema) (om : Bool) (ty : LtType) (cur v : V) : Bool :=
  match leafRT s ty cur v with
  | none => true
  | some q => decide (leafText s ty q = leafText s ty v) && !(om && isEmptyValue (kindOf s 8 ty) q)

def fieldStable (s : Schema) (recur : Bool → LtType → V → V → Bool) (p : LtField × V × V) : Bool :=
  if p.1.attr then leafStable s false p.1.typ p.2.1 p.2.2
  else recur p.1.omitempty p.1.typ p.2.1 p.2.2

def stableRest (s : Schema) (rt : Bool → LtType → V → V → Option V) (recur : Bool → LtType → V → V → Bool)
    (om : Bool) (ty : LtType) (k : Kind) (cur v : V) : Bool :=
  match customM s ty with
  | some _ => leafStable s om ty cur v
  | none =>
    match k, v with
    | .slice t', .list vs =>
      vs.all fun e => recur false t' (zeroOf s 8 t') e &&
        (match rt false t' (zeroOf s 8 t') e with
         | some q => !(om && isEmptyValue (kindOf s 8 t') q)
         | none => true)
    | .structT n, .struct fs =>
      (match s.fieldsOf n, cur with
       | some fields, .struct cs => ((dataFields fields).zip (cs.zip fs)).all (fieldStable s recur)
       | _, _ => true)
    | _, _ => leafStable s om ty cur v

/-- every leaf of `v` is stable and every destination on the way is fresh: then (theorem
    `reencode_stable`) the decoded value is marshalled to the same trees as `v` -/
def stableOf (s : Schema) : Nat → Bool → LtType → V → V → Bool
  | 0, _, _, _, _ => false
  | fuel + 1, om, ty, cur, v =>
    isZero s 8 ty cur &&
    (if om && isEmptyValue (kindOf s 8 ty) v then true
     else match kindOf s 8 ty, v with
     | .ptr _, .nil => true
     | .ptr t', .ptr v' => stableOf s fuel false t' (ptrTarget s t' cur) v'
     | .ptr _, _ => true
     | k, v => stableRest s (rtOf s fuel) (stableOf s fuel) om ty k cur v)

end TrackVerif.LT
