import TrackVerif.LT.MarshalInv
/-  Inversion of the leaf-wise round trip `rtOf`.  Core only. -/
namespace TrackVerif.LT
open TrackVerif TrackVerif.Gen TrackVerif.LT.Xml

inductive RCase (s : Schema) (f : Nat) (om : Bool) (ty : LtType) (cur v : V) (q : V) : Prop
  | omitted : om = true → isEmptyValue (kindOf s 8 ty) v = true → q = cur → RCase s f om ty cur v q
  | ptrNil (t' : LtType) : (om && isEmptyValue (kindOf s 8 ty) v) = false → kindOf s 8 ty = .ptr t' → v = .nil →
      q = cur → RCase s f om ty cur v q
  | ptr (t' : LtType) (v' q' : V) : (om && isEmptyValue (kindOf s 8 ty) v) = false → kindOf s 8 ty = .ptr t' →
      v = .ptr v' → oneElement s t' = true →
      rtOf s f false t' (ptrTarget s t' cur) v' = some q' → q = .ptr q' →
      RCase s f om ty cur v q
  | custom (n : String) : (om && isEmptyValue (kindOf s 8 ty) v) = false → (∀ t', kindOf s 8 ty ≠ .ptr t') →
      customM s ty = some n → leafRT s ty cur v = some q → RCase s f om ty cur v q
  | slice (t' : LtType) (vs qs : List V) : (om && isEmptyValue (kindOf s 8 ty) v) = false → customM s ty = none →
      kindOf s 8 ty = .slice t' → v = .list vs → vs.any (fun e => om && isEmptyValue (kindOf s 8 t') e) = false →
      oneElement s t' = true → AllRel (fun e r => rtOf s f false t' (zeroOf s 8 t') e = some r) vs qs →
      q = appendTo cur qs → RCase s f om ty cur v q
  | struct (n : String) (fs cs qs : List V) (fields : List LtField) :
      (om && isEmptyValue (kindOf s 8 ty) v) = false →
      customM s ty = none → kindOf s 8 ty = .structT n → v = .struct fs → cur = .struct cs →
      s.fieldsOf n = some fields →
      (dataFields fields).length = fs.length → (dataFields fields).length = cs.length →
      AllRel (fun p r => rtField s (rtOf s f) p = some r) ((dataFields fields).zip (cs.zip fs)) qs → q = .struct qs →
      RCase s f om ty cur v q
  | simple : (om && isEmptyValue (kindOf s 8 ty) v) = false → customM s ty = none →
      isSimple (kindOf s 8 ty) = true → leafRT s ty cur v = some q → RCase s f om ty cur v q

theorem rtOf_succ (s : Schema) (f : Nat) (om : Bool) (ty : LtType) (cur v : V) :
    rtOf s (f + 1) om ty cur v =
      if om && isEmptyValue (kindOf s 8 ty) v then some cur
      else match kindOf s 8 ty, v with
      | .ptr _, .nil => some cur
      | .ptr t', .ptr v' =>
        if oneElement s t' then
          (rtOf s f false t' (ptrTarget s t' cur) v').map V.ptr
        else none
      | .ptr _, _ => none
      | k, v => rtRest s (rtOf s f) om ty k cur v := by
  conv => lhs; unfold rtOf
  split
  · rfl
  · cases kindOf s 8 ty <;> cases v <;> rfl

theorem optionOfAll_map {α β : Type} (g : α → Option β) (l : List α) (rs : List β)
    (h : optionOfAll (l.map g) = some rs) : AllRel (fun a r => g a = some r) l rs := by
  induction l generalizing rs with
  | nil => simp [optionOfAll] at h; subst h; exact AllRel.nil
  | cons a l ih =>
    simp only [List.map_cons] at h
    cases hg : g a with
    | none => simp [hg, optionOfAll] at h
    | some b =>
      simp only [hg, optionOfAll, Option.map_eq_some_iff] at h
      obtain ⟨rs', h1, h2⟩ := h
      subst h2
      exact AllRel.cons hg (ih rs' h1)

theorem rtRest_inv (s : Schema) (f : Nat) (om : Bool) (ty : LtType) (cur v q : V)
    (hom : (om && isEmptyValue (kindOf s 8 ty) v) = false) (hnp : ∀ t', kindOf s 8 ty ≠ .ptr t')
    (h : rtRest s (rtOf s f) om ty (kindOf s 8 ty) cur v = some q) : RCase s f om ty cur v q := by
  unfold rtRest at h
  cases hc : customM s ty with
  | some n =>
    simp only [hc] at h
    exact RCase.custom n hom hnp hc h
  | none =>
    simp only [hc] at h
    generalize hk : kindOf s 8 ty = k at h hom hnp
    cases k with
    | slice t' =>
      cases v with
      | list vs =>
        simp only at h
        by_cases hg : (vs.any (fun e => om && isEmptyValue (kindOf s 8 t') e) || !oneElement s t') = true
        · simp [hg] at h
        · have hg' : (vs.any (fun e => om && isEmptyValue (kindOf s 8 t') e) || !oneElement s t') = false := by
            simpa using hg
          simp only [hg', Bool.false_eq_true, if_false, Option.map_eq_some_iff] at h
          obtain ⟨qs, h1, h2⟩ := h
          simp only [Bool.or_eq_false_iff, Bool.not_eq_false'] at hg'
          exact RCase.slice t' vs qs (by rw [hk]; exact hom) hc hk rfl hg'.1 hg'.2 (optionOfAll_map _ vs qs h1) h2.symm
      | _ => simp [isSimple] at h
    | structT n =>
      cases v with
      | struct fs =>
        simp only at h
        cases hf : s.fieldsOf n with
        | none => simp [hf] at h
        | some fields =>
          cases cur with
          | struct cs =>
            simp only [hf] at h
            by_cases hl : (dataFields fields).length ≠ fs.length ∨ (dataFields fields).length ≠ cs.length
            · simp [hl] at h
            · simp only [hl, if_false, Option.map_eq_some_iff] at h
              obtain ⟨qs, h1, h2⟩ := h
              have hl' : (dataFields fields).length = fs.length ∧ (dataFields fields).length = cs.length := by
                constructor
                · exact Decidable.byContradiction fun e => hl (Or.inl e)
                · exact Decidable.byContradiction fun e => hl (Or.inr e)
              exact RCase.struct n fs cs qs fields (by rw [hk]; exact hom) hc hk rfl rfl hf hl'.1 hl'.2
                (optionOfAll_map _ _ qs h1) h2.symm
          | _ => simp [hf] at h
      | _ => simp [isSimple] at h
    | int | float | bool | string =>
      all_goals (
        have hs : isSimple (kindOf s 8 ty) = true := by rw [hk]; rfl
        cases v <;> simp [isSimple] at h <;>
          exact RCase.simple (by rw [hk]; exact hom) hc hs h)
    | ptr t' => exact absurd rfl (hnp t')
    | time | unit | unknown =>
      all_goals (cases v <;> simp [isSimple] at h)

theorem rtOf_inv (s : Schema) (f : Nat) (om : Bool) (ty : LtType) (cur v q : V)
    (h : rtOf s (f + 1) om ty cur v = some q) : RCase s f om ty cur v q := by
  rw [rtOf_succ] at h
  by_cases hom : (om && isEmptyValue (kindOf s 8 ty) v) = true
  · simp only [hom, if_true] at h
    injection h with h
    simp only [Bool.and_eq_true] at hom
    exact RCase.omitted hom.1 hom.2 h.symm
  · have hom' : (om && isEmptyValue (kindOf s 8 ty) v) = false := by simpa using hom
    simp only [hom', Bool.false_eq_true, if_false] at h
    cases hk : kindOf s 8 ty with
    | ptr t' =>
      rw [hk] at h
      cases v with
      | nil => simp only at h; injection h with h; exact RCase.ptrNil t' hom' hk rfl h.symm
      | ptr v' =>
        simp only at h
        by_cases ho : oneElement s t' = true
        · simp only [ho, if_true, Option.map_eq_some_iff] at h
          obtain ⟨q', h1, h2⟩ := h
          exact RCase.ptr t' v' q' hom' hk rfl ho h1 h2.symm
        · simp [ho] at h
      | _ => simp at h
    | _ =>
      rw [hk] at h
      all_goals (
        have hnp : ∀ t', kindOf s 8 ty ≠ .ptr t' := by intro t' e; rw [hk] at e; cases e
        have h' : rtRest s (rtOf s f) om ty (kindOf s 8 ty) cur v = some q := by rw [hk]; simpa using h
        exact rtRest_inv s f om ty cur v q hom' hnp h')

end TrackVerif.LT
