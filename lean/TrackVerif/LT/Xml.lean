import TrackVerif.Common.Outcome
import TrackVerif.LT.Text
/-
  The XML layer between the LapTimer value and the bytes:
    * `XTok` — start / end / text events, what encoding/xml's printer is fed;
    * `renderToks` — the printer with `Indent("", "\t")` (writeIndent state machine) and
      `EscapeText` for character data and attribute values;
    * `lex` — the tokenizer half of encoding/xml's Decoder for the constructs that occur in
      LapTimer files (declaration, elements, attributes, character data with entity and
      character references, comments, CDATA); everything else answers `unmodelled`.
  Core only.
-/
namespace TrackVerif.LT.Xml
open TrackVerif TrackVerif.LT.Text

inductive XTok
  | start (name : String) (attrs : List (String × List Char))
  | stop (name : String)
  | text (s : List Char)
  | bad (unmodelled : Bool)      -- decoder side only: the tokenizer fails here (lazily, as Go's does)
  deriving Repr, DecidableEq

/-! ### Printer -/

structure PSt where
  depth : Nat := 0
  indentedIn : Bool := false
  putNewline : Bool := false
  deriving Repr

def tabs (n : Nat) : List Char := List.replicate n '\t'

/-- `printer.writeIndent(+1)` -/
def indentIn (p : PSt) : List Char × PSt :=
  ((if p.putNewline then ['\n'] else []) ++ tabs p.depth,
   { depth := p.depth + 1, indentedIn := true, putNewline := true })

/-- `printer.writeIndent(-1)` -/
def indentOut (p : PSt) : List Char × PSt :=
  let d := p.depth - 1
  if p.indentedIn then ([], { p with depth := d, indentedIn := false })
  else ((if p.putNewline then ['\n'] else []) ++ tabs d, { depth := d, indentedIn := false, putNewline := true })

def renderAttr (a : String × List Char) : List Char :=
  ' ' :: a.1.toList ++ ['=', '"'] ++ goEscape a.2 ++ ['"']

def renderTok (p : PSt) : XTok → List Char × PSt
  | .start n as =>
    let (ind, p') := indentIn p
    (ind ++ '<' :: n.toList ++ as.flatMap renderAttr ++ ['>'], p')
  | .stop n =>
    let (ind, p') := indentOut p
    (ind ++ '<' :: '/' :: n.toList ++ ['>'], p')
  | .text s => (goEscape s, p)
  | .bad _ => ([], p)

def renderToksFrom (p : PSt) : List XTok → List Char
  | [] => []
  | t :: ts => let (out, p') := renderTok p t; out ++ renderToksFrom p' ts

def renderToks (ts : List XTok) : List Char := renderToksFrom {} ts

/-! ### The same printer with LapTimer's character spelling (what the file contains after the
      encoder's replacer has run): a specification-level definition, see `replace_render` -/

def renderAttrLT (a : String × List Char) : List Char :=
  ' ' :: a.1.toList ++ ['=', '"'] ++ a.2.flatMap ltEscapeChar ++ ['"']

def renderTokLT (p : PSt) : XTok → List Char × PSt
  | .start n as =>
    let (ind, p') := indentIn p
    (ind ++ '<' :: n.toList ++ as.flatMap renderAttrLT ++ ['>'], p')
  | .stop n =>
    let (ind, p') := indentOut p
    (ind ++ '<' :: '/' :: n.toList ++ ['>'], p')
  | .text s => (s.flatMap ltEscapeChar, p)
  | .bad _ => ([], p)

def renderLTFrom (p : PSt) : List XTok → List Char
  | [] => []
  | t :: ts => let (out, p') := renderTokLT p t; out ++ renderLTFrom p' ts

/-- element and attribute names free of '&' (every XML name is) -/
def nameOk (n : String) : Bool := n.toList.all (· != '&')

def tokOk : XTok → Bool
  | .start n as => nameOk n && as.all (fun a => nameOk a.1)
  | .stop n => nameOk n
  | _ => true

/-- an XML name as the schema uses them: ASCII letter or '_' first, then letters, digits, '_',
    '.', '-'; no ':' -/
def xmlNameOk (n : String) : Bool :=
  match n.toList with
  | [] => false
  | c :: cs => (c.isAlpha || c = '_') && (c :: cs).all (fun x => (x.isAlphanum || x = '_' || x = '.' || x = '-') && x.toNat < 128)

/-- attribute values that need no escaping (the only attribute in use is an integer index) -/
def plainVal (v : List Char) : Bool := v.all fun c => c.isDigit || c = '-'

def attrOk (a : String × List Char) : Bool := xmlNameOk a.1 && plainVal a.2

def xmlHeader : List Char := "<?xml version=\"1.0\" encoding=\"UTF-8\"?>\n".toList

/-! ### Tokenizer (decoder side) -/

def isNameStart (c : Char) : Bool := c.isAlpha || c = '_' || c = ':'
def isNameChar (c : Char) : Bool := c.isAlphanum || c = '_' || c = ':' || c = '.' || c = '-'
def isSpace (c : Char) : Bool := c = ' ' || c = '\r' || c = '\n' || c = '\t'

def skipSpace : List Char → List Char
  | [] => []
  | c :: cs => if isSpace c then skipSpace cs else c :: cs

def takeName : List Char → List Char × List Char
  | [] => ([], [])
  | c :: cs => if isNameChar c then let r := takeName cs; (c :: r.1, r.2) else ([], c :: cs)

inductive Lexed (α : Type)
  | ok (v : α) (rest : List Char)
  | err
  | unmodelled
  deriving Repr

/-- a name as Go reads it; non-ASCII names and names with a namespace prefix are not modelled -/
def readName (s : List Char) : Lexed String :=
  match s with
  | [] => .err
  | c :: _ =>
    if c.toNat ≥ 128 then .unmodelled
    else if !isNameStart c then .err
    else
      let (n, rest) := takeName s
      if n.contains ':' then .unmodelled
      else match rest with
        | d :: _ => if d.toNat ≥ 128 then .unmodelled else .ok (String.ofList n) rest
        | [] => .ok (String.ofList n) rest

/-- text up to (not including) the terminator ('<' for character data, the quote for an
    attribute value): entity and character references resolved, raw CR / CRLF → LF, `]]>` and
    (in attribute values) a raw '<' rejected, every character checked against the XML range.
    The first argument counts characters of a reference still to be passed over. -/
def readTextFrom (quote : Option Char) : Nat → List Char → Lexed (List Char)
  | _, [] => (match quote with | none => .ok [] [] | some _ => .err)      -- EOF inside a quoted value
  | skip + 1, _ :: cs => readTextFrom quote skip cs
  | 0, c :: cs =>
    if quote = none ∧ c = '<' then .ok [] (c :: cs)
    else if quote = some c then .ok [] cs
    else if quote ≠ none ∧ c = '<' then .err
    else if c = '&' then
      match readEntity cs with
      | some (ch, n) =>
        if !inCharRange ch then .err else
        (match readTextFrom quote n cs with | .ok t r => .ok (ch :: t) r | .err => .err | .unmodelled => .unmodelled)
      | none => .err
    else if c = ']' ∧ quote = none ∧ cs.take 2 = [']', '>'] then .err
    else if c = '\r' then
      let skip := match cs with | '\n' :: _ => 1 | _ => 0
      (match readTextFrom quote skip cs with | .ok t r => .ok ('\n' :: t) r | .err => .err | .unmodelled => .unmodelled)
    else if !inCharRange c then .err
    else (match readTextFrom quote 0 cs with | .ok t r => .ok (c :: t) r | .err => .err | .unmodelled => .unmodelled)

def readText (quote : Option Char) (s : List Char) : Lexed (List Char) := readTextFrom quote 0 s

/-- attributes and the end of a start tag; returns (attrs, selfClosing) -/
def readAttrs : Nat → List Char → Lexed (List (String × List Char) × Bool)
  | 0, _ => .unmodelled
  | fuel + 1, s =>
    match skipSpace s with
    | [] => .err
    | '/' :: '>' :: r => .ok ([], true) r
    | '/' :: _ => .err
    | '>' :: r => .ok ([], false) r
    | s' =>
      match readName s' with
      | .ok n r1 =>
        match skipSpace r1 with
        | '=' :: r2 =>
          match skipSpace r2 with
          | q :: r3 =>
            if q = '"' ∨ q = '\'' then
              match readText (some q) r3 with
              | .ok v r4 =>
                (match readAttrs fuel r4 with
                 | .ok (as, sc) r5 => .ok ((n, v) :: as, sc) r5
                 | .err => .err
                 | .unmodelled => .unmodelled)
              | .err => .err
              | .unmodelled => .unmodelled
            else .err                      -- unquoted attribute value (strict mode)
          | [] => .err
        | _ => .err                        -- attribute without '=' (strict mode)
      | .err => .err
      | .unmodelled => .unmodelled

/-- skip to just after the first occurrence of `pat` -/
def skipPast (pat : List Char) : List Char → Option (List Char)
  | [] => none
  | c :: cs => match stripPrefix? pat (c :: cs) with
    | some r => some r
    | none => skipPast pat cs

/-- the raw token stream of the document body (after the declaration).  Go tokenizes on demand,
    so a syntax error matters only if the unmarshaller gets that far: the failure point is a
    `bad` token that ends the stream. -/
def lexBody : Nat → List Char → List XTok
  | 0, _ => [.bad true]
  | _, [] => []
  | fuel + 1, c :: cs =>
    if c = '<' then
      match cs with
      | '/' :: r =>
        match readName r with
        | .ok n r1 =>
          match skipSpace r1 with
          | '>' :: r2 => XTok.stop n :: lexBody fuel r2
          | _ => [.bad false]
        | .err => [.bad false]
        | .unmodelled => [.bad true]
      | '?' :: r =>
        -- a processing instruction inside the body: needs a target name, then skipped by the
        -- unmarshaller; a second `<?xml …?>` (re-checked for version/encoding by Go) is not modelled
        match readName r with
        | .ok n r0 =>
          if n == "xml" then [.bad true] else
          match skipPast ['?', '>'] r0 with
          | some r1 => lexBody fuel r1
          | none => [.bad false]
        | .err => [.bad false]
        | .unmodelled => [.bad true]
      | '!' :: '-' :: '-' :: r =>
        -- comment; "--" inside is a syntax error in Go
        match skipPast ['-', '-'] r with
        | some ('>' :: r1) => lexBody fuel r1
        | some _ => [.bad false]
        | none => [.bad false]
      | '!' :: _ => [.bad true]                 -- CDATA sections and directives are not modelled
      | _ =>
        match readName cs with
        | .ok n r1 =>
          match readAttrs (r1.length + 1) r1 with
          | .ok (as, selfClose) r2 =>
            if (as.map (·.1)).any (fun a => a.startsWith "xmlns") then [.bad true] else
            if selfClose then XTok.start n as :: XTok.stop n :: lexBody fuel r2
            else XTok.start n as :: lexBody fuel r2
          | .err => [.bad false]
          | .unmodelled => [.bad true]
        | .err => [.bad false]
        | .unmodelled => [.bad true]
    else
      match readText none (c :: cs) with
      | .ok t r => XTok.text t :: lexBody fuel r
      | .err => [.bad false]
      | .unmodelled => [.bad true]

/-- `Decoder.Token`'s element stack on top of the raw tokens: an end tag must close the innermost
    open element and the input must not end inside one; the first offence ends the stream with
    `bad`.  Once the root element is closed nothing further is read. -/
def nest : List String → Bool → List XTok → List XTok
  | [], true, _ => []                                   -- the root element has been closed
  | [], false, [] => [.bad false]                       -- no element at all: EOF
  | _ :: _, _, [] => [.bad false]                       -- unexpected EOF
  | st, _, .start n as :: ts => .start n as :: nest (n :: st) true ts
  | [], false, .stop _ :: _ => [.bad false]
  | top :: st, seen, .stop n :: ts => if top == n then .stop n :: nest st seen ts else [.bad false]
  | st, seen, .text t :: ts => .text t :: nest st seen ts
  | _, _, .bad u :: _ => [.bad u]

end TrackVerif.LT.Xml
