/-
  Character-level text pipeline of the LapTimer encoder:
    encoding/xml `EscapeText`  →  `strings.Replacer` of Encoder.filter (applied line by line)
  and the inverse a conforming XML parser applies to character data.  Core only.
-/
namespace TrackVerif.LT.Text

/-- XML 1.0 `Char` production as Go's `isInCharacterRange` spells it -/
def inCharRange (c : Char) : Bool :=
  let n := c.toNat
  n = 0x09 || n = 0x0A || n = 0x0D || (0x20 ≤ n && n ≤ 0xD7FF) || (0xE000 ≤ n && n ≤ 0xFFFD) || (0x10000 ≤ n && n ≤ 0x10FFFF)

def replacementChar : Char := Char.ofNat 0xFFFD

/-- what a character data / attribute value character becomes in `xml.EscapeText` -/
def goEscapeChar (c : Char) : List Char :=
  if c = '"' then "&#34;".toList
  else if c = '\'' then "&#39;".toList
  else if c = '&' then "&amp;".toList
  else if c = '<' then "&lt;".toList
  else if c = '>' then "&gt;".toList
  else if c = '\t' then "&#x9;".toList
  else if c = '\n' then "&#xA;".toList
  else if c = '\r' then "&#xD;".toList
  else if !inCharRange c then [replacementChar]
  else [c]

def goEscape (s : List Char) : List Char := s.flatMap goEscapeChar

/-- does `pat` start `s`? returns the rest -/
def stripPrefix? : List Char → List Char → Option (List Char)
  | [], s => some s
  | _ :: _, [] => none
  | p :: ps, c :: cs => if p = c then stripPrefix? ps cs else none

/-- first pair (in argument order) whose old string starts `s`: its replacement and the number of
    characters it covers -/
def firstMatch : List (List Char × List Char) → List Char → Option (List Char × Nat)
  | [], _ => none
  | (old, new) :: ps, s =>
    if old.isEmpty then firstMatch ps s
    else match stripPrefix? old s with
      | some _ => some (new, old.length)
      | none => firstMatch ps s

/-- `strings.NewReplacer(pairs…).Replace`: left to right, non-overlapping, earlier pairs win.
    (Pairs with an empty old string are not used by the code and are ignored.)
    The first argument counts the characters of a match still to be passed over. -/
def replaceFrom (pairs : List (List Char × List Char)) : Nat → List Char → List Char
  | _, [] => []
  | skip + 1, _ :: cs => replaceFrom pairs skip cs
  | 0, c :: cs =>
    match firstMatch pairs (c :: cs) with
    | some (new, n) => new ++ replaceFrom pairs (n - 1) cs
    | none => c :: replaceFrom pairs 0 cs

def replaceAll (pairs : List (List Char × List Char)) (s : List Char) : List Char :=
  replaceFrom pairs 0 s

/-- `bufio.Reader.ReadString('\n')` chunks: every line keeps its terminator -/
def splitLines : List Char → List (List Char)
  | [] => []
  | c :: cs =>
    if c = '\n' then ['\n'] :: splitLines cs
    else match splitLines cs with
      | l :: ls => (c :: l) :: ls
      | [] => [[c]]

/-- Encoder.filter: the replacer applied to each line of the indented document -/
def filterDoc (pairs : List (List Char × List Char)) (doc : List Char) : List Char :=
  (splitLines doc).flatMap (replaceAll pairs)

def pairsOf (ps : List (String × String)) : List (List Char × List Char) :=
  ps.map fun (a, b) => (a.toList, b.toList)

/-- the replacer pairs LapTimer's import syntax needs -/
def specPairs : List (String × String) :=
  [("&#34;", "&quot;"), ("&#39;", "&apos;"), ("&#xA;", "\n"), ("&#x9;", "\t")]

/-- what one text character looks like in a LapTimer file -/
def ltEscapeChar (c : Char) : List Char :=
  if c = '"' then "&quot;".toList
  else if c = '\'' then "&apos;".toList
  else if c = '&' then "&amp;".toList
  else if c = '<' then "&lt;".toList
  else if c = '>' then "&gt;".toList
  else if c = '\t' then ['\t']
  else if c = '\n' then ['\n']
  else if c = '\r' then "&#xD;".toList
  else if !inCharRange c then [replacementChar]
  else [c]

/-- the text a parser must hand back: characters XML cannot carry are substituted -/
def substitute (s : List Char) : List Char := s.map fun c => if inCharRange c then c else replacementChar

/-! ### Strict character-data decoding (independent of the above) -/

def hexVal? (c : Char) : Option Nat :=
  if '0' ≤ c ∧ c ≤ '9' then some (c.toNat - '0'.toNat)
  else if 'a' ≤ c ∧ c ≤ 'f' then some (c.toNat - 'a'.toNat + 10)
  else if 'A' ≤ c ∧ c ≤ 'F' then some (c.toNat - 'A'.toNat + 10)
  else none

def decVal? (c : Char) : Option Nat :=
  if '0' ≤ c ∧ c ≤ '9' then some (c.toNat - '0'.toNat) else none

/-- read digits up to ';': the value and the number of characters read (including ';') -/
def readNum (digit : Char → Option Nat) (base : Nat) : List Char → Nat → Nat → Option (Nat × Nat)
  | [], _, _ => none
  | c :: cs, acc, len =>
    if c = ';' then (if len > 0 then some (acc, len + 1) else none)
    else match digit c with
      | some d => if acc > 0x110000 then none else readNum digit base cs (acc * base + d) (len + 1)
      | none => none

def scalar? (n : Nat) : Option Char :=
  if n < 0x110000 ∧ ¬ (0xD800 ≤ n ∧ n ≤ 0xDFFF) then some (Char.ofNat n) else none

/-- an entity or character reference after '&': the character and how many characters it spans -/
def readEntity (s : List Char) : Option (Char × Nat) :=
  match s with
  | '#' :: 'x' :: r => (readNum hexVal? 16 r 0 0).bind fun (n, len) => (scalar? n).map fun c => (c, len + 2)
  | '#' :: r => (readNum decVal? 10 r 0 0).bind fun (n, len) => (scalar? n).map fun c => (c, len + 1)
  | 'l' :: 't' :: ';' :: _ => some ('<', 3)
  | 'g' :: 't' :: ';' :: _ => some ('>', 3)
  | 'a' :: 'm' :: 'p' :: ';' :: _ => some ('&', 4)
  | 'a' :: 'p' :: 'o' :: 's' :: ';' :: _ => some ('\'', 5)
  | 'q' :: 'u' :: 'o' :: 't' :: ';' :: _ => some ('"', 5)
  | _ => none

/-- decode the character data of one element: entities resolved, raw CR / CRLF normalised to LF,
    raw '<' and an unknown or malformed entity rejected, every resulting character must be an
    XML character.  The first argument counts characters of a reference still to be passed over. -/
def unescapeFrom : Nat → List Char → Option (List Char)
  | _, [] => some []
  | skip + 1, _ :: cs => unescapeFrom skip cs
  | 0, c :: cs =>
    if c = '<' then none
    else if c = '&' then
      match readEntity cs with
      | some (ch, n) => if inCharRange ch then (unescapeFrom n cs).map (ch :: ·) else none
      | none => none
    else if c = '\r' then
      match cs with
      | '\n' :: _ => (unescapeFrom 1 cs).map ('\n' :: ·)
      | _ => (unescapeFrom 0 cs).map ('\n' :: ·)
    else if inCharRange c then (unescapeFrom 0 cs).map (c :: ·)
    else none

def unescape (s : List Char) : Option (List Char) := unescapeFrom 0 s

end TrackVerif.LT.Text
