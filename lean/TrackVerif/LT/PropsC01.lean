import TrackVerif.LT.FmtLemmas
import TrackVerif.LT.XmlLemmas
import TrackVerif.LT.TimeLemmas
import TrackVerif.LT.CodecLemmas
import TrackVerif.LT.TreeLemmas
import TrackVerif.LT.DecodeLemmas
import TrackVerif.LT.Spec
import TrackVerif.LT.SpecFacts
import TrackVerif.LT.Reencode
import TrackVerif.LT.Utf8Lemmas
import TrackVerif.Generated.LT
/-
  C01 — LapTimer files survive encode → decode → encode unchanged.
  Property theorems only.  PARTIAL (see DESIGN.md): proved for all values are the schema tie, the
  text round trip through the decoder's own character-data reader, the windows-1252 table
  round trip and the duration / relative-offset codecs; the remaining scalar codecs, the
  tree-level statement and float formatting are decided on every run by the executable model
  (which must agree with the implementation byte for byte) and the declarative `Spec.quant`.
-/
namespace TrackVerif.C01
open TrackVerif TrackVerif.LT TrackVerif.LT.Fmt TrackVerif.LT.Text TrackVerif.LT.Spec

/-- the schema regenerated from the source on this run is the one the theorems are about -/
theorem schema_matches_spec :
    Gen.LT.extractOk = true ∧ Gen.LT.structs = SpecSchema.structs ∧ Gen.LT.named = SpecSchema.named ∧
    Gen.LT.methodLits = SpecSchema.methodLits ∧ Gen.LT.marshalers = SpecSchema.marshalers ∧
    Gen.LT.unmarshalers = SpecSchema.unmarshalers ∧ Gen.LT.replacer = SpecSchema.replacer ∧
    Gen.LT.cp1252 = SpecSchema.cp1252 := by
  refine ⟨by decide, ?_, ?_, ?_, by decide, by decide, by decide, ?_⟩ <;> decide +kernel

/-! ### Text -/

/-- every text (any characters, including quotes, ampersands, angle brackets, tabs, line feeds,
    carriage returns) written by the encoder — Go escaping, then the replacer — and followed by
    the element's end tag is read back by the decoder's character-data reader as the same text,
    with exactly the characters XML cannot carry substituted -/
theorem text_roundtrip (s rest : List Char) :
    Xml.readText none (replaceFrom specPairsL 0 (goEscape s) ++ '<' :: rest) =
      .ok (substitute s) ('<' :: rest) := by
  have h := replace_escape s []
  simp only [List.append_nil, replaceFrom] at h
  rw [h]
  exact Xml.readText_ltEscape s rest

theorem replacer_pairs : pairsOf Spec.schema.replacer = specPairsL := by decide

/-- text inside the representable domain (only XML characters) comes back unchanged -/
theorem text_roundtrip_exact (s rest : List Char) (h : ∀ c ∈ s, inCharRange c = true) :
    Xml.readText none (replaceFrom specPairsL 0 (goEscape s) ++ '<' :: rest) = .ok s ('<' :: rest) := by
  rw [text_roundtrip]
  congr 1
  unfold substitute
  conv => rhs; rw [← List.map_id s]
  apply List.map_congr_left
  intro c hc
  simp [h c hc]

/-! ### Structure: what the decoder sees of a printed document, and how it routes it -/

/-- for every element tree with schema names, the tokenizer's stream for the printed document is
    parsed (nesting, layout whitespace kept as text) into exactly the content tree `nodeOf`: the
    decoder starts from the same elements, attributes and (substituted) texts the encoder was given -/
theorem printed_tree_parses_to_its_content (t : Xml.Tree) (hok : Xml.treeOk t = true) (f g : Nat) :
    Xml.parseNodes (g + 1 + (Xml.lexedOf 0 t).length)
        (Xml.nest [] false (Xml.lexBody (f + 1 + (Xml.lexedOf 0 t).length) (Xml.renderLTFrom {} (Xml.toksOf t))) ++ [.stop "#end"])
      = .ok [Xml.nodeOf 0 t] [] := by
  have hr := Xml.render_root t []
  simp only [List.append_nil, Xml.renderLTFrom] at hr
  have hl := Xml.lex_tree 0 t hok [] (f + 1)
  simp only [List.append_nil] at hl
  have hb : Xml.lexBody (f + 1) [] = [] := by simp [Xml.lexBody]
  rw [hr, hl, hb, List.append_nil, Xml.nest_root]
  have hp := Xml.parses_tree 0 t (g + 1) [.stop "#end"] [] [] (Xml.parseNodes_stop g "#end" [])
  simpa using hp

/-- **fields are decoded independently**: in a struct element every field with distinct name
    receives exactly the child elements carrying its name, in document order, starting from the
    field's current value — interleaved whitespace, unknown elements and the other fields'
    children do not matter, and attribute fields are not touched by child elements -/
theorem fields_decoded_independently (g : Gen.LtType → V → List (String × List Char) → List Xml.Node → Outcome V)
    (dfs : List Gen.LtField) (hd : DistinctNames dfs) (kids : List Xml.Node) (fs : List V)
    (hlen : fs.length = dfs.length)
    (hall : ∀ (i : Nat) (f : Gen.LtField), dfs[i]? = some f → f.attr = false →
      ∃ v, foldField g f.typ (fs.getD i .nil) (fieldKids f.xmlName kids) = .ok v) :
    ∃ fs', kids.foldlM (kidStep g dfs) fs = .ok fs' ∧ fs'.length = dfs.length ∧
      (∀ (i : Nat) (f : Gen.LtField), dfs[i]? = some f → f.attr = false →
        foldField g f.typ (fs.getD i .nil) (fieldKids f.xmlName kids) = .ok (fs'.getD i .nil)) ∧
      (∀ (i : Nat) (f : Gen.LtField), dfs[i]? = some f → f.attr = true → fs'.getD i .nil = fs.getD i .nil) :=
  foldKids_ok g dfs hd kids fs hlen hall

/-- every struct of the LapTimer schema has distinct element names, so the theorem above applies
    to each of them -/
theorem schema_element_names_distinct :
    ∀ p ∈ SpecSchema.structs, ∀ (i j : Nat) (f f' : Gen.LtField),
      (dataFields p.2)[i]? = some f → (dataFields p.2)[j]? = some f' → f.attr = false → f'.attr = false →
      f.xmlName = f'.xmlName → i = j := by
  have hb : ∀ p ∈ SpecSchema.structs, distinctNamesB (dataFields p.2) = true := by decide +kernel
  intro p hp
  exact distinctNames_of_B _ (hb p hp)

/-! ### windows-1252 -/

/-- the code page's byte for a character, if it has one -/
def enc1252 (c : Char) : Option Nat :=
  let i := SpecSchema.cp1252.findIdx (· == c.toNat)
  if i < SpecSchema.cp1252.length then some i else none

def dec1252 (b : Nat) : Char := Char.ofNat ((SpecSchema.cp1252[b]?).getD 0xFFFD)

/-- transcoding a character to windows-1252 and decoding the byte gives the character back -/
theorem cp1252_roundtrip (c : Char) (b : Nat) (h : enc1252 c = some b) : dec1252 b = c := by
  unfold enc1252 at h
  simp only at h
  split at h
  · rename_i hlt
    injection h with h
    subst h
    have := List.findIdx_getElem (w := hlt)
    simp only [beq_iff_eq] at this
    simp [dec1252, List.getElem?_eq_getElem hlt, this]
  · cases h

/-- ASCII (all markup, all numbers, all dates) is unchanged by the code page -/
theorem cp1252_ascii : ∀ b < 128, SpecSchema.cp1252[b]? = some b := by decide +kernel

/-! ### Durations -/

/-- Duration: print then parse gives the duration truncated to whole centiseconds, for every
    non-negative duration (up to eleven thousand years) -/
theorem duration_roundtrip (n : Nat) (hn : n < 6000000000000000000) :
    (durationString Spec.schema (n : Int)).bind (durationParse Spec.schema) = .ok ((n : Int) - (n : Int) % 10000000) := by
  rw [durationString_nonneg]
  simp only [Outcome.bind, durationParse, lit_dur_parse, sscanf, fmt_dur_parse, mergeBlanks]
  have hm : n / 60000000000 ≤ int64Max := by unfold int64Max; omega
  have hs : n % 60000000000 / 1000000000 ≤ int64Max := by unfold int64Max; omega
  have hc : n % 1000000000 / 10000000 ≤ int64Max := by unfold int64Max; omega
  have c1 : isDigit ':' = false := by decide
  have c2 : isDigit '.' = false := by decide
  simp only [sscanfItems, scanInt_padded 2 _ ':' _ c1 hm, scanInt_padded 2 _ '.' _ c2 hs,
    scanInt_padded_end 2 _ hc, isBlank]
  simp
  have b1 : ¬ (100000000 < ((n : Int) / 60000000000).natAbs) := by omega
  have b2 : ¬ (1000000000 < ((n : Int) % 60000000000 / 1000000000).natAbs) := by omega
  have b3 : ¬ (1000000000 < ((n : Int) % 1000000000 / 10000000).natAbs) := by omega
  rw [if_neg (by intro h; rcases h with h | h | h; exact b1 h; exact b2 h; exact b3 h)]
  congr 1
  omega

/-- … and printing the truncated duration again gives the same text: the re-encoding is stable -/
theorem duration_reencode (n : Nat) :
    durationString Spec.schema ((n - n % 10000000 : Nat) : Int) = durationString Spec.schema (n : Int) := by
  rw [durationString_nonneg, durationString_nonneg]
  have a1 : (n - n % 10000000) / 60000000000 = n / 60000000000 := by omega
  have a2 : (n - n % 10000000) % 60000000000 / 1000000000 = n % 60000000000 / 1000000000 := by omega
  have a3 : (n - n % 10000000) % 1000000000 / 10000000 = n % 1000000000 / 10000000 := by omega
  rw [a1, a2, a3]

/-! ### Tags, positioning, threshold -/

/-- Tags: any non-empty list of comma-free tags survives join / split -/
theorem tags_roundtrip (ts : List (List Char)) (hne : ts ≠ []) (h : ∀ t ∈ ts, ∀ x ∈ t, x ≠ ',') (cur : V) :
    (customText Spec.schema "Tags" (.list (ts.map V.str))).bind (customParse Spec.schema "Tags" cur)
      = .ok (.list (ts.map V.str)) := by
  have : ",".toList = [','] := by decide
  simp only [customText, lit_tags_m, ofOpt, bind, Outcome.bind]
  rw [mapM_str ts _ (fun x => rfl)]
  simp only [customParse, oneChar, lit_tags_u, Option.map_some, bind, Outcome.bind, this,
    tags_split_join ts hne h]

/-- Positioning d,p,i: the interpolated flag is written 0/1 and read back by `%t` -/
theorem positioning_roundtrip (d p : Nat) (i : Bool) (hd : d ≤ int64Max) (hp : p ≤ int64Max) (cur : V) :
    (customText Spec.schema "Positioning" (.struct [.int d, .int p, .bool i])).bind
      (customParse Spec.schema "Positioning" cur) = .ok (.struct [.int d, .int p, .bool i]) := by
  have c1 : isDigit ',' = false := by decide
  have e0 : ∀ n : Nat, fmtInt 0 (n : Int) = Dec.padLeft 0 '0' (natChars n) := fun n => fmtInt_nonneg 0 n
  have hi : ((if i = true then 1 else 0 : Int)) = (((if i then 1 else 0 : Nat) : Nat) : Int) := by cases i <;> rfl
  simp only [customText, lit_pos_m, ofOpt, Option.bind_some, sprintf, fmt_pos_m, sprintfItems, Option.map_some,
    e0, hi, List.append_nil, bind, Outcome.bind]
  simp only [customParse, lit_pos_u, ofScan, sscanf, fmt_pos_u, mergeBlanks, bind, Outcome.bind]
  simp only [sscanfItems, scanInt_padded 0 _ ',' _ c1 hd, scanInt_padded 0 _ ',' _ c1 hp, isBlank]
  cases i <;> simp [Dec.padLeft, natChars_zero, natChars_one, scanBool, verbStart, skipBlanks, isBlank]

/-- Threshold N%: printed with the percent sign, read back without it -/
theorem threshold_roundtrip (n : Nat) (hn : n ≤ int64Max) (cur : V) :
    (customText Spec.schema "Threshold" (.int n)).bind (customParse Spec.schema "Threshold" cur) = .ok (.int n) := by
  have e0 : fmtInt 0 (n : Int) = Dec.padLeft 0 '0' (natChars n) := fmtInt_nonneg 0 n
  simp only [customText, lit_thr_m, ofOpt, Option.bind_some, sprintf, fmt_thr_m, sprintfItems, Option.map_some,
    e0, List.append_nil, bind, Outcome.bind]
  have hpct : "%".toList = ['%'] := by decide
  simp only [customParse, oneChar, lit_thr_u, Option.map_some, hpct, bind, Outcome.bind]
  have hlast : (Dec.padLeft 0 '0' (natChars n) ++ ['%']).getLast? = some '%' := by simp
  have hdrop : (Dec.padLeft 0 '0' (natChars n) ++ ['%']).dropLast = Dec.padLeft 0 '0' (natChars n) := by simp
  simp only [hlast, if_true, hdrop]
  have hne := padLeft_ne_nil 0 _ (natChars_ne_nil n)
  have hd := padLeft_digits 0 _ (natChars_digits n)
  have hs := scanInt_padded_end 0 n hn
  generalize Dec.padLeft 0 '0' (natChars n) = ds at *
  cases ds with
  | nil => exact absurd rfl hne
  | cons c cs =>
    have hb := digit_not_blank c (hd c (by simp))
    simp [parseIntFull, hb.1, hb.2.1, hs, ofScan, Outcome.map]

/-! ### Dates (1969-01-01 … 2068-12-31) -/

theorem lit_lap_string : Spec.schema.lit "LapDate.String" 0 = some "02-Jan-06,15:04:05" := by decide +kernel
theorem lit_lap_parse : Spec.schema.lit "LapDate.UnmarshalXML" 0 = some "02-Jan-06,15:04:05" := by decide +kernel
theorem lit_fix_string : Spec.schema.lit "FixDate.String" 0 = some "02-Jan-06,15:04:05.00" := by decide +kernel
theorem lit_fix_parse : Spec.schema.lit "FixDate.UnmarshalXML" 0 = some "02-Jan-06,15:04:05.00" := by decide +kernel

/-- LapDate: for EVERY instant from 1969-01-01T00:00:00Z to 2068-12-31T23:59:59.999999999Z the
    printed date (upper-case UTC, two-digit year) parses back to the same instant truncated to
    whole seconds — the two-digit-year pivot at 69 covers exactly this century -/
theorem lapdate_roundtrip (sec : Int) (ns : Nat) (h1 : -31536000 ≤ sec) (h2 : sec ≤ 3124223999) :
    (dateString Spec.schema "LapDate.String" sec ns).bind (dateParse Spec.schema "LapDate.UnmarshalXML")
      = .ok (.time sec 0) := by
  obtain ⟨hv, hu, _⟩ := Time.civilOf_valid sec ns h1 h2
  have hy : ¬ (Time.civilOf sec ns).year < 0 := by have := hv.year_lo; omega
  have hasc := Time.format_lap_ascii _ hv
  have hasc' : ((Time.formatToks (Time.civilOf sec ns) Time.lapToks).all fun c => decide (c.toNat < 128)) = true := hasc
  simp only [dateString, lit_lap_string, Option.bind_some, Time.format, Time.lap_layout, hy, if_false, hasc',
    if_true, Outcome.bind, dateParse, lit_lap_parse, Time.parse_format_lap _ hv, hu]

/-- FixDate: the same with centiseconds (truncated) -/
theorem fixdate_roundtrip (sec : Int) (ns : Nat) (h1 : -31536000 ≤ sec) (h2 : sec ≤ 3124223999)
    (hns : ns < 1000000000) :
    (dateString Spec.schema "FixDate.String" sec ns).bind (dateParse Spec.schema "FixDate.UnmarshalXML")
      = .ok (.time sec (ns / 10000000 * 10000000)) := by
  obtain ⟨hv, hu, hn⟩ := Time.civilOf_valid sec ns h1 h2
  have hy : ¬ (Time.civilOf sec ns).year < 0 := by have := hv.year_lo; omega
  have hns' : (Time.civilOf sec ns).ns < 1000000000 := by rw [hn]; exact hns
  have hasc := Time.format_fix_ascii _ hv hns'
  have hasc' : ((Time.formatToks (Time.civilOf sec ns) Time.fixToks).all fun c => decide (c.toNat < 128)) = true := hasc
  simp only [dateString, lit_fix_string, Option.bind_some, Time.format, Time.fix_layout, hy, if_false, hasc',
    if_true, Outcome.bind, dateParse, lit_fix_parse, Time.parse_format_fix _ hv hns', hu, hn]

/-- … and the truncated instants print the same text again (stable re-encoding) -/
theorem lapdate_reencode (sec : Int) (ns : Nat) :
    dateString Spec.schema "LapDate.String" sec 0 = dateString Spec.schema "LapDate.String" sec ns := by
  simp only [dateString, lit_lap_string, Option.bind_some, Time.format, Time.lap_layout]
  have : Time.formatToks (Time.civilOf sec 0) Time.lapToks = Time.formatToks (Time.civilOf sec ns) Time.lapToks := by
    simp [Time.lapToks, Time.formatToks, Time.civilOf]
  have hy : (Time.civilOf sec 0).year = (Time.civilOf sec ns).year := by simp [Time.civilOf]
  rw [this, hy]

/-! ### The whole file -/

/-- the facts the structure theorem needs hold of the LapTimer schema (which `schema_matches_spec`
    ties to types.go on every run): every UnmarshalXML type has a MarshalXML, a marshal-only type
    is a plain scalar, the only attribute fields are always-written plain integers, element and
    attribute names are distinct within every struct, every name is a plain XML name -/
theorem schema_facts : SchemaFacts Spec.schema ∧ NamesOk Spec.schema := ⟨spec_facts, spec_names⟩

/-- **structure theorem** (every schema with those facts, every value, every nesting depth):
    whatever elements the marshaller prints for a value — omitted fields, nil and non-nil
    pointers, slices element by element, structs with attributes and children, custom and plain
    leaves — the decoder, routing attributes and children by name into a destination holding
    `cur`, ends with exactly the leaf-wise round trip `rtOf`: nothing is lost, duplicated,
    reordered or attached to the wrong field by the XML layer -/
theorem decoder_inverts_marshaller (s : Schema) (hs : SchemaFacts s) (f : Nat) (name : String) (om : Bool)
    (ty : Gen.LtType) (cur v : V) (ts : List Xml.Tree) (q : V) (d : Nat)
    (hm : marshalTrees s f name om ty v = .ok ts) (hr : rtOf s f om ty cur v = some q) :
    foldField (unmarshalNode s f) ty cur (entries d ts) = .ok q :=
  decode_marshal s hs f name om ty cur v ts q d hm hr

/-- the body of the document the encoder writes (everything after the declaration), read by
    the decoder as characters, gives the leaf-wise round trip -/
theorem body_decodes (db q : V) (chars : List Char)
    (henc : encodeDoc Spec.schema db = .ok chars)
    (hrt : rtOf Spec.schema 64 false (.named "DB") (zeroOf Spec.schema 8 (.named "DB")) db = some q) :
    decodeBody Spec.schema (chars.drop declChars.length) = .ok q := by
  obtain ⟨t, hm, hok, hname, hc⟩ := encode_renders db chars henc
  have hdrop : chars.drop declChars.length = '\n' :: Xml.renderTree 0 t := by
    rw [hc, xmlHeader_eq, List.append_assoc, List.drop_left]; rfl
  rw [hdrop, decodeBody_printed Spec.schema "LapTimerDB" t spec_root hname hok]
  have := decode_marshal Spec.schema spec_facts 64 "LapTimerDB" false (.named "DB") _ db [t] q 0 hm hrt
  simp only [entries, List.map_cons, List.map_nil] at this
  rw [foldField_single] at this
  exact this

/-- **decoding the encoded file, for every database**: if the encoder writes `chars` for `db`
    and the leaf-wise round trip of `db` is `q`, then the decoder — XML declaration, UTF-8,
    tokenizer, element stack, content tree, field routing — returns exactly `q` for the file
    (the declaration's bytes followed by any UTF-8 spelling of the rest of `chars`).  Together
    with the leaf codec theorems above this reduces "decode ∘ encode" for whole databases to the
    individual leaf codecs. -/
theorem decode_of_encode (db q : V) (chars : List Char) (body : List UInt8)
    (henc : encodeDoc Spec.schema db = .ok chars)
    (hrt : rtOf Spec.schema 64 false (.named "DB") (zeroOf Spec.schema 8 (.named "DB")) db = some q)
    (hbody : utf8Decode (body.length + 1) body = some (chars.drop declChars.length)) :
    decodeDoc Spec.schema SpecSchema.cp1252 (declBytes ++ body) = .ok q := by
  unfold decodeDoc
  rw [splitDecl_decl]
  simp only [Outcome.bind, Bool.false_eq_true, if_false]
  rw [hbody]
  exact body_decodes db q chars henc hrt

/-- **the same file in windows-1252** (LapTimer's own export encoding): declared as
    windows-1252, with body bytes that the code page reads as the document's characters (every
    character representable: `cp1252_roundtrip`), the decoder returns the same value -/
theorem cp1252_file_decodes (db q : V) (chars : List Char) (body : List UInt8)
    (henc : encodeDoc Spec.schema db = .ok chars)
    (hrt : rtOf Spec.schema 64 false (.named "DB") (zeroOf Spec.schema 8 (.named "DB")) db = some q)
    (hbody : body.map (fun b => dec1252 b.toNat) = chars.drop declChars.length) :
    decodeDoc Spec.schema SpecSchema.cp1252 (declBytes1252 ++ body) = .ok q := by
  unfold decodeDoc
  rw [splitDecl_decl1252]
  simp only [Outcome.bind, if_true]
  have : (body.map fun b => Char.ofNat ((SpecSchema.cp1252[b.toNat]?).getD 0xFFFD)) = chars.drop declChars.length := hbody
  rw [this]
  exact body_decodes db q chars henc hrt

/-- **re-encoding theorem** (every schema with the facts, every value, every depth): if the leaf-wise
    round trip of `v` is `q` and `v` is stable — every destination on the way is fresh, every leaf
    prints the same text after its own round trip and `omitempty` treats it as before — then the
    marshaller prints for `q` exactly the elements it printed for `v` -/
theorem marshaller_reprints_decoded (s : Schema) (hs : SchemaFacts s) (f : Nat) (name : String) (om : Bool)
    (ty : Gen.LtType) (cur v : V) (ts : List Xml.Tree) (q : V)
    (hm : marshalTrees s f name om ty v = .ok ts) (hr : rtOf s f om ty cur v = some q)
    (hst : stableOf s f om ty cur v = true) : marshalTrees s f name om ty q = .ok ts :=
  reencode_marshal s hs f name om ty cur v ts q hm hr hst

/-- **encode → decode → encode, for every stable database**: the file the encoder writes for `db`
    decodes to `q`, and encoding `q` writes the same characters again.  `stableOf` is evaluated
    by the driver on every generated database and is exactly what the recorded finding
    (omitempty fixed-decimal field that rounds to zero) fails. -/
theorem file_survives_roundtrip (db q : V) (chars : List Char) (body : List UInt8)
    (henc : encodeDoc Spec.schema db = .ok chars)
    (hrt : rtOf Spec.schema 64 false (.named "DB") (zeroOf Spec.schema 8 (.named "DB")) db = some q)
    (hst : stableOf Spec.schema 64 false (.named "DB") (zeroOf Spec.schema 8 (.named "DB")) db = true)
    (hbody : utf8Decode (body.length + 1) body = some (chars.drop declChars.length)) :
    decodeDoc Spec.schema SpecSchema.cp1252 (declBytes ++ body) = .ok q ∧
      encodeDoc Spec.schema q = .ok chars := by
  refine ⟨decode_of_encode db q chars body henc hrt hbody, ?_⟩
  unfold encodeDoc at henc ⊢
  simp only [spec_root, marshalValue] at henc ⊢
  obtain ⟨toks, ht, hc⟩ := map_ok_inv _ _ _ henc
  obtain ⟨ts, hts, htoks⟩ := map_ok_inv _ _ _ ht
  rw [reencode_marshal Spec.schema spec_facts 64 "LapTimerDB" false (.named "DB") _ db ts q hts hrt hst]
  subst hc htoks
  rfl

/-- **UTF-8**: Go's byte spelling of any string is read back by the decoder's UTF-8 reader as
    that string (every character: 1-, 2-, 3- and 4-byte forms, no surrogates) -/
theorem utf8_roundtrip (cs : List Char) :
    utf8Decode ((cs.flatMap utf8Enc).length + 1) (cs.flatMap utf8Enc) = some cs :=
  utf8Decode_bytes cs

/-- **the file as bytes, every database**: the decoder returns the leaf-wise round trip for the
    UTF-8 bytes of the document the encoder writes, and for a stable database encoding the
    result writes the same document again -/
theorem bytes_survive_roundtrip (db q : V) (chars : List Char)
    (henc : encodeDoc Spec.schema db = .ok chars)
    (hrt : rtOf Spec.schema 64 false (.named "DB") (zeroOf Spec.schema 8 (.named "DB")) db = some q) :
    decodeDoc Spec.schema SpecSchema.cp1252 (chars.flatMap utf8Enc) = .ok q ∧
      (stableOf Spec.schema 64 false (.named "DB") (zeroOf Spec.schema 8 (.named "DB")) db = true →
        encodeDoc Spec.schema q = .ok chars) := by
  obtain ⟨t, _, _, _, hc⟩ := encode_renders db chars henc
  have hsplit : chars.flatMap utf8Enc = declBytes ++ (chars.drop declChars.length).flatMap utf8Enc := by
    have hd : declChars.flatMap utf8Enc = declBytes := by decide +kernel
    rw [hc, xmlHeader_eq, List.append_assoc, List.drop_left, List.flatMap_append, hd]
  have hbody := utf8Decode_bytes (chars.drop declChars.length)
  rw [hsplit]
  refine ⟨decode_of_encode db q chars _ henc hrt hbody, fun hst => ?_⟩
  exact (file_survives_roundtrip db q chars _ henc hrt hst hbody).2

/-- the stability premise cannot be dropped, and the recorded finding is exactly its failure: a
    lap whose `omitempty` one-decimal ambient temperature is 0.04 has a leaf-wise round trip, is
    not stable, and the decoded database is encoded to a different document (the field is gone) -/
theorem omitempty_rounding_breaks_reencode :
    (match rtOf Spec.schema 64 false (.named "DB") (zeroOf Spec.schema 8 (.named "DB")) findingDB with
     | some q => !stableOf Spec.schema 64 false (.named "DB") (zeroOf Spec.schema 8 (.named "DB")) findingDB &&
        decide (encodeDoc Spec.schema q ≠ encodeDoc Spec.schema findingDB)
     | none => false) = true := by
  decide +kernel

/-- non-vacuity: the example database is stable -/
example : stableOf Spec.schema 64 false (.named "DB") (zeroOf Spec.schema 8 (.named "DB")) exampleDB = true := by
  decide +kernel

/-- non-vacuity: a database with a lap (attribute `index`, dates, durations, fixed-decimal
    floats, omitted fields) meets the premises of `decode_of_encode` -/
example : (rtOf Spec.schema 64 false (.named "DB") (zeroOf Spec.schema 8 (.named "DB")) exampleDB).isSome = true ∧
    (match encodeDoc Spec.schema exampleDB with | .ok _ => true | _ => false) = true := by
  decide +kernel

/-- non-vacuity: the pivot years and a leap day -/
example : (dateString Spec.schema "LapDate.String" (-31536000) 5).bind (dateParse Spec.schema "LapDate.UnmarshalXML") = .ok (.time (-31536000) 0) :=
  lapdate_roundtrip _ _ (by decide) (by decide)

/-- non-vacuity: 100+ minute durations print three minute digits and still come back -/
example : (durationString Spec.schema 6123450000000).bind (durationParse Spec.schema) = .ok 6123450000000 := by
  decide +kernel

end TrackVerif.C01
