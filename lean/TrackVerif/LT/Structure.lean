import TrackVerif.LT.StructLemmas
/-
  The structure theorem: for every value, whatever the marshaller prints for it is decoded — by
  the decoder's field routing over the content the XML reader delivers — to exactly what the
  leaf-wise round trip `rtOf` computes.  Proved for every schema with the four `SchemaFacts`;
  PropsC01 checks them on the schema regenerated from types.go.  Core only.
-/
namespace TrackVerif.LT
open TrackVerif TrackVerif.Gen TrackVerif.LT.Xml

/-- what the proof needs to know about the schema -/
structure SchemaFacts (s : Schema) : Prop where
  /-- every type with an UnmarshalXML has a MarshalXML -/
  um_sub : ∀ n, s.unmarshalers.contains n = true → s.marshalers.contains n = true
  /-- a type with only a MarshalXML is decoded as a plain scalar -/
  m_only_simple : ∀ n, s.marshalers.contains n = true → s.unmarshalers.contains n = false →
    isSimple (kindOf s 8 (.named n)) = true
  /-- no struct field is an XML attribute -/
  no_attr : ∀ n fields, s.fieldsOf n = some fields → ∀ f ∈ dataFields fields, f.attr = false
  /-- element names are distinct within a struct -/
  distinct : ∀ n fields, s.fieldsOf n = some fields → DistinctNames (dataFields fields)

theorem customU_none_of_customM_none (s : Schema) (hs : SchemaFacts s) (ty : LtType) (h : customM s ty = none) :
    customU s ty = none := by
  unfold customM at h
  unfold customU
  cases hh : headName ty with
  | none => rfl
  | some n =>
    simp only [hh] at h ⊢
    cases hu : s.unmarshalers.contains n with
    | true =>
      rw [hs.um_sub n hu] at h
      simp at h
    | false => rfl

theorem leaf_dest (s : Schema) (hs : SchemaFacts s) (ty : LtType) (n : String) (h : customM s ty = some n) :
    (customU s ty).isSome = true ∨ isSimple (kindOf s 8 ty) = true := by
  unfold customM at h
  unfold customU
  cases ty with
  | named m =>
    simp only [headName] at h ⊢
    cases hm : s.marshalers.contains m with
    | true =>
      cases hu : s.unmarshalers.contains m with
      | true => left; rfl
      | false => right; exact hs.m_only_simple m hm hu
    | false => rw [hm] at h; simp at h
  | _ => simp [headName] at h

theorem textOf_leaf (txt : List Char) :
    textOf (if txt = [] then [] else [Node.text (Text.substitute txt)]) = Text.substitute txt := by
  by_cases h : txt = []
  · subst h; simp [textOf, Text.substitute]
  · simp [h, textOf]

theorem zip_filter_attr (dfs : List LtField) (fs : List V) (h : ∀ f ∈ dfs, f.attr = false) :
    (dfs.zip fs).filter (·.1.attr) = [] ∧ (dfs.zip fs).filter (fun p => !p.1.attr) = dfs.zip fs := by
  constructor
  · apply List.filter_eq_nil_iff.mpr
    intro p hp
    have := h p.1 (List.of_mem_zip hp).1
    simp [this]
  · apply List.filter_eq_self.mpr
    intro p hp
    have := h p.1 (List.of_mem_zip hp).1
    simp [this]

/-- decoding the items of a slice, one element each -/
theorem slice_fold (s : Schema) (f : Nat) (name : String) (om : Bool) (ty t' : LtType) (d : Nat)
    (hk : kindOf s 8 ty = .slice t') (hc : customU s ty = none) (ho : oneElement s t' = true)
    (ih : ∀ (cur v : V) (ts : List Tree) (q : V), marshalTrees s f name false t' v = .ok ts →
      rtOf s f false t' cur v = some q → foldField (unmarshalNode s f) t' cur (entries d ts) = .ok q) :
    ∀ (vs : List V) (tss : List (List Tree)) (qs : List V) (cur : V),
      AllRel (fun e r => marshalTrees s f name om t' e = .ok r) vs tss →
      AllRel (fun e r => rtOf s f false t' (zeroOf s 8 t') e = some r) vs qs →
      vs.any (fun e => om && isEmptyValue (kindOf s 8 t') e) = false →
      foldField (unmarshalNode s (f + 1)) ty cur (entries d tss.flatten) = .ok (appendTo cur qs) := by
  intro vs
  induction vs with
  | nil =>
    intro tss qs cur h1 h2 _
    cases h1; cases h2
    simp [entries, foldField_nil, appendTo]
  | cons e es ihl =>
    intro tss qs cur h1 h2 hany
    cases h1 with
    | cons hm hms =>
      cases h2 with
      | cons hr hrs =>
        rename_i r rs' q qs'
        simp only [List.any_cons, Bool.or_eq_false_iff] at hany
        cases f with
        | zero => simp [marshalTrees] at hm
        | succ f' =>
          rw [marshal_om_irrelevant s f' name om t' e ho hany.1] at hm
          obtain ⟨t, ht⟩ := marshal_single s f' name false t' e r ho (by simp) hm
          subst ht
          have h0 := ih (zeroOf s 8 t') e [t] q hm hr
          simp only [entries, List.map_cons, List.map_nil] at h0
          rw [foldField_single] at h0
          simp only [List.flatten_cons, List.singleton_append, entries, List.map_cons]
          rw [foldField_cons]
          simp only
          rw [unmarshal_slice s (f' + 1) ty t' cur _ _ hk hc, h0]
          simp only [Outcome.map, Outcome.bind]
          have := ihl rs' qs' (V.list (itemsOf cur ++ [q])) hms hrs hany.2
          simp only [entries] at this
          rw [this]
          simp only [appendTo, List.foldl_cons]

/-- **structure theorem**: the decoder, folding the elements the marshaller printed for a value
    into a destination holding `cur`, ends with exactly the leaf-wise round trip of the value -/
theorem decode_marshal (s : Schema) (hs : SchemaFacts s) :
    ∀ (f : Nat) (name : String) (om : Bool) (ty : LtType) (cur v : V) (ts : List Tree) (q : V) (d : Nat),
      marshalTrees s f name om ty v = .ok ts → rtOf s f om ty cur v = some q →
      foldField (unmarshalNode s f) ty cur (entries d ts) = .ok q
  | 0, name, om, ty, cur, v, ts, q, d, hm, _ => by simp [marshalTrees] at hm
  | f + 1, name, om, ty, cur, v, ts, q, d, hm, hr => by
    have ih := decode_marshal s hs f
    have hM := marshalTrees_inv s f name om ty v ts hm
    have hR := rtOf_inv s f om ty cur v q hr
    cases hM with
    | omitted m1 m2 mts =>
      cases hR with
      | omitted _ _ hq => subst mts; subst hq; simp [entries, foldField_nil]
      | _ => simp_all
    | ptrNil t' mom mk mv mts =>
      cases hR with
      | ptrNil _ _ _ _ hq => subst mts; subst hq; simp [entries, foldField_nil]
      | omitted r1 r2 _ => simp [r1, r2] at mom
      | ptr _ _ _ _ _ rv _ _ _ => rw [mv] at rv; cases rv
      | custom _ _ hnp _ _ => exact absurd mk (hnp t')
      | slice _ _ _ _ _ rk _ _ _ _ _ => rw [mk] at rk; cases rk
      | struct _ _ _ _ _ _ _ rk _ _ _ _ _ _ _ => rw [mk] at rk; cases rk
      | simple _ _ rs _ => simp [mk, isSimple] at rs
    | ptr t' v' mom mk mv mm =>
      cases hR with
      | ptr t'' v'' q' _ rk rv ro rr hq =>
        rw [mk] at rk; injection rk with rk; subst rk
        rw [mv] at rv; injection rv with rv; subst rv
        subst hq
        cases f with
        | zero => simp [marshalTrees] at mm
        | succ f' =>
          obtain ⟨t, ht⟩ := marshal_single s f' name false t' v' ts ro (by simp) mm
          subst ht
          have h0 := ih name false t' _ v' [t] q' d mm rr
          simp only [entries, List.map_cons, List.map_nil] at h0 ⊢
          rw [foldField_single] at h0 ⊢
          rw [unmarshal_ptr s (f' + 1) ty t' cur _ _ mk, h0]
          rfl
      | omitted r1 r2 _ => simp [r1, r2] at mom
      | ptrNil _ _ _ rv _ => rw [mv] at rv; cases rv
      | custom _ _ hnp _ _ => exact absurd mk (hnp t')
      | slice _ _ _ _ _ rk _ _ _ _ _ => rw [mk] at rk; cases rk
      | struct _ _ _ _ _ _ _ rk _ _ _ _ _ _ _ => rw [mk] at rk; cases rk
      | simple _ _ rs _ => simp [mk, isSimple] at rs
    | custom n txt mom mnp mc mt mts =>
      cases hR with
      | custom n' _ _ rc rl =>
        subst mts
        simp only [entries, List.map_cons, List.map_nil, attrsOfTree, contentOf]
        rw [foldField_single]
        simp only
        rw [unmarshal_leaf s f ty cur [] _ mnp (leaf_dest s hs ty n mc), textOf_leaf]
        unfold leafRT leafText at rl
        simp only [mc, mt] at rl
        cases hp : leafParse s ty cur (Text.substitute txt) with
        | ok q0 => simp only [hp] at rl; injection rl with rl; subst rl; rfl
        | _ => simp [hp] at rl
      | omitted r1 r2 _ => simp [r1, r2] at mom
      | ptrNil t' _ rk _ _ => exact absurd rk (mnp t')
      | ptr t' _ _ _ rk _ _ _ _ => exact absurd rk (mnp t')
      | slice _ _ _ _ rc _ _ _ _ _ _ => rw [mc] at rc; cases rc
      | struct _ _ _ _ _ _ rc _ _ _ _ _ _ _ _ => rw [mc] at rc; cases rc
      | simple _ rc _ _ => rw [mc] at rc; cases rc
    | simple txt mom mc ms mt mts =>
      have mnp : ∀ t', kindOf s 8 ty ≠ .ptr t' := by
        intro t' e; simp [e, isSimple] at ms
      cases hR with
      | simple _ _ _ rl =>
        subst mts
        simp only [entries, List.map_cons, List.map_nil, attrsOfTree, contentOf]
        rw [foldField_single]
        simp only
        rw [unmarshal_leaf s f ty cur [] _ mnp (Or.inr ms), textOf_leaf]
        unfold leafRT leafText at rl
        simp only [mc, mt] at rl
        cases hp : leafParse s ty cur (Text.substitute txt) with
        | ok q0 => simp only [hp] at rl; injection rl with rl; subst rl; rfl
        | _ => simp [hp] at rl
      | omitted r1 r2 _ => simp [r1, r2] at mom
      | ptrNil t' _ rk _ _ => exact absurd rk (mnp t')
      | ptr t' _ _ _ rk _ _ _ _ => exact absurd rk (mnp t')
      | custom _ _ _ rc _ => rw [mc] at rc; cases rc
      | slice _ _ _ _ _ rk _ _ _ _ _ => simp [rk, isSimple] at ms
      | struct _ _ _ _ _ _ _ rk _ _ _ _ _ _ _ => simp [rk, isSimple] at ms
    | slice t' vs tss mom mc mk mv mall mts =>
      cases hR with
      | slice t'' vs' qs _ _ rk rv rany ro rall hq =>
        rw [mk] at rk; injection rk with rk; subst rk
        rw [mv] at rv; injection rv with rv; subst rv
        subst mts; subst hq
        exact slice_fold s f name om ty t' d mk (customU_none_of_customM_none s hs ty mc) ro
          (fun cur v ts q h1 h2 => ih name false t' cur v ts q d h1 h2) vs tss qs cur mall rall rany
      | omitted r1 r2 _ => simp [r1, r2] at mom
      | ptrNil _ _ rk _ _ => rw [mk] at rk; cases rk
      | ptr _ _ _ _ rk _ _ _ _ => rw [mk] at rk; cases rk
      | custom _ _ _ rc _ => rw [mc] at rc; cases rc
      | struct _ _ _ _ _ _ _ rk _ _ _ _ _ _ _ => rw [mk] at rk; cases rk
      | simple _ _ rs _ => simp [mk, isSimple] at rs
    | struct n fs fields attrs kidss mom mc mk mv mf mlen mattrs mkids mts =>
      cases hR with
      | struct n' fs' cs qs fields' _ _ rk rv rcur rf rlen1 rlen2 rall hq =>
        rw [mk] at rk; injection rk with rk; subst rk
        rw [mv] at rv; injection rv with rv; subst rv
        rw [mf] at rf; injection rf with rf; subst rf
        subst rcur; subst hq; subst mts
        have hna := hs.no_attr n fields mf
        have hd := hs.distinct n fields mf
        obtain ⟨hfa, hfk⟩ := zip_filter_attr (dataFields fields) fs hna
        rw [hfa] at mattrs
        rw [hfk] at mkids
        cases mattrs
        simp only [List.flatten_nil, entries, List.map_cons, List.map_nil, attrsOfTree]
        rw [foldField_single]
        simp only
        rw [unmarshal_struct s f ty n fields cs [] _ mk (customU_none_of_customM_none s hs ty mc) mf]
        simp only [List.foldlM_nil, pure, Outcome.bind]
        -- every field's own children decode to the field's leaf-wise round trip
        have key : ∀ (i : Nat) (fl : LtField), (dataFields fields)[i]? = some fl →
            foldField (unmarshalNode s f) fl.typ (cs.getD i .nil)
              (fieldKids fl.xmlName (contentOf d (.node name [] kidss.flatten))) = .ok (qs.getD i .nil) := by
          intro i fl hfl
          have hi : i < (dataFields fields).length := (List.getElem?_eq_some_iff.mp hfl).1
          have hfsi : fs[i]? = some fs[i] := List.getElem?_eq_getElem (by omega)
          have hcsi : cs[i]? = some cs[i] := List.getElem?_eq_getElem (by omega)
          obtain ⟨r, hr1, hr2⟩ := mkids.get i (fl, fs[i]) (by
            rw [List.getElem?_zip_eq_some]; exact ⟨hfl, hfsi⟩)
          obtain ⟨qi, hq1, hq2⟩ := rall.get i (fl, cs[i], fs[i]) (by
            rw [List.getElem?_zip_eq_some]
            refine ⟨hfl, ?_⟩
            rw [List.getElem?_zip_eq_some]; exact ⟨hcsi, hfsi⟩)
          have hattr : fl.attr = false := hna fl (List.mem_of_getElem? hfl)
          simp only [rtField, hattr, Bool.false_eq_true, if_false] at hq2
          rw [fieldKids_content]
          have hfilter := filter_flatten_names kidss ((dataFields fields).map (·.xmlName))
            (by rw [List.length_map, ← mkids.length_eq, List.length_zip]; omega)
            (by
              intro j nm r' hj hr'
              rw [List.getElem?_map] at hj
              cases hfj : (dataFields fields)[j]? with
              | none => simp [hfj] at hj
              | some fj =>
                simp only [hfj, Option.map_some, Option.some.injEq] at hj
                have hjlt : j < (dataFields fields).length := (List.getElem?_eq_some_iff.mp hfj).1
                obtain ⟨r'', h1, h2⟩ := mkids.get j (fj, fs[j]'(by omega)) (by
                  rw [List.getElem?_zip_eq_some]; exact ⟨hfj, List.getElem?_eq_getElem (by omega)⟩)
                rw [hr'] at h1; injection h1 with h1; subst h1
                rw [← hj]
                exact marshalTrees_names s f _ _ _ _ _ h2)
            (by
              intro i' j' a h1 h2
              rw [List.getElem?_map] at h1 h2
              cases hfi : (dataFields fields)[i']? with
              | none => simp [hfi] at h1
              | some fi =>
                cases hfj : (dataFields fields)[j']? with
                | none => simp [hfj] at h2
                | some fj =>
                  simp only [hfi, hfj, Option.map_some, Option.some.injEq] at h1 h2
                  exact hd i' j' fi fj hfi hfj (hna fi (List.mem_of_getElem? hfi)) (hna fj (List.mem_of_getElem? hfj))
                    (by rw [h1, h2]))
            i fl.xmlName (by rw [List.getElem?_map, hfl]; rfl)
          rw [hfilter]
          have e1 : kidss.getD i [] = r := by simp [List.getD, hr1]
          have e2 : cs.getD i .nil = cs[i] := by simp [List.getD, hcsi]
          have e3 : qs.getD i .nil = qi := by simp [List.getD, hq1]
          rw [e1, e2, e3]
          exact ih fl.xmlName fl.omitempty fl.typ cs[i] fs[i] r qi (d + 1) hr2 hq2
        obtain ⟨fs', hf1, hf2, hf3, _⟩ := foldKids_ok (unmarshalNode s f) (dataFields fields) hd
          (contentOf d (.node name [] kidss.flatten)) cs rlen2.symm
          (fun i fl hfl _ => ⟨_, key i fl hfl⟩)
        rw [hf1]
        simp only [Outcome.map]
        have hqlen : qs.length = (dataFields fields).length := by
          rw [← rall.length_eq, List.length_zip, List.length_zip]; omega
        have : fs' = qs := by
          apply ext_getD fs' qs .nil (by omega)
          intro i hi
          have hfl : (dataFields fields)[i]? = some (dataFields fields)[i] := List.getElem?_eq_getElem (by omega)
          have h1 := hf3 i _ hfl (hna _ (List.mem_of_getElem? hfl))
          rw [key i _ hfl] at h1
          injection h1 with h1
          exact h1.symm
        rw [this]
        rfl
      | omitted r1 r2 _ => simp [r1, r2] at mom
      | ptrNil _ _ rk _ _ => rw [mk] at rk; cases rk
      | ptr _ _ _ _ rk _ _ _ _ => rw [mk] at rk; cases rk
      | custom _ _ _ rc _ => rw [mc] at rc; cases rc
      | slice _ _ _ _ _ rk _ _ _ _ _ => rw [mk] at rk; cases rk
      | simple _ _ rs _ => simp [mk, isSimple] at rs

end TrackVerif.LT
