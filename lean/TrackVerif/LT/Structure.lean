import TrackVerif.LT.AttrLemmas
/-
  The structure theorem: for every value, whatever the marshaller prints for it is decoded — by
  the decoder's field routing over the content the XML reader delivers — to exactly what the
  leaf-wise round trip `rtOf` computes.  Proved for every schema with the four `SchemaFacts`;
  PropsC01 checks them on the schema regenerated from types.go.  Core only.
-/
namespace TrackVerif.LT
open TrackVerif TrackVerif.Gen TrackVerif.LT.Xml

/-- what the proof needs to know about the schema -/
structure SchemaFacts (s : Schema) : Prop where
  /-- every type with an UnmarshalXML has a MarshalXML -/
  um_sub : ∀ n, s.unmarshalers.contains n = true → s.marshalers.contains n = true
  /-- a type with only a MarshalXML is decoded as a plain scalar -/
  m_only_simple : ∀ n, s.marshalers.contains n = true → s.unmarshalers.contains n = false →
    isSimple (kindOf s 8 (.named n)) = true
  /-- the only fields carried as XML attributes are plain integers, always written -/
  attr_fields : ∀ n fields, s.fieldsOf n = some fields → ∀ f ∈ dataFields fields, f.attr = true →
    f.typ = .basic "int" ∧ f.omitempty = false
  /-- element names are distinct within a struct -/
  distinct : ∀ n fields, s.fieldsOf n = some fields → DistinctNames (dataFields fields)
  /-- attribute names are distinct within a struct -/
  distinct_attr : ∀ n fields, s.fieldsOf n = some fields → DistinctAttrNames (dataFields fields)

theorem customU_none_of_customM_none (s : Schema) (hs : SchemaFacts s) (ty : LtType) (h : customM s ty = none) :
    customU s ty = none := by
  unfold customM at h
  unfold customU
  cases hh : headName ty with
  | none => rfl
  | some n =>
    simp only [hh] at h ⊢
    cases hu : s.unmarshalers.contains n with
    | true =>
      rw [hs.um_sub n hu] at h
      simp at h
    | false => rfl

theorem leaf_dest (s : Schema) (hs : SchemaFacts s) (ty : LtType) (n : String) (h : customM s ty = some n) :
    (customU s ty).isSome = true ∨ isSimple (kindOf s 8 ty) = true := by
  unfold customM at h
  unfold customU
  cases ty with
  | named m =>
    simp only [headName] at h ⊢
    cases hm : s.marshalers.contains m with
    | true =>
      cases hu : s.unmarshalers.contains m with
      | true => left; rfl
      | false => right; exact hs.m_only_simple m hm hu
    | false => rw [hm] at h; simp at h
  | _ => simp [headName] at h

theorem textOf_leaf (txt : List Char) :
    textOf (if txt = [] then [] else [Node.text (Text.substitute txt)]) = Text.substitute txt := by
  by_cases h : txt = []
  · subst h; simp [textOf, Text.substitute]
  · simp [h, textOf]

theorem attrVals_eq_filter (name : String) : ∀ (l : List (String × List Char)),
    attrVals name l = (l.filter (fun a => a.1 == name)).map (·.2)
  | [] => rfl
  | a :: r => by
    by_cases h : a.1 = name
    · simp [attrVals, h, attrVals_eq_filter name r]
    · simp [attrVals, h, attrVals_eq_filter name r]

theorem attrOf_names (s : Schema) (p : LtField × V) (r : List (String × List Char)) (h : attrOf s p = .ok r) :
    ∀ a ∈ r, a.1 = p.1.xmlName := by
  unfold attrOf at h
  split at h
  · injection h with h; subst h; intro a ha; cases ha
  · obtain ⟨t, _, e⟩ := map_ok_inv _ _ _ h
    subst e; intro a ha; simp at ha; subst ha; rfl

theorem attrOf_inv (s : Schema) (p : LtField × V) (r : List (String × List Char)) (hom : p.1.omitempty = false)
    (h : attrOf s p = .ok r) : ∃ t, simpleText (kindOf s 8 p.1.typ) p.2 = .ok t ∧ r = [(p.1.xmlName, t)] := by
  unfold attrOf at h
  simp only [hom, Bool.false_and, Bool.false_eq_true, if_false] at h
  obtain ⟨t, h1, e⟩ := map_ok_inv _ _ _ h
  exact ⟨t, h1, e⟩

/-- distinct names among the fields selected by `pred` (attributes, or elements) -/
theorem pairwise_zip_filter (dfs : List LtField) (fs : List V) (a : Bool) (pred : LtField × V → Bool)
    (hpred : ∀ p, pred p = true → p.1.attr = a)
    (hd : ∀ (i j : Nat) (f f' : LtField), dfs[i]? = some f → dfs[j]? = some f' → f.attr = a → f'.attr = a →
      f.xmlName = f'.xmlName → i = j) :
    ((dfs.zip fs).filter pred).Pairwise (fun p p' => p.1.xmlName ≠ p'.1.xmlName) := by
  have h0 : (dfs.zip fs).Pairwise (fun p p' => p.1.attr = a → p'.1.attr = a → p.1.xmlName ≠ p'.1.xmlName) := by
    rw [List.pairwise_iff_getElem]
    intro i j hi hj hij h1 h2 e
    simp only [List.getElem_zip] at h1 h2 e
    have hi' : i < dfs.length := by simp only [List.length_zip] at hi; omega
    have hj' : j < dfs.length := by simp only [List.length_zip] at hj; omega
    have := hd i j dfs[i] dfs[j] (List.getElem?_eq_getElem hi') (List.getElem?_eq_getElem hj') h1 h2 e
    omega
  have h1 := List.Pairwise.filter pred h0
  refine List.Pairwise.imp_of_mem ?_ h1
  intro p p' hp hp' hR
  exact hR (hpred p (List.mem_filter.mp hp).2) (hpred p' (List.mem_filter.mp hp').2)

theorem leafRT_int (s : Schema) (cur v q : V) (t : List Char) (h : leafRT s (.basic "int") cur v = some q)
    (ht : simpleText .int v = .ok t) : copyValue .int t = .ok q := by
  have hk : kindOf s 8 (.basic "int") = .int := rfl
  unfold leafRT leafText leafParse at h
  simp only [customM, customU, headName, hk, ht, isSimple, if_true] at h
  rw [substitute_plain t (simpleText_int_plain v t ht)] at h
  cases hc : copyValue .int t with
  | ok q0 => simp only [hc] at h; injection h with h; rw [h]
  | _ => simp [hc] at h

/-- decoding the items of a slice, one element each -/
theorem slice_fold (s : Schema) (f : Nat) (name : String) (om : Bool) (ty t' : LtType) (d : Nat)
    (hk : kindOf s 8 ty = .slice t') (hc : customU s ty = none) (ho : oneElement s t' = true)
    (ih : ∀ (cur v : V) (ts : List Tree) (q : V), marshalTrees s f name false t' v = .ok ts →
      rtOf s f false t' cur v = some q → foldField (unmarshalNode s f) t' cur (entries d ts) = .ok q) :
    ∀ (vs : List V) (tss : List (List Tree)) (qs : List V) (cur : V),
      AllRel (fun e r => marshalTrees s f name om t' e = .ok r) vs tss →
      AllRel (fun e r => rtOf s f false t' (zeroOf s 8 t') e = some r) vs qs →
      vs.any (fun e => om && isEmptyValue (kindOf s 8 t') e) = false →
      foldField (unmarshalNode s (f + 1)) ty cur (entries d tss.flatten) = .ok (appendTo cur qs) := by
  intro vs
  induction vs with
  | nil =>
    intro tss qs cur h1 h2 _
    cases h1; cases h2
    simp [entries, foldField_nil, appendTo]
  | cons e es ihl =>
    intro tss qs cur h1 h2 hany
    cases h1 with
    | cons hm hms =>
      cases h2 with
      | cons hr hrs =>
        rename_i r rs' q qs'
        simp only [List.any_cons, Bool.or_eq_false_iff] at hany
        cases f with
        | zero => simp [marshalTrees] at hm
        | succ f' =>
          rw [marshal_om_irrelevant s f' name om t' e ho hany.1] at hm
          obtain ⟨t, ht⟩ := marshal_single s f' name false t' e r ho (by simp) hm
          subst ht
          have h0 := ih (zeroOf s 8 t') e [t] q hm hr
          simp only [entries, List.map_cons, List.map_nil] at h0
          rw [foldField_single] at h0
          simp only [List.flatten_cons, List.singleton_append, entries, List.map_cons]
          rw [foldField_cons]
          simp only
          rw [unmarshal_slice s (f' + 1) ty t' cur _ _ hk hc, h0]
          simp only [Outcome.map, Outcome.bind]
          have := ihl rs' qs' (V.list (itemsOf cur ++ [q])) hms hrs hany.2
          simp only [entries] at this
          rw [this]
          simp only [appendTo, List.foldl_cons]

/-- **structure theorem**: the decoder, folding the elements the marshaller printed for a value
    into a destination holding `cur`, ends with exactly the leaf-wise round trip of the value -/
theorem decode_marshal (s : Schema) (hs : SchemaFacts s) :
    ∀ (f : Nat) (name : String) (om : Bool) (ty : LtType) (cur v : V) (ts : List Tree) (q : V) (d : Nat),
      marshalTrees s f name om ty v = .ok ts → rtOf s f om ty cur v = some q →
      foldField (unmarshalNode s f) ty cur (entries d ts) = .ok q
  | 0, name, om, ty, cur, v, ts, q, d, hm, _ => by simp [marshalTrees] at hm
  | f + 1, name, om, ty, cur, v, ts, q, d, hm, hr => by
    have ih := decode_marshal s hs f
    have hM := marshalTrees_inv s f name om ty v ts hm
    have hR := rtOf_inv s f om ty cur v q hr
    cases hM with
    | omitted m1 m2 mts =>
      cases hR with
      | omitted _ _ hq => subst mts; subst hq; simp [entries, foldField_nil]
      | _ => simp_all
    | ptrNil t' mom mk mv mts =>
      cases hR with
      | ptrNil _ _ _ _ hq => subst mts; subst hq; simp [entries, foldField_nil]
      | omitted r1 r2 _ => simp [r1, r2] at mom
      | ptr _ _ _ _ _ rv _ _ _ => rw [mv] at rv; cases rv
      | custom _ _ hnp _ _ => exact absurd mk (hnp t')
      | slice _ _ _ _ _ rk _ _ _ _ _ => rw [mk] at rk; cases rk
      | struct _ _ _ _ _ _ _ rk _ _ _ _ _ _ _ => rw [mk] at rk; cases rk
      | simple _ _ rs _ => simp [mk, isSimple] at rs
    | ptr t' v' mom mk mv mm =>
      cases hR with
      | ptr t'' v'' q' _ rk rv ro rr hq =>
        rw [mk] at rk; injection rk with rk; subst rk
        rw [mv] at rv; injection rv with rv; subst rv
        subst hq
        cases f with
        | zero => simp [marshalTrees] at mm
        | succ f' =>
          obtain ⟨t, ht⟩ := marshal_single s f' name false t' v' ts ro (by simp) mm
          subst ht
          have h0 := ih name false t' _ v' [t] q' d mm rr
          simp only [entries, List.map_cons, List.map_nil] at h0 ⊢
          rw [foldField_single] at h0 ⊢
          rw [unmarshal_ptr s (f' + 1) ty t' cur _ _ mk, h0]
          rfl
      | omitted r1 r2 _ => simp [r1, r2] at mom
      | ptrNil _ _ _ rv _ => rw [mv] at rv; cases rv
      | custom _ _ hnp _ _ => exact absurd mk (hnp t')
      | slice _ _ _ _ _ rk _ _ _ _ _ => rw [mk] at rk; cases rk
      | struct _ _ _ _ _ _ _ rk _ _ _ _ _ _ _ => rw [mk] at rk; cases rk
      | simple _ _ rs _ => simp [mk, isSimple] at rs
    | custom n txt mom mnp mc mt mts =>
      cases hR with
      | custom n' _ _ rc rl =>
        subst mts
        simp only [entries, List.map_cons, List.map_nil, attrsOfTree, contentOf]
        rw [foldField_single]
        simp only
        rw [unmarshal_leaf s f ty cur [] _ mnp (leaf_dest s hs ty n mc), textOf_leaf]
        unfold leafRT leafText at rl
        simp only [mc, mt] at rl
        cases hp : leafParse s ty cur (Text.substitute txt) with
        | ok q0 => simp only [hp] at rl; injection rl with rl; subst rl; rfl
        | _ => simp [hp] at rl
      | omitted r1 r2 _ => simp [r1, r2] at mom
      | ptrNil t' _ rk _ _ => exact absurd rk (mnp t')
      | ptr t' _ _ _ rk _ _ _ _ => exact absurd rk (mnp t')
      | slice _ _ _ _ rc _ _ _ _ _ _ => rw [mc] at rc; cases rc
      | struct _ _ _ _ _ _ rc _ _ _ _ _ _ _ _ => rw [mc] at rc; cases rc
      | simple _ rc _ _ => rw [mc] at rc; cases rc
    | simple txt mom mc ms mt mts =>
      have mnp : ∀ t', kindOf s 8 ty ≠ .ptr t' := by
        intro t' e; simp [e, isSimple] at ms
      cases hR with
      | simple _ _ _ rl =>
        subst mts
        simp only [entries, List.map_cons, List.map_nil, attrsOfTree, contentOf]
        rw [foldField_single]
        simp only
        rw [unmarshal_leaf s f ty cur [] _ mnp (Or.inr ms), textOf_leaf]
        unfold leafRT leafText at rl
        simp only [mc, mt] at rl
        cases hp : leafParse s ty cur (Text.substitute txt) with
        | ok q0 => simp only [hp] at rl; injection rl with rl; subst rl; rfl
        | _ => simp [hp] at rl
      | omitted r1 r2 _ => simp [r1, r2] at mom
      | ptrNil t' _ rk _ _ => exact absurd rk (mnp t')
      | ptr t' _ _ _ rk _ _ _ _ => exact absurd rk (mnp t')
      | custom _ _ _ rc _ => rw [mc] at rc; cases rc
      | slice _ _ _ _ _ rk _ _ _ _ _ => simp [rk, isSimple] at ms
      | struct _ _ _ _ _ _ _ rk _ _ _ _ _ _ _ => simp [rk, isSimple] at ms
    | slice t' vs tss mom mc mk mv mall mts =>
      cases hR with
      | slice t'' vs' qs _ _ rk rv rany ro rall hq =>
        rw [mk] at rk; injection rk with rk; subst rk
        rw [mv] at rv; injection rv with rv; subst rv
        subst mts; subst hq
        exact slice_fold s f name om ty t' d mk (customU_none_of_customM_none s hs ty mc) ro
          (fun cur v ts q h1 h2 => ih name false t' cur v ts q d h1 h2) vs tss qs cur mall rall rany
      | omitted r1 r2 _ => simp [r1, r2] at mom
      | ptrNil _ _ rk _ _ => rw [mk] at rk; cases rk
      | ptr _ _ _ _ rk _ _ _ _ => rw [mk] at rk; cases rk
      | custom _ _ _ rc _ => rw [mc] at rc; cases rc
      | struct _ _ _ _ _ _ _ rk _ _ _ _ _ _ _ => rw [mk] at rk; cases rk
      | simple _ _ rs _ => simp [mk, isSimple] at rs
    | struct n fs fields attrs kidss mom mc mk mv mf mlen mattrs mkids mts =>
      cases hR with
      | struct n' fs' cs qs fields' _ _ rk rv rcur rf rlen1 rlen2 rall hq =>
        rw [mk] at rk; injection rk with rk; subst rk
        rw [mv] at rv; injection rv with rv; subst rv
        rw [mf] at rf; injection rf with rf; subst rf
        subst rcur; subst hq; subst mts
        have haf := hs.attr_fields n fields mf
        have hd := hs.distinct n fields mf
        have hda := hs.distinct_attr n fields mf
        simp only [entries, List.map_cons, List.map_nil, attrsOfTree]
        rw [foldField_single]
        simp only
        rw [unmarshal_struct s f ty n fields cs _ _ mk (customU_none_of_customM_none s hs ty mc) mf]
        have hqlen : qs.length = (dataFields fields).length := by
          rw [← rall.length_eq, List.length_zip, List.length_zip]; omega
        -- what each field gets
        have hidx : ∀ (i : Nat) (fl : LtField), (dataFields fields)[i]? = some fl →
            ∃ (x c qi : V), fs[i]? = some x ∧ cs[i]? = some c ∧ qs[i]? = some qi ∧
              ((fl, x) ∈ (dataFields fields).zip fs) ∧ rtField s (rtOf s f) (fl, c, x) = some qi := by
          intro i fl hfl
          have hi : i < (dataFields fields).length := (List.getElem?_eq_some_iff.mp hfl).1
          have hfsi : fs[i]? = some fs[i] := List.getElem?_eq_getElem (by omega)
          have hcsi : cs[i]? = some cs[i] := List.getElem?_eq_getElem (by omega)
          obtain ⟨qi, hq1, hq2⟩ := rall.get i (fl, cs[i], fs[i]) (by
            rw [List.getElem?_zip_eq_some]
            refine ⟨hfl, ?_⟩
            rw [List.getElem?_zip_eq_some]; exact ⟨hcsi, hfsi⟩)
          refine ⟨fs[i], cs[i], qi, hfsi, hcsi, hq1, ?_, hq2⟩
          exact List.mem_iff_getElem?.mpr ⟨i, by rw [List.getElem?_zip_eq_some]; exact ⟨hfl, hfsi⟩⟩
        -- attributes
        have keyA : ∀ (i : Nat) (fl : LtField), (dataFields fields)[i]? = some fl → fl.attr = true →
            foldAttr (kindOf s 8 fl.typ) (cs.getD i .nil) (attrVals fl.xmlName attrs.flatten) = .ok (qs.getD i .nil) := by
          intro i fl hfl hattr
          obtain ⟨x, c, qi, hx, hc, hqi, hmem, hrt⟩ := hidx i fl hfl
          obtain ⟨htyp, hom⟩ := haf fl (List.mem_of_getElem? hfl) hattr
          obtain ⟨r, hzip, hR⟩ := mattrs.mem_zip (fl, x) (List.mem_filter.mpr ⟨hmem, by simpa using hattr⟩)
          obtain ⟨t, ht, hr⟩ := attrOf_inv s (fl, x) r hom hR
          have hsel := filter_flatten_key (fun (p : LtField × V) => p.1.xmlName) (fun (a : String × List Char) => a.1)
            (fun p r => attrOf s p = .ok r) mattrs (fun p r hpr => attrOf_names s p r hpr)
            (pairwise_zip_filter (dataFields fields) fs true (·.1.attr) (fun p hp => hp) hda) (fl, x) r hzip
          simp only at hsel
          rw [attrVals_eq_filter, hsel, hr]
          simp only [List.map_cons, List.map_nil, foldAttr_cons, foldAttr_nil]
          simp only [rtField, hattr, if_true, hom, Bool.false_eq_true, if_false, htyp] at hrt
          rw [htyp] at ht ⊢
          have hk : kindOf s 8 (.basic "int") = .int := rfl
          rw [hk] at ht ⊢
          rw [leafRT_int s c x qi t hrt ht]
          simp [Outcome.bind, List.getD, hqi]
        obtain ⟨fs1, ha1, ha2, ha3, ha4⟩ := foldAttrs_ok s (dataFields fields) hda attrs.flatten cs rlen2.symm
          (fun i fl hfl hattr => ⟨_, keyA i fl hfl hattr⟩)
        rw [ha1]
        simp only [Outcome.bind]
        -- child elements
        have keyK : ∀ (i : Nat) (fl : LtField), (dataFields fields)[i]? = some fl → fl.attr = false →
            foldField (unmarshalNode s f) fl.typ (fs1.getD i .nil)
              (fieldKids fl.xmlName (contentOf d (.node name attrs.flatten kidss.flatten))) = .ok (qs.getD i .nil) := by
          intro i fl hfl hattr
          obtain ⟨x, c, qi, hx, hc, hqi, hmem, hrt⟩ := hidx i fl hfl
          obtain ⟨r, hzip, hR⟩ := mkids.mem_zip (fl, x) (List.mem_filter.mpr ⟨hmem, by simp [hattr]⟩)
          have hsel := filter_flatten_key (fun (p : LtField × V) => p.1.xmlName) nameOfTree
            (fun (p : LtField × V) r => marshalTrees s f p.1.xmlName p.1.omitempty p.1.typ p.2 = .ok r) mkids
            (fun p r hpr => marshalTrees_names s f _ _ _ _ _ hpr)
            (pairwise_zip_filter (dataFields fields) fs false (fun p => !p.1.attr) (fun p hp => by simpa using hp) hd)
            (fl, x) r hzip
          simp only at hsel
          rw [fieldKids_content, hsel, ha4 i fl hfl hattr]
          simp only [rtField, hattr, Bool.false_eq_true, if_false] at hrt
          have e2 : cs.getD i .nil = c := by simp [List.getD, hc]
          have e3 : qs.getD i .nil = qi := by simp [List.getD, hqi]
          rw [e2, e3]
          exact ih fl.xmlName fl.omitempty fl.typ c x r qi (d + 1) hR hrt
        obtain ⟨fs', hf1, hf2, hf3, hf4⟩ := foldKids_ok (unmarshalNode s f) (dataFields fields) hd
          (contentOf d (.node name attrs.flatten kidss.flatten)) fs1 ha2
          (fun i fl hfl hattr => ⟨_, keyK i fl hfl hattr⟩)
        rw [hf1]
        simp only [Outcome.map]
        have : fs' = qs := by
          apply ext_getD fs' qs .nil (by omega)
          intro i hi
          have hfl : (dataFields fields)[i]? = some (dataFields fields)[i] := List.getElem?_eq_getElem (by omega)
          cases hattr : (dataFields fields)[i].attr with
          | false =>
            have h1 := hf3 i _ hfl hattr
            rw [keyK i _ hfl hattr] at h1
            injection h1 with h1
            exact h1.symm
          | true =>
            have h1 := ha3 i _ hfl hattr
            rw [keyA i _ hfl hattr] at h1
            injection h1 with h1
            rw [hf4 i _ hfl hattr]
            exact h1.symm
        rw [this]
        rfl
      | omitted r1 r2 _ => simp [r1, r2] at mom
      | ptrNil _ _ rk _ _ => rw [mk] at rk; cases rk
      | ptr _ _ _ _ rk _ _ _ _ => rw [mk] at rk; cases rk
      | custom _ _ _ rc _ => rw [mc] at rc; cases rc
      | slice _ _ _ _ _ rk _ _ _ _ _ => rw [mk] at rk; cases rk
      | simple _ _ rs _ => simp [mk, isSimple] at rs

end TrackVerif.LT
