import TrackVerif.LT.ProtocolCount
/-
  C14 — Encoding always returns, and reports a failing output.
  Property theorems only: for every document (chunking `cs`, line structure `ls`, marshallable to
  the end or not: `m`), every failing write index `k`, with or without compression, and EVERY
  interleaving of the two goroutines.
  PARTIAL by nature: the model is the abstract protocol (io.Pipe's documented contract); the Go
  scheduler, the race detector and real time are outside it — "bounded time" is proved as "no
  infinite run and no deadlock".
-/
namespace TrackVerif.C14
open TrackVerif.LT.Protocol

/-- every step of either goroutine decreases a natural-number measure: no schedule is infinite -/
theorem terminates (s s' : St) (a : Actor) (t : Nat) (h : step s a t = some s') : μ s' < μ s :=
  step_decreases s s' a t h

/-- a run of n steps needs n ≤ μ(initial state) -/
theorem run_length_bounded (s0 : St) (n : Nat) (run : Nat → St) (acts : Nat → Actor × Nat)
    (h0 : run 0 = s0) (hstep : ∀ i < n, step (run i) (acts i).1 (acts i).2 = some (run (i + 1))) :
    n ≤ μ s0 := by
  have : ∀ i ≤ n, μ (run i) + i ≤ μ s0 := by
    intro i
    induction i with
    | zero => intro _; rw [h0]; omega
    | succ i ih =>
      intro hi
      have := ih (by omega)
      have hd := step_decreases _ _ _ _ (hstep i (by omega))
      omega
  have := this n (Nat.le_refl _)
  omega

/-- the failing index is a parameter of the run: no step changes it -/
theorem k_preserved (s s' : St) (a : Actor) (t : Nat) (h : step s a t = some s') : s'.k = s.k := by
  unfold step at h
  cases a <;> rcases hp : s.p with _ | (_ | _) | _ | _ | _ | _ | _ | _ <;> rcases hc : s.c with _ | _ | _ <;>
    simp only [hp, hc] at h <;> (repeat' (split at h)) <;>
    first | (cases h; done) | (injection h with h; subst h; rfl)

theorem reachable_k (s0 s : St) (h : Reachable s0 s) : s.k = s0.k := by
  induction h with
  | refl => rfl
  | step _ hs ih => rw [k_preserved _ _ _ _ hs, ih]

theorem reachable_inv (cs ls : List Nat) (k : Option Nat) (gz : Bool) (hl : ls.sum ≤ cs.sum) (s : St)
    (m : Bool) (h : Reachable (init cs ls k gz m) s) :
    InvA s ∧ InvB cs.sum s ∧ InvC (totalWrites ls (gz && !m)) s := by
  induction h with
  | refl => exact ⟨invA_init _ _ _ _ m, invB_init _ _ _ _ hl m, invC_init _ _ _ _ m⟩
  | step _ hs ih =>
    obtain ⟨ha, hb, hc⟩ := ih
    exact ⟨invA_step _ _ _ _ ha hs, invB_step _ _ _ _ _ ha hb hs, invC_step _ _ _ _ _ _ ha hb hc hs⟩

/-- no deadlock: in every reachable state in which neither goroutine can move, `Encode` has
    returned and the filter goroutine is not running — no background activity outlives the call -/
theorem no_deadlock (cs ls : List Nat) (k : Option Nat) (gz : Bool) (hl : ls.sum ≤ cs.sum) (s : St)
    (m : Bool) (hr : Reachable (init cs ls k gz m) s) (ht : Terminal s) :
    (∃ b, s.p = .done b) ∧ s.c ≠ .run := by
  obtain ⟨ha, hb, _⟩ := reachable_inv cs ls k gz hl s m hr
  have hp := ht .producer 0
  have hc1 := ht .consumer 1
  rcases hpp : s.p with _ | (_ | _) | _ | _ | _ | _ | b | _
  rotate_left 8
  · simp [step, hpp] at hp
  · simp [step, hpp] at hp; split at hp <;> simp at hp
  · simp only [step, hpp] at hp; (repeat' (split at hp)) <;> simp at hp
  · -- blocked in a pipe write: the reader must be able to move
    simp only [step, hpp] at hp
    by_cases hrc : s.rClosed = true
    · simp [hrc] at hp
    · simp only [hrc, Bool.false_eq_true, if_false] at hp
      by_cases hav : s.avail = 0
      · simp [hav] at hp
      · rcases hcc : s.c with _ | _ | b
        · rcases ha.idle_only hcc with h | h <;> simp [hpp] at h
        · simp only [step, hpp, hcc] at hc1
          have hpos : 0 < s.avail := Nat.pos_of_ne_zero hav
          rcases hls : s.ls with _ | ⟨l, rest⟩
          · simp [hls, hpos] at hc1; omega
          · simp only [hls] at hc1
            by_cases hle : l ≤ s.pend
            · simp only [hle, if_true] at hc1; split at hc1 <;> simp at hc1
            · simp [hle, hpos] at hc1; omega
        · exact absurd (ha.exited_closed b hcc) hrc
  · simp [step, hpp] at hp
  · simp [step, hpp] at hp
  · -- waiting for the filter's result
    rcases hcc : s.c with _ | _ | b
    · rcases ha.idle_only hcc with h | h <;> simp [hpp] at h
    · have hw := ha.wait_closed hpp
      simp only [step, hpp, hcc] at hc1
      rcases hls : s.ls with _ | ⟨l, rest⟩
      · simp only [hls] at hc1
        by_cases hpos : 0 < s.avail
        · simp [hpos] at hc1; omega
        · simp only [hpos, if_false, hw, if_true] at hc1; split at hc1 <;> simp at hc1
      · simp only [hls] at hc1
        by_cases hle : l ≤ s.pend
        · simp only [hle, if_true] at hc1; split at hc1 <;> simp at hc1
        · by_cases hpos : 0 < s.avail
          · simp [hle, hpos] at hc1; omega
          · simp only [hle, if_false, hpos, hw, if_true] at hc1; split at hc1 <;> simp at hc1
    · simp only [step, hpp, hcc] at hp
      (repeat' (split at hp)) <;> simp at hp
  · simp [step, hpp] at hp; split at hp <;> simp at hp
  · exact ⟨⟨b, rfl⟩, ha.done_quiet b hpp⟩

/-- `Encode` returns an error only after an output write has failed or when the document itself
    cannot be marshalled -/
theorem done_false_cause (cs ls : List Nat) (k : Option Nat) (gz : Bool) (hl : ls.sum ≤ cs.sum) (s : St)
    (m : Bool) (hr : Reachable (init cs ls k gz m) s) (hd : s.p = .done false) :
    s.failed = true ∨ s.merr = true := by
  induction hr with
  | refl => simp [init] at hd
  | @step s1 s2 a t hr1 hs ih =>
    obtain ⟨ha1, _, _⟩ := reachable_inv cs ls k gz hl s1 m hr1
    unfold step at hs
    cases a <;> rcases hp : s1.p with _ | (_ | _) | _ | _ | _ | _ | (_ | _) | _ <;> rcases hc : s1.c with _ | _ | (_ | _) <;>
      simp only [hp, hc] at hs <;> (repeat' (split at hs)) <;>
      first
      | (cases hs; done)
      | (injection hs with hs; subst hs
         have e1 := ha1.exit_false_failed
         have e2 := ih
         simp_all)

/-- whether the document can be marshalled is a parameter of the run -/
theorem merr_preserved (s s' : St) (a : Actor) (t : Nat) (h : step s a t = some s') : s'.merr = s.merr := by
  unfold step at h
  cases a <;> rcases hp : s.p with _ | (_ | _) | _ | _ | _ | _ | _ | _ <;> rcases hc : s.c with _ | _ | _ <;>
    simp only [hp, hc] at h <;> (repeat' (split at h)) <;>
    first | (cases h; done) | (injection h with h; subst h; rfl)

theorem reachable_merr (s0 s : St) (h : Reachable s0 s) : s.merr = s0.merr := by
  induction h with
  | refl => rfl
  | step _ hs ih => rw [merr_preserved _ _ _ _ hs, ih]

theorem reachable_invD (cs ls : List Nat) (k : Option Nat) (gz : Bool) (hl : ls.sum ≤ cs.sum) (s : St)
    (m : Bool) (h : Reachable (init cs ls k gz m) s) : InvD (totalWrites ls (gz && !m)) s := by
  induction h with
  | refl => exact invD_init _ _ _ _ _ m
  | @step s1 s2 a t hr1 hs ih =>
    obtain ⟨ha, _, hc⟩ := reachable_inv cs ls k gz hl s1 m hr1
    exact invD_step _ _ _ _ _ ha hc ih hs

/-- no spurious failure: for a document that can be marshalled, an output that never fails, or
    starts failing only after the last write of the fault-free run, lets `Encode` succeed under
    every schedule -/
theorem no_fault_succeeds (cs ls : List Nat) (k : Option Nat) (gz : Bool) (hl : ls.sum ≤ cs.sum) (s : St)
    (hr : Reachable (init cs ls k gz false) s) (ht : Terminal s)
    (hk : ∀ j, k = some j → totalWrites ls gz ≤ j) : s.p = .done true := by
  obtain ⟨⟨b, hb⟩, _⟩ := no_deadlock cs ls k gz hl s false hr ht
  cases b with
  | true => exact hb
  | false =>
    exfalso
    have hm : s.merr = false := by rw [reachable_merr _ _ hr]; rfl
    rcases done_false_cause cs ls k gz hl s false hr hb with hf | hf
    · obtain ⟨j, hj, hlt⟩ := reachable_invD cs ls k gz hl s false hr hf
      have hk' : s.k = k := by rw [reachable_k _ _ hr]; rfl
      have := hk j (by rw [← hk']; exact hj)
      simp only [Bool.not_false, Bool.and_true] at hlt
      omega
    · rw [hm] at hf; cases hf

/-- a failing output is reported: if any output write failed, `Encode` returns an error -/
theorem fault_reported (cs ls : List Nat) (k : Option Nat) (gz : Bool) (hl : ls.sum ≤ cs.sum) (s : St)
    (m : Bool) (hr : Reachable (init cs ls k gz m) s) (ht : Terminal s) (hf : s.failed = true) :
    s.p = .done false := by
  obtain ⟨ha, _, _⟩ := reachable_inv cs ls k gz hl s m hr
  obtain ⟨⟨b, hb⟩, _⟩ := no_deadlock cs ls k gz hl s m hr ht
  rcases ha.failed_state hf with h | ⟨_, h⟩
  · exact h
  · rw [hb] at h; simp [isSend] at h

/-- a document that cannot be marshalled to the end is reported too, under every schedule and
    whatever the output does — and (by `no_deadlock`) only after the filter goroutine has stopped -/
theorem marshal_error_reported (cs ls : List Nat) (k : Option Nat) (gz : Bool) (hl : ls.sum ≤ cs.sum) (s : St)
    (hr : Reachable (init cs ls k gz true) s) (ht : Terminal s) : s.p = .done false ∧ s.c ≠ .run := by
  obtain ⟨ha, _, _⟩ := reachable_inv cs ls k gz hl s true hr
  obtain ⟨⟨b, hb⟩, hq⟩ := no_deadlock cs ls k gz hl s true hr ht
  have hm : s.merr = true := by rw [reachable_merr _ _ hr]; rfl
  cases b with
  | false => exact ⟨hb, hq⟩
  | true =>
    have := (ha.done_true hb).2.2
    rw [hm] at this; cases this

/-- …and for every k below the number of writes of the fault-free run a write does fail, whatever
    the schedule: the output that starts failing at its k-th write always makes `Encode` fail -/
theorem every_fault_index_fails (cs ls : List Nat) (j : Nat) (gz : Bool) (hl : ls.sum ≤ cs.sum) (s : St)
    (m : Bool) (hr : Reachable (init cs ls (some j) gz m) s) (ht : Terminal s)
    (hj : j < totalWrites ls (gz && !m)) :
    s.p = .done false := by
  obtain ⟨ha, _, hc⟩ := reachable_inv cs ls (some j) gz hl s m hr
  obtain ⟨⟨b, hb⟩, hrun⟩ := no_deadlock cs ls (some j) gz hl s m hr ht
  by_cases hf : s.failed = true
  · exact fault_reported cs ls (some j) gz hl s m hr ht hf
  · have hf' : s.failed = false := by simpa using hf
    have hk : s.k = some j := by
      rw [reachable_k _ _ hr]; rfl
    have hcount := hc.count hf'
    have hbelow := hc.below hf' j hk
    -- terminal and not failed: everything was written
    cases b with
    | true =>
      obtain ⟨hce, _⟩ := ha.done_true hb
      simp [remWrites, hb, hce, pDone] at hcount
      omega
    | false => exact hb

/-- on success the output has received the complete document -/
theorem success_complete (cs ls : List Nat) (k : Option Nat) (gz : Bool) (hl : ls.sum ≤ cs.sum) (s : St)
    (m : Bool) (hr : Reachable (init cs ls k gz m) s) (hd : s.p = .done true) :
    s.delivered = cs.sum ∧ s.failed = false ∧ s.merr = false := by
  obtain ⟨ha, hb, _⟩ := reachable_inv cs ls k gz hl s m hr
  obtain ⟨hce, hf, hm⟩ := ha.done_true hd
  obtain ⟨h1, h2, h3⟩ := hb.exit_true hce
  have := hb.bytes hf
  simp [h1, h2, h3] at this
  exact ⟨this, hf, hm⟩

/-- the result does not depend on the schedule -/
theorem schedule_independent (cs ls : List Nat) (j : Nat) (gz : Bool) (hl : ls.sum ≤ cs.sum) (s1 s2 : St)
    (m : Bool) (h1 : Reachable (init cs ls (some j) gz m) s1) (h2 : Reachable (init cs ls (some j) gz m) s2)
    (t1 : Terminal s1) (t2 : Terminal s2) (hj : j < totalWrites ls (gz && !m)) : s1.p = s2.p := by
  rw [every_fault_index_fails cs ls j gz hl s1 m h1 t1 hj, every_fault_index_fails cs ls j gz hl s2 m h2 t2 hj]

/-- non-vacuity: a two-chunk document (lines of 4 and 4 bytes) whose third output write fails —
    the fair schedule reaches, in 40 steps, a state in which `Encode` has returned an error, the
    filter has exited and exactly the header and the first line were delivered; without a fault
    the same schedule ends in success with all 8 bytes delivered -/
example :
    let s := runFair 40 (init [5, 3] [4, 4] (some 2) false)
    Reachable (init [5, 3] [4, 4] (some 2) false) s ∧ s.p = .done false ∧ s.c = .exited false ∧ s.delivered = 4 :=
  ⟨runFair_reachable _ 40 _ Reachable.refl, by decide, by decide, by decide⟩

example :
    let s := runFair 40 (init [5, 3] [4, 4] none true)
    s.p = .done true ∧ s.c = .exited true ∧ s.delivered = 8 ∧ s.wcount = totalWrites [4, 4] true := by
  decide

/-- non-vacuity: a document whose marshalling fails after its two chunks, on a working output: the
    fair schedule ends with `Encode` returning an error, the filter stopped, all 8 bytes that
    were produced delivered, no gzip close -/
example :
    let s := runFair 40 (init [5, 3] [4, 4] none true true)
    s.p = .done false ∧ s.c = .exited true ∧ s.delivered = 8 ∧ s.failed = false ∧ s.wcount = 4 := by
  decide

end TrackVerif.C14
