import TrackVerif.LT.Fmt
/-  Lemmas about printing and scanning decimal integers. Core only. -/
namespace TrackVerif.LT.Fmt
open TrackVerif

theorem natChars_eq (n : Nat) : natChars n = Nat.toDigits 10 n := by
  simp [natChars, Nat.toString_eq_repr, Nat.toList_repr]

theorem natChars_digits (n : Nat) : ∀ c ∈ natChars n, isDigit c = true := by
  intro c hc
  rw [natChars_eq] at hc
  exact Nat.isDigit_of_mem_toDigits (by decide) (by decide) hc

theorem natChars_ne_nil (n : Nat) : natChars n ≠ [] := by
  rw [natChars_eq]; exact Nat.toDigits_ne_nil

theorem digitsToNat_natChars (n : Nat) : digitsToNat (natChars n) = n := by
  rw [natChars_eq]; exact Nat.ofDigitChars_ten_toDigits

theorem padLeft_digits (w : Nat) (ds : List Char) (h : ∀ c ∈ ds, isDigit c = true) :
    ∀ c ∈ Dec.padLeft w '0' ds, isDigit c = true := by
  intro c hc
  simp only [Dec.padLeft, List.mem_append, List.mem_replicate] at hc
  rcases hc with ⟨_, rfl⟩ | hc
  · decide
  · exact h c hc

theorem digitsToNat_padLeft (w : Nat) (ds : List Char) :
    digitsToNat (Dec.padLeft w '0' ds) = digitsToNat ds := by
  simp [digitsToNat, Dec.padLeft, Nat.ofDigitChars_append]

theorem padLeft_ne_nil (w : Nat) (ds : List Char) (h : ds ≠ []) : Dec.padLeft w '0' ds ≠ [] := by
  simp [Dec.padLeft, h]

theorem takeDigits_append (ds : List Char) (c : Char) (rest : List Char)
    (h : ∀ x ∈ ds, isDigit x = true) (hc : isDigit c = false) :
    takeDigits (ds ++ c :: rest) = (ds, c :: rest) := by
  induction ds with
  | nil => simp [takeDigits, hc]
  | cons d ds ih =>
    have hd : isDigit d = true := h d (by simp)
    have := ih (fun x hx => h x (by simp [hx]))
    simp [takeDigits, hd, this]

theorem takeDigits_all (ds : List Char) (h : ∀ x ∈ ds, isDigit x = true) :
    takeDigits ds = (ds, []) := by
  induction ds with
  | nil => simp [takeDigits]
  | cons d ds ih =>
    have hd : isDigit d = true := h d (by simp)
    have := ih (fun x hx => h x (by simp [hx]))
    simp [takeDigits, hd, this]

theorem digit_not_blank (c : Char) (h : isDigit c = true) : isBlank c = false ∧ c ≠ '\n' ∧ c ≠ '+' ∧ c ≠ '-' := by
  refine ⟨?_, ?_, ?_, ?_⟩
  · simp only [isBlank, Bool.or_eq_false_iff, decide_eq_false_iff_not]
    refine ⟨⟨⟨⟨⟨⟨?_, ?_⟩, ?_⟩, ?_⟩, ?_⟩, ?_⟩, ?_⟩ <;> (intro e; subst e; exact absurd h (by decide))
  all_goals (intro e; subst e; exact absurd h (by decide))

/-- scanning what `%0wd` printed for a natural number, followed by a non-digit -/
theorem scanInt_padded (w n : Nat) (c : Char) (rest : List Char) (hc : isDigit c = false) (hn : n ≤ int64Max) :
    scanInt (Dec.padLeft w '0' (natChars n) ++ c :: rest) = .ok (n : Int) (c :: rest) := by
  have hd := padLeft_digits w _ (natChars_digits n)
  have hne := padLeft_ne_nil w _ (natChars_ne_nil n)
  generalize hp : Dec.padLeft w '0' (natChars n) = ds at hd hne
  have hv : digitsToNat ds = n := by rw [← hp, digitsToNat_padLeft, digitsToNat_natChars]
  cases ds with
  | nil => exact absurd rfl hne
  | cons d ds' =>
    have hd0 := digit_not_blank d (hd d (by simp))
    have htd := takeDigits_append (d :: ds') c rest hd hc
    simp only [List.cons_append] at htd
    simp [scanInt, verbStart, skipBlanks, hd0.1, hd0.2.1, takeSign, hd0.2.2.1, hd0.2.2.2, htd, hv, hn]

theorem scanInt_padded_end (w n : Nat) (hn : n ≤ int64Max) :
    scanInt (Dec.padLeft w '0' (natChars n)) = .ok (n : Int) [] := by
  have hd := padLeft_digits w _ (natChars_digits n)
  have hne := padLeft_ne_nil w _ (natChars_ne_nil n)
  generalize hp : Dec.padLeft w '0' (natChars n) = ds at hd hne
  have hv : digitsToNat ds = n := by rw [← hp, digitsToNat_padLeft, digitsToNat_natChars]
  cases ds with
  | nil => exact absurd rfl hne
  | cons d ds' =>
    have hd0 := digit_not_blank d (hd d (by simp))
    have htd := takeDigits_all (d :: ds') hd
    simp [scanInt, verbStart, skipBlanks, hd0.1, hd0.2.1, takeSign, hd0.2.2.1, hd0.2.2.2, htd, hv, hn]

theorem fmtInt_nonneg (w n : Nat) : fmtInt w (n : Int) = Dec.padLeft w '0' (natChars n) := by
  have : ¬ ((n : Int) < 0) := by omega
  simp [fmtInt, this]

end TrackVerif.LT.Fmt
