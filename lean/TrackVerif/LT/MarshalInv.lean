import TrackVerif.LT.RTLemmas
/-  Inversion of the marshaller: the shapes a successful `marshalTrees` call can have.  Core only. -/
namespace TrackVerif.LT
open TrackVerif TrackVerif.Gen TrackVerif.LT.Xml

inductive MCase (s : Schema) (f : Nat) (name : String) (om : Bool) (ty : LtType) (v : V) (ts : List Tree) : Prop
  | omitted : om = true → isEmptyValue (kindOf s 8 ty) v = true → ts = [] → MCase s f name om ty v ts
  | ptrNil (t' : LtType) : (om && isEmptyValue (kindOf s 8 ty) v) = false → kindOf s 8 ty = .ptr t' → v = .nil →
      ts = [] → MCase s f name om ty v ts
  | ptr (t' : LtType) (v' : V) : (om && isEmptyValue (kindOf s 8 ty) v) = false → kindOf s 8 ty = .ptr t' →
      v = .ptr v' → marshalTrees s f name false t' v' = .ok ts → MCase s f name om ty v ts
  | custom (n : String) (txt : List Char) : (om && isEmptyValue (kindOf s 8 ty) v) = false →
      (∀ t', kindOf s 8 ty ≠ .ptr t') → customM s ty = some n → customText s n v = .ok txt →
      ts = [.leaf name [] txt] → MCase s f name om ty v ts
  | slice (t' : LtType) (vs : List V) (tss : List (List Tree)) : (om && isEmptyValue (kindOf s 8 ty) v) = false →
      customM s ty = none → kindOf s 8 ty = .slice t' → v = .list vs →
      AllRel (fun e r => marshalTrees s f name om t' e = .ok r) vs tss → ts = tss.flatten → MCase s f name om ty v ts
  | struct (n : String) (fs : List V) (fields : List LtField) (attrs : List (List (String × List Char)))
      (kidss : List (List Tree)) : (om && isEmptyValue (kindOf s 8 ty) v) = false →
      customM s ty = none → kindOf s 8 ty = .structT n → v = .struct fs → s.fieldsOf n = some fields →
      (dataFields fields).length = fs.length →
      AllRel (fun p r => attrOf s p = .ok r) (((dataFields fields).zip fs).filter (·.1.attr)) attrs →
      AllRel (fun (p : LtField × V) r => marshalTrees s f p.1.xmlName p.1.omitempty p.1.typ p.2 = .ok r)
        (((dataFields fields).zip fs).filter (fun p => !p.1.attr)) kidss →
      ts = [.node name attrs.flatten kidss.flatten] → MCase s f name om ty v ts
  | simple (txt : List Char) : (om && isEmptyValue (kindOf s 8 ty) v) = false → customM s ty = none →
      isSimple (kindOf s 8 ty) = true → simpleText (kindOf s 8 ty) v = .ok txt → ts = [.leaf name [] txt] →
      MCase s f name om ty v ts

theorem map_ok_inv {α β : Type} (x : Outcome α) (g : α → β) (r : β) (h : x.map g = .ok r) :
    ∃ a, x = .ok a ∧ r = g a := by
  cases x <;> simp [Outcome.map] at h
  exact ⟨_, rfl, h.symm⟩

theorem bind_ok_inv {α β : Type} (x : Outcome α) (g : α → Outcome β) (r : β) (h : x.bind g = .ok r) :
    ∃ a, x = .ok a ∧ g a = .ok r := by
  cases x <;> simp [Outcome.bind] at h
  exact ⟨_, rfl, h⟩

/-- unfolding `marshalTrees` one step -/
theorem marshalTrees_succ (s : Schema) (f : Nat) (name : String) (om : Bool) (ty : LtType) (v : V) :
    marshalTrees s (f + 1) name om ty v =
      if om && isEmptyValue (kindOf s 8 ty) v then .ok [] else
      match kindOf s 8 ty, v with
      | .ptr _, .nil => .ok []
      | .ptr t', .ptr v' => marshalTrees s f name false t' v'
      | .ptr _, _ => .unmodelled
      | k, v => marshalRest s (marshalTrees s f) name om ty k v := by
  conv => lhs; unfold marshalTrees
  split
  · rfl
  · cases kindOf s 8 ty <;> cases v <;> rfl

theorem marshalRest_inv (s : Schema) (f : Nat) (name : String) (om : Bool) (ty : LtType) (v : V) (ts : List Tree)
    (hom : (om && isEmptyValue (kindOf s 8 ty) v) = false) (hnp : ∀ t', kindOf s 8 ty ≠ .ptr t')
    (h : marshalRest s (marshalTrees s f) name om ty (kindOf s 8 ty) v = .ok ts) : MCase s f name om ty v ts := by
  unfold marshalRest at h
  cases hc : customM s ty with
  | some n =>
    simp only [hc] at h
    obtain ⟨txt, h1, h2⟩ := map_ok_inv _ _ _ h
    exact MCase.custom n txt hom hnp hc h1 h2
  | none =>
    simp only [hc] at h
    generalize hk : kindOf s 8 ty = k at h hom hnp
    cases k with
    | slice t' =>
      cases v with
      | list vs =>
        simp only at h
        obtain ⟨tss, h1, h2⟩ := map_ok_inv _ _ _ h
        exact MCase.slice t' vs tss (by rw [hk]; exact hom) hc hk rfl (mapM_ok _ vs tss h1) h2
      | _ => simp [isSimple] at h
    | structT n =>
      cases v with
      | struct fs =>
        simp only at h
        cases hf : s.fieldsOf n with
        | none => simp [hf] at h
        | some fields =>
          simp only [hf] at h
          by_cases hl : (dataFields fields).length ≠ fs.length
          · simp [hl] at h
          · simp only [hl, if_false] at h
            obtain ⟨attrs, ha, h2⟩ := bind_ok_inv _ _ _ h
            obtain ⟨kidss, hkk, h3⟩ := map_ok_inv _ _ _ h2
            have ha' := mapM_ok _ _ attrs ha
            have hk' := mapM_ok _ _ kidss hkk
            exact MCase.struct n fs fields attrs kidss (by rw [hk]; exact hom) hc hk rfl hf (by simpa using hl) ha' hk' h3
      | _ => simp [isSimple] at h
    | int | float | bool | string =>
      simp only [isSimple, if_true] at h
      all_goals (
        first
        | (obtain ⟨txt, h1, h2⟩ := map_ok_inv _ _ _ h
           exact MCase.simple txt (by rw [hk]; exact hom) hc (by rw [hk]; rfl) (by rw [hk]; exact h1) h2)
        | skip)
      all_goals (cases v <;> simp at h <;>
        (obtain ⟨txt, h1, h2⟩ := map_ok_inv _ _ _ h
         exact MCase.simple txt (by rw [hk]; exact hom) hc (by rw [hk]; rfl) (by rw [hk]; exact h1) h2))
    | ptr t' => exact absurd rfl (hnp t')
    | time | unit | unknown =>
      all_goals (cases v <;> simp [isSimple] at h)

theorem marshalTrees_inv (s : Schema) (f : Nat) (name : String) (om : Bool) (ty : LtType) (v : V) (ts : List Tree)
    (h : marshalTrees s (f + 1) name om ty v = .ok ts) : MCase s f name om ty v ts := by
  rw [marshalTrees_succ] at h
  by_cases hom : (om && isEmptyValue (kindOf s 8 ty) v) = true
  · simp only [hom, if_true] at h
    injection h with h
    simp only [Bool.and_eq_true] at hom
    exact MCase.omitted hom.1 hom.2 h.symm
  · have hom' : (om && isEmptyValue (kindOf s 8 ty) v) = false := by simpa using hom
    simp only [hom', Bool.false_eq_true, if_false] at h
    cases hk : kindOf s 8 ty with
    | ptr t' =>
      rw [hk] at h
      cases v with
      | nil => simp only at h; injection h with h; exact MCase.ptrNil t' hom' hk rfl h.symm
      | ptr v' => simp only at h; exact MCase.ptr t' v' hom' hk rfl h
      | _ => simp at h
    | _ =>
      rw [hk] at h
      all_goals (
        have hnp : ∀ t', kindOf s 8 ty ≠ .ptr t' := by intro t' e; rw [hk] at e; cases e
        have h' : marshalRest s (marshalTrees s f) name om ty (kindOf s 8 ty) v = .ok ts := by rw [hk]; simpa using h
        exact marshalRest_inv s f name om ty v ts hom' hnp h')

end TrackVerif.LT
