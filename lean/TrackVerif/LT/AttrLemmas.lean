import TrackVerif.LT.StructLemmas
/-  Attributes of a struct element: routed to the attribute fields independently, like child
    elements to element fields.  Core only. -/
namespace TrackVerif.LT
open TrackVerif TrackVerif.Gen TrackVerif.LT.Xml

/-- the values of the attributes named `name`, in document order -/
def attrVals (name : String) : List (String × List Char) → List (List Char)
  | [] => []
  | a :: r => if a.1 = name then a.2 :: attrVals name r else attrVals name r

/-- an attribute field takes each of them in turn (the last one stays) -/
def foldAttr (k : Kind) (cur : V) (vals : List (List Char)) : Outcome V :=
  vals.foldlM (fun _ t => copyValue k t) cur

def DistinctAttrNames (dfs : List LtField) : Prop :=
  ∀ (i j : Nat) (f f' : LtField), dfs[i]? = some f → dfs[j]? = some f' → f.attr = true → f'.attr = true →
    f.xmlName = f'.xmlName → i = j

def distinctAttrNamesB (dfs : List LtField) : Bool :=
  (List.range dfs.length).all fun i => (List.range dfs.length).all fun j =>
    i == j || !(match dfs[i]?, dfs[j]? with
      | some f, some f' => f.attr && f'.attr && f.xmlName == f'.xmlName
      | _, _ => false)

theorem distinctAttrNames_of_B (dfs : List LtField) (h : distinctAttrNamesB dfs = true) : DistinctAttrNames dfs := by
  intro i j f f' hf hf' ha ha' hn
  have hi : i < dfs.length := (List.getElem?_eq_some_iff.mp hf).1
  have hj : j < dfs.length := (List.getElem?_eq_some_iff.mp hf').1
  unfold distinctAttrNamesB at h
  rw [List.all_eq_true] at h
  have h1 := h i (List.mem_range.mpr hi)
  rw [List.all_eq_true] at h1
  have h2 := h1 j (List.mem_range.mpr hj)
  simp only [hf, hf', ha, ha', hn, Bool.and_self, beq_self_eq_true, Bool.not_true,
    Bool.or_false, beq_iff_eq] at h2
  exact h2

theorem foldAttr_nil (k : Kind) (cur : V) : foldAttr k cur [] = .ok cur := by
  simp [foldAttr, List.foldlM, pure]

theorem foldAttr_cons (k : Kind) (cur : V) (t : List Char) (ts : List (List Char)) :
    foldAttr k cur (t :: ts) = (copyValue k t).bind fun c => foldAttr k c ts := by
  simp only [foldAttr]; rw [foldlM_cons_ok]

/-- **attribute fields are decoded independently** -/
theorem foldAttrs_ok (s : Schema) (dfs : List LtField) (hd : DistinctAttrNames dfs) :
    ∀ (attrs : List (String × List Char)) (fs : List V), fs.length = dfs.length →
      (∀ (i : Nat) (f : LtField), dfs[i]? = some f → f.attr = true →
        ∃ v, foldAttr (kindOf s 8 f.typ) (fs.getD i .nil) (attrVals f.xmlName attrs) = .ok v) →
      ∃ fs', attrs.foldlM (attrStep s dfs) fs = .ok fs' ∧ fs'.length = dfs.length ∧
        (∀ (i : Nat) (f : LtField), dfs[i]? = some f → f.attr = true →
          foldAttr (kindOf s 8 f.typ) (fs.getD i .nil) (attrVals f.xmlName attrs) = .ok (fs'.getD i .nil)) ∧
        (∀ (i : Nat) (f : LtField), dfs[i]? = some f → f.attr = false → fs'.getD i .nil = fs.getD i .nil) := by
  intro attrs
  induction attrs with
  | nil =>
    intro fs hlen _
    refine ⟨fs, by simp [List.foldlM, pure], hlen, ?_, fun _ _ _ _ => rfl⟩
    intro i f _ _
    simp [attrVals, foldAttr_nil]
  | cons a r ih =>
    intro fs hlen hall
    cases hff : fieldFor dfs true a.1 with
    | none =>
      have hno := fieldFor_none dfs true a.1 hff
      have hfk : ∀ (i : Nat) (f : LtField), dfs[i]? = some f → f.attr = true →
          attrVals f.xmlName (a :: r) = attrVals f.xmlName r := by
        intro i f hf ha
        have : a.1 ≠ f.xmlName := fun e => hno i f hf ha e.symm
        simp [attrVals, this]
      obtain ⟨fs', h1, h2, h3, h4⟩ := ih fs hlen (by
        intro i f hf ha
        obtain ⟨v, hv⟩ := hall i f hf ha
        exact ⟨v, by rw [← hfk i f hf ha]; exact hv⟩)
      refine ⟨fs', ?_, h2, ?_, h4⟩
      · rw [foldlM_cons_ok]; simpa [attrStep, hff, Outcome.bind] using h1
      · intro i f hf ha; rw [hfk i f hf ha]; exact h3 i f hf ha
    | some fi =>
      obtain ⟨f0, i0⟩ := fi
      obtain ⟨hf0, ha0, hn0⟩ := fieldFor_some dfs true a.1 f0 i0 hff
      have hi0 : i0 < fs.length := by
        rw [hlen]; exact (List.getElem?_eq_some_iff.mp hf0).1
      obtain ⟨v, hv⟩ := hall i0 f0 hf0 ha0
      have hfk0 : attrVals f0.xmlName (a :: r) = a.2 :: attrVals f0.xmlName r := by
        simp [attrVals, hn0]
      rw [hfk0, foldAttr_cons] at hv
      cases hg : copyValue (kindOf s 8 f0.typ) a.2 with
      | ok v1 =>
        simp only [hg, Outcome.bind] at hv
        have hother : ∀ (i : Nat) (f : LtField), dfs[i]? = some f → f.attr = true → i ≠ i0 →
            attrVals f.xmlName (a :: r) = attrVals f.xmlName r := by
          intro i f hf ha hne
          have : a.1 ≠ f.xmlName := by
            intro e
            exact hne (hd i i0 f f0 hf hf0 ha ha0 (by rw [hn0]; exact e.symm))
          simp [attrVals, this]
        obtain ⟨fs', h1, h2, h3, h4⟩ := ih (setNth fs i0 v1) (by rw [setNth_length]; exact hlen) (by
          intro i f hf ha
          by_cases hi : i = i0
          · subst hi
            have : f = f0 := by rw [hf0] at hf; injection hf with hf; exact hf.symm
            subst this
            rw [setNth_getD_same fs i v1 .nil hi0]
            exact ⟨v, hv⟩
          · rw [setNth_getD_other fs i0 i v1 .nil (Ne.symm hi)]
            obtain ⟨w, hw⟩ := hall i f hf ha
            exact ⟨w, by rw [← hother i f hf ha hi]; exact hw⟩)
        refine ⟨fs', ?_, h2, ?_, ?_⟩
        · rw [foldlM_cons_ok]; simp only [attrStep, hff, hg, Outcome.map, Outcome.bind]; exact h1
        · intro i f hf ha
          by_cases hi : i = i0
          · subst hi
            have : f = f0 := by rw [hf0] at hf; injection hf with hf; exact hf.symm
            subst this
            rw [hfk0, foldAttr_cons, hg]
            simp only [Outcome.bind]
            have := h3 i f hf ha
            rwa [setNth_getD_same fs i v1 .nil hi0] at this
          · rw [hother i f hf ha hi]
            have := h3 i f hf ha
            rwa [setNth_getD_other fs i0 i v1 .nil (Ne.symm hi)] at this
        · intro i f hf ha
          have hne : i0 ≠ i := by
            intro e; subst e
            rw [hf0] at hf; injection hf with hf; subst hf
            rw [ha0] at ha; cases ha
          rw [h4 i f hf ha, setNth_getD_other fs i0 i v1 .nil hne]
      | err e => rw [hg] at hv; simp only [Outcome.bind] at hv; cases hv
      | panic p => rw [hg] at hv; simp only [Outcome.bind] at hv; cases hv
      | unmodelled => rw [hg] at hv; simp only [Outcome.bind] at hv; cases hv

/-! ### selecting by key from a flattened list -/

theorem AllRel.mem_zip {β γ : Type} {R : β → γ → Prop} {l : List β} {rs : List γ} (h : AllRel R l rs) :
    ∀ b ∈ l, ∃ r, (b, r) ∈ l.zip rs ∧ R b r := by
  induction h with
  | nil => intro b hb; cases hb
  | cons hr _ ih =>
    intro b hb
    cases hb with
    | head => exact ⟨_, by simp, hr⟩
    | tail _ hm =>
      obtain ⟨r, h1, h2⟩ := ih b hm
      exact ⟨r, by simp [h1], h2⟩

theorem AllRel.of_mem_zip {β γ : Type} {R : β → γ → Prop} {l : List β} {rs : List γ} (h : AllRel R l rs) :
    ∀ b r, (b, r) ∈ l.zip rs → R b r := by
  induction h with
  | nil => intro b r hb; simp at hb
  | cons hr _ ih =>
    intro b r hb
    simp only [List.zip_cons_cons, List.mem_cons, Prod.mk.injEq] at hb
    rcases hb with ⟨e1, e2⟩ | hb
    · subst e1 e2; exact hr
    · exact ih b r hb

/-- each part of a flattened list can be selected back by its key when the keys are distinct -/
theorem filter_flatten_key {β α : Type} (key : β → String) (nameOf : α → String) (R : β → List α → Prop)
    {L : List β} {rss : List (List α)} (h : AllRel R L rss)
    (hn : ∀ b r, R b r → ∀ t ∈ r, nameOf t = key b) (hp : L.Pairwise (fun b b' => key b ≠ key b')) :
    ∀ b r, (b, r) ∈ L.zip rss → rss.flatten.filter (fun t => nameOf t == key b) = r := by
  induction h with
  | nil => intro b r hb; simp at hb
  | @cons b0 r0 bs rs hr hrs ih =>
    intro b r hb
    have hp' := List.pairwise_cons.mp hp
    simp only [List.zip_cons_cons, List.mem_cons, Prod.mk.injEq] at hb
    simp only [List.flatten_cons, List.filter_append]
    rcases hb with ⟨e1, e2⟩ | hb
    · rw [e1, e2]
      have h1 : r0.filter (fun t => nameOf t == key b0) = r0 := by
        apply List.filter_eq_self.mpr
        intro t ht; simp [hn b0 r0 hr t ht]
      have h2 : rs.flatten.filter (fun t => nameOf t == key b0) = [] := by
        apply List.filter_eq_nil_iff.mpr
        intro t ht
        obtain ⟨l, hl, htl⟩ := List.mem_flatten.mp ht
        -- l belongs to some b' of the tail
        have : ∀ r' ∈ rs, ∀ t ∈ r', nameOf t ≠ key b0 := by
          refine AllRel.forall_right (P := fun r' => ∀ t ∈ r', nameOf t ≠ key b0) hrs ?_
          intro b' r' hb' hR t ht e
          have := hn b' r' hR t ht
          exact hp'.1 b' hb' (by rw [← e, this])
        simpa using this l hl t htl
      rw [h1, h2]; simp
    · have hbmem : b ∈ bs := (List.of_mem_zip hb).1
      have h1 : r0.filter (fun t => nameOf t == key b) = [] := by
        apply List.filter_eq_nil_iff.mpr
        intro t ht
        have := hn b0 r0 hr t ht
        simpa [this] using hp'.1 b hbmem
      rw [h1, ih hp'.2 b r hb]; simp

/-! ### integers in attribute position -/

theorem intText_plain (i : Int) : ∀ c ∈ (toString i).toList, c = '-' ∨ c.isDigit = true := by
  intro c hc
  cases i with
  | ofNat n =>
    right
    have : (toString (Int.ofNat n)).toList = (Nat.repr n).toList := by simp [toString, Int.repr]
    rw [this, Nat.toList_repr] at hc
    exact Nat.isDigit_of_mem_toDigits (by decide) (by decide) hc
  | negSucc n =>
    have : (toString (Int.negSucc n)).toList = '-' :: (Nat.repr (n + 1)).toList := by
      simp [toString, Int.repr]
    rw [this] at hc
    rcases List.mem_cons.mp hc with h | h
    · left; exact h
    · right; rw [Nat.toList_repr] at h; exact Nat.isDigit_of_mem_toDigits (by decide) (by decide) h

theorem simpleText_int_plain (v : V) (t : List Char) (h : simpleText .int v = .ok t) : plainVal t = true := by
  cases v <;> simp [simpleText] at h
  subst h
  simp only [plainVal, List.all_eq_true, Bool.or_eq_true, decide_eq_true_eq]
  intro c hc
  rcases intText_plain _ c hc with h | h
  · right; exact h
  · left; exact h

theorem substitute_plain (t : List Char) (h : plainVal t = true) : Text.substitute t = t := by
  unfold Text.substitute
  induction t with
  | nil => rfl
  | cons c cs ih =>
    simp only [plainVal, List.all_cons, Bool.and_eq_true, Bool.or_eq_true, decide_eq_true_eq] at h
    have hc : Text.inCharRange c = true := by
      rcases h.1 with hd | hm
      · have : 48 ≤ c.toNat ∧ c.toNat ≤ 57 := by
          simp only [Char.isDigit, Bool.and_eq_true, decide_eq_true_eq] at hd
          have h1 := hd.1; have h2 := hd.2
          simp only [UInt32.le_iff_toNat_le] at h1 h2
          exact ⟨h1, h2⟩
        simp only [Text.inCharRange, Bool.or_eq_true, Bool.and_eq_true, decide_eq_true_eq]
        omega
      · subst hm; decide
    simp only [List.map_cons, hc, if_true]
    congr 1
    exact ih (by simpa [plainVal] using h.2)

end TrackVerif.LT
