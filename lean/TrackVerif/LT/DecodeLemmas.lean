import TrackVerif.LT.Schema
/-  Lemmas about the schema-driven decoder: the children of a struct element are routed to the
    fields by name, independently of each other, of interleaved text and of unknown elements.
    Core only. -/
namespace TrackVerif.LT
open TrackVerif TrackVerif.Gen TrackVerif.LT.Xml

/-! ### list helpers -/

theorem setNth_length {α : Type} (l : List α) (i : Nat) (a : α) : (setNth l i a).length = l.length := by
  induction l generalizing i with
  | nil => rfl
  | cons x xs ih => cases i <;> simp [setNth, ih]

theorem setNth_getD_same {α : Type} (l : List α) (i : Nat) (a d : α) (h : i < l.length) :
    (setNth l i a).getD i d = a := by
  induction l generalizing i with
  | nil => simp at h
  | cons x xs ih =>
    cases i with
    | zero => simp [setNth]
    | succ j => simp only [setNth, List.getD_cons_succ]; exact ih j (by simpa using h)

theorem setNth_getD_other {α : Type} (l : List α) (i j : Nat) (a d : α) (h : i ≠ j) :
    (setNth l i a).getD j d = l.getD j d := by
  induction l generalizing i j with
  | nil => rfl
  | cons x xs ih =>
    cases i with
    | zero =>
      cases j with
      | zero => exact absurd rfl h
      | succ j' => simp [setNth]
    | succ i' =>
      cases j with
      | zero => simp [setNth]
      | succ j' => simp only [setNth, List.getD_cons_succ]; exact ih i' j' (by omega)

/-! ### field lookup -/

theorem find_zipIdx_some {α : Type} (l : List α) (p : α → Bool) (k : Nat) (a : α) (i : Nat)
    (h : (l.zipIdx k).find? (fun x => p x.1) = some (a, i)) :
    k ≤ i ∧ l[i - k]? = some a ∧ p a = true ∧ ∀ (j : Nat) (b : α), j < i - k → l[j]? = some b → p b = false := by
  induction l generalizing k with
  | nil => simp at h
  | cons x xs ih =>
    simp only [List.zipIdx_cons, List.find?_cons] at h
    by_cases hp : p x = true
    · simp only [hp] at h
      injection h with h; injection h with h1 h2
      subst h1 h2
      refine ⟨Nat.le_refl _, by simp, hp, ?_⟩
      intro j b hj; omega
    · have hp' : p x = false := by simpa using hp
      simp only [hp'] at h
      obtain ⟨h1, h2, h3, h4⟩ := ih (k + 1) h
      refine ⟨by omega, ?_, h3, ?_⟩
      · have : i - k = (i - (k + 1)) + 1 := by omega
        rw [this]; simpa using h2
      · intro j b hj hb
        cases j with
        | zero => simp at hb; subst hb; exact hp'
        | succ j' => exact h4 j' b (by omega) (by simpa using hb)

theorem find_zipIdx_none {α : Type} (l : List α) (p : α → Bool) (k : Nat)
    (h : (l.zipIdx k).find? (fun x => p x.1) = none) : ∀ (j : Nat) (b : α), l[j]? = some b → p b = false := by
  induction l generalizing k with
  | nil => intro j b hb; simp at hb
  | cons x xs ih =>
    simp only [List.zipIdx_cons, List.find?_cons] at h
    by_cases hp : p x = true
    · simp [hp] at h
    · have hp' : p x = false := by simpa using hp
      simp only [hp'] at h
      intro j b hb
      cases j with
      | zero => simp at hb; subst hb; exact hp'
      | succ j' => exact ih (k + 1) h j' b (by simpa using hb)

theorem fieldFor_some (dfs : List LtField) (isAttr : Bool) (name : String) (f : LtField) (i : Nat)
    (h : fieldFor dfs isAttr name = some (f, i)) :
    dfs[i]? = some f ∧ f.attr = isAttr ∧ f.xmlName = name := by
  unfold fieldFor at h
  have := find_zipIdx_some dfs (fun f => f.attr == isAttr && f.xmlName == name) 0 f i (by simpa using h)
  obtain ⟨_, h2, h3, _⟩ := this
  simp only [Bool.and_eq_true, beq_iff_eq] at h3
  exact ⟨by simpa using h2, h3.1, h3.2⟩

theorem fieldFor_none (dfs : List LtField) (isAttr : Bool) (name : String)
    (h : fieldFor dfs isAttr name = none) :
    ∀ (j : Nat) (f : LtField), dfs[j]? = some f → f.attr = isAttr → f.xmlName ≠ name := by
  unfold fieldFor at h
  have := find_zipIdx_none dfs (fun f => f.attr == isAttr && f.xmlName == name) 0 (by simpa using h)
  intro j f hf ha hn
  have := this j f hf
  simp [ha, hn] at this

/-! ### routing children to fields -/

/-- the child elements named `name`, in document order -/
def fieldKids (name : String) : List Node → List (List (String × List Char) × List Node)
  | [] => []
  | .text _ :: r => fieldKids name r
  | .elem n as sub :: r => if n = name then (as, sub) :: fieldKids name r else fieldKids name r

/-- decode all of them into one field, one after the other -/
def foldField (g : LtType → V → List (String × List Char) → List Node → Outcome V) (ty : LtType) (cur : V)
    (xs : List (List (String × List Char) × List Node)) : Outcome V :=
  xs.foldlM (fun c x => g ty c x.1 x.2) cur

def DistinctNames (dfs : List LtField) : Prop :=
  ∀ (i j : Nat) (f f' : LtField), dfs[i]? = some f → dfs[j]? = some f' → f.attr = false → f'.attr = false →
    f.xmlName = f'.xmlName → i = j

theorem foldlM_cons_ok {α β : Type} (g : β → α → Outcome β) (b : β) (a : α) (l : List α) :
    (a :: l).foldlM g b = (g b a).bind fun b' => l.foldlM g b' := by
  simp [List.foldlM_cons, bind]

/-- **fields are decoded independently**: if, for every element field, decoding the children that
    carry its name (in order, starting from what the field holds) succeeds, then decoding the
    whole child list succeeds, every such field ends up with exactly that result and attribute
    fields are untouched — whatever text, unknown elements or other fields' children are
    interleaved -/
theorem foldKids_ok (g : LtType → V → List (String × List Char) → List Node → Outcome V) (dfs : List LtField)
    (hd : DistinctNames dfs) :
    ∀ (kids : List Node) (fs : List V), fs.length = dfs.length →
      (∀ (i : Nat) (f : LtField), dfs[i]? = some f → f.attr = false →
        ∃ v, foldField g f.typ (fs.getD i .nil) (fieldKids f.xmlName kids) = .ok v) →
      ∃ fs', kids.foldlM (kidStep g dfs) fs = .ok fs' ∧ fs'.length = dfs.length ∧
        (∀ (i : Nat) (f : LtField), dfs[i]? = some f → f.attr = false →
          foldField g f.typ (fs.getD i .nil) (fieldKids f.xmlName kids) = .ok (fs'.getD i .nil)) ∧
        (∀ (i : Nat) (f : LtField), dfs[i]? = some f → f.attr = true → fs'.getD i .nil = fs.getD i .nil) := by
  intro kids
  induction kids with
  | nil =>
    intro fs hlen _
    refine ⟨fs, by simp [List.foldlM, pure], hlen, ?_, fun _ _ _ _ => rfl⟩
    intro i f _ _
    simp [foldField, fieldKids, List.foldlM, pure]
  | cons kid r ih =>
    intro fs hlen hall
    cases kid with
    | text t =>
      have := ih fs hlen (by simpa [fieldKids] using hall)
      obtain ⟨fs', h1, h2, h3, h4⟩ := this
      refine ⟨fs', ?_, h2, by simpa [fieldKids] using h3, h4⟩
      rw [foldlM_cons_ok]; simpa [kidStep, Outcome.bind] using h1
    | elem name as sub =>
      cases hff : fieldFor dfs false name with
      | none =>
        have hno := fieldFor_none dfs false name hff
        have hfk : ∀ (i : Nat) (f : LtField), dfs[i]? = some f → f.attr = false →
            fieldKids f.xmlName (.elem name as sub :: r) = fieldKids f.xmlName r := by
          intro i f hf ha
          have : name ≠ f.xmlName := fun e => hno i f hf ha e.symm
          simp [fieldKids, this]
        have := ih fs hlen (by
          intro i f hf ha
          obtain ⟨v, hv⟩ := hall i f hf ha
          exact ⟨v, by rw [← hfk i f hf ha]; exact hv⟩)
        obtain ⟨fs', h1, h2, h3, h4⟩ := this
        refine ⟨fs', ?_, h2, ?_, h4⟩
        · rw [foldlM_cons_ok]; simpa [kidStep, hff, Outcome.bind] using h1
        · intro i f hf ha; rw [hfk i f hf ha]; exact h3 i f hf ha
      | some fi =>
        obtain ⟨f0, i0⟩ := fi
        obtain ⟨hf0, ha0, hn0⟩ := fieldFor_some dfs false name f0 i0 hff
        have hi0 : i0 < fs.length := by
          rw [hlen]; exact (List.getElem?_eq_some_iff.mp hf0).1
        -- the field's own fold starts with this child
        obtain ⟨v, hv⟩ := hall i0 f0 hf0 ha0
        have hfk0 : fieldKids f0.xmlName (.elem name as sub :: r) = (as, sub) :: fieldKids f0.xmlName r := by
          simp [fieldKids, hn0]
        rw [hfk0, foldField, foldlM_cons_ok] at hv
        cases hg : g f0.typ (fs.getD i0 .nil) as sub with
        | ok v1 =>
          simp only [hg, Outcome.bind] at hv
          have hother : ∀ (i : Nat) (f : LtField), dfs[i]? = some f → f.attr = false → i ≠ i0 →
              fieldKids f.xmlName (.elem name as sub :: r) = fieldKids f.xmlName r := by
            intro i f hf ha hne
            have : name ≠ f.xmlName := by
              intro e
              exact hne (hd i i0 f f0 hf hf0 ha ha0 (by rw [hn0]; exact e.symm))
            simp [fieldKids, this]
          have := ih (setNth fs i0 v1) (by rw [setNth_length]; exact hlen) (by
            intro i f hf ha
            by_cases hi : i = i0
            · subst hi
              have : f = f0 := by rw [hf0] at hf; injection hf with hf; exact hf.symm
              subst this
              rw [setNth_getD_same fs i v1 .nil hi0]
              exact ⟨v, hv⟩
            · rw [setNth_getD_other fs i0 i v1 .nil (Ne.symm hi)]
              obtain ⟨w, hw⟩ := hall i f hf ha
              exact ⟨w, by rw [← hother i f hf ha hi]; exact hw⟩)
          obtain ⟨fs', h1, h2, h3, h4⟩ := this
          refine ⟨fs', ?_, h2, ?_, ?_⟩
          · rw [foldlM_cons_ok]; simp only [kidStep, hff, hg, Outcome.map, Outcome.bind]; exact h1
          · intro i f hf ha
            by_cases hi : i = i0
            · subst hi
              have : f = f0 := by rw [hf0] at hf; injection hf with hf; exact hf.symm
              subst this
              rw [hfk0, foldField, foldlM_cons_ok, hg]
              simp only [Outcome.bind]
              have := h3 i f hf ha
              rwa [setNth_getD_same fs i v1 .nil hi0] at this
            · rw [hother i f hf ha hi]
              have := h3 i f hf ha
              rwa [setNth_getD_other fs i0 i v1 .nil (Ne.symm hi)] at this
          · intro i f hf ha
            have hne : i0 ≠ i := by
              intro e; subst e
              rw [hf0] at hf; injection hf with hf; subst hf
              rw [ha0] at ha; cases ha
            rw [h4 i f hf ha, setNth_getD_other fs i0 i v1 .nil hne]
        | err e => rw [hg] at hv; simp only [Outcome.bind] at hv; cases hv
        | panic p => rw [hg] at hv; simp only [Outcome.bind] at hv; cases hv
        | unmodelled => rw [hg] at hv; simp only [Outcome.bind] at hv; cases hv

/-- decidable form of `DistinctNames` -/
def distinctNamesB (dfs : List LtField) : Bool :=
  (List.range dfs.length).all fun i => (List.range dfs.length).all fun j =>
    i == j || !(match dfs[i]?, dfs[j]? with
      | some f, some f' => !f.attr && !f'.attr && f.xmlName == f'.xmlName
      | _, _ => false)

theorem distinctNames_of_B (dfs : List LtField) (h : distinctNamesB dfs = true) : DistinctNames dfs := by
  intro i j f f' hf hf' ha ha' hn
  have hi : i < dfs.length := (List.getElem?_eq_some_iff.mp hf).1
  have hj : j < dfs.length := (List.getElem?_eq_some_iff.mp hf').1
  unfold distinctNamesB at h
  rw [List.all_eq_true] at h
  have h1 := h i (List.mem_range.mpr hi)
  rw [List.all_eq_true] at h1
  have h2 := h1 j (List.mem_range.mpr hj)
  simp only [hf, hf', ha, ha', hn, Bool.not_false, Bool.and_self, beq_self_eq_true, Bool.not_true,
    Bool.or_false, beq_iff_eq] at h2
  exact h2

end TrackVerif.LT
