import TrackVerif.LT.TextLemmas
import TrackVerif.LT.Xml
/-  Lemmas about the decoder-side tokenizer. Core only. -/
namespace TrackVerif.LT.Xml
open TrackVerif.LT.Text

/-- LapTimer's spelling of a character never begins with a raw '>' (or '<'), and is never empty -/
theorem ltEscape_head (c : Char) : ∃ h t, ltEscapeChar c = h :: t ∧ h ≠ '>' ∧ h ≠ '<' := by
  unfold ltEscapeChar
  repeat' split
  all_goals first
    | exact ⟨_, _, rfl, by decide, by decide⟩
    | (rename_i h1 h2 h3 h4 h5 h6 h7 h8 h9
       exact ⟨c, [], rfl, h5, h4⟩)

theorem take2_not_close (s rest : List Char) :
    (s.flatMap ltEscapeChar ++ '<' :: rest).take 2 ≠ [']', '>'] := by
  cases s with
  | nil => simp
  | cons c cs =>
    obtain ⟨h, t, e, _, _⟩ := ltEscape_head c
    simp only [List.flatMap_cons, e]
    cases t with
    | cons t1 ts =>
      -- two characters of the same escape: the second is never '>' either (entities are letters/digits)
      intro hh
      simp at hh
      obtain ⟨h1, h2⟩ := hh
      subst h1 h2
      -- no escape is of the form ']' :: '>' :: _
      unfold ltEscapeChar at e
      repeat' split at e
      all_goals first | (simp at e; done) | (cases e)
    | nil =>
      cases cs with
      | nil => simp
      | cons c2 cs2 =>
        obtain ⟨h2, t2, e2, hgt, _⟩ := ltEscape_head c2
        simp only [List.flatMap_cons, e2]
        intro hh
        simp at hh
        exact hgt hh.2

/-- one character of LapTimer's spelling, read by the decoder's character-data reader -/
theorem readText_step (c : Char) (tail : List Char)
    (hclose : tail.take 2 ≠ [']', '>']) :
    readTextFrom none 0 (ltEscapeChar c ++ tail) =
      (match readTextFrom none 0 tail with
       | .ok t r => .ok ((if inCharRange c then c else replacementChar) :: t) r
       | .err => .err
       | .unmodelled => .unmodelled) := by
  unfold ltEscapeChar
  split
  · rename_i h; subst h; simp [readTextFrom, readEntity, icr_quot] <;> (cases readTextFrom none 0 tail <;> rfl)
  split
  · rename_i h; subst h; simp [readTextFrom, readEntity, icr_apos] <;> (cases readTextFrom none 0 tail <;> rfl)
  split
  · rename_i h; subst h; simp [readTextFrom, readEntity, icr_amp] <;> (cases readTextFrom none 0 tail <;> rfl)
  split
  · rename_i h; subst h; simp [readTextFrom, readEntity, icr_lt] <;> (cases readTextFrom none 0 tail <;> rfl)
  split
  · rename_i h; subst h; simp [readTextFrom, readEntity, icr_gt] <;> (cases readTextFrom none 0 tail <;> rfl)
  split
  · rename_i h; subst h; simp [readTextFrom, icr_tab] <;> (cases readTextFrom none 0 tail <;> rfl)
  split
  · rename_i h; subst h; simp [readTextFrom, icr_lf] <;> (cases readTextFrom none 0 tail <;> rfl)
  split
  · rename_i h; subst h
    simp [readTextFrom, readEntity, readNum, hexVal?, scalar?, icr_cr', cr_ofNat] <;> (cases readTextFrom none 0 tail <;> rfl)
  split
  · rename_i h1 h2 h3 h4 h5 h6 h7 h8 h9
    have : inCharRange c = false := by simpa using h9
    have hr : inCharRange (Char.ofNat 65533) = true := by decide
    have e1 : (Char.ofNat 65533 = '<') = False := by decide
    have e2 : (Char.ofNat 65533 = '&') = False := by decide
    have e3 : (Char.ofNat 65533 = '\r') = False := by decide
    have e4 : (Char.ofNat 65533 = ']') = False := by decide
    simp [readTextFrom, this, replacementChar, hr, e1, e2, e3, e4] <;> (cases readTextFrom none 0 tail <;> rfl)
  · rename_i h1 h2 h3 h4 h5 h6 h7 h8 h9
    have hc : inCharRange c = true := by simpa using h9
    simp [readTextFrom, h4, h3, h8, hc, hclose] <;> (cases readTextFrom none 0 tail <;> rfl)

/-- a whole text in LapTimer's spelling followed by markup: the decoder reads back the text with
    non-XML characters substituted and stops at the '<' -/
theorem readText_ltEscape (s rest : List Char) :
    readText none (s.flatMap ltEscapeChar ++ '<' :: rest) = .ok (substitute s) ('<' :: rest) := by
  unfold readText
  induction s with
  | nil => simp [readTextFrom, substitute]
  | cons c cs ih =>
    simp only [List.flatMap_cons, List.append_assoc]
    rw [readText_step c _ (take2_not_close cs rest), ih]
    simp [substitute]

/-! ### the replacer over a rendered document -/

theorem tabs_no_amp (n : Nat) : ∀ x ∈ tabs n, x ≠ '&' := by
  intro x hx
  simp only [tabs, List.mem_replicate] at hx
  rw [hx.2]; decide

theorem name_no_amp (n : String) (h : nameOk n = true) : ∀ x ∈ n.toList, x ≠ '&' := by
  intro x hx
  simp only [nameOk, List.all_eq_true, bne_iff_ne, ne_eq] at h
  exact h x hx

theorem replace_attrs (as : List (String × List Char)) (h : as.all (fun a => nameOk a.1) = true) (rest : List Char) :
    replaceFrom specPairsL 0 (as.flatMap renderAttr ++ rest) = as.flatMap renderAttrLT ++ replaceFrom specPairsL 0 rest := by
  induction as with
  | nil => rfl
  | cons a as ih =>
    simp only [List.all_cons, Bool.and_eq_true] at h
    have hn := name_no_amp a.1 h.1
    simp only [List.flatMap_cons, renderAttr, renderAttrLT, List.append_assoc, List.cons_append, List.nil_append]
    have e1 : ∀ x ∈ ' ' :: (a.1.toList ++ ['=', '"']), x ≠ '&' := by
      intro x hx
      simp only [List.mem_cons, List.mem_append, List.not_mem_nil, or_false] at hx
      rcases hx with h | h | h | h
      · rw [h]; decide
      · exact hn x h
      · rw [h]; decide
      · rw [h]; decide
    have step1 := replace_no_amp (' ' :: (a.1.toList ++ ['=', '"'])) (goEscape a.2 ++ ('"' :: (as.flatMap renderAttr ++ rest))) e1
    simp only [List.cons_append, List.append_assoc, List.nil_append] at step1
    rw [step1, replace_escape]
    have e2 : ∀ x ∈ ['"'], x ≠ '&' := by intro x hx; simp at hx; rw [hx]; decide
    have step2 := replace_no_amp ['"'] (as.flatMap renderAttr ++ rest) e2
    simp only [List.cons_append, List.nil_append] at step2
    rw [step2, ih h.2]

/-- running the encoder's replacer over the printed document leaves all markup and indentation
    alone and turns exactly the escaped texts into LapTimer's spelling -/
theorem replace_render (p : PSt) (ts : List XTok) (h : ts.all tokOk = true) (rest : List Char) :
    replaceFrom specPairsL 0 (renderToksFrom p ts ++ rest) = renderLTFrom p ts ++ replaceFrom specPairsL 0 rest := by
  induction ts generalizing p with
  | nil => rfl
  | cons t ts ih =>
    simp only [List.all_cons, Bool.and_eq_true] at h
    have ih' := fun p' => ih p' h.2
    cases t with
    | text s =>
      simp only [renderToksFrom, renderLTFrom, renderTok, renderTokLT, List.append_assoc]
      rw [replace_escape, ih']
    | bad u =>
      simp only [renderToksFrom, renderLTFrom, renderTok, renderTokLT, List.nil_append]
      exact ih' p
    | stop n =>
      have hn := name_no_amp n (by simpa [tokOk] using h.1)
      simp only [renderToksFrom, renderLTFrom, renderTok, renderTokLT, List.append_assoc]
      have e : ∀ x ∈ (indentOut p).1 ++ ('<' :: '/' :: n.toList ++ ['>']), x ≠ '&' := by
        intro x hx
        simp only [List.mem_append, List.mem_cons, List.not_mem_nil, or_false] at hx
        rcases hx with h1 | (h1 | h1 | h1) | h1
        · unfold indentOut at h1
          split at h1
          · simp at h1
          · simp only [List.mem_append] at h1
            rcases h1 with h2 | h2
            · split at h2 <;> simp at h2; rw [h2]; decide
            · exact tabs_no_amp _ x h2
        · rw [h1]; decide
        · rw [h1]; decide
        · exact hn x h1
        · rw [h1]; decide
      have := replace_no_amp _ (renderToksFrom (indentOut p).2 ts ++ rest) e
      simp only [List.append_assoc, List.cons_append] at this ⊢
      rw [this, ih']
    | start n as =>
      simp only [tokOk, Bool.and_eq_true] at h
      have hn := name_no_amp n h.1.1
      simp only [renderToksFrom, renderLTFrom, renderTok, renderTokLT, List.append_assoc]
      have e : ∀ x ∈ (indentIn p).1 ++ ('<' :: n.toList), x ≠ '&' := by
        intro x hx
        simp only [List.mem_append, List.mem_cons] at hx
        rcases hx with h1 | h1 | h1
        · unfold indentIn at h1
          simp only [List.mem_append] at h1
          rcases h1 with h2 | h2
          · split at h2 <;> simp at h2; rw [h2]; decide
          · exact tabs_no_amp _ x h2
        · rw [h1]; decide
        · exact hn x h1
      have s1 := replace_no_amp _ (as.flatMap renderAttr ++ ('>' :: (renderToksFrom (indentIn p).2 ts ++ rest))) e
      simp only [List.append_assoc, List.cons_append, List.nil_append] at s1 ⊢
      rw [s1, replace_attrs as h.1.2]
      have e2 : ∀ x ∈ ['>'], x ≠ '&' := by intro x hx; simp at hx; rw [hx]; decide
      have s2 := replace_no_amp ['>'] (renderToksFrom (indentIn p).2 ts ++ rest) e2
      simp only [List.cons_append, List.nil_append] at s2
      rw [s2, ih']

end TrackVerif.LT.Xml
