import TrackVerif.LT.TextLemmas
import TrackVerif.LT.Xml
/-  Lemmas about the decoder-side tokenizer. Core only. -/
namespace TrackVerif.LT.Xml
open TrackVerif.LT.Text

/-- LapTimer's spelling of a character never begins with a raw '>' (or '<'), and is never empty -/
theorem ltEscape_head (c : Char) : ∃ h t, ltEscapeChar c = h :: t ∧ h ≠ '>' ∧ h ≠ '<' := by
  unfold ltEscapeChar
  repeat' split
  all_goals first
    | exact ⟨_, _, rfl, by decide, by decide⟩
    | (rename_i h1 h2 h3 h4 h5 h6 h7 h8 h9
       exact ⟨c, [], rfl, h5, h4⟩)

theorem take2_not_close (s rest : List Char) :
    (s.flatMap ltEscapeChar ++ '<' :: rest).take 2 ≠ [']', '>'] := by
  cases s with
  | nil => simp
  | cons c cs =>
    obtain ⟨h, t, e, _, _⟩ := ltEscape_head c
    simp only [List.flatMap_cons, e]
    cases t with
    | cons t1 ts =>
      -- two characters of the same escape: the second is never '>' either (entities are letters/digits)
      intro hh
      simp at hh
      obtain ⟨h1, h2⟩ := hh
      subst h1 h2
      -- no escape is of the form ']' :: '>' :: _
      unfold ltEscapeChar at e
      repeat' split at e
      all_goals first | (simp at e; done) | (cases e)
    | nil =>
      cases cs with
      | nil => simp
      | cons c2 cs2 =>
        obtain ⟨h2, t2, e2, hgt, _⟩ := ltEscape_head c2
        simp only [List.flatMap_cons, e2]
        intro hh
        simp at hh
        exact hgt hh.2

/-- one character of LapTimer's spelling, read by the decoder's character-data reader -/
theorem readText_step (c : Char) (tail : List Char)
    (hclose : tail.take 2 ≠ [']', '>']) :
    readTextFrom none 0 (ltEscapeChar c ++ tail) =
      (match readTextFrom none 0 tail with
       | .ok t r => .ok ((if inCharRange c then c else replacementChar) :: t) r
       | .err => .err
       | .unmodelled => .unmodelled) := by
  unfold ltEscapeChar
  split
  · rename_i h; subst h; simp [readTextFrom, readEntity, icr_quot] <;> (cases readTextFrom none 0 tail <;> rfl)
  split
  · rename_i h; subst h; simp [readTextFrom, readEntity, icr_apos] <;> (cases readTextFrom none 0 tail <;> rfl)
  split
  · rename_i h; subst h; simp [readTextFrom, readEntity, icr_amp] <;> (cases readTextFrom none 0 tail <;> rfl)
  split
  · rename_i h; subst h; simp [readTextFrom, readEntity, icr_lt] <;> (cases readTextFrom none 0 tail <;> rfl)
  split
  · rename_i h; subst h; simp [readTextFrom, readEntity, icr_gt] <;> (cases readTextFrom none 0 tail <;> rfl)
  split
  · rename_i h; subst h; simp [readTextFrom, icr_tab] <;> (cases readTextFrom none 0 tail <;> rfl)
  split
  · rename_i h; subst h; simp [readTextFrom, icr_lf] <;> (cases readTextFrom none 0 tail <;> rfl)
  split
  · rename_i h; subst h
    simp [readTextFrom, readEntity, readNum, hexVal?, scalar?, icr_cr', cr_ofNat] <;> (cases readTextFrom none 0 tail <;> rfl)
  split
  · rename_i h1 h2 h3 h4 h5 h6 h7 h8 h9
    have : inCharRange c = false := by simpa using h9
    have hr : inCharRange (Char.ofNat 65533) = true := by decide
    have e1 : (Char.ofNat 65533 = '<') = False := by decide
    have e2 : (Char.ofNat 65533 = '&') = False := by decide
    have e3 : (Char.ofNat 65533 = '\r') = False := by decide
    have e4 : (Char.ofNat 65533 = ']') = False := by decide
    simp [readTextFrom, this, replacementChar, hr, e1, e2, e3, e4] <;> (cases readTextFrom none 0 tail <;> rfl)
  · rename_i h1 h2 h3 h4 h5 h6 h7 h8 h9
    have hc : inCharRange c = true := by simpa using h9
    simp [readTextFrom, h4, h3, h8, hc, hclose] <;> (cases readTextFrom none 0 tail <;> rfl)

/-- a whole text in LapTimer's spelling followed by markup: the decoder reads back the text with
    non-XML characters substituted and stops at the '<' -/
theorem readText_ltEscape (s rest : List Char) :
    readText none (s.flatMap ltEscapeChar ++ '<' :: rest) = .ok (substitute s) ('<' :: rest) := by
  unfold readText
  induction s with
  | nil => simp [readTextFrom, substitute]
  | cons c cs ih =>
    simp only [List.flatMap_cons, List.append_assoc]
    rw [readText_step c _ (take2_not_close cs rest), ih]
    simp [substitute]

end TrackVerif.LT.Xml
