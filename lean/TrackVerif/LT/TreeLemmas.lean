import TrackVerif.LT.Tree
import TrackVerif.LT.LexLemmas
/-  The printer writes `renderTree`; the strict tokenizer reads it back as `lexedOf`. Core only. -/
namespace TrackVerif.LT.Xml
open TrackVerif.LT.Text

def afterElem (d : Nat) : PSt := { depth := d, indentedIn := false, putNewline := true }
def insideStart (d : Nat) : PSt := { depth := d + 1, indentedIn := true, putNewline := true }

theorem render_start (p : PSt) (n : String) (as : List (String × List Char)) (ts : List XTok) :
    renderLTFrom p (.start n as :: ts) =
      ((if p.putNewline then ['\n'] else []) ++ tabs p.depth) ++ (startTag n as ++ renderLTFrom (insideStart p.depth) ts) := by
  simp [renderLTFrom, renderTokLT, indentIn, startTag, insideStart]

theorem render_stop_inside (d : Nat) (n : String) (ts : List XTok) :
    renderLTFrom (insideStart d) (.stop n :: ts) = stopTag n ++ renderLTFrom (afterElem d) ts := by
  simp [renderLTFrom, renderTokLT, indentOut, insideStart, stopTag, afterElem]

theorem render_stop_after (d : Nat) (n : String) (ts : List XTok) :
    renderLTFrom (afterElem (d + 1)) (.stop n :: ts) = nlTabs d ++ (stopTag n ++ renderLTFrom (afterElem d) ts) := by
  simp [renderLTFrom, renderTokLT, indentOut, afterElem, stopTag, nlTabs]

theorem render_text (p : PSt) (t : List Char) (ts : List XTok) :
    renderLTFrom p (.text t :: ts) = t.flatMap ltEscapeChar ++ renderLTFrom p ts := by
  simp [renderLTFrom, renderTokLT]

mutual
/-- printing an element that is not the first thing printed (a newline and the indentation precede it) -/
theorem render_tree (d : Nat) (inside : Bool) :
    ∀ (t : Tree) (rest : List XTok),
      renderLTFrom (if inside then insideStart d else afterElem (d + 1)) (toksOf t ++ rest) =
        nlTabs (d + 1) ++ (renderTree (d + 1) t ++ renderLTFrom (afterElem (d + 1)) rest)
  | .leaf n as txt, rest => by
    have hp : (if inside then insideStart d else afterElem (d + 1)).putNewline = true := by cases inside <;> rfl
    have hd : (if inside then insideStart d else afterElem (d + 1)).depth = d + 1 := by cases inside <;> rfl
    simp only [toksOf, List.cons_append, List.nil_append, render_start, hp, hd, if_true, render_text,
      render_stop_inside, renderTree, nlTabs, List.append_assoc, List.cons_append]
  | .node n as [], rest => by
    have hp : (if inside then insideStart d else afterElem (d + 1)).putNewline = true := by cases inside <;> rfl
    have hd : (if inside then insideStart d else afterElem (d + 1)).depth = d + 1 := by cases inside <;> rfl
    simp only [toksOf, toksOfL, List.cons_append, List.nil_append, render_start, hp, hd, if_true,
      render_stop_inside, renderTree, nlTabs, List.append_assoc, List.cons_append]
  | .node n as (k :: ks), rest => by
    have hp : (if inside then insideStart d else afterElem (d + 1)).putNewline = true := by cases inside <;> rfl
    have hd : (if inside then insideStart d else afterElem (d + 1)).depth = d + 1 := by cases inside <;> rfl
    have hk := render_kids (d + 1) true (k :: ks) (.stop n :: rest) (by simp)
    simp only [if_true] at hk
    simp only [toksOf, List.cons_append, List.append_assoc, List.nil_append, render_start, hp, hd, if_true, renderTree]
    rw [hk, render_stop_after]
    simp only [nlTabs, List.append_assoc, List.cons_append, List.nil_append]
theorem render_kids (d : Nat) (inside : Bool) :
    ∀ (ks : List Tree) (rest : List XTok), ks ≠ [] →
      renderLTFrom (if inside then insideStart d else afterElem (d + 1)) (toksOfL ks ++ rest) =
        renderKids (d + 1) ks ++ renderLTFrom (afterElem (d + 1)) rest
  | [], _, h => absurd rfl h
  | [k], rest, _ => by
    have := render_tree d inside k rest
    simp only [toksOfL, List.append_nil, renderKids] at this ⊢
    rw [this]; simp only [List.append_assoc]
  | k :: k2 :: ks, rest, _ => by
    have h1 := render_tree d inside k (toksOfL (k2 :: ks) ++ rest)
    have h2 := render_kids d false (k2 :: ks) rest (by simp)
    simp only [Bool.false_eq_true, if_false] at h2
    simp only [toksOfL, List.append_assoc] at h1 ⊢
    rw [h1]
    simp only [toksOfL, List.append_assoc] at h2
    rw [h2]
    simp only [renderKids, List.append_assoc]
end

/-- the root element: nothing precedes it -/
theorem render_root : ∀ (t : Tree) (rest : List XTok),
    renderLTFrom {} (toksOf t ++ rest) = renderTree 0 t ++ renderLTFrom (afterElem 0) rest
  | .leaf n as txt, rest => by
    simp only [toksOf, List.cons_append, List.nil_append, render_start, render_text, render_stop_inside,
      renderTree, List.append_assoc]
    simp [tabs]
  | .node n as [], rest => by
    simp only [toksOf, toksOfL, List.cons_append, List.nil_append, render_start, render_stop_inside,
      renderTree, List.append_assoc]
    simp [tabs]
  | .node n as (k :: ks), rest => by
    have hk := render_kids 0 true (k :: ks) (.stop n :: rest) (by simp)
    simp only [if_true] at hk
    simp only [toksOf, List.cons_append, List.append_assoc, List.nil_append, render_start, renderTree]
    rw [hk, render_stop_after]
    simp [tabs, List.append_assoc]

/-! ### reading it back -/

theorem wsOnly_nlTabs (d : Nat) : wsOnly (nlTabs d) = true := by
  simp [wsOnly, nlTabs, tabs]

theorem nlTabs_ne (d : Nat) : nlTabs d ≠ [] := by simp [nlTabs]

theorem stopTag_cons (n : String) (r : List Char) : stopTag n ++ r = '<' :: '/' :: (n.toList ++ '>' :: r) := by
  simp [stopTag]

theorem startTag_cons (n : String) (as : List (String × List Char)) (r : List Char) :
    startTag n as ++ r = '<' :: (n.toList ++ (as.flatMap renderAttrLT ++ '>' :: r)) := by
  simp [startTag]

mutual
theorem lex_tree (d : Nat) : ∀ (t : Tree), treeOk t = true → ∀ (rest : List Char) (f : Nat),
    lexBody (f + (lexedOf d t).length) (renderTree d t ++ rest) = lexedOf d t ++ lexBody f rest
  | .leaf n as txt, hok, rest, f => by
    simp only [treeOk, Bool.and_eq_true, Bool.not_eq_true'] at hok
    obtain ⟨⟨hn, has⟩, hx⟩ := hok
    by_cases ht : txt = []
    · subst ht
      simp only [renderTree, lexedOf, if_true, List.flatMap_nil, List.nil_append, List.append_assoc,
        List.length_cons, List.length_nil]
      rw [startTag_cons, show f + (0 + 1 + 1) = (f + 1) + 1 by omega, lexBody_start _ n hn as has hx,
        stopTag_cons, lexBody_stop f n hn]
      rfl
    · simp only [renderTree, lexedOf, ht, if_false, List.append_assoc, List.length_cons, List.length_append,
        List.length_nil]
      rw [startTag_cons, show f + (1 + 1 + 1) = (f + 1 + 1) + 1 by omega, lexBody_start _ n hn as has hx,
        stopTag_cons, lexBody_text (f + 1) txt _ ht, lexBody_stop f n hn]
      rfl
  | .node n as [], hok, rest, f => by
    simp only [treeOk, treeOkL, Bool.and_eq_true, Bool.not_eq_true', Bool.and_true] at hok
    obtain ⟨⟨hn, has⟩, hx⟩ := hok
    simp only [renderTree, lexedOf, List.append_assoc, List.length_cons, List.length_nil]
    rw [startTag_cons, show f + (0 + 1 + 1) = (f + 1) + 1 by omega, lexBody_start _ n hn as has hx,
      stopTag_cons, lexBody_stop f n hn]
    rfl
  | .node n as (k :: ks), hok, rest, f => by
    simp only [treeOk, Bool.and_eq_true, Bool.not_eq_true'] at hok
    obtain ⟨⟨⟨hn, has⟩, hx⟩, hkids⟩ := hok
    have hk := lex_kids (d + 1) (k :: ks) hkids (nlTabs d ++ (stopTag n ++ rest)) (f + 2)
    simp only [renderTree, lexedOf, List.append_assoc, List.length_cons, List.length_append, List.length_nil]
    rw [startTag_cons,
      show f + ((lexedKids (d + 1) (k :: ks)).length + (0 + 1 + 1) + 1) = (f + 2 + (lexedKids (d + 1) (k :: ks)).length) + 1 by omega,
      lexBody_start _ n hn as has hx, hk, stopTag_cons,
      show f + 2 = (f + 1) + 1 by omega, lexBody_ws (f + 1) (nlTabs d) _ (wsOnly_nlTabs d) (nlTabs_ne d),
      lexBody_stop f n hn]
    simp
theorem lex_kids (d : Nat) : ∀ (ks : List Tree), treeOkL ks = true → ∀ (rest : List Char) (f : Nat),
    lexBody (f + (lexedKids d ks).length) (renderKids d ks ++ rest) = lexedKids d ks ++ lexBody f rest
  | [], _, rest, f => by simp [renderKids, lexedKids]
  | k :: ks, hok, rest, f => by
    simp only [treeOkL, Bool.and_eq_true] at hok
    have h1 := lex_tree d k hok.1 (renderKids d ks ++ rest) (f + (lexedKids d ks).length)
    have h2 := lex_kids d ks hok.2 rest f
    -- the element's text starts with '<'
    have hstart : ∃ r, renderTree d k ++ (renderKids d ks ++ rest) = '<' :: r := by
      cases k with
      | leaf n as t => simp only [renderTree, startTag, List.cons_append]; exact ⟨_, rfl⟩
      | node n as kk => cases kk <;> (simp only [renderTree, startTag, List.cons_append]; exact ⟨_, rfl⟩)
    obtain ⟨r0, hr0⟩ := hstart
    simp only [renderKids, lexedKids, List.append_assoc, List.length_cons, List.length_append]
    rw [show f + ((lexedOf d k).length + (lexedKids d ks).length + 1) =
        (f + (lexedKids d ks).length + (lexedOf d k).length) + 1 by omega, hr0,
      lexBody_ws _ (nlTabs d) r0 (wsOnly_nlTabs d) (nlTabs_ne d), ← hr0, h1, h2]
    simp
end

/-! ### nesting check and significant tokens -/

theorem nest_start (st : List String) (seen : Bool) (h : ¬ (st = [] ∧ seen = true)) (n : String)
    (as : List (String × List Char)) (ts : List XTok) :
    nest st seen (.start n as :: ts) = .start n as :: nest (n :: st) true ts := by
  cases st <;> cases seen <;> simp_all [nest]

theorem nest_text (n : String) (st : List String) (seen : Bool) (t : List Char) (ts : List XTok) :
    nest (n :: st) seen (.text t :: ts) = .text t :: nest (n :: st) seen ts := by
  simp [nest]

theorem nest_stop (n : String) (st : List String) (seen : Bool) (ts : List XTok) :
    nest (n :: st) seen (.stop n :: ts) = .stop n :: nest st seen ts := by
  simp [nest]

mutual
theorem nest_tree (d : Nat) : ∀ (t : Tree) (st : List String) (seen : Bool) (rest : List XTok),
    ¬ (st = [] ∧ seen = true) → nest st seen (lexedOf d t ++ rest) = lexedOf d t ++ nest st true rest
  | .leaf n as txt, st, seen, rest, h => by
    by_cases ht : txt = []
    · simp [lexedOf, ht, nest_start st seen h, nest_stop]
    · simp [lexedOf, ht, nest_start st seen h, nest_text, nest_stop]
  | .node n as [], st, seen, rest, h => by
    simp [lexedOf, nest_start st seen h, nest_stop]
  | .node n as (k :: ks), st, seen, rest, h => by
    have hk := nest_kids (d + 1) (k :: ks) n st (.text (nlTabs d) :: .stop n :: rest)
    simp only [lexedOf, List.cons_append, List.append_assoc, List.nil_append, nest_start st seen h]
    rw [hk]
    simp [nest_text, nest_stop]
theorem nest_kids (d : Nat) : ∀ (ks : List Tree) (n : String) (st : List String) (rest : List XTok),
    nest (n :: st) true (lexedKids d ks ++ rest) = lexedKids d ks ++ nest (n :: st) true rest
  | [], _, _, _ => by simp [lexedKids]
  | k :: ks, n, st, rest => by
    have h1 := nest_tree d k (n :: st) true (lexedKids d ks ++ rest) (by simp)
    have h2 := nest_kids d ks n st rest
    simp only [lexedKids, List.cons_append, List.append_assoc, nest_text]
    rw [h1, h2]
end

/-- the nesting check accepts the whole document and passes every token through -/
theorem nest_root (t : Tree) : nest [] false (lexedOf 0 t) = lexedOf 0 t := by
  have := nest_tree 0 t [] false [] (by simp)
  simpa [nest] using this

def isBad : XTok → Bool
  | .bad _ => true
  | _ => false

mutual
theorem lexed_no_bad (d : Nat) : ∀ (t : Tree), (lexedOf d t).any isBad = false
  | .leaf n as txt => by by_cases ht : txt = [] <;> simp [lexedOf, ht, isBad]
  | .node n as [] => by simp [lexedOf, isBad]
  | .node n as (k :: ks) => by
    have := lexedKids_no_bad (d + 1) (k :: ks)
    simp [lexedOf, isBad, this]
theorem lexedKids_no_bad (d : Nat) : ∀ (ks : List Tree), (lexedKids d ks).any isBad = false
  | [] => by simp [lexedKids]
  | k :: ks => by
    have h1 := lexed_no_bad d k
    have h2 := lexedKids_no_bad d ks
    simp [lexedKids, isBad, h1, h2]
end

/-! ### layout whitespace is not significant -/

mutual
/-- the element with empty texts dropped: the normal form both sides are compared in -/
def sigOf : Tree → List XTok
  | .leaf n as t => .start n as :: ((if t = [] then [] else [.text (substitute t)]) ++ [.stop n])
  | .node n as kids => .start n as :: (sigOfL kids ++ [.stop n])
def sigOfL : List Tree → List XTok
  | [] => []
  | t :: ts => sigOf t ++ sigOfL ts
end

theorem nlTabs_space (d : Nat) : (nlTabs d).all isSpace = true := by
  simp [nlTabs, tabs, isSpace]

theorem substitute_nil_iff (t : List Char) : substitute t = [] ↔ t = [] := by
  cases t <;> simp [substitute]

theorem significant_stop (n : String) (r : List XTok) : significant (.stop n :: r) = .stop n :: significant r := by
  simp [significant]

theorem significant_ws (ws : List Char) (h : ws.all isSpace = true) (r : List XTok) :
    significant (.text ws :: r) = significant r := by
  simp [significant, h]

theorem lexedOf_head (d : Nat) (t : Tree) : ∃ n as r, lexedOf d t = .start n as :: r ∧ (∀ m, r.head? ≠ some (.stop m) ∨ True) := by
  cases t with
  | leaf n as txt => exact ⟨n, as, _, rfl, fun _ => Or.inr trivial⟩
  | node n as ks => cases ks <;> exact ⟨n, as, _, rfl, fun _ => Or.inr trivial⟩

/-- `start` followed by something that is not (`text`, `stop`) -/
theorem significant_start_start (n : String) (as : List (String × List Char)) (m : String)
    (bs : List (String × List Char)) (r : List XTok) :
    significant (.start n as :: .start m bs :: r) = .start n as :: significant (.start m bs :: r) := by
  simp [significant]

theorem significant_start_stop (n : String) (as : List (String × List Char)) (m : String) (r : List XTok) :
    significant (.start n as :: .stop m :: r) = .start n as :: .stop m :: significant r := by
  simp [significant]

theorem significant_start_text_start (n : String) (as : List (String × List Char)) (ws : List Char)
    (h : ws.all isSpace = true) (m : String) (bs : List (String × List Char)) (r : List XTok) :
    significant (.start n as :: .text ws :: .start m bs :: r) = .start n as :: significant (.start m bs :: r) := by
  simp [significant, h]

mutual
theorem sig_lexed (d : Nat) : ∀ (t : Tree) (rest : List XTok),
    significant (lexedOf d t ++ rest) = sigOf t ++ significant rest
  | .leaf n as txt, rest => by
    by_cases ht : txt = []
    · simp [lexedOf, sigOf, ht, significant_start_stop]
    · have hs : substitute txt ≠ [] := fun h => ht ((substitute_nil_iff txt).mp h)
      simp [lexedOf, sigOf, ht, significant, hs]
  | .node n as [], rest => by
    simp [lexedOf, sigOf, sigOfL, significant_start_stop]
  | .node n as (k :: ks), rest => by
    have hk := sig_lexedKids (d + 1) (k :: ks) (.text (nlTabs d) :: .stop n :: rest) (by simp)
    obtain ⟨m, bs, r, hr, _⟩ := lexedOf_head (d + 1) k
    simp only [lexedOf, lexedKids, List.cons_append, List.append_assoc, List.nil_append, hr] at hk ⊢
    rw [significant_start_text_start n as _ (nlTabs_space (d + 1))]
    rw [significant_ws _ (nlTabs_space (d + 1))] at hk
    rw [hk, significant_ws _ (nlTabs_space d), significant_stop]
    simp [sigOf, List.append_assoc]
theorem sig_lexedKids (d : Nat) : ∀ (ks : List Tree) (rest : List XTok), ks ≠ [] ∨ True →
    significant (lexedKids d ks ++ rest) = sigOfL ks ++ significant rest
  | [], rest, _ => by simp [lexedKids, sigOfL]
  | k :: ks, rest, _ => by
    have h1 := sig_lexed d k (lexedKids d ks ++ rest)
    have h2 := sig_lexedKids d ks rest (Or.inr trivial)
    simp only [lexedKids, List.cons_append, List.append_assoc, sigOfL]
    rw [significant_ws _ (nlTabs_space d), h1, h2]
end

theorem toksOf_head (t : Tree) : ∃ n as r, toksOf (substTree t) = .start n as :: r := by
  cases t with
  | leaf n as txt => exact ⟨n, as, _, rfl⟩
  | node n as ks => exact ⟨n, as, _, rfl⟩

mutual
theorem sig_toks : ∀ (t : Tree) (rest : List XTok),
    significant (toksOf (substTree t) ++ rest) = sigOf t ++ significant rest
  | .leaf n as txt, rest => by
    by_cases ht : txt = []
    · simp [toksOf, substTree, sigOf, ht, significant, substitute]
    · have hs : substitute txt ≠ [] := fun h => ht ((substitute_nil_iff txt).mp h)
      simp [toksOf, substTree, sigOf, ht, significant, hs]
  | .node n as [], rest => by
    simp [toksOf, toksOfL, substTree, substTreeL, sigOf, sigOfL, significant_start_stop]
  | .node n as (k :: ks), rest => by
    have hk := sig_toksL (k :: ks) (.stop n :: rest)
    obtain ⟨m, bs, r, hr⟩ := toksOf_head k
    simp only [toksOf, toksOfL, substTree, substTreeL, List.cons_append, List.append_assoc, List.nil_append, hr] at hk ⊢
    rw [significant_start_start, hk, significant_stop]
    simp [sigOf, List.append_assoc]
theorem sig_toksL : ∀ (ks : List Tree) (rest : List XTok),
    significant (toksOfL (substTreeL ks) ++ rest) = sigOfL ks ++ significant rest
  | [], rest => by simp [toksOfL, substTreeL, sigOfL]
  | k :: ks, rest => by
    have h1 := sig_toks k (toksOfL (substTreeL ks) ++ rest)
    have h2 := sig_toksL ks rest
    simp only [toksOfL, substTreeL, List.append_assoc, sigOfL]
    rw [h1, h2]
end

/-- **reading the printed tree back**: for every element tree with schema names and plain
    attribute values, the strict tokenizer accepts what the printer wrote (no syntax error, tags
    properly nested) and, apart from layout whitespace between elements, returns exactly the
    tree's tokens with every text as a parser must hand it back -/
theorem printed_tree_reads_back (t : Tree) (hok : treeOk t = true) (f : Nat) :
    let toks := nest [] false (lexBody (f + 1 + (lexedOf 0 t).length) (renderLTFrom {} (toksOf t)))
    toks.any isBad = false ∧ significant toks = significant (toksOf (substTree t)) := by
  have hr := render_root t []
  simp only [List.append_nil, renderLTFrom] at hr
  have hl := lex_tree 0 t hok [] (f + 1)
  simp only [List.append_nil] at hl
  have hb : lexBody (f + 1) [] = [] := by simp [lexBody]
  simp only [hr, hl, hb, List.append_nil, nest_root]
  refine ⟨lexed_no_bad 0 t, ?_⟩
  have h1 := sig_lexed 0 t []
  have h2 := sig_toks t []
  simp only [List.append_nil] at h1 h2
  rw [h1, h2]

/-! ### schema names have no '&' -/

theorem nameOk_of_xmlNameOk (n : String) (h : xmlNameOk n = true) : nameOk n = true := by
  unfold xmlNameOk at h
  cases hl : n.toList with
  | nil => simp [hl] at h
  | cons c cs =>
    simp only [hl, Bool.and_eq_true, List.all_eq_true, Bool.or_eq_true, decide_eq_true_eq] at h
    simp only [nameOk, hl, List.all_eq_true, bne_iff_ne, ne_eq]
    intro x hx e
    subst e
    have := (h.2 _ hx).1
    revert this; decide

theorem attrsOk_tok (as : List (String × List Char)) (h : as.all attrOk = true) :
    as.all (fun a => nameOk a.1) = true := by
  simp only [List.all_eq_true, attrOk, Bool.and_eq_true] at h ⊢
  exact fun a ha => nameOk_of_xmlNameOk a.1 (h a ha).1

mutual
theorem tokOk_of_treeOk : ∀ (t : Tree), treeOk t = true → (toksOf t).all tokOk = true
  | .leaf n as txt, h => by
    simp only [treeOk, Bool.and_eq_true, Bool.not_eq_true'] at h
    simp [toksOf, tokOk, nameOk_of_xmlNameOk n h.1.1, attrsOk_tok as h.1.2]
  | .node n as kids, h => by
    simp only [treeOk, Bool.and_eq_true, Bool.not_eq_true'] at h
    have := tokOkL_of_treeOkL kids h.2
    simp [toksOf, tokOk, nameOk_of_xmlNameOk n h.1.1.1, attrsOk_tok as h.1.1.2, List.all_append, this]
theorem tokOkL_of_treeOkL : ∀ (ts : List Tree), treeOkL ts = true → (toksOfL ts).all tokOk = true
  | [], _ => by simp [toksOfL]
  | t :: ts, h => by
    simp only [treeOkL, Bool.and_eq_true] at h
    simp [toksOfL, List.all_append, tokOk_of_treeOk t h.1, tokOkL_of_treeOkL ts h.2]
end

/-! ### from tokens to content trees -/

theorem parseNodes_text (f : Nat) (t : List Char) (r : List XTok) :
    parseNodes (f + 1) (.text t :: r) =
      (match parseNodes f r with | .ok ns r' => .ok (.text t :: ns) r' | .bad u => .bad u) := by
  simp only [parseNodes]
  cases parseNodes f r <;> rfl

theorem parseNodes_stop (f : Nat) (n : String) (r : List XTok) : parseNodes (f + 1) (.stop n :: r) = .ok [] r := by
  simp [parseNodes]

theorem parseNodes_start (f : Nat) (n : String) (as : List (String × List Char)) (r : List XTok) :
    parseNodes (f + 1) (.start n as :: r) =
      (match parseNodes f r with
       | .ok kids r' => (match parseNodes f r' with | .ok ns r'' => .ok (.elem n as kids :: ns) r'' | .bad u => .bad u)
       | .bad u => .bad u) := by
  simp only [parseNodes]
  cases parseNodes f r with
  | bad u => rfl
  | ok k r' => simp only []; cases parseNodes f r' <;> rfl

/-- fuel can only help -/
theorem parseNodes_mono : ∀ (f : Nat) (toks : List XTok) (ns : List Node) (r : List XTok),
    parseNodes f toks = .ok ns r → ∀ g, f ≤ g → parseNodes g toks = .ok ns r := by
  intro f
  induction f with
  | zero => intro toks ns r h; simp [parseNodes] at h
  | succ f ih =>
    intro toks ns r h g hg
    obtain ⟨g', rfl⟩ : ∃ g', g = g' + 1 := ⟨g - 1, by omega⟩
    have hg' : f ≤ g' := by omega
    cases toks with
    | nil => simp [parseNodes] at h
    | cons t ts =>
      cases t with
      | bad u => simp [parseNodes] at h
      | stop n => simp [parseNodes] at h ⊢; exact h
      | text tx =>
        rw [parseNodes_text] at h ⊢
        cases h1 : parseNodes f ts with
        | bad u => simp [h1] at h
        | ok ns1 r1 =>
          rw [ih ts ns1 r1 h1 g' hg']
          simpa [h1] using h
      | start n as =>
        rw [parseNodes_start] at h ⊢
        cases h1 : parseNodes f ts with
        | bad u => simp [h1] at h
        | ok k1 r1 =>
          simp only [h1] at h
          cases h2 : parseNodes f r1 with
          | bad u => simp [h2] at h
          | ok n2 r2 =>
            rw [ih ts k1 r1 h1 g' hg']
            simp only
            rw [ih r1 n2 r2 h2 g' hg']
            simpa [h2] using h

/-- `toks` is parsed as the content-tree prefix `nodes`, whatever follows -/
def ParsesAs (toks : List XTok) (nodes : List Node) : Prop :=
  ∀ (f : Nat) (tail : List XTok) (ns : List Node) (r : List XTok),
    parseNodes f tail = .ok ns r → parseNodes (f + toks.length) (toks ++ tail) = .ok (nodes ++ ns) r

theorem parsesAs_nil : ParsesAs [] [] := by
  intro f tail ns r h; simpa using h

theorem parsesAs_text (t : List Char) (toks : List XTok) (nodes : List Node) (h : ParsesAs toks nodes) :
    ParsesAs (.text t :: toks) (.text t :: nodes) := by
  intro f tail ns r hp
  have := h f tail ns r hp
  simp only [List.cons_append, List.length_cons]
  rw [show f + (toks.length + 1) = (f + toks.length) + 1 by omega, parseNodes_text, this]

/-- an element whose content parses as `content` -/
theorem parsesAs_elem (n : String) (as : List (String × List Char)) (body : List XTok) (content : List Node)
    (h : ParsesAs body content) :
    ParsesAs (.start n as :: (body ++ [.stop n])) [.elem n as content] := by
  intro f tail ns r hp
  have hstop : parseNodes (f + 1) (.stop n :: tail) = .ok [] tail := parseNodes_stop f n tail
  have hc := h (f + 1) (.stop n :: tail) [] tail hstop
  simp only [List.append_nil] at hc
  have htail := parseNodes_mono f tail ns r hp (f + 1 + body.length) (by omega)
  simp only [List.cons_append, List.append_assoc, List.length_cons, List.length_append, List.length_nil,
    List.nil_append]
  rw [show f + (body.length + (0 + 1) + 1) = (f + 1 + body.length) + 1 by omega, parseNodes_start, hc]
  simp only [htail, List.cons_append, List.nil_append]

theorem parsesAs_append (t1 t2 : List XTok) (n1 n2 : List Node) (h1 : ParsesAs t1 n1) (h2 : ParsesAs t2 n2) :
    ParsesAs (t1 ++ t2) (n1 ++ n2) := by
  intro f tail ns r hp
  have a := h2 f tail ns r hp
  have b := h1 (f + t2.length) (t2 ++ tail) (n2 ++ ns) r a
  simp only [List.append_assoc, List.length_append]
  rw [show f + (t1.length + t2.length) = f + t2.length + t1.length by omega]
  exact b

mutual
theorem parses_tree (d : Nat) : ∀ (t : Tree), ParsesAs (lexedOf d t) [nodeOf d t]
  | .leaf n as txt => by
    by_cases ht : txt = []
    · simp only [lexedOf, nodeOf, ht, if_true, List.nil_append]
      exact parsesAs_elem n as [] [] parsesAs_nil
    · simp only [lexedOf, nodeOf, ht, if_false]
      exact parsesAs_elem n as [.text (substitute txt)] [.text (substitute txt)] (parsesAs_text _ _ _ parsesAs_nil)
  | .node n as [] => by
    simp only [lexedOf, nodeOf]
    exact parsesAs_elem n as [] [] parsesAs_nil
  | .node n as (k :: ks) => by
    have hk := parses_kids (d + 1) (k :: ks)
    have hws : ParsesAs [.text (nlTabs d)] [.text (nlTabs d)] := parsesAs_text _ _ _ parsesAs_nil
    have hbody := parsesAs_append _ _ _ _ hk hws
    have := parsesAs_elem n as _ _ hbody
    simpa [lexedOf, nodeOf, List.append_assoc] using this
theorem parses_kids (d : Nat) : ∀ (ks : List Tree), ParsesAs (lexedKids d ks) (nodesOfKids d ks)
  | [] => by simpa [lexedKids, nodesOfKids] using parsesAs_nil
  | k :: ks => by
    have h1 := parses_tree d k
    have h2 := parses_kids d ks
    have := parsesAs_text (nlTabs d) _ _ (parsesAs_append _ _ _ _ h1 h2)
    simpa [lexedKids, nodesOfKids] using this
end

end TrackVerif.LT.Xml
