import TrackVerif.Common.GenTypes
import TrackVerif.Common.Outcome
import TrackVerif.LT.Fmt
import TrackVerif.LT.Time
import TrackVerif.LT.Xml
import TrackVerif.LT.Tree
/-
  Schema-driven model of `encoding/xml` Marshal / Unmarshal for the LapTimer types, parameterised
  by the schema the translator extracts from pkg/laptimer/types.go (struct fields with their xml
  tags, named types, the string literals of every MarshalXML / UnmarshalXML / String / Parse).
  The per-type codecs interpret those literals with `Fmt.sprintf` / `Fmt.sscanf`.  Core only.
-/
namespace TrackVerif.LT
open TrackVerif TrackVerif.Gen TrackVerif.LT.Fmt TrackVerif.LT.Xml

/-- a Go value of the laptimer package, as the harness dumps it by reflection -/
inductive V
  | int (i : Int)
  | flt (b : UInt64)
  | str (s : List Char)
  | bool (b : Bool)
  | time (sec : Int) (ns : Nat)
  | nil
  | ptr (v : V)
  | list (vs : List V)
  | struct (fs : List V)
  deriving Repr, Inhabited

structure Schema where
  structs : List (String × List LtField)
  named : List (String × LtType)
  methodLits : List (String × List String)
  marshalers : List String
  unmarshalers : List String
  replacer : List (String × String)
  deriving Repr

namespace Schema

def fieldsOf (s : Schema) (n : String) : Option (List LtField) :=
  (s.structs.find? (·.1 == n)).map (·.2)

def lits (s : Schema) (m : String) : List String :=
  ((s.methodLits.find? (·.1 == m)).map (·.2)).getD []

def lit (s : Schema) (m : String) (i : Nat) : Option String := (s.lits m)[i]?

end Schema

/-- the fields encoding/xml sees: exported, not the XMLName marker -/
def dataFields (fs : List LtField) : List LtField :=
  fs.filter fun f => f.goName != "XMLName"

inductive Kind
  | int | float | string | bool | time | unit
  | structT (name : String)
  | ptr (t : LtType)
  | slice (t : LtType)
  | unknown
  deriving Repr, DecidableEq

/-- underlying kind of a type expression (named types are followed through the `named` table) -/
def kindOf (s : Schema) : Nat → LtType → Kind
  | 0, _ => .unknown
  | fuel + 1, t =>
    match t with
    | .basic "int" => .int
    | .basic "int64" => .int
    | .basic "float64" => .float
    | .basic "string" => .string
    | .basic "bool" => .bool
    | .basic "struct{}" => .unit
    | .basic _ => .unknown
    | .ptr t' => .ptr t'
    | .slice t' => .slice t'
    | .named n =>
      if n == "time.Time" then .time
      else if n == "time.Duration" then .int
      else if (s.fieldsOf n).isSome then .structT n
      else match s.named.find? (·.1 == n) with
        | some (_, u) => kindOf s fuel u
        | none => .unknown

def headName : LtType → Option String
  | .named n => some n
  | _ => none

def zeroOf (s : Schema) : Nat → LtType → V
  | 0, _ => .nil
  | fuel + 1, t =>
    match kindOf s 8 t with
    | .int => .int 0
    | .float => .flt 0
    | .string => .str []
    | .bool => .bool false
    | .time => .time (-62135596800) 0
    | .unit => .struct []
    | .ptr _ => .nil
    | .slice _ => .list []
    | .structT n => .struct ((dataFields ((s.fieldsOf n).getD [])).map fun f => zeroOf s fuel f.typ)
    | .unknown => .nil

/-- `isEmptyValue` of encoding/xml/marshal.go -/
def isEmptyValue (k : Kind) (v : V) : Bool :=
  match k, v with
  | .slice _, .list vs => vs.isEmpty
  | .string, .str s => s.isEmpty
  | .bool, .bool b => !b
  | .int, .int i => i == 0
  | .float, .flt b => b == 0 || b == 0x8000000000000000      -- reflect.Value.IsZero: ±0 (Go ≥ 1.22)
  | .ptr _, .nil => true
  | _, _ => false

/-! ### Per-type text codecs (MarshalXML side) -/

def durationString (s : Schema) (d : Int) : Outcome (List Char) :=
  let m := Int.tdiv d 60000000000
  let sec := Int.tdiv (d - m * 60000000000) 1000000000
  let cs := Int.tdiv (Int.tdiv (d - m * 60000000000 - sec * 1000000000) 1000000) 10
  match (s.lit "Duration.String" 0).bind fun f => sprintf f [.int m, .int sec, .int cs] with
  | some t => .ok t
  | none => .unmodelled

def dateString (s : Schema) (meth : String) (sec : Int) (ns : Nat) : Outcome (List Char) :=
  match (s.lit meth 0).bind fun layout => Time.format layout sec ns with
  | some t => if t.all (fun c => c.toNat < 128) then .ok (Time.toUpperAscii t) else .unmodelled
  | none => .unmodelled

def ofOpt {α : Type} : Option α → Outcome α
  | some a => .ok a
  | none => .unmodelled

/-- exact `time.Duration.Seconds()` for non-negative durations: float64(sec) + float64(nsec)/1e9 -/
def secondsBits (d : Int) : Outcome UInt64 :=
  if d < 0 then .unmodelled else
  let sec := d.toNat / 1000000000
  let nsec := d.toNat % 1000000000
  if sec ≥ 2 ^ 53 then .unmodelled else
  let q := Dec.ratToBits nsec 1000000000          -- nearest double of nsec/1e9
  match Dec.classify (UInt64.ofNat q) with
  | .finite ⟨_, mant, exp⟩ =>
    -- sec + mant·2^exp with exp ≤ 0: exact rational, rounded once
    if exp ≥ 0 then .ok (UInt64.ofNat (Dec.ratToBits (sec + mant * 2 ^ exp.toNat) 1))
    else .ok (UInt64.ofNat (Dec.ratToBits (sec * 2 ^ (-exp).toNat + mant) (2 ^ (-exp).toNat)))
  | _ => .unmodelled

/-- the text a custom `MarshalXML` hands to `EncodeElement` -/
def customText (s : Schema) (ty : String) (v : V) : Outcome (List Char) :=
  let fmt1 (m : String) (args : List Arg) : Outcome (List Char) :=
    ofOpt ((s.lit m 0).bind fun f => sprintf f args)
  match ty, v with
  | "Duration", .int d => durationString s d
  | "LapDate", .time sec ns => dateString s "LapDate.String" sec ns
  | "FixDate", .time sec ns => dateString s "FixDate.String" sec ns
  | "Coordinate", .struct [.flt la, .flt lo] => fmt1 "Coordinate.MarshalXML" [.flt la, .flt lo]
  | "AltitudeCoordinate", .struct [.struct [.flt la, .flt lo], .flt al] =>
    fmt1 "AltitudeCoordinate.MarshalXML" [.flt la, .flt lo, .flt al]
  | "Positioning", .struct [.int d, .int p, .bool i] =>
    fmt1 "Positioning.MarshalXML" [.int d, .int p, .int (if i then 1 else 0)]
  | "RelativeToStart", .struct [.flt dist, .int off] => do
    let o ← durationString s off
    fmt1 "RelativeToStart.MarshalXML" [.flt dist, .str o]
  | "Intermediates", .list items => do
    -- literals: "" (empty case), the per-item format, the closing indentation
    let itemFmt ← ofOpt (s.lit "Intermediates.MarshalXML" 1)
    let tail ← ofOpt (s.lit "Intermediates.MarshalXML" 2)
    if items.isEmpty then .ok [] else
    let parts ← items.mapM fun it =>
      match it with
      | .struct [.int t, .flt d] => do
        let ts ← durationString s t
        ofOpt (sprintf itemFmt [.str ts, .flt d])
      | _ => .unmodelled
    .ok (parts.flatten ++ tail.toList)
  | "Gear", .struct [.int n, .flt r] => fmt1 "Gear.MarshalXML" [.int n, .flt r]
  | "Tyre", .struct [.int w, .int p, .int size, .str rating] =>
    fmt1 "Tyre.MarshalXML" [.int w, .int p, .str rating, .int size]
  | "Tags", .list ts => do
    let sep ← ofOpt (s.lit "Tags.MarshalXML" 0)
    let strs ← ts.mapM fun t => match t with | .str x => Outcome.ok x | _ => .unmodelled
    .ok (List.intercalate sep.toList strs)
  | "Threshold", .int t => fmt1 "Threshold.MarshalXML" [.int t]
  | "SyncPoint", .int d => do
    let b ← secondsBits d
    fmt1 "SyncPoint.MarshalXML" [.flt b]
  | "Float", .flt b => fmt1 "Float.MarshalXML" [.flt b]
  | "Float0dp", .flt b => fmt1 "Float0dp.MarshalXML" [.flt b]
  | "Float1dp", .flt b => fmt1 "Float1dp.MarshalXML" [.flt b]
  | "Float2dp", .flt b => fmt1 "Float2dp.MarshalXML" [.flt b]
  | _, _ => .unmodelled

/-- `marshalSimple` -/
def simpleText (k : Kind) (v : V) : Outcome (List Char) :=
  match k, v with
  | .int, .int i => .ok (toString i).toList
  | .float, .flt b => .ok (Dec.formatShortestG b).toList
  | .string, .str s => .ok s
  | .bool, .bool b => .ok (if b then "true" else "false").toList
  | _, _ => .unmodelled

/-! ### Marshal -/

/-- the name under which a type has a custom printer / parser -/
def customM (s : Schema) (ty : LtType) : Option String :=
  match headName ty with | some n => if s.marshalers.contains n then some n else none | none => none

def customU (s : Schema) (ty : LtType) : Option String :=
  match headName ty with | some n => if s.unmarshalers.contains n then some n else none | none => none

def isSimple : Kind → Bool
  | .int | .float | .bool | .string => true
  | _ => false

/-- the attribute a struct element carries for one attribute field -/
def attrOf (s : Schema) (p : LtField × V) : Outcome (List (String × List Char)) :=
  if p.1.omitempty && isEmptyValue (kindOf s 8 p.1.typ) p.2 then .ok []
  else (simpleText (kindOf s 8 p.1.typ) p.2).map fun t => [(p.1.xmlName, t)]

/-- the non-pointer part of `marshalTrees`: `recur` prints the parts (slice items, struct fields) -/
def marshalRest (s : Schema) (recur : String → Bool → LtType → V → Outcome (List Xml.Tree))
    (name : String) (om : Bool) (ty : LtType) (k : Kind) (v : V) : Outcome (List Xml.Tree) :=
  match customM s ty with
  | some n => (customText s n v).map fun t => [Xml.Tree.leaf name [] t]
  | none =>
    match k, v with
    | .slice t', .list vs => (vs.mapM fun e => recur name om t' e).map List.flatten
    | .structT n, .struct fs =>
      match s.fieldsOf n with
      | none => .unmodelled
      | some fields =>
        let dfs := dataFields fields
        if dfs.length ≠ fs.length then .unmodelled else
        let pairs := dfs.zip fs
        ((pairs.filter (·.1.attr)).mapM (attrOf s)).bind fun attrs =>
          ((pairs.filter (fun p => !p.1.attr)).mapM fun (p : LtField × V) =>
              recur p.1.xmlName p.1.omitempty p.1.typ p.2).map fun kids =>
            [Xml.Tree.node name attrs.flatten kids.flatten]
    | _, _ => if isSimple k then (simpleText k v).map fun t => [Xml.Tree.leaf name [] t] else .unmodelled

/-- `printer.marshalValue` for a field (or slice element) of static type `ty` named `name`: the
    elements it prints, as trees (a leaf carries character data, a node child elements).  The
    fuel bounds the nesting depth. -/
def marshalTrees (s : Schema) : Nat → String → Bool → LtType → V → Outcome (List Xml.Tree)
  | 0, _, _, _, _ => .unmodelled
  | fuel + 1, name, om, ty, v =>
    if om && isEmptyValue (kindOf s 8 ty) v then .ok [] else
    match kindOf s 8 ty, v with
    | .ptr _, .nil => .ok []
    | .ptr t', .ptr v' => marshalTrees s fuel name false t' v'    -- omitempty was decided on the pointer
    | .ptr _, _ => .unmodelled
    | k, v => marshalRest s (marshalTrees s fuel) name om ty k v

/-- the token stream the printer is fed -/
def marshalValue (s : Schema) (fuel : Nat) (name : String) (om : Bool) (ty : LtType) (v : V) :
    Outcome (List XTok) :=
  (marshalTrees s fuel name om ty v).map Xml.toksOfL

/-- the root element's name: the tag of the XMLName field -/
def rootName (s : Schema) (ty : String) : Option String :=
  ((s.fieldsOf ty).bind fun fs => fs.find? (·.goName == "XMLName")).map (·.xmlName)

/-- `laptimer.Encoder.Encode(db)` without compression: header, indented document, filter -/
def encodeDoc (s : Schema) (db : V) : Outcome (List Char) :=
  match rootName s "DB" with
  | none => .unmodelled
  | some root =>
    (marshalValue s 64 root false (.named "DB") db).map fun toks =>
      xmlHeader ++ Text.filterDoc (Text.pairsOf s.replacer) (renderToks toks)

/-! ### Unmarshal -/

def badOutcome {α : Type} (u : Bool) : Outcome α := if u then .unmodelled else .err .parse

def parseBoolGo (s : List Char) : Option Bool :=
  let t := String.ofList s
  if ["1", "t", "T", "TRUE", "true", "True"].contains t then some true
  else if ["0", "f", "F", "FALSE", "false", "False"].contains t then some false
  else none

def ofScan {α : Type} : Scan α → Outcome α
  | .ok v _ => .ok v
  | .err => .err .parse
  | .unmodelled => .unmodelled

/-- `copyValue` for the basic kinds -/
def copyValue (k : Kind) (src : List Char) : Outcome V :=
  match k with
  | .int => if src.isEmpty then .ok (.int 0) else (ofScan (parseIntFull (trimSpace src))).map V.int
  | .float => if src.isEmpty then .ok (.flt 0) else (ofScan (parseFloatFull (trimSpace src))).map V.flt
  | .bool =>
    if src.isEmpty then .ok (.bool false) else
    match parseBoolGo (trimSpace src) with
    | some b => .ok (.bool b)
    | none => .err .parse
  | .string => .ok (.str src)
  | _ => .unmodelled

/-- `strings.Split(s, sep)` for a one-character separator -/
def splitOnChar (c : Char) : List Char → List (List Char)
  | [] => [[]]
  | x :: xs =>
    if x = c then [] :: splitOnChar c xs
    else match splitOnChar c xs with
      | h :: t => (x :: h) :: t
      | [] => [[x]]

/-- `strings.SplitN(s, sep, 2)` for a one-character separator -/
def splitN2 (c : Char) (s : List Char) : List (List Char) :=
  match s.span (· ≠ c) with
  | (a, _ :: b) => [a, b]
  | (a, []) => [a]

def durationParse (s : Schema) (v : List Char) : Outcome Int :=
  match s.lit "Duration.Parse" 0 with
  | none => .unmodelled
  | some f =>
    match sscanf f v with
    | .ok [.int m, .int sec, .int cs] _ =>
      if m.natAbs > 100000000 ∨ sec.natAbs > 10 ^ 9 ∨ cs.natAbs > 10 ^ 9 then .unmodelled
      else .ok (m * 60000000000 + sec * 1000000000 + cs * 10 * 1000000)
    | .ok _ _ => .unmodelled
    | .err => .err .parse
    | .unmodelled => .unmodelled

def dateParse (s : Schema) (meth : String) (v : List Char) : Outcome V :=
  match (s.lit meth 0).bind fun l => Time.layoutToks l.toList with
  | none => .unmodelled
  | some ts =>
    match Time.parse ts v with
    | some (sec, ns) => .ok (.time sec ns)
    | none => .err .parse

def oneChar (s : Schema) (m : String) (i : Nat) : Outcome Char :=
  match (s.lit m i).map String.toList with
  | some [c] => .ok c
  | _ => .unmodelled

/-- the custom `UnmarshalXML` methods: `cur` is the value already in the destination -/
def customParse (s : Schema) (ty : String) (cur : V) (v : List Char) : Outcome V :=
  let scan (m : String) : Outcome (List Arg) :=
    match s.lit m 0 with
    | none => .unmodelled
    | some f => ofScan (sscanf f v)
  match ty with
  | "Duration" => (durationParse s v).map V.int
  | "LapDate" => dateParse s "LapDate.UnmarshalXML" v
  | "FixDate" => dateParse s "FixDate.UnmarshalXML" v
  | "Coordinate" => do
    match ← scan "Coordinate.UnmarshalXML" with
    | [.flt a, .flt b] => .ok (.struct [.flt a, .flt b])
    | _ => .unmodelled
  | "AltitudeCoordinate" => do
    match ← scan "AltitudeCoordinate.UnmarshalXML" with
    | [.flt a, .flt b, .flt c] => .ok (.struct [.struct [.flt a, .flt b], .flt c])
    | _ => .unmodelled
  | "Positioning" => do
    match ← scan "Positioning.UnmarshalXML" with
    | [.int a, .int b, .bool c] => .ok (.struct [.int a, .int b, .bool c])
    | _ => .unmodelled
  | "RelativeToStart" => do
    let sep ← oneChar s "RelativeToStart.UnmarshalXML" 0
    match splitN2 sep v with
    | [a, b] =>
      let d ← ofScan (parseFloatFull a)
      let o ← durationParse s b
      .ok (.struct [.flt d, .int o])
    | _ => .err .parse
  | "Intermediates" => do
    let nl ← oneChar s "Intermediates.UnmarshalXML" 0
    let sep ← oneChar s "Intermediates.UnmarshalXML" 2
    let base ← (match cur with | .list xs => Outcome.ok xs | _ => .unmodelled)
    let items ← (splitOnChar nl v).foldlM (fun (acc : List V) line =>
      let l := trimSpace line
      if l.isEmpty then Outcome.ok acc else
      match splitN2 sep l with
      | [a, b] => do
        let t ← durationParse s a
        let d ← ofScan (parseFloatFull b)
        .ok (acc ++ [V.struct [.int t, .flt d]])
      | _ => .err .parse) base
    .ok (.list items)
  | "Gear" => do
    match ← scan "Gear.UnmarshalXML" with
    | [.int n, .flt r] => .ok (.struct [.int n, .flt r])
    | _ => .unmodelled
  | "Tyre" => do
    match ← scan "Tyre.UnmarshalXML" with
    | [.int w, .int p, .str r, .int sz] => .ok (.struct [.int w, .int p, .int sz, .str r])
    | _ => .unmodelled
  | "Tags" => do
    let sep ← oneChar s "Tags.UnmarshalXML" 0
    .ok (.list ((splitOnChar sep v).map V.str))
  | "Threshold" => do
    let suf ← oneChar s "Threshold.UnmarshalXML" 0
    let body := if v.getLast? = some suf then v.dropLast else v
    -- strconv.Atoi: optional sign, decimal digits, nothing else
    (ofScan (parseIntFull body)).map V.int
  | "SyncPoint" => do
    match ← scan "SyncPoint.UnmarshalXML" with
    | [.int sec, .int cs] =>
      if sec.natAbs > 10 ^ 9 ∨ cs.natAbs > 10 ^ 9 then .unmodelled
      else .ok (.int (sec * 1000000000 + cs * 10 * 1000000))
    | _ => .unmodelled
  | _ => .unmodelled

def setNth {α : Type} : List α → Nat → α → List α
  | [], _, _ => []
  | _ :: xs, 0, a => a :: xs
  | x :: xs, n + 1, a => x :: setNth xs n a

/-- which field of a struct a child element / an attribute named `name` goes to -/
def fieldFor (dfs : List LtField) (isAttr : Bool) (name : String) : Option (LtField × Nat) :=
  (dfs.zipIdx).find? (fun (f, _) => f.attr == isAttr && f.xmlName == name)

/-- one child of a struct element: a child element whose name is a field's goes into that field
    (starting from what the field already holds, decoded by `g`), text and unknown elements are
    skipped -/
def kidStep (g : LtType → V → List (String × List Char) → List Xml.Node → Outcome V) (dfs : List LtField)
    (fs : List V) (kid : Xml.Node) : Outcome (List V) :=
  match kid with
  | .text _ => .ok fs
  | .elem name as sub =>
    match fieldFor dfs false name with
    | some (f, i) => (g f.typ (fs.getD i .nil) as sub).map fun v => setNth fs i v
    | none => .ok fs

/-- one attribute of a struct element -/
def attrStep (s : Schema) (dfs : List LtField) (fs : List V) (a : String × List Char) : Outcome (List V) :=
  match fieldFor dfs true a.1 with
  | some (f, i) => (copyValue (kindOf s 8 f.typ) a.2).map fun v => setNth fs i v
  | none => .ok fs

/-- `Decoder.unmarshal(val, start)` on an element given as attributes and content.  The fuel
    bounds the nesting depth only. -/
def unmarshalNode (s : Schema) : Nat → LtType → V → List (String × List Char) → List Xml.Node → Outcome V
  | 0, _, _, _, _ => .unmodelled
  | fuel + 1, ty, cur, attrs, kids =>
    let k := kindOf s 8 ty
    match k with
    | .ptr t' =>
      let inner := match cur with | .ptr v => v | _ => zeroOf s 8 t'
      (unmarshalNode s fuel t' inner attrs kids).map V.ptr
    | _ =>
      let custom := match headName ty with | some n => if s.unmarshalers.contains n then some n else none | none => none
      match custom with
      | some n => customParse s n cur (Xml.textOf kids)
      | none =>
        match k with
        | .slice t' =>
          let xs := match cur with | .list xs => xs | _ => []
          (unmarshalNode s fuel t' (zeroOf s 8 t') attrs kids).map fun v => V.list (xs ++ [v])
        | .structT n =>
          match s.fieldsOf n, cur with
          | some fields, .struct fs0 =>
            let dfs := dataFields fields
            -- attributes, then the children in document order
            (attrs.foldlM (attrStep s dfs) fs0).bind fun fs1 =>
              (kids.foldlM (kidStep (unmarshalNode s fuel) dfs) fs1).map V.struct
          | _, _ => .unmodelled
        | .int | .float | .bool | .string => copyValue k (Xml.textOf kids)
        | _ => .unmodelled

/-! ### Whole document -/

def bytesToAscii (bs : List UInt8) : List Char := bs.map fun b => Char.ofNat b.toNat

/-- Go's `procInst(param, s)`: the quoted value following `param=` -/
def procInst (param : String) (s : List Char) : List Char :=
  go (s.length + 1) s
where
  go : Nat → List Char → List Char
  | 0, _ => []
  | _, [] => []
  | fuel + 1, c :: cs =>
    match Text.stripPrefix? (param.toList ++ ['=']) (c :: cs) with
    | some (q :: rest) =>
      if q = '"' ∨ q = '\'' then rest.takeWhile (· ≠ q)      -- (an unterminated value reads as "")
      else go fuel cs
    | some [] => []
    | none => go fuel cs

/-- UTF-8 decoding as Go reads source bytes; `none` on an invalid sequence -/
def utf8Decode : Nat → List UInt8 → Option (List Char)
  | 0, _ => none
  | _, [] => some []
  | fuel + 1, b :: bs =>
    let n := b.toNat
    if n < 0x80 then (utf8Decode fuel bs).map (Char.ofNat n :: ·)
    else
      let cont (x : UInt8) : Option Nat := if x.toNat / 64 = 2 then some (x.toNat % 64) else none
      if 0xC2 ≤ n ∧ n < 0xE0 then
        match bs with
        | b1 :: r => (cont b1).bind fun c1 => (utf8Decode fuel r).map (Char.ofNat ((n % 32) * 64 + c1) :: ·)
        | _ => none
      else if 0xE0 ≤ n ∧ n < 0xF0 then
        match bs with
        | b1 :: b2 :: r =>
          (cont b1).bind fun c1 => (cont b2).bind fun c2 =>
            let v := (n % 16) * 4096 + c1 * 64 + c2
            if v < 0x800 ∨ (0xD800 ≤ v ∧ v ≤ 0xDFFF) then none else (utf8Decode fuel r).map (Char.ofNat v :: ·)
        | _ => none
      else if 0xF0 ≤ n ∧ n < 0xF5 then
        match bs with
        | b1 :: b2 :: b3 :: r =>
          (cont b1).bind fun c1 => (cont b2).bind fun c2 => (cont b3).bind fun c3 =>
            let v := (n % 8) * 262144 + c1 * 4096 + c2 * 64 + c3
            if v < 0x10000 ∨ v > 0x10FFFF then none else (utf8Decode fuel r).map (Char.ofNat v :: ·)
        | _ => none
      else none

/-- UTF-8 encoding of one character as Go writes a string (`[]byte(s)`, `utf8.AppendRune`) -/
def utf8Enc (c : Char) : List UInt8 :=
  let n := c.toNat
  if n < 0x80 then [n.toUInt8]
  else if n < 0x800 then [(0xC0 + n / 64).toUInt8, (0x80 + n % 64).toUInt8]
  else if n < 0x10000 then [(0xE0 + n / 4096).toUInt8, (0x80 + n / 64 % 64).toUInt8, (0x80 + n % 64).toUInt8]
  else [(0xF0 + n / 262144).toUInt8, (0x80 + n / 4096 % 64).toUInt8, (0x80 + n / 64 % 64).toUInt8,
        (0x80 + n % 64).toUInt8]

def lowerAscii (s : List Char) : List Char := s.map Time.lower

/-- the end of the XML declaration's content: what precedes the first "?>", and its length -/
def findDeclEnd : Nat → List Char → List Char → Option (List Char × Nat)
  | 0, _, _ => none
  | _, [], _ => none
  | f + 1, c :: r, acc =>
    if c = '?' ∧ r.head? = some '>' then some (acc.reverse, acc.length) else findDeclEnd f r (c :: acc)

/-- the XML declaration, if the file starts with one: where the body starts and whether it is
    to be read as windows-1252 -/
def splitDecl (bytes : List UInt8) : Outcome (List UInt8 × Bool) :=
  let ascii := bytesToAscii bytes
  match Text.stripPrefix? "<?xml".toList ascii with
  | some afterTarget =>
    (match afterTarget with
     | c :: _ => if Xml.isSpace c then Outcome.ok () else .unmodelled      -- "<?xml-stylesheet" …
     | [] => .err .parse).bind fun _ =>
    match findDeclEnd (afterTarget.length + 1) afterTarget [] with
    | none => .err .parse
    | some (content, n) =>
      if content.any (fun c => c.toNat ≥ 128) then .unmodelled else
      let ver := procInst "version" content
      let enc := lowerAscii (procInst "encoding" content)
      let bodyBytes := bytes.drop (5 + n + 2)
      if !ver.isEmpty ∧ ver ≠ "1.0".toList then .err .parse
      else if enc.isEmpty ∨ enc = "utf-8".toList then .ok (bodyBytes, false)
      else if enc = "windows-1252".toList ∨ enc = "cp1252".toList then .ok (bodyBytes, true)
      else .unmodelled
  | none => .ok (bytes, false)

/-- skip everything before the root element -/
def toRoot : List XTok → Outcome (String × List (String × List Char) × List XTok)
  | [] => .err .eof
  | .bad u :: _ => badOutcome u
  | .start n as :: r => .ok (n, as, r)
  | _ :: r => toRoot r

/-- the document body as characters: tokens, root element name, schema-driven unmarshal -/
def decodeBody (s : Schema) (cs : List Char) : Outcome V :=
  let toks := Xml.nest [] false (Xml.lexBody (cs.length + 2) cs)
  (toRoot toks).bind fun (name, attrs, rest) =>
    match rootName s "DB" with
    | none => .unmodelled
    | some want =>
      if name ≠ want then .err .format
      else
        match Xml.parseNodes (rest.length + 2) rest with
        | .bad u => badOutcome u
        | .ok kids _ =>
          unmarshalNode s 64 (.named "DB") (zeroOf s 8 (.named "DB")) attrs kids

/-- `laptimer.Decoder.Decode(&db)` on a whole file: XML declaration (version, charset switch),
    then the body in that charset -/
def decodeDoc (s : Schema) (cp1252 : List Nat) (bytes : List UInt8) : Outcome V :=
  (splitDecl bytes).bind fun (body, is1252) =>
    let chars : Option (List Char) :=
      if is1252 then some (body.map fun b => Char.ofNat ((cp1252[b.toNat]?).getD 0xFFFD))
      else utf8Decode (body.length + 1) body
    match chars with
    | none => .unmodelled                      -- invalid UTF-8: where Go notices depends on the construct
    | some cs => decodeBody s cs

end TrackVerif.LT
