import TrackVerif.LT.RT
import TrackVerif.LT.DecodeLemmas
/-  Towards the structure theorem: marshalled trees and what the decoder's field routing sees of
    them.  Core only. -/
namespace TrackVerif.LT
open TrackVerif TrackVerif.Gen TrackVerif.LT.Xml

def nameOfTree : Tree → String
  | .leaf n _ _ => n
  | .node n _ _ => n

def attrsOfTree : Tree → List (String × List Char)
  | .leaf _ as _ => as
  | .node _ as _ => as

/-- the content the decoder sees inside the printed element -/
def contentOf (d : Nat) : Tree → List Node
  | .leaf _ _ t => if t = [] then [] else [.text (Text.substitute t)]
  | .node _ _ [] => []
  | .node _ _ (k :: ks) => nodesOfKids (d + 1) (k :: ks) ++ [.text (nlTabs d)]

theorem nodeOf_eq (d : Nat) (t : Tree) : nodeOf d t = .elem (nameOfTree t) (attrsOfTree t) (contentOf d t) := by
  cases t with
  | leaf n as txt => simp [nodeOf, nameOfTree, attrsOfTree, contentOf]
  | node n as ks => cases ks <;> simp [nodeOf, nameOfTree, attrsOfTree, contentOf]

/-- what the decoder folds into a field: attributes and content of each element -/
def entries (d : Nat) (ts : List Tree) : List (List (String × List Char) × List Node) :=
  ts.map fun t => (attrsOfTree t, contentOf d t)

/-- among the children of a printed struct element, those carrying `name` -/
theorem fieldKids_nodesOfKids (name : String) (d : Nat) : ∀ (ts : List Tree) (tail : List Node),
    fieldKids name (nodesOfKids d ts ++ tail) =
      entries d (ts.filter fun t => nameOfTree t == name) ++ fieldKids name tail
  | [], tail => by simp [nodesOfKids, entries]
  | t :: ts, tail => by
    have ih := fieldKids_nodesOfKids name d ts tail
    simp only [nodesOfKids, List.cons_append, fieldKids, nodeOf_eq, List.filter_cons]
    by_cases h : nameOfTree t = name
    · simp [h, ih, entries]
    · have : (nameOfTree t == name) = false := by simpa using h
      simp [h, this, ih]

theorem fieldKids_text (name : String) (t : List Char) : fieldKids name [.text t] = [] := by
  simp [fieldKids]

theorem filter_name_all (name : String) (ts : List Tree) (h : ∀ t ∈ ts, nameOfTree t = name) :
    ts.filter (fun t => nameOfTree t == name) = ts := by
  apply List.filter_eq_self.mpr
  intro t ht; simp [h t ht]

theorem filter_name_none (name : String) (ts : List Tree) (h : ∀ t ∈ ts, nameOfTree t ≠ name) :
    ts.filter (fun t => nameOfTree t == name) = [] := by
  apply List.filter_eq_nil_iff.mpr
  intro t ht; simpa using h t ht

/-! ### mapM / optionOfAll -/

inductive AllRel {β γ : Type} (R : β → γ → Prop) : List β → List γ → Prop
  | nil : AllRel R [] []
  | cons {b c bs cs} : R b c → AllRel R bs cs → AllRel R (b :: bs) (c :: cs)

theorem mapM_ok {β γ : Type} (f : β → Outcome γ) : ∀ (l : List β) (rs : List γ),
    l.mapM f = .ok rs → AllRel (fun b r => f b = .ok r) l rs
  | [], rs, h => by
    simp [List.mapM_nil, pure] at h; subst h; exact AllRel.nil
  | b :: bs, rs, h => by
    simp only [List.mapM_cons, bind, Outcome.bind, pure] at h
    cases hb : f b with
    | ok r =>
      simp only [hb] at h
      cases hbs : bs.mapM f with
      | ok rs' =>
        simp only [hbs] at h
        injection h with h; subst h
        exact AllRel.cons hb (mapM_ok f bs rs' hbs)
      | err e => simp [hbs] at h
      | panic p => simp [hbs] at h
      | unmodelled => simp [hbs] at h
    | err e => simp [hb] at h
    | panic p => simp [hb] at h
    | unmodelled => simp [hb] at h

theorem optionOfAll_some {α : Type} : ∀ (l : List (Option α)) (rs : List α),
    optionOfAll l = some rs → AllRel (fun o r => o = some r) l rs
  | [], rs, h => by simp [optionOfAll] at h; subst h; exact AllRel.nil
  | none :: _, rs, h => by simp [optionOfAll] at h
  | some a :: r, rs, h => by
    simp only [optionOfAll, Option.map_eq_some_iff] at h
    obtain ⟨rs', h1, h2⟩ := h
    subst h2
    exact AllRel.cons rfl (optionOfAll_some r rs' h1)

theorem AllRel.length_eq {β γ : Type} {R : β → γ → Prop} {l : List β} {rs : List γ} (h : AllRel R l rs) :
    l.length = rs.length := by
  induction h with
  | nil => rfl
  | cons _ _ ih => simp [ih]

end TrackVerif.LT
