import TrackVerif.Common.Dec
/-
  The fragment of Go's `fmt.Sprintf` / `fmt.Sscanf` / `strconv` that pkg/laptimer uses, driven by
  the format strings themselves (which the translator extracts from the source).

  Printing: literal text, `%d` `%0Nd` `%f` `%.Nf` `%s` `%%`.
  Scanning (fmt/scan.go, Sscanf mode): literal text must match; a blank in the format needs at
  least one blank (or end of input) and skips blanks; every verb first skips blanks and refuses
  a newline; `%d` = sign, decimal digits; `%f` = the float token grammar; `%s` = a run of
  non-blanks; `%t` = 0/1/t[rue]/f[alse] and — as in Go — anything else reads as false.
  Inputs that need parts of Go's grammar not modelled (underscores, hex floats, p-exponents,
  NaN/Inf) answer `none`/unmodelled at the call sites; nothing is defaulted.  Core only.
-/
namespace TrackVerif.LT.Fmt
open TrackVerif

inductive Arg
  | int (i : Int)
  | flt (bits : UInt64)
  | str (s : List Char)
  | bool (b : Bool)
  deriving Repr, DecidableEq

inductive Item
  | lit (c : Char)
  | d (width : Nat)          -- %d (0) or %0Nd
  | f (prec : Nat)
  | s
  | t
  deriving Repr, DecidableEq

def digitVal? (c : Char) : Option Nat :=
  if '0' ≤ c ∧ c ≤ '9' then some (c.toNat - '0'.toNat) else none

def isDigit (c : Char) : Bool := c.isDigit

def takeDigits : List Char → List Char × List Char
  | [] => ([], [])
  | c :: cs => if isDigit c then let r := takeDigits cs; (c :: r.1, r.2) else ([], c :: cs)

def digitsToNat (ds : List Char) : Nat := Nat.ofDigitChars 10 ds 0

inductive PS
  | text
  | pct (w : List Char)        -- after '%', width digits so far
  | prec (p : List Char)       -- after "%.", precision digits so far

/-- parse a format string into items; `none` for verbs/flags outside the modelled fragment -/
def parseFmtAux : PS → List Char → Option (List Item)
  | .text, [] => some []
  | .text, c :: r =>
    if c = '%' then parseFmtAux (.pct []) r else (parseFmtAux .text r).map (Item.lit c :: ·)
  | .pct _, [] => none
  | .pct w, c :: r =>
    if c = '%' then (if w.isEmpty then (parseFmtAux .text r).map (Item.lit '%' :: ·) else none)
    else if isDigit c then parseFmtAux (.pct (w ++ [c])) r
    else if c = 'd' then
      (if w.isEmpty then (parseFmtAux .text r).map (Item.d 0 :: ·)
       else if w.head? = some '0' then (parseFmtAux .text r).map (Item.d (digitsToNat w) :: ·)
       else none)
    else if c = 'f' then (if w.isEmpty then (parseFmtAux .text r).map (Item.f 6 :: ·) else none)
    else if c = '.' then (if w.isEmpty then parseFmtAux (.prec []) r else none)
    else if c = 's' then (if w.isEmpty then (parseFmtAux .text r).map (Item.s :: ·) else none)
    else if c = 't' then (if w.isEmpty then (parseFmtAux .text r).map (Item.t :: ·) else none)
    else none
  | .prec _, [] => none
  | .prec p, c :: r =>
    if isDigit c then parseFmtAux (.prec (p ++ [c])) r
    else if c = 'f' then (parseFmtAux .text r).map (Item.f (digitsToNat p) :: ·)
    else none

def parseFormat (fmt : List Char) : Option (List Item) := parseFmtAux .text fmt

/-! ### Printing -/

def natChars (n : Nat) : List Char := (toString n).toList

/-- `%d` / `%0Nd`: with the zero flag the width counts the sign -/
def fmtInt (width : Nat) (i : Int) : List Char :=
  let ds := natChars i.natAbs
  if i < 0 then '-' :: Dec.padLeft (width - 1) '0' ds else Dec.padLeft width '0' ds

def sprintfItems : List Item → List Arg → Option (List Char)
  | [], [] => some []
  | [], _ :: _ => none
  | .lit c :: is, as => (sprintfItems is as).map (c :: ·)
  | .d w :: is, .int i :: as => (sprintfItems is as).map (fmtInt w i ++ ·)
  | .f p :: is, .flt b :: as => (sprintfItems is as).map ((Dec.formatFixed b p).toList ++ ·)
  | .s :: is, .str s :: as => (sprintfItems is as).map (s ++ ·)
  | _, _ => none

def sprintf (fmt : String) (args : List Arg) : Option (List Char) :=
  (parseFormat fmt.toList).bind fun is => sprintfItems is args

/-! ### Scanning -/

/-- Go's `isSpace` restricted to what can occur; '\n' is treated separately by the scanner -/
def isBlank (c : Char) : Bool := c = ' ' || c = '\t' || c = '\r' || c = '\x0b' || c = '\x0c' || c = '\u0085' || c = '\u00a0'

def skipBlanks : List Char → List Char
  | [] => []
  | c :: cs => if isBlank c then skipBlanks cs else c :: cs

inductive Scan (α : Type)
  | ok (v : α) (rest : List Char)
  | err
  | unmodelled
  deriving Repr

/-- `SkipSpace` before a verb: blanks are skipped, a newline is an error, end of input is an error
    for the verbs used here (`notEOF`) -/
def verbStart (inp : List Char) : Scan Unit :=
  match skipBlanks inp with
  | [] => .err
  | c :: cs => if c = '\n' then .err else .ok () (c :: cs)

def takeSign : List Char → Option Char × List Char
  | c :: cs => if c = '+' || c = '-' then (some c, cs) else (none, c :: cs)
  | [] => (none, [])

def int64Max : Nat := 9223372036854775807

/-- `%d` into an int: sign, decimal digits, must fit 64 bits -/
def scanInt (inp : List Char) : Scan Int :=
  match verbStart inp with
  | .ok _ r =>
    let (sg, r1) := takeSign r
    let (ds, r2) := takeDigits r1
    if ds.isEmpty then .err
    else
      let n := digitsToNat ds
      if sg = some '-' then (if n ≤ int64Max + 1 then .ok (-(n : Int)) r2 else .err)
      else (if n ≤ int64Max then .ok (n : Int) r2 else .err)
  | .err => .err
  | .unmodelled => .unmodelled

/-- decimal float literal `digits [. digits] [e|E [sign] digits]` → bits of the nearest double;
    `none` = strconv.ParseFloat fails -/
def floatOfParts (neg : Bool) (ip fp : List Char) (expNeg : Bool) (ex : List Char) : Option UInt64 :=
  if ip.isEmpty ∧ fp.isEmpty then none
  else
    let mant := digitsToNat (ip ++ fp)
    let e : Int := (if expNeg then -(digitsToNat ex : Int) else (digitsToNat ex : Int)) - fp.length
    -- keep the power of ten in a range where exact rational arithmetic is cheap; beyond it the
    -- value is 0 or overflows ("value out of range" is an error in Go)
    if mant = 0 then some (Dec.decimalToBits neg 0 0)
    else if e > 400 then none
    else if e < -800 then some (Dec.decimalToBits neg 0 0)
    else
      let b := Dec.decimalToBits neg mant e
      if (b.toNat % 2 ^ 63) ≥ 0x7ff0000000000000 then none else some b

/-- the token `%f` reads (fmt/scan.go floatToken) and its conversion -/
def scanFloat (inp : List Char) : Scan UInt64 :=
  match verbStart inp with
  | .ok _ r =>
    match r with
    | c :: _ =>
      if c = 'n' || c = 'N' then .unmodelled else
      let (sg, r1) := takeSign r
      match r1 with
      | c1 :: _ =>
        if c1 = 'i' || c1 = 'I' then .unmodelled else
        let (ip, r2) := takeDigits r1
        if r2.head? = some '_' ∨ (ip = ['0'] ∧ (r2.head? = some 'x' ∨ r2.head? = some 'X')) then .unmodelled else
        let (fp, r3, dot) := match r2 with
          | '.' :: r => let (f, r') := takeDigits r; (f, r', true)
          | _ => ([], r2, false)
        if r3.head? = some '_' then .unmodelled else
        let _ := dot
        match r3 with
        | e :: r4 =>
          if e = 'p' || e = 'P' then .unmodelled
          else if e = 'e' || e = 'E' then
            let (es, r5) := takeSign r4
            let (ex, r6) := takeDigits r5
            if r6.head? = some '_' then .unmodelled else
            if ex.isEmpty then .err      -- "1e" : ParseFloat rejects
            else match floatOfParts (sg = some '-') ip fp (es = some '-') ex with
              | some b => .ok b r6
              | none => .err
          else match floatOfParts (sg = some '-') ip fp false [] with
            | some b => .ok b r3
            | none => .err
        | [] => match floatOfParts (sg = some '-') ip fp false [] with
            | some b => .ok b []
            | none => .err
      | [] => .err
    | [] => .err
  | .err => .err
  | .unmodelled => .unmodelled

def takeNonBlank : List Char → List Char × List Char
  | [] => ([], [])
  | c :: cs => if isBlank c || c = '\n' then ([], c :: cs) else let r := takeNonBlank cs; (c :: r.1, r.2)

def scanStr (inp : List Char) : Scan (List Char) :=
  match verbStart inp with
  | .ok _ r => let (t, r') := takeNonBlank r; .ok t r'
  | .err => .err
  | .unmodelled => .unmodelled

def acceptAny (cs : List Char) : List Char → Bool × List Char
  | c :: r => if cs.contains c then (true, r) else (false, c :: r)
  | [] => (false, [])

/-- `%t` (fmt/scan.go scanBool) -/
def scanBool (inp : List Char) : Scan Bool :=
  match verbStart inp with
  | .ok _ (c :: r) =>
    if c = '0' then .ok false r
    else if c = '1' then .ok true r
    else if c = 't' || c = 'T' then
      let (a1, r1) := acceptAny ['r', 'R'] r
      if a1 then
        let (a2, r2) := acceptAny ['u', 'U'] r1
        if !a2 then .err else
        let (a3, r3) := acceptAny ['e', 'E'] r2
        if !a3 then .err else .ok true r3
      else .ok true r1
    else if c = 'f' || c = 'F' then
      let (a1, r1) := acceptAny ['a', 'A'] r
      if a1 then
        let (a2, r2) := acceptAny ['l', 'L'] r1
        if !a2 then .err else
        let (a3, r3) := acceptAny ['s', 'S'] r2
        if !a3 then .err else
        let (a4, r4) := acceptAny ['e', 'E'] r3
        if !a4 then .err else .ok false r4
      else .ok false r1
    else .ok false r            -- Go: any other rune is consumed and reads as false
  | .ok _ [] => .err
  | .err => .err
  | .unmodelled => .unmodelled

/-- all verbs of the format, in order; `.err` as soon as Go's Sscanf would return an error -/
def sscanfItems : List Item → List Char → Scan (List Arg)
  | [], _ => .ok [] []
  | .lit c :: is, inp =>
    if c = '\n' then .unmodelled
    else if isBlank c then
      -- a blank in the format: at least one blank (or end of input), then any blanks
      match inp with
      | [] => sscanfItems is []
      | x :: xs =>
        if x = '\n' then .err
        else if isBlank x then sscanfItems is (skipBlanks xs)
        else .err
    else
      match inp with
      | x :: xs => if x = c then sscanfItems is xs else .err
      | [] => .err
  | .d _ :: is, inp =>
    match scanInt inp with
    | .ok v r => (match sscanfItems is r with | .ok vs r' => .ok (.int v :: vs) r' | .err => .err | .unmodelled => .unmodelled)
    | .err => .err
    | .unmodelled => .unmodelled
  | .f _ :: is, inp =>
    match scanFloat inp with
    | .ok v r => (match sscanfItems is r with | .ok vs r' => .ok (.flt v :: vs) r' | .err => .err | .unmodelled => .unmodelled)
    | .err => .err
    | .unmodelled => .unmodelled
  | .s :: is, inp =>
    match scanStr inp with
    | .ok v r => (match sscanfItems is r with | .ok vs r' => .ok (.str v :: vs) r' | .err => .err | .unmodelled => .unmodelled)
    | .err => .err
    | .unmodelled => .unmodelled
  | .t :: is, inp =>
    match scanBool inp with
    | .ok v r => (match sscanfItems is r with | .ok vs r' => .ok (.bool v :: vs) r' | .err => .err | .unmodelled => .unmodelled)
    | .err => .err
    | .unmodelled => .unmodelled

/-- a run of blanks in the format collapses to one step; consecutive blanks were already
    merged by Go (`advance` consumes the whole run) -/
def mergeBlanks : List Item → List Item
  | .lit a :: .lit b :: r => if isBlank a ∧ isBlank b then mergeBlanks (.lit b :: r) else .lit a :: mergeBlanks (.lit b :: r)
  | x :: r => x :: mergeBlanks r
  | [] => []

def sscanf (fmt : String) (inp : List Char) : Scan (List Arg) :=
  match parseFormat fmt.toList with
  | some is =>
    -- Go stops at the end of the format: trailing input is ignored
    match sscanfItems (mergeBlanks is) inp with
    | .ok vs _ => .ok vs []
    | r => r
  | none => .unmodelled

/-- does `pat` occur in `s`? -/
def sscanfContains (s pat : List Char) : Bool :=
  match s with
  | [] => pat.isEmpty
  | _ :: r => (pat.zip s).length == pat.length && (pat.zip s).all (fun (a, b) => a == b) || sscanfContains r pat

/-! ### strconv on whole strings (default encoding/xml scalar handling) -/

def trimSpace (s : List Char) : List Char :=
  let isSp (c : Char) : Bool := isBlank c || c = '\n'
  ((s.dropWhile isSp).reverse.dropWhile isSp).reverse

/-- `strconv.ParseFloat(s, 64)` on plain decimal literals -/
def parseFloatFull (s : List Char) : Scan UInt64 :=
  match s with
  | [] => .err
  | c :: _ =>
    if isBlank c || c = '\n' then .err else
    match scanFloat s with
    | .ok b [] => .ok b []
    | .ok _ (c :: _) => if c = '_' then .unmodelled else .err
    | r => r

/-- `strconv.ParseInt(s, 10, 64)` -/
def parseIntFull (s : List Char) : Scan Int :=
  match s with
  | [] => .err
  | c :: _ =>
    if isBlank c || c = '\n' then .err else
    match scanInt s with
    | .ok v [] => .ok v []
    | .ok _ (c :: _) => if c = '_' then .unmodelled else .err
    | r => r

end TrackVerif.LT.Fmt
