import TrackVerif.LT.Structure
import TrackVerif.LT.TreeLemmas
/-
  From the structure theorem to the whole document: the body the encoder prints for a database,
  read by the decoder (tokenizer, element stack, content tree, field routing), gives the
  leaf-wise round trip.  Core only.
-/
namespace TrackVerif.LT
open TrackVerif TrackVerif.Gen TrackVerif.LT.Xml TrackVerif.LT.Text

/-! ### every token costs at least one character -/

theorem startTag_len (n : String) (as : List (String × List Char)) : 2 ≤ (startTag n as).length := by
  simp [startTag]; omega

theorem stopTag_len (n : String) : 3 ≤ (stopTag n).length := by
  simp [stopTag]

theorem nlTabs_len (d : Nat) : 1 ≤ (nlTabs d).length := by
  simp [nlTabs]

mutual
theorem lexed_le_render (d : Nat) : ∀ (t : Tree), (lexedOf d t).length ≤ (renderTree d t).length
  | .leaf n as txt => by
    have h1 := startTag_len n as
    have h2 := stopTag_len n
    by_cases ht : txt = []
    · simp only [lexedOf, renderTree, ht, if_true, List.length_cons, List.length_append, List.length_nil]; omega
    · simp only [lexedOf, renderTree, ht, if_false, List.length_cons, List.length_append, List.length_nil]; omega
  | .node n as [] => by
    have h1 := startTag_len n as
    have h2 := stopTag_len n
    simp only [lexedOf, renderTree, List.length_cons, List.length_append, List.length_nil]; omega
  | .node n as (k :: ks) => by
    have h1 := startTag_len n as
    have h2 := stopTag_len n
    have h3 := nlTabs_len d
    have h4 := lexedKids_le_render (d + 1) (k :: ks)
    simp only [lexedOf, renderTree, List.length_cons, List.length_append, List.length_nil] at h4 ⊢; omega
theorem lexedKids_le_render (d : Nat) : ∀ (ks : List Tree), (lexedKids d ks).length ≤ (renderKids d ks).length
  | [] => by simp [lexedKids, renderKids]
  | k :: ks => by
    have h1 := lexed_le_render d k
    have h2 := lexedKids_le_render d ks
    have h3 := nlTabs_len d
    simp only [lexedKids, renderKids, List.length_cons, List.length_append]; omega
end

/-! ### the tokens between an element's tags and the content they parse to -/

def bodyToks (d : Nat) : Tree → List XTok
  | .leaf _ _ t => if t = [] then [] else [.text (substitute t)]
  | .node _ _ [] => []
  | .node _ _ (k :: ks) => lexedKids (d + 1) (k :: ks) ++ [.text (nlTabs d)]

theorem lexedOf_eq (d : Nat) (t : Tree) :
    lexedOf d t = .start (nameOfTree t) (attrsOfTree t) :: (bodyToks d t ++ [.stop (nameOfTree t)]) := by
  cases t with
  | leaf n as txt => simp [lexedOf, bodyToks, nameOfTree, attrsOfTree]
  | node n as ks => cases ks <;> simp [lexedOf, bodyToks, nameOfTree, attrsOfTree]

theorem body_parses (d : Nat) (t : Tree) : ParsesAs (bodyToks d t) (contentOf d t) := by
  cases t with
  | leaf n as txt =>
    by_cases ht : txt = []
    · simp only [bodyToks, contentOf, ht, if_true]; exact parsesAs_nil
    · simp only [bodyToks, contentOf, ht, if_false]; exact parsesAs_text _ _ _ parsesAs_nil
  | node n as ks =>
    cases ks with
    | nil => simp only [bodyToks, contentOf]; exact parsesAs_nil
    | cons k ks =>
      simp only [bodyToks, contentOf]
      exact parsesAs_append _ _ _ _ (parses_kids (d + 1) (k :: ks)) (parsesAs_text _ _ _ parsesAs_nil)

/-- the decoder's content parser on what follows the root's start tag -/
theorem parse_content (d : Nat) (t : Tree) (n : String) (g : Nat) :
    parseNodes (g + 1 + (bodyToks d t).length) (bodyToks d t ++ [.stop n]) = .ok (contentOf d t) [] := by
  have h := body_parses d t (g + 1) [.stop n] [] [] (parseNodes_stop g n [])
  simpa using h

/-! ### the line feed that ends the XML declaration -/

theorem renderTree_head (d : Nat) (t : Tree) : ∃ r, renderTree d t = '<' :: r := by
  cases t with
  | leaf n as txt => exact ⟨_, by simp only [renderTree, startTag, List.cons_append]; rfl⟩
  | node n as ks => cases ks <;> exact ⟨_, by simp only [renderTree, startTag, List.cons_append]; rfl⟩

theorem lex_leading_nl (f : Nat) (r : List Char) :
    lexBody (f + 1) ('\n' :: '<' :: r) = .text ['\n'] :: lexBody f ('<' :: r) := by
  have h := readText_ltEscape ['\n'] r
  have e1 : (['\n'] : List Char).flatMap ltEscapeChar = ['\n'] := by decide
  have e2 : substitute ['\n'] = ['\n'] := by decide
  rw [e1, e2] at h
  simp only [List.cons_append, List.nil_append] at h
  have hc : ('\n' = '<') = False := by decide
  simp only [lexBody, hc, if_false, h]

/-! ### marshalled trees carry schema names and no attributes -/

theorem treeOkL_append : ∀ (a b : List Tree), treeOkL (a ++ b) = (treeOkL a && treeOkL b)
  | [], b => by simp [treeOkL]
  | t :: a, b => by simp [treeOkL, treeOkL_append a b, Bool.and_assoc]

theorem treeOkL_flatten : ∀ (tss : List (List Tree)), (∀ r ∈ tss, treeOkL r = true) → treeOkL tss.flatten = true
  | [], _ => by simp [treeOkL]
  | r :: rs, h => by
    simp only [List.flatten_cons, treeOkL_append, Bool.and_eq_true]
    exact ⟨h r (List.mem_cons_self), treeOkL_flatten rs (fun r' hr' => h r' (List.mem_cons_of_mem _ hr'))⟩

/-- every field name of the schema is a plain XML name -/
def NamesOk (s : Schema) : Prop :=
  ∀ n fields, s.fieldsOf n = some fields → ∀ f ∈ dataFields fields,
    xmlNameOk f.xmlName = true ∧ f.xmlName.startsWith "xmlns" = false

theorem marshalTrees_treeOk (s : Schema) (hs : SchemaFacts s) (hn : NamesOk s) :
    ∀ (f : Nat) (name : String) (om : Bool) (ty : LtType) (v : V) (ts : List Tree),
      marshalTrees s f name om ty v = .ok ts → xmlNameOk name = true → treeOkL ts = true
  | 0, name, om, ty, v, ts, h, _ => by simp [marshalTrees] at h
  | f + 1, name, om, ty, v, ts, h, hname => by
    have ih := marshalTrees_treeOk s hs hn f
    cases marshalTrees_inv s f name om ty v ts h with
    | omitted _ _ e => subst e; simp [treeOkL]
    | ptrNil _ _ _ _ e => subst e; simp [treeOkL]
    | ptr t' v' _ _ _ hm => exact ih name false t' v' ts hm hname
    | custom n txt _ _ _ _ e => subst e; simp [treeOkL, treeOk, hname]
    | simple txt _ _ _ _ e => subst e; simp [treeOkL, treeOk, hname]
    | slice t' vs tss _ _ _ _ hall e =>
      subst e
      apply treeOkL_flatten
      exact AllRel.forall_right (P := fun r => treeOkL r = true) hall (fun b r _ hb => ih name om t' b r hb hname)
    | struct n fs fields attrs kidss _ _ _ _ hf _ hattrs hkids e =>
      subst e
      have hk : treeOkL kidss.flatten = true := by
        apply treeOkL_flatten
        exact AllRel.forall_right (P := fun r => treeOkL r = true) hkids (fun p r hp hb =>
          ih p.1.xmlName p.1.omitempty p.1.typ p.2 r hb
            (hn n fields hf p.1 (List.of_mem_zip (List.mem_filter.mp hp).1).1).1)
      have ha : ∀ r ∈ attrs, ∀ a ∈ r, attrOk a = true ∧ a.1.startsWith "xmlns" = false := by
        refine AllRel.forall_right (P := fun r => ∀ a ∈ r, attrOk a = true ∧ a.1.startsWith "xmlns" = false) hattrs ?_
        intro p r hp hR a ha
        obtain ⟨hp1, hp2⟩ := List.mem_filter.mp hp
        have hmem := (List.of_mem_zip hp1).1
        obtain ⟨htyp, hom⟩ := hs.attr_fields n fields hf p.1 hmem hp2
        obtain ⟨t, ht, hr⟩ := attrOf_inv s p r hom hR
        subst hr
        simp only [List.mem_singleton] at ha
        subst ha
        rw [htyp] at ht
        have hk : kindOf s 8 (.basic "int") = .int := rfl
        rw [hk] at ht
        obtain ⟨hn1, hn2⟩ := hn n fields hf p.1 hmem
        exact ⟨by simp [attrOk, hn1, simpleText_int_plain p.2 t ht], hn2⟩
      have ha1 : attrs.flatten.all attrOk = true := by
        rw [List.all_eq_true]
        intro a hma
        obtain ⟨r, hr, har⟩ := List.mem_flatten.mp hma
        exact (ha r hr a har).1
      have ha2 : (attrs.flatten.map (·.1)).any (fun a => a.startsWith "xmlns") = false := by
        rw [List.any_eq_false]
        intro nm hnm
        obtain ⟨a, hma, e⟩ := List.mem_map.mp hnm
        obtain ⟨r, hr, har⟩ := List.mem_flatten.mp hma
        rw [← e]
        simp [(ha r hr a har).2]
      simp only [treeOkL, treeOk, hname, hk, ha1, ha2]
      rfl

/-! ### the body -/

/-- **the decoder on a printed body**: the line feed that ends the declaration, then the root
    element as the indenting printer writes it — the decoder finds the root, builds its content
    and hands attributes and content to the unmarshaller -/
theorem decodeBody_printed (s : Schema) (root : String) (t : Tree) (hroot : rootName s "DB" = some root)
    (hname : nameOfTree t = root) (hok : treeOk t = true) :
    decodeBody s ('\n' :: renderTree 0 t) =
      unmarshalNode s 64 (.named "DB") (zeroOf s 8 (.named "DB")) (attrsOfTree t) (contentOf 0 t) := by
  obtain ⟨r, hr⟩ := renderTree_head 0 t
  have hle := lexed_le_render 0 t
  -- the tokens
  have hlex : lexBody (('\n' :: renderTree 0 t).length + 2) ('\n' :: renderTree 0 t) =
      .text ['\n'] :: lexedOf 0 t := by
    have e : ('\n' :: renderTree 0 t).length + 2 =
        (((renderTree 0 t).length - (lexedOf 0 t).length + 2) + (lexedOf 0 t).length) + 1 := by
      simp only [List.length_cons]; omega
    rw [e, hr, lex_leading_nl, ← hr]
    have := lex_tree 0 t hok [] ((renderTree 0 t).length - (lexedOf 0 t).length + 2)
    simp only [List.append_nil] at this
    rw [this]
    simp [lexBody]
  unfold decodeBody
  simp only [hlex]
  have hnest : nest [] false (.text ['\n'] :: lexedOf 0 t) = .text ['\n'] :: lexedOf 0 t := by
    simp only [nest, nest_root]
  rw [hnest, lexedOf_eq]
  simp only [toRoot, Outcome.bind, hroot, hname, ne_eq, not_true_eq_false, if_false]
  have hp := parse_content 0 t root 0
  have e2 : (bodyToks 0 t ++ [XTok.stop root]).length + 2 = 0 + 1 + (bodyToks 0 t).length + 2 := by
    simp only [List.length_append, List.length_cons, List.length_nil]; omega
  have hp' := parseNodes_mono _ _ _ _ hp ((bodyToks 0 t ++ [XTok.stop root]).length + 2) (by rw [e2]; omega)
  rw [hp']

end TrackVerif.LT
