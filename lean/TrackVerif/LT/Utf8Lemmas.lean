import TrackVerif.LT.Schema
/-  UTF-8: the decoder's reading inverts Go's encoding, for every character.  Core only. -/
namespace TrackVerif.LT
open TrackVerif

theorem toUInt8_toNat (n : Nat) (h : n < 256) : (Nat.toUInt8 n).toNat = n := by
  simp [Nat.toUInt8]; omega

theorem char_range (c : Char) : c.toNat < 0xD800 ∨ (0xDFFF < c.toNat ∧ c.toNat < 0x110000) := by
  have := c.valid
  simp [UInt32.isValidChar, Nat.isValidChar] at this
  exact this

theorem utf8Enc_length_pos (c : Char) : 1 ≤ (utf8Enc c).length := by
  unfold utf8Enc
  simp only
  split
  · simp
  · split
    · simp
    · split <;> simp

/-- one character -/
theorem utf8Decode_enc (c : Char) (rest : List UInt8) (f : Nat) :
    utf8Decode (f + 1) (utf8Enc c ++ rest) = (utf8Decode f rest).map (c :: ·) := by
  have hv := char_range c
  have hc := Char.ofNat_toNat c
  generalize hn : c.toNat = n at hv hc
  unfold utf8Enc
  simp only [hn]
  by_cases h1 : n < 0x80
  · simp only [h1, if_true, List.cons_append, List.nil_append]
    conv => lhs; unfold utf8Decode
    have hb : (Nat.toUInt8 n).toNat = n := toUInt8_toNat n (by omega)
    simp only [hb, h1, if_true, hc]
  · by_cases h2 : n < 0x800
    · simp only [h1, h2, if_false, if_true, List.cons_append, List.nil_append]
      conv => lhs; unfold utf8Decode
      have hb0 : (Nat.toUInt8 (0xC0 + n / 64)).toNat = 0xC0 + n / 64 := toUInt8_toNat _ (by omega)
      have hb1 : (Nat.toUInt8 (0x80 + n % 64)).toNat = 0x80 + n % 64 := toUInt8_toNat _ (by omega)
      have e1 : ¬ (0xC0 + n / 64 < 0x80) := by omega
      have e2 : 0xC2 ≤ 0xC0 + n / 64 ∧ 0xC0 + n / 64 < 0xE0 := by omega
      have e3 : (0x80 + n % 64) / 64 = 2 := by omega
      have e4 : (0xC0 + n / 64) % 32 * 64 + (0x80 + n % 64) % 64 = n := by omega
      simp only [hb0, hb1, e1, e2, e3, e4, if_false, if_true, and_self, Option.bind_some, hc]
    · by_cases h3 : n < 0x10000
      · simp only [h1, h2, h3, if_false, if_true, List.cons_append, List.nil_append]
        conv => lhs; unfold utf8Decode
        have hb0 : (Nat.toUInt8 (0xE0 + n / 4096)).toNat = 0xE0 + n / 4096 := toUInt8_toNat _ (by omega)
        have hb1 : (Nat.toUInt8 (0x80 + n / 64 % 64)).toNat = 0x80 + n / 64 % 64 := toUInt8_toNat _ (by omega)
        have hb2 : (Nat.toUInt8 (0x80 + n % 64)).toNat = 0x80 + n % 64 := toUInt8_toNat _ (by omega)
        have e1 : ¬ (0xE0 + n / 4096 < 0x80) := by omega
        have e2 : ¬ (0xC2 ≤ 0xE0 + n / 4096 ∧ 0xE0 + n / 4096 < 0xE0) := by omega
        have e3 : 0xE0 ≤ 0xE0 + n / 4096 ∧ 0xE0 + n / 4096 < 0xF0 := by omega
        have e4 : (0x80 + n / 64 % 64) / 64 = 2 := by omega
        have e5 : (0x80 + n % 64) / 64 = 2 := by omega
        have e6 : (0xE0 + n / 4096) % 16 * 4096 + (0x80 + n / 64 % 64) % 64 * 64 + (0x80 + n % 64) % 64 = n := by omega
        have e7 : ¬ (n < 0x800 ∨ (0xD800 ≤ n ∧ n ≤ 0xDFFF)) := by omega
        simp only [hb0, hb1, hb2, e1, e2, e3, e4, e5, e6, e7, if_false, if_true, and_self, Option.bind_some, hc]
      · simp only [h1, h2, h3, if_false, List.cons_append, List.nil_append]
        conv => lhs; unfold utf8Decode
        have hb0 : (Nat.toUInt8 (0xF0 + n / 262144)).toNat = 0xF0 + n / 262144 := toUInt8_toNat _ (by omega)
        have hb1 : (Nat.toUInt8 (0x80 + n / 4096 % 64)).toNat = 0x80 + n / 4096 % 64 := toUInt8_toNat _ (by omega)
        have hb2 : (Nat.toUInt8 (0x80 + n / 64 % 64)).toNat = 0x80 + n / 64 % 64 := toUInt8_toNat _ (by omega)
        have hb3 : (Nat.toUInt8 (0x80 + n % 64)).toNat = 0x80 + n % 64 := toUInt8_toNat _ (by omega)
        have e1 : ¬ (0xF0 + n / 262144 < 0x80) := by omega
        have e2 : ¬ (0xC2 ≤ 0xF0 + n / 262144 ∧ 0xF0 + n / 262144 < 0xE0) := by omega
        have e3 : ¬ (0xE0 ≤ 0xF0 + n / 262144 ∧ 0xF0 + n / 262144 < 0xF0) := by omega
        have e3' : 0xF0 ≤ 0xF0 + n / 262144 ∧ 0xF0 + n / 262144 < 0xF5 := by omega
        have e4 : (0x80 + n / 4096 % 64) / 64 = 2 := by omega
        have e5 : (0x80 + n / 64 % 64) / 64 = 2 := by omega
        have e5' : (0x80 + n % 64) / 64 = 2 := by omega
        have e6 : (0xF0 + n / 262144) % 8 * 262144 + (0x80 + n / 4096 % 64) % 64 * 4096 +
            (0x80 + n / 64 % 64) % 64 * 64 + (0x80 + n % 64) % 64 = n := by omega
        have e7 : ¬ (n < 0x10000 ∨ n > 0x10FFFF) := by omega
        simp only [hb0, hb1, hb2, hb3, e1, e2, e3, e3', e4, e5, e5', e6, e7, if_false, if_true, and_self,
          Option.bind_some, hc]

/-- **UTF-8 round trip**: Go's byte spelling of any string is read back as that string -/
theorem utf8Decode_flatMap : ∀ (cs : List Char) (k : Nat),
    utf8Decode (k + cs.length + 1) (cs.flatMap utf8Enc) = some cs
  | [], k => by simp [utf8Decode]
  | c :: cs, k => by
    have ih := utf8Decode_flatMap cs k
    simp only [List.flatMap_cons, List.length_cons]
    rw [show k + (cs.length + 1) + 1 = (k + cs.length + 1) + 1 by omega, utf8Decode_enc, ih]
    rfl

theorem flatMap_utf8Enc_length (cs : List Char) : cs.length ≤ (cs.flatMap utf8Enc).length := by
  induction cs with
  | nil => simp
  | cons c cs ih =>
    have := utf8Enc_length_pos c
    simp only [List.flatMap_cons, List.length_append, List.length_cons]; omega

/-- with the fuel the decoder uses (one more than the number of bytes) -/
theorem utf8Decode_bytes (cs : List Char) :
    utf8Decode ((cs.flatMap utf8Enc).length + 1) (cs.flatMap utf8Enc) = some cs := by
  have h := flatMap_utf8Enc_length cs
  have := utf8Decode_flatMap cs ((cs.flatMap utf8Enc).length - cs.length)
  rw [show (cs.flatMap utf8Enc).length - cs.length + cs.length + 1 = (cs.flatMap utf8Enc).length + 1 by omega] at this
  exact this

end TrackVerif.LT
