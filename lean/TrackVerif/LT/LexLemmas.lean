import TrackVerif.LT.XmlLemmas
/-  Lemmas for lexing what the printer wrote: names, attributes, whitespace, tags. Core only. -/
namespace TrackVerif.LT.Xml
open TrackVerif.LT.Text

theorem nameChar_of (x : Char) (h : (x.isAlphanum || x = '_' || x = '.' || x = '-') = true) : isNameChar x = true := by
  simp only [isNameChar, Bool.or_eq_true, decide_eq_true_eq] at h ⊢
  rcases h with ((h | h) | h) | h
  · exact Or.inl (Or.inl (Or.inl (Or.inl h)))
  · exact Or.inl (Or.inl (Or.inl (Or.inr h)))
  · exact Or.inl (Or.inr h)
  · exact Or.inr h

theorem takeName_append (cs : List Char) (d : Char) (r : List Char)
    (h : ∀ x ∈ cs, isNameChar x = true) (hd : isNameChar d = false) :
    takeName (cs ++ d :: r) = (cs, d :: r) := by
  induction cs with
  | nil => simp [takeName, hd]
  | cons c cs ih =>
    have hc := h c (by simp)
    have := ih (fun x hx => h x (by simp [hx]))
    simp [takeName, hc, this]

/-- reading back a schema name that is followed by a delimiter -/
theorem readName_ok (n : String) (hn : xmlNameOk n = true) (d : Char) (r : List Char)
    (hd : isNameChar d = false) (hda : d.toNat < 128) :
    readName (n.toList ++ d :: r) = .ok n (d :: r) := by
  unfold xmlNameOk at hn
  cases hl : n.toList with
  | nil => simp [hl] at hn
  | cons c cs =>
    simp only [hl, Bool.and_eq_true, List.all_eq_true, Bool.or_eq_true, decide_eq_true_eq] at hn
    obtain ⟨hstart, hall⟩ := hn
    have hchars : ∀ x ∈ c :: cs, isNameChar x = true := fun x hx => nameChar_of x (by
      have := (hall x hx).1
      simpa [Bool.or_eq_true] using this)
    have hc128 : ¬ c.toNat ≥ 128 := by have := (hall c (by simp)).2; omega
    have hns : isNameStart c = true := by
      simp only [isNameStart, Bool.or_eq_true, decide_eq_true_eq]
      rcases hstart with h | h
      · exact Or.inl (Or.inl h)
      · exact Or.inl (Or.inr h)
    have htake := takeName_append (c :: cs) d r hchars hd
    have hcolon : (c :: cs).contains ':' = false := by
      rw [List.contains_eq_mem]
      simp only [decide_eq_false_iff_not]
      intro hm
      have := (hall ':' hm).1
      revert this; decide
    have hd128 : ¬ d.toNat ≥ 128 := by omega
    simp only [List.cons_append] at htake
    simp only [readName, List.cons_append, hc128, if_false, hns, Bool.not_true, Bool.false_eq_true, htake, hcolon,
      hd128]
    congr 1
    rw [← hl]
    exact String.ofList_toList

/-! ### attribute values that need no escaping (integers) -/

theorem plain_char (c : Char) (h : (c.isDigit || c = '-') = true) :
    ltEscapeChar c = [c] ∧ inCharRange c = true ∧ c ≠ '"' ∧ c ≠ '<' ∧ c ≠ '&' ∧ c ≠ '\r' ∧ c ≠ ']' := by
  simp only [Bool.or_eq_true, decide_eq_true_eq] at h
  rcases h with h | h
  · simp only [Char.isDigit, Bool.and_eq_true, decide_eq_true_eq] at h
    have h1 : 48 ≤ c.val.toNat := UInt32.le_iff_toNat_le.mp h.1
    have h2 : c.val.toNat ≤ 57 := UInt32.le_iff_toNat_le.mp h.2
    have hne : ∀ d : Char, (d.val.toNat < 48 ∨ 57 < d.val.toNat) → c ≠ d := by
      intro d hd e; subst e; omega
    have q1 := hne '"' (by decide); have q2 := hne '\'' (by decide); have q3 := hne '&' (by decide)
    have q4 := hne '<' (by decide); have q5 := hne '>' (by decide); have q6 := hne '\t' (by decide)
    have q7 := hne '\n' (by decide); have q8 := hne '\r' (by decide); have q9 := hne ']' (by decide)
    have hr : inCharRange c = true := by
      simp only [inCharRange, Bool.or_eq_true, Bool.and_eq_true, decide_eq_true_eq]
      have : c.toNat = c.val.toNat := rfl
      omega
    refine ⟨?_, hr, q1, q4, q3, q8, q9⟩
    simp [ltEscapeChar, q1, q2, q3, q4, q5, q6, q7, q8, hr]
  · subst h; decide

theorem readText_plain_quoted (v r : List Char) (h : plainVal v = true) :
    readText (some '"') (v ++ '"' :: r) = .ok v r := by
  unfold readText
  induction v with
  | nil => simp [readTextFrom]
  | cons c cs ih =>
    simp only [plainVal, List.all_cons, Bool.and_eq_true] at h
    obtain ⟨_, hr, q1, q4, q3, q8, q9⟩ := plain_char c h.1
    have := ih (by simpa [plainVal] using h.2)
    simp [readTextFrom, q1, q4, q3, q8, q9, hr, this, Ne.symm q1]

theorem goEscape_plain (v : List Char) (h : plainVal v = true) : v.flatMap ltEscapeChar = v := by
  induction v with
  | nil => rfl
  | cons c cs ih =>
    simp only [plainVal, List.all_cons, Bool.and_eq_true] at h
    have := (plain_char c h.1).1
    simp [List.flatMap_cons, this, ih (by simpa [plainVal] using h.2)]

theorem skipSpace_nonspace (c : Char) (r : List Char) (h : isSpace c = false) : skipSpace (c :: r) = c :: r := by
  simp [skipSpace, h]

theorem nameStart_not_space (n : String) (hn : xmlNameOk n = true) :
    ∃ c cs, n.toList = c :: cs ∧ isSpace c = false ∧ c ≠ '/' ∧ c ≠ '>' := by
  unfold xmlNameOk at hn
  cases hl : n.toList with
  | nil => simp [hl] at hn
  | cons c cs =>
    simp only [hl, Bool.and_eq_true, Bool.or_eq_true, decide_eq_true_eq] at hn
    refine ⟨c, cs, rfl, ?_, ?_, ?_⟩
    · rcases hn.1 with h | h
      · simp only [isSpace, Bool.or_eq_false_iff, decide_eq_false_iff_not]
        refine ⟨⟨⟨?_, ?_⟩, ?_⟩, ?_⟩ <;> (intro e; subst e; revert h; decide)
      · subst h; decide
    · rcases hn.1 with h | h
      · intro e; subst e; revert h; decide
      · subst h; decide
    · rcases hn.1 with h | h
      · intro e; subst e; revert h; decide
      · subst h; decide

/-- the attributes the printer wrote, up to the closing '>' -/
theorem readAttrs_rendered (as : List (String × List Char)) (h : as.all attrOk = true) (r : List Char)
    (fuel : Nat) (hf : as.length < fuel) :
    readAttrs fuel (as.flatMap renderAttrLT ++ '>' :: r) = .ok (as, false) r := by
  induction as generalizing fuel with
  | nil =>
    cases fuel with
    | zero => omega
    | succ f => simp [readAttrs, skipSpace, isSpace]
  | cons a as ih =>
    cases fuel with
    | zero => omega
    | succ f =>
      simp only [List.all_cons, Bool.and_eq_true, attrOk] at h
      obtain ⟨⟨hn, hv⟩, hrest⟩ := h
      obtain ⟨c, cs, hl, hsp, hsl, hgt⟩ := nameStart_not_space a.1 hn
      have hsp1 : isSpace ' ' = true := by decide
      have hname := readName_ok a.1 hn '=' ('"' :: (a.2.flatMap ltEscapeChar ++ '"' :: (as.flatMap renderAttrLT ++ '>' :: r)))
        (by decide) (by decide)
      simp only [List.flatMap_cons, renderAttrLT, List.append_assoc, List.cons_append, List.nil_append]
      have hq : isSpace '=' = false := by decide
      have hq2 : isSpace '"' = false := by decide
      rw [hl] at hname
      simp only [List.cons_append] at hname
      have hsk : skipSpace (' ' :: (a.1.toList ++ '=' :: '"' :: (a.2.flatMap ltEscapeChar ++ '"' :: (as.flatMap renderAttrLT ++ '>' :: r))))
          = c :: (cs ++ '=' :: '"' :: (a.2.flatMap ltEscapeChar ++ '"' :: (as.flatMap renderAttrLT ++ '>' :: r))) := by
        rw [hl]; simp [skipSpace, hsp1, hsp]
      rw [goEscape_plain a.2 hv] at hname hsk ⊢
      unfold readAttrs
      rw [hsk]
      have ih' := ih (by simpa [attrOk] using hrest) f (by simp at hf; omega)
      split
      · rename_i heq; simp at heq
      · rename_i heq; simp at heq; exact absurd heq.1 hsl
      · rename_i heq; simp at heq; exact absurd heq.1 hsl
      · rename_i heq; simp at heq; exact absurd heq.1 hgt
      · simp only [hname, skipSpace, hq, hq2, if_false, Bool.false_eq_true, true_or, if_true,
          readText_plain_quoted a.2 _ hv, ih']

/-! ### whole tokens -/

def wsOnly (ws : List Char) : Bool := ws.all fun c => c = '\n' || c = '\t'

theorem ws_escape (ws : List Char) (h : wsOnly ws = true) :
    ws.flatMap ltEscapeChar = ws ∧ substitute ws = ws := by
  induction ws with
  | nil => exact ⟨rfl, rfl⟩
  | cons c cs ih =>
    simp only [wsOnly, List.all_cons, Bool.and_eq_true, Bool.or_eq_true, decide_eq_true_eq] at h
    obtain ⟨i1, i2⟩ := ih (by simpa [wsOnly] using h.2)
    rcases h.1 with hc | hc <;> subst hc
    · refine ⟨?_, ?_⟩
      · simp only [List.flatMap_cons, i1]; rfl
      · simp only [substitute, List.map_cons] at i2 ⊢; rw [i2]; rfl
    · refine ⟨?_, ?_⟩
      · simp only [List.flatMap_cons, i1]; rfl
      · simp only [substitute, List.map_cons] at i2 ⊢; rw [i2]; rfl

/-- indentation between tags is lexed as one character-data token -/
theorem lexBody_ws (f : Nat) (ws r : List Char) (h : wsOnly ws = true) (hne : ws ≠ []) :
    lexBody (f + 1) (ws ++ '<' :: r) = .text ws :: lexBody f ('<' :: r) := by
  obtain ⟨e1, e2⟩ := ws_escape ws h
  have hrt := readText_ltEscape ws r
  rw [e1, e2] at hrt
  cases ws with
  | nil => exact absurd rfl hne
  | cons c cs =>
    have hc : c ≠ '<' := by
      simp only [wsOnly, List.all_cons, Bool.and_eq_true, Bool.or_eq_true, decide_eq_true_eq] at h
      rcases h.1 with hc | hc <;> subst hc <;> decide
    simp only [List.cons_append] at hrt ⊢
    simp only [lexBody, hc, if_false, hrt]

/-- character data of an element: LapTimer's spelling is lexed back to the substituted text -/
theorem lexBody_text (f : Nat) (t r : List Char) (hne : t ≠ []) :
    lexBody (f + 1) (t.flatMap ltEscapeChar ++ '<' :: r) = .text (substitute t) :: lexBody f ('<' :: r) := by
  have hrt := readText_ltEscape t r
  cases t with
  | nil => exact absurd rfl hne
  | cons c cs =>
    obtain ⟨h, tl, e, _, hlt⟩ := ltEscape_head c
    simp only [List.flatMap_cons, e, List.cons_append] at hrt ⊢
    simp only [lexBody, hlt, if_false, hrt]

theorem lexBody_stop (f : Nat) (n : String) (hn : xmlNameOk n = true) (r : List Char) :
    lexBody (f + 1) ('<' :: '/' :: (n.toList ++ '>' :: r)) = .stop n :: lexBody f r := by
  have hname := readName_ok n hn '>' r (by decide) (by decide)
  simp [lexBody, hname, skipSpace, isSpace]

theorem renderAttrs_length (as : List (String × List Char)) : as.length ≤ (as.flatMap renderAttrLT).length := by
  induction as with
  | nil => simp
  | cons a as ih =>
    simp only [List.flatMap_cons, List.length_append, List.length_cons, renderAttrLT]
    omega

theorem nameStart_not_qb (n : String) (hn : xmlNameOk n = true) :
    ∃ c cs, n.toList = c :: cs ∧ c ≠ '?' ∧ c ≠ '!' ∧ c ≠ '/' := by
  unfold xmlNameOk at hn
  cases hl : n.toList with
  | nil => simp [hl] at hn
  | cons c cs =>
    simp only [hl, Bool.and_eq_true, Bool.or_eq_true, decide_eq_true_eq] at hn
    refine ⟨c, cs, rfl, ?_, ?_, ?_⟩ <;>
      (rcases hn.1 with h | h
       · intro e; subst e; revert h; decide
       · subst h; decide)

theorem lexBody_start (f : Nat) (n : String) (hn : xmlNameOk n = true) (as : List (String × List Char))
    (has : as.all attrOk = true) (hx : (as.map (·.1)).any (fun a => a.startsWith "xmlns") = false) (r : List Char) :
    lexBody (f + 1) ('<' :: (n.toList ++ (as.flatMap renderAttrLT ++ '>' :: r))) = .start n as :: lexBody f r := by
  obtain ⟨c, cs, hl, hq1, hq2, hsl⟩ := nameStart_not_qb n hn
  -- the character after the name: a blank (attributes follow) or '>'
  have hnext : ∃ d rest, as.flatMap renderAttrLT ++ '>' :: r = d :: rest ∧ isNameChar d = false ∧ d.toNat < 128 := by
    cases as with
    | nil => exact ⟨'>', r, rfl, by decide, by decide⟩
    | cons a as' =>
      refine ⟨' ', a.1.toList ++ ['=', '"'] ++ a.2.flatMap ltEscapeChar ++ ['"'] ++ (as'.flatMap renderAttrLT ++ '>' :: r), ?_,
        by decide, by decide⟩
      simp [renderAttrLT]
  obtain ⟨d, rest, hd, hdn, hda⟩ := hnext
  have hname := readName_ok n hn d rest hdn hda
  rw [← hd] at hname
  have hattrs := readAttrs_rendered as has r ((as.flatMap renderAttrLT ++ '>' :: r).length + 1) (by
    have := renderAttrs_length as
    simp only [List.length_append, List.length_cons]
    omega)
  rw [hl] at hname ⊢
  simp only [List.cons_append] at hname ⊢
  conv => lhs; unfold lexBody
  simp only [if_true]
  split
  · rename_i heq; simp at heq; exact absurd heq.1 hsl
  · rename_i heq; simp at heq; exact absurd heq.1 hq1
  · rename_i heq; simp at heq; exact absurd heq.1 hq2
  · rename_i heq; simp at heq; exact absurd heq.1 hq2
  · simp only [hname, hattrs, hx, if_false, Bool.false_eq_true]

end TrackVerif.LT.Xml
