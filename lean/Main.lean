import TrackVerif.Common.Proto
import TrackVerif.Driver.Dec
import TrackVerif.TA.Driver
import TrackVerif.Conv.Driver
import TrackVerif.GP.Driver
import TrackVerif.GPMF.Driver
import TrackVerif.GPMF.Mp4Driver
import TrackVerif.Geo.Driver
import TrackVerif.LT.Driver
import TrackVerif.CLI.Driver
/-
  Line-protocol driver.  One case per input line:
      AREA op arg… => impl-output-tokens…
  One verdict per output line:
      OK [tags]                       implementation = model and the property's spec holds
      CORR model=… [clause=…]         implementation ≠ model, but spec relation holds / out of domain
      VIOL clause=… [model=… spec=…]  in-domain input on which the implementation breaks the spec
      SKIP [reason]                   input outside the modelled grammar (harness checks no-panic only)
      BAD                             unparsable protocol line (always a harness/driver bug)
-/
open TrackVerif

def splitArrow (toks : List String) : List String × List String :=
  let pre := toks.takeWhile (· ≠ "=>")
  let post := (toks.dropWhile (· ≠ "=>")).drop 1
  (pre, post)

def dispatch (line : String) : String :=
  let toks := Proto.tokens line
  match toks with
  | [] => "BAD"
  | area :: rest =>
    let (args, impl) := splitArrow rest
    match area with
    | "DEC" => Driver.Dec.handle args impl
    | "TA" => TA.Driver.handle args impl
    | "CV" => Conv.Driver.handle args impl
    | "GP" => GP.Driver.handle args impl
    | "GM" => GPMF.Driver.handle args impl
    | "M4" => GPMF.Mp4Driver.handle args impl
    | "GE" => Geo.Driver.handle args impl
    | "LT" => LT.Driver.handle args impl
    | "CL" => CLI.Driver.handle args impl
    | _ => "BAD"

partial def loop (h : IO.FS.Stream) (out : IO.FS.Stream) : IO Unit := do
  let line ← h.getLine
  if line.isEmpty then return ()
  let l := (line.dropEndWhile (fun c => c == '\n' || c == '\r')).toString
  -- one answer line per case, whatever a handler put into its message
  out.putStrLn ((dispatch l).map fun c => if c == '\n' || c == '\r' then ' ' else c)
  loop h out

def main : IO Unit := do
  let stdin ← IO.getStdin
  let stdout ← IO.getStdout
  loop stdin stdout
