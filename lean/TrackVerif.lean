-- Root of the `TrackVerif` library: everything `bin/setup` pre-builds.
import TrackVerif.Common.Outcome
import TrackVerif.Common.Proto
import TrackVerif.Common.Dec
import TrackVerif.Common.GenTypes
import TrackVerif.Driver.Dec
import TrackVerif.TA.Driver
import TrackVerif.TA.PropsC02
import TrackVerif.TA.PropsC10
import TrackVerif.TA.PropsC15
import TrackVerif.Conv.Driver
import TrackVerif.Conv.PropsC03
import TrackVerif.Conv.PropsC11
import TrackVerif.Conv.PropsC12
import TrackVerif.GP.Driver
import TrackVerif.GP.PropsC04
import TrackVerif.GP.PropsC05
