#!/usr/bin/env python3
"""Regenerates /verif/MANIFEST.json from the claims below (keeps it valid at all times)."""
import json
import os
import sys

ROOT = os.path.dirname(os.path.dirname(os.path.abspath(__file__)))
sys.path.insert(0, os.path.join(ROOT, "lib"))
from registry import PROPS  # noqa: E402

TECH = "Lean 4 machine-checked proof over an executable model; model tied to /repo by regenerated tables (go/ast translator) and differential correspondence"

CLAIMS = {
    "C02": ("Lean theorems about the decode-loop model, for ANY input that decodes: the first non-comment line is the header row and the session's records are, in file order, exactly the images of all other non-comment lines (rows_once_in_order); k lap markers give k+1 laps and closed lap i has the number and duration of marker i (laps_follow_markers); a marker numbered lower than the laps already closed fails the decode (lower_marker_rejected); a record is the sequential assignment of each column's parsed value to that column's field (row_is_assignments); the 35-row column table regenerated from Decoder.columns equals the expected one (decide). Tie: regenerated tables + differential correspondence of the real decoder against the model on generated well-formed logs and the real 12k-line log.",
            "Trusted: Lean kernel; translator + harness; encoding/csv, bufio.Scanner, fmt.Sscanf, strconv, time.ParseDuration are modelled for the grammar TrackAddict writes (else `unmodelled`), not verified. Scalar parse/print round trips are validated by correspondence only."),
    "C10": ("Lean theorems: the regenerated column/constant/converter tables equal the expected ones (decide); for all nine dual-unit quantities the imperial column is the metric column's chain preceded by exactly the to-metric converter, onto the same field; over exact rationals the imperial chain applied to x equals the metric chain applied to the exactly converted value for every x. Tie: tables regenerated from decoder.go/units.go each run + differential correspondence incl. impl-vs-impl imperial/metric log pairs in random layouts.",
            "Trusted: Lean kernel; translator + harness; strconv/csv/bufio modelled. float64 rounding (one multiplication) is outside the theorems and checked at 1e-12 relative per case."),
    "C15": ("Lean theorems for every list of lines and every column table: the decoder model never reaches a Go panic (no_panic: parts[1], s.Laps[len-1], data[i] are guarded, proved via the loop invariant 'an open lap exists and the CSV field count equals the parser count'); whenever a text decodes no data row is dropped, invented or reordered (no_silent_row_loss, record_count); colon-less comments are errors or ignored (colonless_comment). Termination is by structural recursion. Tie: regenerated tables/literals + differential correspondence of ok/err/panic class and decoded session on damaged logs.",
            "Trusted: Lean kernel; translator + harness; crash-freedom of the standard library parsers on arbitrary bytes is assumed (exercised, not proved); invalid UTF-8 is checked for crash-freedom only."),
}

CLAIMS["C03"] = ("Lean refinement theorem convert_is_spec: for every session, option set, inverse function and numeric structure, the converter model (loops threading fix id, running distance, last position and date state) equals the declarative conversion Spec.convert; from the declarative form: lap selection 2..L-1 (empty below 3 laps), lap constants, fixes = first row + GPS-updated rows, fix ids id, id+1, … running on across laps (fix_ids), first fix at distance 0 / offset 0, offsets = row time − first row time, distances = running sum of inverse distances, overall = round1dp(last distance), carried fields. Tie: differential correspondence real decoder+converter vs model vs spec on generated sessions, with real WGS-84 inverse results as the oracle table.",
                 "Trusted: Lean kernel; harness; geodesic.Inverse a parameter; float64 rounding not in theorems (bit-exact comparison in the correspondence).")
CLAIMS["C11"] = ("Lean theorems: interpolation disabled leaves the session untouched; fresh readings and non-GPS rows are never modified; a GPS-updated row after the first fresh reading gets, per present channel, the predictor's value at its timestamp (interpolated); sessions without OBD columns or whose OBD never updates pass through unchanged (no_obd_ok) — for all sessions; over exact rationals the default predictor equals the linear interpolation of the two surrounding fresh readings (linear_between, linear_at_knot, lerp_is_chord) for every strictly increasing reading series. Tie: correspondence of the real PredictOBD+converter against the model on arbitrary GPS/OBD interleavings and predictors.",
                 "Trusted: Lean kernel; harness; gonum predictors and the reflection loops are modelled; gonum's documented Fit panics (duplicate timestamps) are reproduced by the model and lie outside the property.")
CLAIMS["C12"] = ("Lean theorems for every session, option set and start date D: converting with D equals converting without it with every lap date and fix date moved by the single constant D − midnightUTC(first converted row) (shift_constant on the declarative spec, shift_constant_model on the converter model via the C03 refinement); without the option the shift is 0; differences between timestamps are preserved. Tie: impl-vs-impl metamorphic correspondence (with/without start date) incl. D = logged day and sessions crossing midnight.",
                 "Trusted: Lean kernel; harness; Go time arithmetic modelled as Int ns.")

CLAIMS["C04"] = ("Lean theorems: the three patterns regenerated from matcher.go are anchored and have exactly the expected per-position classes (shapes_table, decide); the position-wise matcher accepts exactly names of the right length with every character in its class (match_iff) and captures are the characters at the group's positions (captures); a group validates iff its chapters are 00,01,… or 01,02,… (validate_iff); the concat list is one line per chapter in group order naming the source path (concat_list); for EVERY visiting order and fault position the encoder is only started for an existing valid group (only_valid_joined); an invalid group starts nothing, changes nothing and ends the run with an error (invalid_reports, invalid_stops); no matching name gives ErrNoFiles (empty_dir); directories contribute nothing. Tie: regenerated regex position classes + correspondence of Match / Validate / whole Process runs with the observed map order.",
                 "Trusted: Lean kernel; translator (regexp/syntax) + harness; regexp engine, WalkDir order and sort.Sort are modelled.")
CLAIMS["C05"] = ("Lean theorems about processSet for every config, filesystem state, group and EVERY fault position: at most one encoder start (at_most_once); argv = binary, configured args with the -i slot holding the temp name, output last, only for valid non-skipped groups (argv_shape); never for an existing output unless overwrite (no_clobber); every final path was there before or is the output, the temp name is gone (temp_gone); every other path keeps its content/mtime (sources_intact); a listed path is the output of a successful join and carries the first chapter's mtime (listed_is_output); errors list nothing; Validate's slot is an empty argument directly after -i (validate_slot). Tie: verif hook + recording fault-injecting filesystem; op logs, argv, final state and mutated cfg.Args compared with the model, incl. exhaustive single-fault enumeration of a fixed scenario.",
                 "Trusted: Lean kernel; harness + hook; OS filesystem, html/template modelled; one fault per run.")

NA_REASON = "check under construction in this round (design in DESIGN.md); will be claimed once its model, theorems and correspondence exist"


def main():
    ids = [json.loads(l)["id"] for l in open(os.path.join(ROOT, "properties.jsonl"))]
    claimed = [i for i in ids if i in CLAIMS and i in PROPS]
    m = {
        "version": 1,
        "setup_cmd": "bin/setup",
        "hooks": {"guard": "verif",
                  "enable": "go build -tags verif (the harness module replaces github.com/stevenh/tracktools => /repo)",
                  "baseline_off_cmd": "cd /repo && GOFLAGS=-mod=mod GOPROXY=off GOSUMDB=off go test -json -vet=off -count=1 -timeout 25m ./...",
                  "source_commits": HOOK_COMMITS, "add_only": True},
        "engines": [{"name": "lean4-proof+correspondence", "path": "/verif/bin/check", "serves_properties": claimed,
                     "kind_free_text": "Lean 4 theorems about executable models; models tied to /repo by a go/ast translator (regenerated tables) and by in-process differential correspondence through a compiled Lean driver"}],
        "checks": [],
        "notes": "See DESIGN.md. bin/check <ID> --tier quick|thorough; --replay <file> re-runs a recorded case. known_findings.json lists fixed/known defects.",
        "not_applicable": [],
    }
    for pid in ids:
        if pid in claimed:
            text, note = CLAIMS[pid]
            m["checks"].append({
                "property_id": pid,
                "quick_cmd": f"bin/check {pid} --tier quick",
                "thorough_cmd": f"bin/check {pid} --tier thorough",
                "evidence_file": f"/verif/evidence/{pid}.json",
                "replay_cmd_template": f"bin/check {pid} --replay {{path}}",
                "engine": "lean4-proof+correspondence",
                "level_claimed": {"category": "proof", "text": text, "design_ref": "DESIGN.md section 6, " + pid},
                "level_note": note,
                "technique": TECH,
            })
        else:
            m["not_applicable"].append({"property_id": pid, "reason": NA_REASON})
    json.dump(m, open(os.path.join(ROOT, "MANIFEST.json"), "w"), indent=1)
    print("claimed:", " ".join(claimed))


HOOK_COMMITS = ["b48bb30"]

if __name__ == "__main__":
    main()
