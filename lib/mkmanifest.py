#!/usr/bin/env python3
"""Regenerates /verif/MANIFEST.json from the claims below (keeps it valid at all times)."""
import json
import os
import sys

ROOT = os.path.dirname(os.path.dirname(os.path.abspath(__file__)))
sys.path.insert(0, os.path.join(ROOT, "lib"))
from registry import PROPS  # noqa: E402

TECH = "Lean 4 machine-checked proof over an executable model; model tied to /repo by regenerated tables (go/ast translator) and differential correspondence"

CLAIMS = {
    "C02": ("Lean theorems about the decode-loop model, for ANY input that decodes: the first non-comment line is the header row and the session's records are, in file order, exactly the images of all other non-comment lines (rows_once_in_order); k lap markers give k+1 laps and closed lap i has the number and duration of marker i (laps_follow_markers); a marker numbered lower than the laps already closed fails the decode (lower_marker_rejected); a record is the sequential assignment of each column's parsed value to that column's field (row_is_assignments); the 35-row column table regenerated from Decoder.columns equals the expected one (decide). Tie: regenerated tables + differential correspondence of the real decoder against the model on generated well-formed logs and the real 12k-line log.",
            "Trusted: Lean kernel; translator + harness; encoding/csv, bufio.Scanner, fmt.Sscanf, strconv, time.ParseDuration are modelled for the grammar TrackAddict writes (else `unmodelled`), not verified. Scalar parse/print round trips are validated by correspondence only."),
    "C10": ("Lean theorems: the regenerated column/constant/converter tables equal the expected ones (decide); for all nine dual-unit quantities the imperial column is the metric column's chain preceded by exactly the to-metric converter, onto the same field; over exact rationals the imperial chain applied to x equals the metric chain applied to the exactly converted value for every x. Tie: tables regenerated from decoder.go/units.go each run + differential correspondence incl. impl-vs-impl imperial/metric log pairs in random layouts.",
            "Trusted: Lean kernel; translator + harness; strconv/csv/bufio modelled. float64 rounding (one multiplication) is outside the theorems and checked at 1e-12 relative per case."),
    "C15": ("Lean theorems for every list of lines and every column table: the decoder model never reaches a Go panic (no_panic: parts[1], s.Laps[len-1], data[i] are guarded, proved via the loop invariant 'an open lap exists and the CSV field count equals the parser count'); whenever a text decodes no data row is dropped, invented or reordered (no_silent_row_loss, record_count); colon-less comments are errors or ignored (colonless_comment). Termination is by structural recursion. Tie: regenerated tables/literals + differential correspondence of ok/err/panic class and decoded session on damaged logs.",
            "Trusted: Lean kernel; translator + harness; crash-freedom of the standard library parsers on arbitrary bytes is assumed (exercised, not proved); invalid UTF-8 is checked for crash-freedom only."),
}

CLAIMS["C03"] = ("Lean refinement theorem convert_is_spec: for every session, option set, inverse function and numeric structure, the converter model (loops threading fix id, running distance, last position and date state) equals the declarative conversion Spec.convert; from the declarative form: lap selection 2..L-1 (empty below 3 laps), lap constants, fixes = first row + GPS-updated rows, fix ids id, id+1, … running on across laps (fix_ids), first fix at distance 0 / offset 0, offsets = row time − first row time, distances = running sum of inverse distances, overall = round1dp(last distance), carried fields. Tie: differential correspondence real decoder+converter vs model vs spec on generated sessions, with real WGS-84 inverse results as the oracle table.",
                 "Trusted: Lean kernel; harness; geodesic.Inverse a parameter; float64 rounding not in theorems (bit-exact comparison in the correspondence).")
CLAIMS["C11"] = ("Lean theorems: interpolation disabled leaves the session untouched; fresh readings and non-GPS rows are never modified; a GPS-updated row after the first fresh reading gets, per present channel, the predictor's value at its timestamp (interpolated); sessions without OBD columns or whose OBD never updates pass through unchanged (no_obd_ok) — for all sessions; over exact rationals the default predictor equals the linear interpolation of the two surrounding fresh readings (linear_between, linear_at_knot, lerp_is_chord) for every strictly increasing reading series. Tie: correspondence of the real PredictOBD+converter against the model on arbitrary GPS/OBD interleavings and predictors.",
                 "Trusted: Lean kernel; harness; gonum predictors and the reflection loops are modelled; gonum's documented Fit panics (duplicate timestamps) are reproduced by the model and lie outside the property.")
CLAIMS["C12"] = ("Lean theorems for every session, option set and start date D: converting with D equals converting without it with every lap date and fix date moved by the single constant D − midnightUTC(first converted row) (shift_constant on the declarative spec, shift_constant_model on the converter model via the C03 refinement); without the option the shift is 0; differences between timestamps are preserved. Tie: impl-vs-impl metamorphic correspondence (with/without start date) incl. D = logged day and sessions crossing midnight.",
                 "Trusted: Lean kernel; harness; Go time arithmetic modelled as Int ns.")

CLAIMS["C04"] = ("Lean theorems: the three patterns regenerated from matcher.go are anchored and have exactly the expected per-position classes (shapes_table, decide); the position-wise matcher accepts exactly names of the right length with every character in its class (match_iff) and captures are the characters at the group's positions (captures); a group validates iff its chapters are 00,01,… or 01,02,… (validate_iff); the concat list is one line per chapter in group order naming the source path (concat_list); for EVERY visiting order and fault position the encoder is only started for an existing valid group (only_valid_joined); an invalid group starts nothing, changes nothing and ends the run with an error (invalid_reports, invalid_stops); no matching name gives ErrNoFiles (empty_dir); directories contribute nothing. Tie: regenerated regex position classes + correspondence of Match / Validate / whole Process runs with the observed map order.",
                 "Trusted: Lean kernel; translator (regexp/syntax) + harness; regexp engine, WalkDir order and sort.Sort are modelled.")
CLAIMS["C05"] = ("Lean theorems about processSet for every config, filesystem state, group and EVERY fault position: at most one encoder start (at_most_once); argv = binary, configured args with the -i slot holding the temp name, output last, only for valid non-skipped groups (argv_shape); never for an existing output unless overwrite (no_clobber); every final path was there before or is the output, the temp name is gone (temp_gone); every other path keeps its content/mtime (sources_intact); a listed path is the output of a successful join and carries the first chapter's mtime (listed_is_output); errors list nothing; Validate's slot is an empty argument directly after -i (validate_slot). Tie: verif hook + recording fault-injecting filesystem; op logs, argv, final state and mutated cfg.Args compared with the model, incl. exhaustive single-fault enumeration of a fixed scenario.",
                 "Trusted: Lean kernel; harness + hook; OS filesystem, html/template modelled; one fault per run.")

CLAIMS["C06"] = ("Lean theorems for all headers / payloads / surrounding bytes: a leaf element is read as exactly size×repeat payload bytes + alignment padding and the reader continues with what follows (read_leaf_step); a container's children are read from exactly the bytes it declares and the following bytes are parsed as siblings (siblings_not_children); a stream ending before a container's or leaf's declared bytes, or inside a header, is an error (truncated_container_is_error, truncated_leaf_is_error, partial_header_is_error); every numeric element exposes size×repeat/width values, each the big-endian (two's complement) value of its bytes (value_count_and_bits); the width table regenerated from element.go matches the GPMF widths (width_table, widths_match_spec). Tie: regenerated tables + correspondence of the real reader on generated trees, mutated trees and the real captures.",
                 "Trusted: Lean kernel; translator + harness; io/binary semantics modelled. Whole-tree round trip and the tree walker are covered by correspondence, not by one theorem.")
CLAIMS["C07"] = ("Lean theorems: value i of a scaled element is raw[i]/scale[i mod n] (scale_cyclic); a pending scale is consumed by exactly the next element and cleared, elements without a pending scale stay unscaled, a SCAL stores its non-empty vector as the parent's pending scale (scale_next_only, unscaled_when_no_scale, scal_sets_pending); sensor layouts GPS5 lat,lon,alt,2D,3D / ACCL,GYRO,MAGN Z,X,Y / WRGB R,G,B (layouts, decide on regenerated tables); regrouping gives repeat-many samples with field k = value j·w+pos k, wrong multiples are errors (regroup_ok, regroup_sample, window_value, bad_count); face fields sit at the cumulative offsets of the type definition for Hero 6/8/10 and id..h + last float for Hero 7, all inside the record (face_offsets). Tie: regenerated tables + bit-exact correspondence on generated sensor streams.",
                 "Trusted: Lean kernel; translator + harness. GPSP/GPSF handling is part of the modelled parser table and checked by correspondence.")
CLAIMS["C08"] = ("Lean theorems for ANY sample tables the decoder accepts: samples 1..N are read exactly once in order, the first starts at media time 0, each interval starts where the previous ended (every_sample_once); ticks→ns is the exact floor of ticks·1e9/timescale for every timescale (mediaTime_exact); reading i of n gets start+i·((end−start)/n), offsets begin at start, never decrease, stay below end, deviate from the exact value by less than i ns (spread_value, spread_bounds, spread_monotone, spread_exactness); zero timescale / missing chunk offsets are errors. Tie: correspondence on byte-synthesised MP4 files with arbitrary table layouts, compared offset by offset.",
                 "Trusted: Lean kernel; harness + synthesiser; mp4ff box parsing (echo-checked). Extent arithmetic is validated by correspondence.")
CLAIMS["C09"] = ("Lean theorems: for ARBITRARY bytes the reader model never reaches a Go panic (reader_no_panic, via the level invariant 'a pending scale is never empty' and the table conditions tables_ok proved by decide on the regenerated tables); for ARBITRARY sample tables the walk never indexes out of range or divides by zero (tables_no_panic) and the whole decoder model never panics (decoder_no_panic). All definitions are total. The proof attempt itself exposed a crash (container keyed FACE), fixed in /repo. Tie: classification ok/err/panic/hang compared on mutated and random input with a watchdog.",
                 "Trusted: Lean kernel; translator + harness; crash points were read from the source into the model; runtime limits (stack, allocation) and mp4ff's own robustness are outside the model.")
CLAIMS["C16"] = ("Lean theorems: an exposing element sees every entry of its own stream (own statements win) and otherwise only entries of its ancestors below the root — its device — never a sibling stream's, another device's or another payload's (sees_own_and_ancestors, root_level_copies_nothing, container_starts_fresh, payload_isolated); restating a key replaces the earlier value and touches no other key (restated_replaces, set_other); which keys store and which elements expose metadata is the regenerated key table (tables_tie, metadata_keys, exposing_keys). Tie: every element's Metadata map dumped key-sorted and compared on generated device/stream/metadata histories.",
                 "Trusted: Lean kernel; translator + harness; Go map aliasing modelled by alias resolution.")

CLAIMS["C17"] = ("PARTIAL. Lean theorems: enlarging the tolerance never turns a hit into a miss, for ANY comparison that is transitive at the tolerance — hence for float64 too (tol_monotone) — and the haversine tolerance is monotone in the tolerance (havTol_monotone); end caps: d ≤ hav(tol/R) iff great-circle distance to the end point ≤ tol (end_cap_iff), positions within tolerance of an end point are hits (end_caps), far cross-track positions are misses; havSin x = hav(arcsin x) exactly; end-cap and segment-length quantities are symmetric in the end points. Over ℝ via Mathlib. The full equivalence with distance-to-segment and the 1% + 0.1 mm guard band are established by sampling against an independent vector oracle (every case also checks end-point order independence and 2x tolerance).",
                 "Trusted: Lean kernel + Mathlib axioms (propext, Classical.choice, Quot.sound); harness oracle; libm. onLine_sound/onLine_complete not proved.")
CLAIMS["C18"] = ("PARTIAL. Lean theorems over ℝ: the default method returns exactly radius × arccos⟨u₁,u₂⟩ (distance_is_great_circle, via the haversine chord identity and invHav∘hav = id on [0,π]); symmetric; zero iff ⟨u₁,u₂⟩ = 1; linear in the radius; the fast method is symmetric, linear in the radius and exact along meridians. Numeric error bounds (1e-9, 1e-5, 1%) are float64 properties and are sampled against an independent oracle, incl. DistanceToLine at all latitudes/bearings.",
                 "Trusted: Lean kernel + Mathlib; harness oracle; libm.")
CLAIMS["C19"] = ("PARTIAL. Lean theorems over ℝ: the plane point IntersectExt computes lies on both lines whenever they are not parallel (homogeneous_meet, Cramer); lines pass through their end points; swapping a segment's end points does not move it; sameDirection: equal or close azimuths agree, opposite ones do not; Intersect reports the point iff both azimuth pairs agree, i.e. inside both segments, and errors when outside either (intersect_decision, inside_both_is_reported, outside_either_is_error). Projection round-trip accuracy, the 1 mm / 1e-6° claims and NaN beyond the horizon are sampled with the real geodesic library on constructed crossings.",
                 "Trusted: Lean kernel + Mathlib; tidwall/geodesic as reference solver; harness.")
CLAIMS["C14"] = ("PARTIAL. Lean theorems about a labelled transition system of Encode's two goroutines (producer: header, pipe writes, close, wait, gzip close; consumer: line filter) for every chunking, line structure, failing index k, compression flag and EVERY interleaving/read size: every step decreases a measure (terminates, run_length_bounded); a state where nobody can move is a returned state with the filter exited (no_deadlock); k < W always ends in an error (every_fault_index_fails), no fault always ends in success (no_fault_succeeds) with all bytes delivered (success_complete); result is schedule independent. The model is tied to the code by running the real encoder under a fault-injecting writer with a watchdog and goroutine accounting.",
                 "Trusted: Lean kernel; io.Pipe contract as modelled; harness watchdog.")
CLAIMS["C01"] = ("PARTIAL. Lean theorems: the schema regenerated from types.go/encoder.go equals the committed one (every tag, omitempty, format/scan literal, replacer pair, cp1252 table); for EVERY text the encoder's output (Go EscapeText then the replacer) followed by markup is read back by the decoder's character-data reader as the same text with only non-XML characters substituted (text_roundtrip, text_roundtrip_exact); windows-1252 encode/decode inversion; Duration print/parse = truncation to centiseconds and stable re-encoding for every non-negative duration. The executable model of encoding/xml marshal/unmarshal + all 17 codecs must reproduce the implementation's bytes and decoded values on every generated database, and the implementation's own encode->decode->encode is judged against the declarative quantisation Spec.quant.",
                 "Trusted: Lean kernel; hand model of encoding/xml; float<->decimal model validated per run; gzip / x-text as libraries.")
CLAIMS["C13"] = ("Lean theorems, for every database whose marshalled token stream is an element tree with schema names (premise evaluated on every generated case): document_is_wellformed — the encoder's bytes are the UTF-8 header followed by a body that a strict XML tokenizer (five predefined entities, character references, XML Char range, nesting check) accepts with no syntax error and that, layout whitespace aside, reads back as exactly that tree with every text returned as the original with only non-XML characters substituted; document_is_laptimer_rendering (markup and indentation untouched by the replacer, line-by-line filtering = whole-document replacing); for EVERY text: character-wise LapTimer spelling, LF/TAB literal, quotes as predefined entities; field syntax proved for every value for durations (MM:SS.cc) and lap dates 1969–2068 (DD-MON-YY,HH:MM:SS upper case UTC); schema tie. PARTIAL only in: the numeric field grammars that depend on float formatting (coordinates, fixed decimals) and the marshaller's walk (struct order, omitempty), which are decided per generated document by the grammar predicates and by model = implementation; gzip output is gunzipped and compared.",
                 "Trusted: Lean kernel; hand model of encoding/xml's printer and of the marshaller; float formatting model; compress/gzip.")

NA_REASON = "check under construction in this round (design in DESIGN.md); will be claimed once its model, theorems and correspondence exist"


def main():
    ids = [json.loads(l)["id"] for l in open(os.path.join(ROOT, "properties.jsonl"))]
    claimed = [i for i in ids if i in CLAIMS and i in PROPS]
    m = {
        "version": 1,
        "setup_cmd": "bin/setup",
        "hooks": {"guard": "verif",
                  "enable": "go build -tags verif (the harness module replaces github.com/stevenh/tracktools => /repo)",
                  "baseline_off_cmd": "cd /repo && GOFLAGS=-mod=mod GOPROXY=off GOSUMDB=off go test -json -vet=off -count=1 -timeout 25m ./...",
                  "source_commits": HOOK_COMMITS, "add_only": True},
        "engines": [{"name": "lean4-proof+correspondence", "path": "/verif/bin/check", "serves_properties": claimed,
                     "kind_free_text": "Lean 4 theorems about executable models; models tied to /repo by a go/ast translator (regenerated tables) and by in-process differential correspondence through a compiled Lean driver"}],
        "checks": [],
        "notes": "See DESIGN.md. bin/check <ID> --tier quick|thorough; --replay <file> re-runs a recorded case. known_findings.json lists fixed/known defects.",
        "not_applicable": [],
    }
    for pid in ids:
        if pid in claimed:
            text, note = CLAIMS[pid]
            m["checks"].append({
                "property_id": pid,
                "quick_cmd": f"bin/check {pid} --tier quick",
                "thorough_cmd": f"bin/check {pid} --tier thorough",
                "evidence_file": f"/verif/evidence/{pid}.json",
                "replay_cmd_template": f"bin/check {pid} --replay {{path}}",
                "engine": "lean4-proof+correspondence",
                "level_claimed": {"category": "proof", "text": text, "design_ref": "DESIGN.md section 6, " + pid},
                "level_note": note,
                "technique": TECH,
            })
        else:
            m["not_applicable"].append({"property_id": pid, "reason": NA_REASON})
    json.dump(m, open(os.path.join(ROOT, "MANIFEST.json"), "w"), indent=1)
    print("claimed:", " ".join(claimed))


HOOK_COMMITS = ["b48bb30", "2ccd6b5"]

if __name__ == "__main__":
    main()
