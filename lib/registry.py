"""Per-property configuration of bin/check.

props        Lean module holding the property's theorems (every `theorem` in it is audited)
streams      (harness area, quick cases, thorough cases per seed)
clauses      spec clauses (prefixes) whose failure is a violation of THIS property
rule         how cases are generated / what makes one non-trivial (copied into the evidence)
"""

KERNEL = ["Lean 4.33 kernel (+ leanchecker re-check in the thorough tier)",
          "axioms accepted: propext, Classical.choice, Quot.sound (audited per theorem on every run)"]
TIE = ["translator /verif/go/extract (go/ast) regenerating lean/TrackVerif/Generated on every run",
       "correspondence harness /verif/go/harness + compiled Lean driver (Lean compiler/runtime, host IEEE-754)"]

PROPS = {
    "C10": {
        "props": "TrackVerif.TA.PropsC10",
        "streams": [("TA", 1500, 20000)],
        "clauses": ["ta.dual_unit", "ta.decode"],
        "rule": "PRNG(seed) logs: 40% well-formed logs (column subsets/permutations of the 35 headers, 0..40 rows, lap markers, comments), "
                "60% imperial/metric single-row log pairs built with exact decimal arithmetic in independent random layouts; "
                "non-trivial = pair case, or log with >= 3 lines; distinct by SHA-1 of the op text",
        "trusted_base": KERNEL + TIE + ["strconv.ParseFloat modelled by an exact correctly-rounded decimal->double conversion (validated in area DEC)",
                                        "encoding/csv, bufio.Scanner modelled (per-line grammar)"],
        "assumptions": ["theorems are over exact rationals; float64 evaluation differs by one rounding per operation (checked at 1e-12 relative on every pair case)",
                        "model ties: regenerated column/constant/converter tables + correspondence on this run's cases only"],
    },
    "C02": {
        "props": "TrackVerif.TA.PropsC02",
        "streams": [("TA", 1500, 20000)],
        "clauses": ["ta.decode", "ta.no_row_loss", "ta.malformed_accepted", "ta.no_hang"],
        "rule": "PRNG(seed) well-formed logs: column subsets/permutations of the 35 known headers (quoted or bare, LF or CRLF, "
                "with or without final newline), 0..40 rows (up to 400 in thorough), lap markers at arbitrary positions, header/trailing comments; "
                "plus the real 12k-line log (head and lap-boundary excerpts in quick, whole file in thorough); non-trivial = >= 3 lines; distinct by SHA-1",
        "trusted_base": KERNEL + TIE + ["strconv / fmt.Sscanf / time.ParseDuration / encoding/csv / bufio.Scanner modelled for the grammar TrackAddict writes; other inputs are `unmodelled`"],
        "assumptions": ["scalar parsers are modelled, not verified; their agreement with Go is checked on every generated value",
                        "model ties: regenerated column/literal tables + correspondence on this run's cases only"],
        "partial_notes": ["per-scalar parse∘print round trips (e.g. 'S.mmm' ↦ ms) are validated by correspondence, not yet stated as theorems"],
    },
    "C15": {
        "props": "TrackVerif.TA.PropsC15",
        "streams": [("TA", 2000, 30000)],
        "clauses": ["ta.malformed_accepted", "ta.no_panic", "ta.no_hang", "ta.no_row_loss"],
        "rule": "PRNG(seed): 90% damaged logs (1..3 mutations of a well-formed log: deleted/duplicated field, truncated line, colon dropped, "
                "value-less comments, blank line, stray quote, unparsable value, unknown column, random bytes, overlong line, duplicated/deleted line, "
                "swapped characters), 10% well-formed; fixed corpus of past crashers first; non-trivial = >= 3 lines; distinct by SHA-1",
        "trusted_base": KERNEL + TIE + ["no-panic of encoding/csv, fmt.Sscanf, time.ParseDuration, regexp, strconv on arbitrary bytes is assumed of the standard library (exercised by the mutated stream)",
                                        "invalid UTF-8 is outside the String-based model: only crash-freedom is checked there"],
        "assumptions": ["the model has a panic branch wherever the Go code indexes/slices (parts[1], s.Laps[len-1], data[i]); that list was read from the four anchored files"],
    },
    "C03": {
        "props": "TrackVerif.Conv.PropsC03",
        "streams": [("CV", 1200, 15000)],
        "clauses": ["cv.convert", "cv.fix_ids", "cv.first_fix_zero", "cv.overall_distance", "cv.lap_constants", "cv.true_distance", "cv.no_crash"],
        "rule": "PRNG(seed) sessions rendered as TrackAddict logs and decoded by the real decoder: 0..7 laps, 0..25 rows per lap with arbitrary GPS-update "
                "patterns, positions from a palette of 2..8 points (real WGS-84 inverse distances for every ordered pair are sent as the model's oracle), "
                "with/without acceleration and OBD columns, option sets (track, vehicle override, tags, note, positioning, differential status, start date); "
                "non-trivial = at least one converted lap; distinct by SHA-1",
        "trusted_base": KERNEL + TIE + ["the geodesic library's Inverse is a parameter of the model (its real results are the oracle table); that its results are the true distances is checked separately, on two-fix laps, against bounds from an independent great-circle angle and the ellipsoid's radii of curvature (clause cv.true_distance; recorded finding at latitude 45.0000000)",
                                        "math.Round / float64 arithmetic: Lean Float (host IEEE-754) in the correspondence, exact rationals in theorems"],
        "assumptions": ["theorems quantify over an arbitrary inverse function and an arbitrary numeric structure (CNum); float rounding is not modelled in theorems",
                        "sessions are produced by the real decoder from generated logs (shapes the decoder cannot produce are not exercised)"],
    },
    "C11": {
        "props": "TrackVerif.Conv.PropsC11",
        "streams": [("CV", 1200, 15000)],
        "clauses": ["cv.convert", "cv.no_crash", "cv.predictor_value"],
        "rule": "as C03, with OBD columns in 3 of 4 sessions, arbitrary interleavings of GPS-update and OBD-update rows, channel subsets, predictors "
                "{default, PiecewiseLinear, PiecewiseConstant, a non-interpolating harness predictor, nil}; one case in six runs Session.PredictOBD with gonum's "
                "Akima / Fritsch-Butland / natural / clamped / not-a-knot cubic predictors against a predictor of the same type fitted per channel (oracle on the implementation side); "
                "converters and sessions are reused within a case; fixed corpus: no OBD columns, never-updating OBD, a two-reading interpolation; "
                "non-trivial = at least one converted lap",
        "trusted_base": KERNEL + TIE + ["gonum interp.PiecewiseLinear/PiecewiseConstant are modelled (Fit panics for < 2 or non-increasing xs; Predict as read from the vendored source)",
                                        "reflection loops of OBD.appendValues/OBD.set are modelled as 'non-nil channels in field order'",
                                        "gonum's cubic predictors are not modelled: for them the harness is the oracle (same type, fitted to one channel's readings alone; bit-equal values)"],
        "assumptions": ["rows before the first fresh reading and channel sets that vary between rows are outside the modelled domain (driver answers SKIP)",
                        "linear_between/linear_at_knot are proved for exact rationals"],
    },
    "C12": {
        "props": "TrackVerif.Conv.PropsC12",
        "streams": [("CV", 1000, 12000), ("CL", 30, 300)],
        "clauses": ["cv.shift_constant", "cv.no_crash", "cl.pipeline", "cl.precedence", "cl.exit_status", "cl.spurious_failure"],
        "rule": "metamorphic op: the same generated session converted with and without a start date (impl vs impl), D in {logged day, next day, arbitrary day}, with and without a time of day, "
                "carried in UTC or another location; converters and sessions reused within a case; "
                "sessions start within 20 s of UTC midnight one time in three and arbitrary epochs one time in six; non-trivial = at least one converted lap; "
                "plus the built `tracktools convert` with --start-date / StartDate under several time zones (TZ), its output compared with the library pipeline for the reported options",
        "trusted_base": KERNEL + TIE + ["time.Time arithmetic modelled as Int nanoseconds; UTC midnight = floor to 86400 s"],
        "assumptions": ["time zone offsets in the log do not exist in TrackAddict's 'UTC Time' column (Unix seconds)"],
    },
    "C04": {
        "props": "TrackVerif.GP.PropsC04",
        "streams": [("GP", 5000, 40000)],
        "clauses": ["gp.name_shape", "gp.validate", "gp.grouping", "gp.input_slot", "gp.process", "gp.osfs", "gp.no_crash"],
        "rule": "PRNG(seed): 10% direct Match calls (documented names, near misses with one character replaced, mixed case, non-ASCII look-alikes), 10% FileSlice.Validate on "
                "chapter lists with gaps/duplicates/odd starts, 10% argument lists, 70% whole Process runs on listings drawn from a name universe mixing both conventions, gaps, "
                "GH/GX duplicates, look-alikes and directories (a sub-directory answers ReadDir with a valid name and records the access); the visiting order of the groups is read "
                "from the processor's own debug log and handed to the model; non-trivial = a name that matches / a list of >= 2 chapters / a run with >= 1 encoder start",
        "trusted_base": KERNEL + TIE + ["regexp engine: for an anchored fixed-length sequence of rune classes FindStringSubmatch is position-wise membership (patterns are parsed by regexp/syntax in the translator; any other shape fails extraction)",
                                        "fs.WalkDir visits the root's entries in name order and prunes directories on SkipDir; sort.Sort on distinct chapters"],
        "assumptions": ["Go map iteration order is observed, not forced; the all-orders claim is the theorem only_valid_joined / invalid_stops"],
    },
    "C05": {
        "props": "TrackVerif.GP.PropsC05",
        "streams": [("GP", 5000, 40000)],
        "clauses": ["gp.at_most_once", "gp.no_clobber", "gp.argv_shape", "gp.temp_gone", "gp.sources_intact", "gp.listed_are_outputs", "gp.input_slot", "gp.process", "gp.no_crash", "gp.osfs"],
        "rule": "as C04; every 25th case drives the processor's real os-backed filesystem adapter (hook VerifBaseFS) through random create/chtimes/stat/remove/createtemp/readdir sequences in a scratch directory and compares with the model filesystem the theorems assume; configs vary overwrite, skip lists, output dir in {'', '.', other}, five templates (incl. one constant name shared by all groups), five argument lists with -i \"\" at different "
                "positions; pre-existing outputs; half of the runs inject one failing operation (stat, readdir, temp create, temp write, close, encoder run, chtimes) at a random position; "
                "corpus: one scenario with EVERY single failing operation position 0..21 enumerated; recording in-memory filesystem installed through the verif hook",
        "trusted_base": KERNEL + TIE + ["OS filesystem modelled as a map path -> mtime with one injected failing operation; Remove never fails (outside the property's fault list)",
                                        "html/template on {{.Name}}/{{.Ext}}/literal text is plain substitution for [A-Za-z0-9._-] data",
                                        "hook pkg/gopro/verif_hooks.go (build tag verif) installs the recording filesystem"],
        "assumptions": ["theorems quantify over every fault position (fs.fault arbitrary) and every initial filesystem; at most one injected fault per run"],
    },
    "C06": {
        "props": "TrackVerif.GPMF.PropsC06",
        "streams": [("GM", 2500, 40000)],
        "clauses": ["gm.walk", "gm.walk_no_panic", "gm.read", "gm.truncated_accepted", "gm.no_panic", "gm.no_hang"],
        "rule": "every 8th case runs the real gpmf.Walk over a generated tree with a random set of elements answered ErrSkip and optionally one failing element, and compares the visited sequence with the walker model; PRNG(seed) KLV trees written by the harness: 1..2 devices x 0..3 streams (some nested one level deeper), all 16 value types under unparsed keys with size 1..255, "
                "repeat 0..40, every padding residue, extreme payloads (all-zero, all-ones, sign bit), dates, strings with NUL/Latin-1 bytes; sensors with SCAL, metadata, faces; "
                "plus well-formed trees cut short anywhere but between two top-level elements (must be an error), mutated trees, mutated real captures and random bytes; corpus: past crashers and the real .raw captures (two small ones in quick, all four in thorough); "
                "non-trivial = >= 16 bytes; distinct by SHA-1",
        "trusted_base": KERNEL + TIE + ["encoding/binary.Read / io.LimitedReader / io.ReadFull / io.CopyN semantics modelled on byte lists",
                                        "time.Parse of the 16-byte GPMF date layout modelled as a validity predicate"],
        "assumptions": ["theorems are per-element step lemmas (leaf, container, truncation) rather than one whole-tree round-trip theorem; whole trees are covered by the correspondence"],
        "partial_notes": ["read(encode tree) = tree for whole trees is established by composition of the step theorems only informally; the tree walker (gpmf.Walk with ErrSkip) is covered by correspondence of the decoder's offset walk, not by a theorem"],
    },
    "C07": {
        "props": "TrackVerif.GPMF.PropsC07",
        "streams": [("GM", 2500, 40000)],
        "clauses": ["gm.read", "gm.no_panic"],
        "rule": "as C06; sensor generator: scale vectors of length 0,1,2,w (entries 1..10000, sometimes 0, int16/int32/uint/float32 typed), every scalable raw type, 0..4 samples, "
                "value counts that are / are not multiples of the sample width, SCAL+data pairs interleaved with unscaled elements, GPSF/GPSP with right and wrong types, "
                "FACE records of all four layouts incl. undersized records and missing type definitions",
        "trusted_base": KERNEL + TIE + ["encoding/binary.Read / io.LimitedReader / io.ReadFull / io.CopyN semantics modelled on byte lists",
                                        "time.Parse of the 16-byte GPMF date layout modelled as a validity predicate"],
        "assumptions": ["division is IEEE in the correspondence (bit-exact) and exact in theorems (FNum structure)"],
    },
    "C08": {
        "props": "TrackVerif.GPMF.PropsC08",
        "streams": [("M4", 1500, 25000)],
        "clauses": ["m4.decode", "m4.no_panic", "m4.no_hang"],
        "rule": "PRNG(seed) MP4 files synthesised byte-by-byte (ftyp, mdat, moov/trak/mdia/mdhd/hdlr/minf/stbl): 1..9 samples composed into chunks of 1..3, minimal or redundant stsc runs, "
                "arbitrary run-length splits of stts with deltas from {0,1,17,500,1000,1001,3003,90000} and surplus entries, explicit or uniform stsz, stco or co64, chunks placed in "
                "random order with gaps, timescales {1,24,600,999,1000,1001,30000,48000,90000,1e6}, video / other meta tracks before the GoPro MET track; each sample a GPMF payload with "
                "0..4 GPS, 0..6 ACCL, MAGN readings; one case in five has broken tables; the harness checks that mp4ff parses back the tables it wrote; non-trivial = >= 2 samples",
        "trusted_base": KERNEL + TIE + ["Eyevinn/mp4ff box parsing: DecodeFile returns the tables that were written (echo-checked per case)",
                                        "io.Seek + io.LimitReader modelled as drop/take on the file bytes"],
        "assumptions": ["the per-payload GPMF parse (readAll) enters telemetry_is_concatenation as a hypothesis per sample; its own theorems are C06/C07/C16"],
    },
    "C09": {
        "props": "TrackVerif.GPMF.PropsC09",
        "streams": [("GM", 3000, 40000), ("M4", 1500, 25000)],
        "clauses": ["gm.no_panic", "gm.no_hang", "m4.no_panic", "m4.no_hang"],
        "rule": "reader: 90% malformed input (1..3 mutations of generated trees: bit flips, truncation, header-field overwrite, zeroed words, random tail, duplicated slices; mutated heads of "
                "the real captures; random bytes), corpus of every past crasher; decoder: 80% broken sample tables (zero timescale, FirstChunk 0, zero / huge samples-per-chunk, "
                "truncated stts / chunk offsets, random offsets and sizes, missing co box, missing track, empty stsc / stts, swapped entries, extra samples) with optionally mutated payload; "
                "10 s watchdog per case; non-trivial = >= 16 bytes / >= 2 samples",
        "trusted_base": KERNEL + TIE + ["crash points of the modelled files were read from the source (index, slice, divide, nil dereference) and appear as Outcome.panic branches in the model; "
                                        "stack exhaustion from pathological nesting and allocation failure are runtime limits outside the model",
                                        "mp4ff itself is assumed not to crash on an otherwise valid container"],
        "assumptions": ["termination: every Lean definition is total (structural recursion / fuel); the fuel bound |s|+1 reflects that each reader iteration consumes at least 8 bytes"],
    },
    "C16": {
        "props": "TrackVerif.GPMF.PropsC16",
        "streams": [("GM", 2500, 40000)],
        "clauses": ["gm.read", "gm.no_panic"],
        "rule": "as C06; metadata generator: 1..2 devices (DVID/DVNM present or absent, DVNM restated after the streams) x 0..3 streams with arbitrary subsets and orders of "
                "STNM/SIUN/UNIT/TYPE/TSMP/TMPC/GPSF/GPSP/GPSU with distinct values, exposing elements (GPS5/ACCL/GYRO/WRGB/FACE/FCNM/ISOE) anywhere in the stream; every element's "
                "Metadata map is dumped key-sorted and compared",
        "trusted_base": KERNEL + TIE + ["encoding/binary.Read / io.LimitedReader / io.ReadFull / io.CopyN semantics modelled on byte lists",
                                        "time.Parse of the 16-byte GPMF date layout modelled as a validity predicate"],
        "assumptions": ["map aliasing (a sensor element's Metadata IS its stream's map) is modelled by resolving the alias to the stream's final map when dumping"],
    },
    "C17": {
        "props": "TrackVerif.Geo.PropsC17",
        "streams": [("GE", 6000, 60000), ("CL", 60, 600)],
        "clauses": ["ge.online_hit", "ge.online_miss", "ge.endpoint_order", "ge.tol_monotone", "ge.no_crash", "cl.laptimes"],
        "rule": "PRNG(seed) tuples: line 1 m..1 km (log-uniform) at any bearing, |lat| < 84.9, any longitude, tolerance 1 cm..30 m (log-uniform), radius Earth/Moon/1 km/2x; position before, beside and "
                "beyond the segment at 0..3 tolerances, one third placed at 0.97/0.985/1.02/1.03 x tolerance (just outside the guard band); each case evaluates OnLine for (a,b), (b,a) and 2x tolerance "
                "against the independent oracle distance; non-trivial = position within 3 tolerances",
        "trusted_base": KERNEL + TIE + ["Lean Float = host IEEE-754 double + host libm (sin, cos, asin, sqrt) vs Go's math package: intermediate quantities compared at 1e-9 relative",
                                        "independent oracle in the harness: 3-D unit-vector great-circle distance / distance-to-segment in float64",
                                        "hook pkg/gopro/gpmf/geo/verif_hooks.go (build tag verif) exposes unexported helpers"],
        "assumptions": ["the guard band (1% + 0.1 mm) is the floating-point slack: it is established by this sampling only, the theorems over ℝ have no band"],
        "partial_notes": ["onLine_sound / onLine_complete (full equivalence with the great-circle distance to the segment over ℝ, incl. the cross-track and along-track tests) are not proved; proved: tolerance monotonicity for any order, end caps (also end to end in degrees: near_an_end_is_hit, position_at_an_end_is_hit), hav/invHav/havSin identities, end-point symmetry of the end-cap and length quantities, and that longitudes enter only through their differences and only up to whole turns of 360 degrees (longitude_period, longitude_origin), and the decision for positions on the line's own great circle (zero bearing difference): between the ends = hit for every tolerance, zero included (on_the_segment_is_hit, non-vacuous along the equator: equator_on_great_circle); beyond an end by more than the tolerance = miss (beyond_the_end_is_miss)"],
    },
    "C18": {
        "props": "TrackVerif.Geo.PropsC18",
        "streams": [("GE", 6000, 60000)],
        "clauses": ["ge.distance", "ge.distance_symmetric", "ge.distance_linear", "ge.distance_zero", "ge.line_distance"],
        "rule": "position pairs 0.1 m..1000 km apart (log-uniform) at all bearings, |lat| < 89 (fast method: < 10 km, |lat| < 79), identical positions 1 in 30, several radii; each case also evaluates the "
                "swapped pair and twice the radius; (segment, position) pairs as C17 with positions up to 300 m away for DistanceToLine; oracle = vector great-circle distance / distance to segment",
        "trusted_base": KERNEL + TIE + ["Lean Float = host IEEE-754 double + host libm (sin, cos, asin, sqrt) vs Go's math package: intermediate quantities compared at 1e-9 relative",
                                        "independent oracle in the harness: 3-D unit-vector great-circle distance / distance-to-segment in float64",
                                        "hook pkg/gopro/gpmf/geo/verif_hooks.go (build tag verif) exposes unexported helpers"],
        "assumptions": ["relative-error bounds (1e-9 default, 1e-5 fast, 1% line) are properties of float64 evaluation and are sampled; coordinates are float64 so an absolute slack of 1e-8 m is allowed"],
        "partial_notes": ["equirectangular 1e-5 accuracy bound and DistanceToLine's 1% bound: sampled only"],
    },
    "C01": {
        "props": "TrackVerif.LT.PropsC01",
        "streams": [("LT", 400, 8000)],
        "clauses": ["lt.decode_own", "lt.roundtrip", "lt.reencode", "lt.cp1252", "lt.gzip_rt", "lt.no_crash", "lt.encode_fails", "lt.encode_model", "lt.decode_model", "lt.decode_mut", "lt.gen_schema"],
        "rule": "type-directed generator over the real laptimer.DB type by reflection (0..3 laps, 0..4 fixes, intermediates, videos, vehicles with gears/tyres, every optional OBD/TPMS/acceleration block present, absent or empty); "
                "values inside the representable domain: dates 1969-01-01..2068-12-31 incl. the century pivot, leap days and :59 boundaries, durations 0..600 min on the centisecond grid, coordinates on the 8th decimal incl. ±1e-8 and -0, "
                "fixed-decimal floats on their grid, raw floats anywhere in ±1e12, comma-free tags, single-token ratings, text from a pool with every XML-significant character, CR, CRLF, look-alike entities, ]]>, non-ASCII and astral characters; "
                "real Encode -> Decode -> Encode, gzip variant gunzipped and compared, windows-1252 transcoding via x/text; every 5th case decodes a MUTATED encoder output (entity insertions incl. &quote;, charset changes, truncation, digit swaps) with the real decoder and the model; "
                "corpus: the two real LapTimer exports in /repo/test (windows-1252), the all-XML-characters text, the recorded omitempty witness",
        "trusted_base": KERNEL + TIE + ["float64 <-> decimal text (strconv %.Nf / shortest / ParseFloat) is the exact-rational model of Common/Dec validated against Go on every run (area DEC); theorems treat the printed decimal as the value",
                                        "compress/gzip and x/text charmap are libraries: gunzip(gzip(b)) = b and the 256-entry table (dumped by the translator) are observed, not proved",
                                        "encoding/xml (printer, tokenizer, reflection walk) is modelled by hand from its source; the model must agree byte for byte / value for value on every generated case"],
        "assumptions": ["invalid UTF-8 input bytes and XML constructs LapTimer never writes (CDATA, DTD, namespaces, non-ASCII names) are reported as unmodelled (SKIP), never guessed"],
        "partial_notes": ["the whole-document theorem decode(encode db) = quant db is not proved: proved are the schema tie, the text pipeline for every string, windows-1252 table inversion and the duration codec; the other scalar codecs and the tree walk are decided per run by model = implementation plus the declarative Spec.quant"],
    },
    "C13": {
        "props": "TrackVerif.LT.PropsC13",
        "streams": [("LT", 400, 8000)],
        "clauses": ["lt.header", "lt.second_document", "lt.wellformed", "lt.literal_ws", "lt.field_syntax", "lt.gzip", "lt.no_crash", "lt.encode_fails", "lt.encode_model", "lt.gen_schema"],
        "rule": "as C01, half of the cases outside the round-trip domain: text with control characters, U+FFFE/U+FFFF, lone U+FFFD, sub-centisecond durations, extra float precision, nanosecond dates; the encoder's bytes are read by the strict tokenizer "
                "(five predefined entities, numeric references, XML Char range, nesting) and must yield exactly the element structure and texts the declarative schema prescribes (non-XML characters substituted), no &#xA; / &#x9;, "
                "every structured element must satisfy its grammar predicate (dates, durations, coordinates, positioning, relative-to-start, intermediates, fixed decimals), gzip output must gunzip to exactly the plain bytes",
        "trusted_base": KERNEL + TIE + ["the strict tokenizer and grammar predicates are Lean code written from the XML grammar / LapTimer's documented field syntax, independent of the printer model",
                                        "float formatting as in C01"],
        "assumptions": ["MM in MM:SS.cc is read as 'at least two digits' (100+ minute durations print three)"],
        "partial_notes": ["proved for all inputs: header, schema tie, the complete text pipeline, whole-document strict well-formedness and read-back for every element tree, duration and lap-date syntax; decided per run: float-dependent field grammars, the marshaller's walk (model = implementation)"],
    },
    "C14": {
        "props": "TrackVerif.LT.PropsC14",
        "streams": [("LT", 500, 6000)],
        "clauses": ["lt.returns", "lt.no_crash", "lt.no_leak", "lt.quiescent", "lt.marshal_error_reported", "lt.fault_reported", "lt.spurious_error", "lt.complete", "lt.prefix", "lt.write_count", "lt.protocol_model"],
        "rule": "real laptimer.Encoder.Encode against a writer failing from its k-th Write (k over 0..W+2 and none; every index of one two-buffer document in the corpus), documents 0..400 laps with 0..5000-byte "
                "fields (a few bytes to ~100 pipe buffers), plain and gzip, GOMAXPROCS 1/2/4/16, Gosched in the writer; 5 s watchdog; goroutine count before/after; delivered bytes must be a prefix of / equal the fault-free output; "
                "fault-free write count must equal the model's totalWrites and the model's outcome under a fair schedule must equal the implementation's",
        "trusted_base": KERNEL + TIE + ["io.Pipe / bufio / xml.Encoder behave as their documented contract, which is what the transition system encodes (a pipe Write returns only when fully read or the read side is closed; "
                                        "CloseWithError wakes the peer); the Go scheduler, real time and the race detector are outside the model",
                                        "5 s watchdog = 'blocked forever'"],
        "assumptions": ["gzip: the model counts one output write per filter write plus one at Close; compress/gzip buffers internally, so for gz=1 the write-count correspondence is not checked, only the returned error / completeness / no-hang / no-leak spec"],
        "partial_notes": ["'bounded time' is proved as: every schedule is finite (measure) and every stuck state is a returned state; wall-clock bounds and the race detector are sampled only"],
    },
    "C19": {
        "props": "TrackVerif.Geo.PropsC19",
        "streams": [("GE", 5000, 40000)],
        "clauses": ["ge.sincosd", "ge.atan2d", "ge.meet", "ge.same_direction", "ge.horizon_nan", "ge.forward_nan", "ge.roundtrip_geo", "ge.reverse_nan", "ge.roundtrip_plane", "ge.on_both", "ge.crossing_mm", "ge.inside_ok", "ge.outside_err"],
        "rule": "plane algebra on random points (bit-exact); sameDirection near 0/90/180/360; Forward/Reverse round trips for centres anywhere and points 1 m..8900 km away (NaN expected beyond 10200 km); "
                "segment pairs built by geodesic.Direct through a known crossing point C at crossing angles 5..175 deg, lengths 10 m..1000 km, C at 5..95% (inside) or outside each segment, not straddling "
                "the 180th meridian: extended intersection within 1 mm of C, azimuths equal/opposite within 1e-6 deg, Intersect ok iff inside both",
        "trusted_base": KERNEL + TIE + ["Lean Float = host IEEE-754 double + host libm (sin, cos, asin, sqrt) vs Go's math package: intermediate quantities compared at 1e-9 relative",
                                        "independent oracle in the harness: 3-D unit-vector great-circle distance / distance-to-segment in float64",
                                        "hook pkg/gopro/gpmf/geo/verif_hooks.go (build tag verif) exposes unexported helpers"] + ["tidwall/geodesic (Inverse, Direct, GenInverse, GenPosition) is the reference solver: the ellipsoidal accuracy claims are sampled against it, not proved"],
        "assumptions": ["no port of the geodesic series exists in the model; theorems cover the plane algebra and the decision logic"],
        "partial_notes": ["projection round-trip accuracy, convergence of the Newton / re-centring iterations and the millimetre bound are sampled only"],
    },
    "C20": {
        "props": "TrackVerif.CLI.PropsC20",
        "streams": [("CL", 220, 3000)],
        "clauses": ["cl.precedence", "cl.config_search", "cl.exit_status", "cl.silent_failure", "cl.spurious_failure", "cl.pipeline", "cl.gopro_pipeline", "cl.output_target", "cl.laptimes", "cl.no_crash", "cl.no_hang", "cl.model_vs_spec"],
        "rule": "the tracktools binary is built from /repo's working tree and run in a scratch directory with HOME redirected: commands convert / gopro convert / gopro laptimes / gopro render; every flag independently given or not "
                "(incl. empty values and repeated --tags), config file explicit (--config), ./.tracktools.toml, $HOME/.tracktools.toml, both (cwd must win), none (embedded default) or an explicit file that does not exist; config content states "
                "each option with probability 3/5 (TOML integers into float fields, nested Start table, foreign sections, unknown keys); the effective options are read from the binary's own 'Loaded config' trace line and compared with the Lean model = spec; "
                "convert: generated TrackAddict logs (or garbage) via file or stdin, output to file or stdout, bytes compared with the library pipeline run on the effective options, unknown decoder/encoder names and undecodable input must exit non-zero with a message; "
                "laptimes: synthetic GoPro MP4 with GPS5 readings on a grid around the start point, reported hits compared with OnLine on the line built from centre, bearing +/- 90 and distance",
        "trusted_base": KERNEL + TIE + ["cobra/pflag flag parsing, viper TOML loading / key lower-casing / file search and mapstructure decoding are libraries: their behaviour is what the harness observes on the built binary, the model states it",
                                        "the effective options are taken from the binary's trace log line (fmt %#v of the command struct after loadConfig)",
                                        "gopro render's image output and gopro convert's ffmpeg run are not exercised (only their option resolution)"],
        "assumptions": ["'built-in default' = the flag's zero default when a config file is used, the embedded .tracktools.toml when no config file exists"],
        "partial_notes": ["the precedence theorem is about the model of loadConfig; pipeline equality, exit statuses and the lap-line report are decided per run on the binary"],
    },
}
