"""Per-property configuration of bin/check.

props        Lean module holding the property's theorems (every `theorem` in it is audited)
streams      (harness area, quick cases, thorough cases per seed)
clauses      spec clauses (prefixes) whose failure is a violation of THIS property
rule         how cases are generated / what makes one non-trivial (copied into the evidence)
"""

KERNEL = ["Lean 4.33 kernel (+ leanchecker re-check in the thorough tier)",
          "axioms accepted: propext, Classical.choice, Quot.sound (audited per theorem on every run)"]
TIE = ["translator /verif/go/extract (go/ast) regenerating lean/TrackVerif/Generated on every run",
       "correspondence harness /verif/go/harness + compiled Lean driver (Lean compiler/runtime, host IEEE-754)"]

PROPS = {
    "C10": {
        "props": "TrackVerif.TA.PropsC10",
        "streams": [("TA", 1500, 20000)],
        "clauses": ["ta.dual_unit", "ta.decode"],
        "rule": "PRNG(seed) logs: 40% well-formed logs (column subsets/permutations of the 35 headers, 0..40 rows, lap markers, comments), "
                "60% imperial/metric single-row log pairs built with exact decimal arithmetic in independent random layouts; "
                "non-trivial = pair case, or log with >= 3 lines; distinct by SHA-1 of the op text",
        "trusted_base": KERNEL + TIE + ["strconv.ParseFloat modelled by an exact correctly-rounded decimal->double conversion (validated in area DEC)",
                                        "encoding/csv, bufio.Scanner modelled (per-line grammar)"],
        "assumptions": ["theorems are over exact rationals; float64 evaluation differs by one rounding per operation (checked at 1e-12 relative on every pair case)",
                        "model ties: regenerated column/constant/converter tables + correspondence on this run's cases only"],
    },
}
